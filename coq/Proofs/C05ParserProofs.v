(* C05parser — lemmas about the DecodingLayerParser model. *)
From GP Require Import Base ListX C05ParserModel.
From Coq Require Import Lia ZifyBool ZifyNat.
Open Scope Z_scope.

(* ------------------------------------------------------------------ the loop against the spec *)
Section LoopSpec.
Variable St : Type.
Variable fam : family St.
Variable reg : Z -> option nat.       (* packet decoding: LayerType -> struct that decodes it *)
Variable lkf : Z -> option nat.       (* the parser's container, as a function *)

Definition insub (t : Z) : bool := match lkf t with Some _ => true | None => false end.

(* every type of the set is decoded, in packet decoding, by the same struct *)
Definition like_with_like : Prop :=
  forall t o, lkf t = Some o -> reg t = Some o /\ (o < length fam)%nat.
(* LayerTypeZero is not a registered type *)
Definition zero_free : Prop := lkf 0 = None.
(* the per-layer sub-checks C05_<l>_fresh: DecodeFromBytes does not depend on the old state *)
Definition fresh_indep : Prop :=
  forall o d, nth_error fam o = Some d -> forall s data, dec d s data = dec d (zero d) data.

Definition res_of (s : stop St) (pe : pend) : lres :=
  match s with
  | SUnsup t => LRet t false
  | SFail e => match e_cls e with DPanic => LPanic | _ => LRet 0 true end
  | SEnd => match pe with
            | PNoDecoder t => LRet t false
            | PFuel => LFuel
            | _ => LRet 0 false
            end
  end.

Lemma pkt_head fuel typ data c pe :
  pkt fuel fam reg typ data = (c, pe) ->
  (c = [] /\ (pe = PFuel \/ pe = PNoDecoder typ)) \/ (exists e r, c = e :: r /\ e_typ e = typ).
Proof.
  destruct fuel as [|fuel]; cbn [pkt]; intros H.
  - inversion H; auto.
  - destruct (reg typ) as [o|]; [|inversion H; auto].
    destruct (nth_error fam o) as [d|]; [|inversion H; auto].
    destruct (dec d (zero d) data) as [[s' cls] t].
    destruct cls.
    + destruct (next_of d s' =? 0).
      * inversion H; right; eexists; eexists; split; [reflexivity|reflexivity].
      * destruct (payload_of d s') as [|b r].
        -- inversion H; right; eexists; eexists; split; [reflexivity|reflexivity].
        -- destruct (pkt fuel fam reg (next_of d s') (b :: r)) as [c' pe'].
           inversion H; right; eexists; eexists; split; [reflexivity|reflexivity].
    + inversion H; right; eexists; eexists; split; [reflexivity|reflexivity].
    + inversion H; right; eexists; eexists; split; [reflexivity|reflexivity].
Qed.

Lemma insub_some t o : lkf t = Some o -> insub t = true.
Proof. unfold insub; intros ->; reflexivity. Qed.
Lemma insub_none t : lkf t = None -> insub t = false.
Proof. unfold insub; intros ->; reflexivity. Qed.

Lemma loop_spec (lk : Z -> outcome (option nat)) :
  (forall t, lk t = Ok (lkf t)) -> like_with_like -> zero_free -> fresh_indep ->
  forall fuel st typ o data decoded tr chain pe pre s,
    length st = length fam -> lkf typ = Some o ->
    pkt fuel fam reg typ data = (chain, pe) -> pe <> PFuel ->
    run_prefix insub chain = (pre, s) ->
    loop fuel fam lk st typ o data decoded tr =
      mkL (expected_store st (touched pre s)) (decoded ++ map e_typ pre)
          (tr || expected_trunc (touched pre s)) (res_of s pe).
Proof.
  intros Hlk Hlike Hzero Hfresh.
  induction fuel as [|fuel IH]; intros st typ o data decoded tr chain pe pre s Hlen Htyp Hpkt Hpe Hrun.
  - cbn in Hpkt. inversion Hpkt; subst. congruence.
  - destruct (Hlike _ _ Htyp) as [Hreg Ho].
    cbn [pkt] in Hpkt. rewrite Hreg in Hpkt.
    destruct (nth_error fam o) as [d|] eqn:Hd.
    2:{ apply nth_error_None in Hd. lia. }
    destruct (nth_error st o) as [s0|] eqn:Hs0.
    2:{ apply nth_error_None in Hs0. lia. }
    cbn [loop]. rewrite Hd, Hs0. rewrite (Hfresh _ _ Hd s0 data).
    destruct (dec d (zero d) data) as [[s' cls] t] eqn:Hdec.
    pose proof (insub_some _ _ Htyp) as Hin.
    destruct cls.
    + (* DOk *)
      destruct (next_of d s' =? 0) eqn:Hz.
      * inversion Hpkt; subst chain pe; clear Hpkt.
        cbn [run_prefix e_typ e_cls] in Hrun. rewrite Hin in Hrun. inversion Hrun; subst pre s; clear Hrun.
        cbn [touched app map e_typ expected_store fold_left e_obj e_state expected_trunc existsb e_trunc res_of].
        rewrite orb_false_r.
        destruct (payload_of d s') as [|b r]; [reflexivity|].
        apply Z.eqb_eq in Hz. rewrite Hlk, Hz, Hzero. reflexivity.
      * destruct (payload_of d s') as [|b r] eqn:Hpay.
        -- inversion Hpkt; subst chain pe; clear Hpkt.
           cbn [run_prefix e_typ e_cls] in Hrun. rewrite Hin in Hrun. inversion Hrun; subst pre s; clear Hrun.
           cbn [touched app map e_typ expected_store fold_left e_obj e_state expected_trunc existsb e_trunc res_of].
           rewrite orb_false_r. reflexivity.
        -- destruct (pkt fuel fam reg (next_of d s') (b :: r)) as [c pe'] eqn:Hrec.
           inversion Hpkt; subst chain pe'; clear Hpkt.
           cbn [run_prefix e_typ e_cls] in Hrun. rewrite Hin in Hrun.
           destruct (run_prefix insub c) as [p1 s1] eqn:Hrun1.
           inversion Hrun; subst pre s; clear Hrun.
           rewrite Hlk.
           destruct (lkf (next_of d s')) as [o'|] eqn:Hnext.
           ++ rewrite (IH (upd st o s') (next_of d s') o' (b :: r) (decoded ++ [typ]) (tr || t) c pe p1 s1);
                auto.
              ** cbn [touched app map e_typ expected_store fold_left e_obj e_state expected_trunc existsb e_trunc].
                 unfold touched, expected_store, expected_trunc.
                 rewrite <- app_assoc. cbn [app]. rewrite orb_assoc. reflexivity.
              ** rewrite upd_length. exact Hlen.
           ++ pose proof (insub_none _ Hnext) as Hout.
              destruct (pkt_head _ _ _ _ _ Hrec) as [[Hc Hp]|[e2 [r2 [Hc He2]]]].
              ** subst c. cbn in Hrun1. inversion Hrun1; subst p1 s1.
                 destruct Hp as [Hp|Hp]; [congruence|]. subst pe.
                 cbn [touched app map e_typ expected_store fold_left e_obj e_state expected_trunc existsb e_trunc res_of].
                 rewrite orb_false_r. reflexivity.
              ** subst c. cbn [run_prefix] in Hrun1. rewrite He2, Hout in Hrun1. inversion Hrun1; subst p1 s1.
                 cbn [touched app map e_typ expected_store fold_left e_obj e_state expected_trunc existsb e_trunc res_of].
                 rewrite orb_false_r. reflexivity.
    + (* DErr *)
      inversion Hpkt; subst chain pe; clear Hpkt.
      cbn [run_prefix e_typ e_cls] in Hrun. rewrite Hin in Hrun. inversion Hrun; subst pre s; clear Hrun.
      cbn [touched app map e_typ expected_store fold_left e_obj e_state expected_trunc existsb e_trunc res_of e_cls].
      rewrite orb_false_r, app_nil_r. reflexivity.
    + (* DPanic *)
      inversion Hpkt; subst chain pe; clear Hpkt.
      cbn [run_prefix e_typ e_cls] in Hrun. rewrite Hin in Hrun. inversion Hrun; subst pre s; clear Hrun.
      cbn [touched app map e_typ expected_store fold_left e_obj e_state expected_trunc existsb e_trunc res_of e_cls].
      rewrite orb_false_r, app_nil_r. reflexivity.
Qed.

End LoopSpec.

(* ------------------------------------------------------------------ DecodeLayers against the spec *)
Section ParseSpec.
Variable St : Type.
Variable fam : family St.
Variable reg : Z -> option nat.
Variable lkf : Z -> option nat.

(* the parser's container implements lkf, and LayersDecoder captured the first decoder from it *)
Definition implements (fixed : bool) (p : parser) : Prop :=
  (forall t, lookup fixed (p_cont p) t = Ok (lkf t)) /\ p_firstdec p = lkf (p_first p).

Lemma decode_layers_spec p st0 decoded0 data :
  implements true p -> like_with_like St fam reg lkf -> zero_free lkf -> fresh_indep St fam ->
  length st0 = length fam ->
  snd (packet_chain fam reg (p_first p) data) <> PFuel ->
  decode_layers true fam p st0 decoded0 data =
    spec_parse fam reg (insub lkf) (p_first p) (p_ignpanic p) (p_ignunsup p) st0 data.
Proof.
  intros [Hlk Hfd] Hlike Hzero Hfresh Hlen Hfuel.
  unfold decode_layers, spec_parse.
  destruct (packet_chain fam reg (p_first p) data) as [chain pe] eqn:Hchain.
  destruct (run_prefix (insub lkf) chain) as [pre s] eqn:Hrun.
  cbn [snd] in Hfuel.
  rewrite Hfd.
  destruct (lkf (p_first p)) as [o|] eqn:Hfirst.
  - unfold packet_chain in Hchain.
    rewrite (loop_spec St fam reg lkf _ Hlk Hlike Hzero Hfresh _ _ _ _ _ [] false _ _ _ _ Hlen Hfirst Hchain Hfuel Hrun).
    cbn [l_store l_decoded l_trunc l_res app orb].
    f_equal.
    destruct s as [|t|e]; cbn [res_of expected_err].
    + destruct pe; cbn; try reflexivity; try congruence.
      unfold unsup_err. destruct (t =? 0) eqn:E; cbn; [rewrite orb_true_r; reflexivity|rewrite orb_false_r; reflexivity].
    + unfold unsup_err. destruct (t =? 0) eqn:E; cbn; [rewrite orb_true_r; reflexivity|rewrite orb_false_r; reflexivity].
    + destruct (e_cls e); reflexivity.
  - (* no decoder for the first type *)
    pose proof (insub_none _ _ Hfirst) as Hout.
    unfold packet_chain in Hchain.
    destruct (pkt_head _ _ _ _ _ _ _ _ Hchain) as [[Hc Hp]|[e2 [r2 [Hc He2]]]].
    + subst chain. cbn in Hrun. inversion Hrun; subst pre s.
      destruct Hp as [Hp|Hp]; [congruence|]. subst pe.
      cbn [touched app map expected_store fold_left expected_trunc existsb expected_err l_store l_decoded l_trunc l_res].
      f_equal. unfold unsup_err.
      destruct (p_first p =? 0) eqn:E; cbn; [rewrite orb_true_r; reflexivity|rewrite orb_false_r; reflexivity].
    + subst chain. cbn [run_prefix] in Hrun. rewrite He2, Hout in Hrun. inversion Hrun; subst pre s.
      cbn [touched app map expected_store fold_left expected_trunc existsb expected_err l_store l_decoded l_trunc l_res].
      f_equal. unfold unsup_err.
      destruct (p_first p =? 0) eqn:E; cbn; [rewrite orb_true_r; reflexivity|rewrite orb_false_r; reflexivity].
Qed.

End ParseSpec.

(* ------------------------------------------------------------------ containers *)
Definition mem (t : Z) (cans : list Z) : bool := existsb (Z.eqb t) cans.

(* one Put on the abstract lookup function *)
Definition put_fun (f : Z -> option nat) (cans : list Z) (o : nat) : Z -> option nat :=
  fun t => if mem t cans then Some o else f t.

Lemma spec_lookup_fold puts : forall f t,
  fold_left (fun g p => put_fun g (fst p) (snd p)) puts f t =
  match spec_lookup puts t with Some o => Some o | None => f t end.
Proof.
  induction puts as [|[cans o] r IH]; intros f t; cbn [fold_left spec_lookup fst snd].
  - reflexivity.
  - rewrite IH. destruct (spec_lookup r t); [reflexivity|].
    unfold put_fun, mem. destruct (existsb (Z.eqb t) cans); reflexivity.
Qed.

(* map *)
Lemma map_put_get cans : forall m o t, map_get (map_put m cans o) t = put_fun (map_get m) cans o t.
Proof.
  unfold map_put, map_get, put_fun, mem.
  induction cans as [|c r IH]; intros m o t; cbn [fold_left existsb].
  - reflexivity.
  - rewrite IH. unfold map_set.
    destruct (existsb (Z.eqb t) r); [rewrite orb_true_r; reflexivity|rewrite orb_false_r; reflexivity].
Qed.

(* array *)
Lemma array_set_get l : forall t o t', array_get (array_set l t o) t' = if t' =? t then Some o else array_get l t'.
Proof.
  induction l as [|[t0 o0] r IH]; intros t o t'; cbn [array_set array_get].
  - rewrite (Z.eqb_sym t t'). reflexivity.
  - destruct (t0 =? t) eqn:E0; cbn [array_get].
    + apply Z.eqb_eq in E0; subst t0. rewrite (Z.eqb_sym t t'). destruct (t' =? t); reflexivity.
    + rewrite IH. destruct (t0 =? t') eqn:E1; [|reflexivity].
      apply Z.eqb_eq in E1; subst t0. rewrite E0. reflexivity.
Qed.

Lemma array_put_get cans : forall l o t, array_get (array_put l cans o) t = put_fun (array_get l) cans o t.
Proof.
  unfold array_put, put_fun, mem.
  induction cans as [|c r IH]; intros l o t; cbn [fold_left existsb].
  - reflexivity.
  - rewrite IH, array_set_get.
    destruct (existsb (Z.eqb t) r); [rewrite orb_true_r; reflexivity|rewrite orb_false_r; reflexivity].
Qed.

(* sparse *)
Definition sget (dl : csparse) (t : Z) : option nat := if t <? 0 then None else nth (Z.to_nat t) dl None.

Lemma sparse_get_sget dl t : sparse_get true dl t = Ok (sget dl t).
Proof.
  unfold sparse_get, sget.
  destruct (t <? Z.of_nat (length dl)) eqn:E; destruct (t <? 0) eqn:E0; try reflexivity.
  rewrite nth_overflow; [reflexivity|lia].
Qed.

Lemma sget_grow dl n t : sget (dl ++ repeat None n) t = sget dl t.
Proof.
  unfold sget. destruct (t <? 0); [reflexivity|].
  destruct (Nat.lt_ge_cases (Z.to_nat t) (length dl)) as [H|H].
  - rewrite app_nth1; auto.
  - rewrite app_nth2; auto. rewrite (nth_overflow dl); auto.
    destruct (Nat.lt_ge_cases (Z.to_nat t - length dl) n) as [H1|H1].
    + rewrite nth_repeat. reflexivity.
    + rewrite nth_overflow; [reflexivity|rewrite repeat_length; auto].
Qed.

Lemma nth_upd_opt (d : csparse) j v i : (j < length d)%nat ->
  nth i (upd d j v) None = if (i =? j)%nat then v else nth i d None.
Proof.
  intros Hj.
  pose proof (nth_error_upd d j v i) as H.
  destruct (i =? j)%nat eqn:E.
  - assert (j <? length d = true)%nat by (apply Nat.ltb_lt; exact Hj). rewrite H0 in H.
    apply nth_error_nth with (d := None) in H. exact H.
  - destruct (nth_error d i) as [x|] eqn:Hx.
    + rewrite (nth_error_nth _ _ None H). rewrite (nth_error_nth _ _ None Hx). reflexivity.
    + rewrite nth_overflow; [|rewrite upd_length; apply nth_error_None; exact Hx].
      rewrite nth_overflow; [reflexivity|apply nth_error_None; exact Hx].
Qed.

Definition sparse_assign (cans : list Z) (o : nat) (init : outcome csparse) : outcome csparse :=
  fold_left (fun acc t => obind acc (fun d =>
               if (t <? 0) || (Z.of_nat (length d) <=? t) then Panic 1
               else Ok (upd d (Z.to_nat t) (Some o)))) cans init.

Lemma sparse_assign_panic cans o s : sparse_assign cans o (Panic s) = Panic s.
Proof. induction cans; cbn; auto. Qed.
Lemma sparse_assign_err cans o s : sparse_assign cans o (Err s) = Err s.
Proof. induction cans; cbn; auto. Qed.

Lemma sparse_assign_cons c r o d :
  sparse_assign (c :: r) o (Ok d) =
  sparse_assign r o (if (c <? 0) || (Z.of_nat (length d) <=? c) then Panic 1
                     else Ok (upd d (Z.to_nat c) (Some o))).
Proof. reflexivity. Qed.

Lemma sparse_assign_ok cans o : forall d d',
  sparse_assign cans o (Ok d) = Ok d' ->
  length d' = length d /\ forall t, sget d' t = put_fun (sget d) cans o t.
Proof.
  induction cans as [|c r IH]; intros d d' H.
  - cbn in H. inversion H; subst. split; [reflexivity|]. intros; reflexivity.
  - rewrite sparse_assign_cons in H.
    destruct ((c <? 0) || (Z.of_nat (length d) <=? c)) eqn:E.
    + rewrite sparse_assign_panic in H. discriminate.
    + apply IH in H. destruct H as [Hl Hg]. rewrite upd_length in Hl. split; [exact Hl|].
      intros t. rewrite Hg. unfold put_fun, mem. cbn [existsb].
      destruct (existsb (Z.eqb t) r); [rewrite orb_true_r; reflexivity|rewrite orb_false_r].
      unfold sget. destruct (t <? 0) eqn:Et.
      * destruct (t =? c) eqn:Etc; [lia|reflexivity].
      * rewrite nth_upd_opt by lia.
        destruct (t =? c) eqn:Etc.
        -- replace (Z.to_nat t =? Z.to_nat c)%nat with true by lia. reflexivity.
        -- replace (Z.to_nat t =? Z.to_nat c)%nat with false by lia. reflexivity.
Qed.

Lemma sparse_put_get dl cans o dl' :
  sparse_put dl cans o = Ok dl' -> forall t, sget dl' t = put_fun (sget dl) cans o t.
Proof.
  unfold sparse_put. intros H t.
  set (len := Z.of_nat (length dl)) in *.
  set (maxt := fold_left (fun m t0 => if t0 >? m then t0 else m) cans (len - 1)) in *.
  destruct (int64 (maxt - len + 1) >? 0).
  - destruct (len + int64 (maxt - len + 1) >? makeslice_limit); cbn [obind] in H; [discriminate|].
    fold (sparse_assign cans o (Ok (dl ++ repeat None (Z.to_nat (int64 (maxt - len + 1)))))) in H.
    apply sparse_assign_ok in H. destruct H as [_ H]. rewrite H.
    unfold put_fun. rewrite sget_grow. reflexivity.
  - cbn [obind] in H. fold (sparse_assign cans o (Ok dl)) in H.
    apply sparse_assign_ok in H. destruct H as [_ H]. apply H.
Qed.

(* the lookup function a container implements (fixed Decoder) *)
Definition lk_of (c : container) : Z -> option nat :=
  match c with
  | CMap m => map_get m
  | CSparse l => sget l
  | CArray l => array_get l
  | CCustom f => f
  end.

Lemma lookup_lk_of c t : lookup true c t = Ok (lk_of c t).
Proof. destruct c; cbn [lookup lk_of]; auto. apply sparse_get_sget. Qed.

Lemma put_lk_of c cans o c' : put c cans o = Ok c' -> forall t, lk_of c' t = put_fun (lk_of c) cans o t.
Proof.
  destruct c; cbn [put]; intros H t.
  - inversion H; subst. cbn [lk_of]. apply map_put_get.
  - destruct (sparse_put l cans o) as [l'| |] eqn:E; cbn [obind] in H; try discriminate.
    inversion H; subst. cbn [lk_of]. eapply sparse_put_get; eauto.
  - inversion H; subst. cbn [lk_of]. apply array_put_get.
  - inversion H; subst. cbn [lk_of]. reflexivity.
Qed.

Lemma put_all_panic puts s :
  fold_left (fun acc p => obind acc (fun c => put c (fst p) (snd p))) puts (Panic s) = Panic s.
Proof. induction puts; cbn; auto. Qed.
Lemma put_all_err puts s :
  fold_left (fun acc p => obind acc (fun c => put c (fst p) (snd p))) puts (Err s) = Err s.
Proof. induction puts; cbn; auto. Qed.

Lemma put_all_lk_of puts : forall c c', put_all c puts = Ok c' ->
  forall t, lk_of c' t = fold_left (fun g p => put_fun g (fst p) (snd p)) puts (lk_of c) t.
Proof.
  unfold put_all.
  induction puts as [|[cans o] r IH]; intros c c' H t; cbn [fold_left fst snd obind] in *.
  - inversion H; subst; reflexivity.
  - destruct (put c cans o) as [c1| |] eqn:E.
    + rewrite (IH _ _ H).
      assert (Hext : forall g1 g2 : Z -> option nat, (forall x, g1 x = g2 x) ->
                forall x, fold_left (fun g p => put_fun g (fst p) (snd p)) r g1 x =
                          fold_left (fun g p => put_fun g (fst p) (snd p)) r g2 x).
      { clear. induction r as [|[cs o'] r IHr]; intros g1 g2 Hg x; cbn [fold_left fst snd]; auto.
        apply IHr. intros y. unfold put_fun. rewrite Hg. reflexivity. }
      apply Hext. intros x. eapply put_lk_of; eauto.
    + rewrite put_all_err in H. discriminate.
    + rewrite put_all_panic in H. discriminate.
Qed.

Lemma lk_of_empty kind t : lk_of (empty_of kind) t = None.
Proof.
  unfold empty_of. destruct (kind =? 0); [reflexivity|]. destruct (kind =? 1).
  - cbn. unfold sget. destruct (t <? 0); [reflexivity|]. destruct (Z.to_nat t); reflexivity.
  - destruct (kind =? 2); reflexivity.
Qed.

(* every container kind, once the Puts succeeded, implements spec_lookup *)
Lemma containers_spec kind puts c :
  put_all (empty_of kind) puts = Ok c -> forall t, lookup true c t = Ok (spec_lookup puts t).
Proof.
  intros H t. rewrite lookup_lk_of. rewrite (put_all_lk_of _ _ _ H).
  rewrite spec_lookup_fold. rewrite lk_of_empty. destruct (spec_lookup puts t); reflexivity.
Qed.

(* ------------------------------------------------------------------ construction never panics ... *)
Lemma put_all_ok_nonsparse puts : forall c,
  (match c with CSparse _ => False | _ => True end) -> exists c', put_all c puts = Ok c' /\
  (match c' with CSparse _ => False | _ => True end).
Proof.
  unfold put_all.
  induction puts as [|[cans o] r IH]; intros c Hc; cbn [fold_left obind fst snd].
  - exists c; auto.
  - destruct c; try contradiction; cbn [put]; apply IH; exact I.
Qed.

(* ... except for the sparse container, which needs types it can index *)
Definition types_ok (cans : list Z) : Prop := Forall (fun t => 0 <= t < makeslice_limit) cans.

Lemma fold_max_spec cans : forall m0,
  let m := fold_left (fun m t => if t >? m then t else m) cans m0 in
  m0 <= m /\ Forall (fun t => t <= m) cans /\ (m = m0 \/ In m cans).
Proof.
  induction cans as [|c r IH]; intros m0; cbn [fold_left].
  - repeat split; auto. lia.
  - specialize (IH (if c >? m0 then c else m0)). cbn zeta in IH. destruct IH as [H1 [H2 H3]].
    set (m := fold_left (fun m t => if t >? m then t else m) r (if c >? m0 then c else m0)) in *.
    destruct (c >? m0) eqn:E.
    + repeat split; [lia| constructor; [lia|exact H2] |].
      destruct H3 as [H3|H3]; [right; left; lia|right; right; exact H3].
    + repeat split; [lia| constructor; [lia|exact H2] |].
      destruct H3 as [H3|H3]; [left; exact H3|right; right; exact H3].
Qed.

Lemma int64_small x : 0 <= x <= makeslice_limit -> int64 x = x.
Proof.
  unfold int64, sint, makeslice_limit. intros H.
  change (2 ^ 64) with 18446744073709551616. change (2 ^ 44) with 17592186044416 in H.
  rewrite Z.mod_small by lia.
  change (18446744073709551616 / 2) with 9223372036854775808.
  destruct (x <? 9223372036854775808) eqn:E; lia.
Qed.

Lemma sparse_assign_total cans o : forall d,
  Forall (fun t => 0 <= t < Z.of_nat (length d)) cans ->
  exists d', sparse_assign cans o (Ok d) = Ok d' /\ length d' = length d.
Proof.
  induction cans as [|c r IH]; intros d H.
  - exists d; split; reflexivity.
  - rewrite sparse_assign_cons. inversion H as [|? ? Hc Hr]; subst.
    replace ((c <? 0) || (Z.of_nat (length d) <=? c)) with false by lia.
    destruct (IH (upd d (Z.to_nat c) (Some o))) as [d' [H1 H2]].
    + rewrite upd_length. exact Hr.
    + exists d'. split; [exact H1|]. rewrite H2. apply upd_length.
Qed.

Lemma sparse_put_total dl cans o :
  Z.of_nat (length dl) <= makeslice_limit -> types_ok cans ->
  exists dl', sparse_put dl cans o = Ok dl' /\ Z.of_nat (length dl') <= makeslice_limit.
Proof.
  intros Hlen Hcans. unfold sparse_put.
  set (len := Z.of_nat (length dl)) in *.
  destruct (fold_max_spec cans (len - 1)) as [H1 [H2 H3]]. cbn zeta in *.
  set (maxt := fold_left (fun m t => if t >? m then t else m) cans (len - 1)) in *.
  assert (Hmax : maxt < makeslice_limit).
  { destruct H3 as [H3|H3]; [lia|]. unfold types_ok in Hcans. rewrite Forall_forall in Hcans.
    apply Hcans in H3. lia. }
  assert (Hlim : 0 < makeslice_limit) by (unfold makeslice_limit; lia).
  rewrite int64_small by lia.
  destruct (maxt - len + 1 >? 0) eqn:E.
  - replace (len + (maxt - len + 1) >? makeslice_limit) with false by lia. cbn [obind].
    fold (sparse_assign cans o (Ok (dl ++ repeat None (Z.to_nat (maxt - len + 1))))).
    destruct (sparse_assign_total cans o (dl ++ repeat None (Z.to_nat (maxt - len + 1)))) as [d' [Hd1 Hd2]].
    + rewrite app_length, repeat_length. unfold types_ok in Hcans.
      rewrite Forall_forall in *. intros t Ht. specialize (Hcans t Ht). specialize (H2 t Ht). cbn beta in *. lia.
    + exists d'. split; [exact Hd1|]. rewrite Hd2, app_length, repeat_length. lia.
  - cbn [obind]. fold (sparse_assign cans o (Ok dl)).
    destruct (sparse_assign_total cans o dl) as [d' [Hd1 Hd2]].
    + unfold types_ok in Hcans. rewrite Forall_forall in *. intros t Ht.
      specialize (Hcans t Ht). specialize (H2 t Ht). cbn beta in *. lia.
    + exists d'. split; [exact Hd1|]. rewrite Hd2. exact Hlen.
Qed.

Lemma put_all_ok_sparse puts : forall dl,
  Z.of_nat (length dl) <= makeslice_limit -> Forall (fun p => types_ok (fst p)) puts ->
  exists c', put_all (CSparse dl) puts = Ok c'.
Proof.
  unfold put_all.
  induction puts as [|[cans o] r IH]; intros dl Hlen H; cbn [fold_left obind fst snd].
  - eexists; reflexivity.
  - inversion H as [|? ? Hc Hr]; subst. cbn [fst] in Hc.
    destruct (sparse_put_total dl cans o Hlen Hc) as [dl' [H1 H2]].
    cbn [put]. rewrite H1. cbn [obind]. apply IH; auto.
Qed.

(* a negative type in CanDecode makes Put on the sparse container panic (Go: index out of range) *)
Lemma sparse_assign_neg cans o : forall d, (exists t, In t cans /\ t < 0) ->
  exists s, sparse_assign cans o (Ok d) = Panic s.
Proof.
  induction cans as [|c r IH]; intros d [t [Hin Ht]]; [destruct Hin|].
  rewrite sparse_assign_cons.
  destruct ((c <? 0) || (Z.of_nat (length d) <=? c)) eqn:E.
  - rewrite sparse_assign_panic. eexists; reflexivity.
  - destruct Hin as [Hin|Hin]; [subst; lia|]. apply IH. exists t; auto.
Qed.

(* ------------------------------------------------------------------ the leading run *)
Section Prefix.
Variable St : Type.
Variable insub : Z -> bool.

Lemma run_prefix_longest (chain : list (elem St)) : forall pre s,
  run_prefix insub chain = (pre, s) ->
  exists rest, chain = pre ++ rest /\
    Forall (fun e => insub (e_typ e) = true /\ e_cls e = DOk) pre /\
    match s with
    | SEnd => rest = []
    | SUnsup t => exists e r, rest = e :: r /\ e_typ e = t /\ insub t = false
    | SFail e => exists r, rest = e :: r /\ insub (e_typ e) = true /\ e_cls e <> DOk
    end.
Proof.
  induction chain as [|e r IH]; intros pre s H; cbn [run_prefix] in H.
  - inversion H; subst. exists []. repeat split; auto.
  - destruct (insub (e_typ e)) eqn:Ein.
    + destruct (e_cls e) eqn:Ecls.
      * destruct (run_prefix insub r) as [p1 s1] eqn:Hr. inversion H; subst.
        destruct (IH _ _ eq_refl) as [rest [H1 [H2 H3]]].
        exists rest. split; [cbn; rewrite <- H1; reflexivity|]. split; [constructor; auto|exact H3].
      * inversion H; subst. exists (e :: r). repeat split; auto. exists r. repeat split; auto. congruence.
      * inversion H; subst. exists (e :: r). repeat split; auto. exists r. repeat split; auto. congruence.
    + inversion H; subst. exists (e :: r). repeat split; auto. exists e, r. auto.
Qed.

(* what the objects hold afterwards *)
Lemma expected_store_untouched (tch : list (elem St)) : forall st o,
  (forall e, In e tch -> e_obj e <> o) -> nth_error (expected_store st tch) o = nth_error st o.
Proof.
  unfold expected_store.
  induction tch as [|e r IH]; intros st o H; cbn [fold_left]; [reflexivity|].
  rewrite IH by (intros e' He'; apply H; right; exact He').
  rewrite nth_error_upd. assert (e_obj e <> o) by (apply H; left; reflexivity).
  replace (o =? e_obj e)%nat with false by lia. reflexivity.
Qed.

Lemma expected_store_length (tch : list (elem St)) : forall st, length (expected_store st tch) = length st.
Proof.
  unfold expected_store. induction tch as [|e r IH]; intros st; cbn [fold_left]; [reflexivity|].
  rewrite IH. apply upd_length.
Qed.

Lemma expected_store_last (a b : list (elem St)) e st :
  (e_obj e < length st)%nat -> (forall e', In e' b -> e_obj e' <> e_obj e) ->
  nth_error (expected_store st (a ++ e :: b)) (e_obj e) = Some (e_state e).
Proof.
  intros Hlt Hb. unfold expected_store. rewrite fold_left_app. cbn [fold_left].
  fold (expected_store st a).
  fold (expected_store (upd (expected_store st a) (e_obj e) (e_state e)) b).
  rewrite expected_store_untouched by exact Hb.
  rewrite nth_error_upd, Nat.eqb_refl, expected_store_length.
  replace (e_obj e <? length st)%nat with true by lia. reflexivity.
Qed.

End Prefix.

(* ------------------------------------------------------------------ the reference chain *)
Section Chain.
Variable St : Type.
Variable fam : family St.
Variable reg : Z -> option nat.

(* every element of the chain is the registered struct decoding into a fresh object *)
Definition elem_ok (e : elem St) : Prop :=
  reg (e_typ e) = Some (e_obj e) /\
  exists d data, nth_error fam (e_obj e) = Some d /\ dec d (zero d) data = (e_state e, e_cls e, e_trunc e).

Lemma pkt_elems fuel : forall typ data chain pe,
  pkt fuel fam reg typ data = (chain, pe) -> Forall elem_ok chain.
Proof.
  induction fuel as [|fuel IH]; intros typ data chain pe H; cbn [pkt] in H.
  - inversion H; constructor.
  - destruct (reg typ) as [o|] eqn:Hreg; [|inversion H; constructor].
    destruct (nth_error fam o) as [d|] eqn:Hd; [|inversion H; constructor].
    destruct (dec d (zero d) data) as [[s' cls] t] eqn:Hdec.
    assert (Hok : elem_ok (mkE typ o s' cls t)).
    { split; [exact Hreg|]. exists d, data. split; [exact Hd|exact Hdec]. }
    destruct cls.
    + destruct (next_of d s' =? 0); [inversion H; subst; constructor; [exact Hok|constructor]|].
      destruct (payload_of d s') as [|b r]; [inversion H; subst; constructor; [exact Hok|constructor]|].
      destruct (pkt fuel fam reg (next_of d s') (b :: r)) as [c pe'] eqn:Hrec.
      inversion H; subst. constructor; [exact Hok|]. eapply IH; eauto.
    + inversion H; subst; constructor; [exact Hok|constructor].
    + inversion H; subst; constructor; [exact Hok|constructor].
Qed.

(* progress: a successful decode leaves a strictly shorter payload.  The Go loops have no fuel;
   they terminate exactly under this condition, and then the model's fuel is never exhausted. *)
Definition progress : Prop :=
  forall o d, nth_error fam o = Some d -> forall data s' t,
    dec d (zero d) data = (s', DOk, t) -> (length (payload_of d s') < length data)%nat.

Lemma pkt_no_fuel : progress -> forall fuel typ data chain pe,
  (length data < fuel)%nat -> pkt fuel fam reg typ data = (chain, pe) -> pe <> PFuel.
Proof.
  intros Hp. induction fuel as [|fuel IH]; intros typ data chain pe Hlt H; [lia|].
  cbn [pkt] in H.
  destruct (reg typ) as [o|] eqn:Hreg; [|inversion H; congruence].
  destruct (nth_error fam o) as [d|] eqn:Hd; [|inversion H; congruence].
  destruct (dec d (zero d) data) as [[s' cls] t] eqn:Hdec.
  destruct cls; try (inversion H; congruence).
  destruct (next_of d s' =? 0); [inversion H; congruence|].
  pose proof (Hp _ _ Hd _ _ _ Hdec) as Hlen.
  destruct (payload_of d s') as [|b r] eqn:Hpay; [inversion H; congruence|].
  destruct (pkt fuel fam reg (next_of d s') (b :: r)) as [c pe'] eqn:Hrec.
  inversion H; subst. eapply IH; [|exact Hrec]. lia.
Qed.

Lemma packet_chain_no_fuel : progress -> forall first data, snd (packet_chain fam reg first data) <> PFuel.
Proof.
  intros Hp first data. unfold packet_chain.
  destruct (pkt (fuel_for data) fam reg first data) as [c pe] eqn:H. cbn [snd].
  eapply (pkt_no_fuel Hp (fuel_for data)); [|exact H]. unfold fuel_for. lia.
Qed.

End Chain.

(* ------------------------------------------------------------------ no panic, sequences *)
Section Results.
Variable St : Type.
Variable fam : family St.
Variable reg : Z -> option nat.
Variable lkf : Z -> option nat.

(* decoders of the layers given to the parser never panic *)
Definition panic_free : Prop :=
  forall t o d, lkf t = Some o -> nth_error fam o = Some d ->
    forall s data, snd (fst (dec d s data)) <> DPanic.

Lemma spec_no_panic first ip iu st0 data :
  like_with_like St fam reg lkf -> panic_free ->
  snd (packet_chain fam reg first data) <> PFuel ->
  let r := spec_parse fam reg (insub lkf) first ip iu st0 data in
  r_err r <> EPanic /\ r_err r <> ERecovered.
Proof.
  intros Hlike Hpf Hfuel. unfold spec_parse.
  destruct (packet_chain fam reg first data) as [chain pe] eqn:Hchain. cbn [snd] in Hfuel.
  destruct (run_prefix (insub lkf) chain) as [pre s] eqn:Hrun. cbn [r_err].
  destruct s as [|t|e]; cbn [expected_err].
  - destruct pe; try congruence; unfold unsup_err;
      try (split; congruence); destruct (iu || (t =? 0)); split; congruence.
  - unfold unsup_err. destruct (iu || (t =? 0)); split; congruence.
  - (* the failing element is decoded by a struct of the set: it cannot have panicked *)
    destruct (run_prefix_longest St _ _ _ _ Hrun) as [rest [Hc [_ [r [Hrest [Hin _]]]]]].
    unfold packet_chain in Hchain. pose proof (pkt_elems St fam reg _ _ _ _ _ Hchain) as Hall.
    rewrite Forall_forall in Hall.
    assert (Hel : elem_ok St fam reg e) by (apply Hall; subst chain rest; apply in_or_app; right; left; reflexivity).
    destruct Hel as [Hreg [d [dat [Hd Hdec]]]].
    unfold insub in Hin. destruct (lkf (e_typ e)) as [o|] eqn:Hl; [|discriminate].
    destruct (Hlike _ _ Hl) as [Hreg' _]. rewrite Hreg in Hreg'. inversion Hreg'; subst o.
    pose proof (Hpf _ _ _ Hl Hd (zero d) dat) as Hnp. rewrite Hdec in Hnp. cbn [fst snd] in Hnp.
    destruct (e_cls e); try congruence; split; congruence.
Qed.

(* results other than the store do not depend on the store; touched objects neither *)
Lemma spec_store_indep first ip iu st1 st2 data :
  length st1 = length st2 ->
  let r1 := spec_parse fam reg (insub lkf) first ip iu st1 data in
  let r2 := spec_parse fam reg (insub lkf) first ip iu st2 data in
  r_decoded r1 = r_decoded r2 /\ r_trunc r1 = r_trunc r2 /\ r_err r1 = r_err r2 /\
  length (r_store r1) = length st1 /\
  forall o, (o < length st1)%nat ->
    nth_error (r_store r1) o = nth_error (r_store r2) o \/
    (nth_error (r_store r1) o = nth_error st1 o /\ nth_error (r_store r2) o = nth_error st2 o).
Proof.
  intros Hlen. unfold spec_parse.
  destruct (packet_chain fam reg first data) as [chain pe].
  destruct (run_prefix (insub lkf) chain) as [pre s]. cbn [r_decoded r_trunc r_err r_store].
  repeat split; auto. { apply expected_store_length. }
  intros o Ho. set (tch := touched pre s).
  destruct (in_dec Nat.eq_dec o (map e_obj tch)) as [Hin|Hnin].
  - left. apply in_map_iff in Hin. destruct Hin as [e [Heo Hin]].
    (* take the last element of tch with this object *)
    assert (Hlast : forall l : list (elem St), (exists e, e_obj e = o /\ In e l) ->
              exists a e b, l = a ++ e :: b /\ e_obj e = o /\ forall e', In e' b -> e_obj e' <> o).
    { clear. induction l as [|x r IH]; intros [e [He Hin]]; [destruct Hin|].
      destruct (in_dec Nat.eq_dec o (map e_obj r)) as [Hr|Hr].
      - apply in_map_iff in Hr. destruct Hr as [e2 [He2 Hin2]].
        destruct (IH (ex_intro _ e2 (conj He2 Hin2))) as [a [e3 [b [H1 [H2 H3]]]]].
        exists (x :: a), e3, b. split; [cbn; rewrite H1; reflexivity|auto].
      - destruct Hin as [Hin|Hin].
        + subst x. exists [], e, r. split; [reflexivity|]. split; [exact He|].
          intros e' He' Heq. apply Hr. apply in_map_iff. exists e'; auto.
        + exfalso. apply Hr. apply in_map_iff. exists e; auto. }
    destruct (Hlast tch (ex_intro _ e (conj Heo Hin))) as [a [e3 [b [H1 [H2 H3]]]]].
    rewrite H1. subst o. rewrite <- H2 in *.
    rewrite (expected_store_last St a b e3 st1) by (auto; lia).
    rewrite (expected_store_last St a b e3 st2) by (auto; lia). reflexivity.
  - right. split; apply expected_store_untouched; intros e He Heq; apply Hnin; apply in_map_iff; exists e; auto.
Qed.

Lemma decode_seq_spec p pkts : forall st0 decoded0,
  implements lkf true p -> like_with_like St fam reg lkf -> zero_free lkf -> fresh_indep St fam ->
  length st0 = length fam ->
  (forall d, In d pkts -> snd (packet_chain fam reg (p_first p) d) <> PFuel) ->
  exists stores, length stores = length pkts /\ Forall (fun st => length st = length fam) stores /\
    hd st0 stores = st0 /\
    decode_seq true fam p st0 decoded0 pkts =
      map (fun sd => spec_parse fam reg (insub lkf) (p_first p) (p_ignpanic p) (p_ignunsup p) (fst sd) (snd sd))
          (combine stores pkts).
Proof.
  induction pkts as [|d r IH]; intros st0 decoded0 Himp Hlike Hzero Hfresh Hlen Hfuel.
  - exists []. repeat split; auto.
  - cbn [decode_seq].
    rewrite (decode_layers_spec St fam reg lkf p st0 decoded0 d Himp Hlike Hzero Hfresh Hlen)
      by (apply Hfuel; left; reflexivity).
    set (r0 := spec_parse fam reg (insub lkf) (p_first p) (p_ignpanic p) (p_ignunsup p) st0 d).
    assert (Hl0 : length (r_store r0) = length fam).
    { destruct (spec_store_indep (p_first p) (p_ignpanic p) (p_ignunsup p) st0 st0 d eq_refl) as [_ [_ [_ [H _]]]].
      fold r0 in H. rewrite H. exact Hlen. }
    destruct (IH (r_store r0) (r_decoded r0) Himp Hlike Hzero Hfresh Hl0) as [stores [H1 [H2 [H3 H4]]]].
    { intros d' Hd'. apply Hfuel. right; exact Hd'. }
    exists (st0 :: stores). cbn [length combine map fst snd hd]. repeat split; auto.
    rewrite H4. reflexivity.
Qed.

End Results.

(* ------------------------------------------------------------------ the container enters only through its lookup *)
Section Ext.
Variable St : Type.
Variable fam : family St.

Lemma loop_ext (lk1 lk2 : Z -> outcome (option nat)) : (forall t, lk1 t = lk2 t) ->
  forall fuel st typ o data decoded tr,
    loop fuel fam lk1 st typ o data decoded tr = loop fuel fam lk2 st typ o data decoded tr.
Proof.
  intros Hext. induction fuel as [|fuel IH]; intros; cbn [loop]; [reflexivity|].
  destruct (nth_error fam o) as [d|]; [|reflexivity].
  destruct (nth_error st o) as [s|]; [|reflexivity].
  destruct (dec d s data) as [[s' cls] t]. destruct cls; try reflexivity.
  destruct (payload_of d s') as [|b r]; [reflexivity|].
  rewrite Hext. destruct (lk2 (next_of d s')) as [[o'|]| |]; try reflexivity. apply IH.
Qed.

Lemma decode_layers_ext lkf p1 p2 st decoded0 data :
  implements lkf true p1 -> implements lkf true p2 ->
  p_first p1 = p_first p2 -> p_ignpanic p1 = p_ignpanic p2 -> p_ignunsup p1 = p_ignunsup p2 ->
  decode_layers true fam p1 st decoded0 data = decode_layers true fam p2 st decoded0 data.
Proof.
  intros [Hl1 Hf1] [Hl2 Hf2] Hfirst Hip Hiu. unfold decode_layers.
  rewrite Hf1, Hf2, <- Hfirst, <- Hip, <- Hiu.
  destruct (lkf (p_first p1)) as [o|]; [|reflexivity].
  rewrite (loop_ext (lookup true (p_cont p1)) (lookup true (p_cont p2))); [reflexivity|].
  intros t. rewrite Hl1, Hl2. reflexivity.
Qed.

Lemma new_parser_implements kind first ip iu sub p :
  new_parser true kind first ip iu fam sub = Ok p ->
  implements (spec_lookup (puts_of fam sub)) true p /\
  p_first p = first /\ p_ignpanic p = ip /\ p_ignunsup p = iu.
Proof.
  unfold new_parser, set_container. intros H.
  destruct (put_all (empty_of kind) (puts_of fam sub)) as [c| |] eqn:Hc; cbn [obind] in H; try discriminate.
  pose proof (containers_spec _ _ _ Hc) as Hl.
  rewrite Hl in H. cbn [obind] in H. inversion H; subst. cbn.
  repeat split; auto.
Qed.

Lemma set_container_custom f lkf first ip iu :
  (forall t, f t = lkf t) ->
  exists p, set_container true (CCustom f) first ip iu = Ok p /\ implements lkf true p /\
            p_first p = first /\ p_ignpanic p = ip /\ p_ignunsup p = iu.
Proof.
  intros Hf. exists (mkP (CCustom f) first (f first) ip iu). split; [reflexivity|].
  split; [split|].
  - intros t. cbn. rewrite Hf. reflexivity.
  - cbn. apply Hf.
  - cbn. auto.
Qed.

Lemma spec_lookup_app puts cans o t :
  spec_lookup (puts ++ [(cans, o)]) t = if mem t cans then Some o else spec_lookup puts t.
Proof.
  induction puts as [|[c1 o1] r IH]; cbn [app spec_lookup].
  - unfold mem. destruct (existsb (Z.eqb t) cans); reflexivity.
  - rewrite IH. unfold mem. destruct (existsb (Z.eqb t) cans); [reflexivity|]. reflexivity.
Qed.

Lemma add_layer_implements puts p o d p' :
  implements (spec_lookup puts) true p -> nth_error fam o = Some d ->
  add_layer true p fam o = Ok p' ->
  implements (spec_lookup (puts ++ [(can d, o)])) true p' /\
  p_first p' = p_first p /\ p_ignpanic p' = p_ignpanic p /\ p_ignunsup p' = p_ignunsup p.
Proof.
  intros [Hl Hf] Hd H. unfold add_layer in H. rewrite Hd in H. unfold set_container in H.
  destruct (put (p_cont p) (can d) o) as [c| |] eqn:Hc; cbn [obind] in H; try discriminate.
  assert (Hl' : forall t, lookup true c t = Ok (spec_lookup (puts ++ [(can d, o)]) t)).
  { intros t. rewrite lookup_lk_of, (put_lk_of _ _ _ _ Hc), spec_lookup_app. unfold put_fun.
    destruct (mem t (can d)); [reflexivity|].
    pose proof (Hl t) as H1. rewrite lookup_lk_of in H1. exact H1. }
  rewrite Hl' in H. cbn [obind] in H. inversion H; subst. cbn. repeat split; auto.
Qed.

(* direct: with panic-free decoders and a total lookup the loop never panics *)
Definition objects_exist (lkf : Z -> option nat) : Prop :=
  forall t o, lkf t = Some o -> (o < length fam)%nat.
Definition panic_free_any (lkf : Z -> option nat) : Prop :=
  forall t o d, lkf t = Some o -> nth_error fam o = Some d ->
    forall s data, snd (fst (dec d s data)) <> DPanic.
Definition progress_any (lkf : Z -> option nat) : Prop :=
  forall t o d, lkf t = Some o -> nth_error fam o = Some d -> forall s data s' tr,
    dec d s data = (s', DOk, tr) -> (length (payload_of d s') < length data)%nat.

Lemma loop_no_panic lkf (lk : Z -> outcome (option nat)) :
  (forall t, lk t = Ok (lkf t)) -> objects_exist lkf -> panic_free_any lkf -> progress_any lkf ->
  forall fuel st typ o data decoded tr,
    length st = length fam -> lkf typ = Some o -> (length data < fuel)%nat ->
    exists t e, l_res (loop fuel fam lk st typ o data decoded tr) = LRet t e.
Proof.
  intros Hlk Hex Hpf Hpr. induction fuel as [|fuel IH]; intros st typ o data decoded tr Hlen Htyp Hfuel; [lia|].
  cbn [loop]. pose proof (Hex _ _ Htyp) as Ho.
  destruct (nth_error fam o) as [d|] eqn:Hd; [|apply nth_error_None in Hd; lia].
  destruct (nth_error st o) as [s|] eqn:Hs; [|apply nth_error_None in Hs; lia].
  pose proof (Hpf _ _ _ Htyp Hd s data) as Hnp.
  pose proof (Hpr _ _ _ Htyp Hd s data) as Hprog.
  destruct (dec d s data) as [[s' cls] t]. cbn [fst snd] in Hnp.
  destruct cls; [|eexists; eexists; reflexivity|congruence].
  specialize (Hprog s' t eq_refl).
  destruct (payload_of d s') as [|b r] eqn:Hpay; [eexists; eexists; reflexivity|].
  rewrite Hlk. destruct (lkf (next_of d s')) as [o'|] eqn:Hn; [|eexists; eexists; reflexivity].
  apply IH; auto. { rewrite upd_length; exact Hlen. } cbn [length] in *. lia.
Qed.

Lemma decode_layers_no_panic lkf p st decoded0 data :
  implements lkf true p -> objects_exist lkf -> panic_free_any lkf -> progress_any lkf ->
  length st = length fam ->
  let r := decode_layers true fam p st decoded0 data in r_err r <> EPanic /\ r_err r <> ERecovered.
Proof.
  intros [Hl Hf] Hex Hpf Hpr Hlen. unfold decode_layers. rewrite Hf.
  destruct (lkf (p_first p)) as [o|] eqn:Hfirst.
  - destruct (loop_no_panic lkf _ Hl Hex Hpf Hpr (fuel_for data) st (p_first p) o data [] false Hlen Hfirst)
      as [t [e He]]. { unfold fuel_for; lia. }
    cbn [r_err]. rewrite He.
    destruct (negb (t =? 0)); [destruct (p_ignunsup p); split; congruence|].
    destruct e; split; congruence.
  - cbn [r_err l_res]. destruct (negb (p_first p =? 0)); [destruct (p_ignunsup p); split; congruence|].
    split; congruence.
Qed.

End Ext.

Section Construction.
Variable St : Type.
Variable fam : family St.

Lemma new_parser_total_nonsparse kind first ip iu sub :
  kind <> 1 -> exists p, new_parser true kind first ip iu fam sub = Ok p.
Proof.
  intros Hk. unfold new_parser, set_container.
  destruct (put_all_ok_nonsparse (puts_of fam sub) (empty_of kind)) as [c [Hc _]].
  { unfold empty_of. destruct (kind =? 0) eqn:E0; [exact I|]. destruct (kind =? 1) eqn:E1; [lia|].
    destruct (kind =? 2); exact I. }
  rewrite Hc. cbn [obind]. rewrite lookup_lk_of. cbn [obind]. eexists; reflexivity.
Qed.

Lemma new_parser_total_sparse first ip iu sub :
  Forall (fun p => types_ok (fst p)) (puts_of fam sub) ->
  exists p, new_parser true 1 first ip iu fam sub = Ok p.
Proof.
  intros H. unfold new_parser, set_container. change (empty_of 1) with (CSparse []).
  destruct (put_all_ok_sparse (puts_of fam sub) [] ) as [c Hc]; auto.
  { cbn. unfold makeslice_limit. lia. }
  rewrite Hc. cbn [obind]. rewrite lookup_lk_of. cbn [obind]. eexists; reflexivity.
Qed.

End Construction.

(* ------------------------------------------------------------------ without the freshness hypothesis:
   objects that still hold their zero value, each decoded at most once by the packet *)
Section FreshObjects.
Variable St : Type.
Variable fam : family St.
Variable reg : Z -> option nat.
Variable lkf : Z -> option nat.

Definition zero_at (st : store St) (o : nat) : Prop :=
  exists d, nth_error fam o = Some d /\ nth_error st o = Some (zero d).

Lemma loop_spec_fresh (lk : Z -> outcome (option nat)) :
  (forall t, lk t = Ok (lkf t)) -> like_with_like St fam reg lkf -> zero_free lkf ->
  forall fuel st typ o data decoded tr chain pe pre s,
    length st = length fam -> lkf typ = Some o ->
    pkt fuel fam reg typ data = (chain, pe) -> pe <> PFuel ->
    run_prefix (insub lkf) chain = (pre, s) ->
    NoDup (map e_obj (touched pre s)) ->
    (forall e, In e (touched pre s) -> zero_at st (e_obj e)) ->
    loop fuel fam lk st typ o data decoded tr =
      mkL (expected_store st (touched pre s)) (decoded ++ map e_typ pre)
          (tr || expected_trunc (touched pre s)) (res_of St s pe).
Proof.
  intros Hlk Hlike Hzero.
  induction fuel as [|fuel IH]; intros st typ o data decoded tr chain pe pre s Hlen Htyp Hpkt Hpe Hrun Hnd Hz.
  - cbn in Hpkt. inversion Hpkt; subst. congruence.
  - destruct (Hlike _ _ Htyp) as [Hreg Ho].
    cbn [pkt] in Hpkt. rewrite Hreg in Hpkt.
    destruct (nth_error fam o) as [d|] eqn:Hd.
    2:{ apply nth_error_None in Hd. lia. }
    pose proof (insub_some _ _ _ Htyp) as Hin.
    destruct (dec d (zero d) data) as [[s' cls] t] eqn:Hdec.
    (* the element just decoded is the head of touched: its object holds the zero value *)
    assert (Hhead : exists rest, touched pre s = mkE typ o s' cls t :: rest /\
              match cls with
              | DOk => True
              | _ => rest = [] /\ pre = [] /\ s = SFail (mkE typ o s' cls t) /\ chain = [mkE typ o s' cls t] /\ pe = PFailed
              end).
    { destruct cls.
      - destruct (next_of d s' =? 0).
        + inversion Hpkt; subst chain pe. cbn [run_prefix e_typ e_cls] in Hrun. rewrite Hin in Hrun.
          inversion Hrun; subst. eexists; split; [reflexivity|exact I].
        + destruct (payload_of d s') as [|b r].
          * inversion Hpkt; subst chain pe. cbn [run_prefix e_typ e_cls] in Hrun. rewrite Hin in Hrun.
            inversion Hrun; subst. eexists; split; [reflexivity|exact I].
          * destruct (pkt fuel fam reg (next_of d s') (b :: r)) as [c pe'].
            inversion Hpkt; subst chain pe'. cbn [run_prefix e_typ e_cls] in Hrun. rewrite Hin in Hrun.
            destruct (run_prefix (insub lkf) c) as [p1 s1]. inversion Hrun; subst.
            eexists; split; [reflexivity|exact I].
      - inversion Hpkt; subst chain pe. cbn [run_prefix e_typ e_cls] in Hrun. rewrite Hin in Hrun.
        inversion Hrun; subst. eexists; split; [reflexivity|]. repeat split; reflexivity.
      - inversion Hpkt; subst chain pe. cbn [run_prefix e_typ e_cls] in Hrun. rewrite Hin in Hrun.
        inversion Hrun; subst. eexists; split; [reflexivity|]. repeat split; reflexivity. }
    destruct Hhead as [rest [Htch Hcls]].
    assert (Hs0 : nth_error st o = Some (zero d)).
    { destruct (Hz (mkE typ o s' cls t)) as [d' [Hd' Hst]]; [rewrite Htch; left; reflexivity|].
      cbn [e_obj] in *. rewrite Hd in Hd'. inversion Hd'; subst d'. exact Hst. }
    cbn [loop]. rewrite Hd, Hs0, Hdec.
    destruct cls.
    + (* DOk *)
      destruct (next_of d s' =? 0) eqn:Hzz.
      * inversion Hpkt; subst chain pe; clear Hpkt.
        cbn [run_prefix e_typ e_cls] in Hrun. rewrite Hin in Hrun. inversion Hrun; subst pre s; clear Hrun.
        cbn [touched app map e_typ expected_store fold_left e_obj e_state expected_trunc existsb e_trunc res_of].
        rewrite orb_false_r.
        destruct (payload_of d s') as [|b r]; [reflexivity|].
        apply Z.eqb_eq in Hzz. rewrite Hlk, Hzz, Hzero. reflexivity.
      * destruct (payload_of d s') as [|b r] eqn:Hpay.
        -- inversion Hpkt; subst chain pe; clear Hpkt.
           cbn [run_prefix e_typ e_cls] in Hrun. rewrite Hin in Hrun. inversion Hrun; subst pre s; clear Hrun.
           cbn [touched app map e_typ expected_store fold_left e_obj e_state expected_trunc existsb e_trunc res_of].
           rewrite orb_false_r. reflexivity.
        -- destruct (pkt fuel fam reg (next_of d s') (b :: r)) as [c pe'] eqn:Hrec.
           inversion Hpkt; subst chain pe'; clear Hpkt.
           cbn [run_prefix e_typ e_cls] in Hrun. rewrite Hin in Hrun.
           destruct (run_prefix (insub lkf) c) as [p1 s1] eqn:Hrun1.
           inversion Hrun; subst pre s; clear Hrun.
           assert (Hrest : rest = touched p1 s1).
           { unfold touched in Htch. cbn [app] in Htch. inversion Htch. reflexivity. }
           subst rest.
           rewrite Hlk.
           destruct (lkf (next_of d s')) as [o'|] eqn:Hnext.
           ++ rewrite (IH (upd st o s') (next_of d s') o' (b :: r) (decoded ++ [typ]) (tr || t) c pe p1 s1); auto.
              ** cbn [touched app map e_typ expected_store fold_left e_obj e_state expected_trunc existsb e_trunc].
                 unfold touched, expected_store, expected_trunc.
                 rewrite <- app_assoc. cbn [app]. rewrite orb_assoc. reflexivity.
              ** rewrite upd_length. exact Hlen.
              ** rewrite Htch in Hnd. cbn [map] in Hnd. inversion Hnd as [|? ? Hnotin Hnd']. exact Hnd'.
              ** intros e He. rewrite Htch in Hnd. cbn [map e_obj] in Hnd. inversion Hnd as [|? ? Hnotin Hnd'].
                 destruct (Hz e) as [d' [Hd' Hst]]; [rewrite Htch; right; exact He|].
                 exists d'. split; [exact Hd'|]. rewrite nth_error_upd.
                 assert (e_obj e <> o).
                 { intros Heq. apply Hnotin. apply in_map_iff. exists e. split; [exact Heq|exact He]. }
                 replace (e_obj e =? o)%nat with false by lia. exact Hst.
           ++ pose proof (insub_none _ _ Hnext) as Hout.
              destruct (pkt_head _ _ _ _ _ _ _ _ Hrec) as [[Hc Hp]|[e2 [r2 [Hc He2]]]].
              ** subst c. cbn in Hrun1. inversion Hrun1; subst p1 s1.
                 destruct Hp as [Hp|Hp]; [congruence|]. subst pe.
                 cbn [touched app map e_typ expected_store fold_left e_obj e_state expected_trunc existsb e_trunc res_of].
                 rewrite orb_false_r. reflexivity.
              ** subst c. cbn [run_prefix] in Hrun1. rewrite He2, Hout in Hrun1. inversion Hrun1; subst p1 s1.
                 cbn [touched app map e_typ expected_store fold_left e_obj e_state expected_trunc existsb e_trunc res_of].
                 rewrite orb_false_r. reflexivity.
    + destruct Hcls as [_ [Hp [Hs [Hc Hpe']]]]. subst pre s chain pe.
      cbn [touched app map e_typ expected_store fold_left e_obj e_state expected_trunc existsb e_trunc res_of e_cls].
      rewrite orb_false_r, app_nil_r. reflexivity.
    + destruct Hcls as [_ [Hp [Hs [Hc Hpe']]]]. subst pre s chain pe.
      cbn [touched app map e_typ expected_store fold_left e_obj e_state expected_trunc existsb e_trunc res_of e_cls].
      rewrite orb_false_r, app_nil_r. reflexivity.
Qed.

(* DecodeLayers into objects holding their zero values, for ANY layers (stale-prone ones included),
   when the packet decodes each object at most once *)
Lemma decode_layers_spec_fresh p decoded0 data :
  implements lkf true p -> like_with_like St fam reg lkf -> zero_free lkf ->
  snd (packet_chain fam reg (p_first p) data) <> PFuel ->
  let st0 := map (fun d => zero d) fam in
  let '(chain, pe) := packet_chain fam reg (p_first p) data in
  let '(pre, s) := run_prefix (insub lkf) chain in
  NoDup (map e_obj (touched pre s)) ->
  decode_layers true fam p st0 decoded0 data =
    spec_parse fam reg (insub lkf) (p_first p) (p_ignpanic p) (p_ignunsup p) st0 data.
Proof.
  intros Himp Hlike Hzero Hfuel. cbv zeta.
  pose proof (decode_layers_spec St fam reg lkf p (map (fun d => zero d) fam) decoded0 data) as Hgen.
  unfold decode_layers, spec_parse in *.
  destruct (packet_chain fam reg (p_first p) data) as [chain pe] eqn:Hchain.
  destruct (run_prefix (insub lkf) chain) as [pre s] eqn:Hrun.
  intros Hnd. cbn [snd] in Hfuel. destruct Himp as [Hlk Hfd]. rewrite Hfd in *.
  destruct (lkf (p_first p)) as [o|] eqn:Hfirst.
  - unfold packet_chain in Hchain.
    rewrite (loop_spec_fresh _ Hlk Hlike Hzero _ _ _ _ _ [] false _ _ _ _ (map_length _ _) Hfirst Hchain Hfuel Hrun Hnd).
    + cbn [l_store l_decoded l_trunc l_res app orb]. f_equal.
      destruct s as [|t|e]; cbn [res_of expected_err].
      * destruct pe; cbn; try reflexivity; try congruence.
        unfold unsup_err. destruct (t =? 0) eqn:E; cbn; [rewrite orb_true_r; reflexivity|rewrite orb_false_r; reflexivity].
      * unfold unsup_err. destruct (t =? 0) eqn:E; cbn; [rewrite orb_true_r; reflexivity|rewrite orb_false_r; reflexivity].
      * destruct (e_cls e); reflexivity.
    + (* every touched object exists and holds its zero value *)
      intros e He. pose proof (pkt_elems St fam reg _ _ _ _ _ Hchain) as Hall. rewrite Forall_forall in Hall.
      destruct (run_prefix_longest St _ _ _ _ Hrun) as [rest [Hc [_ Hs]]].
      assert (Hin : In e chain).
      { unfold touched in He. apply in_app_or in He. destruct He as [He|He].
        - subst chain. apply in_or_app; left; exact He.
        - destruct s as [|t|e0]; [destruct He|destruct He|]. destruct He as [He|[]]. subst e0.
          destruct Hs as [r [Hr _]]. subst chain rest. apply in_or_app; right; left; reflexivity. }
      destruct (Hall _ Hin) as [_ [d [dat [Hd _]]]].
      exists d. split; [exact Hd|]. apply map_nth_error. exact Hd.
  - (* first type not in the set: nothing is decoded, independent of freshness *)
    pose proof (insub_none _ _ Hfirst) as Hout.
    unfold packet_chain in Hchain.
    destruct (pkt_head _ _ _ _ _ _ _ _ Hchain) as [[Hc Hp]|[e2 [r2 [Hc He2]]]].
    + subst chain. cbn in Hrun. inversion Hrun; subst pre s.
      destruct Hp as [Hp|Hp]; [congruence|]. subst pe.
      cbn [touched app map expected_store fold_left expected_trunc existsb expected_err l_store l_decoded l_trunc l_res].
      f_equal. unfold unsup_err.
      destruct (p_first p =? 0) eqn:E; cbn; [rewrite orb_true_r; reflexivity|rewrite orb_false_r; reflexivity].
    + subst chain. cbn [run_prefix] in Hrun. rewrite He2, Hout in Hrun. inversion Hrun; subst pre s.
      cbn [touched app map expected_store fold_left expected_trunc existsb expected_err l_store l_decoded l_trunc l_res].
      f_equal. unfold unsup_err.
      destruct (p_first p =? 0) eqn:E; cbn; [rewrite orb_true_r; reflexivity|rewrite orb_false_r; reflexivity].
Qed.

End FreshObjects.
