(* C12 — lifting the hypothesis trail_cfg g = false: reassembly's second, unlocked remove() is
   reached only from an age-based flush (FlushWithOptions / FlushCloseOlderThan).  For programs
   without such a call the pool invariants hold for the reassembly code as it is. *)
From GP Require Import Base ListX C12Model C12Proofs.
From Coq Require Import Lia.
Open Scope nat_scope.

Definition age_free_op (o : op) : bool := match o with OFlush (Some _) => false | _ => true end.
Definition age_free_pc (p : pc) : bool :=
  match p with
  | PWant _ (WFlush (Some _) _) => false
  | PRemove _ (KFlush (Some _) _ _) => false
  | PRemove2 _ (Some _) _ => false
  | _ => true
  end.
Definition age_free_progs (progs : list (list op)) : Prop := forall pr, In pr progs -> forallb age_free_op pr = true.
Definition af_thread (th : thread) : Prop :=
  forallb age_free_op (t_prog th) = true /\ age_free_pc (t_pc th) = true /\ trail_pc (t_pc th) = false.

Lemma af_next_pc prog : age_free_pc (next_pc prog) = true /\ trail_pc (next_pc prog) = false.
Proof. destruct prog; split; reflexivity. Qed.
Lemma af_cont_flush r prog : age_free_pc (cont_flush None r prog) = true /\ trail_pc (cont_flush None r prog) = false.
Proof. destruct r; [apply af_next_pc|split; reflexivity]. Qed.

Section AgeFree.
Variable cstate : Type.
Variable cinit : cstate.
Variable cclosed : cstate -> bool.
Variable creset : packet -> cstate.
Variable process : cstate -> bool -> packet -> cstate * list cevent * bool.
Variable flush : option Z -> cstate -> cstate * list cevent * bool.
Variable ctrail : option Z -> cstate -> bool.
Hypothesis Hm : machine_ok cstate cinit cclosed creset process flush.
Hypothesis Hct : forall st, ctrail None st = false.   (* FlushAll never asks for the second remove *)

Notation State := (state cstate).
Notation exec' := (exec cstate cinit cclosed creset process flush ctrail).
Notation obj' := (obj cstate cinit).
Notation Reach := (reachable cstate cinit cclosed creset process flush ctrail).

Lemma exec_af g (s : State) t s' : af_thread (thr s t) -> exec' g s t = Some s' -> af_thread (thr s' t).
Proof.
  intros [Ap [Ac At]] E. assert (Lt : t < length (s_thr s)).
  { apply (enabled_lt cstate cinit). unfold exec in E. destruct (enabled cstate cinit s t); [reflexivity|discriminate]. }
  revert E. unfold exec. destruct (enabled cstate cinit s t); cbn [negb]; [|discriminate].
  assert (Hthr : forall c f (o : list (conn cstate)) n k th l tg,
     thr (mkSt c f o n k (set_thr cstate s t th) l tg) t = th).
  { intros. unfold thr; cbn [s_thr]. unfold set_thr. apply nth_upd_eq; assumption. }
  assert (Hlk : forall p prog, forallb age_free_op prog = true -> af_thread (thr (do_lookup cstate g s t p prog) t)).
  { intros p prog Hp. unfold do_lookup. rewrite Hthr.
    destruct (lookup g (s_conns s) (p_key p)) as [[c fwd]|]; [repeat split; assumption|].
    destruct (end_flag g p); repeat split; try assumption; try apply af_next_pc. }
  destruct (t_pc (thr s t)) eqn:Epc.
  - destruct (t_prog (thr s t)) as [|[p|[T|]] rest] eqn:Epr; cbn [forallb age_free_op] in Ap; try discriminate.
    + intros H; inversion H; subst; clear H. rewrite Hthr. repeat split; reflexivity.
    + destruct (ignored g p); intros H; inversion H; subst; clear H.
      * rewrite Hthr. repeat split; try assumption; apply af_next_pc.
      * apply Hlk. exact Ap.
    + intros H; inversion H; subst; clear H. rewrite Hthr. repeat split; try assumption; apply af_cont_flush.
  - destruct (s_free s); destruct (lookup g (s_conns s) (p_key p)) as [[c2 f2]|];
      try match goal with |- context[if ?b then _ else _] => destruct b end;
      intros H; inversion H; subst; clear H; rewrite Hthr; repeat split; try assumption; reflexivity.
  - destruct w as [p fwd0|[T|] rest]; cbn in Ac; try discriminate.
    + destruct (match g_pkg g with Tcp => cclosed (c_st (obj' s c)) | Rsm => false end);
        [intros H; inversion H; subst; clear H; rewrite Hthr; repeat split; assumption|].
      destruct (process (c_st (obj' s c)) fwd0 p) as [[st' evs] closes].
      destruct closes; intros H; inversion H; subst; clear H; rewrite Hthr; repeat split; try assumption; try reflexivity;
        apply af_next_pc.
    + destruct (match g_pkg g with Tcp => cclosed (c_st (obj' s c)) | Rsm => false end);
        [intros H; inversion H; subst; clear H; rewrite Hthr; repeat split; try assumption; apply af_cont_flush|].
      destruct (flush None (c_st (obj' s c))) as [[st' evs] closes]. rewrite Hct, andb_false_r.
      destruct closes; intros H; inversion H; subst; clear H; rewrite Hthr; repeat split; try assumption; try reflexivity;
        apply af_cont_flush.
  - intros H; inversion H; subst; clear H. rewrite Hthr.
    destruct k as [|[T|] r [|]]; cbn in Ac, At; try discriminate; repeat split; try assumption;
      try apply af_next_pc; apply af_cont_flush.
  - intros H; inversion H; subst; clear H. apply Hlk. exact Ap.
  - cbn in At. discriminate.
  - discriminate.
  - discriminate.
Qed.

Lemma af_reachable g progs s : age_free_progs progs -> Reach g progs s -> forall t, af_thread (thr s t).
Proof.
  intros AF. induction 1 as [|s t s' R IH E]; intros t2.
  - unfold thr, init; cbn [s_thr].
    destruct (Nat.lt_ge_cases t2 (length progs)) as [L|L].
    + rewrite nth_indep with (d' := (fun pr => mkThr (next_pc pr) pr) []) by (rewrite map_length; assumption).
      rewrite (map_nth (fun pr => mkThr (next_pc pr) pr)). cbn.
      repeat split; [apply AF; apply nth_In; assumption|apply af_next_pc|apply af_next_pc].
    + rewrite nth_overflow by (rewrite map_length; assumption). repeat split; reflexivity.
  - destruct (Nat.eq_dec t2 t) as [->|N]; [eapply exec_af; eauto|].
    assert (Hth : thr s' t2 = thr s t2).
    { destruct (exec_spec _ _ _ _ _ _ _ _ _ _ _ E) as
        [th' _ _ _ _ _ _ Ht2 _ _ _ _ _
        |p th' c free' objs0 _ _ _ _ _ Ht2 _ _ _ _ _
        |c w st' evs closes th' _ _ _ _ _ _ _ _ Ht2 _ _ _ _
        |c k th' _ _ _ _ _ _ Ht2 _ _ _
        |c age rest th' _ _ _ _ _ _ Ht2 _ _ _]; eapply thr_upd_ne; eassumption. }
    rewrite Hth. apply IH.
Qed.

Lemma no_trail_age_free g progs s : age_free_progs progs -> Reach g progs s -> no_trail cstate s.
Proof. intros AF R t. apply (af_reachable g progs s AF R t). Qed.

(* the invariants of Proofs/C12Proofs.v for programs without age-based flushes, whatever g_trail is *)
Lemma invariants_age_free g progs s : age_free_progs progs -> Reach g progs s ->
  inv_pool cstate cinit cclosed g s /\ inv_str cstate cinit cclosed s.
Proof.
  intros AF. induction 1 as [|s t s' R [IP IS] E].
  - split; [eapply inv_pool_init|eapply inv_str_init]; first [exact process|exact flush|exact creset|exact ctrail|idtac].
  - pose proof (no_trail_age_free g progs s AF R) as NT. split.
    + eapply inv_pool_step; eassumption.
    + eapply inv_str_step; eassumption.
Qed.
End AgeFree.
