(* Lip6 — round-trip lemmas for the extension headers (C06) *)
From GP Require Import Base ListX N6Lib Lip6Model Lip6Proofs.
From Coq Require Import Lia ZifyBool ZifyNat.
Open Scope Z_scope.
Ltac Zify.zify_post_hook ::= Z.div_mod_to_equations.

(* ---------------------------------------------------------------- list facts *)

Lemma slice_extend (l : list Z) a b n : (a <= b)%nat -> (b + n <= length l)%nat ->
  slice l a b ++ firstn n (skipn b l) = slice l a (b + n).
Proof.
  intros Hab Hbn. unfold slice.
  rewrite <- (firstn_skipn b l) at 3. rewrite firstn_app, firstn_length.
  replace (b + n - Nat.min b (length l))%nat with n by lia.
  rewrite (firstn_all2 (firstn b l)) by (rewrite firstn_length; lia).
  rewrite skipn_app, firstn_length. replace (a - Nat.min b (length l))%nat with 0%nat by lia. reflexivity.
Qed.

Lemma slice_same (l : list Z) a : slice l a a = [].
Proof. unfold slice. apply skipn_all2. rewrite firstn_length. lia. Qed.

Lemma head2_slice (l : list Z) n : (2 <= n)%nat -> (n <= length l)%nat -> [nthZ l 0; nthZ l 1] ++ slice l 2 n = firstn n l.
Proof.
  intros H2 Hn. destruct l as [|a [|b r]]; cbn [length] in Hn; try lia.
  destruct n as [|[|n]]; try lia. reflexivity.
Qed.

(* ---------------------------------------------------------------- (b) serialize . decode *)

(* a decoded option is written back as the octets it was decoded from, under either FixLengths *)
Lemma tlv_seg_decoded fx d o tr : bytes_ok d -> tlv_decode d = (Ok o, tr) ->
  tlv_seg fx o = (firstn (Z.to_nat (t_alen o)) d, o) /\ t_ax o = 0 /\ 1 <= t_alen o <= n6_len d.
Proof.
  intros Hb. rewrite tlv_decode_eq by exact Hb. destruct (n6_len d <? 1) eqn:E1; [discriminate|]. cbv zeta.
  destruct d as [|t d']; [cbn in E1; lia|]. change (nthZ (t :: d') 0) with t.
  inversion Hb as [|? ? Ht Hd']; subst. unfold byte_ok in Ht.
  destruct (t =? 0) eqn:Et.
  { intros [= <- <-]. assert (t = 0) by lia. subst t. pose proof (n6_len_nonneg (0 :: d')). repeat split; try reflexivity; cbn [t_alen]; lia. }
  destruct (n6_len (t :: d') <? 2) eqn:E2; [discriminate|].
  destruct d' as [|ol d'']; [cbn in E2; lia|]. change (nthZ (t :: ol :: d'') 1) with ol.
  inversion Hd' as [|? ? Hol Hd'']; subst. unfold byte_ok in Hol.
  destruct (n6_len (t :: ol :: d'') <? ol + 2) eqn:E3; [discriminate|]. intros [= <- <-].
  rewrite !n6_len_cons in E3. pose proof (n6_len_nonneg d'').
  cbn [t_alen t_ax]. split; [|split; [reflexivity|rewrite !n6_len_cons; lia]].
  unfold tlv_seg. cbn [t_type t_olen t_data t_alen t_ax t_ay]. rewrite Et.
  replace (Z.to_nat (ol + 2)) with (S (S (Z.to_nat ol))) by lia.
  unfold slice. cbn [firstn skipn].
  assert (HL : length (firstn (Z.to_nat ol) d'') = Z.to_nat ol) by (rewrite firstn_length; unfold n6_len in *; lia).
  assert (Hol' : (if fx then u8 (n6_len (firstn (Z.to_nat ol) d'')) else ol) = ol).
  { destruct fx; [|reflexivity]. unfold n6_len. rewrite HL. unfold u8. lia. }
  rewrite Hol'. rewrite (firstn_all2 (firstn (Z.to_nat ol) d'')) by lia. rewrite HL, Nat.sub_diag. cbn [repeat].
  rewrite app_nil_r. unfold u8. rewrite !Z.mod_small by lia. reflexivity.
Qed.

Definition tlv_canon (o : tlv) : Prop :=
  t_ax o = 0 /\ forall fx, snd (tlv_seg fx o) = o /\ fst (tlv_seg fx o) = fst (tlv_seg true o).

Definition wire (os : list tlv) : list Z := concat (map (fun o => fst (tlv_seg true o)) os).

Lemma wire_app a b : wire (a ++ b) = wire a ++ wire b.
Proof. unfold wire. rewrite map_app, concat_app. reflexivity. Qed.

Lemma ext_loop_wire fuel : forall acc offset data al os tr, bytes_ok data -> 2 <= offset <= al -> al <= n6_len data ->
  Forall tlv_canon acc -> wire acc = slice data 2 (Z.to_nat offset) ->
  ext_loop fuel acc offset data al = (os, Ok tt, tr) ->
  Forall tlv_canon os /\ wire os = slice data 2 (Z.to_nat al).
Proof.
  induction fuel as [|f IH]; intros acc offset data al os tr Hb Ho Hal Hc Hw; [cbn; discriminate|].
  cbn [ext_loop]. destruct (offset <? al) eqn:E.
  2:{ intros [= <- <-]. split; [exact Hc|]. replace al with offset by lia. exact Hw. }
  rewrite (n6_from_eq data offset) by lia. set (d := skipn (Z.to_nat offset) data).
  assert (Hbd : bytes_ok d) by (apply bytes_ok_skipn, Hb).
  destruct (tlv_decode d) as [[o|e|s] tr'] eqn:ED; try discriminate.
  destruct (al <? offset + t_alen o) eqn:E2; [discriminate|].
  pose proof (tlv_seg_decoded true d o tr' Hbd ED) as (HS & Hax & Hal1).
  pose proof (tlv_seg_decoded false d o tr' Hbd ED) as (HS' & _ & _).
  apply IH; try assumption; try lia.
  - apply Forall_app; split; [exact Hc|]. constructor; [|constructor]. split; [exact Hax|].
    intros [|]; [rewrite HS|rewrite HS', HS]; split; reflexivity.
  - rewrite wire_app, Hw. unfold wire. cbn [map concat]. rewrite HS, app_nil_r. cbn [fst].
    subst d. replace (Z.to_nat (offset + t_alen o)) with (Z.to_nat offset + Z.to_nat (t_alen o))%nat by lia.
    apply slice_extend; unfold n6_len in *; lia.
Qed.

(* without alignment requests the serializer emits the options' own octets, then the final pad *)
Lemma tlvs_ser_canon fx os : forall len, Forall tlv_canon os ->
  tlvs_ser false fx os len =
    (let total := len + n6_len (wire os) in
     let pad := (8 - total mod 8) mod 8 in
     (map (fun o => fst (tlv_seg true o)) os ++ (if fx && negb (pad =? 0) then [pad_seg pad] else []), os,
      if fx then total + pad else total)).
Proof.
  induction os as [|o t IH]; intros len Hc.
  - cbn [tlvs_ser wire map concat app]. change (n6_len []) with 0. rewrite Z.add_0_r. cbv zeta.
    destruct fx; [|reflexivity]. cbn [andb]. destruct ((8 - len mod 8) mod 8 =? 0) eqn:E; [|reflexivity].
    cbn [negb]. f_equal. lia.
  - inversion Hc as [|? ? Ho Ht]; subst. destruct Ho as (Hax & Hseg). cbn [tlvs_ser]. rewrite Hax.
    replace (fx && negb (0 =? 0)) with false by (destruct fx; reflexivity). cbn [Z.eqb app].
    destruct (Hseg fx) as (Hs1 & Hs2). destruct (tlv_seg fx o) as [seg o'] eqn:ES. cbn [fst snd] in Hs1, Hs2. subst o' seg.
    rewrite Z.add_0_r, IH by exact Ht. cbv zeta.
    unfold wire. cbn [map concat]. fold (wire t). rewrite n6_len_app.
    replace (len + n6_len (fst (tlv_seg true o)) + n6_len (wire t)) with (len + (n6_len (fst (tlv_seg true o)) + n6_len (wire t))) by lia.
    reflexivity.
Qed.

Lemma ext_serialize_decoded old data l tr payload fx junk : bytes_ok data ->
  ext_decode_into old data = (l, Ok tt, tr) ->
  fst (ext_serialize l payload fx true junk) = Ok (e_contents l ++ payload).
Proof.
  intros Hb HD. unfold ext_decode_into in HD. pose proof (ext_decode_ok false old data l tr Hb HD) as (_ & Hal & Hall & Halh & Hhl & Hnh & Hc & Hp).
  pose proof (ext_decode_wf false old data Hb) as Hwf.
  rewrite ext_decode_eq in HD by exact Hb. destruct (n6_len data <? 2) eqn:E2; [discriminate|]. cbv zeta in HD.
  destruct (n6_len data <? nthZ data 1 * 8 + 8) eqn:E3; [discriminate|].
  destruct (ext_loop _ _ _ _ _) as [[os r] tr'] eqn:EL. injection HD as <- -> <-.
  cbn [e_alen e_hlen e_next e_contents e_payload] in *.
  set (al := nthZ data 1 * 8 + 8) in *.
  destruct (ext_loop_wire _ [] 2 data al os tr' Hb ltac:(lia) ltac:(lia) ltac:(constructor) ltac:(symmetry; apply slice_same) EL) as (Hcan & Hwire).
  assert (Hw : ext_wf (mkExt (nthZ data 0) (nthZ data 1) al os (firstn (Z.to_nat al) data) (skipn (Z.to_nat al) data))).
  { unfold ext_wf. cbn [e_opts].
    pose proof (ext_loop_wf (S (length data)) [] 2 data al Hb ltac:(lia) ltac:(lia) ltac:(constructor)) as P.
    rewrite EL in P. exact P. }
  unfold ext_serialize.
  pose proof (ext_serialize_gen_closed false _ payload fx junk Hw) as HCl.
  destruct (ext_serialize_gen false _ payload fx junk) as [[r l'] j]. cbn [fst].
  assert (Hr : r = fst (ext_wire false (mkExt (nthZ data 0) (nthZ data 1) al os (firstn (Z.to_nat al) data) (skipn (Z.to_nat al) data)) payload fx))
    by (rewrite <- HCl; reflexivity).
  rewrite Hr. unfold ext_wire. cbn [e_opts e_next e_hlen]. rewrite tlvs_ser_canon by exact Hcan. cbv zeta.
  assert (HWL : n6_len (wire os) = al - 2).
  { rewrite Hwire. unfold n6_len in *. rewrite slice_length by lia. lia. }
  assert (Hpad : (8 - (2 + n6_len (wire os)) mod 8) mod 8 = 0) by (rewrite HWL; lia).
  rewrite Hpad. cbn [Z.eqb negb]. rewrite andb_false_r, app_nil_r. fold (wire os).
  replace (negb ((n6_len (wire os) + 2) mod 8 =? 0)) with false by (rewrite HWL; lia).
  cbn [fst]. f_equal.
  pose proof (nthZ_byte' data 0 Hb ltac:(lia)) as Hb0. change (Z.to_nat 0) with 0%nat in Hb0.
  assert (Hhl' : (if fx then u8 ((n6_len (wire os) + 2) / 8 - 1) else nthZ data 1) = nthZ data 1).
  { destruct fx; [|reflexivity]. rewrite HWL. unfold u8. lia. }
  rewrite Hhl'. unfold u8. rewrite !Z.mod_small by lia. rewrite Hwire.
  rewrite app_assoc, head2_slice by (unfold n6_len in *; lia). reflexivity.
Qed.

(* ---------------------------------------------------------------- (a) decode . serialize *)

(* a segment that decodes, whatever follows it, to an option occupying exactly the segment *)
Definition seg_dec (s : list Z) (o : tlv) : Prop :=
  bytes_ok s /\ t_alen o = n6_len s /\ 1 <= n6_len s /\
  forall rest, bytes_ok rest -> tlv_decode (s ++ rest) = (Ok o, false).

Lemma pad_seg_dec pad : 1 <= pad <= 255 -> exists o, seg_dec (pad_seg pad) o /\ (t_type o = 0 \/ t_type o = 1).
Proof.
  intros Hp. unfold pad_seg. replace (pad <=? 0) with false by lia. destruct (pad =? 1) eqn:E1.
  - exists (mkTlv 0 0 1 [] 0 0). split; [|left; reflexivity]. split; [repeat constructor; unfold byte_ok; lia|].
    split; [reflexivity|]. split; [cbn; lia|]. intros rest Hr. rewrite tlv_decode_eq by (constructor; [unfold byte_ok; lia|exact Hr]).
    cbn [app]. rewrite n6_len_cons. pose proof (n6_len_nonneg rest). replace (1 + n6_len rest <? 1) with false by lia. reflexivity.
  - set (z := repeat 0 (Z.to_nat (pad - 2))).
    assert (Hz : bytes_ok z) by (apply Forall_forall; intros x Hx; apply repeat_spec in Hx; subst; unfold byte_ok; lia).
    assert (Hzl : n6_len z = pad - 2) by (unfold n6_len, z; rewrite repeat_length; lia).
    assert (Hu : u8 (u8 pad - 2) = pad - 2) by (unfold u8; lia).
    exists (mkTlv 1 (pad - 2) pad z 0 0). split; [|right; reflexivity].
    assert (Hb : bytes_ok ([1; u8 (u8 pad - 2)] ++ z)).
    { constructor; [unfold byte_ok; lia|]. constructor; [rewrite Hu; unfold byte_ok; lia|exact Hz]. }
    split; [exact Hb|]. cbn [t_alen app]. rewrite !n6_len_cons, Hzl. split; [lia|]. split; [lia|].
    intros rest Hr. rewrite tlv_decode_eq by (do 2 (constructor; [unfold byte_ok, u8; lia|]); apply bytes_ok_app; assumption).
    cbn [app]. rewrite !n6_len_cons, n6_len_app, Hzl. pose proof (n6_len_nonneg rest).
    replace (1 + (1 + (pad - 2 + n6_len rest)) <? 1) with false by lia. cbv zeta.
    change (nthZ (1 :: u8 (u8 pad - 2) :: z ++ rest) 0) with 1. change (1 =? 0) with false. cbv iota.
    replace (1 + (1 + (pad - 2 + n6_len rest)) <? 2) with false by lia.
    change (nthZ (1 :: u8 (u8 pad - 2) :: z ++ rest) 1) with (u8 (u8 pad - 2)). rewrite Hu.
    replace (1 + (1 + (pad - 2 + n6_len rest)) <? pad - 2 + 2) with false by lia.
    replace (pad - 2 + 2) with pad by lia. f_equal. f_equal.
    replace (Z.to_nat pad) with (S (S (length z))) by (unfold n6_len in Hzl; lia).
    unfold slice. cbn [firstn skipn]. rewrite firstn_app, Nat.sub_diag, firstn_all. cbn [firstn]. rewrite app_nil_r. reflexivity.
Qed.

Lemma tlv_okb_spec o : tlv_okb o = true ->
  bytes_ok (t_data o) /\ 0 <= t_type o < 256 /\ n6_len (t_data o) <= 255 /\ 0 <= t_ax o < 256 /\ 0 <= t_ay o /\
  (t_ax o = 0 \/ t_ay o < t_ax o) /\ 0 <= t_olen o.
Proof.
  unfold tlv_okb. intros H. repeat (apply andb_prop in H as [H ?]).
  apply bytes_okb_ok in H. unfold byte_okb in *. repeat split; try assumption; lia.
Qed.

Lemma tlv_okb_wf o : tlv_okb o = true -> tlv_wf o.
Proof. intros H. apply tlv_okb_spec in H as (? & ? & ? & ? & ? & ? & ?). unfold tlv_wf. repeat split; try assumption; lia. Qed.

Lemma tlv_seg_dec o : tlv_okb o = true -> exists o2, seg_dec (fst (tlv_seg true o)) o2 /\
  ((t_type o = 0 /\ t_type o2 = 0) \/ (t_type o <> 0 /\ t_type o2 = t_type o /\ t_data o2 = t_data o)).
Proof.
  intros Hok. apply tlv_okb_spec in Hok as (Hd & Ht & Hl & _). unfold tlv_seg.
  destruct (t_type o =? 0) eqn:E0.
  - exists (mkTlv 0 0 1 [] 0 0). split; [|left; split; [lia|reflexivity]]. cbn [fst].
    split; [repeat constructor; unfold byte_ok; lia|]. split; [reflexivity|]. split; [cbn; lia|].
    intros rest Hr. rewrite tlv_decode_eq by (constructor; [unfold byte_ok; lia|exact Hr]).
    cbn [app]. rewrite n6_len_cons. pose proof (n6_len_nonneg rest). replace (1 + n6_len rest <? 1) with false by lia. reflexivity.
  - cbn [fst]. pose proof (n6_len_nonneg (t_data o)) as Hn. set (d := t_data o) in *.
    assert (Hu : u8 (n6_len d) = n6_len d) by (unfold u8; lia). rewrite Hu.
    replace (Z.to_nat (n6_len d)) with (length d) by (unfold n6_len; lia).
    rewrite firstn_all, Nat.sub_diag. cbn [repeat]. rewrite app_nil_r.
    assert (Hut : u8 (t_type o) = t_type o) by (unfold u8; lia). rewrite Hut, Hu.
    exists (mkTlv (t_type o) (n6_len d) (n6_len d + 2) d 0 0). split; [|right; repeat split; lia].
    assert (Hb : bytes_ok ([t_type o; n6_len d] ++ d)).
    { constructor; [unfold byte_ok; lia|]. constructor; [unfold byte_ok; lia|exact Hd]. }
    split; [exact Hb|]. cbn [t_alen app]. rewrite !n6_len_cons. split; [lia|]. split; [lia|].
    intros rest Hr. rewrite tlv_decode_eq by (do 2 (constructor; [unfold byte_ok; lia|]); apply bytes_ok_app; assumption).
    cbn [app]. rewrite !n6_len_cons, n6_len_app. pose proof (n6_len_nonneg rest).
    replace (1 + (1 + (n6_len d + n6_len rest)) <? 1) with false by lia. cbv zeta.
    change (nthZ (t_type o :: n6_len d :: d ++ rest) 0) with (t_type o). rewrite E0.
    replace (1 + (1 + (n6_len d + n6_len rest)) <? 2) with false by lia.
    change (nthZ (t_type o :: n6_len d :: d ++ rest) 1) with (n6_len d).
    replace (1 + (1 + (n6_len d + n6_len rest)) <? n6_len d + 2) with false by lia. f_equal. f_equal.
    replace (Z.to_nat (n6_len d + 2)) with (S (S (length d))) by (unfold n6_len; lia).
    unfold slice. cbn [firstn skipn]. rewrite firstn_app, Nat.sub_diag, firstn_all. cbn [firstn]. rewrite app_nil_r. reflexivity.
Qed.

Lemma ext_loop_segs segs ds : Forall2 seg_dec segs ds -> forall fuel acc pre rest,
  bytes_ok rest -> (length segs < fuel)%nat ->
  ext_loop fuel acc (n6_len pre) (pre ++ concat segs ++ rest) (n6_len pre + n6_len (concat segs)) = (acc ++ ds, Ok tt, false).
Proof.
  induction 1 as [|s o segs ds Hs Hrest IH]; intros fuel acc pre rest Hr Hf.
  - destruct fuel; [cbn in Hf; lia|]. cbn [ext_loop concat]. change (n6_len []) with 0.
    replace (n6_len pre <? n6_len pre + 0) with false by lia. rewrite app_nil_r. reflexivity.
  - destruct fuel as [|f]; [cbn in Hf; lia|]. cbn [length] in Hf. cbn [ext_loop concat].
    destruct Hs as (Hsb & Hal & Hl1 & Hdec). rewrite n6_len_app. pose proof (n6_len_nonneg (concat segs)). pose proof (n6_len_nonneg pre).
    replace (n6_len pre <? n6_len pre + (n6_len s + n6_len (concat segs))) with true by lia.
    rewrite n6_from_eq by (rewrite !n6_len_app; pose proof (n6_len_nonneg rest); lia).
    replace (Z.to_nat (n6_len pre)) with (length pre) by (unfold n6_len; lia).
    rewrite skipn_app, skipn_all, Nat.sub_diag. cbn [skipn app]. rewrite <- app_assoc.
    assert (Hcb : bytes_ok (concat segs ++ rest)).
    { apply bytes_ok_app; [|exact Hr]. clear - Hrest. induction Hrest as [|? ? ? ? Hx]; [constructor|].
      cbn [concat]. apply bytes_ok_app; [apply Hx|assumption]. }
    rewrite (Hdec _ Hcb). rewrite Hal.
    replace (n6_len pre + (n6_len s + n6_len (concat segs)) <? n6_len pre + n6_len s) with false by lia.
    specialize (IH f (acc ++ [o]) (pre ++ s) rest Hr ltac:(lia)).
    rewrite n6_len_app, <- !app_assoc in IH. rewrite <- Z.add_assoc in IH. cbn [app] in IH. exact IH.
Qed.

Lemma seg_dec_count segs ds : Forall2 seg_dec segs ds -> (length segs <= length (concat segs))%nat.
Proof.
  induction 1 as [|s o segs ds Hs _ IH]; [cbn; lia|]. cbn [concat length]. rewrite app_length.
  destruct Hs as (_ & _ & Hl & _). unfold n6_len in Hl. lia.
Qed.

Lemma tlv_nonpad_app a b : tlv_nonpad (a ++ b) = tlv_nonpad a ++ tlv_nonpad b.
Proof. unfold tlv_nonpad. rewrite filter_app, map_app. reflexivity. Qed.

Lemma tlv_nonpad_pad o : t_type o = 0 \/ t_type o = 1 -> tlv_nonpad [o] = [].
Proof. intros H. unfold tlv_nonpad. cbn [filter]. replace ((t_type o =? 0) || (t_type o =? 1)) with true by lia. reflexivity. Qed.

(* the serializer's segments decode one by one; their non-padding options are the layer's, in order;
   with FixLengths the total length is a multiple of 8 *)
Lemma tlvs_ser_dec os : forall len segs os' total, forallb tlv_okb os = true -> 0 <= len ->
  tlvs_ser false true os len = (segs, os', total) ->
  exists ds, Forall2 seg_dec segs ds /\ tlv_nonpad ds = tlv_nonpad os /\ total mod 8 = 0.
Proof.
  induction os as [|o t IH]; intros len segs os' total Hok Hl.
  - cbn [tlvs_ser]. set (pad := (8 - len mod 8) mod 8). assert (Hp : 0 <= pad < 8) by (subst pad; lia).
    destruct (pad =? 0) eqn:E0; intros [= <- <- <-].
    + exists []. repeat split; [constructor|subst pad; lia].
    + destruct (pad_seg_dec pad ltac:(lia)) as (o & Hd & Hty). exists [o].
      split; [constructor; [exact Hd|constructor]|]. split; [apply tlv_nonpad_pad, Hty|subst pad; lia].
  - cbn [forallb] in Hok. apply andb_prop in Hok as [Ho Ht]. cbn [tlvs_ser andb].
    pose proof (tlv_okb_spec o Ho) as (_ & _ & _ & Hx & Hy & Hxy & _).
    set (pad := if negb (t_ax o =? 0) then _ else 0).
    assert (Hp : 0 <= pad <= 255).
    { subst pad. destruct (t_ax o =? 0) eqn:Ex; cbn [negb]; [lia|]. cbv zeta.
      assert (0 < t_ax o) by lia. destruct Hxy as [?|Hxy]; [lia|].
      pose proof (Z.mul_succ_div_gt len (t_ax o) ltac:(lia)). pose proof (Z.mul_div_le len (t_ax o) ltac:(lia)).
      destruct (t_ax o * (len / t_ax o) + t_ay o <? len) eqn:E; lia. }
    clearbody pad.
    destruct (tlv_seg true o) as [seg o'] eqn:ES.
    destruct (tlvs_ser false true t (len + pad + n6_len seg)) as [[segs1 t'] total1] eqn:ER.
    intros [= <- <- <-]. pose proof (n6_len_nonneg seg).
    destruct (IH (len + pad + n6_len seg) _ _ _ Ht ltac:(lia) ER) as (ds & Hds & Hnp & Hm).
    destruct (tlv_seg_dec o Ho) as (o2 & Hd2 & Hcase). rewrite ES in Hd2. cbn [fst] in Hd2.
    assert (Hn2 : tlv_nonpad [o2] = tlv_nonpad [o]).
    { unfold tlv_nonpad. cbn [filter]. destruct Hcase as [[H1 H2]|(H1 & H2 & H3)].
      - rewrite H1, H2. reflexivity.
      - rewrite H2. destruct (negb _); [cbn [map]; rewrite H2, H3; reflexivity|reflexivity]. }
    destruct (pad =? 0) eqn:E0.
    + exists (o2 :: ds). cbn [app]. split; [constructor; assumption|]. split; [|exact Hm].
      change (o2 :: ds) with ([o2] ++ ds). change (o :: t) with ([o] ++ t). rewrite !tlv_nonpad_app, Hn2, Hnp. reflexivity.
    + destruct (pad_seg_dec pad ltac:(lia)) as (op & Hdp & Hty). exists (op :: o2 :: ds). cbn [app].
      split; [constructor; [exact Hdp|constructor; assumption]|]. split; [|exact Hm].
      change (op :: o2 :: ds) with ([op] ++ [o2] ++ ds). change (o :: t) with ([o] ++ t).
      rewrite !tlv_nonpad_app, (tlv_nonpad_pad op Hty), Hn2, Hnp. reflexivity.
Qed.

Lemma ext_okb_wf l : ext_okb l = true -> ext_wf l.
Proof.
  unfold ext_okb. intros H. apply andb_prop in H as [H _]. apply andb_prop in H as [H _].
  unfold ext_wf. apply Forall_forall. intros o Ho. apply tlv_okb_wf. rewrite forallb_forall in H. apply H, Ho.
Qed.

Lemma ext_roundtrip_ok l payload junk : ext_okb l = true -> bytes_ok payload ->
  exists bytes l2,
    ext_roundtrip l payload junk = (Ok bytes, (l2, Ok tt, false)) /\
    e_next l2 = e_next l /\ e_hlen l2 = e_hlen (snd (ext_serialize l payload true true junk)) /\
    e_payload l2 = payload /\ tlv_nonpad (e_opts l2) = tlv_nonpad (e_opts l) /\
    forall payload' junk', fst (ext_serialize l2 payload' true true junk') = Ok (e_contents l2 ++ payload').
Proof.
  intros Hok Hp. pose proof (ext_okb_wf l Hok) as Hw. unfold ext_roundtrip, ext_serialize.
  pose proof (ext_serialize_gen_closed false l payload true junk Hw) as HC.
  destruct (ext_serialize_gen false l payload true junk) as [[r l'] j]. cbn [snd].
  unfold ext_okb in Hok. apply andb_prop in Hok as [Hok Htot]. apply andb_prop in Hok as [Hopts Hnh]. unfold byte_okb in Hnh.
  unfold ext_wire in HC. destruct (tlvs_ser false true (e_opts l) 2) as [[segs os'] total] eqn:ES.
  destruct (tlvs_ser_spec false true (e_opts l) 2 segs os' total Hw ltac:(lia) ES) as (Htotal & Hbody & _ & _).
  destruct (tlvs_ser_dec (e_opts l) 2 segs os' total Hopts ltac:(lia) ES) as (ds & Hds & Hnp & Hm8).
  pose proof (n6_len_nonneg (concat segs)) as Hbn.
  replace (negb ((n6_len (concat segs) + 2) mod 8 =? 0)) with false in HC by lia.
  injection HC as -> ->. cbn [e_hlen].
  set (hl := u8 ((n6_len (concat segs) + 2) / 8 - 1)).
  assert (Hhl : hl = total / 8 - 1 /\ 0 <= hl < 256) by (subst hl; unfold u8; lia).
  assert (Hu : u8 hl = hl) by (unfold u8; lia). rewrite !Hu. cbn [app].
  set (bytes := u8 (e_next l) :: hl :: concat segs ++ payload).
  assert (Hbb : bytes_ok bytes).
  { subst bytes. constructor; [unfold byte_ok, u8; lia|]. constructor; [unfold byte_ok; lia|]. apply bytes_ok_app; assumption. }
  assert (HL : n6_len bytes = total + n6_len payload).
  { subst bytes. rewrite !n6_len_cons, n6_len_app. lia. }
  pose proof (n6_len_nonneg payload) as Hpn.
  unfold ext_decode_into. rewrite ext_decode_eq by exact Hbb.
  replace (n6_len bytes <? 2) with false by lia. cbv zeta.
  change (nthZ bytes 0) with (u8 (e_next l)). change (nthZ bytes 1) with hl.
  assert (Hal : hl * 8 + 8 = total) by lia. rewrite Hal.
  replace (n6_len bytes <? total) with false by lia.
  pose proof (ext_loop_segs segs ds Hds (S (length bytes)) [] [u8 (e_next l); hl] payload Hp) as HLoop.
  change (n6_len [u8 (e_next l); hl]) with 2 in HLoop. cbn [app] in HLoop. fold bytes in HLoop.
  replace (2 + n6_len (concat segs)) with total in HLoop by lia.
  rewrite HLoop.
  2:{ pose proof (seg_dec_count segs ds Hds). subst bytes. cbn [app length]. rewrite app_length. lia. }
  cbn [app].
  assert (Hsplit : bytes = ([u8 (e_next l); hl] ++ concat segs) ++ payload) by (subst bytes; rewrite <- app_assoc; reflexivity).
  assert (Hlen2 : length ([u8 (e_next l); hl] ++ concat segs) = Z.to_nat total).
  { rewrite app_length. cbn [length]. unfold n6_len in *. lia. }
  eexists. eexists. split; [reflexivity|]. cbn [e_next e_hlen e_payload e_opts e_contents].
  split; [unfold u8; lia|]. split; [reflexivity|]. split.
  { rewrite Hsplit, <- Hlen2, skipn_app, skipn_all, Nat.sub_diag. reflexivity. }
  split; [exact Hnp|].
  intros payload' junk'.
  pose proof (ext_serialize_decoded ext_fresh bytes (mkExt (u8 (e_next l)) hl total ds (firstn (Z.to_nat total) bytes) (skipn (Z.to_nat total) bytes)) false payload' true junk' Hbb) as HF.
  unfold ext_decode_into in HF. rewrite ext_decode_eq in HF by exact Hbb.
  replace (n6_len bytes <? 2) with false in HF by lia. cbv zeta in HF.
  change (nthZ bytes 0) with (u8 (e_next l)) in HF. change (nthZ bytes 1) with hl in HF. rewrite Hal in HF.
  replace (n6_len bytes <? total) with false in HF by lia. rewrite HLoop in HF.
  2:{ pose proof (seg_dec_count segs ds Hds). subst bytes. cbn [app length]. rewrite app_length. lia. }
  cbn [app] in HF. specialize (HF eq_refl). exact HF.
Qed.
