(* C11, reassembly: page accounting of the pool model (C11RModel) over every history, for the
   repaired code (v_saved, v_hpages). *)
From GP Require Import Base C11Common C11RModel C11LogProofs.
From Coq Require Import Lia ZifyBool.
Open Scope Z_scope.

Definition hp (h : rhalf) : Z := zlen (h_queue h) + zlen (h_saved h).
Definition cp (c : rconn) : Z := hp (rc_c2s c) + hp (rc_s2c c).
Definition psum (l : list rconn) : Z := fold_right (fun c a => cp c + a) 0 l.

(* a half: its counter equals its lists; a closed half holds nothing *)
Definition half_ok (h : rhalf) : Prop := h_pages h = hp h /\ (h_closed h = true -> hp h = 0).
Definition conn_ok (c : rconn) : Prop := half_ok (rc_c2s c) /\ half_ok (rc_s2c c).

Lemma psum_app : forall a b, psum (a ++ b) = psum a + psum b.
Proof. induction a as [|x a IH]; intros b; [reflexivity|]. cbn [app]. change (cp x + psum (a ++ b) = cp x + psum a + psum b). rewrite IH. lia. Qed.
Lemma psum_cons : forall c l, psum (c :: l) = cp c + psum l.
Proof. reflexivity. Qed.
Lemma hp_nonneg : forall h, 0 <= hp h.
Proof. intros. unfold hp. pose proof (zlen_nonneg (h_queue h)). pose proof (zlen_nonneg (h_saved h)). lia. Qed.

(* ------------------------------------------------------------------ counting *)
Lemma count_pages_app : forall a b, count_pages (a ++ b) = count_pages a + count_pages b.
Proof. intros. unfold count_pages. rewrite filter_app. apply zlen_app. Qed.

Lemma count_pages_split : forall n l, count_pages (firstn n l) + count_pages (skipn n l) = count_pages l.
Proof. intros. rewrite <- count_pages_app. rewrite firstn_skipn. reflexivity. Qed.

Lemma count_pages_map : forall l, count_pages (map CPage l) = zlen l.
Proof.
  induction l as [|p l IH]; [reflexivity|]. unfold count_pages in *. cbn [map filter is_page].
  rewrite !zlen_cons. rewrite IH. reflexivity.
Qed.

Lemma count_pages_nonneg : forall l, 0 <= count_pages l.
Proof. intros. apply zlen_nonneg. Qed.

Lemma keep_conv_len : forall l s ps n, keep_conv l s = (ps, n, false) -> zlen ps = count_pages l + n.
Proof.
  induction l as [|c l IH]; intros s ps n H; cbn [keep_conv] in H.
  - inversion H; subst. reflexivity.
  - destruct c as [p|lp].
    + destruct ((0 <=? s) && (s <=? rp_len p)); [|discriminate].
      destruct (keep_conv l 0) as [[ps1 n1] pk1] eqn:E. inversion H; subst.
      specialize (IH _ _ _ E). unfold count_pages in *. cbn [filter is_page]. rewrite !zlen_cons. lia.
    + destruct ((0 <=? s) && (s <=? lv_len lp)); [|discriminate].
      destruct (keep_conv l 0) as [[ps1 n1] pk1] eqn:E. inversion H; subst.
      specialize (IH _ _ _ E). unfold count_pages in *. cbn [filter is_page]. rewrite zlen_app. lia.
Qed.

Lemma add_pending_len : forall saved fs pre sl saved1 reld, add_pending saved fs = (pre, sl, saved1, reld) ->
  zlen pre = zlen saved - reld /\ 0 <= reld.
Proof.
  intros saved fs pre sl saved1 reld H. unfold add_pending in H. destruct saved as [|p0 t].
  - inversion H; subst. cbn. lia.
  - destruct (sadd (rp_seq p0) (sum_plen (p0 :: t)) =? fs); inversion H; subst.
    + split; lia.
    + pose proof (zlen_nonneg (p0 :: t)). rewrite zlen_nil. split; lia.
Qed.

Lemma contig_loop_len : forall q ls tk q1 ns, contig_loop q ls = (tk, q1, ns) -> zlen q = zlen tk + zlen q1.
Proof.
  induction q as [|p t IH]; intros ls tk q1 ns H; cbn [contig_loop] in H.
  - inversion H; subst. reflexivity.
  - destruct (rdiff ls (rp_seq p) =? 0).
    + destruct (contig_loop t (sadd ls (rp_len p))) as [[tk1 q2] l2] eqn:E. inversion H; subst.
      rewrite !zlen_cons. rewrite (IH _ _ _ _ E). lia.
    + inversion H; subst. rewrite zlen_nil. lia.
Qed.

Lemma add_contiguous_len : forall q ls tk q1 ns, add_contiguous q ls = (tk, q1, ns) -> zlen q = zlen tk + zlen q1.
Proof.
  intros q ls tk q1 ns H. unfold add_contiguous in H. destruct q as [|p t].
  - inversion H; subst. reflexivity.
  - eapply contig_loop_len. exact H.
Qed.

(* ------------------------------------------------------------------ send *)
Definition extra (r0 : cont) : Z := if is_page r0 then 1 else 0.

Lemma send_acct : forall v cfg sid n h x r0 acts h' x' ns e,
  v_hpages v = true -> send v cfg sid n h x r0 acts = (h', x', ns, e) ->
  x_panic x' = true \/
  (x_used x' - hp h' = x_used x - extra r0 - hp h /\ h_pages h' - hp h' = h_pages h - extra r0 - hp h /\
   h_closed h' = h_closed h /\ h_seen h' = h_seen h /\ zlen (h_queue h') <= zlen (h_queue h)).
Proof.
  intros v cfg sid n h x r0 acts h' x' ns e Hv H. unfold send in H. rewrite Hv in H.
  destruct (add_pending (h_saved h) (cseq r0)) as [[[pre sl] saved1] reld] eqn:Ep.
  destruct (add_contiguous (h_queue h) (sadd (cseq r0) (clen r0))) as [[tk q1] nextSeq] eqn:Ec.
  set (all := map CPage pre ++ r0 :: map CPage tk) in *.
  match type of H with context [if ?b then _ else find_keep _ _ _ _ _] => destruct b end.
  - (* no KeepFrom *)
    destruct (keep_conv (skipn (length all) all) 0) as [[saved2 alloc] pk] eqn:Ek.
    inversion H; subst; clear H. cbn [x_panic x_used].
    destruct pk; [left; apply orb_true_r|right].
    apply keep_conv_len in Ek.
    pose proof (count_pages_split (length all) all) as S.
    assert (Ca : count_pages all = zlen pre + extra r0 + zlen tk).
    { unfold all. rewrite count_pages_app. rewrite count_pages_map.
      change (r0 :: map CPage tk) with ([r0] ++ map CPage tk). rewrite count_pages_app, count_pages_map.
      unfold count_pages, extra. cbn [filter]. destruct (is_page r0); rewrite ?zlen_cons, ?zlen_nil; lia. }
    apply add_pending_len in Ep. apply add_contiguous_len in Ec.
    pose proof (zlen_nonneg tk). unfold hp. cbn [h_queue h_saved h_pages h_closed h_seen]. repeat split; lia.
  - destruct (find_keep all _ 0 _ 0) as [ndx kskip].
    destruct (keep_conv (skipn ndx all) kskip) as [[saved2 alloc] pk] eqn:Ek.
    inversion H; subst; clear H. cbn [x_panic x_used].
    destruct pk; [left; apply orb_true_r|right].
    apply keep_conv_len in Ek.
    pose proof (count_pages_split ndx all) as S.
    assert (Ca : count_pages all = zlen pre + extra r0 + zlen tk).
    { unfold all. rewrite count_pages_app. rewrite count_pages_map.
      change (r0 :: map CPage tk) with ([r0] ++ map CPage tk). rewrite count_pages_app, count_pages_map.
      unfold count_pages, extra. cbn [filter]. destruct (is_page r0); rewrite ?zlen_cons, ?zlen_nil; lia. }
    apply add_pending_len in Ep. apply add_contiguous_len in Ec.
    pose proof (zlen_nonneg tk). unfold hp. cbn [h_queue h_saved h_pages h_closed h_seen]. repeat split; lia.
Qed.

(* ------------------------------------------------------------------ connections *)
Section Fixed.
Variable v : variant.
Variable cfg : rcfg.
Hypothesis Hsaved : v_saved v = true.
Hypothesis Hhp : v_hpages v = true.

(* invariant of a connection in the pool *)
Definition cok (c : rconn) : Prop :=
  conn_ok c /\ (both_closed c = true -> declines cfg (rc_sid c) = true).

Definition good (u0 : Z) (c' : rconn) (rm : bool) (x' : rctx) : Prop :=
  x_panic x' = true \/
  (conn_ok c' /\ x_used x' - cp c' = u0 /\
   (rm = true -> both_closed c' = true) /\
   (rm = false -> both_closed c' = true -> declines cfg (rc_sid c') = true)).

Lemma get_put_same : forall c w h, get_half (put_half c w h) w = h.
Proof. intros c [] h; reflexivity. Qed.
Lemma get_put_other : forall c w h, get_half (put_half c w h) (negb w) = get_half c (negb w).
Proof. intros c [] h; reflexivity. Qed.
Lemma cp_halves : forall c w, cp c = hp (get_half c w) + hp (get_half c (negb w)).
Proof. intros c []; unfold cp; cbn; lia. Qed.
Lemma conn_ok_halves : forall c w, conn_ok c <-> half_ok (get_half c w) /\ half_ok (get_half c (negb w)).
Proof. intros c []; unfold conn_ok; cbn; tauto. Qed.
Lemma both_closed_halves : forall c w, both_closed c = h_closed (get_half c w) && h_closed (get_half c (negb w)).
Proof. intros c []; unfold both_closed; cbn; destruct (h_closed (rc_c2s c)), (h_closed (rc_s2c c)); reflexivity. Qed.
Lemma sid_put : forall c w h, rc_sid (put_half c w h) = rc_sid c.
Proof. intros c [] h; reflexivity. Qed.
Lemma bump_half : forall c w, get_half (bump_calls c) w = get_half c w.
Proof. intros c []; reflexivity. Qed.
Lemma sid_bump : forall c, rc_sid (bump_calls c) = rc_sid c.
Proof. reflexivity. Qed.

Lemma close_half_good : forall c w x c' rm x', conn_ok c -> x_panic x = false ->
  h_closed (get_half c w) = false ->
  (both_closed c = true -> declines cfg (rc_sid c) = true) ->
  close_half v cfg c w x = (c', rm, x') -> good (x_used x - cp c) c' rm x' /\
  (h_closed (get_half c' w) = true /\ h_queue (get_half c' w) = []) /\
  (rc_sid c' = rc_sid c /\ get_half c' (negb w) = get_half c (negb w)).
Proof.
  intros c w x c' rm x' Hok Hp Hnc Hd H. unfold close_half in H. rewrite Hsaved, Hhp in H.
  set (h := get_half c w) in *.
  set (h' := mkH (h_pages h - zlen (h_queue h) - zlen (h_saved h)) [] [] (h_next h) (h_seen h) true) in *.
  apply (conn_ok_halves c w) in Hok. destruct Hok as [[Ok1 _] Ok2]. fold h in Ok1.
  assert (Hh' : half_ok h' /\ hp h' = 0).
  { assert (E0 : hp h' = 0) by reflexivity. split; [|exact E0]. unfold half_ok. rewrite E0. split; [|reflexivity].
    unfold h'. cbn [h_pages]. unfold hp in Ok1. lia. }
  destruct Hh' as [Hh'ok Hh'0].
  assert (Cok : conn_ok (put_half c w h')).
  { apply (conn_ok_halves _ w). rewrite get_put_same, get_put_other. split; assumption. }
  assert (Ccp : cp (put_half c w h') = cp c - hp h).
  { rewrite (cp_halves _ w), get_put_same, get_put_other, (cp_halves c w). fold h. lia. }
  assert (Hcl : h_closed (get_half (put_half c w h') w) = true /\ h_queue (get_half (put_half c w h') w) = [])
    by (rewrite get_put_same; split; reflexivity).
  destruct (both_closed (put_half c w h')) eqn:Eb; inversion H; subst; clear H;
    (split; [|split; [exact Hcl|split; [apply sid_put|apply get_put_other]]]); right; cbn [x_used x_panic]; unfold hp in *.
  - split; [exact Cok|]. split; [lia|]. split; [intros _; exact Eb|].
    intros Ha _. rewrite sid_put. destruct (declines cfg (rc_sid c)); [reflexivity|discriminate].
  - split; [exact Cok|]. split; [lia|]. split; [discriminate|]. intros _ Hb. congruence.
Qed.

Lemma send_conn_good : forall c w h x r0 acts c' rm x' ns,
  half_ok (get_half c (negb w)) -> h_pages h = hp h + extra r0 -> h_closed h = false -> x_panic x = false ->
  send_conn v cfg c w h x r0 acts = (c', rm, x', ns) ->
  good (x_used x - extra r0 - cp (put_half c w h)) c' rm x' /\
  (x_panic x' = false -> zlen (h_queue (get_half c' w)) <= zlen (h_queue h)) /\
  (rc_sid c' = rc_sid c /\ get_half c' (negb w) = get_half c (negb w)).
Proof.
  intros c w h x r0 acts c' rm x' ns Hoth Hpg Hnc Hp H. unfold send_conn in H.
  destruct (send v cfg (rc_sid c) (rc_ncalls c) h x r0 acts) as [[[h1 x1] nextSeq] isEnd] eqn:Es.
  pose proof (send_acct _ _ _ _ _ _ _ _ _ _ _ _ Hhp Es) as A.
  destruct (x_panic x1) eqn:Ep1.
  - inversion H; subst. split; [left; exact Ep1|]. split; [congruence|]. split; [rewrite sid_bump; apply sid_put|rewrite bump_half; apply get_put_other].
  - destruct A as [A|[A1 [A2 [A3 [A4 A5]]]]]; [congruence|].
    set (c1 := bump_calls (put_half c w h1)) in *.
    assert (Hh1 : half_ok h1). { unfold half_ok. split; [lia|]. intros Hc. congruence. }
    assert (Cok : conn_ok c1).
    { apply (conn_ok_halves _ w). unfold c1. rewrite !bump_half, get_put_same, get_put_other. split; assumption. }
    assert (Ccp : cp c1 = hp h1 + hp (get_half c (negb w))).
    { rewrite (cp_halves _ w). unfold c1. rewrite !bump_half, get_put_same, get_put_other. reflexivity. }
    assert (Ccp0 : cp (put_half c w h) = hp h + hp (get_half c (negb w))).
    { rewrite (cp_halves _ w), get_put_same, get_put_other. reflexivity. }
    assert (Hg1 : get_half c1 w = h1) by (unfold c1; rewrite bump_half, get_put_same; reflexivity).
    assert (Hs1 : rc_sid c1 = rc_sid c) by (unfold c1; rewrite sid_bump; apply sid_put).
    assert (Ho1 : get_half c1 (negb w) = get_half c (negb w)) by (unfold c1; rewrite bump_half; apply get_put_other).
    destruct isEnd.
    + destruct (close_half v cfg c1 w x1) as [[c2 rm2] x2] eqn:Ec. inversion H as [[Hc' Hrm Hx' Hns]]; clear H; subst c' rm x' ns.
      assert (Hnb : both_closed c1 = true -> declines cfg (rc_sid c1) = true).
      { rewrite (both_closed_halves c1 w), Hg1. intros Hb. apply andb_true_iff in Hb. destruct Hb as [Hb _]. congruence. }
      destruct (close_half_good c1 w x1 _ _ _ Cok Ep1 ltac:(rewrite Hg1; congruence) Hnb Ec) as [G [[Gc Gq] [Gs Go]]].
      split; [|split; [|split; congruence]].
      * destruct G as [G|[G1 [G2 [G3 G4]]]]; [left; exact G|right]. split; [exact G1|]. split; [lia|]. split; assumption.
      * intros _. rewrite Gq. rewrite zlen_nil. apply zlen_nonneg.
    + inversion H as [[Hc' Hrm Hx' Hns]]; clear H; subst c' rm x' ns. split; [|split; [intros _; rewrite Hg1; exact A5|split; [exact Hs1|exact Ho1]]].
      right. split; [exact Cok|]. split; [lia|]. split; [discriminate|].
      intros _ Hb. rewrite (both_closed_halves c1 w), Hg1 in Hb. apply andb_true_iff in Hb. destruct Hb as [Hb _]. congruence.
Qed.

Lemma skip_flush_good : forall c w x c' rm x', cok c -> x_panic x = false -> h_closed (get_half c w) = false ->
  skip_flush v cfg c w x = (c', rm, x') ->
  good (x_used x - cp c) c' rm x' /\ (rc_sid c' = rc_sid c /\ get_half c' (negb w) = get_half c (negb w)) /\
  (x_panic x' = false -> h_closed (get_half c' w) = true \/ zlen (h_queue (get_half c' w)) < zlen (h_queue (get_half c w))).
Proof.
  intros c w x c' rm x' [Hok Hd] Hp Hnc H. unfold skip_flush in H.
  destruct (h_queue (get_half c w)) as [|p q'] eqn:Eq.
  - destruct (close_half_good c w x _ _ _ Hok Hp Hnc Hd H) as [G [[Gc _] Gs]]. split; [exact G|]. split; [exact Gs|]. intros _. left. exact Gc.
  - set (h := get_half c w) in *.
    set (h1 := mkH (h_pages h) (h_saved h) q' (h_next h) (h_seen h) (h_closed h)) in *.
    destruct (send_conn v cfg c w h1 x (CPage p) (if rp_first p then rp_seen p else -1)) as [[[c1 rm1] x1] nextSeq] eqn:Es.
    inversion H; subst; clear H.
    pose proof (proj1 (conn_ok_halves c w) Hok) as [[Ok1 Ok1c] Ok2]. fold h in Ok1, Ok1c.
    assert (Hpg : h_pages h1 = hp h1 + extra (CPage p)).
    { unfold hp, extra, h1 in *. cbn. rewrite Eq in Ok1. rewrite zlen_cons in Ok1. lia. }
    destruct (send_conn_good c w h1 x (CPage p) _ _ _ _ _ Ok2 Hpg Hnc Hp Es) as [G [Gq [Gs Go]]].
    assert (Ccp : cp (put_half c w h1) = cp c - 1).
    { rewrite (cp_halves _ w), get_put_same, get_put_other, (cp_halves c w). fold h. unfold hp, h1. cbn. rewrite Eq, zlen_cons. lia. }
    set (c2 := if nextSeq =? INVALID then c1 else put_half c1 w (set_next (get_half c1 w) nextSeq)).
    assert (Hsame : cp c2 = cp c1 /\ (conn_ok c1 -> conn_ok c2) /\ both_closed c2 = both_closed c1 /\ rc_sid c2 = rc_sid c1 /\
                    h_queue (get_half c2 w) = h_queue (get_half c1 w) /\ h_closed (get_half c2 w) = h_closed (get_half c1 w) /\
                    get_half c2 (negb w) = get_half c1 (negb w)).
    { unfold c2. destruct (nextSeq =? INVALID); [split; [reflexivity|split; [auto|split; [reflexivity|split; [reflexivity|split; [reflexivity|split; reflexivity]]]]]|].
      split; [rewrite (cp_halves _ w), get_put_same, get_put_other, (cp_halves c1 w); reflexivity|].
      split; [intros Hc1; apply (conn_ok_halves _ w); rewrite get_put_same, get_put_other; apply (conn_ok_halves c1 w) in Hc1; exact Hc1|].
      split; [rewrite (both_closed_halves _ w), get_put_same, get_put_other, (both_closed_halves c1 w); reflexivity|].
      split; [apply sid_put|]. rewrite get_put_same, get_put_other. split; [reflexivity|split; reflexivity]. }
    destruct Hsame as [S1 [S2 [S3 [S4 [S5 [S6 S7]]]]]].
    split; [|split; [split; congruence|]].
    + destruct G as [G|[G1 [G2 [G3 G4]]]]; [left; exact G|right]. cbn [extra is_page] in G2.
      split; [apply S2; exact G1|]. split; [lia|]. rewrite S3, S4. split; assumption.
    + intros Hx. right. rewrite S5. specialize (Gq Hx). unfold h1 in Gq. cbn [h_queue] in Gq. rewrite zlen_cons. lia.
Qed.

(* state of a connection inside a call: rm = it has been removed from the pool *)
Definition G (c : rconn) (rm : bool) : Prop :=
  conn_ok c /\ (rm = true -> both_closed c = true) /\
  (rm = false -> both_closed c = true -> declines cfg (rc_sid c) = true).

Lemma good_G : forall u c rm x, good u c rm x -> x_panic x = false -> G c rm /\ x_used x - cp c = u.
Proof. unfold good, G. intros u c rm x [H|H] Hp; [congruence|]. intuition. Qed.

Lemma G_good : forall u c rm x, G c rm -> x_used x - cp c = u -> good u c rm x.
Proof. unfold good, G. intros. right. intuition. Qed.

Lemma G_open_half : forall c rm w, G c rm -> h_closed (get_half c w) = false -> rm = false /\ cok c.
Proof.
  intros c rm w [Hok [H1 H2]] Hnc. destruct rm.
  - specialize (H1 eq_refl). rewrite (both_closed_halves c w), Hnc in H1. discriminate.
  - split; [reflexivity|]. split; [exact Hok|exact (H2 eq_refl)].
Qed.

Lemma fc_loop_good : forall t w fuel c rm x c' rm' x', G c rm -> x_panic x = false ->
  fc_loop fuel v cfg c w rm x t = (c', rm', x') ->
  good (x_used x - cp c) c' rm' x' /\ rc_sid c' = rc_sid c /\ get_half c' (negb w) = get_half c (negb w).
Proof.
  intros t w. induction fuel as [|f IH]; intros c rm x c' rm' x' HG Hp H; cbn [fc_loop] in H.
  - inversion H; subst. split; [apply G_good; [exact HG|reflexivity]|split; reflexivity].
  - destruct (h_closed (get_half c w)) eqn:Ec; cbn [orb] in H.
    + inversion H; subst. split; [apply G_good; [exact HG|reflexivity]|split; reflexivity].
    + rewrite Hp in H. destruct (h_queue (get_half c w)) as [|p q] eqn:Eq.
      * inversion H; subst. split; [apply G_good; [exact HG|reflexivity]|split; reflexivity].
      * destruct (rp_seen p <? t).
        -- destruct (G_open_half c rm w HG Ec) as [Hrm Hcok]. subst rm.
           destruct (skip_flush v cfg c w x) as [[c1 rm1] x1] eqn:Es.
           destruct (skip_flush_good c w x _ _ _ Hcok Hp Ec Es) as [Gd [[Gs Go] _]]. cbn [orb] in H.
           destruct (x_panic x1) eqn:Ep1.
           ++ assert (E : fc_loop f v cfg c1 w rm1 x1 t = (c1, rm1, x1)).
              { destruct f; cbn [fc_loop]; [reflexivity|]. rewrite Ep1, orb_true_r. reflexivity. }
              rewrite E in H. inversion H; subst. split; [left; exact Ep1|split; assumption].
           ++ destruct (good_G _ _ _ _ Gd Ep1) as [G1 U1].
              destruct (IH c1 rm1 x1 _ _ _ G1 Ep1 H) as [I1 [I2 I3]].
              split; [rewrite <- U1; exact I1|split; congruence].
        -- inversion H; subst. split; [apply G_good; [exact HG|reflexivity]|split; reflexivity].
Qed.

Lemma G_weaken : forall c rm, G c rm -> both_closed c = true \/ rm = false -> forall rm', (rm' = true -> both_closed c = true) -> (rm' = false -> rm = false) -> G c rm'.
Proof.
  unfold G. intros c rm [Hok [H1 H2]] _ rm' Ha Hb. split; [exact Hok|]. split; [exact Ha|].
  intros Hr Hbc. apply H2; [apply Hb; exact Hr|exact Hbc].
Qed.

Lemma flush_close_good : forall w t tc c rm0 x c' rm' x' fl cl, G c rm0 -> x_panic x = false ->
  flush_close v cfg c w x t tc = (c', rm', x', fl, cl) ->
  good (x_used x - cp c) c' (rm0 || rm') x' /\ rc_sid c' = rc_sid c.
Proof.
  intros w t tc c rm0 x c' rm' x' fl cl HG Hp H. unfold flush_close in H.
  destruct (h_closed (get_half c w)) eqn:Ec.
  - inversion H; subst. rewrite orb_false_r. split; [apply G_good; [exact HG|reflexivity]|reflexivity].
  - destruct (G_open_half c rm0 w HG Ec) as [Hrm Hcok]. subst rm0. cbn [orb].
    destruct (fc_loop (S (length (h_queue (get_half c w)))) v cfg c w false x t) as [[c1 rm1] x1] eqn:El.
    destruct (fc_loop_good t w _ c false x _ _ _ HG Hp El) as [Gd [Gs Go]].
    destruct (x_panic x1) eqn:Ep1.
    + inversion H; subst. split; [left; exact Ep1|exact Gs].
    + destruct (good_G _ _ _ _ Gd Ep1) as [G1 U1].
      destruct (h_closed (get_half c1 w)) eqn:Ec1.
      * inversion H; subst. split; [exact Gd|exact Gs].
      * destruct (h_queue (get_half c1 w)) eqn:Eq1.
        -- destruct (conn_last_seen c1 <? tc).
           ++ destruct (G_open_half c1 rm1 w G1 Ec1) as [Hrm1 [Hok1 Hd1]]. subst rm1.
              destruct (close_half v cfg c1 w x1) as [[c2 rm2] x2] eqn:Ecl. inversion H; subst. cbn [orb].
              destruct (close_half_good c1 w x1 _ _ _ Hok1 Ep1 Ec1 Hd1 Ecl) as [Gd2 [_ [Gs2 _]]].
              split; [rewrite <- U1; exact Gd2|congruence].
           ++ inversion H; subst. split; [exact Gd|exact Gs].
        -- inversion H; subst. split; [exact Gd|exact Gs].
Qed.

Lemma flush_conn_good : forall t tc c x c' rm x' a b, cok c -> x_panic x = false ->
  flush_conn v cfg t tc c x = (c', rm, x', a, b) ->
  good (x_used x - cp c) c' rm x' /\ rc_sid c' = rc_sid c.
Proof.
  intros t tc c x c' rm x' a b [Hok Hd] Hp H. unfold flush_conn in H.
  assert (G0 : G c false) by (split; [exact Hok|split; [discriminate|intros _; exact Hd]]).
  destruct (flush_close v cfg c false x t tc) as [[[[c1 rm1] x1] f1] k1] eqn:E1.
  destruct (flush_close_good false t tc c false x _ _ _ _ _ G0 Hp E1) as [Gd1 Gs1]. cbn [orb] in Gd1.
  destruct (x_panic x1) eqn:Ep1.
  - inversion H; subst. split; [left; exact Ep1|exact Gs1].
  - destruct (good_G _ _ _ _ Gd1 Ep1) as [G1 U1].
    destruct (flush_close v cfg c1 true x1 t tc) as [[[[c2 rm2] x2] f2] k2] eqn:E2.
    destruct (flush_close_good true t tc c1 rm1 x1 _ _ _ _ _ G1 Ep1 E2) as [Gd2 Gs2].
    inversion H; subst; clear H. split; [|congruence].
    destruct Gd2 as [Gd2|[K1 [K2 [K3 K4]]]]; [left; exact Gd2|right].
    split; [exact K1|]. split; [lia|].
    destruct (both_closed c' && (h_seen (rc_s2c c') <? tc) && (h_seen (rc_c2s c') <? tc)) eqn:E3.
    + rewrite orb_true_r. split; [intros _|discriminate].
      apply andb_true_iff in E3. destruct E3 as [E3 _]. apply andb_true_iff in E3. apply E3.
    + rewrite orb_false_r. split; assumption.
Qed.

Lemma fa_loop_good : forall w fuel c rm x c' rm' x', G c rm -> x_panic x = false ->
  fa_loop fuel v cfg c w rm x = (c', rm', x') ->
  good (x_used x - cp c) c' rm' x' /\ rc_sid c' = rc_sid c /\
  (x_panic x' = false ->
     get_half c' (negb w) = get_half c (negb w) /\
     ((length (h_queue (get_half c w)) < fuel)%nat -> h_closed (get_half c' w) = true)).
Proof.
  intros w. induction fuel as [|f IH]; intros c rm x c' rm' x' HG Hp H; cbn [fa_loop] in H.
  - inversion H; subst. split; [apply G_good; [exact HG|reflexivity]|]. split; [reflexivity|]. intros _. split; [reflexivity|lia].
  - destruct (h_closed (get_half c w)) eqn:Ec; cbn [orb] in H.
    + inversion H; subst. split; [apply G_good; [exact HG|reflexivity]|]. split; [reflexivity|]. intros _. split; [reflexivity|intros _; exact Ec].
    + rewrite Hp in H. destruct (G_open_half c rm w HG Ec) as [Hrm Hcok]. subst rm.
      destruct (skip_flush v cfg c w x) as [[c1 rm1] x1] eqn:Es. cbn [orb] in H.
      destruct (skip_flush_good c w x _ _ _ Hcok Hp Ec Es) as [Gd [[Gs Go] Gp]].
      destruct (x_panic x1) eqn:Ep1.
      * assert (E : fa_loop f v cfg c1 w rm1 x1 = (c1, rm1, x1)).
        { destruct f; cbn [fa_loop]; [reflexivity|]. rewrite Ep1, orb_true_r. reflexivity. }
        rewrite E in H. inversion H; subst. split; [left; exact Ep1|]. split; [exact Gs|]. intros Hx. congruence.
      * destruct (good_G _ _ _ _ Gd Ep1) as [G1 U1].
        destruct (IH c1 rm1 x1 _ _ _ G1 Ep1 H) as [I1 [I2 I3]].
        split; [rewrite <- U1; exact I1|]. split; [congruence|].
        intros Hx. destruct (I3 Hx) as [J1 J2]. split; [congruence|]. intros Hl.
        destruct (Gp eq_refl) as [Hc1|Hlt].
        -- (* half closed by skipFlush: the rest of the loop returns at once *)
           assert (E : fa_loop f v cfg c1 w rm1 x1 = (c1, rm1, x1)).
           { destruct f; cbn [fa_loop]; [reflexivity|]. rewrite Hc1. reflexivity. }
           rewrite E in H. inversion H; subst. exact Hc1.
        -- apply J2. unfold zlen in Hlt. lia.
Qed.

Lemma flush_all_conn_good : forall c x c' rm x' a b, cok c -> x_panic x = false ->
  flush_all_conn v cfg c x = (c', rm, x', a, b) ->
  good (x_used x - cp c) c' rm x' /\ rc_sid c' = rc_sid c /\ (x_panic x' = false -> both_closed c' = true).
Proof.
  intros c x c' rm x' a b [Hok Hd] Hp H. unfold flush_all_conn in H.
  assert (G0 : G c false) by (split; [exact Hok|split; [discriminate|intros _; exact Hd]]).
  destruct (fa_loop (S (S (length (h_queue (rc_s2c c))))) v cfg c false false x) as [[c1 rm1] x1] eqn:E1.
  destruct (fa_loop_good false _ c false x _ _ _ G0 Hp E1) as [Gd1 [Gs1 Gc1]].
  destruct (x_panic x1) eqn:Ep1.
  - inversion H; subst. split; [left; exact Ep1|]. split; [exact Gs1|]. intros Hx. congruence.
  - destruct (good_G _ _ _ _ Gd1 Ep1) as [G1 U1].
    destruct (fa_loop (S (S (length (h_queue (rc_c2s c1))))) v cfg c1 true false x1) as [[c2 rm2] x2] eqn:E2.
    assert (G1' : G c1 false \/ rm1 = true).
    { destruct rm1; [right; reflexivity|left; exact G1]. }
    (* the second loop starts from the removal status of the first *)
    assert (L2 : good (x_used x1 - cp c1) c2 (rm1 || rm2) x2 /\ rc_sid c2 = rc_sid c1 /\
                 (x_panic x2 = false -> get_half c2 false = get_half c1 false /\ h_closed (get_half c2 true) = true)).
    { destruct rm1.
      - (* already removed: both halves are closed, the loop does nothing *)
        destruct G1 as [K1 [K2 K3]]. specialize (K2 eq_refl).
        assert (Hc : h_closed (get_half c1 true) = true).
        { rewrite (both_closed_halves c1 true) in K2. apply andb_true_iff in K2. apply K2. }
        cbn [fa_loop] in E2. rewrite Hc in E2. cbn [orb] in E2. inversion E2; subst.
        split; [apply G_good; [split; [exact K1|split; [intros _; exact K2|discriminate]]|reflexivity]|].
        split; [reflexivity|]. intros _. split; [reflexivity|exact Hc].
      - destruct (fa_loop_good true _ c1 false x1 _ _ _ G1 Ep1 E2) as [Gd2 [Gs2 Gc2]]. cbn [orb].
        split; [exact Gd2|]. split; [exact Gs2|]. intros Hx. destruct (Gc2 Hx) as [J1 J2]. split; [exact J1|apply J2; cbn [get_half]; lia]. }
    destruct L2 as [Gd2 [Gs2 Gc2]].
    inversion H; subst; clear H. split; [rewrite <- U1; exact Gd2|]. split; [congruence|].
    intros Hx. destruct (Gc2 Hx) as [J1 J2]. destruct (Gc1 eq_refl) as [_ J3].
    rewrite (both_closed_halves c' true), J2. cbn [negb andb]. rewrite J1. apply J3. cbn [get_half]. lia.
Qed.

(* ------------------------------------------------------------------ checkOverlap *)
Lemma co_loop_len : forall start end_ left right blen rel tags,
  let r := co_loop start end_ left right blen rel tags in
  zlen (co_left r) + zlen (co_right r) + co_rel r = zlen left + zlen right + rel /\ rel <= co_rel r.
Proof.
  intros start end_. induction left as [|cur rest IH]; intros right blen rel tags; cbn [co_loop].
  - cbn. split; lia.
  - destruct (rdiff end_ (rp_seq cur) >? 0).
    + specialize (IH (cur :: right) blen rel (5 :: tags)). cbn zeta in IH. rewrite !zlen_cons in *. lia.
    + destruct (rdiff start (sadd (rp_seq cur) (rp_len cur)) <=? 0); [cbn; split; lia|].
      destruct ((rdiff end_ (sadd (rp_seq cur) (rp_len cur)) <=? 0) && (rdiff start (rp_seq cur) >=? 0)).
      * specialize (IH right blen (rel + 1) (3 :: tags)). cbn zeta in IH. rewrite !zlen_cons in *. lia.
      * destruct ((rdiff end_ (sadd (rp_seq cur) (rp_len cur)) <? 0) && (rdiff start (sadd (rp_seq cur) (rp_len cur)) >? 0)).
        -- destruct ((0 <=? - rdiff start (rp_seq cur)) && (- rdiff start (rp_seq cur) <=? rp_len cur)); cbn [co_left co_right co_rel]; rewrite ?zlen_cons; split; lia.
        -- destruct ((rdiff start (rp_seq cur) >? 0) && (rdiff end_ (rp_seq cur) <? 0)).
           ++ destruct ((0 <=? - rdiff end_ (rp_seq cur)) && (- rdiff end_ (rp_seq cur) <=? rp_len cur)).
              ** specialize (IH (drop_front cur (- rdiff end_ (rp_seq cur)) :: right) blen rel (4 :: tags)). cbn zeta in IH. rewrite !zlen_cons in *. lia.
              ** cbn [co_left co_right co_rel]. rewrite ?zlen_cons. split; lia.
           ++ destruct ((rdiff end_ (sadd (rp_seq cur) (rp_len cur)) >=? 0) && (rdiff start (rp_seq cur) <=? 0)).
              ** destruct ((0 <=? - rdiff start (rp_seq cur)) && (- rdiff start (rp_seq cur) + blen <=? rp_len cur)).
                 --- specialize (IH (cur :: right) 0 rel (6 :: tags)). cbn zeta in IH. rewrite !zlen_cons in *. lia.
                 --- cbn [co_left co_right co_rel]. rewrite ?zlen_cons. split; lia.
              ** specialize (IH (cur :: right) blen rel tags). cbn zeta in IH. rewrite !zlen_cons in *. lia.
Qed.

Lemma zlen_rev : forall {A} (l : list A), zlen (rev l) = zlen l.
Proof. intros. unfold zlen. rewrite rev_length. reflexivity. Qed.

Lemma check_overlap_len : forall queue blen start ts e dq,
  let r := check_overlap queue blen start ts e dq in
  c2_panic r = false -> zlen (c2_queue r) = zlen queue - c2_rel r + c2_added r /\ 0 <= c2_rel r /\ 0 <= c2_added r.
Proof.
  intros queue blen start ts e dq. cbn zeta. unfold check_overlap.
  pose proof (co_loop_len start (sadd start blen) (rev queue) [] blen 0 []) as L. cbn zeta in L.
  set (r := co_loop start (sadd start blen) (rev queue) [] blen 0 []) in *. rewrite zlen_rev, zlen_nil in L.
  destruct (co_panic r); [cbn; discriminate|].
  destruct ((0 <? co_len r) && dq); cbn [c2_queue c2_rel c2_added c2_panic]; intros _; rewrite !zlen_app, ?zlen_rev;
    pose proof (zlen_nonneg (to_pages start (co_len r) ts e)); split; lia.
Qed.

(* ------------------------------------------------------------------ AssembleWithContext *)

Lemma half_seen_ok : forall h s, half_ok h -> half_ok (mkH (h_pages h) (h_saved h) (h_queue h) (h_next h) s (h_closed h)).
Proof. intros h s H. exact H. Qed.

Lemma finish_next : forall c1 w (n : Z) (b : bool) u rm x,
  good u c1 rm x -> good u (if b then c1 else put_half c1 w (set_next (get_half c1 w) n)) rm x.
Proof.
  intros c1 w n b u rm x Gd. destruct b; [exact Gd|].
  destruct Gd as [Gd|[K1 [K2 [K3 K4]]]]; [left; exact Gd|right].
  set (c2 := put_half c1 w (set_next (get_half c1 w) n)).
  assert (S1 : cp c2 = cp c1) by (unfold c2; rewrite (cp_halves _ w), get_put_same, get_put_other, (cp_halves c1 w); reflexivity).
  assert (S2 : conn_ok c2) by (unfold c2; apply (conn_ok_halves _ w); rewrite get_put_same, get_put_other; apply (conn_ok_halves c1 w) in K1; exact K1).
  assert (S3 : both_closed c2 = both_closed c1) by (unfold c2; rewrite (both_closed_halves _ w), get_put_same, get_put_other, (both_closed_halves c1 w); reflexivity).
  assert (S4 : rc_sid c2 = rc_sid c1) by apply sid_put.
  split; [exact S2|]. split; [lia|]. rewrite S3, S4. split; assumption.
Qed.

Lemma assemble_conn_good : forall c w x seq syn fin rst len ts c' rm x', cok c -> x_panic x = false ->
  assemble_conn v cfg c w x seq syn fin rst len ts = (c', rm, x') ->
  good (x_used x - cp c) c' rm x' /\ rc_sid c' = rc_sid c.
Proof.
  intros c w x seq syn fin rst len ts c' rm x' [Hok Hd] Hp H. unfold assemble_conn in H.
  set (h0 := get_half c w) in *.
  set (h := mkH (h_pages h0) (h_saved h0) (h_queue h0) (h_next h0) (if h_seen h0 <? ts then ts else h_seen h0) (h_closed h0)) in *.
  pose proof (proj1 (conn_ok_halves c w) Hok) as [Ok1 Ok2]. fold h0 in Ok1.
  (* a half that differs from the original in nextSeq / lastSeen only *)
  assert (Same : forall hh, h_pages hh = h_pages h0 -> h_saved hh = h_saved h0 -> h_queue hh = h_queue h0 -> h_closed hh = h_closed h0 ->
                 good (x_used x - cp c) (put_half c w hh) false x /\ rc_sid (put_half c w hh) = rc_sid c).
  { intros hh E1 E2 E3 E4. split; [|apply sid_put]. right.
    assert (Hh : half_ok hh /\ hp hh = hp h0). { unfold half_ok, hp in *. rewrite E1, E2, E3, E4. split; [exact Ok1|reflexivity]. }
    split; [apply (conn_ok_halves _ w); rewrite get_put_same, get_put_other; split; [apply Hh|exact Ok2]|].
    split; [rewrite (cp_halves _ w), get_put_same, get_put_other, (cp_halves c w); fold h0; lia|].
    split; [discriminate|]. intros _ Hb. rewrite sid_put. apply Hd.
    rewrite (both_closed_halves _ w), get_put_same, get_put_other in Hb. rewrite (both_closed_halves c w). fold h0. rewrite <- E4. exact Hb. }
  destruct (h_closed h) eqn:Ec.
  - inversion H; subst. apply Same; reflexivity.
  - destruct (classify (h_next h) seq syn) as [[seq1 next1] queue].
    set (hn := set_next h next1) in *.
    destruct queue.
    + (* queue branch *)
      pose proof (check_overlap_len (h_queue hn) len seq1 ts (rst || fin) true) as L. cbn zeta in L.
      destruct (check_overlap (h_queue hn) len seq1 ts (rst || fin) true) as [q2 l2 added rel tags pk] eqn:Eco.
      cbn [c2_panic c2_queue c2_rel c2_added c2_len] in *.
      destruct pk.
      * inversion H; subst. split; [left; reflexivity|apply sid_put].
      * specialize (L eq_refl). destruct L as [L1 [L2 L3]].
        set (pages1 := h_pages hn - rel + added) in *. set (used1 := x_used x - rel + added) in *.
        set (h1 := mkH pages1 (h_saved hn) q2 (h_next hn) (h_seen hn) (h_closed hn)) in *.
        assert (Hh1 : half_ok h1 /\ hp h1 = hp h0 - rel + added /\ h_closed h1 = false).
        { unfold half_ok, hp, h1, pages1, hn, h in *. cbn [h_pages h_saved h_queue h_closed set_next] in *. destruct Ok1 as [Ok1 _].
          split; [split; [lia|intros; congruence]|split; [lia|exact Ec]]. }
        destruct Hh1 as [Hh1 [Hp1 Hc1]].
        assert (Plain : good (x_used x - cp c) (put_half c w h1) false (with_used x used1) /\ rc_sid (put_half c w h1) = rc_sid c).
        { split; [|apply sid_put]. right.
          split; [apply (conn_ok_halves _ w); rewrite get_put_same, get_put_other; split; assumption|].
          split; [rewrite (cp_halves _ w), get_put_same, get_put_other, (cp_halves c w); fold h0; unfold with_used, used1; cbn [x_used]; lia|].
          split; [discriminate|]. intros _ Hb. rewrite (both_closed_halves _ w), get_put_same, Hc1 in Hb. discriminate. }
        destruct (limit_hit cfg pages1 used1); [|inversion H; subst; exact Plain].
        destruct q2 as [|p q'] eqn:Eq2; [inversion H; subst; exact Plain|].
        set (h2 := mkH pages1 (h_saved hn) q' (h_next hn) (h_seen hn) (h_closed hn)) in *.
        destruct (send_conn v cfg c w h2 (with_used x used1) (CPage p) ts) as [[[c1 rm1] x1] nextSeq] eqn:Es.
        inversion H; subst; clear H.
        assert (Hpg : h_pages h2 = hp h2 + extra (CPage p)).
        { destruct Hh1 as [Hh1 _]. unfold hp, extra, h2, h1 in *. cbn [h_pages h_saved h_queue is_page] in *. rewrite zlen_cons in Hh1. lia. }
        destruct (send_conn_good c w h2 (with_used x used1) (CPage p) ts _ _ _ _ Ok2 Hpg Hc1 Hp Es) as [Gd [_ [Gs _]]].
        assert (Ccp : cp (put_half c w h2) = cp c - rel + added - 1).
        { rewrite (cp_halves _ w), get_put_same, get_put_other, (cp_halves c w). fold h0.
          unfold hp, h2, h1 in *. cbn [h_saved h_queue] in *. rewrite zlen_cons in Hp1. lia. }
        split; [|destruct (nextSeq =? INVALID); [exact Gs|rewrite sid_put; exact Gs]].
        apply finish_next. cbn [extra is_page] in Gd. unfold with_used, used1 in Gd. cbn [x_used] in Gd.
        replace (x_used x - cp c) with (x_used x - rel + added - 1 - cp (put_half c w h2)) by lia. exact Gd.
    + (* in-order branch *)
      destruct (overlap_existing (h_next hn) seq1 len) as [[b1 seq2] pk0].
      destruct pk0; [inversion H; subst; split; [left; reflexivity|apply sid_put]|].
      pose proof (check_overlap_len (h_queue hn) b1 seq2 ts (rst || fin) false) as L. cbn zeta in L.
      destruct (check_overlap (h_queue hn) b1 seq2 ts (rst || fin) false) as [q2 l2 added rel tags pk] eqn:Eco.
      cbn [c2_panic c2_queue c2_rel c2_added c2_len] in *.
      destruct pk; [inversion H; subst; split; [left; reflexivity|apply sid_put]|].
      specialize (L eq_refl). destruct L as [L1 [L2 L3]].
      assert (Ea : added = 0).
      { unfold check_overlap in Eco. destruct (co_panic _) in Eco; [inversion Eco; reflexivity|].
        rewrite andb_false_r in Eco. inversion Eco; reflexivity. }
      subst added.
      set (pages1 := h_pages hn - rel) in *. set (used1 := x_used x - rel) in *.
      set (h1 := mkH pages1 (h_saved hn) q2 (h_next hn) (h_seen hn) (h_closed hn)) in *.
      assert (Hh1 : half_ok h1 /\ hp h1 = hp h0 - rel /\ h_closed h1 = false).
      { unfold half_ok, hp, h1, pages1, hn, h in *. cbn [h_pages h_saved h_queue h_closed set_next] in *. destruct Ok1 as [Ok1 _].
        split; [split; [lia|intros; congruence]|split; [lia|exact Ec]]. }
      destruct Hh1 as [Hh1 [Hp1 Hc1]].
      destruct ((0 <? l2) || (rst || fin) || syn).
      * destruct (send_conn v cfg c w h1 (with_used x used1) (CLive (mkLive l2 seq2 syn (rst || fin) ts)) ts) as [[[c1 rm1] x1] nextSeq] eqn:Es.
        inversion H; subst; clear H.
        assert (Hpg : h_pages h1 = hp h1 + extra (CLive (mkLive l2 seq2 syn (rst || fin) ts))).
        { destruct Hh1 as [Hh1 _]. unfold extra. cbn [is_page]. lia. }
        destruct (send_conn_good c w h1 (with_used x used1) _ ts _ _ _ _ Ok2 Hpg Hc1 Hp Es) as [Gd [_ [Gs _]]].
        assert (Ccp : cp (put_half c w h1) = cp c - rel).
        { rewrite (cp_halves _ w), get_put_same, get_put_other, (cp_halves c w). fold h0. lia. }
        split; [|destruct (nextSeq =? INVALID); [exact Gs|rewrite sid_put; exact Gs]].
        apply finish_next. cbn [extra is_page] in Gd. unfold with_used, used1 in Gd. cbn [x_used] in Gd.
        replace (x_used x - cp c) with (x_used x - rel - 0 - cp (put_half c w h1)) by lia. exact Gd.
      * inversion H; subst. split; [|apply sid_put]. right.
        split; [apply (conn_ok_halves _ w); rewrite get_put_same, get_put_other; split; assumption|].
        split; [rewrite (cp_halves _ w), get_put_same, get_put_other, (cp_halves c w); fold h0; unfold with_used, used1; cbn [x_used]; lia|].
        split; [discriminate|]. intros _ Hb. rewrite (both_closed_halves _ w), get_put_same, Hc1 in Hb. discriminate.
Qed.

(* ------------------------------------------------------------------ the pool *)
Lemma both_closed_cp0 : forall c, conn_ok c -> both_closed c = true -> cp c = 0.
Proof.
  intros c [[_ H1] [_ H2]] Hb. unfold both_closed in Hb. apply andb_true_iff in Hb. destruct Hb as [B1 B2].
  unfold cp. rewrite (H1 B1), (H2 B2). reflexivity.
Qed.

Definition rinv (st : rstate) : Prop :=
  rs_cfg st = cfg /\ rs_used st = psum (rs_conns st) /\ Forall cok (rs_conns st).

Lemma rsplit_key_spec : forall k l pre c post, rsplit_key k l = Some (pre, c, post) -> l = pre ++ c :: post.
Proof.
  induction l as [|x l IH]; intros pre c post H; cbn [rsplit_key] in H; [discriminate|].
  destruct (rc_key x =? k).
  - inversion H; subst. reflexivity.
  - destruct (rsplit_key k l) as [[[a y] b]|] eqn:E2; [|discriminate]. inversion H; subst.
    rewrite (IH _ _ _ eq_refl). reflexivity.
Qed.

Lemma rdead_inv : forall st, rinv st -> rinv (rdead st).
Proof. intros st H. exact H. Qed.

Lemma rassemble_inv : forall st k dir seq syn fin rst len ts, rinv st ->
  rinv (fst (rassemble v st k dir seq syn fin rst len ts)).
Proof.
  intros st k dir seq syn fin rst len ts [Hc [Hu HF]]. unfold rassemble. rewrite Hc.
  destruct (rsplit_key k (rs_conns st)) as [[[pre c] post]|] eqn:Es.
  - apply rsplit_key_spec in Es. rewrite Es in HF, Hu.
    apply Forall_app in HF. destruct HF as [F1 F2]. inversion F2 as [|? ? Hcok F3]; subst.
    destruct (assemble_conn v cfg c (Bool.eqb dir (rc_dir c)) (mkCtx (rs_used st) [] false) seq syn fin rst len ts) as [[c1 rm] x1] eqn:Ea.
    destruct (assemble_conn_good c _ (mkCtx (rs_used st) [] false) _ _ _ _ _ _ _ _ _ Hcok eq_refl Ea) as [Gd _]. cbn [x_used] in Gd.
    destruct (x_panic x1) eqn:Ep; cbn [fst].
    + unfold rinv, rdead. cbn [rs_cfg rs_used rs_conns]. rewrite Es. split; [exact Hc|]. split; [exact Hu|apply Forall_app; split; assumption].
    + destruct (good_G _ _ _ _ Gd Ep) as [[K1 [K2 K3]] U]. rewrite psum_app, psum_cons in Hu.
      unfold rinv. cbn [rs_cfg rs_used rs_conns]. split; [reflexivity|]. destruct rm.
      * pose proof (both_closed_cp0 c1 K1 (K2 eq_refl)). rewrite psum_app. split; [lia|apply Forall_app; split; assumption].
      * rewrite psum_app, psum_cons. split; [lia|]. apply Forall_app. split; [assumption|]. constructor; [|assumption].
        split; [exact K1|exact (K3 eq_refl)].
  - set (sid := rs_nstreams st + 1).
    destruct (if rs_free st <=? 0 then (rs_alloc st - 1, 2 * rs_alloc st) else (rs_free st - 1, rs_alloc st)) as [free1 alloc1].
    set (c := mkRC k dir sid 0 (new_half ts) (new_half ts)).
    assert (Hcok : cok c).
    { unfold cok, conn_ok, half_ok, both_closed, c, new_half, hp. cbn. repeat split; try reflexivity; try discriminate. }
    assert (Hcp : cp c = 0) by reflexivity.
    destruct (assemble_conn v cfg c true (mkCtx (rs_used st) [] false) seq syn fin rst len ts) as [[c1 rm] x1] eqn:Ea.
    destruct (assemble_conn_good c _ (mkCtx (rs_used st) [] false) _ _ _ _ _ _ _ _ _ Hcok eq_refl Ea) as [Gd _]. cbn [x_used] in Gd.
    destruct (x_panic x1) eqn:Ep; cbn [fst].
    + split; [exact Hc|]. split; assumption.
    + destruct (good_G _ _ _ _ Gd Ep) as [[K1 [K2 K3]] U].
      unfold rinv. cbn [rs_cfg rs_used rs_conns]. split; [reflexivity|]. destruct rm.
      * pose proof (both_closed_cp0 c1 K1 (K2 eq_refl)). split; [lia|exact HF].
      * rewrite psum_app, psum_cons. cbn [psum fold_right]. split; [lia|]. apply Forall_app. split; [assumption|].
        constructor; [|constructor]. split; [exact K1|exact (K3 eq_refl)].
Qed.

Lemma rflush_conns_panic : forall f l x, x_panic x = true -> x_panic (ra_x (rflush_conns f l x)) = true.
Proof. intros f l x H. destruct l; cbn [rflush_conns]; [exact H|]. rewrite H. exact H. Qed.

Lemma rflush_conns_inv : forall f (P : rconn -> Prop),
  (forall c x c' rm x' a b, cok c -> x_panic x = false -> f c x = (c', rm, x', a, b) ->
     good (x_used x - cp c) c' rm x' /\ (x_panic x' = false -> rm = false -> P c')) ->
  forall l x, Forall cok l -> x_panic x = false ->
  x_panic (ra_x (rflush_conns f l x)) = true \/
  (x_used (ra_x (rflush_conns f l x)) - psum (ra_keep (rflush_conns f l x)) = x_used x - psum l /\
   Forall cok (ra_keep (rflush_conns f l x)) /\ Forall P (ra_keep (rflush_conns f l x))).
Proof.
  intros f P Hf. induction l as [|c l IH]; intros x HF Hp; cbn [rflush_conns].
  - right. cbn. split; [lia|split; constructor].
  - rewrite Hp. inversion HF as [|? ? Hc HF']; subst.
    destruct (f c x) as [[[[c1 rm] x1] a] b] eqn:Ef.
    destruct (Hf _ _ _ _ _ _ _ Hc Hp Ef) as [Gd HP].
    destruct (x_panic x1) eqn:Ep1.
    + left. cbn [ra_x]. apply rflush_conns_panic. exact Ep1.
    + destruct (good_G _ _ _ _ Gd Ep1) as [[K1 [K2 K3]] U].
      destruct (IH x1 HF' Ep1) as [I|[I1 [I2 I3]]]; [left; exact I|right]. cbn [ra_x ra_keep]. rewrite psum_cons.
      destruct rm.
      * pose proof (both_closed_cp0 c1 K1 (K2 eq_refl)). split; [lia|split; assumption].
      * rewrite psum_cons. split; [lia|]. split; constructor; try assumption.
        -- split; [exact K1|exact (K3 eq_refl)].
        -- apply HP; reflexivity.
Qed.

Lemma rflush_with_inv : forall f (P : rconn -> Prop) st fa,
  (forall c x c' rm x' a b, cok c -> x_panic x = false -> f c x = (c', rm, x', a, b) ->
     good (x_used x - cp c) c' rm x' /\ (x_panic x' = false -> rm = false -> P c')) ->
  rinv st ->
  rinv (fst (rflush_with f st fa)) /\
  (ro_panic (snd (rflush_with f st fa)) = false -> Forall P (rs_conns (fst (rflush_with f st fa)))).
Proof.
  intros f P st fa Hf [Hc [Hu HF]]. unfold rflush_with.
  destruct (rflush_conns_inv f P Hf (rs_conns st) (mkCtx (rs_used st) [] false) HF eq_refl) as [I|[I1 [I2 I3]]].
  - rewrite I. cbn [fst snd ro_panic]. split; [split; [exact Hc|split; assumption]|discriminate].
  - destruct (x_panic (ra_x (rflush_conns f (rs_conns st) (mkCtx (rs_used st) [] false)))) eqn:Ep; cbn [fst snd ro_panic].
    + split; [split; [exact Hc|split; assumption]|discriminate].
    + cbn [x_used] in I1. split; [|intros _; exact I3]. unfold rinv. cbn [rs_cfg rs_used rs_conns]. split; [exact Hc|]. split; [lia|exact I2].
Qed.

Lemma rstep_inv : forall st o, rinv st -> rinv (fst (rstep v st o)).
Proof.
  intros st o H. unfold rstep. destruct (rs_dead st); [exact H|]. destruct o.
  - apply rassemble_inv. exact H.
  - destruct H as [Hc H']. rewrite Hc.
    apply (rflush_with_inv (flush_conn v cfg t tc) (fun _ => True)); [|split; [exact Hc|exact H']].
    intros c x c' rm x' a b Hcok Hp Hf. split; [eapply flush_conn_good; eauto|auto].
  - destruct H as [Hc H']. rewrite Hc.
    apply (rflush_with_inv (flush_all_conn v cfg) (fun _ => True)); [|split; [exact Hc|exact H']].
    intros c x c' rm x' a b Hcok Hp Hf. split; [eapply flush_all_conn_good; eauto|auto].
Qed.

Lemma rrun_state_inv : forall ops st, rinv st -> rinv (fst (rrun_state v st ops)).
Proof.
  induction ops as [|o ops IH]; intros st H; cbn [rrun_state]; [exact H|].
  pose proof (rstep_inv st o H) as H1. destruct (rstep v st o) as [st' ou]. cbn [fst] in H1.
  specialize (IH st' H1). destruct (rrun_state v st' ops) as [st2 ev]. exact IH.
Qed.

(* C11_flushall for reassembly *)
Lemma r_flushall_step : forall st, rinv st -> rs_dead st = false ->
  ro_panic (snd (rstep v st RFlushAll)) = false ->
  rs_used (fst (rstep v st RFlushAll)) = 0 /\
  Forall (fun c => both_closed c = true /\ declines cfg (rc_sid c) = true) (rs_conns (fst (rstep v st RFlushAll))).
Proof.
  intros st H Hd Hp. pose proof (rstep_inv st RFlushAll H) as H1. unfold rstep in *. rewrite Hd in *.
  destruct H as [Hc H']. rewrite Hc in *.
  set (P := fun c => conn_ok c /\ both_closed c = true /\ declines cfg (rc_sid c) = true).
  destruct (rflush_with_inv (flush_all_conn v cfg) P st (Some (zlen (rs_conns st)))) as [_ HP]; [|split; [exact Hc|exact H']|].
  - intros c x c' rm x' a b Hcok Hpx Hf.
    destruct (flush_all_conn_good _ _ _ _ _ _ _ Hcok Hpx Hf) as [Gd [_ Hb]]. split; [exact Gd|].
    intros Hx Hrm. destruct (good_G _ _ _ _ Gd Hx) as [[K1 [K2 K3]] _]. subst rm.
    split; [exact K1|]. split; [exact (Hb Hx)|exact (K3 eq_refl (Hb Hx))].
  - specialize (HP Hp). destruct H1 as [_ [Hu _]]. split.
    + rewrite Hu. clear - HP. induction HP as [|c l [K1 [K2 _]] _ IH]; [reflexivity|]. rewrite psum_cons, IH.
      rewrite (both_closed_cp0 c K1 K2). reflexivity.
    + eapply Forall_impl; [|exact HP]. intros c [_ K]. exact K.
Qed.
End Fixed.

Lemma rinit_inv : forall cfg, rinv cfg (rinit cfg).
Proof. intros. unfold rinv, rinit. cbn. split; [reflexivity|split; [reflexivity|constructor]]. Qed.

(* C11_pages for the repaired reassembly *)
Lemma r_pages : forall v cfg ops, v_saved v = true -> v_hpages v = true ->
  let st := fst (rrun_state v (rinit cfg) ops) in
  rs_used st = psum (rs_conns st) /\
  Forall (fun c => h_pages (rc_c2s c) = hp (rc_c2s c) /\ h_pages (rc_s2c c) = hp (rc_s2c c)) (rs_conns st).
Proof.
  intros v cfg ops Hs Hh. cbn zeta.
  destruct (rrun_state_inv v cfg Hs Hh ops _ (rinit_inv cfg)) as [_ [Hu HF]]. split; [exact Hu|].
  eapply Forall_impl; [|exact HF]. intros c [[[K1 _] [K2 _]] _]. split; assumption.
Qed.
