(* C11, reassembly: page accounting of the pool model (C11RModel) over every history, for the
   repaired code (v_saved, v_hpages). *)
From GP Require Import Base C11Common C11RModel C11LogProofs.
From Coq Require Import Lia ZifyBool.
Open Scope Z_scope.

Definition hp (h : rhalf) : Z := zlen (h_queue h) + zlen (h_saved h).
Definition cp (c : rconn) : Z := hp (rc_c2s c) + hp (rc_s2c c).
Definition psum (l : list rconn) : Z := fold_right (fun c a => cp c + a) 0 l.

(* a half: its counter equals its lists; a closed half holds nothing *)
Definition half_ok (h : rhalf) : Prop := h_pages h = hp h /\ (h_closed h = true -> hp h = 0).
Definition conn_ok (c : rconn) : Prop := half_ok (rc_c2s c) /\ half_ok (rc_s2c c).

Lemma psum_app : forall a b, psum (a ++ b) = psum a + psum b.
Proof. induction a as [|x a IH]; intros b; [reflexivity|]. cbn [app]. change (cp x + psum (a ++ b) = cp x + psum a + psum b). rewrite IH. lia. Qed.
Lemma psum_cons : forall c l, psum (c :: l) = cp c + psum l.
Proof. reflexivity. Qed.
Lemma hp_nonneg : forall h, 0 <= hp h.
Proof. intros. unfold hp. pose proof (zlen_nonneg (h_queue h)). pose proof (zlen_nonneg (h_saved h)). lia. Qed.

(* ------------------------------------------------------------------ counting *)
Lemma count_pages_app : forall a b, count_pages (a ++ b) = count_pages a + count_pages b.
Proof. intros. unfold count_pages. rewrite filter_app. apply zlen_app. Qed.

Lemma count_pages_split : forall n l, count_pages (firstn n l) + count_pages (skipn n l) = count_pages l.
Proof. intros. rewrite <- count_pages_app. rewrite firstn_skipn. reflexivity. Qed.

Lemma count_pages_map : forall l, count_pages (map CPage l) = zlen l.
Proof.
  induction l as [|p l IH]; [reflexivity|]. unfold count_pages in *. cbn [map filter is_page].
  rewrite !zlen_cons. rewrite IH. reflexivity.
Qed.

Lemma count_pages_nonneg : forall l, 0 <= count_pages l.
Proof. intros. apply zlen_nonneg. Qed.

Lemma keep_conv_len : forall l s ps n, keep_conv l s = (ps, n, false) -> zlen ps = count_pages l + n.
Proof.
  induction l as [|c l IH]; intros s ps n H; cbn [keep_conv] in H.
  - inversion H; subst. reflexivity.
  - destruct c as [p|lp].
    + destruct ((0 <=? s) && (s <=? rp_len p)); [|discriminate].
      destruct (keep_conv l 0) as [[ps1 n1] pk1] eqn:E. inversion H; subst.
      specialize (IH _ _ _ E). unfold count_pages in *. cbn [filter is_page]. rewrite !zlen_cons. lia.
    + destruct ((0 <=? s) && (s <=? lv_len lp)); [|discriminate].
      destruct (keep_conv l 0) as [[ps1 n1] pk1] eqn:E. inversion H; subst.
      specialize (IH _ _ _ E). unfold count_pages in *. cbn [filter is_page]. rewrite zlen_app. lia.
Qed.

Lemma add_pending_len : forall saved fs pre sl saved1 reld, add_pending saved fs = (pre, sl, saved1, reld) ->
  zlen pre = zlen saved - reld /\ 0 <= reld.
Proof.
  intros saved fs pre sl saved1 reld H. unfold add_pending in H. destruct saved as [|p0 t].
  - inversion H; subst. cbn. lia.
  - destruct (sadd (rp_seq p0) (sum_plen (p0 :: t)) =? fs); inversion H; subst.
    + split; lia.
    + pose proof (zlen_nonneg (p0 :: t)). rewrite zlen_nil. split; lia.
Qed.

Lemma contig_loop_len : forall q ls tk q1 ns, contig_loop q ls = (tk, q1, ns) -> zlen q = zlen tk + zlen q1.
Proof.
  induction q as [|p t IH]; intros ls tk q1 ns H; cbn [contig_loop] in H.
  - inversion H; subst. reflexivity.
  - destruct (rdiff ls (rp_seq p) =? 0).
    + destruct (contig_loop t (sadd ls (rp_len p))) as [[tk1 q2] l2] eqn:E. inversion H; subst.
      rewrite !zlen_cons. rewrite (IH _ _ _ _ E). lia.
    + inversion H; subst. rewrite zlen_nil. lia.
Qed.

Lemma add_contiguous_len : forall q ls tk q1 ns, add_contiguous q ls = (tk, q1, ns) -> zlen q = zlen tk + zlen q1.
Proof.
  intros q ls tk q1 ns H. unfold add_contiguous in H. destruct q as [|p t].
  - inversion H; subst. reflexivity.
  - eapply contig_loop_len. exact H.
Qed.

(* ------------------------------------------------------------------ send *)
Definition extra (r0 : cont) : Z := if is_page r0 then 1 else 0.

Lemma send_acct : forall v cfg sid n h x r0 acts h' x' ns e,
  v_hpages v = true -> send v cfg sid n h x r0 acts = (h', x', ns, e) ->
  x_panic x' = true \/
  (x_used x' - hp h' = x_used x - extra r0 - hp h /\ h_pages h' - hp h' = h_pages h - extra r0 - hp h /\
   h_closed h' = h_closed h /\ h_seen h' = h_seen h /\ zlen (h_queue h') <= zlen (h_queue h)).
Proof.
  intros v cfg sid n h x r0 acts h' x' ns e Hv H. unfold send in H. rewrite Hv in H.
  destruct (add_pending (h_saved h) (cseq r0)) as [[[pre sl] saved1] reld] eqn:Ep.
  destruct (add_contiguous (h_queue h) (sadd (cseq r0) (clen r0))) as [[tk q1] nextSeq] eqn:Ec.
  set (all := map CPage pre ++ r0 :: map CPage tk) in *.
  match type of H with context [if ?b then _ else find_keep _ _ _ _ _] => destruct b end.
  - (* no KeepFrom *)
    destruct (keep_conv (skipn (length all) all) 0) as [[saved2 alloc] pk] eqn:Ek.
    inversion H; subst; clear H. cbn [x_panic x_used].
    destruct pk; [left; apply orb_true_r|right].
    apply keep_conv_len in Ek.
    pose proof (count_pages_split (length all) all) as S.
    assert (Ca : count_pages all = zlen pre + extra r0 + zlen tk).
    { unfold all. rewrite count_pages_app. rewrite count_pages_map.
      change (r0 :: map CPage tk) with ([r0] ++ map CPage tk). rewrite count_pages_app, count_pages_map.
      unfold count_pages, extra. cbn [filter]. destruct (is_page r0); rewrite ?zlen_cons, ?zlen_nil; lia. }
    apply add_pending_len in Ep. apply add_contiguous_len in Ec.
    pose proof (zlen_nonneg tk). unfold hp. cbn [h_queue h_saved h_pages h_closed h_seen]. repeat split; lia.
  - destruct (find_keep all _ 0 _ 0) as [ndx kskip].
    destruct (keep_conv (skipn ndx all) kskip) as [[saved2 alloc] pk] eqn:Ek.
    inversion H; subst; clear H. cbn [x_panic x_used].
    destruct pk; [left; apply orb_true_r|right].
    apply keep_conv_len in Ek.
    pose proof (count_pages_split ndx all) as S.
    assert (Ca : count_pages all = zlen pre + extra r0 + zlen tk).
    { unfold all. rewrite count_pages_app. rewrite count_pages_map.
      change (r0 :: map CPage tk) with ([r0] ++ map CPage tk). rewrite count_pages_app, count_pages_map.
      unfold count_pages, extra. cbn [filter]. destruct (is_page r0); rewrite ?zlen_cons, ?zlen_nil; lia. }
    apply add_pending_len in Ep. apply add_contiguous_len in Ec.
    pose proof (zlen_nonneg tk). unfold hp. cbn [h_queue h_saved h_pages h_closed h_seen]. repeat split; lia.
Qed.

(* ------------------------------------------------------------------ connections *)
Section Fixed.
Variable v : variant.
Variable cfg : rcfg.
Hypothesis Hsaved : v_saved v = true.
Hypothesis Hhp : v_hpages v = true.

(* invariant of a connection in the pool *)
Definition cok (c : rconn) : Prop :=
  conn_ok c /\ (both_closed c = true -> declines cfg (rc_sid c) = true).

Definition good (u0 : Z) (c' : rconn) (rm : bool) (x' : rctx) : Prop :=
  x_panic x' = true \/
  (conn_ok c' /\ x_used x' - cp c' = u0 /\
   (rm = true -> both_closed c' = true) /\
   (rm = false -> both_closed c' = true -> declines cfg (rc_sid c') = true)).

Lemma get_put_same : forall c w h, get_half (put_half c w h) w = h.
Proof. intros c [] h; reflexivity. Qed.
Lemma get_put_other : forall c w h, get_half (put_half c w h) (negb w) = get_half c (negb w).
Proof. intros c [] h; reflexivity. Qed.
Lemma cp_halves : forall c w, cp c = hp (get_half c w) + hp (get_half c (negb w)).
Proof. intros c []; unfold cp; cbn; lia. Qed.
Lemma conn_ok_halves : forall c w, conn_ok c <-> half_ok (get_half c w) /\ half_ok (get_half c (negb w)).
Proof. intros c []; unfold conn_ok; cbn; tauto. Qed.
Lemma both_closed_halves : forall c w, both_closed c = h_closed (get_half c w) && h_closed (get_half c (negb w)).
Proof. intros c []; unfold both_closed; cbn; destruct (h_closed (rc_c2s c)), (h_closed (rc_s2c c)); reflexivity. Qed.
Lemma sid_put : forall c w h, rc_sid (put_half c w h) = rc_sid c.
Proof. intros c [] h; reflexivity. Qed.
Lemma bump_half : forall c w, get_half (bump_calls c) w = get_half c w.
Proof. intros c []; reflexivity. Qed.
Lemma sid_bump : forall c, rc_sid (bump_calls c) = rc_sid c.
Proof. reflexivity. Qed.

Lemma close_half_good : forall c w x c' rm x', conn_ok c -> x_panic x = false ->
  h_closed (get_half c w) = false ->
  (both_closed c = true -> declines cfg (rc_sid c) = true) ->
  close_half v cfg c w x = (c', rm, x') -> good (x_used x - cp c) c' rm x' /\
  (h_closed (get_half c' w) = true /\ h_queue (get_half c' w) = []) /\ rc_sid c' = rc_sid c.
Proof.
  intros c w x c' rm x' Hok Hp Hnc Hd H. unfold close_half in H. rewrite Hsaved, Hhp in H.
  set (h := get_half c w) in *.
  set (h' := mkH (h_pages h - zlen (h_queue h) - zlen (h_saved h)) [] [] (h_next h) (h_seen h) true) in *.
  apply (conn_ok_halves c w) in Hok. destruct Hok as [[Ok1 _] Ok2]. fold h in Ok1.
  assert (Hh' : half_ok h' /\ hp h' = 0).
  { assert (E0 : hp h' = 0) by reflexivity. split; [|exact E0]. unfold half_ok. rewrite E0. split; [|reflexivity].
    unfold h'. cbn [h_pages]. unfold hp in Ok1. lia. }
  destruct Hh' as [Hh'ok Hh'0].
  assert (Cok : conn_ok (put_half c w h')).
  { apply (conn_ok_halves _ w). rewrite get_put_same, get_put_other. split; assumption. }
  assert (Ccp : cp (put_half c w h') = cp c - hp h).
  { rewrite (cp_halves _ w), get_put_same, get_put_other, (cp_halves c w). fold h. lia. }
  assert (Hcl : h_closed (get_half (put_half c w h') w) = true /\ h_queue (get_half (put_half c w h') w) = [])
    by (rewrite get_put_same; split; reflexivity).
  destruct (both_closed (put_half c w h')) eqn:Eb; inversion H; subst; clear H;
    (split; [|split; [exact Hcl|apply sid_put]]); right; cbn [x_used x_panic]; unfold hp in *.
  - split; [exact Cok|]. split; [lia|]. split; [intros _; exact Eb|].
    intros Ha _. rewrite sid_put. destruct (declines cfg (rc_sid c)); [reflexivity|discriminate].
  - split; [exact Cok|]. split; [lia|]. split; [discriminate|]. intros _ Hb. congruence.
Qed.

Lemma send_conn_good : forall c w h x r0 acts c' rm x' ns,
  half_ok (get_half c (negb w)) -> h_pages h = hp h + extra r0 -> h_closed h = false -> x_panic x = false ->
  send_conn v cfg c w h x r0 acts = (c', rm, x', ns) ->
  good (x_used x - extra r0 - cp (put_half c w h)) c' rm x' /\
  (x_panic x' = false -> zlen (h_queue (get_half c' w)) <= zlen (h_queue h)) /\ rc_sid c' = rc_sid c.
Proof.
  intros c w h x r0 acts c' rm x' ns Hoth Hpg Hnc Hp H. unfold send_conn in H.
  destruct (send v cfg (rc_sid c) (rc_ncalls c) h x r0 acts) as [[[h1 x1] nextSeq] isEnd] eqn:Es.
  pose proof (send_acct _ _ _ _ _ _ _ _ _ _ _ _ Hhp Es) as A.
  destruct (x_panic x1) eqn:Ep1.
  - inversion H; subst. split; [left; exact Ep1|]. split; [congruence|]. rewrite sid_bump. apply sid_put.
  - destruct A as [A|[A1 [A2 [A3 [A4 A5]]]]]; [congruence|].
    set (c1 := bump_calls (put_half c w h1)) in *.
    assert (Hh1 : half_ok h1). { unfold half_ok. split; [lia|]. intros Hc. congruence. }
    assert (Cok : conn_ok c1).
    { apply (conn_ok_halves _ w). unfold c1. rewrite !bump_half, get_put_same, get_put_other. split; assumption. }
    assert (Ccp : cp c1 = hp h1 + hp (get_half c (negb w))).
    { rewrite (cp_halves _ w). unfold c1. rewrite !bump_half, get_put_same, get_put_other. reflexivity. }
    assert (Ccp0 : cp (put_half c w h) = hp h + hp (get_half c (negb w))).
    { rewrite (cp_halves _ w), get_put_same, get_put_other. reflexivity. }
    assert (Hg1 : get_half c1 w = h1) by (unfold c1; rewrite bump_half, get_put_same; reflexivity).
    assert (Hs1 : rc_sid c1 = rc_sid c) by (unfold c1; rewrite sid_bump; apply sid_put).
    destruct isEnd.
    + destruct (close_half v cfg c1 w x1) as [[c2 rm2] x2] eqn:Ec. inversion H as [[Hc' Hrm Hx' Hns]]; clear H; subst c' rm x' ns.
      assert (Hnb : both_closed c1 = true -> declines cfg (rc_sid c1) = true).
      { rewrite (both_closed_halves c1 w), Hg1. intros Hb. apply andb_true_iff in Hb. destruct Hb as [Hb _]. congruence. }
      destruct (close_half_good c1 w x1 _ _ _ Cok Ep1 ltac:(rewrite Hg1; congruence) Hnb Ec) as [G [[Gc Gq] Gs]].
      split; [|split; [|congruence]].
      * destruct G as [G|[G1 [G2 [G3 G4]]]]; [left; exact G|right]. split; [exact G1|]. split; [lia|]. split; assumption.
      * intros _. rewrite Gq. rewrite zlen_nil. apply zlen_nonneg.
    + inversion H as [[Hc' Hrm Hx' Hns]]; clear H; subst c' rm x' ns. split; [|split; [intros _; rewrite Hg1; exact A5|exact Hs1]].
      right. split; [exact Cok|]. split; [lia|]. split; [discriminate|].
      intros _ Hb. rewrite (both_closed_halves c1 w), Hg1 in Hb. apply andb_true_iff in Hb. destruct Hb as [Hb _]. congruence.
Qed.

Lemma skip_flush_good : forall c w x c' rm x', cok c -> x_panic x = false -> h_closed (get_half c w) = false ->
  skip_flush v cfg c w x = (c', rm, x') ->
  good (x_used x - cp c) c' rm x' /\ rc_sid c' = rc_sid c /\
  (x_panic x' = false -> h_closed (get_half c' w) = true \/ zlen (h_queue (get_half c' w)) < zlen (h_queue (get_half c w))).
Proof.
  intros c w x c' rm x' [Hok Hd] Hp Hnc H. unfold skip_flush in H.
  destruct (h_queue (get_half c w)) as [|p q'] eqn:Eq.
  - destruct (close_half_good c w x _ _ _ Hok Hp Hnc Hd H) as [G [[Gc _] Gs]]. split; [exact G|]. split; [exact Gs|]. intros _. left. exact Gc.
  - set (h := get_half c w) in *.
    set (h1 := mkH (h_pages h) (h_saved h) q' (h_next h) (h_seen h) (h_closed h)) in *.
    destruct (send_conn v cfg c w h1 x (CPage p) (if rp_first p then rp_seen p else -1)) as [[[c1 rm1] x1] nextSeq] eqn:Es.
    inversion H; subst; clear H.
    pose proof (proj1 (conn_ok_halves c w) Hok) as [[Ok1 Ok1c] Ok2]. fold h in Ok1, Ok1c.
    assert (Hpg : h_pages h1 = hp h1 + extra (CPage p)).
    { unfold hp, extra, h1 in *. cbn. rewrite Eq in Ok1. rewrite zlen_cons in Ok1. lia. }
    destruct (send_conn_good c w h1 x (CPage p) _ _ _ _ _ Ok2 Hpg Hnc Hp Es) as [G [Gq Gs]].
    assert (Ccp : cp (put_half c w h1) = cp c - 1).
    { rewrite (cp_halves _ w), get_put_same, get_put_other, (cp_halves c w). fold h. unfold hp, h1. cbn. rewrite Eq, zlen_cons. lia. }
    set (c2 := if nextSeq =? INVALID then c1 else put_half c1 w (set_next (get_half c1 w) nextSeq)).
    assert (Hsame : cp c2 = cp c1 /\ (conn_ok c1 -> conn_ok c2) /\ both_closed c2 = both_closed c1 /\ rc_sid c2 = rc_sid c1 /\
                    h_queue (get_half c2 w) = h_queue (get_half c1 w) /\ h_closed (get_half c2 w) = h_closed (get_half c1 w)).
    { unfold c2. destruct (nextSeq =? INVALID); [split; [reflexivity|split; [auto|split; [reflexivity|split; [reflexivity|split; reflexivity]]]]|].
      split; [rewrite (cp_halves _ w), get_put_same, get_put_other, (cp_halves c1 w); reflexivity|].
      split; [intros Hc1; apply (conn_ok_halves _ w); rewrite get_put_same, get_put_other; apply (conn_ok_halves c1 w) in Hc1; exact Hc1|].
      split; [rewrite (both_closed_halves _ w), get_put_same, get_put_other, (both_closed_halves c1 w); reflexivity|].
      split; [apply sid_put|]. rewrite get_put_same. split; reflexivity. }
    destruct Hsame as [S1 [S2 [S3 [S4 [S5 S6]]]]].
    split; [|split; [congruence|]].
    + destruct G as [G|[G1 [G2 [G3 G4]]]]; [left; exact G|right]. cbn [extra is_page] in G2.
      split; [apply S2; exact G1|]. split; [lia|]. rewrite S3, S4. split; assumption.
    + intros Hx. right. rewrite S5. specialize (Gq Hx). unfold h1 in Gq. cbn [h_queue] in Gq. rewrite zlen_cons. lia.
Qed.
End Fixed.
