(* chunked streams: take / read_full are functions of (flat s, failed s) only *)
From GP Require Import Base BytesLE PcapModel.
From Coq Require Import Lia ZifyBool ZifyNat.
Open Scope Z_scope.

Lemma ztake_spec b : forall n, 0 <= n ->
  ztake n b = (firstn (Z.to_nat n) b, skipn (Z.to_nat n) b,
               if n <=? Z.of_nat (length b) then 0 else n - Z.of_nat (length b)).
Proof.
  induction b as [|x t IH]; intros n Hn.
  - cbn [ztake length]. rewrite firstn_nil, skipn_nil.
    destruct (n <=? Z.of_nat 0) eqn:E; [|f_equal; lia].
    assert (n = 0) by lia. subst. reflexivity.
  - cbn [ztake]. destruct (n <=? 0) eqn:E0.
    + assert (n = 0) by lia. subst. cbn. reflexivity.
    + rewrite IH by lia.
      replace (Z.to_nat n) with (S (Z.to_nat (n - 1))) by lia.
      cbn [firstn skipn length].
      destruct (n - 1 <=? Z.of_nat (length t)) eqn:E1, (n <=? Z.of_nat (S (length t))) eqn:E2;
        try lia; f_equal; lia.
Qed.

Definition tstat_of (n : Z) (s : stream) : tstat :=
  if n <=? Z.of_nat (length (flat s)) then Full else if failed s then AtFail else AtEOF.

Ltac solve_if :=
  repeat match goal with |- context [if ?c then _ else _] => destruct c eqn:? end;
  try reflexivity; try lia; try discriminate.

Lemma take_spec s : forall n,
  fst (fst (take n s)) = firstn (Z.to_nat n) (flat s) /\
  flat (snd (fst (take n s))) = skipn (Z.to_nat n) (flat s) /\
  failed (snd (fst (take n s))) = failed s /\
  snd (take n s) = tstat_of n s.
Proof.
  unfold tstat_of.
  induction s as [|c s' IH]; intros n.
  - cbn [take flat failed length]. destruct (n <=? 0) eqn:E0; cbn [fst snd flat failed].
    + replace (Z.to_nat n) with 0%nat by lia. cbn [firstn skipn]. repeat split. solve_if.
    + rewrite firstn_nil, skipn_nil. repeat split. solve_if.
  - destruct c as [b|].
    + cbn [take]. destruct (n <=? 0) eqn:E0.
      * cbn [fst snd]. replace (Z.to_nat n) with 0%nat by lia. cbn [firstn skipn]. repeat split.
        solve_if.
      * rewrite ztake_spec by lia.
        cbn [flat failed]. rewrite app_length.
        destruct (n <=? Z.of_nat (length b)) eqn:E1.
        -- cbn [Z.leb Z.compare fst snd flat failed].
           rewrite firstn_app, skipn_app.
           replace (Z.to_nat n - length b)%nat with 0%nat by lia. cbn [firstn skipn]. rewrite app_nil_r.
           repeat split. solve_if.
        -- destruct (n - Z.of_nat (length b) <=? 0) eqn:E2; [lia|].
           specialize (IH (n - Z.of_nat (length b))).
           destruct (take (n - Z.of_nat (length b)) s') as [[a2 s''] st]. cbn [fst snd] in *.
           destruct IH as (I1 & I2 & I3 & I4).
           rewrite firstn_app, skipn_app.
           rewrite !(firstn_all2 b) by lia. rewrite !(skipn_all2 b) by lia. cbn [app].
           replace (Z.to_nat n - length b)%nat with (Z.to_nat (n - Z.of_nat (length b))) by lia.
           repeat split; try assumption; [now rewrite I1|].
           rewrite I4. solve_if.
    + cbn [take flat failed length]. destruct (n <=? 0) eqn:E0; cbn [fst snd flat failed].
      * replace (Z.to_nat n) with 0%nat by lia. cbn [firstn skipn]. repeat split. solve_if.
      * rewrite firstn_nil, skipn_nil. repeat split. solve_if.
Qed.

(* streams that deliver the same bytes and end the same way *)
Definition seq (s1 s2 : stream) : Prop := flat s1 = flat s2 /\ failed s1 = failed s2.

Lemma seq_refl s : seq s s. Proof. split; reflexivity. Qed.

Lemma take_seq n s1 s2 : seq s1 s2 ->
  fst (fst (take n s1)) = fst (fst (take n s2)) /\ snd (take n s1) = snd (take n s2) /\
  seq (snd (fst (take n s1))) (snd (fst (take n s2))).
Proof.
  intros [Hf Hb].
  destruct (take_spec s1 n) as (A1 & A2 & A3 & A4), (take_spec s2 n) as (B1 & B2 & B3 & B4).
  unfold tstat_of in *. split; [|split; [|split]].
  - now rewrite A1, B1, Hf.
  - now rewrite A4, B4, Hf, Hb.
  - now rewrite A2, B2, Hf.
  - now rewrite A3, B3.
Qed.

(* read_full in terms of the spec *)
Lemma read_full_spec n s :
  let r := read_full n s in
  flat (snd r) = skipn (Z.to_nat n) (flat s) /\ failed (snd r) = failed s /\
  fst r = match tstat_of n s with
          | Full => Ok (firstn (Z.to_nat n) (flat s))
          | AtEOF => Err (match firstn (Z.to_nat n) (flat s) with [] => E_EOF | _ => E_UEOF end)
          | AtFail => Err E_IO
          end.
Proof.
  unfold read_full. destruct (take_spec s n) as (A1 & A2 & A3 & A4).
  destruct (take n s) as [[bs s'] st]. cbn [fst snd] in *. subst bs st.
  destruct (tstat_of n s); cbn [fst snd]; auto.
Qed.

Lemma read_full_seq n s1 s2 : seq s1 s2 ->
  fst (read_full n s1) = fst (read_full n s2) /\ seq (snd (read_full n s1)) (snd (read_full n s2)).
Proof.
  intros [Hf Hb].
  destruct (read_full_spec n s1) as (A1 & A2 & A3), (read_full_spec n s2) as (B1 & B2 & B3).
  unfold seq. rewrite A1, A2, A3, B1, B2, B3. unfold tstat_of. rewrite Hf, Hb. auto.
Qed.

Lemma read_full_ok n s bs s' : read_full n s = (Ok bs, s') ->
  n <= Z.of_nat (length (flat s)) /\ bs = firstn (Z.to_nat n) (flat s) /\
  flat s' = skipn (Z.to_nat n) (flat s) /\ failed s' = failed s.
Proof.
  intros H. destruct (read_full_spec n s) as (A1 & A2 & A3). rewrite H in *. cbn [fst snd] in *.
  unfold tstat_of in A3.
  destruct (n <=? Z.of_nat (length (flat s))) eqn:E.
  - inversion A3. repeat split; auto. lia.
  - destruct (failed s); discriminate.
Qed.

Lemma read_full_never_panics n s x s' : read_full n s <> (Panic x, s').
Proof.
  unfold read_full. destruct (take n s) as [[bs s1] st]. destruct st; intros H; inversion H.
Qed.

Lemma read_full_rest n s : (length (flat (snd (read_full n s))) <= length (flat s))%nat.
Proof. destruct (read_full_spec n s) as (A1 & _). rewrite A1, skipn_length. lia. Qed.
