(* C09: sequence-number arithmetic inside the window, and slices of the sender stream. *)
From GP Require Import Base C09Model.
From Coq Require Import Lia ZifyBool ZifyNat.
Ltac Zify.zify_post_hook ::= Z.div_mod_to_equations.
Open Scope Z_scope.

(* ---------------------------------------------------------------- Difference / Add *)

Definition HALFW : Z := 1073741824.   (* 2^30: the receiver-window hypothesis is |d| < 2^30 *)

Lemma sadd_range : forall s t, 0 <= sadd s t < M32.
Proof. intros. unfold sadd, M32. lia. Qed.

Lemma diff_window : forall s d, 0 <= s < M32 -> - HALFW < d < HALFW -> diff s (sadd s d) = d.
Proof.
  intros s d Hs Hd. unfold diff, sadd, M32, QHI, QLO, HALFW in *.
  destruct ((3221225472 <? s) && ((s + d) mod 4294967296 <? 1073741823)) eqn:E1.
  - lia.
  - destruct ((3221225472 <? (s + d) mod 4294967296) && (s <? 1073741823)) eqn:E2; lia.
Qed.

(* the arithmetic of the unchanged tree is off by one exactly when the wrap is crossed *)
Lemma diff_orig_refuted : exists s d, 0 <= s < M32 /\ - HALFW < d < HALFW /\ diff_orig s (sadd s d) <> d.
Proof. exists 4294967295, 1. vm_compute. repeat split; congruence. Qed.

Lemma diff_orig_wrap_zero : diff_orig 4294967295 0 = 0.
Proof. reflexivity. Qed.

Lemma diff_antisym : forall s t, 0 <= s < M32 -> 0 <= t < M32 -> diff t s = - diff s t.
Proof.
  intros s t Hs Ht. unfold diff, M32, QHI, QLO in *.
  destruct ((3221225472 <? s) && (t <? 1073741823)) eqn:E1;
  destruct ((3221225472 <? t) && (s <? 1073741823)) eqn:E2; lia.
Qed.

Lemma sadd_sadd : forall s a b, sadd (sadd s a) b = sadd s (a + b).
Proof. intros. unfold sadd, M32. lia. Qed.

Lemma sadd_0 : forall s, 0 <= s < M32 -> sadd s 0 = s.
Proof. intros. unfold sadd, M32 in *. lia. Qed.

Lemma sq_range : forall i o, 0 <= sq i o < M32.
Proof. intros. unfold sq, M32. lia. Qed.

Lemma sadd_sq : forall i o k, sadd (sq i o) k = sq i (o + k).
Proof. intros. unfold sadd, sq, M32. lia. Qed.

Lemma sq_as_sadd : forall i a b, sq i b = sadd (sq i a) (b - a).
Proof. intros. rewrite sadd_sq. f_equal. lia. Qed.

(* inside the window Difference is offset subtraction *)
Lemma diff_sq : forall i a b, - HALFW < b - a < HALFW -> diff (sq i a) (sq i b) = b - a.
Proof.
  intros. rewrite (sq_as_sadd i a b). apply diff_window; auto using sq_range.
Qed.

Lemma sq_inj_window : forall i a b, - HALFW < b - a < HALFW -> sq i a = sq i b -> a = b.
Proof.
  intros i a b H E. unfold sq, M32, HALFW in *. lia.
Qed.

(* ---------------------------------------------------------------- slices of the stream *)

Lemma zlen_nonneg : forall A (l : list A), 0 <= zlen l.
Proof. intros. unfold zlen. lia. Qed.

Lemma zlen_app : forall A (l m : list A), zlen (l ++ m) = zlen l + zlen m.
Proof. intros. unfold zlen. rewrite app_length. lia. Qed.

Lemma zlen_nil_iff : forall A (l : list A), zlen l = 0 <-> l = [].
Proof. intros. unfold zlen. destruct l; cbn [length]; split; intro; try reflexivity; try discriminate; lia. Qed.

Lemma zlen_ztake : forall A (l : list A) k, 0 <= k <= zlen l -> zlen (ztake k l) = k.
Proof. intros. unfold zlen, ztake in *. rewrite firstn_length. lia. Qed.

Lemma zlen_zskip : forall A (l : list A) k, 0 <= k <= zlen l -> zlen (zskip k l) = zlen l - k.
Proof. intros. unfold zlen, zskip in *. rewrite skipn_length. lia. Qed.

Lemma zlen_sub : forall S a n, 0 <= a -> 0 <= n -> a + n <= zlen S -> zlen (sub S a n) = n.
Proof.
  intros. unfold sub. rewrite zlen_ztake; auto. rewrite zlen_zskip; lia.
Qed.

Lemma ztake_sub : forall S a n k, 0 <= k <= n -> ztake k (sub S a n) = sub S a k.
Proof.
  intros. unfold sub, ztake. rewrite firstn_firstn. f_equal. lia.
Qed.

Lemma skipn_skipn' : forall A (x y : nat) (l : list A), skipn x (skipn y l) = skipn (y + x) l.
Proof.
  intros A x y. induction y as [|y IH]; intros l; [reflexivity|].
  destruct l; cbn [skipn Nat.add]; [destruct x; reflexivity|]. apply IH.
Qed.

Lemma zskip_zskip : forall A (l : list A) a b, 0 <= a -> 0 <= b -> zskip b (zskip a l) = zskip (a + b) l.
Proof.
  intros. unfold zskip. rewrite skipn_skipn'. f_equal. lia.
Qed.

Lemma zskip_sub : forall S a n k, 0 <= a -> 0 <= k <= n -> zskip k (sub S a n) = sub S (a + k) (n - k).
Proof.
  intros. unfold sub, ztake, zskip.
  rewrite skipn_firstn_comm. rewrite skipn_skipn'. f_equal; [lia|]. f_equal. lia.
Qed.

Lemma sub_app : forall S a n m, 0 <= a -> 0 <= n -> 0 <= m ->
  sub S a n ++ sub S (a + n) m = sub S a (n + m).
Proof.
  intros. unfold sub.
  replace (zskip (a + n) S) with (zskip n (zskip a S)) by (apply zskip_zskip; lia).
  set (l := zskip a S). unfold ztake, zskip.
  rewrite <- (firstn_skipn (Z.to_nat n) (firstn (Z.to_nat (n + m)) l)) at 1.
  rewrite firstn_firstn. rewrite skipn_firstn_comm.
  f_equal.
  - f_equal. lia.
  - f_equal. lia.
Qed.

Lemma sub_nil : forall S a, sub S a 0 = [].
Proof. intros. reflexivity. Qed.

Lemma ztake_all : forall A (l : list A), ztake (zlen l) l = l.
Proof. intros. unfold ztake, zlen. rewrite Nat2Z.id. apply firstn_all. Qed.

Lemma zskip_0 : forall A (l : list A), zskip 0 l = l.
Proof. reflexivity. Qed.

Lemma zskip_all : forall A (l : list A), zskip (zlen l) l = [].
Proof. intros. unfold zskip, zlen. rewrite Nat2Z.id. apply skipn_all. Qed.

Lemma ztake_zskip : forall A (l : list A) k, ztake k l ++ zskip k l = l.
Proof. intros. apply firstn_skipn. Qed.
