(* File level: what the model writer produced for a script of AddInterface / WritePacketWithOptions
   calls is read back by the model reader as exactly its packets (round trip), and cut anywhere it
   gives exactly the packets wholly contained, then EOF at a block boundary, else UnexpectedEOF. *)
From GP Require Import Base NgModel NgIoProofs NgExec NgRoundtrip.
From Coq Require Import Lia ZifyBool ZifyNat.
Open Scope Z_scope.

Ltac sim := cbn [r_ifaces r_ci r_blen r_ocode r_oval r_ocap r_big r_btyp r_link r_first r_pcap r_ancil r_names r_nsec r_active r_sect
                 set_block set_blen set_opt set_ifaces set_link set_section set_ci set_ancil set_pcap set_names
                 fst snd ci_if ci_cap ci_len ci_ts core] in *.

Lemma concat_opt_enc_len l : zlen (concat (map opt_enc l)) = opts_bytes l.
Proof.
  induction l as [|[c v] t IH]; cbn [map concat opts_bytes fold_right]; [reflexivity|].
  rewrite zlen_app, IH, zlen_opt_enc. reflexivity.
Qed.

(* ---------------------------------------------------------------- section header options *)
Definition sstep (sec : secinfo) (cv : Z * list Z) : secinfo :=
  let '(c, v) := cv in
  if c =? 1 then mkSec (sc_hw sec) (sc_os sec) (sc_app sec) v
  else if c =? 2 then mkSec v (sc_os sec) (sc_app sec) (sc_comment sec)
  else if c =? 3 then mkSec (sc_hw sec) v (sc_app sec) (sc_comment sec)
  else if c =? 4 then mkSec (sc_hw sec) (sc_os sec) v (sc_comment sec)
  else sec.
Definition sopt_ok (cv : Z * list Z) : Prop := 0 < fst cv < 65536 /\ zlen (snd cv) < 65536.

Lemma exec_shb_opts : forall opts fuel sec s rest,
  (length opts < fuel)%nat -> r_big s = false -> Forall sopt_ok opts ->
  r_blen s = opts_bytes opts + 8 -> r_blen s < 4294967296 ->
  exists s', exec (shb_opts fuel sec) s (concat (map opt_enc opts) ++ [0;0;0;0] ++ rest)
             = ((s', Ok (fold_left sstep opts sec)), rest)
    /\ r_blen s' = 4 /\ core s' = core s.
Proof.
  induction opts as [|[c v] t IH]; intros fuel sec s rest Hf Hbig Hok Hb1 Hb2.
  - destruct fuel as [|f]; [cbn in Hf; lia|]. cbn [shb_opts map concat app fold_left opts_bytes fold_right] in *.
    destruct (exec_readOption_eoo s rest Hbig ltac:(lia) Hb2) as (s1 & E1 & C1 & B1 & K1).
    rewrite exec_bind. cbn [app] in E1. rewrite E1. cbv iota beta.
    rewrite exec_bind, exec_sget. cbv iota beta. rewrite C1. cbn [Z.eqb]. rewrite exec_sret.
    exists s1. repeat split; auto; lia.
  - destruct fuel as [|f]; [cbn in Hf; lia|]. inversion Hok as [|? ? Hcv Ht]; subst.
    destruct Hcv as (Hc & Hv). cbn [fst snd] in Hc, Hv.
    cbn [map concat opts_bytes fold_right fold_left] in *. rewrite <- app_assoc.
    pose proof (opt_size_pos (c, v)) as Hp. pose proof (opts_bytes_nonneg t) as Hnn.
    fold (opts_bytes t) in Hb1.
    destruct (exec_readOption s c v (concat (map opt_enc t) ++ [0;0;0;0] ++ rest) Hbig Hc Hv ltac:(lia) Hb2)
      as (s1 & E1 & C1 & V1 & B1 & K1).
    cbn [shb_opts]. rewrite exec_bind, E1. cbv iota beta. rewrite exec_bind, exec_sget. cbv iota beta.
    rewrite C1, V1.
    assert (r_big s1 = false) as Hbig1 by (destruct (core_fields _ _ K1) as (-> & _); exact Hbig).
    assert (exists s', exec (shb_opts f (sstep sec (c, v))) s1 (concat (map opt_enc t) ++ [0;0;0;0] ++ rest)
              = ((s', Ok (fold_left sstep t (sstep sec (c, v)))), rest) /\ r_blen s' = 4 /\ core s' = core s1) as (s2 & E2 & B2 & K2).
    { apply IH; auto; try lia. cbn in Hf. lia. }
    match goal with |- exists s', exec ?body s1 ?l = _ /\ _ =>
      assert (body = shb_opts f (sstep sec (c, v))) as Hbody end.
    { unfold sstep. assert (c =? 0 = false) as -> by lia.
      destruct (c =? 1); [reflexivity|]. destruct (c =? 2); [reflexivity|].
      destruct (c =? 3); [reflexivity|]. destruct (c =? 4); reflexivity. }
    rewrite Hbody, E2. exists s2. repeat split; auto. rewrite K2; exact K1.
Qed.

Lemma exec_opts_written_shb F l sec s rest :
  (length l < F)%nat -> r_big s = false -> Forall sopt_ok l ->
  r_blen s = zlen (opts_enc l) + 4 -> r_blen s < 4294967296 ->
  exists s', exec (shb_opts F sec) s (opts_enc l ++ rest) = ((s', Ok (fold_left sstep l sec)), rest)
    /\ r_blen s' = 4 /\ core s' = core s.
Proof.
  intros HF Hbig Hok Hb1 Hb2. rewrite zlen_opts_enc in Hb1. destruct l as [|x t] eqn:E.
  - destruct F as [|f]; [cbn in HF; lia|]. cbn [opts_enc app shb_opts fold_left].
    destruct (exec_readOption_fake s rest ltac:(lia)) as (s1 & E1 & C1 & B1 & K1).
    rewrite exec_bind, E1. cbv iota beta. rewrite exec_bind, exec_sget. cbv iota beta. rewrite C1. cbn [Z.eqb].
    rewrite exec_sret. exists s1. repeat split; auto.
  - unfold opts_enc. rewrite <- app_assoc. rewrite <- E in *.
    apply exec_shb_opts; auto. rewrite E in *. lia.
Qed.

(* ---------------------------------------------------------------- interface description options *)
Definition istep (i : iface) (cv : Z * list Z) : iface :=
  let '(c, v) := cv in
  if (c =? 2) || (c =? 1) || (c =? 3) || (c =? 12) then set_if_str i c v
  else if c =? 11 then set_if_str i 11 (tl v)
  else if c =? 14 then set_if_num i (if_tsresol i) (le_val (sl v 0 8))
  else if c =? 9 then set_if_num i (hd 0 v) (if_tsoff i)
  else i.
Definition iopt_ok (cv : Z * list Z) : Prop :=
  0 < fst cv < 65536 /\ zlen (snd cv) < 65536
  /\ (fst cv = 11 -> 1 <= zlen (snd cv)) /\ (fst cv = 14 -> 8 <= zlen (snd cv)) /\ (fst cv = 9 -> 1 <= zlen (snd cv)).

Lemma exec_idb_opts : forall opts fuel i s rest,
  (length opts < fuel)%nat -> r_big s = false -> Forall iopt_ok opts ->
  r_blen s = opts_bytes opts + 8 -> r_blen s < 4294967296 ->
  exists s', exec (idb_opts fuel i) s (concat (map opt_enc opts) ++ [0;0;0;0] ++ rest)
             = ((s', Ok (fold_left istep opts i)), rest)
    /\ r_blen s' = 4 /\ core s' = core s.
Proof.
  induction opts as [|[c v] t IH]; intros fuel i s rest Hf Hbig Hok Hb1 Hb2.
  - destruct fuel as [|f]; [cbn in Hf; lia|]. cbn [idb_opts map concat app fold_left opts_bytes fold_right] in *.
    destruct (exec_readOption_eoo s rest Hbig ltac:(lia) Hb2) as (s1 & E1 & C1 & B1 & K1).
    rewrite exec_bind. cbn [app] in E1. rewrite E1. cbv iota beta.
    rewrite exec_bind, exec_sget. cbv iota beta. rewrite C1. cbn [Z.eqb]. rewrite exec_sret.
    exists s1. repeat split; auto; lia.
  - destruct fuel as [|f]; [cbn in Hf; lia|]. inversion Hok as [|? ? Hcv Ht]; subst.
    destruct Hcv as (Hc & Hv & H11 & H14 & H9). cbn [fst snd] in *.
    cbn [map concat opts_bytes fold_right fold_left] in *. rewrite <- app_assoc.
    pose proof (opt_size_pos (c, v)) as Hp. pose proof (opts_bytes_nonneg t) as Hnn.
    fold (opts_bytes t) in Hb1.
    destruct (exec_readOption s c v (concat (map opt_enc t) ++ [0;0;0;0] ++ rest) Hbig Hc Hv ltac:(lia) Hb2)
      as (s1 & E1 & C1 & V1 & B1 & K1).
    cbn [idb_opts]. rewrite exec_bind, E1. cbv iota beta. rewrite exec_bind, exec_sget. cbv iota beta.
    rewrite C1, V1.
    assert (r_big s1 = false) as Hbig1 by (destruct (core_fields _ _ K1) as (-> & _); exact Hbig).
    rewrite Hbig1.
    assert (exists s', exec (idb_opts f (istep i (c, v))) s1 (concat (map opt_enc t) ++ [0;0;0;0] ++ rest)
              = ((s', Ok (fold_left istep t (istep i (c, v)))), rest) /\ r_blen s' = 4 /\ core s' = core s1) as (s2 & E2 & B2 & K2).
    { apply IH; auto; try lia. cbn in Hf. lia. }
    match goal with |- exists s', exec ?body s1 ?l = _ /\ _ =>
      assert (body = idb_opts f (istep i (c, v))) as Hbody end.
    { unfold istep, getu. assert (c =? 0 = false) as -> by lia.
      destruct ((c =? 2) || (c =? 1) || (c =? 3) || (c =? 12)); [reflexivity|].
      destruct (c =? 11) eqn:X11; [destruct v as [|a h]; [unfold zlen in H11; cbn in H11; lia|reflexivity]|].
      destruct (c =? 14) eqn:X14; [assert (zlen v <? 8 = false) as -> by lia; reflexivity|].
      destruct (c =? 9) eqn:X9; [destruct v as [|a h]; [unfold zlen in H9; cbn in H9; lia|reflexivity]|].
      reflexivity. }
    rewrite Hbody, E2. exists s2. repeat split; auto. rewrite K2; exact K1.
Qed.


Lemma exec_opts_written_idb F l i s rest :
  (length l < F)%nat -> r_big s = false -> Forall iopt_ok l -> l <> [] ->
  r_blen s = zlen (opts_enc l) + 4 -> r_blen s < 4294967296 ->
  exists s', exec (idb_opts F i) s (opts_enc l ++ rest) = ((s', Ok (fold_left istep l i)), rest)
    /\ r_blen s' = 4 /\ core s' = core s.
Proof.
  intros HF Hbig Hok Hne Hb1 Hb2. rewrite zlen_opts_enc in Hb1. destruct l as [|x t] eqn:E; [congruence|].
  unfold opts_enc. rewrite <- app_assoc. rewrite <- E in *.
  apply exec_idb_opts; auto. rewrite E in *. lia.
Qed.

(* ---------------------------------------------------------------- interface description block *)
Definition str_ok (l : list Z) : Prop := zlen l < 65536.
Definition wif_ok (w : wiface) : Prop :=
  str_ok (wi_name w) /\ str_ok (wi_comment w) /\ str_ok (wi_descr w) /\ zlen (wi_filter w) < 65535 /\ str_ok (wi_os w)
  /\ 0 <= wi_link w < 65536 /\ 0 <= wi_snap w < 4294967296 /\ wi_tsoff w = 0.
Definition sec_ok (s : secinfo) : Prop := str_ok (sc_hw s) /\ str_ok (sc_os s) /\ str_ok (sc_app s) /\ str_ok (sc_comment s).

Definition stats0 : stats := mkStats zero_time zero_time zero_time [] 0 0.
(* the interface the reader reconstructs from what AddInterface wrote *)
Definition iface_of (w : wiface) : iface :=
  mkIface (wi_name w) (wi_comment w) (wi_descr w) (wi_filter w) (wi_os w) (wi_link w) 9 0 (wi_snap w) stats0 E9 1 1.

Definition idb_options (w : wiface) : list (Z * list Z) :=
  opt_if_nonempty 2 (wi_name w) ++ opt_if_nonempty 1 (wi_comment w) ++ opt_if_nonempty 3 (wi_descr w)
  ++ (match wi_filter w with [] => [] | f => [(11, 0 :: f)] end)
  ++ opt_if_nonempty 12 (wi_os w) ++ [(9, [9])].

Lemma opts_bytes_app a b : opts_bytes (a ++ b) = opts_bytes a + opts_bytes b.
Proof. unfold opts_bytes in *. induction a as [|x t IH]; cbn [app fold_right]; [lia|]. rewrite IH. lia. Qed.
Lemma opts_bytes_nonempty c v : 0 <= opts_bytes (opt_if_nonempty c v) <= zlen v + 7.
Proof.
  destruct v as [|a t]; cbn [opt_if_nonempty opts_bytes fold_right]; [unfold zlen; cbn; lia|].
  unfold opt_size; cbn [snd]. pose proof (pad4_range (zlen (a :: t))). pose proof (zlen_nonneg (a :: t)). lia.
Qed.

Lemma idb_options_bytes w : wif_ok w -> 8 <= opts_bytes (idb_options w) < 400000.
Proof.
  intros (H1 & H2 & H3 & H4 & H5 & _). unfold idb_options, str_ok in *. rewrite !opts_bytes_app.
  pose proof (opts_bytes_nonempty 2 (wi_name w)). pose proof (opts_bytes_nonempty 1 (wi_comment w)).
  pose proof (opts_bytes_nonempty 3 (wi_descr w)). pose proof (opts_bytes_nonempty 12 (wi_os w)).
  assert (0 <= opts_bytes (match wi_filter w with [] => [] | z :: l => [(11, 0 :: z :: l)] end) <= zlen (wi_filter w) + 8).
  { destruct (wi_filter w) as [|a t] eqn:E; [cbn; unfold zlen; cbn; lia|].
    cbn [opts_bytes fold_right]. unfold opt_size; cbn [snd].
    replace (zlen (0 :: a :: t)) with (zlen (a :: t) + 1) by (unfold zlen; cbn [length]; lia).
    pose proof (pad4_range (zlen (a :: t) + 1)). pose proof (zlen_nonneg (a :: t)). lia. }
  assert (opts_bytes [(9, [9])] = 8) by reflexivity. lia.
Qed.

Lemma idb_options_ok w : wif_ok w -> Forall iopt_ok (idb_options w).
Proof.
  intros (H1 & H2 & H3 & H4 & H5 & _). unfold idb_options, str_ok in *.
  assert (forall c v, 0 < c < 65536 -> c <> 11 -> c <> 14 -> c <> 9 -> zlen v < 65536 -> Forall iopt_ok (opt_if_nonempty c v)) as A.
  { intros c v Hc N1 N2 N3 Hv. destruct v; cbn [opt_if_nonempty]; constructor; [|constructor].
    unfold iopt_ok; cbn [fst snd]. repeat split; try lia. }
  repeat (apply Forall_app; split); try (apply A; lia).
  - destruct (wi_filter w) as [|a t] eqn:E; constructor; [|constructor]. unfold iopt_ok; cbn [fst snd].
    replace (zlen (0 :: a :: t)) with (zlen (a :: t) + 1) by (unfold zlen; cbn [length]; lia).
    pose proof (zlen_nonneg (a :: t)). repeat split; lia.
  - constructor; [|constructor]. unfold iopt_ok; cbn [fst snd]. unfold zlen; cbn. repeat split; lia.
Qed.

Lemma idb_fold w link snap :
  fold_left istep (idb_options w) (mkIface [] [] [] [] [] link 0 0 snap stats0 0 0 0)
  = mkIface (wi_name w) (wi_comment w) (wi_descr w) (wi_filter w) (wi_os w) link 9 0 snap stats0 0 0 0.
Proof.
  unfold idb_options.
  destruct (wi_name w), (wi_comment w), (wi_descr w), (wi_filter w), (wi_os w); reflexivity.
Qed.

Lemma enc_idb_shape w : wif_ok w ->
  let L := zlen (opts_enc (idb_options w)) + 20 in
  enc_idb w = le_bytes 4 1 ++ le_bytes 4 L ++ (le_bytes 2 (wi_link w) ++ le_bytes 2 0 ++ le_bytes 4 (wi_snap w))
              ++ opts_enc (idb_options w) ++ le_bytes 4 L
  /\ zlen (opts_enc (idb_options w)) = opts_bytes (idb_options w) + 4 /\ 32 <= L < 4294967296.
Proof.
  intros Hw. pose proof (idb_options_bytes w Hw) as Hb. destruct Hw as (_ & _ & _ & _ & _ & Hl & Hs & Ht).
  cbv zeta. unfold enc_idb. rewrite Ht. cbn [Z.eqb app]. fold (idb_options w).
  assert (zlen (opts_enc (idb_options w)) = opts_bytes (idb_options w) + 4) as Hz.
  { rewrite zlen_opts_enc. destruct (idb_options w) eqn:E; [cbn in Hb; lia|reflexivity]. }
  rewrite opts_size_small by lia. 
  assert (match idb_options w with [] => 0 | _ :: _ => opts_bytes (idb_options w) + 4 end = zlen (opts_enc (idb_options w))) as ->
    by (rewrite zlen_opts_enc; reflexivity).
  rewrite u32_small by lia. unfold u16. rewrite Z.mod_small by lia.
  replace (zlen (opts_enc (idb_options w)) + 16 + 4) with (zlen (opts_enc (idb_options w)) + 20) by lia.
  split; [|split; [exact Hz|lia]]. repeat rewrite <- app_assoc. reflexivity.
Qed.

Lemma exec_readIDB F s w rest :
  r_big s = false -> wif_ok w -> (length (idb_options w) < F)%nat ->
  r_blen s = zlen (opts_enc (idb_options w)) + 12 ->
  exists s', exec (readIDB F) s ((le_bytes 2 (wi_link w) ++ le_bytes 2 0 ++ le_bytes 4 (wi_snap w))
                                 ++ opts_enc (idb_options w) ++ le_bytes 4 (zlen (opts_enc (idb_options w)) + 20) ++ rest)
             = ((s', Ok tt), rest)
    /\ r_big s' = false /\ r_ifaces s' = r_ifaces s ++ [iface_of w] /\ r_link s' = r_link s /\ r_first s' = r_first s
    /\ r_sect s' = r_sect s /\ r_names s' = r_names s /\ r_btyp s' = r_btyp s.
Proof.
  intros Hbig Hw HF Hb. pose proof (enc_idb_shape w Hw) as (_ & Hz & HL). cbv zeta in HL.
  pose proof (idb_options_bytes w Hw) as Hob.
  destruct Hw as (W1 & W2 & W3 & W4 & W5 & Wl & Ws & Wt).
  assert (wif_ok w) as Hw by (unfold wif_ok; auto 10).
  set (b8 := le_bytes 2 (wi_link w) ++ le_bytes 2 0 ++ le_bytes 4 (wi_snap w)).
  assert (zlen b8 = 8) as Hb8 by (unfold b8; rewrite !zlen_app, !zlen_le_bytes; reflexivity).
  assert (getu false (sl b8 0 2) = wi_link w) as G1.
  { unfold b8, getu. rewrite sl_0 by apply le_bytes_length. apply le_val_le_bytes. change (256 ^ Z.of_nat 2) with 65536. lia. }
  assert (getu false (sl b8 4 8) = wi_snap w) as G2.
  { unfold b8, getu. rewrite (sl_skip (le_bytes 2 (wi_link w)) _ 2 4 8) by (try apply le_bytes_length; lia). cbn [Nat.sub].
    rewrite (sl_skip (le_bytes 2 0) _ 2 2 6) by (try apply le_bytes_length; lia). cbn [Nat.sub].
    rewrite sl_all by apply le_bytes_length. apply le_val_le_bytes. change (256 ^ Z.of_nat 4) with 4294967296. lia. }
  unfold readIDB. rewrite exec_bind, exec_rd_app by exact Hb8. cbv iota beta.
  rewrite exec_bind, exec_sub_blen. cbv iota beta.
  rewrite exec_bind, exec_sget. cbv iota beta. sim. rewrite Hbig, G1, G2.
  rewrite exec_bind.
  destruct (exec_opts_written_idb F (idb_options w)
              (mkIface [] [] [] [] [] (wi_link w) 0 0 (wi_snap w) stats0 0 0 0)
              (set_blen s (u32 (r_blen s - 8))) (le_bytes 4 (zlen (opts_enc (idb_options w)) + 20) ++ rest))
    as (s1 & E1 & B1 & K1); try assumption; try (sim; assumption).
  { apply idb_options_ok; exact Hw. }
  { intros E; rewrite E in Hob; cbn in Hob; lia. }
  { sim. rewrite u32_small by lia. lia. }
  { sim. rewrite u32_small by lia. lia. }
  fold stats0. rewrite E1. cbv iota beta. rewrite idb_fold.
  rewrite exec_bind, exec_sget. cbv iota beta. rewrite B1.
  rewrite exec_bind, exec_disc_app by (rewrite zlen_le_bytes; reflexivity). cbv iota beta.
  cbn [if_tsresol Z.eqb]. change (9 mod 128) with 9. cbn [Z.leb Z.ltb Z.compare Pos.compare Pos.compare_cont].
  change (10 ^ 9) with E9. unfold E9 at 1 2 3 4. cbn [Z.ltb Z.compare Pos.compare Pos.compare_cont Z.eqb].
  change (1000000000 / 1000000000) with 1.
  rewrite exec_smod.
  destruct (core_fields _ _ K1) as (D1 & D2 & D3 & D4 & D5 & D6 & D7 & D8 & D9 & D10 & D11 & D12). sim.
  eexists; split; [reflexivity|]. sim. unfold iface_of, set_if_scale, E9. cbn [if_name if_comment if_descr if_filter if_os if_link if_tsoff if_snap if_stats].
  change (1000000000 <? 1000000000) with false. change (1000000000 / 1000000000) with 1. cbv iota.
  repeat split; congruence.
Qed.

(* ---------------------------------------------------------------- the block loop, one block at a time *)
Lemma hdr_idb ro F g s w rest :
  r_big s = false -> wif_ok w -> (length (idb_options w) < F)%nat ->
  exists s', r_big s' = false /\ r_ifaces s' = r_ifaces s ++ [iface_of w] /\ r_link s' = r_link s
    /\ r_first s' = r_first s /\ r_sect s' = r_sect s /\ r_names s' = r_names s
    /\ exec (readPacketHeader ro F (S g)) s (enc_idb w ++ rest) = exec (readPacketHeader ro F g) s' rest.
Proof.
  intros Hbig Hw HF. pose proof (enc_idb_shape w Hw) as (Hshape & Hz & HL). cbv zeta in *.
  rewrite Hshape. repeat rewrite <- app_assoc.
  set (L := zlen (opts_enc (idb_options w)) + 20) in *.
  destruct (exec_readIDB F (set_block s false 1 (L - 8)) w rest) as (s' & E & P1 & P2 & P3 & P4 & P5 & P6 & P7);
    try assumption; try reflexivity; [sim; lia|].
  exists s'. sim. repeat split; auto.
  cbn [readPacketHeader]. cbv zeta.
  rewrite exec_bind, exec_readBlock_plain by (try assumption; try lia; unfold BT_SHB; lia). cbv iota beta.
  rewrite exec_bind, exec_sget. cbv iota beta. sim. cbn [Z.eqb Pos.eqb orb].
  rewrite exec_bind. repeat rewrite <- app_assoc in E. fold L in E. rewrite E. reflexivity.
Qed.

Lemma hdr_eof ro F g s : exec (readPacketHeader ro F (S g)) s [] = ((s, Err 1), []).
Proof. cbn [readPacketHeader]. cbv zeta. rewrite exec_bind. reflexivity. Qed.

Lemma rpg_idb ro F g s w rest :
  r_big s = false -> wif_ok w -> (length (idb_options w) < F)%nat ->
  exists s', r_big s' = false /\ r_ifaces s' = r_ifaces s ++ [iface_of w]
    /\ exec (readPacketG ro F (S g)) s (enc_idb w ++ rest) = exec (readPacketG ro F g) s' rest.
Proof.
  intros Hbig Hw HF. destruct (hdr_idb ro F g s w rest Hbig Hw HF) as (s' & P1 & P2 & _ & _ & _ & _ & E).
  exists s'. repeat split; auto. unfold readPacketG. rewrite !exec_bind, E. reflexivity.
Qed.

Lemma rpg_eof ro F g s : exec (readPacketG ro F (S g)) s [] = ((s, Err 1), []).
Proof. unfold readPacketG. rewrite exec_bind, hdr_eof. reflexivity. Qed.

(* a decryption secrets block is skipped by the packet read *)
Lemma enc_dsb_shape ty pl : 0 <= ty < 4294967296 -> zlen pl < 4294967000 ->
  let L := 20 + zlen pl + pad4 (zlen pl) in
  enc_dsb ty pl = le_bytes 4 10 ++ le_bytes 4 L ++ (le_bytes 4 ty ++ le_bytes 4 (zlen pl) ++ pl ++ zeros (pad4 (zlen pl)) ++ le_bytes 4 L)
  /\ 20 <= L < 4294967296
  /\ zlen (le_bytes 4 ty ++ le_bytes 4 (zlen pl) ++ pl ++ zeros (pad4 (zlen pl)) ++ le_bytes 4 L) = L - 8.
Proof.
  intros Ht Hp. cbv zeta. pose proof (zlen_nonneg pl). pose proof (pad4_range (zlen pl)).
  unfold enc_dsb. rewrite (u32_small (zlen pl)) by lia.
  replace (8 + 4 + 8 + zlen pl + pad4 (zlen pl)) with (20 + zlen pl + pad4 (zlen pl)) by lia.
  rewrite u32_small by lia. split; [reflexivity|]. split; [lia|].
  rewrite !zlen_app, !zlen_le_bytes, zlen_zeros by lia. lia.
Qed.

Lemma hdr_dsb_step ro F g s L x :
  r_big s = false -> 20 <= L < 4294967296 ->
  exec (readPacketHeader ro F (S g)) s (le_bytes 4 10 ++ le_bytes 4 L ++ x)
  = match exec (s_disc (L - 8)) (set_block s false 10 (L - 8)) x with
    | ((s1, Ok _), l1) => exec (readPacketHeader ro F g) s1 l1
    | ((s1, Err c), l1) => ((s1, Err c), l1)
    | ((s1, Panic q), l1) => ((s1, Panic q), l1)
    end.
Proof.
  intros Hbig HL. cbn [readPacketHeader]. cbv zeta.
  rewrite exec_bind, exec_readBlock_plain by (try assumption; try lia; unfold BT_SHB; lia). cbv iota beta.
  rewrite exec_bind, exec_sget. cbv iota beta. sim. unfold BT_SHB. cbn [Z.eqb Pos.eqb orb].
  rewrite exec_bind. reflexivity.
Qed.

Lemma rpg_dsb ro F g s ty pl rest :
  r_big s = false -> 0 <= ty < 4294967296 -> zlen pl < 4294967000 ->
  exists s', r_big s' = false /\ r_ifaces s' = r_ifaces s /\ r_link s' = r_link s
    /\ exec (readPacketG ro F (S g)) s (enc_dsb ty pl ++ rest) = exec (readPacketG ro F g) s' rest.
Proof.
  intros Hbig Ht Hp. destruct (enc_dsb_shape ty pl Ht Hp) as (E & HL & Hz). cbv zeta in *.
  set (L := 20 + zlen pl + pad4 (zlen pl)) in *. rewrite E. repeat rewrite <- app_assoc.
  exists (set_blen (set_block s false 10 (L - 8)) (u32 (L - 8 - (L - 8)))). sim. repeat split; auto.
  unfold readPacketG. rewrite !exec_bind. rewrite hdr_dsb_step by assumption.
  match goal with |- context [exec (s_disc (L - 8)) ?st (?a ++ ?b ++ ?c ++ ?d ++ ?e ++ rest)] =>
    replace (a ++ b ++ c ++ d ++ e ++ rest) with ((a ++ b ++ c ++ d ++ e) ++ rest) by (repeat rewrite <- app_assoc; reflexivity) end.
  rewrite exec_disc_app by exact Hz. sim. reflexivity.
Qed.

(* ---------------------------------------------------------------- interface statistics block:
   parsed and recorded in the statistics of its interface; nothing else changes *)
Definition clear_stats (i : iface) : iface := set_if_stats i stats0.

Lemma map_clear_upd : forall (l : list iface) k i st, nth_error l k = Some i ->
  map clear_stats (upd l k (set_if_stats i st)) = map clear_stats l.
Proof.
  induction l as [|h t IH]; intros k i st H; [destruct k; discriminate|].
  destruct k as [|k]; cbn [upd map nth_error] in *.
  - inversion H; subst. reflexivity.
  - rewrite (IH _ _ _ H). reflexivity.
Qed.

Lemma exec_put_stats id st s l :
  exists s2, exec (put_stats id st) s l = ((s2, Ok tt), l) /\ r_big s2 = r_big s /\ r_blen s2 = r_blen s
    /\ map clear_stats (r_ifaces s2) = map clear_stats (r_ifaces s) /\ r_link s2 = r_link s.
Proof.
  unfold put_stats. rewrite exec_smod. eexists; split; [reflexivity|].
  destruct (nth_error (r_ifaces s) (Z.to_nat id)) eqn:E; sim; repeat split; auto. apply map_clear_upd; exact E.
Qed.

Lemma convert_time_total i ts : if_mask i <> 0 -> if_down i <> 0 -> exists t, convert_time i ts = Ok t.
Proof.
  intros Hm Hd. unfold convert_time. destruct (if_mask i =? 0) eqn:E1; [lia|]. destruct (if_down i =? 0) eqn:E2; [lia|]. eauto.
Qed.

Definition isopt_ok (cv : Z * list Z) : Prop :=
  0 < fst cv < 65536 /\ zlen (snd cv) < 65536
  /\ ((fst cv = 2 \/ fst cv = 3 \/ fst cv = 4 \/ fst cv = 5) -> 8 <= zlen (snd cv)).

Lemma exec_isb_opts : forall opts fuel id i st s rest,
  (length opts < fuel)%nat -> r_big s = false -> if_mask i <> 0 -> if_down i <> 0 -> Forall isopt_ok opts ->
  r_blen s = opts_bytes opts + 8 -> r_blen s < 4294967296 ->
  exists s', exec (isb_opts fuel id i st) s (concat (map opt_enc opts) ++ [0;0;0;0] ++ rest) = ((s', Ok tt), rest)
    /\ r_blen s' = 4 /\ r_big s' = false /\ map clear_stats (r_ifaces s') = map clear_stats (r_ifaces s) /\ r_link s' = r_link s.
Proof.
  induction opts as [|[c v] t IH]; intros fuel id i st s rest Hf Hbig Hm Hd Hok Hb1 Hb2.
  - destruct fuel as [|f]; [cbn in Hf; lia|]. cbn [isb_opts map concat app fold_left opts_bytes fold_right] in *.
    destruct (exec_readOption_eoo s rest Hbig ltac:(lia) Hb2) as (s1 & E1 & C1 & B1 & K1).
    rewrite exec_bind. cbn [app] in E1. rewrite E1. cbv iota beta.
    rewrite exec_bind, exec_sget. cbv iota beta. rewrite C1. cbn [Z.eqb]. rewrite exec_sret.
    destruct (core_fields _ _ K1) as (D1 & _ & D3 & D4 & _).
    exists s1. repeat split; auto; try congruence; lia.
  - destruct fuel as [|f]; [cbn in Hf; lia|]. inversion Hok as [|? ? Hcv Ht]; subst.
    destruct Hcv as (Hc & Hv & H8). cbn [fst snd] in *.
    cbn [map concat opts_bytes fold_right] in *. rewrite <- app_assoc.
    pose proof (opt_size_pos (c, v)) as Hp. pose proof (opts_bytes_nonneg t) as Hnn.
    fold (opts_bytes t) in Hb1.
    destruct (exec_readOption s c v (concat (map opt_enc t) ++ [0;0;0;0] ++ rest) Hbig Hc Hv ltac:(lia) Hb2)
      as (s1 & E1 & C1 & V1 & B1 & K1).
    cbn [isb_opts]. rewrite exec_bind, E1. cbv iota beta. rewrite exec_bind, exec_sget. cbv iota beta.
    rewrite C1, V1.
    destruct (core_fields _ _ K1) as (D1 & _ & D3 & D4 & _).
    assert (r_big s1 = false) as Hbig1 by congruence.
    (* whatever the statistics and however they were stored, the loop goes on *)
    assert (forall st' s2, r_big s2 = false -> r_blen s2 = r_blen s1 ->
              map clear_stats (r_ifaces s2) = map clear_stats (r_ifaces s) -> r_link s2 = r_link s ->
              exists s', exec (isb_opts f id i st') s2 (concat (map opt_enc t) ++ [0;0;0;0] ++ rest) = ((s', Ok tt), rest)
                /\ r_blen s' = 4 /\ r_big s' = false /\ map clear_stats (r_ifaces s') = map clear_stats (r_ifaces s) /\ r_link s' = r_link s) as G.
    { intros st' s2 G1 G2 G3 G4. destruct (IH f id i st' s2 rest) as (s' & E & P1 & P2 & P3 & P4); auto; try lia.
      - cbn in Hf; lia.
      - exists s'. repeat split; auto; congruence. }
    assert (forall st', exists s', exec (put_stats id st';;; isb_opts f id i st') s1 (concat (map opt_enc t) ++ [0;0;0;0] ++ rest) = ((s', Ok tt), rest)
                /\ r_blen s' = 4 /\ r_big s' = false /\ map clear_stats (r_ifaces s') = map clear_stats (r_ifaces s) /\ r_link s' = r_link s) as GP.
    { intros st'. destruct (exec_put_stats id st' s1 (concat (map opt_enc t) ++ [0;0;0;0] ++ rest)) as (s2 & E2 & Q1 & Q2 & Q3 & Q4).
      rewrite exec_bind, E2. cbv iota beta. apply G; congruence. }
    assert (c =? 0 = false) as -> by lia.
    destruct (c =? 1) eqn:X1; [apply GP|].
    destruct ((c =? 2) || (c =? 3) || (c =? 4) || (c =? 5)) eqn:X2.
    + assert (zlen v <? 8 = false) as -> by lia.
      destruct (c =? 2) eqn:Y2.
      { destruct (convert_time_total i (ts_of (r_big s1) v) Hm Hd) as (tm & ->). rewrite exec_bind. cbn [slift]. rewrite exec_sret. cbv iota beta. apply GP. }
      destruct (c =? 3) eqn:Y3.
      { destruct (convert_time_total i (ts_of (r_big s1) v) Hm Hd) as (tm & ->). rewrite exec_bind. cbn [slift]. rewrite exec_sret. cbv iota beta. apply GP. }
      destruct (c =? 4); apply GP.
    + apply G; auto; congruence.
Qed.

Definition isb_options (st : wstats) : list (Z * list Z) :=
  (match ws_start st with Some t => [(2, enc_ts t)] | None => [] end)
  ++ (match ws_end st with Some t => [(3, enc_ts t)] | None => [] end)
  ++ (if ws_drop st =? NoValue64 then [] else [(5, le_bytes 8 (ws_drop st))])
  ++ (if ws_recv st =? NoValue64 then [] else [(4, le_bytes 8 (ws_recv st))]).

Lemma zlen_enc_ts t : zlen (enc_ts t) = 8.
Proof. unfold enc_ts. rewrite zlen_app, !zlen_le_bytes. reflexivity. Qed.

Lemma isb_options_ok st : Forall isopt_ok (isb_options st) /\ 0 <= opts_bytes (isb_options st) <= 48
  /\ (length (isb_options st) <= 4)%nat.
Proof.
  unfold isb_options.
  assert (forall c v, 0 < c < 65536 -> zlen v = 8 -> isopt_ok (c, v)) as A
    by (intros c v Hc Hv; unfold isopt_ok; cbn [fst snd]; repeat split; lia).
  assert (forall c v, zlen v = 8 -> opts_bytes [(c, v)] = 12) as B
    by (intros c v Hv; cbn [opts_bytes fold_right]; unfold opt_size; cbn [snd]; rewrite Hv; reflexivity).
  destruct (ws_start st), (ws_end st), (ws_drop st =? NoValue64), (ws_recv st =? NoValue64); cbn [app length];
    (split; [repeat constructor; apply A; try lia; try apply zlen_enc_ts; try apply zlen_le_bytes|]);
    (split; [|lia]); cbn [opts_bytes fold_right]; unfold opt_size; cbn [snd];
    rewrite ?zlen_enc_ts, ?zlen_le_bytes; cbn; lia.
Qed.

Lemma enc_isb_shape ifid st : 0 <= ifid < 4294967296 ->
  let L := zlen (opts_enc (isb_options st)) + 24 in
  let ts := match ws_last st with Some t => t | None => 0 end in
  enc_isb ifid st = le_bytes 4 5 ++ le_bytes 4 L ++ (le_bytes 4 ifid ++ enc_ts ts) ++ opts_enc (isb_options st) ++ le_bytes 4 L
  /\ 24 <= L < 4294967296 /\ 0 <= zlen (opts_enc (isb_options st)) <= opts_bytes (isb_options st) + 4.
Proof.
  intros Hi. destruct (isb_options_ok st) as (_ & Hb & _). cbv zeta. unfold enc_isb. fold (isb_options st).
  rewrite opts_size_small by lia.
  assert (match isb_options st with [] => 0 | _ :: _ => opts_bytes (isb_options st) + 4 end = zlen (opts_enc (isb_options st))) as ->
    by (rewrite zlen_opts_enc; reflexivity).
  assert (0 <= zlen (opts_enc (isb_options st)) <= opts_bytes (isb_options st) + 4) as Hz
    by (rewrite zlen_opts_enc; destruct (isb_options st); [cbn; lia|lia]).
  rewrite u32_small by lia. rewrite (u32_small ifid) by lia.
  split; [|split; [lia|exact Hz]]. repeat rewrite <- app_assoc. reflexivity.
Qed.

Lemma exec_opts_written_isb F l id i st s rest :
  (length l < F)%nat -> r_big s = false -> if_mask i <> 0 -> if_down i <> 0 -> Forall isopt_ok l ->
  r_blen s = zlen (opts_enc l) + 4 -> r_blen s < 4294967296 ->
  exists s', exec (isb_opts F id i st) s (opts_enc l ++ rest) = ((s', Ok tt), rest)
    /\ r_blen s' = 4 /\ r_big s' = false /\ map clear_stats (r_ifaces s') = map clear_stats (r_ifaces s) /\ r_link s' = r_link s.
Proof.
  intros HF Hbig Hm Hd Hok Hb1 Hb2. rewrite zlen_opts_enc in Hb1. destruct l as [|x t] eqn:E.
  - destruct F as [|f]; [cbn in HF; lia|]. cbn [opts_enc app isb_opts].
    destruct (exec_readOption_fake s rest ltac:(lia)) as (s1 & E1 & C1 & B1 & K1).
    rewrite exec_bind, E1. cbv iota beta. rewrite exec_bind, exec_sget. cbv iota beta. rewrite C1. cbn [Z.eqb].
    rewrite exec_sret. destruct (core_fields _ _ K1) as (D1 & _ & D3 & D4 & _). exists s1. repeat split; auto; congruence.
  - unfold opts_enc. rewrite <- app_assoc. rewrite <- E in *.
    apply exec_isb_opts; auto. rewrite E in *. lia.
Qed.

Lemma exec_readISB F s ifid st i rest :
  r_big s = false -> 0 <= ifid < 4294967296 -> nth_error (r_ifaces s) (Z.to_nat ifid) = Some i ->
  if_mask i <> 0 -> if_down i <> 0 -> (4 < F)%nat ->
  r_blen s = zlen (opts_enc (isb_options st)) + 16 ->
  let ts := match ws_last st with Some t => t | None => 0 end in
  exists s', exec (readISB F) s ((le_bytes 4 ifid ++ enc_ts ts) ++ opts_enc (isb_options st)
                                 ++ le_bytes 4 (zlen (opts_enc (isb_options st)) + 24) ++ rest) = ((s', Ok tt), rest)
    /\ r_big s' = false /\ map clear_stats (r_ifaces s') = map clear_stats (r_ifaces s) /\ r_link s' = r_link s.
Proof.
  intros Hbig Hi Ei Hm Hd HF Hb. cbv zeta.
  destruct (isb_options_ok st) as (Hok & Hob & Hlen).
  destruct (enc_isb_shape ifid st Hi) as (_ & HL & Hz). cbv zeta in *.
  set (ts := match ws_last st with Some t => t | None => 0 end).
  set (b12 := le_bytes 4 ifid ++ enc_ts ts).
  assert (zlen b12 = 12) as Hb12 by (unfold b12; rewrite zlen_app, zlen_le_bytes, zlen_enc_ts; reflexivity).
  assert (getu false (sl b12 0 4) = ifid) as G1.
  { unfold b12, getu. rewrite sl_0 by apply le_bytes_length. apply le_val_le_bytes. change (256 ^ Z.of_nat 4) with 4294967296. lia. }
  unfold readISB. rewrite exec_bind, exec_rd_app by exact Hb12. cbv iota beta.
  rewrite exec_bind, exec_sub_blen. cbv iota beta.
  rewrite exec_bind, exec_sget. cbv iota beta. sim. rewrite Hbig, G1.
  assert (Z.to_nat ifid < length (r_ifaces s))%nat as Hlt0 by (apply nth_error_Some; congruence).
  assert (ifid < zlen (r_ifaces s)) as Hlt by (unfold zlen; lia).
  assert (zlen (r_ifaces s) <=? ifid = false) as -> by lia. rewrite Ei.
  destruct (convert_time_total i (getu false (sl b12 4 8) * 4294967296 + getu false (sl b12 8 12)) Hm Hd) as (tm & ->).
  rewrite exec_bind. cbn [slift]. rewrite exec_sret. cbv iota beta.
  match goal with |- context [exec (put_stats ifid ?x;;; ?k) ?st ?l] =>
    destruct (exec_put_stats ifid x st l) as (s2 & E2 & Q1 & Q2 & Q3 & Q4) end.
  rewrite exec_bind, E2. cbv iota beta. sim.
  rewrite exec_bind.
  destruct (exec_opts_written_isb F (isb_options st) ifid i
              (mkStats tm zero_time zero_time [] NoValue64 NoValue64) s2
              (le_bytes 4 (zlen (opts_enc (isb_options st)) + 24) ++ rest)) as (s3 & E3 & P1 & P2 & P3 & P4);
    try assumption; try lia; try congruence.
  { rewrite Q2. rewrite u32_small by lia. lia. }
  { rewrite Q2. rewrite u32_small by lia. lia. }
  rewrite E3. cbv iota beta. rewrite exec_bind, exec_sget. cbv iota beta. rewrite P1.
  rewrite exec_disc_app by (rewrite zlen_le_bytes; reflexivity).
  eexists; split; [reflexivity|]. sim. split; [exact P2|]. split; [rewrite P3, Q3; reflexivity|]. rewrite P4, Q4. reflexivity.
Qed.

Lemma rpg_isb ro F g s ifid st i rest :
  r_big s = false -> 0 <= ifid < 4294967296 -> nth_error (r_ifaces s) (Z.to_nat ifid) = Some i ->
  if_mask i <> 0 -> if_down i <> 0 -> (4 < F)%nat ->
  exists s', r_big s' = false /\ map clear_stats (r_ifaces s') = map clear_stats (r_ifaces s) /\ r_link s' = r_link s
    /\ exec (readPacketG ro F (S g)) s (enc_isb ifid st ++ rest) = exec (readPacketG ro F g) s' rest.
Proof.
  intros Hbig Hi Ei Hm Hd HF. destruct (enc_isb_shape ifid st Hi) as (E & HL & Hz). cbv zeta in *.
  set (L := zlen (opts_enc (isb_options st)) + 24) in *. rewrite E. repeat rewrite <- app_assoc.
  destruct (exec_readISB F (set_block s false 5 (L - 8)) ifid st i rest) as (s' & Er & P1 & P2 & P3);
    try assumption; try reflexivity; [sim; lia|].
  exists s'. sim. repeat split; auto.
  unfold readPacketG. rewrite !exec_bind. cbn [readPacketHeader]. cbv zeta.
  rewrite exec_bind, exec_readBlock_plain by (try assumption; try lia; unfold BT_SHB; lia). cbv iota beta.
  rewrite exec_bind, exec_sget. cbv iota beta. sim. unfold BT_SHB. cbn [Z.eqb Pos.eqb orb].
  rewrite exec_bind. cbv zeta in Er. repeat rewrite <- app_assoc in Er. fold L in Er. rewrite Er. reflexivity.
Qed.

(* ---------------------------------------------------------------- scripts *)
Definition enc_op (op : wop) : list Z :=
  match op with
  | WAddIf w => enc_idb w
  | WPacket ifid ts caplen len data o => enc_epb ifid ts caplen len data o
  | WStats ifid st => enc_isb ifid st
  | WDSB t p => enc_dsb t p
  end.
Definition enc_ops (ops : list wop) : list Z := concat (map enc_op ops).

(* what each call must satisfy, given the interfaces added before it *)
Fixpoint ops_ok (ws : list wiface) (ops : list wop) : Prop :=
  match ops with
  | [] => True
  | WAddIf w :: t => wif_ok w /\ ops_ok (ws ++ [w]) t
  | WPacket ifid ts caplen len data o :: t => wf_packet (map iface_of ws) ifid ts caplen len data o /\ ops_ok ws t
  | WDSB ty pl :: t => dsb_type_ok ty = true /\ 0 <= ty < 4294967296 /\ zlen pl < 4294967000 /\ ops_ok ws t
  | WStats ifid st :: t => 0 <= ifid < zlen ws /\ ifid < 4294967296 /\ ops_ok ws t
  end.

Definition link_at (ws : list wiface) (ifid : Z) : Z :=
  match nth_error ws (Z.to_nat ifid) with Some w => wi_link w | None => 0 end.

(* the packets a script stores, as the reader reports them *)
Fixpoint exp_pkts (ws : list wiface) (ops : list wop) : list pkt :=
  match ops with
  | [] => []
  | WAddIf w :: t => exp_pkts (ws ++ [w]) t
  | WPacket ifid ts caplen len data o :: t =>
    mkPkt (mkCi ifid (ts / E9, ts mod E9) caplen len) (link_at ws ifid) data o :: exp_pkts ws t
  | _ :: t => exp_pkts ws t
  end.

(* the interfaces known after a script *)
Fixpoint ws_after (ws : list wiface) (ops : list wop) : list wiface :=
  match ops with
  | [] => ws
  | WAddIf w :: t => ws_after (ws ++ [w]) t
  | _ :: t => ws_after ws t
  end.

Definition fuel_ok (F : nat) (ops : list wop) : Prop :=
  (12 < F)%nat /\
  Forall (fun op => match op with WPacket _ _ _ _ _ o => (length (popts_to_options o) + 2 < F)%nat | _ => True end) ops.

(* the reader state after a script: little endian, and the interfaces of the script in order, up to
   the statistics recorded from interface statistics blocks *)
Definition sinv (ws : list wiface) (s : rst) : Prop := r_big s = false /\ map clear_stats (r_ifaces s) = map iface_of ws.

Lemma wf_packet_clear l ifid ts caplen len data o :
  wf_packet (map clear_stats l) ifid ts caplen len data o -> wf_packet l ifid ts caplen len data o.
Proof.
  unfold wf_packet. intros (H1 & H2 & H3 & H4 & H5 & H6 & H7 & i & Ei & Hns & Hsn & Hlt).
  rewrite nth_error_map in Ei. destruct (nth_error l (Z.to_nat ifid)) as [j|] eqn:Ej; [|discriminate].
  cbn in Ei. inversion Ei; subst i. unfold zlen in Hlt. rewrite map_length in Hlt. fold (zlen l) in Hlt.
  split; [exact H1|]. split; [exact H2|]. split; [exact H3|]. split; [exact H4|]. split; [exact H5|]. split; [exact H6|]. split; [exact H7|].
  exists j. unfold iface_ns, clear_stats, set_if_stats in *. cbn [if_mask if_up if_down if_tsoff if_snap] in *. auto.
Qed.

Lemma sinv_link ws s ifid i : map clear_stats (r_ifaces s) = map iface_of ws ->
  nth_error (r_ifaces s) (Z.to_nat ifid) = Some i -> if_link i = link_at ws ifid /\ if_mask i = E9 /\ if_down i = 1.
Proof.
  intros Hifs Ei. unfold link_at.
  assert (nth_error (map clear_stats (r_ifaces s)) (Z.to_nat ifid) = Some (clear_stats i)) as H
    by (rewrite nth_error_map, Ei; reflexivity).
  rewrite Hifs, nth_error_map in H. destruct (nth_error ws (Z.to_nat ifid)) as [w|]; [|discriminate].
  cbn in H. unfold clear_stats, set_if_stats, iface_of in H. inversion H. auto.
Qed.

Lemma idb_options_len w : (length (idb_options w) <= 6)%nat.
Proof.
  unfold idb_options. rewrite !app_length.
  assert (forall c v, (length (opt_if_nonempty c v) <= 1)%nat) as A by (intros c v; destruct v; cbn; lia).
  pose proof (A 2 (wi_name w)). pose proof (A 1 (wi_comment w)). pose proof (A 3 (wi_descr w)). pose proof (A 12 (wi_os w)).
  destruct (wi_filter w); cbn [length]; lia.
Qed.

(* one call of the packet read on the rest of a script followed by anything: the interface blocks
   in front are absorbed, the first packet comes back; or there is no packet and the loop goes on
   into what follows the script *)
Lemma one_read ro F : ro_mixed ro = true -> forall ops ws s g tail,
  (length ops < g)%nat -> sinv ws s -> ops_ok ws ops -> fuel_ok F ops ->
  exists ws' s', sinv ws' s' /\
  match ops, exp_pkts ws ops with
  | _, [] => exec (readPacketG ro F g) s (enc_ops ops ++ tail) = exec (readPacketG ro F (g - length ops)) s' tail
               /\ ws' = ws_after ws ops
  | _, p :: _ => exists t, exec (readPacketG ro F g) s (enc_ops ops ++ tail) = ((s', Ok p), enc_ops t ++ tail)
                  /\ ops_ok ws' t /\ fuel_ok F t /\ exp_pkts ws ops = p :: exp_pkts ws' t /\ (length t < length ops)%nat
                  /\ ws_after ws' t = ws_after ws ops
  end.
Proof.
  intros Hmix. induction ops as [|op t IH]; intros ws s g tail Hg Hs Hok HF.
  - exists ws, s. split; [exact Hs|]. cbn [exp_pkts enc_ops map concat app length ws_after]. rewrite Nat.sub_0_r. split; reflexivity.
  - destruct Hs as (Hbig & Hifs). destruct HF as (HF12 & HFp). inversion HFp as [|? ? HF1 HFt]; subst.
    destruct g as [|g]; [cbn in Hg; lia|]. cbn [length] in Hg.
    destruct op as [w|ifid ts caplen len data o|ifid st|ty pl]; cbn [ops_ok] in Hok; try contradiction.
    + (* AddInterface *)
      destruct Hok as (Hw & Hok). cbn [exp_pkts enc_ops map concat enc_op]. rewrite <- app_assoc.
      destruct (rpg_idb ro F g s w (concat (map enc_op t) ++ tail) Hbig Hw ltac:(pose proof (idb_options_len w); lia))
        as (s1 & Q1 & Q2 & E).
      assert (sinv (ws ++ [w]) s1) as Hs1 by (split; [exact Q1|rewrite Q2, !map_app, Hifs; reflexivity]).
      assert (length t < g)%nat as Hg' by lia.
      destruct (IH (ws ++ [w]) s1 g tail Hg' Hs1 Hok (conj HF12 HFt)) as (ws' & s' & Hs' & R).
      exists ws', s'. split; [exact Hs'|]. fold (enc_ops t) in *.
      destruct (exp_pkts (ws ++ [w]) t) as [|p ps] eqn:Ep.
      * rewrite E. cbn [ws_after]. destruct t; cbn [length Nat.sub] in *; exact R.
      * destruct t as [|op2 t2]; [cbn in Ep; discriminate|].
        destruct R as (t' & R1 & R2 & R3 & R4 & R5 & R6). exists t'. rewrite E. split; [exact R1|]. split; [exact R2|]. split; [exact R3|]. split; [exact R4|]. split; [cbn [length] in *; lia|exact R6].
    + (* WritePacketWithOptions *)
      destruct Hok as (Hwf & Hok). cbn [exp_pkts enc_ops map concat enc_op]. rewrite <- app_assoc.
      rewrite <- Hifs in Hwf. apply wf_packet_clear in Hwf.
      destruct (exec_epb_g ro F g s ifid ts caplen len data o (concat (map enc_op t) ++ tail) Hmix Hbig HF1 Hwf)
        as (s' & i & Ei & E & Q1 & Q2 & _).
      exists ws, s'. split; [split; [exact Q1|rewrite Q2; exact Hifs]|].
      exists t. rewrite E. fold (enc_ops t).
      assert (if_link i = link_at ws ifid) as -> by (apply (sinv_link ws s ifid i Hifs Ei)).
      split; [reflexivity|]. split; [exact Hok|]. split; [exact (conj HF12 HFt)|]. split; [reflexivity|]. split; [cbn [length]; lia|reflexivity].
    + (* WriteInterfaceStats: parsed, recorded in the interface *)
      destruct Hok as (Hid & Hid2 & Hok). cbn [exp_pkts enc_ops map concat enc_op ws_after]. rewrite <- app_assoc.
      assert (exists i, nth_error (r_ifaces s) (Z.to_nat ifid) = Some i) as (i & Ei).
      { destruct (nth_error (r_ifaces s) (Z.to_nat ifid)) eqn:E; [eauto|]. apply nth_error_None in E.
        assert (length (r_ifaces s) = length ws) by (rewrite <- (map_length clear_stats), Hifs, map_length; reflexivity).
        unfold zlen in Hid. lia. }
      destruct (sinv_link ws s ifid i Hifs Ei) as (_ & Hm & Hd).
      destruct (rpg_isb ro F g s ifid st i (concat (map enc_op t) ++ tail) Hbig ltac:(lia) Ei
                  ltac:(rewrite Hm; unfold E9; lia) ltac:(rewrite Hd; lia) ltac:(lia)) as (s1 & Q1 & Q2 & _ & E).
      assert (sinv ws s1) as Hs1 by (split; [exact Q1|rewrite Q2; exact Hifs]).
      assert (length t < g)%nat as Hg' by lia.
      destruct (IH ws s1 g tail Hg' Hs1 Hok (conj HF12 HFt)) as (ws' & s' & Hs' & R).
      exists ws', s'. split; [exact Hs'|]. fold (enc_ops t) in *.
      destruct (exp_pkts ws t) as [|p ps] eqn:Ep.
      * rewrite E. destruct t; cbn [length Nat.sub] in *; exact R.
      * destruct t as [|op2 t2]; [cbn in Ep; discriminate|].
        destruct R as (t' & R1 & R2 & R3 & R4 & R5 & R6). exists t'. rewrite E. split; [exact R1|]. split; [exact R2|]. split; [exact R3|]. split; [exact R4|]. split; [cbn [length] in *; lia|exact R6].
    + (* WriteDecryptionSecretsBlock: skipped *)
      destruct Hok as (_ & Hty & Hpl & Hok). cbn [exp_pkts enc_ops map concat enc_op ws_after]. rewrite <- app_assoc.
      destruct (rpg_dsb ro F g s ty pl (concat (map enc_op t) ++ tail) Hbig Hty Hpl) as (s1 & Q1 & Q2 & _ & E).
      assert (sinv ws s1) as Hs1 by (split; [exact Q1|rewrite Q2; exact Hifs]).
      assert (length t < g)%nat as Hg' by lia.
      destruct (IH ws s1 g tail Hg' Hs1 Hok (conj HF12 HFt)) as (ws' & s' & Hs' & R).
      exists ws', s'. split; [exact Hs'|]. fold (enc_ops t) in *.
      destruct (exp_pkts ws t) as [|p ps] eqn:Ep.
      * rewrite E. destruct t; cbn [length Nat.sub] in *; exact R.
      * destruct t as [|op2 t2]; [cbn in Ep; discriminate|].
        destruct R as (t' & R1 & R2 & R3 & R4 & R5 & R6). exists t'. rewrite E. split; [exact R1|]. split; [exact R2|]. split; [exact R3|]. split; [exact R4|]. split; [cbn [length] in *; lia|exact R6].
Qed.

(* ---------------------------------------------------------------- the whole read loop over a script
   followed by a tail on which the packet read ends with class c whatever the interfaces *)
Definition tail_ends (ro : ropts) (F : nat) (wsf : list wiface) (tail : list Z) (c : Z) : Prop :=
  forall s g, sinv wsf s -> (0 < g)%nat -> exists s'' l'', exec (readPacketG ro F g) s tail = ((s'', Err c), l'').

Lemma read_all_script ro F wsf c tail : ro_mixed ro = true -> tail_ends ro F wsf tail c ->
  forall n ops ws s acc fuel,
  (length ops <= n)%nat -> (length ops < fuel)%nat -> (length ops < F)%nat ->
  sinv ws s -> ops_ok ws ops -> fuel_ok F ops -> ws_after ws ops = wsf ->
  exists s' l', run_d (read_all ro F fuel acc s) (enc_ops ops ++ tail) = ((rev acc ++ exp_pkts ws ops, c, s'), l').
Proof.
  intros Hmix Htail. induction n as [|n IH]; intros ops ws s acc fuel Hn Hfuel HFl Hs Hok HF Hwa.
  - destruct ops; [|cbn in Hn; lia]. destruct fuel as [|f]; [cbn in Hfuel; lia|]. cbn [ws_after] in Hwa. subst wsf.
    cbn [read_all enc_ops map concat app exp_pkts]. rewrite run_d_bind.
    change (run_d (readPacket ro F s) tail) with (exec (readPacketG ro F F) s tail).
    destruct (Htail s F Hs ltac:(lia)) as (s'' & l'' & E). rewrite E. cbn [snd fst run_d cls_of].
    rewrite app_nil_r. eauto.
  - destruct fuel as [|f]; [lia|]. cbn [read_all]. rewrite run_d_bind.
    change (run_d (readPacket ro F s) (enc_ops ops ++ tail)) with (exec (readPacketG ro F F) s (enc_ops ops ++ tail)).
    destruct (one_read ro F Hmix ops ws s F tail HFl Hs Hok HF) as (ws' & s1 & Hs1 & R).
    destruct (exp_pkts ws ops) as [|p ps] eqn:Ep.
    + destruct R as (R & Rw). rewrite R. rewrite Rw, Hwa in Hs1.
      destruct (Htail s1 (F - length ops)%nat Hs1 ltac:(lia)) as (s'' & l'' & E). rewrite E.
      cbn [snd fst run_d cls_of]. rewrite app_nil_r. eauto.
    + destruct R as (t & R1 & R2 & R3 & R4 & R5 & R6). rewrite R1. cbn [snd fst].
      destruct (IH t ws' s1 (p :: acc) f ltac:(lia) ltac:(lia) ltac:(lia) Hs1 R2 R3 ltac:(congruence)) as (s' & l' & E).
      rewrite E. inversion R4; subst. cbn [rev]. rewrite <- app_assoc. cbn [app]. eauto.
Qed.

Lemma tail_ends_nil ro F wsf : tail_ends ro F wsf [] 1.
Proof. intros s g _ Hg. destruct g as [|g]; [lia|]. rewrite rpg_eof. eauto. Qed.

(* ---------------------------------------------------------------- section header block, NewNgReader *)
Definition shb_options (sec : secinfo) : list (Z * list Z) :=
  opt_if_nonempty 4 (sc_app sec) ++ opt_if_nonempty 1 (sc_comment sec)
  ++ opt_if_nonempty 2 (sc_hw sec) ++ opt_if_nonempty 3 (sc_os sec).

Lemma shb_fold sec : fold_left sstep (shb_options sec) empty_sec = sec.
Proof. destruct sec as [hw os app cm]. unfold shb_options. cbn [sc_hw sc_os sc_app sc_comment]. destruct hw, os, app, cm; reflexivity. Qed.

Lemma shb_options_ok sec : sec_ok sec -> Forall sopt_ok (shb_options sec) /\ 0 <= opts_bytes (shb_options sec) < 300000
  /\ (length (shb_options sec) <= 4)%nat.
Proof.
  intros (H1 & H2 & H3 & H4). unfold shb_options, str_ok in *.
  assert (forall c v, 0 < c < 65536 -> zlen v < 65536 -> Forall sopt_ok (opt_if_nonempty c v)) as A.
  { intros c v Hc Hv. destruct v; cbn [opt_if_nonempty]; constructor; [|constructor]. unfold sopt_ok; cbn [fst snd]. lia. }
  assert (forall c v, (length (opt_if_nonempty c v) <= 1)%nat) as B by (intros c v; destruct v; cbn; lia).
  split; [repeat (apply Forall_app; split); apply A; lia|]. rewrite !opts_bytes_app, !app_length.
  pose proof (opts_bytes_nonempty 4 (sc_app sec)). pose proof (opts_bytes_nonempty 1 (sc_comment sec)).
  pose proof (opts_bytes_nonempty 2 (sc_hw sec)). pose proof (opts_bytes_nonempty 3 (sc_os sec)).
  pose proof (B 4 (sc_app sec)). pose proof (B 1 (sc_comment sec)). pose proof (B 2 (sc_hw sec)). pose proof (B 3 (sc_os sec)).
  split; lia.
Qed.

Definition shb_fixed : list Z := le_bytes 2 1 ++ le_bytes 2 0 ++ le_bytes 8 18446744073709551615.

Lemma enc_shb_shape sec : sec_ok sec ->
  let L := zlen (opts_enc (shb_options sec)) + 28 in
  enc_shb sec = [10;13;13;10] ++ le_bytes 4 L ++ [77;60;43;26] ++ shb_fixed ++ opts_enc (shb_options sec) ++ le_bytes 4 L
  /\ 28 <= L < 4294967296.
Proof.
  intros Hs. destruct (shb_options_ok sec Hs) as (_ & Hb & _). cbv zeta. unfold enc_shb. fold (shb_options sec).
  rewrite opts_size_small by lia.
  assert (match shb_options sec with [] => 0 | _ :: _ => opts_bytes (shb_options sec) + 4 end = zlen (opts_enc (shb_options sec))) as ->
    by (rewrite zlen_opts_enc; reflexivity).
  assert (0 <= zlen (opts_enc (shb_options sec)) <= opts_bytes (shb_options sec) + 4) as Hz
    by (rewrite zlen_opts_enc; destruct (shb_options sec); [cbn; lia|lia]).
  rewrite u32_small by lia.
  replace (zlen (opts_enc (shb_options sec)) + 24 + 4) with (zlen (opts_enc (shb_options sec)) + 28) by lia.
  change (le_bytes 4 BT_SHB) with [10;13;13;10]. change (le_bytes 4 BOM) with [77;60;43;26].
  split; [|lia]. unfold shb_fixed. repeat rewrite <- app_assoc. reflexivity.
Qed.

Lemma exec_readBlock_shb s L rest : r_big s = false -> 12 <= L < 4294967296 ->
  exec readBlock s ([10;13;13;10] ++ le_bytes 4 L ++ [77;60;43;26] ++ rest)
  = ((set_block s false BT_SHB (L - 12), Ok tt), rest).
Proof.
  intros Hbig HL. unfold exec, readBlock. cbn [run_d].
  rewrite (app_assoc [10;13;13;10]). rewrite zlen_app, zlen_app, zlen_le_bytes.
  pose proof (zlen_nonneg ([77;60;43;26] ++ rest)).
  change (zlen [10;13;13;10]) with 4.
  assert (8 <=? 4 + Z.of_nat 4 + zlen ([77;60;43;26] ++ rest) = true) as -> by lia.
  cbn [Z.leb Z.compare].
  replace (Z.to_nat 8) with (length ([10;13;13;10] ++ le_bytes 4 L)) by (rewrite app_length, le_bytes_length; reflexivity).
  rewrite firstn_app_exact, skipn_app_exact. rewrite Hbig. unfold getu.
  rewrite (sl_0 [10;13;13;10]) by reflexivity.
  change (le_val [10;13;13;10]) with BT_SHB. rewrite Z.eqb_refl.
  cbn [run_d]. cbn [Z.leb Z.compare].
  assert (4 <=? zlen ([77;60;43;26] ++ rest) = true) as -> by (rewrite zlen_app; change (zlen [77;60;43;26]) with 4; pose proof (zlen_nonneg rest); lia).
  change (Z.to_nat 4) with (length [77;60;43;26]). rewrite firstn_app_exact, skipn_app_exact.
  change (be_val [77;60;43;26] =? BOM) with false. change (le_val [77;60;43;26] =? BOM) with true. cbv iota.
  rewrite (sl_skip [10;13;13;10] _ 4 4 8) by (try reflexivity; lia). cbn [Nat.sub].
  rewrite sl_all by apply le_bytes_length.
  rewrite le_val_le_bytes by (change (256 ^ Z.of_nat 4) with 4294967296; lia).
  cbn [run_d]. rewrite u32_small by lia. replace (L - 8 - 4) with (L - 12) by lia. reflexivity.
Qed.

Lemma exec_newReader_any ro F sec rest : sec_ok sec -> (6 < F)%nat ->
  exists s', r_big s' = false /\ r_ifaces s' = [] /\ r_sect s' = sec /\ r_first s' = false
    /\ exec (newReader ro F) init_rst (enc_shb sec ++ rest)
       = if ro_mixed ro then ((s', Ok tt), rest) else exec (firstInterface ro F F) s' rest.
Proof.
  intros Hs HF. pose proof (enc_shb_shape sec Hs) as (Hshape & HL). cbv zeta in *.
  destruct (shb_options_ok sec Hs) as (Hok & Hb & Hlen).
  rewrite Hshape. repeat rewrite <- app_assoc.
  set (L := zlen (opts_enc (shb_options sec)) + 28) in *.
  unfold newReader. rewrite exec_bind.
  assert (forall s l, exec (fun s0 : rst => Peek2 (fun bs st => match st with
             | RsOk => Ret (s0, Ok bs) | RsEOF => Ret (s0, Err match bs with [] => 1 | _ :: _ => 2 end)
             | RsFail => Ret (s0, Err 3) end)) s (10 :: 13 :: l) = ((s, Ok [10;13]), 10 :: 13 :: l)) as Hp.
  { intros s l. unfold exec. cbn [run_d]. assert (2 <=? zlen (10 :: 13 :: l) = true) as -> by (unfold zlen; cbn [length]; lia). reflexivity. }
  cbn [app]. rewrite Hp. cbv iota beta. change ((nthZ [10; 13] 0 =? 31) && (nthZ [10; 13] 1 =? 139)) with false. cbv iota.
  change (10 :: 13 :: 13 :: 10 :: le_bytes 4 L ++ 77 :: 60 :: 43 :: 26 :: shb_fixed ++ opts_enc (shb_options sec) ++ le_bytes 4 L ++ rest)
    with ([10;13;13;10] ++ le_bytes 4 L ++ [77;60;43;26] ++ shb_fixed ++ opts_enc (shb_options sec) ++ le_bytes 4 L ++ rest).
  rewrite exec_bind, exec_readBlock_shb by (try reflexivity; lia). cbv iota beta.
  rewrite exec_bind, exec_sget. cbv iota beta. sim. rewrite Z.eqb_refl. cbn [negb].
  (* readSectionHeader *)
  unfold readSectionHeader. rewrite exec_bind, exec_smod. cbv iota beta.
  destruct F as [|f]; [lia|]. rewrite exec_bind. cbn [rsh_version].
  rewrite exec_bind, exec_rd_app by reflexivity. cbv iota beta.
  rewrite exec_bind, exec_sub_blen. cbv iota beta. rewrite exec_bind, exec_sget. cbv iota beta. sim.
  change (getu false (sl shb_fixed 0 2)) with 1. change (getu false (sl shb_fixed 2 4)) with 0. cbn [Z.eqb Pos.eqb andb].
  rewrite exec_sret. cbv iota beta.
  rewrite exec_bind.
  match goal with |- context [exec (shb_opts (S f) empty_sec) ?st _] =>
    destruct (exec_opts_written_shb (S f) (shb_options sec) empty_sec st (le_bytes 4 L ++ rest))
      as (s1 & E1 & B1 & K1); try assumption; try reflexivity; try lia;
      try (sim; rewrite u32_small by lia; subst L; lia) end.
  rewrite E1. cbv iota beta. rewrite shb_fold.
  rewrite exec_bind, exec_sget. cbv iota beta. rewrite B1.
  rewrite exec_bind, exec_disc_app by (rewrite zlen_le_bytes; reflexivity). cbv iota beta.
  rewrite exec_bind, exec_smod. cbv iota beta.
  destruct (core_fields _ _ K1) as (D1 & D2 & D3 & D4 & D5 & D6 & D7 & D8 & D9 & D10 & D11 & D12). sim.
  eexists. split; [|split; [|split; [|split]]]; cycle 4.
  { destruct (ro_mixed ro); [rewrite exec_sret|]; reflexivity. }
  all: sim; auto.
Qed.

Lemma exec_newReader ro F sec rest : ro_mixed ro = true -> sec_ok sec -> (6 < F)%nat ->
  exists s', exec (newReader ro F) init_rst (enc_shb sec ++ rest) = ((s', Ok tt), rest)
    /\ r_big s' = false /\ r_ifaces s' = [] /\ r_sect s' = sec.
Proof.
  intros Hmix Hs HF. destruct (exec_newReader_any ro F sec rest Hs HF) as (s' & P1 & P2 & P3 & P4 & E).
  rewrite Hmix in E. eauto.
Qed.

(* only the first interface's link type wanted: NewNgReader also reads the first interface *)
Lemma exec_newReader_unmixed ro F sec w rest : ro_mixed ro = false -> sec_ok sec -> wif_ok w -> (12 < F)%nat ->
  exists s', exec (newReader ro F) init_rst (enc_shb sec ++ enc_idb w ++ rest) = ((s', Ok tt), rest)
    /\ r_big s' = false /\ r_ifaces s' = [iface_of w] /\ r_link s' = wi_link w /\ r_sect s' = sec.
Proof.
  intros Hmix Hs Hw HF. destruct (exec_newReader_any ro F sec (enc_idb w ++ rest) Hs ltac:(lia)) as (s0 & P1 & P2 & P3 & P4 & E).
  rewrite Hmix in E. rewrite E. clear E.
  pose proof (enc_idb_shape w Hw) as (Hshape & Hz & HL). cbv zeta in *.
  rewrite Hshape. repeat rewrite <- app_assoc. set (L := zlen (opts_enc (idb_options w)) + 20) in *.
  destruct (exec_readIDB F (set_block s0 false 1 (L - 8)) w rest) as (s1 & Er & Q1 & Q2 & Q3 & Q4 & Q5 & Q6 & Q7);
    try assumption; try reflexivity; [pose proof (idb_options_len w); lia|sim; lia|].
  destruct F as [|f]; [lia|]. cbn [firstInterface].
  rewrite exec_bind, exec_readBlock_plain by (try assumption; try lia; unfold BT_SHB; lia). cbv iota beta.
  rewrite exec_bind, exec_sget. cbv iota beta. sim. cbn [Z.eqb Pos.eqb].
  rewrite exec_bind. repeat rewrite <- app_assoc in Er. fold L in Er. rewrite Er. cbv iota beta.
  rewrite exec_bind, exec_sget. cbv iota beta. sim. rewrite Q2, P2. cbn [app].
  rewrite Q4, P4. cbn [negb]. rewrite exec_smod.
  eexists; split; [reflexivity|]. sim. split; [exact Q1|]. split; [rewrite Q2, P2; reflexivity|]. split; [reflexivity|]. rewrite Q5; exact P3.
Qed.

(* ---------------------------------------------------------------- the writer accepts an ok script and writes its blocks *)
Lemma zlen_snoc {X} (l : list X) x : zlen (l ++ [x]) = zlen l + 1.
Proof. rewrite zlen_app. reflexivity. Qed.
Lemma zlen_map {X Y} (f : X -> Y) l : zlen (map f l) = zlen l.
Proof. unfold zlen. rewrite map_length. reflexivity. Qed.

Lemma wrun_ok : forall ops ws, ops_ok ws ops -> zlen ws + zlen ops < 4294967296 ->
  wrun (zlen ws) ops = map (fun op => (enc_op op, true)) ops.
Proof.
  induction ops as [|op t IH]; intros ws Hok Hb; [reflexivity|].
  replace (zlen (op :: t)) with (zlen t + 1) in Hb by (unfold zlen; cbn [length]; lia).
  pose proof (zlen_nonneg ws). pose proof (zlen_nonneg t).
  destruct op as [w|ifid ts caplen len data o|ifid st|ty pl]; cbn [ops_ok] in Hok; try contradiction.
  - destruct Hok as (Hw & Hok). cbn [wrun wstep map enc_op]. rewrite u32_small by lia.
    rewrite <- zlen_snoc with (x := w). rewrite IH; [reflexivity|exact Hok|rewrite zlen_snoc; lia].
  - destruct Hok as (Hwf & Hok). cbn [wrun wstep map enc_op].
    destruct Hwf as (_ & Hcap & Hcl & _ & _ & _ & Hid & i & _ & _ & _ & Hlt). rewrite zlen_map in Hlt.
    assert (zlen ws <=? ifid = false) as -> by lia. assert (ifid <? 0 = false) as -> by lia. cbn [orb].
    assert (caplen =? zlen data = true) as -> by lia. cbn [negb].
    assert (len <? caplen = false) as -> by lia.
    rewrite IH; [reflexivity|exact Hok|lia].
  - destruct Hok as (Hid & _ & Hok). cbn [wrun wstep map enc_op].
    assert (zlen ws <=? ifid = false) as -> by lia. assert (ifid <? 0 = false) as -> by lia. cbn [orb].
    rewrite IH; [reflexivity|exact Hok|lia].
  - destruct Hok as (Hty & _ & _ & Hok). cbn [wrun wstep map enc_op]. rewrite Hty.
    rewrite IH; [reflexivity|exact Hok|lia].
Qed.

Lemma write_file_shape sec i0 ops : ops_ok [] (WAddIf i0 :: ops) -> zlen ops < 4294967290 ->
  write_file sec i0 ops = enc_shb sec ++ enc_ops (WAddIf i0 :: ops)
  /\ Forall (fun r => snd r = true) (write_blocks sec i0 ops).
Proof.
  intros Hok Hb. cbn [ops_ok app] in Hok. destruct Hok as (Hw & Hok).
  unfold write_file, write_blocks. change 1 with (zlen [i0]).
  rewrite (wrun_ok ops [i0] Hok) by (change (zlen [i0]) with 1; lia).
  cbn [map concat fst]. rewrite map_map. cbn [fst]. split.
  - unfold enc_ops. cbn [map concat enc_op]. rewrite <- app_assoc. reflexivity.
  - constructor; [reflexivity|]. rewrite Forall_map. apply Forall_forall. intros; reflexivity.
Qed.

(* ---------------------------------------------------------------- sizes: the fuel the session gets is enough *)
Lemma opts_count l : 4 * zlen l <= opts_bytes l.
Proof.
  induction l as [|x t IH]; [cbn; lia|]. cbn [opts_bytes fold_right]. fold (opts_bytes t).
  replace (zlen (x :: t)) with (zlen t + 1) by (unfold zlen; cbn [length]; lia). pose proof (opt_size_pos x). lia.
Qed.

Lemma zlen_enc_idb w : wif_ok w -> 32 <= zlen (enc_idb w).
Proof.
  intros Hw. destruct (enc_idb_shape w Hw) as (E & _ & HL). cbv zeta in *. rewrite E.
  rewrite !zlen_app, !zlen_le_bytes. pose proof (zlen_nonneg (opts_enc (idb_options w))). lia.
Qed.

Lemma zlen_enc_epb ifs ifid ts caplen len data o : wf_packet ifs ifid ts caplen len data o ->
  32 <= zlen (enc_epb ifid ts caplen len data o) /\ 4 * zlen (popts_to_options o) <= zlen (enc_epb ifid ts caplen len data o).
Proof.
  intros Hw. destruct (enc_epb_shape _ _ _ _ _ _ _ Hw) as (E & HL & _). cbv zeta in *. rewrite E.
  rewrite !zlen_app, !zlen_le_bytes. pose proof (zlen_nonneg data). pose proof (pad4_range (zlen data)).
  rewrite zlen_zeros by lia. pose proof (opts_count (popts_to_options o)).
  assert (opts_bytes (popts_to_options o) <= zlen (opts_enc (popts_to_options o)) + 4)
    by (rewrite zlen_opts_enc; destruct (popts_to_options o); cbn [opts_bytes fold_right]; lia).
  lia.
Qed.

Lemma script_sizes : forall ops ws, ops_ok ws ops ->
  20 * zlen ops <= zlen (enc_ops ops)
  /\ Forall (fun op => match op with WPacket _ _ _ _ _ o => 4 * zlen (popts_to_options o) <= zlen (enc_ops ops) | _ => True end) ops.
Proof.
  induction ops as [|op t IH]; intros ws Hok; [split; [cbn; lia|constructor]|].
  replace (zlen (op :: t)) with (zlen t + 1) by (unfold zlen; cbn [length]; lia).
  unfold enc_ops. cbn [map concat]. rewrite zlen_app. fold (enc_ops t).
  destruct op as [w|ifid ts caplen len data o|ifid st|ty pl]; cbn [ops_ok] in Hok; try contradiction.
  - destruct Hok as (Hw & Hok). destruct (IH _ Hok) as (I1 & I2). pose proof (zlen_enc_idb w Hw). cbn [enc_op].
    split; [lia|]. constructor; [exact I|]. eapply Forall_impl; [|exact I2]. intros [] Ha; auto. lia.
  - destruct Hok as (Hw & Hok). destruct (IH _ Hok) as (I1 & I2). destruct (zlen_enc_epb _ _ _ _ _ _ _ Hw) as (Z1 & Z2). cbn [enc_op].
    pose proof (zlen_nonneg (enc_ops t)).
    split; [lia|]. constructor; [lia|]. eapply Forall_impl; [|exact I2]. intros [] Ha; auto. lia.
  - destruct Hok as (Hid & Hid2 & Hok). destruct (IH _ Hok) as (I1 & I2). cbn [enc_op].
    destruct (enc_isb_shape ifid st ltac:(lia)) as (E & HL & Hz). cbv zeta in *.
    assert (20 <= zlen (enc_isb ifid st)).
    { rewrite E. rewrite !zlen_app, !zlen_le_bytes, zlen_enc_ts. lia. }
    split; [lia|]. constructor; [exact I|]. eapply Forall_impl; [|exact I2]. intros [] Ha; auto. lia.
  - destruct Hok as (_ & Hty & Hpl & Hok). destruct (IH _ Hok) as (I1 & I2). cbn [enc_op].
    destruct (enc_dsb_shape ty pl Hty Hpl) as (E & HL & Hz). cbv zeta in *.
    assert (20 <= zlen (enc_dsb ty pl)) by (rewrite E; rewrite zlen_app, zlen_app, Hz, !zlen_le_bytes; lia).
    split; [lia|]. constructor; [exact I|]. eapply Forall_impl; [|exact I2]. intros [] Ha; auto. lia.
Qed.

(* ---------------------------------------------------------------- C14_ng_roundtrip for scripts of AddInterface / WritePacketWithOptions *)
Theorem roundtrip_file ro sec i0 ops :
  ro_mixed ro = true -> sec_ok sec -> ops_ok [] (WAddIf i0 :: ops) -> zlen ops < 4294967290 ->
  let r := write_cut_read ro sec i0 ops (length (write_file sec i0 ops)) in
  fst (fst (fst r)) = 0 /\ snd (fst r) = 1 /\ snd (fst (fst r)) = exp_pkts [] (WAddIf i0 :: ops).
Proof.
  intros Hmix Hsec Hok Hb. cbv zeta. unfold write_cut_read. rewrite firstn_all. rewrite session_flat_d.
  destruct (write_file_shape sec i0 ops Hok Hb) as (Hfile & _). rewrite Hfile.
  set (script := WAddIf i0 :: ops) in *.
  destruct (script_sizes script [] Hok) as (Sz1 & Sz2).
  destruct (enc_shb_shape sec Hsec) as (Eshb & HLs). cbv zeta in *.
  assert (28 <= zlen (enc_shb sec)) as Hshb.
  { rewrite Eshb. rewrite !zlen_app, !zlen_le_bytes. change (zlen [10;13;13;10]) with 4. change (zlen [77;60;43;26]) with 4.
    change (zlen shb_fixed) with 12. pose proof (zlen_nonneg (opts_enc (shb_options sec))). lia. }
  set (F := fuel_for (zlen (enc_shb sec ++ enc_ops script))).
  assert (Z.of_nat F = zlen (enc_shb sec) + zlen (enc_ops script) + 2) as HF
    by (unfold F, fuel_for; rewrite zlen_app; pose proof (zlen_nonneg (enc_ops script)); lia).
  unfold session. rewrite run_d_bind.
  change (run_d (newReader ro F init_rst) (enc_shb sec ++ enc_ops script)) with (exec (newReader ro F) init_rst (enc_shb sec ++ enc_ops script)).
  pose proof (zlen_nonneg (enc_ops script)) as Hnn. clearbody F.
  assert (6 < F)%nat as HF6 by lia.
  destruct (exec_newReader ro F sec (enc_ops script) Hmix Hsec HF6) as (s0 & E0 & Q1 & Q2 & Q3).
  rewrite E0. cbn [snd fst]. rewrite run_d_bind.
  assert (fuel_ok F script) as Hfo.
  { split; [lia|]. eapply Forall_impl; [|exact Sz2]. intros [] Ha; auto. unfold zlen in *. lia. }
  assert (zlen script = zlen ops + 1) as Hsl by (unfold script, zlen; cbn [length]; lia).
  assert (length script < F)%nat as HlF by (unfold zlen in *; lia).
  destruct (read_all_script ro F _ 1 [] Hmix (tail_ends_nil ro F _) (length script) script [] s0 [] F
              (le_n _) HlF HlF (conj Q1 (f_equal (map clear_stats) Q2)) Hok Hfo eq_refl) as (s' & l' & E).
  rewrite app_nil_r in E. rewrite E. cbn [fst snd run_d rev app]. repeat split; reflexivity.
Qed.
