(* Lemmas about the NTP codec model (Model/LntpModel.v). *)
From GP Require Import Base ListX Codec MiscLib LntpModel.
From Coq Require Import Lia ZifyBool ZifyNat.
Open Scope Z_scope.
Ltac Zify.zify_post_hook ::= Z.div_mod_to_equations.

Lemma ml_rd64_ok l i : 0 <= i -> i + 7 < zlen l ->
  ml_rd64 l i = Ok (((nth (Z.to_nat i) l 0 * 256 + nth (Z.to_nat (i + 1)) l 0) * 65536 +
                     (nth (Z.to_nat (i + 2)) l 0 * 256 + nth (Z.to_nat (i + 2 + 1)) l 0)) * 4294967296 +
                    ((nth (Z.to_nat (i + 4)) l 0 * 256 + nth (Z.to_nat (i + 4 + 1)) l 0) * 65536 +
                     (nth (Z.to_nat (i + 4 + 2)) l 0 * 256 + nth (Z.to_nat (i + 4 + 2 + 1)) l 0))).
Proof. intros. unfold ml_rd64. rewrite !ml_rd32_ok by lia. reflexivity. Qed.

Lemma ntp_decode_no_panic old data : is_panic (snd (fst (ntp_decode_into old data))) = false.
Proof.
  unfold ntp_decode_into. cbv zeta. destruct (zlen data <? 48) eqn:Hn; [reflexivity|].
  rewrite !cd_slc_ok by lia. rewrite !cd_idx_ok by lia. rewrite !ml_rd32_ok by lia. rewrite !ml_rd64_ok by lia. reflexivity.
Qed.

Ltac nstep :=
  match goal with
  | |- context [ml_bind ?o _ _ _] => destruct o eqn:?; cbn [ml_bind]
  | |- context [if ?c then _ else _] => destruct c eqn:?
  end.

Lemma ntp_decode_fresh old data :
  let r1 := ntp_decode_into old data in
  let r2 := ntp_decode_into ntp_fresh data in
  snd (fst r1) = snd (fst r2) /\ snd r1 = snd r2 /\
  (snd (fst r1) = Ok tt -> fst (fst r1) = fst (fst r2)).
Proof.
  cbv zeta. unfold ntp_decode_into. cbv zeta.
  repeat (nstep; try solve [cbn [fst snd]; split; [reflexivity | split; [reflexivity | try (intros X; discriminate X); try reflexivity]]]).
  all: try (cbn [fst snd]; split; [reflexivity | split; [reflexivity | intros _; reflexivity]]).
Qed.

Lemma ntp_hdr_len l : zlen (ntp_hdr l) = 48.
Proof. reflexivity. Qed.

Lemma ntp_serialize_spec l payload fixl csum junk :
  ntp_serialize l payload fixl csum junk = (Ok (ntp_hdr l ++ payload ++ n_ext l), l).
Proof.
  unfold ntp_serialize. pose proof (zlen_nonneg (n_ext l)) as Ne.
  pose proof (ml_tile_init 48 junk ltac:(lia)) as T.
  destruct (ml_tile_wrc _ _ (ntp_hdr l) _ 0 T eq_refl ltac:(rewrite ntp_hdr_len; change (zlen []) with 0; lia)) as [b [E T']].
  rewrite E. cbn [obind]. apply ml_tile_done in T'; [|reflexivity]. subst b.
  pose proof (ml_tile_init (zlen (n_ext l)) (skipn 48 junk) Ne) as T2.
  destruct (ml_tile_copy _ _ (n_ext l) _ 0 T2 eq_refl ltac:(change (zlen []) with 0; lia)) as [b2 [E2 T2']].
  rewrite E2. cbn [obind]. apply ml_tile_done in T2'; [|reflexivity]. subst b2. reflexivity.
Qed.

Lemma ntp_serialize_junk_free l payload fixl csum junk1 junk2 :
  ntp_serialize l payload fixl csum junk1 = ntp_serialize l payload fixl csum junk2.
Proof. rewrite !ntp_serialize_spec. reflexivity. Qed.

Lemma ntp_serialize_no_panic l payload fixl csum junk : is_panic (fst (ntp_serialize l payload fixl csum junk)) = false.
Proof. rewrite ntp_serialize_spec. reflexivity. Qed.

Definition ntp_wf (l : ntp) : Prop :=
  0 <= n_li l < 4 /\ 0 <= n_version l < 8 /\ 0 <= n_mode l < 8 /\ 0 <= n_stratum l < 256 /\
  -128 <= n_poll l < 128 /\ -128 <= n_precision l < 128 /\
  0 <= n_rootdelay l < 4294967296 /\ 0 <= n_rootdisp l < 4294967296 /\ 0 <= n_refid l < 4294967296 /\
  0 <= n_reft l < 18446744073709551616 /\ 0 <= n_origt l < 18446744073709551616 /\
  0 <= n_recvt l < 18446744073709551616 /\ 0 <= n_xmitt l < 18446744073709551616.

Lemma put64_be x : 0 <= x < 18446744073709551616 ->
  let h := (x / 4294967296) mod 4294967296 in let lo := x mod 4294967296 in
  (((h / 16777216) mod 256 * 256 + (h / 65536) mod 256) * 65536 + ((h / 256) mod 256 * 256 + h mod 256)) * 4294967296 +
  (((lo / 16777216) mod 256 * 256 + (lo / 65536) mod 256) * 65536 + ((lo / 256) mod 256 * 256 + lo mod 256)) = x.
Proof. intros H. cbv zeta. rewrite !ml_put32_be by lia. lia. Qed.

Lemma sint8_byte x : -128 <= x < 128 -> sint 8 (x mod 256) = x.
Proof. intros H. unfold sint. change (2 ^ 8) with 256. cbv zeta. rewrite Z.mod_mod by lia. change (256 / 2) with 128. destruct (x mod 256 <? 128) eqn:E; lia. Qed.

(* the decoder keeps no payload: everything behind the 48 octets is ExtensionBytes, so a payload
   under the layer comes back in front of the extensions *)
Lemma ntp_roundtrip l payload fixl csum junk bytes l' old :
  ntp_wf l -> ntp_serialize l payload fixl csum junk = (Ok bytes, l') ->
  l' = l /\ bytes = ntp_hdr l ++ payload ++ n_ext l /\
  ntp_decode_into old bytes =
    (mkNtp bytes [] (n_li l) (n_version l) (n_mode l) (n_stratum l) (n_poll l) (n_precision l) (n_rootdelay l) (n_rootdisp l)
           (n_refid l) (n_reft l) (n_origt l) (n_recvt l) (n_xmitt l) (payload ++ n_ext l), Ok tt, false).
Proof.
  intros [H1 [H2 [H3 [H4 [H5 [H6 [H7 [H8 [H9 [H10 [H11 [H12 H13]]]]]]]]]]]]. rewrite ntp_serialize_spec. intros X.
  assert (E1 : bytes = ntp_hdr l ++ payload ++ n_ext l) by congruence. assert (E2 : l' = l) by congruence. clear X.
  split; [exact E2|]. split; [exact E1|]. clear E2 l'.
  set (tl := payload ++ n_ext l) in *. pose proof (zlen_nonneg tl) as Nt.
  assert (Hn : zlen bytes = 48 + zlen tl) by (rewrite E1, zlen_app, ntp_hdr_len; reflexivity).
  assert (HnthZ : forall k, 0 <= k < 48 -> nth (Z.to_nat k) bytes 0 = nth (Z.to_nat k) (ntp_hdr l) 0).
  { intros k Hk. rewrite E1. apply app_nth1. change (length (ntp_hdr l)) with 48%nat. lia. }
  unfold ntp_decode_into. cbv zeta. destruct (zlen bytes <? 48) eqn:C; [lia|].
  rewrite !cd_slc_ok by lia. rewrite !cd_idx_ok by lia. rewrite !ml_rd32_ok by lia. rewrite !ml_rd64_ok by lia. cbn [ml_bind].
  rewrite !HnthZ by lia.
  assert (S1 : slice bytes (Z.to_nat 0) (Z.to_nat (zlen bytes)) = bytes).
  { unfold slice. change (Z.to_nat 0) with 0%nat. cbn [skipn]. apply firstn_all2. unfold zlen. lia. }
  assert (S2 : slice bytes (Z.to_nat 48) (Z.to_nat (zlen bytes)) = tl).
  { rewrite Hn, E1. apply slice_to_end; [reflexivity|]. change (length (ntp_hdr l)) with 48%nat. unfold zlen. lia. }
  rewrite S1, S2.
  repeat match goal with |- context [Z.to_nat ?k] => let v := eval vm_compute in (Z.to_nat k) in change (Z.to_nat k) with v end.
  unfold ntp_hdr, ml_put64. cbn [nth app ml_put32].
  pose proof (put64_be (n_reft l) H10) as P1. pose proof (put64_be (n_origt l) H11) as P2.
  pose proof (put64_be (n_recvt l) H12) as P3. pose proof (put64_be (n_xmitt l) H13) as P4. cbv zeta in P1, P2, P3, P4.
  rewrite P1, P2, P3, P4. rewrite !ml_put32_be by lia.
  rewrite (sint8_byte _ H5), (sint8_byte _ H6).
  f_equal. f_equal. f_equal; lia.
Qed.

Lemma ntp_decoded_wf old data l tr : bytes_ok data -> ntp_decode_into old data = (l, Ok tt, tr) -> ntp_wf l.
Proof.
  intros Hb. unfold ntp_decode_into. cbv zeta. destruct (zlen data <? 48) eqn:Hn; [discriminate|].
  rewrite !cd_slc_ok by lia. rewrite !cd_idx_ok by lia. rewrite !ml_rd32_ok by lia. rewrite !ml_rd64_ok by lia. cbn [ml_bind].
  intros X. match type of X with (?t, _, _) = _ => assert (El : l = t) by congruence end. subst l. clear X.
  assert (B : forall k, 0 <= nth k data 0 < 256) by (intros; apply bytes_ok_nth; exact Hb).
  unfold ntp_wf. cbn [n_li n_version n_mode n_stratum n_poll n_precision n_rootdelay n_rootdisp n_refid n_reft n_origt n_recvt n_xmitt].
  unfold sint. change (2 ^ 8) with 256. cbv zeta. change (256 / 2) with 128.
  repeat match goal with |- context [nth ?k data 0] => let H := fresh "Bk" in pose proof (B k) as H; set (nth k data 0) in * end.
  repeat split; try lia.
  all: try (match goal with |- context [if ?c then _ else _] => destruct c eqn:? end; lia).
Qed.
