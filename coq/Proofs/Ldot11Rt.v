(* Ldot11 — explicit output of Dot11.SerializeTo on well-formed values and the round trip in its true form *)
From GP Require Import Base ListX Codec CodecBits MiscLib Ldot11Model Ldot11Proofs.
From Coq Require Import Lia ZifyBool ZifyNat.
Open Scope Z_scope.
Ltac Zify.zify_post_hook ::= Z.div_mod_to_equations.

Ltac zl := rewrite ?zlen_app, ?zlen_cons, ?zlen_nil; try lia.

Definition d11_mid (l : dot11) : list Z :=
  let ty := d_type l in let main := ty mod 4 in
  if main =? 1 then (if d11_ctrl_a2 ty then d_a2 l else [])
  else if (main =? 0) || (main =? 2) then (d_a2 l ++ d_a3 l) ++ d11_put16 (Z.lor ((d_seq l * 16) mod 65536) (d_frag l))
  else [].
Definition d11_hdr (l : dot11) : list Z :=
  ((([Z.lor ((d_type l * 4) mod 256) (d_proto l); d_flags l] ++ d11_put16 (d_dur l)) ++ d_a1 l) ++ d11_mid l) ++
  (if (d_type l mod 4 =? 2) && bitb (d_flags l) 1 && bitb (d_flags l) 0 then d_a4 l else []).

(* the addresses the frame type carries have 6 octets *)
Definition d11_addrs_ok (l : dot11) : Prop :=
  let ty := d_type l in let main := ty mod 4 in
  zlen (d_a1 l) = 6 /\
  ((main =? 0) || (main =? 2) || ((main =? 1) && d11_ctrl_a2 ty) = true -> zlen (d_a2 l) = 6) /\
  ((main =? 0) || (main =? 2) = true -> zlen (d_a3 l) = 6) /\
  ((main =? 2) && bitb (d_flags l) 1 && bitb (d_flags l) 0 = true -> zlen (d_a4 l) = 6).

Lemma firstn6 (a : list Z) : zlen a = 6 -> firstn 6 a = a.
Proof. intros H. apply firstn_all2. unfold zlen in H. lia. Qed.

Lemma d11_copy6_tile b pre a n : ml_tiled b pre n -> zlen a = 6 -> zlen pre + 6 <= n ->
  exists b', d11_copy6 b (zlen pre) a = Ok b' /\ ml_tiled b' (pre ++ a) n.
Proof.
  intros T Ha Hl. unfold d11_copy6. pose proof (zlen_nonneg pre).
  rewrite cd_slc_ok by (destruct T as [_ L]; lia). cbn [obind]. rewrite firstn6 by exact Ha.
  apply ml_tile_wrc; [exact T|reflexivity|lia].
Qed.

Lemma repeat_tiled n : 0 <= n -> ml_tiled (repeat 0 (Z.to_nat n)) [] n.
Proof. intros. split; [eexists; reflexivity|]. unfold zlen. rewrite repeat_length. lia. Qed.

Theorem d11_serialize_eq l payload fixl csum junk : d11_addrs_ok l ->
  d11_serialize l payload fixl csum junk = (Ok (d11_hdr l ++ payload), l).
Proof.
  intros (H1 & H2 & H3 & H4). unfold d11_serialize. rewrite d11_zeroed.
  pose proof (d11_hdr_len_nonneg l) as HL. pose proof (repeat_tiled (d11_hdr_len l) ltac:(lia)) as T.
  set (buf := repeat 0 (Z.to_nat (d11_hdr_len l))) in *.
  unfold d11_hdr, d11_mid. unfold d11_hdr_len in *.
  set (c1 := d_type l mod 4 =? 1) in *. set (c2 := d11_ctrl_a2 (d_type l)) in *.
  set (c3 := (d_type l mod 4 =? 0) || (d_type l mod 4 =? 2)) in *.
  set (c4 := (d_type l mod 4 =? 2) && bitb (d_flags l) 1 && bitb (d_flags l) 0) in *.
  set (len := 10 + _ + _) in *.
  set (B0 := Z.lor _ (d_proto l)). set (SC := Z.lor _ (d_frag l)).
  destruct (ml_tile_wrc buf [] [B0; d_flags l] len 0 T eq_refl ltac:(zl)) as (b1 & E1 & T1). rewrite E1. cbn [obind]. clear E1.
  rewrite cd_slc_ok by (destruct T1 as [_ L]; lia). cbn [obind].
  assert (A2 : zlen ([] ++ [B0; d_flags l]) + zlen (d11_put16 (d_dur l)) <= len) by (change (zlen (d11_put16 (d_dur l))) with 2; zl).
  destruct (ml_tile_wrc b1 _ (d11_put16 (d_dur l)) len 2 T1 eq_refl A2) as (b2 & E2 & T2). rewrite E2. cbn [obind]. clear E2.
  assert (A3 : zlen (([] ++ [B0; d_flags l]) ++ d11_put16 (d_dur l)) + 6 <= len) by (zl; change (zlen (d11_put16 (d_dur l))) with 2; lia).
  destruct (d11_copy6_tile b2 _ (d_a1 l) len T2 H1 A3) as (b3 & E3 & T3).
  change (zlen (([] ++ [B0; d_flags l]) ++ d11_put16 (d_dur l))) with 4 in E3. rewrite E3. cbn [obind]. clear E3.
  set (pre10 := (([] ++ [B0; d_flags l]) ++ d11_put16 (d_dur l)) ++ d_a1 l) in *.
  assert (P10 : zlen pre10 = 10) by (unfold pre10; rewrite zlen_app, H1; reflexivity).
  assert (M : exists b4 mid off, (if c1 then (if c2 then obind (d11_copy6 b3 10 (d_a2 l)) (fun b => Ok (b, 16)) else Ok (b3, 10))
       else if c3 then obind (d11_copy6 b3 10 (d_a2 l)) (fun buf0 => obind (d11_copy6 buf0 16 (d_a3 l)) (fun buf1 =>
            obind (cd_slc buf1 22 24) (fun _ => obind (ml_wrc buf1 22 (d11_put16 SC)) (fun buf2 => Ok (buf2, 24)))))
       else Ok (b3, 10)) = Ok (b4, off) /\ ml_tiled b4 (pre10 ++ mid) len /\ off = 10 + zlen mid /\
       mid = (if c1 then if c2 then d_a2 l else [] else if c3 then (d_a2 l ++ d_a3 l) ++ d11_put16 SC else [])).
  { destruct c1.
    - destruct c2.
      + assert (Ha2 : zlen (d_a2 l) = 6) by (apply H2; destruct c3; reflexivity).
        destruct (d11_copy6_tile b3 pre10 (d_a2 l) len T3 Ha2 ltac:(unfold len; destruct c4; lia)) as (b4 & E4 & T4).
        rewrite P10 in E4. rewrite E4. cbn [obind]. exists b4, (d_a2 l), 16. split; [reflexivity|]. split; [exact T4|]. split; [lia|reflexivity].
      + exists b3, [], 10. rewrite app_nil_r. split; [reflexivity|]. split; [exact T3|]. split; reflexivity.
    - destruct c3.
      + assert (Ha2 : zlen (d_a2 l) = 6) by (apply H2; reflexivity). assert (Ha3 : zlen (d_a3 l) = 6) by (apply H3; reflexivity).
        destruct (d11_copy6_tile b3 pre10 (d_a2 l) len T3 Ha2 ltac:(unfold len; destruct c4; lia)) as (b4 & E4 & T4).
        rewrite P10 in E4. rewrite E4. cbn [obind].
        assert (P16 : zlen (pre10 ++ d_a2 l) = 16) by (rewrite zlen_app; lia).
        destruct (d11_copy6_tile b4 _ (d_a3 l) len T4 Ha3 ltac:(unfold len; destruct c4; lia)) as (b5 & E5 & T5).
        rewrite P16 in E5. rewrite E5. cbn [obind].
        rewrite cd_slc_ok by (destruct T5 as [_ L]; unfold len in L; destruct c4; lia). cbn [obind].
        assert (P22 : zlen ((pre10 ++ d_a2 l) ++ d_a3 l) = 22) by (rewrite zlen_app; lia).
        destruct (ml_tile_wrc b5 _ (d11_put16 SC) len 22 T5 ltac:(lia) ltac:(change (zlen (d11_put16 SC)) with 2; unfold len; destruct c4; lia))
          as (b6 & E6 & T6). rewrite E6. cbn [obind].
        exists b6, ((d_a2 l ++ d_a3 l) ++ d11_put16 SC), 24. split; [reflexivity|]. split; [|split; [|reflexivity]].
        * rewrite !app_assoc. exact T6.
        * rewrite !zlen_app. change (zlen (d11_put16 SC)) with 2. lia.
      + exists b3, [], 10. rewrite app_nil_r. split; [reflexivity|]. split; [exact T3|]. split; reflexivity. }
  destruct M as (b4 & mid & off & EM & T4 & Eoff & Emid). rewrite EM. cbn [obind fst snd]. rewrite <- Emid.
  assert (Lmid : 10 + zlen mid + (if c4 then 6 else 0) = len).
  { unfold len. rewrite Emid. destruct c1, c2, c3; rewrite ?zlen_app; change (zlen (d11_put16 SC)) with 2; rewrite ?zlen_nil;
      try (rewrite (H2 eq_refl)); try (rewrite (H3 eq_refl)); try lia.
    all: try (assert (zlen (d_a2 l) = 6) by (apply H2; reflexivity); lia). }
  assert (P : zlen (pre10 ++ mid) = off) by (rewrite zlen_app; lia).
  destruct c4.
  - assert (Ha4 : zlen (d_a4 l) = 6) by (apply H4; reflexivity).
    destruct (d11_copy6_tile b4 _ (d_a4 l) len T4 Ha4 ltac:(lia)) as (b5 & E5 & T5). rewrite P in E5. rewrite E5.
    rewrite (ml_tile_done _ _ _ T5 ltac:(rewrite zlen_app; lia)). reflexivity.
  - rewrite (ml_tile_done _ _ _ T4 ltac:(lia)). rewrite app_nil_r. reflexivity.
Qed.

(* ---------------------------------------------------------------- decoding header ++ payload *)
Lemma slc_mid (pre m post : list Z) a b : a = zlen pre -> b = zlen pre + zlen m -> cd_slc (pre ++ m ++ post) a b = Ok m.
Proof.
  intros -> ->. pose proof (zlen_nonneg pre). pose proof (zlen_nonneg m). pose proof (zlen_nonneg post).
  rewrite cd_slc_ok by zl. f_equal. apply slice_at; unfold zlen; lia.
Qed.
Lemma slc_head (pre post : list Z) b : b = zlen pre -> cd_slc (pre ++ post) 0 b = Ok pre.
Proof.
  intros ->. pose proof (zlen_nonneg pre). pose proof (zlen_nonneg post). rewrite cd_slc_ok by zl. f_equal.
  apply slice_from_start. unfold zlen. lia.
Qed.
Lemma slc_tail_firstn (pre post : list Z) a k : a = zlen pre -> 0 <= k <= zlen post ->
  cd_slc (pre ++ post) a (a + k) = Ok (firstn (Z.to_nat k) post).
Proof.
  intros -> Hk. pose proof (zlen_nonneg pre). rewrite cd_slc_ok by zl. f_equal.
  unfold slice, zlen. rewrite Nat2Z.id. rewrite firstn_app. rewrite firstn_all2 by lia.
  rewrite skipn_app, skipn_all, Nat.sub_diag. cbn [app skipn]. f_equal. lia.
Qed.
Lemma idx_at (pre : list Z) x post i : i = zlen pre -> cd_idx (pre ++ x :: post) i = Ok x.
Proof.
  intros ->. pose proof (zlen_nonneg pre). rewrite cd_idx_ok by (zl; pose proof (zlen_nonneg post); lia). f_equal.
  unfold zlen. rewrite Nat2Z.id. rewrite app_nth2 by lia. rewrite Nat.sub_diag. reflexivity.
Qed.
Lemma idx_shift (pre post : list Z) i : 0 <= i -> cd_idx (pre ++ post) (zlen pre + i) = cd_idx post i.
Proof.
  intros Hi. pose proof (zlen_nonneg pre). unfold cd_idx. rewrite zlen_app.
  destruct (0 <=? i) eqn:A; [|lia]. destruct (0 <=? zlen pre + i) eqn:B; [|lia].
  destruct (i <? zlen post) eqn:C, (zlen pre + i <? zlen pre + zlen post) eqn:D; try lia; cbn [andb]; [|reflexivity].
  f_equal. rewrite app_nth2 by (unfold zlen in *; lia). f_equal. unfold zlen. lia.
Qed.

Lemma le32_shift (pre post : list Z) i : 0 <= i -> i + 4 <= zlen post ->
  d11_le32 (pre ++ post) (zlen pre + i) = d11_le32 post i.
Proof.
  intros Hi Hl. pose proof (zlen_nonneg pre). unfold d11_le32.
  rewrite !cd_slc_ok by zl. cbn [obind].
  replace (zlen pre + i + 1) with (zlen pre + (i + 1)) by lia. replace (zlen pre + i + 2) with (zlen pre + (i + 2)) by lia.
  replace (zlen pre + i + 3) with (zlen pre + (i + 3)) by lia. rewrite !idx_shift by lia. reflexivity.
Qed.

Section Tail.
Variables (old : dot11) (ty proto flags dur : Z) (a1 a2 a3 a4 : list Z) (seq frag : Z).

Lemma d11_tail_eval hdr payload : 4 <= zlen payload -> (ty mod 4 =? 2) && (ty =? 54) = false ->
  exists cs, d11_le32 payload (zlen payload - 4) = Ok cs /\
  d11_tail old (hdr ++ payload) ty proto flags dur a1 a2 a3 a4 seq frag None None (zlen hdr) =
    (mkD11 hdr (firstn (Z.to_nat (zlen payload - 4)) payload) ty proto flags dur a1 a2 a3 a4 seq frag cs None None (ty mod 4 =? 2), Ok tt, false).
Proof.
  intros Hp H54. pose proof (zlen_nonneg hdr).
  assert (exists cs, d11_le32 payload (zlen payload - 4) = Ok cs) as [cs Ecs].
  { unfold d11_le32. rewrite cd_slc_ok by lia. cbn [obind]. rewrite !cd_idx_ok by lia. cbn [obind]. eexists; reflexivity. }
  exists cs. split; [exact Ecs|]. unfold d11_tail. rewrite zlen_app.
  destruct (zlen hdr + zlen payload <? zlen hdr + 4) eqn:E; [lia|].
  rewrite slc_head by reflexivity. cbn [ml_bind].
  replace (zlen hdr + zlen payload - 4) with (zlen hdr + (zlen payload - 4)) by lia.
  rewrite slc_tail_firstn by lia. cbn [ml_bind]. rewrite H54.
  rewrite le32_shift by lia. rewrite Ecs. cbn [ml_bind]. reflexivity.
Qed.

(* no QoS control, no HT control: the two stages fall through *)
Lemma d11_qos_stage_skip data off : d11_is_qos ty = false -> bitb flags 7 && (ty mod 4 =? 0) = false ->
  d11_qos_stage old data ty proto flags dur a1 a2 a3 a4 seq frag off = d11_tail old data ty proto flags dur a1 a2 a3 a4 seq frag None None off.
Proof.
  intros Hq Hh. unfold d11_qos_stage, d11_htc_stage. rewrite Hq. cbn [orb].
  destruct (bitb flags 7); cbn [andb] in *; [rewrite Hh|]; reflexivity.
Qed.
End Tail.

Section A4.
Variables (old : dot11) (ty proto flags dur : Z) (a1 : list Z).
Hypothesis NQ : d11_is_qos ty = false.
Hypothesis NH : bitb flags 7 && (ty mod 4 =? 0) = false.
Hypothesis N54 : (ty mod 4 =? 2) && (ty =? 54) = false.

Lemma d11_a4_eval a2 a3 a4 seq frag pre payload : 4 <= zlen payload ->
  ((ty mod 4 =? 2) && bitb flags 1 && bitb flags 0 = true -> zlen a4 = 6) ->
  ((ty mod 4 =? 2) && bitb flags 1 && bitb flags 0 = false -> a4 = []) ->
  exists cs, d11_le32 payload (zlen payload - 4) = Ok cs /\
  d11_a4_stage old ((pre ++ a4) ++ payload) ty proto flags dur a1 a2 a3 seq frag (zlen pre) =
    (mkD11 (pre ++ a4) (firstn (Z.to_nat (zlen payload - 4)) payload) ty proto flags dur a1 a2 a3 a4 seq frag cs None None (ty mod 4 =? 2), Ok tt, false).
Proof.
  intros Hp H6 H0. pose proof (zlen_nonneg pre).
  destruct (d11_tail_eval old ty proto flags dur a1 a2 a3 a4 seq frag (pre ++ a4) payload Hp N54) as (cs & Ecs & ET).
  exists cs. split; [exact Ecs|]. unfold d11_a4_stage.
  destruct ((ty mod 4 =? 2) && bitb flags 1 && bitb flags 0) eqn:C4.
  - specialize (H6 eq_refl). rewrite !zlen_app. destruct (zlen pre + zlen a4 + zlen payload <? zlen pre + 6) eqn:E; [lia|].
    rewrite <- app_assoc. rewrite slc_mid by lia. cbn [ml_bind]. rewrite app_assoc.
    rewrite d11_qos_stage_skip by assumption. replace (zlen pre + 6) with (zlen (pre ++ a4)) by (rewrite zlen_app; lia). exact ET.
  - specialize (H0 eq_refl). subst a4. rewrite app_nil_r in *. rewrite d11_qos_stage_skip by assumption. exact ET.
Qed.
End A4.

(* ---------------------------------------------------------------- the domain and the round trip *)
Definition d11_addr6 (a : list Z) : bool := (zlen a =? 6) && bytes_okb a.
Definition d11_nil (a : list Z) : bool := match a with [] => true | _ => false end.
Definition d11_wfb (l : dot11) : bool :=
  let ty := d_type l in let main := ty mod 4 in let fl := d_flags l in
  let a2 := (main =? 0) || (main =? 2) || ((main =? 1) && d11_ctrl_a2 ty) in
  let a3 := (main =? 0) || (main =? 2) in
  let a4 := (main =? 2) && bitb fl 1 && bitb fl 0 in
  (0 <=? ty) && (ty <? 64) && (0 <=? d_proto l) && (d_proto l <? 4) && (0 <=? fl) && (fl <? 256) &&
  (0 <=? d_dur l) && (d_dur l <? 65536) &&
  negb (d11_is_qos ty) && negb (ty =? 54) && negb (bitb fl 7 && (main =? 0)) &&
  d11_addr6 (d_a1 l) && (if a2 then d11_addr6 (d_a2 l) else d11_nil (d_a2 l)) &&
  (if a3 then d11_addr6 (d_a3 l) else d11_nil (d_a3 l)) && (if a4 then d11_addr6 (d_a4 l) else d11_nil (d_a4 l)) &&
  (if a3 then (0 <=? d_seq l) && (d_seq l <? 4096) && (0 <=? d_frag l) && (d_frag l <? 16) else (d_seq l =? 0) && (d_frag l =? 0)).

Lemma d11_addr6_len a : d11_addr6 a = true -> zlen a = 6.
Proof. unfold d11_addr6. intros H. apply andb_prop in H. lia. Qed.
Lemma d11_nil_eq a : d11_nil a = true -> a = [].
Proof. destruct a; [reflexivity|discriminate]. Qed.

Lemma d11_wfb_spec l : d11_wfb l = true ->
  let ty := d_type l in let main := ty mod 4 in let fl := d_flags l in
  0 <= ty < 64 /\ 0 <= d_proto l < 4 /\ 0 <= fl < 256 /\ 0 <= d_dur l < 65536 /\
  d11_is_qos ty = false /\ (ty =? 54) = false /\ bitb fl 7 && (main =? 0) = false /\ zlen (d_a1 l) = 6 /\
  (if (main =? 0) || (main =? 2) || ((main =? 1) && d11_ctrl_a2 ty) then d11_addr6 (d_a2 l) else d11_nil (d_a2 l)) = true /\
  (if (main =? 0) || (main =? 2) then d11_addr6 (d_a3 l) else d11_nil (d_a3 l)) = true /\
  (if (main =? 2) && bitb fl 1 && bitb fl 0 then d11_addr6 (d_a4 l) else d11_nil (d_a4 l)) = true /\
  (if (main =? 0) || (main =? 2) then (0 <=? d_seq l) && (d_seq l <? 4096) && (0 <=? d_frag l) && (d_frag l <? 16)
   else (d_seq l =? 0) && (d_frag l =? 0)) = true.
Proof.
  unfold d11_wfb. cbv zeta. intros W.
  repeat match goal with H : _ && _ = true |- _ => apply andb_prop in H; destruct H end.
  repeat match goal with H : negb _ = true |- _ => apply negb_true_iff in H end.
  repeat split; try lia; try assumption. apply d11_addr6_len; assumption.
Qed.

Lemma d11_b0 ty proto : 0 <= ty < 64 -> 0 <= proto < 4 -> Z.lor ((ty * 4) mod 256) proto = ty * 4 + proto.
Proof. intros. rewrite Z.mod_small by lia. apply (cd_lor_disjoint ty proto 2); lia. Qed.
Lemma d11_sc seq frag : 0 <= seq < 4096 -> 0 <= frag < 16 -> Z.lor ((seq * 16) mod 65536) frag = seq * 16 + frag.
Proof. intros. rewrite Z.mod_small by lia. apply (cd_lor_disjoint seq frag 4); lia. Qed.

Theorem d11_roundtrip l payload fixl csum junk bytes l' old :
  d11_wfb l = true -> 4 <= zlen payload -> d11_serialize l payload fixl csum junk = (Ok bytes, l') ->
  exists cs, d11_le32 payload (zlen payload - 4) = Ok cs /\
    d11_decode_into old bytes =
      (mkD11 (d11_hdr l) (firstn (Z.to_nat (zlen payload - 4)) payload) (d_type l) (d_proto l) (d_flags l) (d_dur l)
             (d_a1 l) (d_a2 l) (d_a3 l) (d_a4 l) (d_seq l) (d_frag l) cs None None (d_type l mod 4 =? 2), Ok tt, false).
Proof.
  intros W Hp E. destruct (d11_wfb_spec l W) as (Rty & Rpr & Rfl & Rdu & NQ & N54 & NH & A1 & X2 & X3 & X4 & X5). cbv zeta in *.
  set (ty := d_type l) in *. set (fl := d_flags l) in *. set (m := ty mod 4) in *.
  assert (N54' : (m =? 2) && (ty =? 54) = false) by (rewrite N54; apply andb_false_r).
  (* the addresses and the sequence control, by frame type *)
  assert (AO : d11_addrs_ok l).
  { unfold d11_addrs_ok. cbv zeta. fold ty fl m. repeat split; [exact A1|intros C; rewrite C in X2|intros C; rewrite C in X3|intros C; rewrite C in X4];
      apply d11_addr6_len; assumption. }
  rewrite (d11_serialize_eq l payload fixl csum junk AO) in E.
  assert (EB : bytes = d11_hdr l ++ payload) by congruence. subst bytes. clear E.
  pose proof (zlen_nonneg payload) as Pp.
  (* the sequence control octets and the shape of the middle part *)
  set (c4 := (m =? 2) && bitb fl 1 && bitb fl 0) in *.
  assert (E4 : (if c4 then d_a4 l else []) = d_a4 l /\ (c4 = true -> zlen (d_a4 l) = 6) /\ (c4 = false -> d_a4 l = [])).
  { destruct c4; [split; [reflexivity|split; [intros _; apply d11_addr6_len; exact X4|discriminate]]|].
    apply d11_nil_eq in X4. rewrite X4. repeat split; try reflexivity; discriminate. }
  destruct E4 as (E4 & L4 & Z4).
  pose (H4 := [ty * 4 + d_proto l; fl] ++ d11_put16 (d_dur l)). pose (pre10 := H4 ++ d_a1 l). pose (mid := d11_mid l).
  assert (P10 : zlen pre10 = 10) by (unfold pre10; rewrite zlen_app, A1; reflexivity).
  assert (EH : d11_hdr l = (pre10 ++ mid) ++ d_a4 l).
  { unfold d11_hdr. fold ty fl m c4. rewrite E4. rewrite (d11_b0 ty (d_proto l) Rty Rpr). reflexivity. }
  rewrite EH. set (data := ((pre10 ++ mid) ++ d_a4 l) ++ payload).
  assert (ED : data = [ty * 4 + d_proto l; fl; d_dur l mod 256; (d_dur l / 256) mod 256] ++ d_a1 l ++ (mid ++ d_a4 l ++ payload)).
  { unfold data, pre10, H4, d11_put16. rewrite <- !app_assoc. reflexivity. }
  pose proof (zlen_nonneg mid) as Pm. pose proof (zlen_nonneg (d_a4 l)) as P4.
  assert (Ln : zlen data = 10 + zlen mid + zlen (d_a4 l) + zlen payload) by (unfold data; rewrite !zlen_app; lia).
  unfold d11_decode_into. destruct (zlen data <? 10) eqn:E10; [lia|].
  assert (I0 : cd_idx data 0 = Ok (ty * 4 + d_proto l)) by (rewrite ED; apply (idx_at [] _ _ 0); reflexivity).
  assert (I1 : cd_idx data 1 = Ok fl) by (rewrite ED; apply (idx_at [_] _ _ 1); reflexivity).
  assert (I2 : cd_idx data 2 = Ok (d_dur l mod 256)) by (rewrite ED; apply (idx_at [_; _] _ _ 2); reflexivity).
  assert (I3 : cd_idx data (2 + 1) = Ok ((d_dur l / 256) mod 256)) by (rewrite ED; apply (idx_at [_; _; _] _ _ (2 + 1)); reflexivity).
  assert (L2 : d11_le16 data 2 = Ok (d_dur l)).
  { unfold d11_le16. rewrite cd_slc_ok by lia. cbn [obind]. rewrite I2. cbn [obind]. rewrite I3. cbn [obind]. f_equal. lia. }
  assert (S4 : cd_slc data 4 10 = Ok (d_a1 l)) by (rewrite ED; apply slc_mid; [reflexivity|rewrite A1; reflexivity]).
  rewrite I0, I1. cbn [ml_bind]. rewrite L2. cbn [ml_bind]. rewrite S4. cbn [ml_bind].
  replace ((ty * 4 + d_proto l) / 4) with ty by lia. replace ((ty * 4 + d_proto l) mod 4) with (d_proto l) by lia.
  (* the address stage, by frame type *)
  unfold d11_addr_stage. fold m.
  destruct (m =? 1) eqn:C1.
  - assert (C0 : (m =? 0) = false) by lia. assert (C2 : (m =? 2) = false) by lia.
    rewrite C0, C2 in X2, X3, X5. cbn [orb andb] in X2, X3, X5.
    apply d11_nil_eq in X3. apply andb_prop in X5. destruct X5 as [X5 X6].
    assert (Es : d_seq l = 0) by lia. assert (Ef : d_frag l = 0) by lia. rewrite X3, Es, Ef.
    destruct (d11_ctrl_a2 ty) eqn:CA.
    + apply d11_addr6_len in X2.
      assert (Emid : mid = d_a2 l) by (unfold mid, d11_mid; fold ty m; rewrite C1, CA; reflexivity).
      rewrite Emid in Ln. destruct (zlen data <? 16) eqn:E16; [lia|].
      assert (S10 : cd_slc data 10 16 = Ok (d_a2 l)) by (unfold data; rewrite Emid, <- !app_assoc; apply slc_mid; lia).
      rewrite S10. cbn [ml_bind].
      destruct (d11_a4_eval old ty (d_proto l) fl (d_dur l) (d_a1 l) NQ NH N54' (d_a2 l) [] (d_a4 l) 0 0 (pre10 ++ d_a2 l) payload Hp L4 Z4)
        as (cs & Ecs & EV).
      exists cs. split; [exact Ecs|]. unfold data. rewrite Emid. replace 16 with (zlen (pre10 ++ d_a2 l)) by (rewrite zlen_app; lia). exact EV.
    + apply d11_nil_eq in X2. rewrite X2.
      assert (Emid : mid = []) by (unfold mid, d11_mid; fold ty m; rewrite C1, CA; reflexivity).
      destruct (d11_a4_eval old ty (d_proto l) fl (d_dur l) (d_a1 l) NQ NH N54' [] [] (d_a4 l) 0 0 (pre10 ++ []) payload Hp L4 Z4)
        as (cs & Ecs & EV).
      exists cs. split; [exact Ecs|]. unfold data. rewrite Emid.
      replace 10 with (zlen (pre10 ++ [])) by (rewrite zlen_app; change (zlen []) with 0; lia). exact EV.
  - destruct ((m =? 0) || (m =? 2)) eqn:C3.
    + cbn [orb] in X2. apply d11_addr6_len in X2. apply d11_addr6_len in X3.
      assert (Rs : 0 <= d_seq l < 4096 /\ 0 <= d_frag l < 16) by lia. destruct Rs as [Rs Rf].
      set (sc := d_seq l * 16 + d_frag l).
      assert (Emid : mid = (d_a2 l ++ d_a3 l) ++ d11_put16 sc)
        by (unfold mid, d11_mid; fold ty m; rewrite C1, C3, (d11_sc _ _ Rs Rf); reflexivity).
      assert (Lmid : zlen mid = 14) by (rewrite Emid, !zlen_app; change (zlen (d11_put16 sc)) with 2; lia).
      destruct (zlen data <? 24) eqn:E24; [lia|].
      assert (S10 : cd_slc data 10 16 = Ok (d_a2 l)) by (unfold data; rewrite Emid, <- !app_assoc; apply slc_mid; lia).
      assert (S16 : cd_slc data 16 22 = Ok (d_a3 l)).
      { unfold data. rewrite Emid, <- !app_assoc. rewrite (app_assoc pre10). apply slc_mid; rewrite ?zlen_app; lia. }
      set (X22 := (pre10 ++ d_a2 l) ++ d_a3 l).
      assert (P22 : zlen X22 = 22) by (unfold X22; rewrite !zlen_app; lia).
      assert (ED2 : data = X22 ++ [sc mod 256] ++ (sc / 256) mod 256 :: d_a4 l ++ payload)
        by (unfold data, X22; rewrite Emid; unfold d11_put16; rewrite <- !app_assoc; reflexivity).
      assert (I22 : cd_idx data 22 = Ok (sc mod 256)) by (rewrite ED2; apply (idx_at X22 _ _ 22); lia).
      assert (I23 : cd_idx data (22 + 1) = Ok ((sc / 256) mod 256)).
      { rewrite ED2, app_assoc. apply idx_at. rewrite zlen_app. change (zlen [sc mod 256]) with 1. lia. }
      assert (L22 : d11_le16 data 22 = Ok sc).
      { unfold d11_le16. rewrite cd_slc_ok by lia. cbn [obind]. rewrite I22. cbn [obind]. rewrite I23. cbn [obind]. f_equal. unfold sc. lia. }
      rewrite S10. cbn [ml_bind]. rewrite S16. cbn [ml_bind]. rewrite L22. cbn [ml_bind].
      replace (sc / 16) with (d_seq l) by (unfold sc; lia). replace (sc mod 16) with (d_frag l) by (unfold sc; lia).
      destruct (d11_a4_eval old ty (d_proto l) fl (d_dur l) (d_a1 l) NQ NH N54' (d_a2 l) (d_a3 l) (d_a4 l) (d_seq l) (d_frag l)
                  (pre10 ++ (d_a2 l ++ d_a3 l) ++ d11_put16 sc) payload Hp L4 Z4) as (cs & Ecs & EV).
      exists cs. split; [exact Ecs|]. unfold data. rewrite Emid.
      replace 24 with (zlen (pre10 ++ (d_a2 l ++ d_a3 l) ++ d11_put16 sc)) by (rewrite !zlen_app; change (zlen (d11_put16 sc)) with 2; lia).
      exact EV.
    + cbn [orb andb] in X2.
      apply d11_nil_eq in X2. apply d11_nil_eq in X3. apply andb_prop in X5. destruct X5 as [X5 X6].
      assert (Es : d_seq l = 0) by lia. assert (Ef : d_frag l = 0) by lia. rewrite X2, X3, Es, Ef.
      assert (Emid : mid = []) by (unfold mid, d11_mid; fold ty m; rewrite C1, C3; reflexivity).
      destruct (d11_a4_eval old ty (d_proto l) fl (d_dur l) (d_a1 l) NQ NH N54' [] [] (d_a4 l) 0 0 (pre10 ++ []) payload Hp L4 Z4)
        as (cs & Ecs & EV).
      exists cs. split; [exact Ecs|]. unfold data. rewrite Emid.
      replace 10 with (zlen (pre10 ++ [])) by (rewrite zlen_app; change (zlen []) with 0; lia). exact EV.
Qed.
