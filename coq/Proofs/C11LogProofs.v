(* C11: facts about the stream-lifecycle automaton [lrun] (what acceptance of an event
   log means) and small list lemmas shared by the two developments. *)
From GP Require Import Base C11Common.
From Coq Require Import Lia ZifyBool.
Open Scope Z_scope.

Lemma zmem_in : forall x l, zmem x l = true <-> In x l.
Proof.
  intros x l. unfold zmem. rewrite existsb_exists. split.
  - intros [y [Hy He]]. apply Z.eqb_eq in He. subst. exact Hy.
  - intros H. exists x. split; [exact H|apply Z.eqb_refl].
Qed.

Lemma zmem_false : forall x l, zmem x l = false <-> ~ In x l.
Proof.
  intros x l. rewrite <- zmem_in. destruct (zmem x l); split; congruence.
Qed.

Lemma NoDup_app_l : forall {A} (a b : list A), NoDup (a ++ b) -> NoDup a.
Proof.
  intros A a b. induction a as [|x a IH]; intros H; [constructor|].
  cbn [app] in H. inversion H as [|? ? Hn Hd]; subst. constructor.
  - intros Hin. apply Hn. apply in_or_app. left. exact Hin.
  - apply IH. exact Hd.
Qed.

Lemma zremove_notin : forall x l, ~ In x l -> zremove x l = l.
Proof.
  intros x l. induction l as [|y t IH]; intros H; [reflexivity|].
  cbn [zremove filter]. fold (zremove x t).
  destruct (Z.eqb_spec x y) as [E|E].
  - exfalso. apply H. left. symmetry. exact E.
  - cbn [negb]. rewrite IH; [reflexivity|]. intros Hin. apply H. right. exact Hin.
Qed.

Lemma zremove_app : forall x a b, zremove x (a ++ b) = zremove x a ++ zremove x b.
Proof. intros. unfold zremove. apply filter_app. Qed.

Lemma zremove_mid : forall x a b, NoDup (a ++ x :: b) -> zremove x (a ++ x :: b) = a ++ b.
Proof.
  intros x a b H. rewrite zremove_app. cbn [zremove filter]. rewrite Z.eqb_refl. cbn [negb].
  fold (zremove x b). apply NoDup_remove_2 in H.
  rewrite !zremove_notin; [reflexivity| |]; intros Hin; apply H; apply in_or_app; auto.
Qed.

Lemma zremove_in : forall x y l, In y (zremove x l) <-> In y l /\ y <> x.
Proof.
  intros x y l. unfold zremove. rewrite filter_In. split.
  - intros [H1 H2]. split; [exact H1|]. intros E. subst. rewrite Z.eqb_refl in H2. discriminate.
  - intros [H1 H2]. split; [exact H1|]. destruct (Z.eqb_spec x y); [congruence|reflexivity].
Qed.

Lemma zremove_nodup : forall x l, NoDup l -> NoDup (zremove x l).
Proof. intros. unfold zremove. apply NoDup_filter. assumption. Qed.

Lemma lrun_app : forall a b s,
  lrun s (a ++ b) = match lrun s a with Some s' => lrun s' b | None => None end.
Proof.
  induction a as [|e a IH]; intros b s; [reflexivity|].
  cbn [lrun app]. destruct (lstep s e); [apply IH|reflexivity].
Qed.

Definition is_data_of (sid : Z) (e : event) : Prop :=
  match e with EData s _ _ _ _ _ _ _ => s = sid | _ => False end.

Lemma lrun_data : forall sid l s, In sid (l_open s) -> Forall (is_data_of sid) l -> lrun s l = Some s.
Proof.
  intros sid l s Hin. induction l as [|e l IH]; intros HF; [reflexivity|].
  inversion HF as [|? ? He HF']; subst. cbn [lrun].
  destruct e; cbn in He; try contradiction. subst sid0. cbn [lstep].
  apply zmem_in in Hin. rewrite Hin. apply IH. exact HF'.
Qed.

(* ---- what acceptance means *)
Definition lgood (s : lstate) : Prop := NoDup (l_open s ++ l_done s).

Lemma lstep_good : forall s e s', lgood s -> lstep s e = Some s' -> lgood s'.
Proof.
  unfold lgood. intros s e s' G H. destruct e; cbn [lstep] in H.
  - destruct (zmem sid (l_open s) || zmem sid (l_done s)) eqn:E; [discriminate|].
    inversion H; subst; clear H. cbn [l_open l_done].
    apply orb_false_iff in E. destruct E as [E1 E2]. apply zmem_false in E1. apply zmem_false in E2.
    rewrite <- app_assoc. cbn [app]. apply (NoDup_Add (Add_app sid (l_open s) (l_done s))).
    split; [exact G|]. intros Hin. apply in_app_or in Hin. tauto.
  - destruct (zmem sid (l_open s)); inversion H; subst; exact G.
  - destruct (zmem sid (l_open s)) eqn:E; [|discriminate]. inversion H; subst; clear H.
    cbn [l_open l_done]. apply zmem_in in E.
    apply in_split in E. destruct E as [a [b E]]. rewrite E in G |- *.
    assert (Hn : NoDup (a ++ sid :: b)).
    { apply NoDup_app_l with (b := l_done s). exact G. }
    rewrite zremove_mid by exact Hn.
    rewrite <- app_assoc in G. cbn [app] in G.
    pose proof (NoDup_remove_1 _ _ _ G) as G1. pose proof (NoDup_remove_2 _ _ _ G) as G2.
    apply (NoDup_Add (Add_app sid (a ++ b) (l_done s))). rewrite <- app_assoc. split; assumption.
Qed.

Lemma lrun_good : forall l s s', lgood s -> lrun s l = Some s' -> lgood s'.
Proof.
  induction l as [|e l IH]; intros s s' G H; cbn [lrun] in H.
  - inversion H; subst; exact G.
  - destruct (lstep s e) eqn:E; [|discriminate]. eapply IH; [|exact H]. eapply lstep_good; eauto.
Qed.

Lemma lstep_done_mono : forall s e s' x, lstep s e = Some s' -> In x (l_done s) -> In x (l_done s').
Proof.
  intros s e s' x H Hin. destruct e; cbn [lstep] in H.
  - destruct (zmem sid (l_open s) || zmem sid (l_done s)); inversion H; subst; exact Hin.
  - destruct (zmem sid (l_open s)); inversion H; subst; exact Hin.
  - destruct (zmem sid (l_open s)); inversion H; subst. right. exact Hin.
Qed.

(* a completed stream sees no further event of any kind *)
Lemma lstep_after_done : forall s e s', lgood s -> In (ev_sid e) (l_done s) -> lstep s e = Some s' -> False.
Proof.
  unfold lgood. intros s e s' G Hd H.
  assert (Hno : ~ In (ev_sid e) (l_open s)).
  { intros Ho. apply in_split in Ho. destruct Ho as [a [b Ho]]. rewrite Ho in G.
    rewrite <- app_assoc in G. cbn [app] in G. apply NoDup_remove_2 in G. apply G.
    apply in_or_app. right. apply in_or_app. right. exact Hd. }
  destruct e; cbn [lstep ev_sid] in *.
  - apply zmem_in in Hd. rewrite Hd, orb_true_r in H. discriminate.
  - apply zmem_false in Hno. rewrite Hno in H. discriminate.
  - apply zmem_false in Hno. rewrite Hno in H. discriminate.
Qed.

Lemma lrun_after_done : forall l s s' sid, lgood s -> In sid (l_done s) -> lrun s l = Some s' ->
  forall e, In e l -> ev_sid e <> sid.
Proof.
  induction l as [|e0 l IH]; intros s s' sid G Hd H e Hin; [contradiction|].
  cbn [lrun] in H. destruct (lstep s e0) as [s1|] eqn:E; [|discriminate].
  destruct Hin as [Hin|Hin].
  - subst e0. intros Es. rewrite <- Es in Hd. eapply lstep_after_done; eauto.
  - eapply IH; [eapply lstep_good; eauto|eapply lstep_done_mono; eauto|exact H|exact Hin].
Qed.

(* C11_once, the automaton side: in an accepted log nothing follows the completion of a
   stream: no data, no second completion, no re-creation *)
Lemma lrun_nothing_after_done : forall l1 l2 sid rm s s',
  lgood s -> lrun s (l1 ++ EDone sid rm :: l2) = Some s' ->
  forall e, In e l2 -> ev_sid e <> sid.
Proof.
  intros l1 l2 sid rm s s' G H e Hin.
  rewrite lrun_app in H. destruct (lrun s l1) as [s1|] eqn:E1; [|discriminate].
  cbn [lrun] in H. destruct (lstep s1 (EDone sid rm)) as [s2|] eqn:E2; [|discriminate].
  assert (G1 : lgood s1) by (eapply lrun_good; eauto).
  assert (G2 : lgood s2) by (eapply lstep_good; eauto).
  eapply lrun_after_done; [exact G2| |exact H|exact Hin].
  cbn [lstep] in E2. destruct (zmem sid (l_open s1)); [|discriminate]. inversion E2; subst. left. reflexivity.
Qed.

(* every stream that was created is, at the end, either open or completed *)
Lemma lrun_new_accounted : forall l s s' sid,
  lrun s l = Some s' -> (In (ENew sid) l \/ In sid (l_open s) \/ In sid (l_done s)) ->
  In sid (l_open s') \/ In sid (l_done s').
Proof.
  induction l as [|e l IH]; intros s s' sid H Hin; cbn [lrun] in H.
  - inversion H; subst. destruct Hin as [[]|Hin]. exact Hin.
  - destruct (lstep s e) as [s1|] eqn:E; [|discriminate].
    eapply IH; [exact H|].
    destruct Hin as [[Hin|Hin]|Hin].
    + subst e. cbn [lstep] in E.
      destruct (zmem sid (l_open s) || zmem sid (l_done s)); [discriminate|]. inversion E; subst.
      right. left. cbn [l_open]. apply in_or_app. right. left. reflexivity.
    + left. exact Hin.
    + right. destruct e; cbn [lstep] in E.
      * destruct (zmem sid0 (l_open s) || zmem sid0 (l_done s)); [discriminate|]. inversion E; subst.
        cbn [l_open l_done]. destruct Hin as [Hin|Hin]; [left; apply in_or_app; left; exact Hin|right; exact Hin].
      * destruct (zmem sid0 (l_open s)); inversion E; subst. exact Hin.
      * destruct (zmem sid0 (l_open s)); inversion E; subst. cbn [l_open l_done].
        destruct Hin as [Hin|Hin].
        -- destruct (Z.eq_dec sid sid0) as [Eq|Ne].
           ++ right. left. symmetry. exact Eq.
           ++ left. apply zremove_in. split; assumption.
        -- right. right. exact Hin.
Qed.

(* completions of a stream in a log *)
Fixpoint ndone (sid : Z) (l : list event) : nat :=
  match l with
  | [] => O
  | EDone s _ :: t => if s =? sid then S (ndone sid t) else ndone sid t
  | _ :: t => ndone sid t
  end.

Lemma ndone_zero_after : forall l s s' sid, lgood s -> In sid (l_done s) -> lrun s l = Some s' -> ndone sid l = O.
Proof.
  intros l s s' sid G Hd H.
  pose proof (lrun_after_done l s s' sid G Hd H) as Hn. clear H.
  induction l as [|e l IH]; [reflexivity|]. cbn [ndone].
  assert (He : ev_sid e <> sid) by (apply Hn; left; reflexivity).
  assert (IH' : ndone sid l = O) by (apply IH; intros e' Hin; apply Hn; right; exact Hin).
  destruct e; try exact IH'. cbn [ev_sid] in He.
  destruct (Z.eqb_spec sid0 sid); [contradiction|exact IH'].
Qed.

(* exactly one completion for a completed stream, none for an open one *)
Lemma lrun_done_count : forall l s s' sid, lgood s -> ~ In sid (l_done s) -> lrun s l = Some s' ->
  ndone sid l = (if zmem sid (l_done s') then 1%nat else O).
Proof.
  induction l as [|e l IH]; intros s s' sid G Hnd H; cbn [lrun] in H.
  - inversion H; subst. apply zmem_false in Hnd. rewrite Hnd. reflexivity.
  - destruct (lstep s e) as [s1|] eqn:E; [|discriminate].
    assert (G1 : lgood s1) by (eapply lstep_good; eauto).
    destruct e; cbn [ndone].
    + eapply IH; [exact G1| |exact H]. cbn [lstep] in E.
      destruct (zmem sid0 (l_open s) || zmem sid0 (l_done s)); inversion E; subst. exact Hnd.
    + eapply IH; [exact G1| |exact H]. cbn [lstep] in E.
      destruct (zmem sid0 (l_open s)); inversion E; subst. exact Hnd.
    + destruct (Z.eqb_spec sid0 sid) as [Eq|Ne].
      * subst sid0. assert (Hd1 : In sid (l_done s1)).
        { cbn [lstep] in E. destruct (zmem sid (l_open s)); inversion E; subst. left. reflexivity. }
        rewrite (ndone_zero_after l s1 s' sid G1 Hd1 H).
        assert (Hd' : In sid (l_done s')).
        { clear - H Hd1. revert s1 H Hd1. induction l as [|e l IH]; intros s1 H Hd1; cbn [lrun] in H.
          - inversion H; subst. exact Hd1.
          - destruct (lstep s1 e) eqn:E; [|discriminate]. eapply IH; [exact H|]. eapply lstep_done_mono; eauto. }
        apply zmem_in in Hd'. rewrite Hd'. reflexivity.
      * eapply IH; [exact G1| |exact H]. cbn [lstep] in E.
        destruct (zmem sid0 (l_open s)); inversion E; subst. cbn [l_done]. intros [Hc|Hc]; [congruence|contradiction].
Qed.

Lemma l0_good : lgood l0.
Proof. unfold lgood, l0. cbn. constructor. Qed.

(* sums *)
Lemma zlen_app : forall {A} (a b : list A), zlen (a ++ b) = zlen a + zlen b.
Proof. intros. unfold zlen. rewrite app_length. lia. Qed.
Lemma zlen_nonneg : forall {A} (l : list A), 0 <= zlen l.
Proof. intros. unfold zlen. lia. Qed.
Lemma zlen_cons : forall {A} (x : A) l, zlen (x :: l) = 1 + zlen l.
Proof. intros. unfold zlen. cbn [length]. lia. Qed.
Lemma zlen_nil : forall {A}, zlen (@nil A) = 0.
Proof. reflexivity. Qed.
