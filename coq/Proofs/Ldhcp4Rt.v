(* Round trip of the DHCPv4 model: dh_decode_into (dh_serialize l) with FixLengths under dh_wf. *)
From GP Require Import Base ListX Codec MiscLib Ldhcp4Model Ldhcp4Proofs Ldhcp4Ser.
From Coq Require Import Lia ZifyBool ZifyNat.
Open Scope Z_scope.
Ltac Zify.zify_post_hook ::= Z.div_mod_to_equations.

Definition dh_wf (l : dhcp) : Prop :=
  0 <= h_op l < 256 /\ 0 <= h_htype l < 256 /\ 0 <= h_hops l < 256 /\ 0 <= h_xid l < 4294967296 /\ 0 <= h_secs l < 65536 /\ 0 <= h_flags l < 65536 /\
  zlen (h_ciaddr l) = 4 /\ zlen (h_yiaddr l) = 4 /\ zlen (h_siaddr l) = 4 /\ zlen (h_giaddr l) = 4 /\ zlen (h_chaddr l) <= 16 /\
  zlen (h_sname l) = 64 /\ zlen (h_file l) = 128 /\ Forall dh_owf (h_options l).

(* the 240 octets before the options *)
Definition dh_h12 (l : dhcp) : list Z :=
  [h_op l; h_htype l; zlen (h_chaddr l); h_hops l] ++ ml_put32 (h_xid l) ++ cd_put16 (h_secs l) ++ cd_put16 (h_flags l).
Definition dh_hdr (l : dhcp) : list Z :=
  dh_h12 l ++ h_ciaddr l ++ h_yiaddr l ++ h_siaddr l ++ h_giaddr l ++
  (h_chaddr l ++ repeat 0 (Z.to_nat (16 - zlen (h_chaddr l)))) ++ h_sname l ++ h_file l ++ ml_put32 dh_magic.

Definition dh_l2 (l : dhcp) : dhcp :=
  mkDh (h_contents l) (h_payload l) (h_op l) (h_htype l) (zlen (h_chaddr l)) (h_hops l) (h_xid l) (h_secs l) (h_flags l) (h_ciaddr l)
       (h_yiaddr l) (h_siaddr l) (h_giaddr l) (h_chaddr l) (h_sname l) (h_file l) (map dh_onorm (h_options l)).

Lemma ip_to4_4 ip : zlen ip = 4 -> ip_to4 ip = ip.
Proof. intros H. unfold ip_to4. rewrite H. reflexivity. Qed.

Lemma dh_serialize_closed l csum junk : dh_wf l ->
  dh_serialize l [] true csum junk = (Ok (dh_hdr l ++ concat (map dh_obytes (h_options l)) ++ [255]), dh_l2 l).
Proof.
  intros [Hop [Hht [Hho [Hx [Hse [Hfl [Hci [Hyi [Hsi [Hgi [Hch [Hsn [Hfi W]]]]]]]]]]]]].
  pose proof (zlen_nonneg (h_chaddr l)) as Nch.
  unfold dh_serialize, dh_serialize_gen. cbn [negb andb]. rewrite (dh_fix_opts_wf _ W). cbv zeta. cbn [negb].
  rewrite dh_fold_shift. rewrite (Z.mod_small (zlen (h_chaddr l)) 256) by lia.
  fold (dh_l2 l). set (os := map dh_onorm (h_options l)) in *. pose proof (dh_osum_nonneg os) as Nos.
  set (n := 240 + dh_osum os + 1).
  pose proof (zt_init n ltac:(lia)) as T.
  rewrite !ip_to4_4 by assumption.
  rewrite (Z.mod_small (h_op l)), (Z.mod_small (h_htype l)), (Z.mod_small (zlen (h_chaddr l)) 256), (Z.mod_small (h_hops l)), (Z.mod_small (h_xid l)) by lia.
  assert (Z2 : forall a b : Z, zlen [a; b] = 2) by reflexivity. assert (Z3 : forall a b c : Z, zlen [a; b; c] = 3) by reflexivity.
  assert (Z4 : forall a b c d : Z, zlen [a; b; c; d] = 4) by reflexivity.
  Ltac zl := rewrite ?zlen_app, ?zlen_put16, ?zlen_put32, ?zlen_one, ?zlen_repeat, ?zlen_nil, ?zlen_cons; try lia.
  Ltac zwrc T i vs :=
    match type of T with zt ?b ?p ?n =>
      let E := fresh "E" in let T' := fresh "T" in
      destruct (zt_wrc b p n i vs T) as [E T']; [ try reflexivity; zl | zl | rewrite E; cbn [obind]; clear E T; rename T' into T ] end.
  Ltac zput T a bnd vs :=
    match type of T with zt ?b ?p ?n =>
      let E := fresh "E" in let T' := fresh "T" in let b' := fresh "b" in
      destruct (zt_put b p n a bnd vs T) as [b' [E T']]; [ try reflexivity; zl | try reflexivity; zl | zl | rewrite E; cbn [obind]; clear E T; rename T' into T ] end.
  change (zlen (@nil Z)) with 0 in *.
  zwrc T 0 [h_op l]. zwrc T 1 [h_htype l]. zwrc T 2 [zlen (h_chaddr l)]; [rewrite ?Z2; lia..|]. zwrc T 3 [h_hops l]; [rewrite ?Z3; lia..|].
  zput T 4 8 (ml_put32 (h_xid l)). zput T 8 10 (cd_put16 (h_secs l)). zput T 10 12 (cd_put16 (h_flags l)).
  zput T 12 16 (h_ciaddr l). zput T 16 20 (h_yiaddr l). zput T 20 24 (h_siaddr l). zput T 24 28 (h_giaddr l).
  match type of T with zt ?b ?p ?n0 => destruct (zt_put_short b p n0 28 44 (h_chaddr l) T) as [b12 [E T12]]; [zl|lia|lia|rewrite E; cbn [obind]; clear E T; rename T12 into T] end.
  replace (44 - 28 - zlen (h_chaddr l)) with (16 - zlen (h_chaddr l)) in T by lia.
  zput T 44 108 (h_sname l). zput T 108 236 (h_file l). zput T 236 240 (ml_put32 dh_magic).
  rename T into T15. match type of T15 with zt ?bb _ _ => set (b15 := bb) in * end.
  match type of T15 with zt _ ?p _ => set (pre := p) in * end.
  assert (Lpre : zlen pre = 240) by (unfold pre; zl).
  destruct (dh_write_opts_zt (h_options l) b15 pre n 240 W T15 ltac:(lia) ltac:(fold os; lia)) as [b16 [E T16]]. fold os in E. rewrite E. cbn [obind fst snd]. clear E.
  pose proof (zt_zlen _ _ _ T16) as L16.
  rewrite cd_slc_ok by lia. cbn [obind].
  assert (Lc : zlen (concat (map dh_obytes (h_options l))) = dh_osum os).
  { clear - W. unfold os. induction W as [|o t Wo _ IH]; [reflexivity|]. cbn [map concat]. rewrite zlen_app, dh_osum_cons, IH, (dh_obytes_len o Wo). reflexivity. }
  destruct (zt_wrc _ _ n (240 + dh_osum os) [255] T16 ltac:(rewrite zlen_app, Lc; lia) ltac:(rewrite zlen_app, Lc; change (zlen [255]) with 1; lia)) as [E T17]. rewrite E. clear E.
  match type of T17 with zt ?bb _ _ => set (bfin := bb) in * end.
  apply zt_done in T17; [|rewrite !zlen_app, Lc; change (zlen [255]) with 1; lia].
  rewrite T17. rewrite app_nil_r. f_equal. f_equal. unfold pre, dh_hdr, dh_h12. rewrite <- !app_assoc. reflexivity.
Qed.

(* ---------------------------------------------------------------- reading back *)
Lemma idx_at pre x post : cd_idx (pre ++ x :: post) (zlen pre) = Ok x.
Proof.
  pose proof (zlen_nonneg pre). rewrite cd_idx_ok by (rewrite zlen_app, zlen_cons; pose proof (zlen_nonneg post); lia).
  unfold zlen. rewrite Nat2Z.id. rewrite app_nth2 by lia. rewrite Nat.sub_diag. reflexivity.
Qed.

Lemma slc_at pre m post a b : a = zlen pre -> b = zlen pre + zlen m -> cd_slc (pre ++ m ++ post) a b = Ok m.
Proof.
  intros -> ->. pose proof (zlen_nonneg pre). pose proof (zlen_nonneg m). pose proof (zlen_nonneg post).
  rewrite cd_slc_ok by (rewrite ?zlen_app; lia). f_equal. apply slice_at; unfold zlen; lia.
Qed.

Lemma rd16_at pre x post a : a = zlen pre -> 0 <= x < 65536 -> cd_rd16 (pre ++ cd_put16 x ++ post) a = Ok x.
Proof.
  intros -> Hx. unfold cd_rd16, cd_put16. cbn [app].
  rewrite idx_at. cbn [obind].
  replace (pre ++ (x / 256) mod 256 :: x mod 256 :: post) with ((pre ++ [(x / 256) mod 256]) ++ x mod 256 :: post) by (rewrite <- app_assoc; reflexivity).
  replace (zlen pre + 1) with (zlen (pre ++ [(x / 256) mod 256])) by (rewrite zlen_app; reflexivity).
  rewrite idx_at. cbn [obind]. f_equal. lia.
Qed.

Lemma rd32_at pre x post a : a = zlen pre -> 0 <= x < 4294967296 -> ml_rd32 (pre ++ ml_put32 x ++ post) a = Ok x.
Proof.
  intros -> Hx. unfold ml_rd32.
  assert (E : ml_put32 x = cd_put16 (x / 65536) ++ cd_put16 (x mod 65536)).
  { unfold ml_put32, cd_put16. cbn [app].
    assert (A : (x / 16777216) mod 256 = (x / 65536 / 256) mod 256) by lia. assert (B : (x / 256) mod 256 = (x mod 65536 / 256) mod 256) by lia.
    assert (C : x mod 256 = (x mod 65536) mod 256) by lia. rewrite A, B, C. reflexivity. }
  rewrite E. rewrite <- app_assoc. rewrite rd16_at by (try reflexivity; lia). cbn [obind].
  rewrite (app_assoc pre). rewrite rd16_at by (try (rewrite zlen_app, zlen_put16; reflexivity); lia). cbn [obind]. f_equal. lia.
Qed.

Lemma dh_opts_bytes : forall l fuel pre acc, Forall dh_owf l -> (length l < fuel)%nat ->
  dh_opts fuel (pre ++ concat (map dh_obytes l) ++ [255]) (zlen pre) acc = (acc ++ map dh_onorm l, Ok tt).
Proof.
  induction l as [|o t IH]; intros fuel pre acc W Hf; (destruct fuel as [|f]; [cbn [length] in Hf; lia|]); cbn [map concat dh_opts app].
  - pose proof (zlen_nonneg pre).
    assert (S0 : cd_slc (pre ++ [255]) (zlen pre) (zlen (pre ++ [255])) = Ok [255]).
    { rewrite zlen_app. change (pre ++ [255]) with (pre ++ [255] ++ []). apply slc_at; reflexivity. }
    replace (zlen (pre ++ [255]) <=? zlen pre) with false by (rewrite zlen_app; change (zlen [255]) with 1; lia).
    rewrite S0. change (cd_idx [255] 0) with (@Ok Z 255). change ((255 =? 0) || (255 =? 255)) with true. change (255 =? 255) with true. cbv iota.
    rewrite app_nil_r. reflexivity.
  - inversion W as [|? ? [Ht [Hl [_ Hp]]] Wt]; subst. pose proof (zlen_nonneg pre) as Np. pose proof (zlen_nonneg (do_data o)) as Nd.
    set (rest := concat (map dh_obytes t) ++ [255]). pose proof (zlen_nonneg rest) as Nr.
    rewrite <- app_assoc. fold rest.
    assert (Lo : 1 <= zlen (dh_obytes o)) by (unfold dh_obytes; destruct (do_type o =? 0); [cbn; lia|rewrite zlen_app; change (zlen [do_type o; zlen (do_data o)]) with 2; lia]).
    replace (zlen (pre ++ dh_obytes o ++ rest) <=? zlen pre) with false by (rewrite !zlen_app; lia).
    assert (S0 : cd_slc (pre ++ dh_obytes o ++ rest) (zlen pre) (zlen (pre ++ dh_obytes o ++ rest)) = Ok (dh_obytes o ++ rest)).
    { pose proof (slc_at pre (dh_obytes o ++ rest) [] (zlen pre) (zlen (pre ++ dh_obytes o ++ rest)) eq_refl ltac:(rewrite !zlen_app; lia)) as X. rewrite app_nil_r in X. exact X. }
    rewrite S0. clear S0. destruct (do_type o =? 0) eqn:E0.
    + assert (H0 : do_type o = 0) by lia. destruct (Hp H0) as [Hd Hln].
      assert (Eo : dh_obytes o = [0]) by (unfold dh_obytes; rewrite E0; reflexivity). rewrite Eo in *.
      change (cd_idx ([0] ++ rest) 0) with (@Ok Z 0). change ((0 =? 0) || (0 =? 255)) with true. change (0 =? 255) with false. cbv iota.
      replace (pre ++ [0] ++ rest) with ((pre ++ [0]) ++ rest) by (rewrite <- app_assoc; reflexivity).
      replace (zlen pre + 1) with (zlen (pre ++ [0])) by (rewrite zlen_app; reflexivity).
      unfold rest. rewrite IH by (try assumption; cbn [length] in Hf; lia).
      rewrite <- app_assoc. cbn [app]. f_equal. f_equal. f_equal. unfold dh_onorm. rewrite H0, Hd. reflexivity.
    + assert (Eo : dh_obytes o = [do_type o; zlen (do_data o)] ++ do_data o) by (unfold dh_obytes; rewrite E0; reflexivity). rewrite Eo in *.
      set (d := ([do_type o; zlen (do_data o)] ++ do_data o) ++ rest).
      assert (Ld : zlen d = 2 + zlen (do_data o) + zlen rest) by (unfold d; rewrite !zlen_app; change (zlen [do_type o; zlen (do_data o)]) with 2; lia).
      change (cd_idx d 0) with (@Ok Z (do_type o)). cbv beta iota. rewrite ?E0. replace (do_type o =? 255) with false by lia. cbn [orb].
      rewrite Ld. replace (2 + zlen (do_data o) + zlen rest <? 2) with false by lia.
      change (cd_idx d 1) with (if (0 <=? 1) && (1 <? zlen d) then @Ok Z (zlen (do_data o)) else Panic 1). rewrite Ld.
      replace ((0 <=? 1) && (1 <? 2 + zlen (do_data o) + zlen rest)) with true by lia. cbv beta iota.
      replace (2 + zlen (do_data o) + zlen rest - 2 <? zlen (do_data o)) with false by lia.
      assert (S1 : cd_slc d 2 (2 + zlen (do_data o)) = Ok (do_data o)).
      { unfold d. rewrite <- app_assoc. apply slc_at; reflexivity. }
      rewrite S1. cbv beta iota.
      replace (pre ++ d) with ((pre ++ [do_type o; zlen (do_data o)] ++ do_data o) ++ rest) by (unfold d; rewrite <- !app_assoc; reflexivity).
      replace (zlen pre + zlen (do_data o) + 2) with (zlen (pre ++ [do_type o; zlen (do_data o)] ++ do_data o)) by (rewrite !zlen_app; change (zlen [do_type o; zlen (do_data o)]) with 2; lia).
      unfold rest. rewrite IH by (try assumption; cbn [length] in Hf; lia).
      rewrite <- app_assoc. reflexivity.
Qed.

Lemma dh_roundtrip l csum junk bytes l' old :
  dh_wf l -> dh_serialize l [] true csum junk = (Ok bytes, l') ->
  exists d, dh_decode_into old bytes = (d, Ok tt, false) /\ h_contents d = bytes /\
    (h_op d, h_htype d, h_hlen d, h_hops d, h_xid d, h_secs d, h_flags d) = (h_op l, h_htype l, zlen (h_chaddr l), h_hops l, h_xid l, h_secs l, h_flags l) /\
    (h_ciaddr d, h_yiaddr d, h_siaddr d, h_giaddr d, h_chaddr d, h_sname d, h_file d) =
      (h_ciaddr l, h_yiaddr l, h_siaddr l, h_giaddr l, h_chaddr l, h_sname l, h_file l) /\
    h_options d = h_options l'.
Proof.
  intros Hwf. rewrite (dh_serialize_closed l csum junk Hwf). intros X.
  assert (Eb : bytes = dh_hdr l ++ concat (map dh_obytes (h_options l)) ++ [255]) by congruence.
  assert (El : l' = dh_l2 l) by congruence. clear X. rewrite El. cbn [dh_l2 h_options]. clear El l'.
  destruct Hwf as [Hop [Hht [Hho [Hx [Hse [Hfl [Hci [Hyi [Hsi [Hgi [Hch [Hsn [Hfi W]]]]]]]]]]]]].
  pose proof (zlen_nonneg (h_chaddr l)) as Nch.
  set (ob := concat (map dh_obytes (h_options l))) in *. set (tl := ob ++ [255]) in *.
  assert (Ltl : 1 <= zlen tl) by (unfold tl; rewrite zlen_app; change (zlen [255]) with 1; pose proof (zlen_nonneg ob); lia).
  set (hl := zlen (h_chaddr l)) in *.
  set (pad := repeat 0 (Z.to_nat (16 - hl))). assert (Lpad : zlen pad = 16 - hl) by (unfold pad; rewrite zlen_repeat; lia).
  set (X := ml_put32 (h_xid l)). set (S := cd_put16 (h_secs l)). set (F := cd_put16 (h_flags l)). set (M := ml_put32 dh_magic).
  assert (LX : zlen X = 4) by reflexivity. assert (LS : zlen S = 2) by reflexivity. assert (LF : zlen F = 2) by reflexivity. assert (LM : zlen M = 4) by reflexivity.
  (* the message in right-nested form *)
  assert (Ed : bytes = [h_op l] ++ [h_htype l] ++ [hl] ++ [h_hops l] ++ X ++ S ++ F ++ h_ciaddr l ++ h_yiaddr l ++ h_siaddr l ++ h_giaddr l ++
                       h_chaddr l ++ pad ++ h_sname l ++ h_file l ++ M ++ tl).
  { rewrite Eb. unfold dh_hdr, dh_h12. fold hl pad X S F M. rewrite <- !app_assoc. reflexivity. }
  clear Eb.
  assert (Hn : zlen bytes = 240 + zlen tl) by (rewrite Ed, !zlen_app, !zlen_one; lia).
  Ltac nrm := rewrite <- ?app_assoc; cbn [app]; reflexivity.
  Ltac zz := rewrite ?zlen_app, ?zlen_one, ?zlen_nil, ?zlen_cons; lia.
  (* every read of the decoder *)
  assert (R0 : cd_idx bytes 0 = Ok (h_op l)) by (rewrite Ed; apply (idx_at [])).
  assert (R1 : cd_idx bytes 1 = Ok (h_htype l)) by (rewrite Ed; apply (idx_at [h_op l])).
  assert (R2 : cd_idx bytes 2 = Ok hl) by (rewrite Ed; apply (idx_at [h_op l; h_htype l])).
  assert (R3 : cd_idx bytes 3 = Ok (h_hops l)) by (rewrite Ed; apply (idx_at [h_op l; h_htype l; hl])).
  assert (R4 : ml_rd32 bytes 4 = Ok (h_xid l)).
  { replace bytes with ([h_op l; h_htype l; hl; h_hops l] ++ X ++ (S ++ F ++ h_ciaddr l ++ h_yiaddr l ++ h_siaddr l ++ h_giaddr l ++ h_chaddr l ++ pad ++ h_sname l ++ h_file l ++ M ++ tl)) by (rewrite Ed; nrm).
    apply rd32_at; [reflexivity|lia]. }
  set (p8 := [h_op l; h_htype l; hl; h_hops l] ++ X). assert (L8 : zlen p8 = 8) by reflexivity.
  assert (R8 : cd_rd16 bytes 8 = Ok (h_secs l)).
  { replace bytes with (p8 ++ S ++ (F ++ h_ciaddr l ++ h_yiaddr l ++ h_siaddr l ++ h_giaddr l ++ h_chaddr l ++ pad ++ h_sname l ++ h_file l ++ M ++ tl)) by (rewrite Ed; unfold p8; nrm).
    apply rd16_at; [reflexivity|lia]. }
  set (p10 := p8 ++ S). assert (L10 : zlen p10 = 10) by reflexivity.
  assert (R10 : cd_rd16 bytes 10 = Ok (h_flags l)).
  { replace bytes with (p10 ++ F ++ (h_ciaddr l ++ h_yiaddr l ++ h_siaddr l ++ h_giaddr l ++ h_chaddr l ++ pad ++ h_sname l ++ h_file l ++ M ++ tl)) by (rewrite Ed; unfold p10, p8; nrm).
    apply rd16_at; [reflexivity|lia]. }
  set (p12 := p10 ++ F). assert (L12 : zlen p12 = 12) by reflexivity.
  assert (R12 : cd_slc bytes 12 16 = Ok (h_ciaddr l)).
  { replace bytes with (p12 ++ h_ciaddr l ++ (h_yiaddr l ++ h_siaddr l ++ h_giaddr l ++ h_chaddr l ++ pad ++ h_sname l ++ h_file l ++ M ++ tl)) by (rewrite Ed; unfold p12, p10, p8; nrm).
    apply slc_at; lia. }
  set (p16 := p12 ++ h_ciaddr l). assert (L16 : zlen p16 = 16) by (unfold p16; zz).
  assert (R16 : cd_slc bytes 16 20 = Ok (h_yiaddr l)).
  { replace bytes with (p16 ++ h_yiaddr l ++ (h_siaddr l ++ h_giaddr l ++ h_chaddr l ++ pad ++ h_sname l ++ h_file l ++ M ++ tl)) by (rewrite Ed; unfold p16, p12, p10, p8; nrm).
    apply slc_at; lia. }
  set (p20 := p16 ++ h_yiaddr l). assert (L20 : zlen p20 = 20) by (unfold p20; zz).
  assert (R20 : cd_slc bytes 20 24 = Ok (h_siaddr l)).
  { replace bytes with (p20 ++ h_siaddr l ++ (h_giaddr l ++ h_chaddr l ++ pad ++ h_sname l ++ h_file l ++ M ++ tl)) by (rewrite Ed; unfold p20, p16, p12, p10, p8; nrm).
    apply slc_at; lia. }
  set (p24 := p20 ++ h_siaddr l). assert (L24 : zlen p24 = 24) by (unfold p24; zz).
  assert (R24 : cd_slc bytes 24 28 = Ok (h_giaddr l)).
  { replace bytes with (p24 ++ h_giaddr l ++ (h_chaddr l ++ pad ++ h_sname l ++ h_file l ++ M ++ tl)) by (rewrite Ed; unfold p24, p20, p16, p12, p10, p8; nrm).
    apply slc_at; lia. }
  set (p28 := p24 ++ h_giaddr l). assert (L28 : zlen p28 = 28) by (unfold p28; zz).
  assert (R28 : cd_slc bytes 28 (28 + hl) = Ok (h_chaddr l)).
  { replace bytes with (p28 ++ h_chaddr l ++ (pad ++ h_sname l ++ h_file l ++ M ++ tl)) by (rewrite Ed; unfold p28, p24, p20, p16, p12, p10, p8; nrm).
    apply slc_at; unfold hl; lia. }
  set (p44 := p28 ++ h_chaddr l ++ pad). assert (L44 : zlen p44 = 44) by (unfold p44; rewrite !zlen_app; fold hl; lia).
  assert (R44 : cd_slc bytes 44 108 = Ok (h_sname l)).
  { replace bytes with (p44 ++ h_sname l ++ (h_file l ++ M ++ tl)) by (rewrite Ed; unfold p44, p28, p24, p20, p16, p12, p10, p8; nrm).
    apply slc_at; lia. }
  set (p108 := p44 ++ h_sname l). assert (L108 : zlen p108 = 108) by (unfold p108; zz).
  assert (R108 : cd_slc bytes 108 236 = Ok (h_file l)).
  { replace bytes with (p108 ++ h_file l ++ (M ++ tl)) by (rewrite Ed; unfold p108, p44, p28, p24, p20, p16, p12, p10, p8; nrm).
    apply slc_at; lia. }
  set (p236 := p108 ++ h_file l). assert (L236 : zlen p236 = 236) by (unfold p236; zz).
  assert (R236 : ml_rd32 bytes 236 = Ok dh_magic).
  { replace bytes with (p236 ++ ml_put32 dh_magic ++ tl) by (rewrite Ed; unfold p236, p108, p44, p28, p24, p20, p16, p12, p10, p8; fold M; nrm).
    apply rd32_at; [lia|unfold dh_magic; lia]. }
  set (p240 := p236 ++ M). assert (L240 : zlen p240 = 240) by (unfold p240; zz).
  assert (R240 : cd_slc bytes 240 (zlen bytes) = Ok tl).
  { rewrite Hn. replace bytes with (p240 ++ tl ++ []) by (rewrite app_nil_r, Ed; unfold p240, p236, p108, p44, p28, p24, p20, p16, p12, p10, p8; nrm).
    apply slc_at; lia. }
  unfold dh_decode_into, dh_decode_gen. cbv zeta. replace (zlen bytes <? 240) with false by lia.
  rewrite R0, R1, R2. cbn [ml_bind]. replace (16 <? hl) with false by (unfold hl; lia).
  rewrite R3, R4, R8, R10, R12, R16, R20, R24, R28, R44, R108, R236. cbn [ml_bind].
  replace (dh_magic =? dh_magic) with true by lia. cbn [negb]. replace (zlen bytes <=? 240) with false by lia.
  rewrite R240. cbn [ml_bind].
  pose proof (dh_opts_bytes (h_options l) (Datatypes.S (length tl)) [] [] W) as L. cbn [app] in L. fold ob tl in L. change (zlen (@nil Z)) with 0 in L.
  rewrite L.
  - eexists. split; [reflexivity|]. cbn. repeat split; reflexivity.
  - (* at most one option per octet of the options area *)
    assert (B : forall l0, Forall dh_owf l0 -> Z.of_nat (length l0) <= zlen (concat (map dh_obytes l0))).
    { induction 1 as [|o t Wo _ IH]; [cbn; lia|]. cbn [map concat length]. rewrite zlen_app. pose proof (dh_obytes_len o Wo). pose proof (dh_osize_pos (dh_onorm o)). lia. }
    specialize (B _ W). fold ob in B. unfold tl. rewrite app_length. cbn [length]. unfold zlen in B. lia.
Qed.
