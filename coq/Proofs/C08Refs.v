(* C08 lemmas, second file: emitted = reference, the unrepaired UDP verifier *)
From GP Require Import Base ListX C08Model C08Proofs.
From Coq Require Import Lia ZifyBool ZifyNat ZifyN.
Open Scope Z_scope.
Ltac Zify.zify_post_hook ::= Z.div_mod_to_equations.
(* ------------------------------------------------------------------ emitted = reference *)
Lemma tcp_emit_ref : forall p bs, pseudo_ok p -> len_ok p bs -> bytes_ok bs -> (20 <= length bs)%nat ->
  Z.of_nat (length bs) <= 131034 ->
  let b0 := put16 bs 16 0 in
  tcp_emit p bs = Ok (reference p IPProtocolTCP b0, put16 b0 16 (reference p IPProtocolTCP b0)).
Proof.
  intros p bs Hp Hl H L Lb b0. rewrite (tcp_emit_spec p bs Hp Hl H L). cbv zeta. fold b0.
  rewrite fold_reference; auto; [unfold IPProtocolTCP; lia|apply bytes_ok_put16; auto; lia|unfold b0; rewrite put16_length; lia].
Qed.

Lemma icmp6_emit_ref : forall p bs, pseudo_ok p -> len_ok p bs -> bytes_ok bs -> (4 <= length bs)%nat ->
  Z.of_nat (length bs) <= 131034 ->
  let b0 := put16 bs 2 0 in
  icmp6_emit p bs = Ok (reference p IPProtocolICMPv6 b0, put16 b0 2 (reference p IPProtocolICMPv6 b0)).
Proof.
  intros p bs Hp Hl H L Lb b0. rewrite (icmp6_emit_spec p bs Hp Hl H L). cbv zeta. fold b0.
  rewrite fold_reference; auto; [unfold IPProtocolICMPv6; lia|apply bytes_ok_put16; auto; lia|unfold b0; rewrite put16_length; lia].
Qed.

Lemma udp_emit_ref : forall p bs, pseudo_ok p -> len_ok p bs -> bytes_ok bs -> (8 <= length bs)%nat ->
  Z.of_nat (length bs) <= 131034 ->
  let b0 := put16 bs 6 0 in
  udp_emit p bs = Ok (udpmap (reference p IPProtocolUDP b0), put16 b0 6 (udpmap (reference p IPProtocolUDP b0))).
Proof.
  intros p bs Hp Hl H L Lb b0. rewrite (udp_emit_spec p bs Hp Hl H L). cbv zeta. fold b0.
  rewrite fold_reference; auto; [unfold IPProtocolUDP; lia|apply bytes_ok_put16; auto; lia|unfold b0; rewrite put16_length; lia].
Qed.

Lemma ip4_emit_ref : forall hdr, bytes_ok hdr -> (20 <= length hdr)%nat -> Z.of_nat (length hdr) <= 131074 ->
  let h0 := put16 hdr 10 0 in ip4_emit hdr = Ok (rfc1071 h0, put16 h0 10 (rfc1071 h0)).
Proof.
  intros hdr H L Lb h0. rewrite (ip4_emit_spec hdr H L). cbv zeta. fold h0.
  rewrite fold_reference_plain; auto; [apply bytes_ok_put16; auto; lia|unfold h0; rewrite put16_length; lia].
Qed.

Lemma icmp4_emit_ref : forall bs, bytes_ok bs -> (8 <= length bs)%nat -> Z.of_nat (length bs) <= 131074 ->
  let b0 := put16 bs 2 0 in icmp4_emit bs = Ok (rfc1071 b0, put16 b0 2 (rfc1071 b0)).
Proof.
  intros bs H L Lb b0. rewrite (icmp4_emit_spec bs H L). cbv zeta. fold b0.
  rewrite fold_reference_plain; auto; [apply bytes_ok_put16; auto; lia|unfold b0; rewrite put16_length; lia].
Qed.

Lemma gre_emit_ref : forall bs, bytes_ok bs -> (8 <= length bs)%nat -> 128 <= nthZ bs 0 -> Z.of_nat (length bs) <= 131074 ->
  let b0 := put16 bs 4 0 in gre_emit bs = Ok (Some (rfc1071 b0), put16 b0 4 (rfc1071 b0)).
Proof.
  intros bs H L C Lb b0. rewrite (gre_emit_spec bs H L C). cbv zeta. fold b0.
  rewrite fold_reference_plain; auto; [apply bytes_ok_put16; auto; lia|unfold b0; rewrite put16_length; lia].
Qed.

(* a non-UDP emitter can write 0xffff only for an all-zero sum; with a pseudo-header never *)
Lemma reference_not_ffff : forall p proto b0, pseudo_ok p -> 0 < proto < 256 -> bytes_ok b0 -> len_ok p b0 ->
  reference p proto b0 <> 65535.
Proof.
  intros p proto b0 Hp Hpr H Hl. pose proof (wide_positive p proto b0 Hp Hpr H Hl) as Wp.
  unfold reference, rfc1071. fold (wide p proto b0). unfold oc.
  destruct (Z.eqb_spec (wide p proto b0) 0); lia.
Qed.

(* the code before the repair rejects what its own emitter wrote *)
Definition udp_ffff_src : list Z := [64; 105; 244; 85].
Definition udp_ffff_dst : list Z := [238; 22; 144; 242].
Definition udp_ffff_bytes : list Z := [120; 188; 244; 206; 0; 11; 0; 0; 255; 131; 223].

Lemma udp_unrepaired_refuted :
  exists pk, udp_emit (P4 udp_ffff_src udp_ffff_dst) udp_ffff_bytes = Ok (65535, pk) /\
    udp_verify_orig (P4 udp_ffff_src udp_ffff_dst) pk = Ok {| v_valid := false; v_correct := 0; v_actual := 65535 |} /\
    udp_verify (P4 udp_ffff_src udp_ffff_dst) pk = Ok {| v_valid := true; v_correct := 65535; v_actual := 65535 |}.
Proof. exists [120; 188; 244; 206; 0; 11; 255; 255; 255; 131; 223]. vm_compute. repeat split. Qed.
