(* Lemmas about the TLS serializer model: total, every byte of the prepended region written. *)
From GP Require Import Base ListX Codec MiscLib MidLib LtlsModel.
From Coq Require Import Lia ZifyBool ZifyNat.
Open Scope Z_scope.

Definition tls_fixed (fx fixl : bool) (l : tls) : tls :=
  mkTls (tl_contents l) (tl_payload l) (map (rec_fix fx fixl) (tl_ccs l)) (map (rec_fix fx fixl) (tl_hs l))
        (map (rec_fix fx fixl) (tl_app l)) (map (rec_fix fx fixl) (tl_alert l)).
Definition tls_recs (l : tls) : list trec := tl_ccs l ++ tl_hs l ++ tl_app l ++ tl_alert l.

Lemma tls_serialize_eq fx l payload fixl csum junk :
  tls_serialize_gen fx l payload fixl csum junk =
  (Ok (md_flat (flat_map rec_chunks (tls_recs (tls_fixed fx fixl l))) ++ payload), tls_fixed fx fixl l).
Proof. unfold tls_serialize_gen. cbv zeta. rewrite md_emit_ok. reflexivity. Qed.

Lemma tls_serialize_no_panic fx l payload fixl csum junk : is_panic (fst (tls_serialize_gen fx l payload fixl csum junk)) = false.
Proof. rewrite tls_serialize_eq. reflexivity. Qed.

Lemma tls_serialize_junk_free fx l payload fixl csum junk1 junk2 :
  tls_serialize_gen fx l payload fixl csum junk1 = tls_serialize_gen fx l payload fixl csum junk2.
Proof. rewrite !tls_serialize_eq. reflexivity. Qed.
