(* Lemmas about the SIP decoder model (Model/LsipModel.v): safety, fuel, freshness. *)
From GP Require Import Base ListX Codec MiscLib MidLib LsipModel.
From Coq Require Import Lia ZifyBool ZifyNat.
Open Scope Z_scope.
Ltac Zify.zify_post_hook ::= Z.div_mod_to_equations.

Lemma cut_spec c : forall l a r, cut c l = Some (a, r) -> l = a ++ c :: r.
Proof.
  induction l as [|x t IH]; intros a r H; [discriminate|]. cbn [cut] in H.
  destruct (x =? c) eqn:E.
  - inversion H; subst. cbn. f_equal. lia.
  - destruct (cut c t) as [[a' r']|]; [|discriminate]. inversion H; subst. cbn. f_equal. apply IH. reflexivity.
Qed.

Lemma readline_len rest line rest' : readline rest = Some (line, rest') ->
  zlen line + zlen rest' = zlen rest /\ 1 <= zlen line.
Proof.
  unfold readline. destruct (cut 10 rest) as [[a r]|] eqn:E; [|discriminate]. intros H. inversion H; subst.
  apply cut_spec in E. subst rest. rewrite !zlen_app, !zlen_cons, zlen_nil. pose proof (zlen_nonneg a). pose proof (zlen_nonneg rest').
  lia.
Qed.

Lemma sp_first_line_inv s l : md_good (snd (sp_first_line s l)) /\ sp_clen (fst (sp_first_line s l)) = sp_clen s.
Proof.
  unfold sp_first_line.
  destruct (cut 32 l) as [[a r1]|]; [|split; [apply md_good_err; lia|reflexivity]].
  destruct (cut 32 r1) as [[b c]|]; [|split; [apply md_good_err; lia|reflexivity]].
  destruct (prefix _ a).
  - destruct (get_version a); [|split; [apply md_good_err; lia|reflexivity]].
    destruct (atoi b) as [code bad]. destruct bad; (split; [try apply md_good_ok; try (apply md_good_err; lia)|reflexivity]).
  - destruct (get_method a); [|split; [apply md_good_err; lia|reflexivity]].
    destruct (get_version c); (split; [try apply md_good_ok; try (apply md_good_err; lia)|reflexivity]).
Qed.

Lemma parse_pos_nonneg v x : parse_pos_int32 v = Some x -> 0 <= x.
Proof.
  unfold parse_pos_int32. destruct (signed v) as [y|]; [|discriminate].
  destruct ((y >? 2147483647) || (y <? -2147483648) || (y <? 0)) eqn:C; [discriminate|]. intros H; inversion H; subst. lia.
Qed.

Lemma sp_specific_inv s name value : -1 <= sp_clen s ->
  md_good (snd (sp_specific s name value)) /\ -1 <= sp_clen (fst (sp_specific s name value)).
Proof.
  intros Hc. unfold sp_specific.
  destruct (beq name _).
  { destruct (cut 32 value) as [[a r]|]; [|split; [apply md_good_ok|exact Hc]].
    destruct (parse_uint32 a); [|split; [apply md_good_err; lia|exact Hc]].
    destruct (sp_isresp _); [|split; [apply md_good_ok|exact Hc]].
    destruct (get_method _); (split; [try apply md_good_ok; try (apply md_good_err; lia)|exact Hc]). }
  destruct (beq name _).
  { destruct (parse_pos_int32 value) as [x|] eqn:E; (split; [try apply md_good_ok; try (apply md_good_err; lia)|cbn [fst sp_with_clen sp_clen]]).
    - apply parse_pos_nonneg in E. lia.
    - lia. }
  split; [apply md_good_ok|exact Hc].
Qed.

Lemma sp_header_inv s l : 0 < zlen l -> -1 <= sp_clen s ->
  md_good (snd (sp_header s l)) /\ -1 <= sp_clen (fst (sp_header s l)).
Proof.
  intros Hl Hc. unfold sp_header. rewrite cd_idx_ok by lia.
  destruct ((_ =? 9) || (_ =? 32)).
  { destruct (rev _) as [|lastv before]; (split; [try apply md_good_ok; try (apply md_good_err; lia)|exact Hc]). }
  destruct (cut 58 l) as [[a r]|] eqn:E; [|split; [apply md_good_ok|exact Hc]].
  apply cut_spec in E. pose proof (zlen_nonneg a). pose proof (zlen_nonneg r).
  assert (Hz : zlen l = zlen a + 1 + zlen r) by (rewrite E, zlen_app, zlen_cons; lia).
  rewrite !cd_slc_ok by lia.
  apply sp_specific_inv. exact Hc.
Qed.

Lemma sp_lines_inv : forall fuel s count offset rest, -1 <= sp_clen s -> zlen rest < Z.of_nat fuel ->
  let r := sp_lines fuel s count offset rest in
  md_good (snd (fst (fst r))) /\ -1 <= sp_clen (fst (fst (fst r))) /\ offset <= snd r <= offset + zlen rest.
Proof.
  induction fuel as [|f IH]; intros s count offset rest Hc Hf; [pose proof (zlen_nonneg rest); lia|].
  cbv zeta. cbn [sp_lines]. pose proof (zlen_nonneg rest) as Hr.
  destruct (readline rest) as [[line rest']|] eqn:E; [|cbn [fst snd]; repeat split; [discriminate|exact Hc|lia|lia]].
  apply readline_len in E as [E1 E2]. pose proof (zlen_nonneg rest') as Hr'.
  destruct (zlen (trimset is_crlf line) =? 0) eqn:C0.
  { destruct (count =? 0); cbn [fst snd]; (split; [try apply md_good_ok; try (apply md_good_err; lia)|split; [exact Hc|lia]]). }
  assert (Hstep : md_good (snd (if count =? 0 then sp_first_line s (trimset is_crlf line) else sp_header s (trimset is_crlf line))) /\
                  -1 <= sp_clen (fst (if count =? 0 then sp_first_line s (trimset is_crlf line) else sp_header s (trimset is_crlf line)))).
  { destruct (count =? 0).
    - destruct (sp_first_line_inv s (trimset is_crlf line)) as [G Ecl]. split; [exact G|lia].
    - apply sp_header_inv; [pose proof (zlen_nonneg (trimset is_crlf line)); lia|exact Hc]. }
  destruct (if count =? 0 then _ else _) as [s' o]. cbn [fst snd] in Hstep. destruct Hstep as [[G1 G2] Hc'].
  destruct o as [u|e|p]; [|cbn [fst snd]; split; [apply md_good_err; intros ->; apply G2; reflexivity|split; [exact Hc'|lia]]|discriminate].
  specialize (IH s' (count + 1) (offset + zlen line) rest' Hc' ltac:(lia)). cbv zeta in IH.
  destruct IH as [I1 [I2 I3]]. split; [exact I1|split; [exact I2|lia]].
Qed.

Lemma sp_decode_good old data : md_good (snd (fst (sp_decode_into old data))).
Proof.
  unfold sp_decode_into, sp_decode_gen. destruct (negb (ascii_ok data)); [apply md_good_err; lia|]. cbv zeta.
  pose proof (sp_lines_inv (S (length data)) (sp_reset old) 0 0 data ltac:(cbn; lia) ltac:(unfold zlen; lia)) as H. cbv zeta in H.
  destruct (sp_lines _ (sp_reset old) 0 0 data) as [[[s o] eoh] offset]. cbn [fst snd] in H. destruct H as [[G1 G2] [Hc Ho]].
  destruct o as [u|e|p]; [|apply md_good_err; intros ->; apply G2; reflexivity|discriminate].
  pose proof (zlen_nonneg data).
  destruct (sp_clen s =? -1) eqn:C1; [rewrite !cd_slc_ok by lia; apply md_good_ok|].
  destruct (sp_clen s =? 0) eqn:C2; [rewrite !cd_slc_ok by lia; apply md_good_ok|].
  destruct (zlen data <? offset + sp_clen s) eqn:C3; rewrite !cd_slc_ok by lia; apply md_good_ok.
Qed.

(* the repaired decoder reads of the receiver only BaseLayer (and replaces it when it succeeds) *)
Definition sp_keep (old : sip) : sip := mkSp (sp_contents old) (sp_payload old) 0 0 [] [] false 0 [] 0 0 [].

Lemma sp_decode_fresh old data :
  let r1 := sp_decode_into old data in let r2 := sp_decode_into (sp_keep old) data in
  snd (fst r1) = snd (fst r2) /\ snd r1 = snd r2 /\ (snd (fst r1) = Ok tt -> fst (fst r1) = fst (fst r2)).
Proof.
  cbv zeta. unfold sp_decode_into, sp_decode_gen. destruct (negb (ascii_ok data)); [repeat split; discriminate|].
  repeat split; reflexivity.
Qed.
