(* Deterministic evaluation of reader programs on a plain byte list ending in EOF (no allocation
   log), the bridge to run_f, and the byte-level lemmas used by the round-trip proof. *)
From GP Require Import Base NgModel NgIoProofs.
From Coq Require Import Lia ZifyBool ZifyNat.
Open Scope Z_scope.

Fixpoint run_d {A} (p : io A) (l : list Z) : A * list Z :=
  match p with
  | Ret a => (a, l)
  | Rd n k => if n <=? 0 then run_d (k [] RsOk) l
              else if n <=? zlen l then run_d (k (firstn (Z.to_nat n) l) RsOk) (skipn (Z.to_nat n) l)
              else run_d (k l RsEOF) []
  | Disc n k => if n <=? 0 then run_d (k RsOk) l
                else if n <=? zlen l then run_d (k RsOk) (skipn (Z.to_nat n) l)
                else run_d (k RsEOF) []
  | Until0 k => match split0 l with
                | Some (a, r) => run_d (k a RsOk) r
                | None => run_d (k l RsEOF) []
                end
  | Peek2 k => if 2 <=? zlen l then run_d (k (firstn 2 l) RsOk) l else run_d (k l RsEOF) l
  | Alloc _ _ _ k => run_d k l
  end.

Lemma run_f_d {A} (p : io A) : forall fs, flen fs = zlen (fdata fs) -> ffail fs = false ->
  fst (run_f p fs) = fst (run_d p (fdata fs)) /\ fdata (snd (run_f p fs)) = snd (run_d p (fdata fs)).
Proof.
  induction p as [a|n k IH|n k IH|k IH|k IH|a sn bl k IH]; intros fs Hl Hf; cbn [run_f run_d].
  - auto.
  - unfold f_read. rewrite Hl. destruct (n <=? 0) eqn:E0; [apply IH; auto|].
    destruct (n <=? zlen (fdata fs)) eqn:E1.
    + apply (IH _ _ (mkF (skipn (Z.to_nat n) (fdata fs)) (zlen (fdata fs) - n) (ffail fs) (fallocs fs))); cbn; auto.
      unfold zlen. rewrite skipn_length. unfold zlen in *. lia.
    + unfold fend. rewrite Hf. apply (IH _ _ (fdrain fs)); cbn; auto.
  - unfold f_disc. rewrite Hl. destruct (n <=? 0) eqn:E0; [apply IH; auto|].
    destruct (n <=? zlen (fdata fs)) eqn:E1.
    + apply (IH _ (mkF (skipn (Z.to_nat n) (fdata fs)) (zlen (fdata fs) - n) (ffail fs) (fallocs fs))); cbn; auto.
      unfold zlen. rewrite skipn_length. unfold zlen in *. lia.
    + unfold fend. rewrite Hf. apply (IH _ (fdrain fs)); cbn; auto.
  - unfold f_until0. destruct (split0 (fdata fs)) as [[a r]|] eqn:E.
    + apply (IH _ _ (mkF r (flen fs - zlen a) (ffail fs) (fallocs fs))); cbn; auto.
      apply split0_len in E. rewrite Hl, E, zlen_app. lia.
    + unfold fend. rewrite Hf. apply (IH _ _ (fdrain fs)); cbn; auto.
  - unfold f_peek2. rewrite Hl. destruct (2 <=? zlen (fdata fs)); [apply IH; auto|].
    unfold fend. rewrite Hf. apply IH; auto.
  - apply (IH (mkF (fdata fs) (flen fs) (ffail fs) ((a, sn, bl, flen fs) :: fallocs fs))); cbn; auto.
Qed.

Lemma session_flat_d ro d :
  fst (session_flat ro d false) = fst (run_d (session ro (fuel_for (zlen d))) d).
Proof. unfold session_flat. apply (run_f_d _ (fstream_of d false)); reflexivity. Qed.

Lemma run_d_bind {A B} (m : io A) (f : A -> io B) : forall l,
  run_d (iobind m f) l = let '(a, l') := run_d m l in run_d (f a) l'.
Proof.
  induction m as [a|n k IH|n k IH|k IH|k IH|a sn bl k IH]; intros l; cbn [iobind run_d].
  - reflexivity.
  - destruct (n <=? 0); [apply IH|]. destruct (n <=? zlen l); apply IH.
  - destruct (n <=? 0); [apply IH|]. destruct (n <=? zlen l); apply IH.
  - destruct (split0 l) as [[a r]|]; apply IH.
  - destruct (2 <=? zlen l); apply IH.
  - apply IH.
Qed.

(* ---- exec: a reader action on a state and an input *)
Definition exec {A} (m : SM A) (s : rst) (l : list Z) : (rst * outcome A) * list Z := run_d (m s) l.

Lemma exec_bind {A B} (m : SM A) (f : A -> SM B) s l :
  exec (sbind m f) s l =
  match exec m s l with
  | ((s', Ok a), l') => exec (f a) s' l'
  | ((s', Err c), l') => ((s', Err c), l')
  | ((s', Panic q), l') => ((s', Panic q), l')
  end.
Proof.
  unfold exec, sbind. rewrite run_d_bind. destruct (run_d (m s) l) as [[s' o] l']. cbn [fst snd].
  destruct o; reflexivity.
Qed.

Lemma exec_bind_ok {A B} (m : SM A) (f : A -> SM B) s l s' a l' :
  exec m s l = ((s', Ok a), l') -> exec (sbind m f) s l = exec (f a) s' l'.
Proof. intros H. rewrite exec_bind, H. reflexivity. Qed.

Lemma exec_sget s l : exec sget s l = ((s, Ok s), l). Proof. reflexivity. Qed.
Lemma exec_sret {A} (a : A) s l : exec (sret a) s l = ((s, Ok a), l). Proof. reflexivity. Qed.
Lemma exec_smod f s l : exec (smod f) s l = ((f s, Ok tt), l). Proof. reflexivity. Qed.
Lemma exec_sub_blen k s l : exec (sub_blen k) s l = ((set_blen s (u32 (r_blen s - k)), Ok tt), l). Proof. reflexivity. Qed.
Lemma exec_sfail {A} c s l : exec (@sfail A c) s l = ((s, Err c), l). Proof. reflexivity. Qed.
Lemma exec_s_alloc a sn s l : exec (s_alloc a sn) s l = ((s, Ok tt), l). Proof. reflexivity. Qed.

Lemma firstn_app_exact {X} (a r : list X) : firstn (length a) (a ++ r) = a.
Proof. rewrite firstn_app_le by lia. apply firstn_all. Qed.
Lemma skipn_app_exact {X} (a r : list X) : skipn (length a) (a ++ r) = r.
Proof. rewrite skipn_app_le by lia. rewrite skipn_all. reflexivity. Qed.

Lemma exec_rd_app k a r s : zlen a = k -> exec (s_rd k) s (a ++ r) = ((s, Ok a), r).
Proof.
  intros H. unfold exec, s_rd. cbn [run_d]. destruct (k <=? 0) eqn:E0.
  - assert (a = []) as -> by (destruct a; [reflexivity|unfold zlen in H; cbn in H; lia]). reflexivity.
  - rewrite zlen_app. pose proof (zlen_nonneg r).
    assert (k <=? zlen a + zlen r = true) as -> by lia.
    replace (Z.to_nat k) with (length a) by (unfold zlen in H; lia).
    rewrite firstn_app_exact, skipn_app_exact. reflexivity.
Qed.

Lemma exec_rd_short k l s : zlen l < k -> exec (s_rd k) s l = ((s, Err 2), []).
Proof.
  intros H. unfold exec, s_rd. cbn [run_d]. pose proof (zlen_nonneg l).
  assert (k <=? 0 = false) as -> by lia. assert (k <=? zlen l = false) as -> by lia. reflexivity.
Qed.

Lemma exec_disc_app k a r s : zlen a = k ->
  exec (s_disc k) s (a ++ r) = ((set_blen s (u32 (r_blen s - k)), Ok tt), r).
Proof.
  intros H. unfold exec, s_disc. cbn [run_d]. destruct (k <=? 0) eqn:E0.
  - assert (a = []) as -> by (destruct a; [reflexivity|unfold zlen in H; cbn in H; lia]). reflexivity.
  - rewrite zlen_app. pose proof (zlen_nonneg r).
    assert (k <=? zlen a + zlen r = true) as -> by lia.
    replace (Z.to_nat k) with (length a) by (unfold zlen in H; lia).
    rewrite skipn_app_exact. reflexivity.
Qed.

Lemma exec_disc_short k l s : zlen l < k -> exec (s_disc k) s l = ((s, Err 2), []).
Proof.
  intros H. unfold exec, s_disc. cbn [run_d]. pose proof (zlen_nonneg l).
  assert (k <=? 0 = false) as -> by lia. assert (k <=? zlen l = false) as -> by lia. reflexivity.
Qed.

(* ---- little-endian encoding *)
Lemma le_bytes_length n x : length (le_bytes n x) = n.
Proof. revert x; induction n; intros x; cbn; auto. Qed.
Lemma zlen_le_bytes n x : zlen (le_bytes n x) = Z.of_nat n.
Proof. unfold zlen. rewrite le_bytes_length. reflexivity. Qed.

Lemma le_val_le_bytes n : forall x, 0 <= x < 256 ^ Z.of_nat n -> le_val (le_bytes n x) = x.
Proof.
  induction n as [|n IH]; intros x Hx.
  - cbn in *. lia.
  - cbn [le_bytes le_val]. rewrite IH.
    + pose proof (Z.div_mod x 256). lia.
    + replace (Z.of_nat (S n)) with (Z.of_nat n + 1) in Hx by lia.
      rewrite Z.pow_add_r in Hx by lia. change (256 ^ 1) with 256 in Hx.
      split; [apply Z.div_pos; lia|]. apply Z.div_lt_upper_bound; lia.
Qed.

Lemma le_bytes_ok n : forall x, bytes_ok (le_bytes n x).
Proof.
  induction n as [|n IH]; intros x; cbn [le_bytes]; constructor; [|apply IH].
  unfold byte_ok. apply Z.mod_pos_bound. lia.
Qed.

Lemma zlen_zeros k : 0 <= k -> zlen (zeros k) = k.
Proof. intros H. unfold zlen, zeros. rewrite repeat_length. lia. Qed.

Lemma pad4_range n : 0 <= pad4 n < 4.
Proof. unfold pad4. apply Z.mod_pos_bound. lia. Qed.
Lemma pad4_aligned n : (n + pad4 n) mod 4 = 0.
Proof. unfold pad4. Z.div_mod_to_equations. lia. Qed.

(* ---- slices of concatenations *)
Lemma sl_0 (a r : list Z) n : length a = n -> sl (a ++ r) 0 n = a.
Proof. intros <-. unfold sl. cbn [skipn]. rewrite Nat.sub_0_r. apply firstn_app_exact. Qed.
Lemma sl_skip (a r : list Z) k i j : length a = k -> (k <= i)%nat -> sl (a ++ r) i j = sl r (i - k) (j - k).
Proof.
  intros <- H. unfold sl. rewrite skipn_app_ge by lia. f_equal. lia.
Qed.
Lemma sl_all (a : list Z) n : length a = n -> sl a 0 n = a.
Proof. intros <-. unfold sl. cbn [skipn]. rewrite Nat.sub_0_r. apply firstn_all. Qed.
