(* Lemmas about the PPP codec model (Model/LpppModel.v). *)
From GP Require Import Base ListX Codec MiscLib LpppModel.
From Coq Require Import Lia ZifyBool ZifyNat.
Open Scope Z_scope.
Ltac Zify.zify_post_hook ::= Z.div_mod_to_equations.

Lemma ppp_decode_no_panic data : is_panic (snd (fst (ppp_decode data))) = false.
Proof.
  unfold ppp_decode. cbv zeta. pose proof (zlen_nonneg data) as N.
  set (pptp := (2 <=? zlen data) && (nth 0 data 0 =? 255) && (nth 1 data 0 =? 3)).
  assert (Hp : pptp = true -> 2 <= zlen data) by (unfold pptp; intros H; apply andb_prop in H; destruct H as [H _]; apply andb_prop in H; lia).
  set (off := if pptp then 2 else 0).
  assert (Ho : 0 <= off <= 2) by (unfold off; destruct pptp; lia).
  destruct (zlen data <? off + 1) eqn:C1; [reflexivity|].
  rewrite cd_idx_ok by lia. cbn [ml_bind].
  match goal with |- context [if ?c then _ else _] => destruct c end.
  - destruct (zlen data <? off + 2) eqn:C2; [reflexivity|]. rewrite cd_idx_ok by lia. cbn [ml_bind].
    match goal with |- context [if ?c then _ else _] => destruct c end; [reflexivity|].
    rewrite !cd_slc_ok by lia. reflexivity.
  - rewrite !cd_slc_ok by lia. reflexivity.
Qed.

Definition ppp_typebytes (l : ppp) : list Z :=
  if (p_type l / 256) mod 2 =? 0 then cd_put16 (p_type l) else [p_type l mod 256].
Definition ppp_hdr (l : ppp) : list Z := (if p_pptp l then [255; 3] else []) ++ ppp_typebytes l.

Lemma ppp_serialize_spec l payload fixl csum junk : ppp_serialize l payload fixl csum junk = (Ok (ppp_hdr l ++ payload), l).
Proof.
  unfold ppp_serialize, ppp_hdr, ppp_typebytes. cbv zeta.
  assert (P : forall j, obind (ml_wrc (cd_region 2 j) 0 [255]) (fun b2 => obind (ml_wrc b2 1 [3]) (fun b2 => Ok (b2 ++ @nil Z))) = Ok [255; 3]).
  { intros j. pose proof (ml_tile_init 2 j ltac:(lia)) as T. do 2 ml_tile_step T.
    apply ml_tile_done in T; [|reflexivity]. subst. reflexivity. }
  destruct ((p_type l / 256) mod 2 =? 0).
  - pose proof (ml_tile_init 2 junk ltac:(lia)) as T. ml_tile_step T. apply ml_tile_done in T; [|reflexivity]. subst b.
    destruct (p_pptp l); [|reflexivity].
    pose proof (ml_tile_init 2 (skipn (Z.to_nat 2) junk) ltac:(lia)) as T2. do 2 ml_tile_step T2.
    apply ml_tile_done in T2; [|reflexivity]. subst. reflexivity.
  - pose proof (ml_tile_init 1 junk ltac:(lia)) as T. ml_tile_step T. apply ml_tile_done in T; [|reflexivity]. subst b.
    destruct (p_pptp l); [|reflexivity].
    pose proof (ml_tile_init 2 (skipn (Z.to_nat 1) junk) ltac:(lia)) as T2. do 2 ml_tile_step T2.
    apply ml_tile_done in T2; [|reflexivity]. subst. reflexivity.
Qed.

Lemma ppp_serialize_junk_free l payload fixl csum junk1 junk2 :
  ppp_serialize l payload fixl csum junk1 = ppp_serialize l payload fixl csum junk2.
Proof. rewrite !ppp_serialize_spec. reflexivity. Qed.

Lemma ppp_serialize_no_panic l payload fixl csum junk : is_panic (fst (ppp_serialize l payload fixl csum junk)) = false.
Proof. rewrite ppp_serialize_spec. reflexivity. Qed.

(* C06 hypothesis: a protocol number as RFC 1661 defines them and the decoder accepts them:
   16 bits, least significant octet odd, most significant octet even *)
Definition ppp_wf (l : ppp) : Prop := 0 <= p_type l < 65536 /\ p_type l mod 2 = 1 /\ (p_type l / 256) mod 2 = 0.

Lemma ppp_roundtrip l payload fixl csum junk bytes l' :
  ppp_wf l -> ppp_serialize l payload fixl csum junk = (Ok bytes, l') ->
  l' = l /\ bytes = ppp_hdr l ++ payload /\
  ppp_decode bytes = (mkPpp (cd_put16 (p_type l)) payload (p_type l) (p_pptp l), Ok tt, false).
Proof.
  intros [Ht [Ho He]]. rewrite ppp_serialize_spec. intros X.
  assert (E1 : bytes = ppp_hdr l ++ payload) by congruence. assert (E2 : l' = l) by congruence. clear X.
  split; [exact E2|]. split; [exact E1|]. subst bytes l'.
  pose proof (zlen_nonneg payload) as Np.
  unfold ppp_hdr, ppp_typebytes. replace ((p_type l / 256) mod 2 =? 0) with true by lia.
  set (hi := (p_type l / 256) mod 256). set (lo := p_type l mod 256).
  assert (Hhi : 0 <= hi < 256 /\ hi mod 2 = 0) by (unfold hi; lia).
  assert (Hlo : 0 <= lo < 256 /\ lo mod 2 = 1) by (unfold lo; lia).
  assert (Hty : hi * 256 + lo = p_type l) by (unfold hi, lo; lia).
  change (cd_put16 (p_type l)) with [hi; lo].
  destruct (p_pptp l).
  - cbn [app]. unfold ppp_decode. cbv zeta.
    assert (Hn : zlen (255 :: 3 :: hi :: lo :: payload) = 4 + zlen payload) by (rewrite !zlen_cons; lia).
    cbn [nth]. replace (2 <=? zlen (255 :: 3 :: hi :: lo :: payload)) with true by lia.
    cbn [andb Z.eqb Pos.eqb]. rewrite Hn.
    destruct (4 + zlen payload <? 2 + 1) eqn:C1; [lia|].
    rewrite !cd_idx_ok by lia. cbn [ml_bind]. change (Z.to_nat 2) with 2%nat; change (Z.to_nat (2 + 1)) with 3%nat. cbn [nth].
    replace (hi mod 2 =? 0) with true by lia.
    destruct (4 + zlen payload <? 2 + 2) eqn:C2; [lia|]. cbn [ml_bind].
    replace (lo mod 2 =? 0) with false by lia.
    rewrite !cd_slc_ok by lia. cbn [ml_bind].
    assert (S1 : slice (255 :: 3 :: hi :: lo :: payload) (Z.to_nat 2) (Z.to_nat (2 + 2)) = [hi; lo]).
    { change (255 :: 3 :: hi :: lo :: payload) with ([255; 3] ++ [hi; lo] ++ payload). apply slice_at; reflexivity. }
    assert (S2 : slice (255 :: 3 :: hi :: lo :: payload) (Z.to_nat (2 + 2)) (Z.to_nat (4 + zlen payload)) = payload).
    { change (255 :: 3 :: hi :: lo :: payload) with ([255; 3; hi; lo] ++ payload). apply slice_to_end; [reflexivity|]. cbn [length]. unfold zlen. lia. }
    rewrite S1, S2, Hty. reflexivity.
  - cbn [app]. unfold ppp_decode. cbv zeta.
    assert (Hn : zlen (hi :: lo :: payload) = 2 + zlen payload) by (rewrite !zlen_cons; lia).
    cbn [nth]. replace (hi =? 255) with false by lia. rewrite andb_false_r. cbn [andb]. rewrite Hn.
    destruct (2 + zlen payload <? 0 + 1) eqn:C1; [lia|].
    rewrite !cd_idx_ok by lia. cbn [ml_bind]. change (Z.to_nat 0) with 0%nat; change (Z.to_nat (0 + 1)) with 1%nat. cbn [nth].
    replace (hi mod 2 =? 0) with true by lia.
    destruct (2 + zlen payload <? 0 + 2) eqn:C2; [lia|]. cbn [ml_bind].
    replace (lo mod 2 =? 0) with false by lia.
    rewrite !cd_slc_ok by lia. cbn [ml_bind].
    assert (S1 : slice (hi :: lo :: payload) (Z.to_nat 0) (Z.to_nat (0 + 2)) = [hi; lo]).
    { change (hi :: lo :: payload) with ([hi; lo] ++ payload). apply slice_from_start; reflexivity. }
    assert (S2 : slice (hi :: lo :: payload) (Z.to_nat (0 + 2)) (Z.to_nat (2 + zlen payload)) = payload).
    { change (hi :: lo :: payload) with ([hi; lo] ++ payload). apply slice_to_end; [reflexivity|]. cbn [length]. unfold zlen. lia. }
    rewrite S1, S2, Hty. reflexivity.
Qed.

Lemma ppp_decoded_wf data l tr : bytes_ok data -> ppp_decode data = (l, Ok tt, tr) -> ppp_wf l.
Proof.
  intros Hb. unfold ppp_decode. cbv zeta. pose proof (zlen_nonneg data) as N.
  set (pptp := (2 <=? zlen data) && (nth 0 data 0 =? 255) && (nth 1 data 0 =? 3)).
  assert (Hp : pptp = true -> 2 <= zlen data) by (unfold pptp; intros H; apply andb_prop in H; destruct H as [H _]; apply andb_prop in H; lia).
  set (off := if pptp then 2 else 0).
  assert (Ho : 0 <= off <= 2) by (unfold off; destruct pptp; lia).
  destruct (zlen data <? off + 1) eqn:C1; [discriminate|].
  rewrite cd_idx_ok by lia. cbn [ml_bind].
  pose proof (bytes_ok_nth data (Z.to_nat off) Hb) as B0. pose proof (bytes_ok_nth data (Z.to_nat (off + 1)) Hb) as B1.
  destruct (nth (Z.to_nat off) data 0 mod 2 =? 0) eqn:E0.
  - destruct (zlen data <? off + 2) eqn:C2; [discriminate|]. rewrite cd_idx_ok by lia. cbn [ml_bind].
    destruct (nth (Z.to_nat (off + 1)) data 0 mod 2 =? 0) eqn:E1; [discriminate|].
    rewrite !cd_slc_ok by lia. cbn [ml_bind]. intros X.
    match type of X with (?t, _, _) = _ => assert (El : l = t) by congruence end. subst l. clear X.
    unfold ppp_wf. cbn [p_type]. lia.
  - rewrite !cd_slc_ok by lia. cbn [ml_bind]. intros X.
    match type of X with (?t, _, _) = _ => assert (El : l = t) by congruence end. subst l. clear X.
    unfold ppp_wf. cbn [p_type]. lia.
Qed.
