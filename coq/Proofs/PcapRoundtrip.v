(* C14 for classic pcap: the record encoding is self-delimiting; round trip and true prefix *)
From GP Require Import Base BytesLE PcapModel PcapStream.
From Coq Require Import Lia ZifyBool ZifyNat.
Open Scope Z_scope.

Definition pkt_ok (snaplen : Z) (p : pkt) : Prop :=
  p_caplen p = Z.of_nat (length (p_data p)) /\ p_caplen p <= p_len p /\ p_len p < 4294967296 /\
  p_caplen p <= snaplen /\ 0 <= p_sec p < 4294967296 /\ 0 <= p_nsec p < 1000000000.

(* what is read back: the timestamp at the file's resolution *)
Definition rd_pkt (nano : bool) (p : pkt) : rpkt :=
  {| k_sec := p_sec p; k_nsec := p_nsec p / scaler nano * scaler nano;
     k_caplen := p_caplen p; k_len := p_len p; k_data := p_data p |}.

Definition rd_matches (rd : rstate) (be nano : bool) (snaplen : Z) : Prop :=
  r_be rd = be /\ r_factor rd = scaler nano /\ r_snaplen rd = snaplen.

Definition reclen (p : pkt) : nat := (16 + length (p_data p))%nat.

Lemma put32_length (be : bool) (x : Z) : length (put32 be x) = 4%nat.
Proof. unfold put32. destruct be; [apply be_bytes_length|apply le_bytes_length]. Qed.
Lemma put16_length (be : bool) (x : Z) : length (put16 be x) = 2%nat.
Proof. unfold put16. destruct be; [apply be_bytes_length|apply le_bytes_length]. Qed.

Lemma val_put32 (be : bool) (x : Z) : (if be then be_val else le_val) (put32 be x) = x mod 4294967296.
Proof. unfold put32. destruct be; [rewrite be_val_be_bytes|rewrite le_val_le_bytes]; reflexivity. Qed.
Lemma val_put16 (be : bool) (x : Z) : (if be then be_val else le_val) (put16 be x) = x mod 65536.
Proof. unfold put16. destruct be; [rewrite be_val_be_bytes|rewrite le_val_le_bytes]; reflexivity. Qed.

Lemma enc_record_length be nano p : length (enc_record be nano p) = reclen p.
Proof. unfold enc_record, reclen. rewrite !app_length, !put32_length. lia. Qed.

(* the four fields of a 16-byte record header *)
Lemma rec_hdr_fields be a b c d :
  let h := put32 be a ++ put32 be b ++ put32 be c ++ put32 be d in
  length h = 16%nat /\
  u32f be h 0 = a mod 4294967296 /\ u32f be h 4 = b mod 4294967296 /\
  u32f be h 8 = c mod 4294967296 /\ u32f be h 12 = d mod 4294967296.
Proof.
  intros h. subst h. split; [rewrite !app_length, !put32_length; reflexivity|].
  unfold u32f. cbn [Nat.add]. repeat split.
  - pose proof (slice_app_mid [] (put32 be a) (put32 be b ++ put32 be c ++ put32 be d) 0 4 eq_refl) as H.
    cbn [app length] in H. rewrite H by (rewrite put32_length; reflexivity). apply val_put32.
  - rewrite (slice_app_mid (put32 be a) (put32 be b) _ 4 8) by (rewrite ?put32_length; reflexivity). apply val_put32.
  - replace (put32 be a ++ put32 be b ++ put32 be c ++ put32 be d)
      with ((put32 be a ++ put32 be b) ++ put32 be c ++ put32 be d) by (rewrite <- app_assoc; reflexivity).
    rewrite (slice_app_mid _ (put32 be c) _ 8 12) by (rewrite ?app_length, ?put32_length; reflexivity). apply val_put32.
  - replace (put32 be a ++ put32 be b ++ put32 be c ++ put32 be d)
      with ((put32 be a ++ put32 be b ++ put32 be c) ++ put32 be d ++ []) by (rewrite app_nil_r, <- !app_assoc; reflexivity).
    rewrite (slice_app_mid _ (put32 be d) _ 12 16) by (rewrite ?app_length, ?put32_length; reflexivity). apply val_put32.
Qed.

(* ---------------------------------------------------------------- read_full on known bytes *)
Lemma read_full_exact n a r s : flat s = a ++ r -> n = Z.of_nat (length a) ->
  exists s', read_full n s = (Ok a, s') /\ flat s' = r /\ failed s' = failed s.
Proof.
  intros Hf Hn. destruct (read_full_spec n s) as (A1 & A2 & A3).
  destruct (read_full n s) as [res s']. cbn [fst snd] in *. exists s'.
  unfold tstat_of in A3. rewrite Hf in *. rewrite app_length in A3.
  destruct (n <=? _) eqn:E; [|lia].
  subst n. rewrite Nat2Z.id in *. rewrite firstn_app_exact in A3 by reflexivity.
  rewrite skipn_app_exact in A1 by reflexivity. subst res. auto.
Qed.

Lemma read_full_short n l s : flat s = l -> Z.of_nat (length l) < n -> failed s = false ->
  exists s', read_full n s = (Err (match l with [] => E_EOF | _ => E_UEOF end), s').
Proof.
  intros Hf Hn Hb. destruct (read_full_spec n s) as (A1 & A2 & A3).
  destruct (read_full n s) as [res s']. cbn [fst snd] in *. exists s'.
  unfold tstat_of in A3. rewrite Hf, Hb in *.
  destruct (n <=? _) eqn:E; [lia|].
  rewrite firstn_all2 in A3 by lia. subst res. reflexivity.
Qed.

(* ---------------------------------------------------------------- one record *)
Lemma ts_roundtrip nano sec nsec : 0 <= sec < 4294967296 -> 0 <= nsec < 1000000000 ->
  mk_ts (sec mod 4294967296) ((nsec / scaler nano) mod 4294967296) (scaler nano) =
  (sec, nsec / scaler nano * scaler nano).
Proof.
  intros Hs Hn. unfold mk_ts, u32, NS.
  assert (Hsc : scaler nano = 1 \/ scaler nano = 1000) by (destruct nano; auto).
  assert (Hq : 0 <= nsec / scaler nano * scaler nano <= nsec).
  { destruct Hsc as [-> | ->]; [rewrite Z.div_1_r; lia|]. pose proof (Z.mul_div_le nsec 1000 ltac:(lia)).
    pose proof (Z.div_pos nsec 1000 ltac:(lia) ltac:(lia)). lia. }
  assert (Hd : 0 <= nsec / scaler nano < 4294967296).
  { destruct Hsc as [-> | ->]; [rewrite Z.div_1_r; lia|].
    pose proof (Z.div_pos nsec 1000 ltac:(lia) ltac:(lia)). pose proof (Z.div_le_upper_bound nsec 1000 1000000000 ltac:(lia) ltac:(lia)). lia. }
  rewrite (Z.mod_small sec) by lia.
  rewrite (Z.mod_small (nsec / scaler nano)) by lia.
  rewrite (Z.mod_small (nsec / scaler nano * scaler nano)) by lia.
  rewrite Z.div_small by lia. rewrite Z.mod_small by lia. f_equal. lia.
Qed.

Lemma read_record_ok zc be nano snaplen rd p s r :
  rd_matches rd be nano snaplen -> pkt_ok snaplen p ->
  flat s = enc_record be nano p ++ r ->
  exists rd' s' al, read_packet zc rd s = (Ok (rd_pkt nano p), rd', s', al) /\
     rd_matches rd' be nano snaplen /\ flat s' = r /\ failed s' = failed s.
Proof.
  intros (Hbe & Hfac & Hsn) (Hcap & Hcl & Hl32 & Hcs & Hsec & Hns) Hf.
  unfold read_packet, enc_record in *.
  set (h := put32 be (p_sec p) ++ put32 be (p_nsec p / scaler nano) ++ put32 be (p_caplen p) ++ put32 be (p_len p)).
  destruct (rec_hdr_fields be (p_sec p) (p_nsec p / scaler nano) (p_caplen p) (p_len p)) as (Hl & F0 & F4 & F8 & F12).
  fold h in Hl, F0, F4, F8, F12.
  assert (Hf' : flat s = h ++ (p_data p ++ r)) by (rewrite Hf; unfold h; rewrite <- !app_assoc; reflexivity).
  destruct (read_full_exact 16 h (p_data p ++ r) s Hf' ltac:(lia)) as (s1 & -> & Hf1 & Hb1).
  rewrite Hbe, Hfac, Hsn, F0, F4, F8, F12.
  assert (Hc0 : 0 <= p_caplen p) by lia.
  rewrite (Z.mod_small (p_caplen p)) by lia. rewrite (Z.mod_small (p_len p)) by lia.
  rewrite ts_roundtrip by assumption.
  destruct (snaplen <? p_caplen p) eqn:E1; [lia|].
  destruct (p_len p <? p_caplen p) eqn:E2; [lia|].
  destruct (read_full_exact (p_caplen p) (p_data p) r s1 Hf1 Hcap) as (s2 & Hr2 & Hf2 & Hb2).
  destruct zc.
  - destruct (r_pcap rd <? p_caplen p) eqn:E3.
    + cbn [existsb]. destruct (Z.max snaplen (p_caplen p) <? 0) eqn:E4; [lia|]. cbn [orb andb r_pcap set_pcap].
      destruct (Z.max snaplen (p_caplen p) <? p_caplen p) eqn:E5; [lia|].
      rewrite Hr2. eexists; eexists; eexists. split; [reflexivity|]. split; [|split; [assumption|congruence]].
      unfold rd_matches. cbn. auto.
    + cbn [existsb andb]. rewrite E3. rewrite Hr2.
      eexists; eexists; eexists. split; [reflexivity|]. split; [|split; [assumption|congruence]].
      unfold rd_matches. auto.
  - cbn [existsb andb]. destruct (p_caplen p <? 0) eqn:E4; [lia|]. cbn [orb]. rewrite Hr2.
    eexists; eexists; eexists. split; [reflexivity|]. split; [|split; [assumption|congruence]].
    unfold rd_matches. auto.
Qed.


Lemma read_record_empty zc rd s : flat s = [] -> failed s = false ->
  exists rd' s' al, read_packet zc rd s = (Err E_EOF, rd', s', al).
Proof.
  intros Hf Hb. unfold read_packet.
  destruct (read_full_short 16 [] s Hf ltac:(cbn; lia) Hb) as (s1 & ->).
  eexists; eexists; eexists; reflexivity.
Qed.

Lemma read_record_cut zc be nano snaplen rd p s k :
  rd_matches rd be nano snaplen -> pkt_ok snaplen p -> (0 < k < reclen p)%nat ->
  flat s = firstn k (enc_record be nano p) -> failed s = false ->
  exists rd' s' al, read_packet zc rd s = (Err E_UEOF, rd', s', al).
Proof.
  intros (Hbe & Hfac & Hsn) (Hcap & Hcl & Hl32 & Hcs & Hsec & Hns) Hk Hf Hb.
  unfold read_packet, enc_record, reclen in *.
  set (h := put32 be (p_sec p) ++ put32 be (p_nsec p / scaler nano) ++ put32 be (p_caplen p) ++ put32 be (p_len p)).
  destruct (rec_hdr_fields be (p_sec p) (p_nsec p / scaler nano) (p_caplen p) (p_len p)) as (Hl & F0 & F4 & F8 & F12).
  fold h in Hl, F0, F4, F8, F12.
  assert (Hf' : flat s = firstn k (h ++ p_data p)) by (rewrite Hf; unfold h; rewrite <- !app_assoc; reflexivity).
  destruct (Nat.lt_ge_cases k 16) as [Hlt|Hge].
  - (* inside the record header *)
    assert (Hlen : length (flat s) = k) by (rewrite Hf', firstn_length, app_length; lia).
    destruct (read_full_short 16 (flat s) s eq_refl ltac:(lia) Hb) as (s1 & ->).
    destruct (flat s) eqn:E; [cbn in Hlen; lia|].
    eexists; eexists; eexists; reflexivity.
  - (* inside the data *)
    rewrite firstn_app, Hl in Hf'. rewrite (firstn_all2 h) in Hf' by lia.
    destruct (read_full_exact 16 h _ s Hf' ltac:(lia)) as (s1 & -> & Hf1 & Hb1).
    rewrite Hbe, Hsn, F8, F12.
    assert (Hc0 : 0 <= p_caplen p) by lia.
    rewrite (Z.mod_small (p_caplen p)) by lia. rewrite (Z.mod_small (p_len p)) by lia.
    destruct (snaplen <? p_caplen p) eqn:E1; [lia|].
    destruct (p_len p <? p_caplen p) eqn:E2; [lia|].
    assert (Hshort : Z.of_nat (length (firstn (k - 16) (p_data p))) < p_caplen p) by (rewrite firstn_length; lia).
    destruct (read_full_short (p_caplen p) _ s1 Hf1 Hshort ltac:(congruence)) as (s2 & Hr2).
    assert (Hcls : forall l : list Z, (if (match l with [] => E_EOF | _ => E_UEOF end) =? E_EOF then E_UEOF
                         else (match l with [] => E_EOF | _ => E_UEOF end)) = E_UEOF) by (intros [|]; reflexivity).
    destruct zc.
    + destruct (r_pcap rd <? p_caplen p) eqn:E3.
      * cbn [existsb]. destruct (Z.max snaplen (p_caplen p) <? 0) eqn:E4; [lia|]. cbn [orb andb r_pcap set_pcap].
        destruct (Z.max snaplen (p_caplen p) <? p_caplen p) eqn:E5; [lia|].
        rewrite Hr2, Hcls. eexists; eexists; eexists; reflexivity.
      * cbn [existsb andb]. rewrite E3, Hr2, Hcls. eexists; eexists; eexists; reflexivity.
    + cbn [existsb andb]. destruct (p_caplen p <? 0) eqn:E4; [lia|]. cbn [orb]. rewrite Hr2, Hcls.
      eexists; eexists; eexists; reflexivity.
Qed.

(* ---------------------------------------------------------------- a sequence of records *)
Definition body (be nano : bool) (ps : list pkt) : list Z := concat (map (enc_record be nano) ps).

(* the packets wholly contained in the first k bytes of the body, and whether k is a record boundary *)
Fixpoint whole (k : nat) (ps : list pkt) : list pkt :=
  match ps with
  | [] => []
  | p :: t => if (reclen p <=? k)%nat then p :: whole (k - reclen p) t else []
  end.
Fixpoint at_boundary (k : nat) (ps : list pkt) : bool :=
  match k with
  | O => true
  | _ => match ps with
         | [] => true
         | p :: t => if (reclen p <=? k)%nat then at_boundary (k - reclen p) t else false
         end
  end.

Lemma body_length be nano ps : length (body be nano ps) = fold_right (fun p n => (reclen p + n)%nat) 0%nat ps.
Proof.
  induction ps as [|p t IH]; [reflexivity|]. unfold body in *. cbn [map concat fold_right].
  rewrite app_length, enc_record_length, IH. reflexivity.
Qed.

Lemma drain_prefix zc be nano snaplen : forall ps k rd s fuel,
  Forall (pkt_ok snaplen) ps -> (k <= length (body be nano ps))%nat ->
  flat s = firstn k (body be nano ps) -> failed s = false ->
  rd_matches rd be nano snaplen -> (length ps < fuel)%nat ->
  map fst (fst (drain (read_packet zc) fuel rd s)) =
    map (fun p => Ok (rd_pkt nano p)) (whole k ps) ++ [Err (if at_boundary k ps then E_EOF else E_UEOF)] /\
  snd (drain (read_packet zc) fuel rd s) = true.
Proof.
  induction ps as [|p t IH]; intros k rd s fuel Hok Hk Hf Hb Hrd Hfuel.
  - destruct fuel as [|f]; [cbn in Hfuel; lia|].
    assert (Hf0 : flat s = []) by (rewrite Hf; unfold body; cbn; apply firstn_nil).
    destruct (read_record_empty zc rd s Hf0 Hb) as (rd' & s' & al & Hr).
    cbn [drain]. rewrite Hr. cbn [is_io_err E_EOF Z.eqb Pos.eqb orb fst snd map whole app].
    destruct k; cbn [at_boundary]; auto.
  - destruct fuel as [|f]; [cbn in Hfuel; lia|].
    inversion Hok as [|? ? Hp Ht]; subst.
    unfold body in Hk, Hf. cbn [map concat] in Hk, Hf. fold (body be nano t) in Hk, Hf.
    rewrite app_length, enc_record_length in Hk.
    assert (Hrl : (16 <= reclen p)%nat) by (unfold reclen; lia).
    cbn [drain whole].
    destruct k as [|k'].
    + (* cut at the start of this record *)
      assert (Hf0 : flat s = []) by (rewrite Hf; reflexivity).
      destruct (read_record_empty zc rd s Hf0 Hb) as (rd' & s' & al & Hr).
      rewrite Hr. cbn [is_io_err E_EOF Z.eqb Pos.eqb orb fst snd map app at_boundary].
      destruct (reclen p <=? 0)%nat eqn:E; [lia|]. auto.
    + remember (S k') as k eqn:Ek.
      destruct (reclen p <=? k)%nat eqn:E.
      * (* the whole record is present *)
        rewrite firstn_app, enc_record_length in Hf.
        rewrite firstn_all2 in Hf by (rewrite enc_record_length; lia).
        destruct (read_record_ok zc be nano snaplen rd p s _ Hrd Hp Hf) as (rd' & s' & al & Hr & Hrd' & Hf' & Hb').
        rewrite Hr.
        specialize (IH (k - reclen p)%nat rd' s' f Ht ltac:(lia) Hf' ltac:(congruence) Hrd' ltac:(cbn in Hfuel; lia)).
        destruct (drain (read_packet zc) f rd' s') as [l fin]. cbn [fst snd map] in *.
        destruct IH as [IH1 IH2]. rewrite IH1. split; [|assumption].
        subst k. cbn [at_boundary]. rewrite E. reflexivity.
      * (* cut inside this record *)
        assert (Hf1 : flat s = firstn k (enc_record be nano p)).
        { rewrite Hf, firstn_app, enc_record_length. replace (k - reclen p)%nat with 0%nat by lia.
          cbn [firstn]. apply app_nil_r. }
        destruct (read_record_cut zc be nano snaplen rd p s k Hrd Hp ltac:(lia) Hf1 Hb) as (rd' & s' & al & Hr).
        rewrite Hr. cbn [is_io_err E_UEOF E_EOF E_IO Z.eqb Pos.eqb orb fst snd map app].
        subst k. cbn [at_boundary]. rewrite E. auto.
Qed.

(* ---------------------------------------------------------------- the file header *)

Lemma file_hdr_fields be m v1 v2 sn lt :
  let h := put32 be m ++ put16 be v1 ++ put16 be v2 ++ repeat 0 8 ++ put32 be sn ++ put32 be lt in
  length h = 24%nat /\ firstn 2 h = firstn 2 (put32 be m) /\
  slice h 0 4 = put32 be m /\ u16f be h 4 = v1 mod 65536 /\ u16f be h 6 = v2 mod 65536 /\
  u32f be h 16 = sn mod 4294967296 /\ u32f be h 20 = lt mod 4294967296.
Proof.
  intros h. subst h.
  split; [rewrite !app_length, !put32_length, !put16_length, repeat_length; reflexivity|].
  split.
  { rewrite firstn_app, put32_length. cbn [Nat.sub firstn]. apply app_nil_r. }
  unfold u32f, u16f. cbn [Nat.add]. repeat split.
  - pose proof (slice_app_mid [] (put32 be m) (put16 be v1 ++ put16 be v2 ++ repeat 0 8 ++ put32 be sn ++ put32 be lt) 0 4 eq_refl) as H.
    cbn [app length] in H. apply H. rewrite put32_length; reflexivity.
  - rewrite (slice_app_mid (put32 be m) (put16 be v1) _ 4 6) by (rewrite ?put32_length, ?put16_length; reflexivity).
    apply val_put16.
  - replace (put32 be m ++ put16 be v1 ++ put16 be v2 ++ repeat 0 8 ++ put32 be sn ++ put32 be lt)
      with ((put32 be m ++ put16 be v1) ++ put16 be v2 ++ repeat 0 8 ++ put32 be sn ++ put32 be lt)
      by (rewrite <- !app_assoc; reflexivity).
    rewrite (slice_app_mid _ (put16 be v2) _ 6 8) by (rewrite ?app_length, ?put32_length, ?put16_length; reflexivity).
    apply val_put16.
  - replace (put32 be m ++ put16 be v1 ++ put16 be v2 ++ repeat 0 8 ++ put32 be sn ++ put32 be lt)
      with ((put32 be m ++ put16 be v1 ++ put16 be v2 ++ repeat 0 8) ++ put32 be sn ++ put32 be lt)
      by (rewrite <- !app_assoc; reflexivity).
    rewrite (slice_app_mid _ (put32 be sn) _ 16 20) by (rewrite ?app_length, ?put32_length, ?put16_length, ?repeat_length; reflexivity).
    apply val_put32.
  - replace (put32 be m ++ put16 be v1 ++ put16 be v2 ++ repeat 0 8 ++ put32 be sn ++ put32 be lt)
      with ((put32 be m ++ put16 be v1 ++ put16 be v2 ++ repeat 0 8 ++ put32 be sn) ++ put32 be lt ++ [])
      by (rewrite app_nil_r, <- !app_assoc; reflexivity).
    rewrite (slice_app_mid _ (put32 be lt) _ 20 24) by (rewrite ?app_length, ?put32_length, ?put16_length, ?repeat_length; reflexivity).
    apply val_put32.
Qed.

Lemma enc_file_header_length be nano snaplen lt : length (enc_file_header be nano snaplen lt) = 24%nat.
Proof. unfold enc_file_header. rewrite !app_length, !put32_length, !put16_length, repeat_length. reflexivity. Qed.

Lemma new_reader_header be nano snaplen lt s k rest :
  0 <= snaplen < 4294967296 -> 0 <= lt < 65536 ->
  flat s = firstn k (enc_file_header be nano snaplen lt ++ rest) -> failed s = false ->
  (24 <= k)%nat ->
  exists rd s', new_reader s = (Ok rd, s', [24]) /\ rd_matches rd be nano snaplen /\ r_lt rd = lt /\
      r_pcap rd = 0 /\ flat s' = firstn (k - 24) rest /\ failed s' = false.
Proof.
  intros Hsn Hlt Hf Hb Hk.
  rewrite firstn_app, enc_file_header_length in Hf.
  rewrite firstn_all2 in Hf by (rewrite enc_file_header_length; lia).
  unfold enc_file_header in Hf.
  set (m := if nano then MAGIC_NS else MAGIC_US) in *.
  destruct (file_hdr_fields be m 2 4 snaplen lt) as (Hl & H2 & Hm & Hv1 & Hv2 & Hs & Hlt').
  set (h := put32 be m ++ put16 be 2 ++ put16 be 4 ++ repeat 0 8 ++ put32 be snaplen ++ put32 be lt) in *.
  unfold new_reader.
  destruct (take_spec s 2) as (T1 & _ & _ & T4).
  destruct (take 2 s) as [[b2 s0] st2]. cbn [fst snd] in T1, T4.
  unfold tstat_of in T4. rewrite Hf in T1, T4. rewrite app_length, Hl in T4.
  destruct (2 <=? _) eqn:E2 in T4; [|lia]. subst st2.
  change (Z.to_nat 2) with 2%nat in T1. rewrite firstn_app, Hl in T1. replace (2 - 24)%nat with 0%nat in T1 by reflexivity. rewrite firstn_O, app_nil_r, H2 in T1.
  assert (Hgz : is_gzip b2 = false).
  { subst b2 m. destruct be, nano; vm_compute; reflexivity. }
  rewrite Hgz.
  destruct (read_full_exact 24 h _ s Hf ltac:(lia)) as (s1 & -> & Hf1 & Hb1).
  assert (Hmagic : u32f false h 0 = le_val (put32 be m)) by (unfold u32f; cbn [Nat.add]; rewrite Hm; reflexivity).
  rewrite Hmagic. cbv zeta.
  assert (Hmk : forall factor, factor = scaler nano ->
     (if negb (u16f be h 4 =? 2) then (Err E_FMT, s1, [24])
      else if negb (u16f be h 6 =? 4) then (Err E_FMT, s1, [24])
      else (Ok {| r_be := be; r_factor := factor; r_snaplen := u32f be h 16; r_lt := u16 (u32f be h 20); r_pcap := 0 |}, s1, [24]))
     = (Ok {| r_be := be; r_factor := scaler nano; r_snaplen := snaplen; r_lt := lt; r_pcap := 0 |}, s1, [24])).
  { intros factor ->. rewrite Hv1, Hv2, Hs, Hlt'. cbn [negb Z.eqb Pos.eqb Z.modulo Z.div_eucl Z.pos_div_eucl].
    change (2 mod 65536 =? 2) with true. change (4 mod 65536 =? 4) with true. cbn [negb].
    unfold u16. rewrite (Z.mod_small snaplen) by lia. rewrite (Z.mod_small lt) by lia. rewrite (Z.mod_small lt) by lia.
    reflexivity. }
  assert (Hres : (if le_val (put32 be m) =? MAGIC_NS then
            (if negb (u16f false h 4 =? 2) then (Err E_FMT, s1, [24])
             else if negb (u16f false h 6 =? 4) then (Err E_FMT, s1, [24])
             else (Ok {| r_be := false; r_factor := 1; r_snaplen := u32f false h 16; r_lt := u16 (u32f false h 20); r_pcap := 0 |}, s1, [24]))
          else if le_val (put32 be m) =? MAGIC_NS_BE then
            (if negb (u16f true h 4 =? 2) then (Err E_FMT, s1, [24])
             else if negb (u16f true h 6 =? 4) then (Err E_FMT, s1, [24])
             else (Ok {| r_be := true; r_factor := 1; r_snaplen := u32f true h 16; r_lt := u16 (u32f true h 20); r_pcap := 0 |}, s1, [24]))
          else if le_val (put32 be m) =? MAGIC_US then
            (if negb (u16f false h 4 =? 2) then (Err E_FMT, s1, [24])
             else if negb (u16f false h 6 =? 4) then (Err E_FMT, s1, [24])
             else (Ok {| r_be := false; r_factor := 1000; r_snaplen := u32f false h 16; r_lt := u16 (u32f false h 20); r_pcap := 0 |}, s1, [24]))
          else if le_val (put32 be m) =? MAGIC_US_BE then
            (if negb (u16f true h 4 =? 2) then (Err E_FMT, s1, [24])
             else if negb (u16f true h 6 =? 4) then (Err E_FMT, s1, [24])
             else (Ok {| r_be := true; r_factor := 1000; r_snaplen := u32f true h 16; r_lt := u16 (u32f true h 20); r_pcap := 0 |}, s1, [24]))
          else (Err E_FMT, s1, [24]))
      = (Ok {| r_be := be; r_factor := scaler nano; r_snaplen := snaplen; r_lt := lt; r_pcap := 0 |}, s1, [24])).
  { subst m. destruct be, nano.
    - change (le_val (put32 true MAGIC_NS) =? MAGIC_NS) with false. change (le_val (put32 true MAGIC_NS) =? MAGIC_NS_BE) with true.
      cbv iota. apply (Hmk 1). reflexivity.
    - change (le_val (put32 true MAGIC_US) =? MAGIC_NS) with false. change (le_val (put32 true MAGIC_US) =? MAGIC_NS_BE) with false.
      change (le_val (put32 true MAGIC_US) =? MAGIC_US) with false. change (le_val (put32 true MAGIC_US) =? MAGIC_US_BE) with true.
      cbv iota. apply (Hmk 1000). reflexivity.
    - change (le_val (put32 false MAGIC_NS) =? MAGIC_NS) with true.
      cbv iota. apply (Hmk 1). reflexivity.
    - change (le_val (put32 false MAGIC_US) =? MAGIC_NS) with false. change (le_val (put32 false MAGIC_US) =? MAGIC_NS_BE) with false.
      change (le_val (put32 false MAGIC_US) =? MAGIC_US) with true.
      cbv iota. apply (Hmk 1000). reflexivity. }
  rewrite Hres.
  eexists; eexists. split; [reflexivity|]. split; [unfold rd_matches; auto|]. split; [reflexivity|]. split; [reflexivity|].
  split; [assumption|congruence].
Qed.

Lemma new_reader_short be nano snaplen lt s k rest :
  flat s = firstn k (enc_file_header be nano snaplen lt ++ rest) -> failed s = false -> (k < 24)%nat ->
  exists s', new_reader s = (Err (if (k <? 2)%nat then E_EOF else E_UEOF), s', if (k <? 2)%nat then [] else [24]).
Proof.
  intros Hf Hb Hk.
  rewrite firstn_app, enc_file_header_length in Hf. replace (k - 24)%nat with 0%nat in Hf by lia.
  rewrite firstn_O, app_nil_r in Hf.
  assert (Hlen : length (flat s) = k) by (rewrite Hf, firstn_length, enc_file_header_length; lia).
  unfold new_reader.
  destruct (take_spec s 2) as (T1 & _ & _ & T4).
  destruct (take 2 s) as [[b2 s0] st2]. cbn [fst snd] in T1, T4.
  unfold tstat_of in T4. rewrite Hb, Hlen in T4.
  destruct (k <? 2)%nat eqn:Ek.
  - destruct (2 <=? Z.of_nat k) eqn:E2; [lia|]. subst st2. eexists; reflexivity.
  - destruct (2 <=? Z.of_nat k) eqn:E2; [|lia]. subst st2.
    assert (Hgz : is_gzip b2 = false).
    { subst b2. rewrite Hf. change (Z.to_nat 2) with 2%nat. rewrite firstn_firstn. replace (Nat.min 2 k) with 2%nat by lia.
      unfold enc_file_header. rewrite firstn_app, put32_length. replace (2 - 4)%nat with 0%nat by reflexivity.
      rewrite firstn_O, app_nil_r. destruct be, nano; vm_compute; reflexivity. }
    rewrite Hgz.
    destruct (read_full_short 24 (flat s) s eq_refl ltac:(lia) Hb) as (s1 & ->).
    destruct (flat s) eqn:E; [cbn in Hlen; lia|]. eexists; reflexivity.
Qed.

Lemma whole_all be nano ps : whole (length (body be nano ps)) ps = ps.
Proof.
  induction ps as [|p t IH]; [reflexivity|].
  unfold body in *. cbn [map concat whole]. rewrite app_length, enc_record_length.
  destruct (reclen p <=? _)%nat eqn:E; [|lia].
  replace (reclen p + length (concat (map (enc_record be nano) t)) - reclen p)%nat
    with (length (concat (map (enc_record be nano) t))) by lia.
  now rewrite IH.
Qed.

Lemma at_boundary_all be nano ps : at_boundary (length (body be nano ps)) ps = true.
Proof.
  induction ps as [|p t IH]; [reflexivity|].
  unfold body in *. cbn [map concat]. rewrite app_length, enc_record_length.
  assert (Hr : (16 <= reclen p)%nat) by (unfold reclen; lia).
  destruct (reclen p + length (concat (map (enc_record be nano) t)))%nat as [|n] eqn:En; [lia|].
  cbn [at_boundary]. rewrite <- En. destruct (reclen p <=? _)%nat eqn:E; [|lia].
  replace (reclen p + length (concat (map (enc_record be nano) t)) - reclen p)%nat
    with (length (concat (map (enc_record be nano) t))) by lia.
  exact IH.
Qed.

Lemma write_packets_ok nano snaplen ps : Forall (pkt_ok snaplen) ps ->
  write_packets nano ps = (body false nano ps, map (fun _ => 0) ps).
Proof.
  induction 1 as [|p t Hp Ht IH]; [reflexivity|].
  cbn [write_packets]. rewrite IH. unfold write_packet.
  destruct Hp as (Hcap & Hcl & Hl32 & Hcs & Hsec & Hns).
  destruct (p_caplen p =? Z.of_nat (length (p_data p))) eqn:E1; [|lia]. cbn [negb].
  destruct (p_len p <? p_caplen p) eqn:E2; [lia|].
  destruct (p_sec p =? ZERO_TIME_SEC) eqn:E3; [unfold ZERO_TIME_SEC in E3; lia|]. cbn [andb].
  reflexivity.
Qed.

Lemma write_file_ok nano snaplen lt ps : Forall (pkt_ok snaplen) ps ->
  write_file nano snaplen lt ps = (enc_file false nano snaplen lt ps, map (fun _ => 0) ps).
Proof.
  intros H. unfold write_file. rewrite (write_packets_ok nano snaplen ps H). reflexivity.
Qed.

(* ---------------------------------------------------------------- the theorems *)
Lemma enc_file_length be nano snaplen lt ps :
  length (enc_file be nano snaplen lt ps) = (24 + length (body be nano ps))%nat.
Proof. unfold enc_file. rewrite app_length, enc_file_header_length. reflexivity. Qed.

Theorem pcap_prefix zc be nano snaplen lt ps k s fuel :
  0 <= snaplen < 4294967296 -> 0 <= lt < 65536 -> Forall (pkt_ok snaplen) ps ->
  (k <= length (enc_file be nano snaplen lt ps))%nat ->
  flat s = firstn k (enc_file be nano snaplen lt ps) -> failed s = false -> (length ps < fuel)%nat ->
  if (k <? 24)%nat
  then exists al, pcap_run zc fuel s = (Err (if (k <? 2)%nat then E_EOF else E_UEOF), al, [], true)
  else exists rd al rs, pcap_run zc fuel s = (Ok rd, al, rs, true) /\
         r_snaplen rd = snaplen /\ r_lt rd = lt /\ r_factor rd = scaler nano /\
         map fst rs = map (fun p => Ok (rd_pkt nano p)) (whole (k - 24) ps)
                      ++ [Err (if at_boundary (k - 24) ps then E_EOF else E_UEOF)].
Proof.
  intros Hsn Hlt Hok Hk Hf Hb Hfuel. rewrite enc_file_length in Hk. unfold enc_file in Hf. unfold pcap_run.
  destruct (k <? 24)%nat eqn:E.
  - destruct (new_reader_short be nano snaplen lt s k _ Hf Hb ltac:(lia)) as (s' & ->). eexists; reflexivity.
  - destruct (new_reader_header be nano snaplen lt s k _ Hsn Hlt Hf Hb ltac:(lia)) as (rd & s' & -> & Hrd & Hrlt & _ & Hf' & Hb').
    fold (body be nano ps) in Hf'.
    destruct (drain_prefix zc be nano snaplen ps (k - 24)%nat rd s' fuel Hok ltac:(lia) Hf' Hb' Hrd Hfuel) as [D1 D2].
    destruct (drain (read_packet zc) fuel rd s') as [rs fin]. cbn [fst snd] in *. subst fin.
    destruct Hrd as (_ & Hfac & Hs).
    eexists; eexists; eexists. split; [reflexivity|]. auto.
Qed.

Theorem pcap_roundtrip_enc zc be nano snaplen lt ps s fuel :
  0 <= snaplen < 4294967296 -> 0 <= lt < 65536 -> Forall (pkt_ok snaplen) ps ->
  flat s = enc_file be nano snaplen lt ps -> failed s = false -> (length ps < fuel)%nat ->
  exists rd al rs, pcap_run zc fuel s = (Ok rd, al, rs, true) /\
     r_snaplen rd = snaplen /\ r_lt rd = lt /\ r_factor rd = scaler nano /\
     map fst rs = map (fun p => Ok (rd_pkt nano p)) ps ++ [Err E_EOF].
Proof.
  intros Hsn Hlt Hok Hf Hb Hfuel.
  pose proof (pcap_prefix zc be nano snaplen lt ps (length (enc_file be nano snaplen lt ps)) s fuel Hsn Hlt Hok
                ltac:(lia) ltac:(rewrite firstn_all; exact Hf) Hb Hfuel) as H.
  rewrite enc_file_length in H.
  destruct (24 + length (body be nano ps) <? 24)%nat eqn:E; [lia|].
  replace (24 + length (body be nano ps) - 24)%nat with (length (body be nano ps)) in H by lia.
  rewrite whole_all, at_boundary_all in H. exact H.
Qed.

Theorem pcap_roundtrip zc nano snaplen lt ps s fuel :
  0 <= snaplen < 4294967296 -> 0 <= lt < 65536 -> Forall (pkt_ok snaplen) ps ->
  flat s = fst (write_file nano snaplen lt ps) -> failed s = false -> (length ps < fuel)%nat ->
  snd (write_file nano snaplen lt ps) = map (fun _ => 0) ps /\
  exists rd al rs, pcap_run zc fuel s = (Ok rd, al, rs, true) /\
     r_snaplen rd = snaplen /\ r_lt rd = lt /\ r_factor rd = scaler nano /\
     map fst rs = map (fun p => Ok (rd_pkt nano p)) ps ++ [Err E_EOF].
Proof.
  intros Hsn Hlt Hok Hf Hb Hfuel. rewrite (write_file_ok nano snaplen lt ps Hok) in *. cbn [fst snd] in *.
  split; [reflexivity|]. eapply pcap_roundtrip_enc; eassumption.
Qed.
