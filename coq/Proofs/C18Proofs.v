(* C18: the serialize buffer refines the two-ended tape (DESIGN.md A.1) *)
From GP Require Import Base ListX C18Model.
Open Scope nat_scope.

Record Inv (b : sbuf) (t : tape) : Prop := {
  inv_nopanic : panicked b = false;
  inv_start : start b <= len b;
  inv_len : len b <= cap b;
  inv_prep : prepended b <= cap b;
  inv_cells_len : length (cells t) = len b - start b;
  inv_cells : forall i v, nth_error (cells t) i = Some (Some v) ->
                          nth_error (arr b) (start b + i) = Some v;
  inv_layers : layers b = tlayers t;
  inv_wins_len : length (wins b) = length (twins t);
  inv_wins_gen : forall k w, nth_error (wins b) k = Some w -> wgen w <= gen b;
  inv_wins : forall k w p l, nth_error (wins b) k = Some w ->
     nth_error (twins t) k = Some (Some (p, l)) -> wgen w = gen b ->
     woff w = start b + p /\ wlen w = l /\ p + l <= length (cells t)
}.

Ltac capsolve := unfold cap in *; cbn [arr] in *; rewrite ?app_length, ?repeat_length, ?upd_length; try assumption; lia.

Lemma inv_init p a : Inv (new_buf p a) tape0.
Proof.
  constructor; cbn; try reflexivity; try lia.
  - unfold cap; cbn. rewrite repeat_length. lia.
  - unfold cap; cbn. rewrite repeat_length. lia.
  - intros [|i] v H; discriminate.
  - intros [|k] w H; discriminate.
  - intros [|k] w p' l H; discriminate.
Qed.

Lemma bytes_of_length b : len b <= cap b -> length (bytes_of b) = len b - start b.
Proof. intros H. unfold bytes_of. apply (slice_length (arr b) (start b) (len b)). exact H. Qed.

Lemma nth_error_bytes_of b i :
  start b + i < len b -> nth_error (bytes_of b) i = nth_error (arr b) (start b + i).
Proof. intros H. apply (nth_error_slice (arr b) (start b) (len b) i H). Qed.

Lemma nth_error_map_shiftw n ws k p l :
  nth_error (map (shiftw n) ws) k = Some (Some (p, l)) ->
  exists p0, nth_error ws k = Some (Some (p0, l)) /\ p = p0 + n.
Proof.
  rewrite nth_error_map. destruct (nth_error ws k) as [[[p0 l0]|]|]; cbn; intros H; try discriminate.
  inversion H; subst. exists p0. split; reflexivity.
Qed.

Lemma nth_error_app_repeat_None {A} n (cs : list (option A)) i v :
  nth_error (repeat None n ++ cs) i = Some (Some v) ->
  n <= i /\ nth_error cs (i - n) = Some (Some v).
Proof.
  intros H. destruct (Nat.lt_ge_cases i n) as [Hlt|Hge].
  - rewrite nth_error_app1 in H by (rewrite repeat_length; exact Hlt).
    rewrite nth_error_repeat in H by exact Hlt. discriminate.
  - rewrite nth_error_app2 in H by (rewrite repeat_length; exact Hge).
    rewrite repeat_length in H. split; assumption.
Qed.

Lemma nth_error_app_repeat_None_r {A} n (cs : list (option A)) i v :
  nth_error (cs ++ repeat None n) i = Some (Some v) ->
  nth_error cs i = Some (Some v).
Proof.
  intros H. destruct (Nat.lt_ge_cases i (length cs)) as [Hlt|Hge].
  - rewrite nth_error_app1 in H by exact Hlt. exact H.
  - rewrite nth_error_app2 in H by exact Hge.
    destruct (Nat.lt_ge_cases (i - length cs) n) as [Hl2|Hg2].
    + rewrite nth_error_repeat in H by exact Hl2. discriminate.
    + rewrite nth_error_None_ge in H by (rewrite repeat_length; exact Hg2). discriminate.
Qed.

(* ---- prepend ---- *)
Lemma prepend_inv b t n : Inv b t -> Inv (prepend b n) (tprepend t n).
Proof.
  intros I. destruct I as [Hp Hs Hl Hpr Hcl Hc Hly Hwl Hwg Hw].
  unfold prepend. destruct (Nat.ltb_spec (start b) n) as [Hgrow|Hfit].
  - (* growth *)
    set (tt := Nat.max (prepended b) n).
    assert (Htt : n <= tt) by (unfold tt; lia).
    assert (Hbl : length (bytes_of b) = len b - start b) by (apply bytes_of_length; exact Hl).
    constructor; cbn [panicked start len arr prepended appended layers gen wins cap
                       cells tlayers twins tprepend].
    + exact Hp.
    + lia.
    + unfold cap; cbn [arr]. rewrite !app_length, !repeat_length, Hbl. unfold cap in *. lia.
    + unfold cap; cbn [arr]. rewrite !app_length, !repeat_length, Hbl. unfold cap in *. fold tt. lia.
    + rewrite app_length, repeat_length, Hcl. lia.
    + intros i v H. apply nth_error_app_repeat_None in H. destruct H as [Hge H].
      assert (Hi : i - n < len b - start b).
      { rewrite <- Hcl. eapply nth_error_Some_lt; exact H. }
      replace (start b + tt - n + i) with (length (repeat 0%Z (start b + tt)) + (i - n))
        by (rewrite repeat_length; lia).
      rewrite nth_error_app2 by lia.
      replace (length (repeat 0%Z (start b + tt)) + (i - n) - length (repeat 0%Z (start b + tt)))
        with (i - n) by lia.
      rewrite nth_error_app1 by lia.
      rewrite nth_error_bytes_of by lia. apply Hc. exact H.
    + exact Hly.
    + cbn. rewrite map_length. f_equal. exact Hwl.
    + intros [|k] w H; cbn in H.
      * inversion H; subst; cbn. lia.
      * apply Hwg in H. lia.
    + intros [|k] w p l H1 H2 H3; cbn in H1, H2.
      * inversion H1; subst; inversion H2; subst; cbn.
        rewrite app_length, repeat_length. lia.
      * apply Hwg in H1. lia.
  - (* fits *)
    constructor; cbn [panicked start len arr prepended appended layers gen wins cap
                       cells tlayers twins tprepend].
    + exact Hp.
    + lia.
    + capsolve.
    + capsolve.
    + rewrite app_length, repeat_length, Hcl. lia.
    + intros i v H. apply nth_error_app_repeat_None in H. destruct H as [Hge H].
      replace (start b - n + i) with (start b + (i - n)) by lia. apply Hc. exact H.
    + exact Hly.
    + cbn. rewrite map_length. f_equal. exact Hwl.
    + intros [|k] w H; cbn in H.
      * inversion H; subst; cbn. lia.
      * apply Hwg in H. exact H.
    + intros [|k] w p l H1 H2 H3; cbn in H1, H2.
      * inversion H1; subst; inversion H2; subst; cbn.
        rewrite app_length, repeat_length. lia.
      * apply nth_error_map_shiftw in H2. destruct H2 as [p0 [H2 Hpp]]. subst p.
        destruct (Hw k w p0 l H1 H2 H3) as [Ha [Hb Hc2]].
        rewrite app_length, repeat_length. lia.
Qed.

(* ---- append ---- *)
Lemma append_inv b t n : Inv b t -> Inv (append b n) (tappend t n).
Proof.
  intros I. destruct I as [Hp Hs Hl Hpr Hcl Hc Hly Hwl Hwg Hw].
  unfold append. destruct (Nat.ltb_spec (cap b - len b) n) as [Hgrow|Hfit].
  - set (tt := Nat.max (appended b) n).
    assert (Htt : n <= tt) by (unfold tt; lia).
    assert (Hbl : length (bytes_of b) = len b - start b) by (apply bytes_of_length; exact Hl).
    constructor; cbn [panicked start len arr prepended appended layers gen wins cap
                       cells tlayers twins tappend].
    + exact Hp.
    + lia.
    + unfold cap; cbn [arr]. rewrite !app_length, !repeat_length, Hbl. unfold cap in *. lia.
    + unfold cap; cbn [arr]. rewrite !app_length, !repeat_length, Hbl. unfold cap in *. lia.
    + rewrite app_length, repeat_length, Hcl. lia.
    + intros i v H. apply nth_error_app_repeat_None_r in H.
      assert (Hi : i < len b - start b).
      { rewrite <- Hcl. eapply nth_error_Some_lt; exact H. }
      replace (start b + i) with (length (repeat 0%Z (start b)) + i) by (rewrite repeat_length; lia).
      rewrite nth_error_app2 by lia.
      replace (length (repeat 0%Z (start b)) + i - length (repeat 0%Z (start b))) with i by lia.
      rewrite nth_error_app1 by lia.
      rewrite nth_error_bytes_of by lia. apply Hc. exact H.
    + exact Hly.
    + cbn. f_equal. exact Hwl.
    + intros [|k] w H; cbn in H.
      * inversion H; subst; cbn. lia.
      * apply Hwg in H. lia.
    + intros [|k] w p l H1 H2 H3; cbn in H1, H2.
      * inversion H1; subst; inversion H2; subst; cbn.
        rewrite app_length, repeat_length. lia.
      * apply Hwg in H1. lia.
  - constructor; cbn [panicked start len arr prepended appended layers gen wins cap
                       cells tlayers twins tappend].
    + exact Hp.
    + lia.
    + capsolve.
    + capsolve.
    + rewrite app_length, repeat_length, Hcl. lia.
    + intros i v H. apply nth_error_app_repeat_None_r in H. apply Hc. exact H.
    + exact Hly.
    + cbn. f_equal. exact Hwl.
    + intros [|k] w H; cbn in H.
      * inversion H; subst; cbn. lia.
      * apply Hwg in H. exact H.
    + intros [|k] w p l H1 H2 H3; cbn in H1, H2.
      * inversion H1; subst; inversion H2; subst; cbn.
        rewrite app_length, repeat_length. lia.
      * destruct (Hw k w p l H1 H2 H3) as [Ha [Hb Hc2]].
        rewrite app_length, repeat_length. lia.
Qed.

(* ---- clear ---- *)
Lemma clear_inv b t : Inv b t -> Inv (clear b) (tclear t).
Proof.
  intros I. destruct I as [Hp Hs Hl Hpr Hcl Hc Hly Hwl Hwg Hw].
  constructor; cbn [panicked start len arr prepended appended layers gen wins cap clear
                     cells tlayers twins tclear].
  - rewrite Hp. cbn. apply Nat.ltb_ge. exact Hpr.
  - lia.
  - exact Hpr.
  - exact Hpr.
  - cbn. lia.
  - intros [|i] v H; discriminate.
  - reflexivity.
  - rewrite map_length. exact Hwl.
  - exact Hwg.
  - intros k w p l H1 H2 H3. rewrite nth_error_map in H2.
    destruct (nth_error (twins t) k); cbn in H2; discriminate.
Qed.

Lemma push_inv b t x : Inv b t -> Inv (push b x) (tpush t x).
Proof.
  intros I. destruct I as [Hp Hs Hl Hpr Hcl Hc Hly Hwl Hwg Hw].
  constructor; cbn [panicked start len arr prepended appended layers gen wins cap push
                     cells tlayers twins tpush]; try assumption.
  rewrite Hly. reflexivity.
Qed.

(* ---- writes ---- *)
Lemma write_inv b t k i v :
  Inv b t -> wb_write t k = true -> Inv (cwrite b k i v) (twrite t (win_live b k) k i v).
Proof.
  intros I Hwb. pose proof I as I0.
  destruct I as [Hp Hs Hl Hpr Hcl Hc Hly Hwl Hwg Hw].
  unfold wb_write in Hwb. unfold cwrite, twrite, win_live.
  destruct (nth_error (twins t) k) as [[[p l]|]|] eqn:Et; try discriminate.
  destruct (nth_error (wins b) k) as [w|] eqn:Ew.
  2:{ cbn. exact I0. }
  destruct (Nat.eqb_spec (wgen w) (gen b)) as [Hg|Hg]; cbn [andb]; [|exact I0].
  destruct (Hw k w p l Ew Et Hg) as [Hoff [Hlen Hin]]. subst l.
  destruct (Nat.ltb_spec i (wlen w)) as [Hi|Hi]; [|exact I0].
  constructor; cbn [panicked start len arr prepended appended layers gen wins cap
                     cells tlayers twins]; try assumption.
  - unfold cap in *; cbn [arr]. rewrite upd_length. exact Hl.
  - unfold cap in *; cbn [arr]. rewrite upd_length. exact Hpr.
  - rewrite upd_length. exact Hcl.
  - intros j x H. rewrite nth_error_upd in H. rewrite nth_error_upd.
    rewrite Hoff.
    destruct (Nat.eqb_spec j (p + i)) as [Hj|Hj].
    + subst j. destruct (Nat.ltb_spec (p + i) (length (cells t))) as [Hlt|Hge]; [|discriminate].
      inversion H; subst x.
      destruct (Nat.eqb_spec (start b + (p + i)) (start b + p + i)) as [_|Hne]; [|lia].
      destruct (Nat.ltb_spec (start b + p + i) (length (arr b))) as [_|Hge]; [reflexivity|].
      unfold cap in *. lia.
    + destruct (Nat.eqb_spec (start b + j) (start b + p + i)) as [He|_]; [lia|].
      apply Hc. exact H.
  - intros k0 w0 p0 l0 H1 H2 H3. rewrite upd_length. apply (Hw k0 w0 p0 l0 H1 H2 H3).
Qed.

Lemma wb_write_twrite t live k i v k' :
  wb_write (twrite t live k i v) k' = wb_write t k'.
Proof.
  unfold wb_write, twrite. destruct (nth_error (twins t) k) as [[[p l]|]|]; try reflexivity.
  destruct (live && (i <? l)); reflexivity.
Qed.

Lemma win_live_cwrite b k i v k' : win_live (cwrite b k i v) k' = win_live b k'.
Proof.
  unfold win_live, cwrite. destruct (nth_error (wins b) k) as [w|]; [|reflexivity].
  destruct ((wgen w =? gen b) && (i <? wlen w)); reflexivity.
Qed.

Lemma write_all_inv vs : forall b t k i,
  Inv b t -> wb_write t k = true -> win_live b k = true ->
  Inv (cwrite_all b k i vs) (twrite_all t true k i vs).
Proof.
  induction vs as [|v vs IH]; intros b t k i I Hwb Hlive; cbn [cwrite_all twrite_all]; [exact I|].
  apply IH.
  - rewrite <- Hlive at 1. apply write_inv; assumption.
  - rewrite wb_write_twrite. exact Hwb.
  - rewrite win_live_cwrite. exact Hlive.
Qed.

Lemma upd_block_nil {A} (l : list A) i : upd_block l i [] = l.
Proof. revert i; induction l as [|h t IH]; intros [|i]; cbn; try reflexivity. rewrite IH. reflexivity. Qed.

Lemma upd_block_cons {A} (l : list A) i v vs : upd_block l i (v :: vs) = upd_block (upd l i v) (S i) vs.
Proof.
  revert i; induction l as [|h t IH]; intros [|i]; cbn [upd upd_block]; try reflexivity.
  rewrite IH. reflexivity.
Qed.

Lemma firstn_nil_any {A} n : firstn n (@nil A) = [].
Proof. destruct n; reflexivity. Qed.

Lemma cwrite_block_eq vs : forall b k i, cwrite_block b k i vs = cwrite_all b k i vs.
Proof.
  induction vs as [|v vs IH]; intros b k i; cbn [cwrite_all].
  - unfold cwrite_block. destruct (nth_error (wins b) k) as [w|]; [|reflexivity].
    destruct (wgen w =? gen b); [|reflexivity]. rewrite firstn_nil_any, upd_block_nil.
    destruct b; reflexivity.
  - rewrite <- IH. unfold cwrite_block, cwrite.
    destruct (nth_error (wins b) k) as [w|] eqn:Ew; [|rewrite Ew; reflexivity].
    destruct (Nat.eqb_spec (wgen w) (gen b)) as [Hg|Hg]; cbn [andb].
    + destruct (Nat.ltb_spec i (wlen w)) as [Hi|Hi]; cbn [wins gen arr]; rewrite Ew.
      * rewrite Hg, Nat.eqb_refl. cbn [arr len start prepended appended layers gen wins panicked].
        replace (wlen w - i) with (S (wlen w - S i)) by lia. cbn [firstn].
        rewrite upd_block_cons. replace (woff w + S i) with (S (woff w + i)) by lia. reflexivity.
      * destruct (Nat.eqb_spec (wgen w) (gen b)) as [_|Hn]; [|contradiction].
        replace (wlen w - i) with 0 by lia. replace (wlen w - S i) with 0 by lia.
        cbn [firstn]. rewrite !upd_block_nil. reflexivity.
    + rewrite Ew. destruct (Nat.eqb_spec (wgen w) (gen b)) as [Hn|_]; [contradiction|reflexivity].
Qed.

Definition no_ser (o : op) : bool := match o with OSer _ => false | _ => true end.

Lemma step_inv_base b t o : no_ser o = true -> Inv b t -> op_wb t o = true -> Inv (step b o) (tstep b t o).
Proof.
  intros Hns I Hwb. destruct o as [n fill|n fill| |x|k i v|ls]; cbn [step tstep]; [| | | | |discriminate].
  - rewrite cwrite_block_eq. apply write_all_inv; [apply prepend_inv; exact I|reflexivity|].
    unfold win_live, prepend; cbn. apply Nat.eqb_refl.
  - rewrite cwrite_block_eq. apply write_all_inv; [apply append_inv; exact I|reflexivity|].
    unfold win_live, append; cbn. apply Nat.eqb_refl.
  - apply clear_inv; exact I.
  - apply push_inv; exact I.
  - apply write_inv; assumption.
Qed.

Lemma run2_inv_base ops : forall b t b' t', forallb no_ser ops = true ->
  Inv b t -> run2 b t ops = (b', t', true) -> Inv b' t'.
Proof.
  induction ops as [|o r IH]; intros b t b' t' Hns I H; cbn [run2] in H.
  - inversion H; subst. exact I.
  - destruct (run2 (step b o) (tstep b t o) r) as [[b1 t1] ok1] eqn:E.
    cbn [forallb] in Hns. apply andb_prop in Hns. destruct Hns as [Hn1 Hn2].
    inversion H as [[Hb Ht Hok]]. subst b1 t1. apply andb_prop in Hok. destruct Hok as [Hwb Hok1].
    subst ok1. eapply IH; [exact Hn2| |exact E]. apply step_inv_base; assumption.
Qed.

Lemma agree_of_inv b t : Inv b t -> agree (bytes_of b) (cells t) = true.
Proof.
  intros I. destruct I as [Hp Hs Hl Hpr Hcl Hc Hly Hwl Hwg Hw].
  assert (Hbl : length (bytes_of b) = length (cells t)) by (rewrite bytes_of_length, Hcl; auto).
  assert (Hcc : forall i v, nth_error (cells t) i = Some (Some v) -> nth_error (bytes_of b) i = Some v).
  { intros i v H. rewrite nth_error_bytes_of; [apply Hc; exact H|].
    apply nth_error_Some_lt in H. lia. }
  clear - Hbl Hcc. revert Hbl Hcc. generalize (bytes_of b) as bs. generalize (cells t) as cs.
  induction cs as [|c cs IH]; intros [|x bs] Hlen Hcc; try discriminate; [reflexivity|].
  cbn [agree]. apply andb_true_intro. split.
  - destruct c as [v|]; [|reflexivity]. specialize (Hcc 0 v eq_refl). cbn in Hcc.
    inversion Hcc. apply Z.eqb_refl.
  - apply IH; [cbn in Hlen; lia|]. intros i v H. exact (Hcc (S i) v H).
Qed.

(* run2 projects to the plain concrete run *)
Lemma run2_fst ops : forall b t, fst (fst (run2 b t ops)) = fold_left step ops b.
Proof.
  induction ops as [|o r IH]; intros b t; cbn [run2 fold_left]; [reflexivity|].
  specialize (IH (step b o) (tstep b t o)).
  destruct (run2 (step b o) (tstep b t o) r) as [[b1 t1] ok1]. cbn in *. exact IH.
Qed.

(* the most recent window has exactly the requested length *)
Lemma prepend_winlen b n fill :
  o_winlen (observe (step b (OPrepend n fill))) = n.
Proof.
  cbn [step]. rewrite cwrite_block_eq. assert (H : forall vs b k i, wins (cwrite_all b k i vs) = wins b).
  { induction vs as [|v vs IH]; intros b0 k i; cbn; [reflexivity|]. rewrite IH.
    unfold cwrite. destruct (nth_error (wins b0) k) as [w|]; [|reflexivity].
    destruct ((wgen w =? gen b0) && (i <? wlen w)); reflexivity. }
  unfold observe; cbn [o_winlen]. rewrite H. unfold prepend. cbn. reflexivity.
Qed.

Lemma append_winlen b n fill :
  o_winlen (observe (step b (OAppend n fill))) = n.
Proof.
  cbn [step]. rewrite cwrite_block_eq. assert (H : forall vs b k i, wins (cwrite_all b k i vs) = wins b).
  { induction vs as [|v vs IH]; intros b0 k i; cbn; [reflexivity|]. rewrite IH.
    unfold cwrite. destruct (nth_error (wins b0) k) as [w|]; [|reflexivity].
    destruct ((wgen w =? gen b0) && (i <? wlen w)); reflexivity. }
  unfold observe; cbn [o_winlen]. rewrite H. unfold append. cbn. reflexivity.
Qed.

(* Clear empties contents and layers *)
Lemma clear_empty b : prepended b <= cap b -> bytes_of (clear b) = [] /\ layers (clear b) = [].
Proof.
  intros H. split; [|reflexivity]. unfold bytes_of; cbn.
  apply length_zero_iff_nil. rewrite skipn_length, firstn_length. lia.
Qed.

(* the tape never loses a written cell on growth: visible from the definitions *)
Lemma tprepend_keeps t n i : nth_error (cells (tprepend t n)) (n + i) = nth_error (cells t) i.
Proof. cbn. rewrite nth_error_app2 by (rewrite repeat_length; lia). rewrite repeat_length. f_equal. lia. Qed.
Lemma tappend_keeps t n i : i < length (cells t) -> nth_error (cells (tappend t n)) i = nth_error (cells t) i.
Proof. intros H. cbn. apply nth_error_app1. exact H. Qed.

(* ---- SerializeLayers: headers come out outermost first, layers innermost first ---- *)
Lemma upd_app_mid {A} (l1 : list A) x l2 v : upd (l1 ++ x :: l2) (length l1) v = l1 ++ v :: l2.
Proof. induction l1 as [|h t IH]; cbn; [reflexivity|]. rewrite IH. reflexivity. Qed.

Lemma twrite_all_fill vs : forall t n dn rest,
  nth_error (twins t) 0 = Some (Some (0, n)) ->
  cells t = map Some dn ++ repeat None (length vs) ++ rest ->
  length dn + length vs = n ->
  let t' := twrite_all t true 0 (length dn) vs in
  cells t' = map Some (dn ++ vs) ++ rest /\ tlayers t' = tlayers t /\ twins t' = twins t.
Proof.
  induction vs as [|v vs IH]; intros t n dn rest Hw Hc Hn; cbn [twrite_all].
  - cbn in Hc. rewrite app_nil_r. auto.
  - set (t1 := twrite t true 0 (length dn) v).
    assert (Ht1 : cells t1 = map Some (dn ++ [v]) ++ repeat None (length vs) ++ rest
                  /\ tlayers t1 = tlayers t /\ twins t1 = twins t).
    { unfold t1, twrite. rewrite Hw. cbn [andb].
      destruct (Nat.ltb_spec (length dn) n) as [_|Hge]; [|cbn in Hn; lia].
      cbn [cells tlayers twins]. split; [|auto].
      rewrite Hc. cbn [length repeat app]. replace (0 + length dn) with (length (map Some dn))
        by (rewrite map_length; reflexivity).
      rewrite upd_app_mid. rewrite map_app. cbn. rewrite <- app_assoc. reflexivity. }
    destruct Ht1 as [Hc1 [Hl1 Hw1]].
    specialize (IH t1 n (dn ++ [v]) rest).
    rewrite app_length in IH. cbn [length] in IH.
    replace (length dn + 1) with (S (length dn)) in IH by lia.
    destruct IH as [A [B C]].
    + rewrite Hw1. exact Hw.
    + exact Hc1.
    + cbn in Hn. lia.
    + rewrite <- app_assoc in A. cbn in A. split; [exact A|]. split; congruence.
Qed.

Lemma agree_all_some bs xs : agree bs (map Some xs) = true -> bs = xs.
Proof.
  revert xs; induction bs as [|b bs IH]; intros [|x xs] H; cbn in H; try discriminate; [reflexivity|].
  apply andb_prop in H. destruct H as [H1 H2]. apply Z.eqb_eq in H1. subst. f_equal. apply IH. exact H2.
Qed.

Definition layer_ops (l : Z * list Z) : list op := [OPrepend (length (snd l)) (snd l); OPush (fst l)].

Lemma fold_ser_layer ls : forall b,
  fold_left ser_layer ls b = fold_left step (flat_map layer_ops ls) b.
Proof.
  induction ls as [|l ls IH]; intros b; cbn [fold_left flat_map layer_ops app]; [reflexivity|].
  rewrite IH. cbn [step]. rewrite cwrite_block_eq. reflexivity.
Qed.

Lemma layer_ops_no_ser ls : forallb no_ser (flat_map layer_ops ls) = true.
Proof. induction ls as [|l ls IH]; cbn; [reflexivity|exact IH]. Qed.

(* tape-level result of serializing a list of layers (in the order they are run) *)
Lemma tape_layers ls : forall b t,
  exists b' t', run2 b t (flat_map layer_ops ls) = (b', t', true) /\
    cells t' = map Some (concat (map snd (rev ls))) ++ cells t /\
    tlayers t' = tlayers t ++ map fst ls.
Proof.
  induction ls as [|l ls IH]; intros b t.
  - exists b, t. cbn. rewrite app_nil_r. auto.
  - cbn [flat_map layer_ops app run2 op_wb andb].
    set (b1 := step b (OPrepend (length (snd l)) (snd l))).
    set (t1 := tstep b t (OPrepend (length (snd l)) (snd l))).
    set (b2 := step b1 (OPush (fst l))). set (t2 := tstep b1 t1 (OPush (fst l))).
    destruct (IH b2 t2) as [b' [t' [Hr [Hc Hl]]]].
    exists b', t'. rewrite Hr. split; [reflexivity|].
    assert (Ht1 : cells t1 = map Some (snd l) ++ cells t /\ tlayers t1 = tlayers t).
    { unfold t1; cbn [tstep].
      pose proof (twrite_all_fill (snd l) (tprepend t (length (snd l))) (length (snd l)) [] (cells t)) as F.
      cbn [length app map] in F. destruct F as [A [B _]]; [reflexivity|reflexivity|lia|]. auto. }
    destruct Ht1 as [Hc1 Hl1].
    split.
    + rewrite Hc. unfold t2; cbn [tstep tpush cells]. rewrite Hc1.
      cbn [rev]. rewrite map_app, concat_app. cbn [map concat]. rewrite app_nil_r.
      rewrite map_app, <- app_assoc. reflexivity.
    + rewrite Hl. unfold t2; cbn [tstep tpush tlayers]. rewrite Hl1. cbn [map].
      rewrite <- app_assoc. reflexivity.
Qed.

Lemma stack b t ls : Inv b t ->
  let r := serialize_layers b ls in
  panicked r = false /\
  bytes_of r = concat (map snd ls) /\ layers r = map fst (rev ls).
Proof.
  intros I r. unfold r, serialize_layers. rewrite fold_ser_layer.
  pose proof (clear_inv b t I) as Ic.
  destruct (tape_layers (rev ls) (clear b) (tclear t)) as [b' [t' [Hr [Hc Hl]]]].
  pose proof (run2_inv_base _ _ _ _ _ (layer_ops_no_ser (rev ls)) Ic Hr) as I'.
  pose proof (run2_fst (flat_map layer_ops (rev ls)) (clear b) (tclear t)) as Hf.
  rewrite Hr in Hf. cbn [fst] in Hf. rewrite <- Hf.
  split; [apply I'|]. split.
  - apply agree_all_some. rewrite rev_involutive in Hc. cbn [tclear cells] in Hc.
    rewrite app_nil_r in Hc. rewrite <- Hc. apply agree_of_inv. exact I'.
  - rewrite (inv_layers _ _ I'). rewrite Hl. reflexivity.
Qed.

(* ---- SerializeLayers as one operation ---- *)
Lemma ser_inv b t ls : Inv b t ->
  Inv (forget_wins (serialize_layers b ls))
      {| cells := map Some (concat (map snd ls)); tlayers := map fst (rev ls); twins := [] |}.
Proof.
  intros I. unfold serialize_layers. rewrite fold_ser_layer.
  pose proof (clear_inv b t I) as Ic.
  destruct (tape_layers (rev ls) (clear b) (tclear t)) as [b' [t' [Hr [Hc Hl]]]].
  pose proof (run2_inv_base _ _ _ _ _ (layer_ops_no_ser (rev ls)) Ic Hr) as I'.
  pose proof (run2_fst (flat_map layer_ops (rev ls)) (clear b) (tclear t)) as Hf.
  rewrite Hr in Hf. cbn [fst] in Hf. rewrite <- Hf.
  rewrite rev_involutive in Hc. cbn [tclear cells] in Hc. rewrite app_nil_r in Hc.
  cbn [tclear tlayers app] in Hl.
  destruct I' as [Hp Hs Hl' Hpr Hcl Hcc Hly Hwl Hwg Hw].
  constructor; cbn [forget_wins panicked start len arr prepended appended layers gen wins cap cells tlayers twins].
  - exact Hp.
  - exact Hs.
  - unfold cap in *; cbn [arr]. exact Hl'.
  - unfold cap in *; cbn [arr]. exact Hpr.
  - rewrite <- Hc. exact Hcl.
  - intros i v H. apply Hcc. rewrite Hc. exact H.
  - rewrite Hly, Hl. reflexivity.
  - reflexivity.
  - intros [|k] w H; discriminate.
  - intros [|k] w p l H; discriminate.
Qed.

Lemma step_inv b t o : Inv b t -> op_wb t o = true -> Inv (step b o) (tstep b t o).
Proof.
  intros I Hwb. destruct (no_ser o) eqn:E; [apply step_inv_base; assumption|].
  destruct o; try discriminate. cbn [step tstep]. apply (ser_inv b t). exact I.
Qed.

Lemma run2_inv ops : forall b t b' t',
  Inv b t -> run2 b t ops = (b', t', true) -> Inv b' t'.
Proof.
  induction ops as [|o r IH]; intros b t b' t' I H; cbn [run2] in H.
  - inversion H; subst. exact I.
  - destruct (run2 (step b o) (tstep b t o) r) as [[b1 t1] ok1] eqn:E.
    inversion H as [[Hb Ht Hok]]. subst b1 t1. apply andb_prop in Hok. destruct Hok as [Hwb Hok1].
    subst ok1. eapply IH; [|exact E]. apply step_inv; assumption.
Qed.

(* main refinement statement *)
Lemma refines p a ops b t :
  run2 (new_buf p a) tape0 ops = (b, t, true) ->
  panicked b = false /\
  length (bytes_of b) = length (cells t) /\
  agree (bytes_of b) (cells t) = true /\
  layers b = tlayers t /\
  (forall k w q l, nth_error (wins b) k = Some w -> nth_error (twins t) k = Some (Some (q, l)) ->
     wgen w = gen b ->
     wlen w = l /\ q + l <= length (cells t) /\ woff w = start b + q).
Proof.
  intros H. pose proof (run2_inv ops _ _ _ _ (inv_init p a) H) as I.
  split; [apply I|]. split.
  { rewrite bytes_of_length; [symmetry; apply I|apply I]. }
  split; [apply agree_of_inv; exact I|]. split; [apply I|].
  intros k w q l H1 H2 H3. destruct (inv_wins _ _ I k w q l H1 H2 H3) as [A [B C]]. auto.
Qed.

