(* Lip6 — round trip of IPv6 with a hop-by-hop header (no jumbogram), and repeat-serialize *)
From GP Require Import Base ListX N6Lib Lip6Model Lip6Proofs Lip6Rt Lip6Rt2.
From Coq Require Import Lia ZifyBool ZifyNat.
Open Scope Z_scope.
Ltac Zify.zify_post_hook ::= Z.div_mod_to_equations.

(* ---------------------------------------------------------------- the fixed header, decoded *)

Definition ip6_hdr_ok (l : ip6) : Prop :=
  0 <= p_version l < 16 /\ 0 <= p_tclass l < 256 /\ 0 <= p_flow l < 1048576 /\ 0 <= p_length l < 65536 /\
  0 <= p_next l < 256 /\ 0 <= p_hop l < 256 /\ n6_len (p_src l) = 16 /\ n6_len (p_dst l) = 16.

Lemma ip6_head_wire l rest : ip6_hdr_ok l ->
  ip6_head (ip6_hdr_bytes l ++ rest) =
    mkIp6 (p_version l) (p_tclass l) (p_flow l) (p_length l) (p_next l) (p_hop l) (p_src l) (p_dst l) None
          (ip6_hdr_bytes l) rest /\
  n6_len (ip6_hdr_bytes l) = 40.
Proof.
  intros (Hv & Htc & Hfl & Hln & Hnh & Hhop & Hsl & Hdl).
  unfold ip6_hdr_bytes.
  assert (Hb0 : Z.lor (u8 (p_version l * 16)) (p_tclass l / 16) = 16 * p_version l + p_tclass l / 16).
  { replace (u8 (p_version l * 16)) with (16 * p_version l) by (unfold u8; lia). apply lor16. lia. }
  assert (Hb1 : Z.lor (u8 (p_tclass l * 16)) (u8 (p_flow l / 65536)) = 16 * (p_tclass l mod 16) + p_flow l / 65536).
  { replace (u8 (p_tclass l * 16)) with (16 * (p_tclass l mod 16)) by (unfold u8; lia).
    replace (u8 (p_flow l / 65536)) with (p_flow l / 65536) by (unfold u8; lia). apply lor16. lia. }
  rewrite Hb0, Hb1. set (b0 := 16 * p_version l + p_tclass l / 16). set (b1 := 16 * (p_tclass l mod 16) + p_flow l / 65536).
  replace (u8 (p_next l)) with (p_next l) by (unfold u8; lia). replace (u8 (p_hop l)) with (p_hop l) by (unfold u8; lia).
  remember (be_bytes 2 (p_flow l)) as fb. remember (be_bytes 2 (p_length l)) as lb.
  assert (Lf : length fb = 2%nat) by (subst; apply be_bytes_length). assert (Ll : length lb = 2%nat) by (subst; apply be_bytes_length).
  assert (Vf : be_val fb = p_flow l mod 65536) by (subst; rewrite be_val_be_bytes; reflexivity).
  assert (Vl : be_val lb = p_length l) by (subst; rewrite be_val_be_bytes; change (256 ^ Z.of_nat 2) with 65536; lia).
  remember (p_src l) as s. remember (p_dst l) as d. apply len16' in Hsl. apply len16' in Hdl.
  clear Heqfb Heqlb. explicit fb 2 Lf. explicit lb 2 Ll. explicit s 16 Hsl. explicit d 16 Hdl.
  cbn [app]. split; [|reflexivity].
  match goal with |- ip6_head ?b = _ => set (bytes := b) end.
  assert (Hhead : ip6_head bytes =
    mkIp6 (b0 / 16) ((be_val [b0; b1] / 16) mod 256) (be_val [b0; b1; z; z0] mod 1048576) (be_val [z1; z2]) (p_next l) (p_hop l)
          [z3; z4; z5; z6; z7; z8; z9; z10; z11; z12; z13; z14; z15; z16; z17; z18]
          [z19; z20; z21; z22; z23; z24; z25; z26; z27; z28; z29; z30; z31; z32; z33; z34] None (firstn 40 bytes) rest) by reflexivity.
  rewrite Hhead.
  assert (E1 : b0 / 16 = p_version l) by (subst b0; lia).
  assert (E2 : (be_val [b0; b1] / 16) mod 256 = p_tclass l).
  { change (be_val [b0; b1]) with ((0 * 256 + b0) * 256 + b1). subst b0 b1. lia. }
  assert (E3 : be_val [b0; b1; z; z0] mod 1048576 = p_flow l).
  { change (be_val [b0; b1; z; z0]) with ((((0 * 256 + b0) * 256 + b1) * 256 + z) * 256 + z0).
    change (be_val [z; z0]) with ((0 * 256 + z) * 256 + z0) in Vf. subst b0 b1. lia. }
  rewrite E1, E2, E3, Vl. reflexivity.
Qed.

Lemma ip6_decode_wire old l rest : ip6_hdr_ok l ->
  ip6_decode_into old (ip6_hdr_bytes l ++ rest) =
    ip6_body false (mkIp6 (p_version l) (p_tclass l) (p_flow l) (p_length l) (p_next l) (p_hop l) (p_src l) (p_dst l) None
                          (ip6_hdr_bytes l) rest).
Proof.
  intros Hok. destruct (ip6_head_wire l rest Hok) as [HH HL]. unfold ip6_decode_into.
  rewrite ip6_decode_head by (rewrite n6_len_app, HL; pose proof (n6_len_nonneg rest); lia).
  rewrite HH. reflexivity.
Qed.

(* ---------------------------------------------------------------- extension header facts *)

(* size of the serialized extension header (FixLengths) *)
Definition ext_size (h : ext) : Z := let '(_, _, total) := tlvs_ser false true (e_opts h) 2 in total.

Definition no_jumbo (os : list tlv) : Prop := forall o, In o os -> t_type o <> JUMBO.

Lemma tlv_nonpad_in os t d : In (t, d) (tlv_nonpad os) -> exists o, In o os /\ t_type o = t /\ t_data o = d.
Proof.
  unfold tlv_nonpad. intros H. apply in_map_iff in H as (o & [= <- <-] & Hin). apply filter_In in Hin as [Hin _].
  exists o. repeat split. exact Hin.
Qed.

Lemma find_jumbo_none os os2 : no_jumbo os -> tlv_nonpad os2 = tlv_nonpad os ->
  find (fun o => t_type o =? JUMBO) os2 = None.
Proof.
  intros Hnj Hnp. destruct (find _ os2) as [o|] eqn:EF; [|reflexivity]. exfalso.
  apply find_some in EF as [Hin Ht]. assert (Hty : t_type o = JUMBO) by lia.
  assert (In (t_type o, t_data o) (tlv_nonpad os2)).
  { unfold tlv_nonpad. apply in_map_iff. exists o. split; [reflexivity|]. apply filter_In. split; [exact Hin|].
    rewrite Hty. reflexivity. }
  rewrite Hnp in H. apply tlv_nonpad_in in H as (o' & Hin' & Ht' & _). apply (Hnj o' Hin'). lia.
Qed.

(* FixLengths changes OptionLength only *)
Lemma tlv_seg_same fx o : t_type (snd (tlv_seg fx o)) = t_type o /\ t_data (snd (tlv_seg fx o)) = t_data o /\
  t_ax (snd (tlv_seg fx o)) = t_ax o /\ t_ay (snd (tlv_seg fx o)) = t_ay o.
Proof. unfold tlv_seg. destruct (t_type o =? 0); repeat split. Qed.

Lemma tlvs_ser_nonpad b fx os : forall len segs os' total, tlvs_ser b fx os len = (segs, os', total) ->
  tlv_nonpad os' = tlv_nonpad os.
Proof.
  induction os as [|o t IH]; intros len segs os' total.
  - cbn [tlvs_ser]. destruct fx; [destruct (_ =? 0)|]; intros [= <- <- <-]; reflexivity.
  - cbn [tlvs_ser]. pose proof (tlv_seg_same fx o) as (H1 & H2 & _).
    destruct (tlv_seg fx o) as [seg o'] eqn:ES. rewrite ?ES in H1, H2. cbn [snd] in H1, H2.
    destruct (tlvs_ser b fx t _) as [[segs1 t'] total1] eqn:ER. intros [= <- <- <-].
    change (o' :: t') with ([o'] ++ t'). change (o :: t) with ([o] ++ t). rewrite !tlv_nonpad_app, (IH _ _ _ _ ER).
    f_equal. unfold tlv_nonpad. cbn [filter]. rewrite H1. destruct (negb ((t_type o =? 0) || (t_type o =? 1))); [cbn [map]; rewrite H1, H2; reflexivity|reflexivity].
Qed.

Lemma ext_wire_facts h payload bytes h' : ext_wf h -> ext_wire false h payload true = (Ok bytes, h') ->
  n6_len bytes = ext_size h + n6_len payload /\ e_next h' = e_next h /\
  tlv_nonpad (e_opts h') = tlv_nonpad (e_opts h) /\ 8 <= ext_size h.
Proof.
  intros Hw. unfold ext_wire, ext_size. destruct (tlvs_ser false true (e_opts h) 2) as [[segs os'] total] eqn:ES.
  destruct (tlvs_ser_spec false true (e_opts h) 2 segs os' total Hw ltac:(lia) ES) as (Htot & _ & _ & _).
  pose proof (tlvs_ser_nonpad _ _ _ _ _ _ _ ES) as Hnp. pose proof (n6_len_nonneg (concat segs)).
  destruct (negb _) eqn:E8; [discriminate|]. intros [= <- <-]. cbn [e_next e_opts app]. rewrite !n6_len_cons, n6_len_app.
  repeat split; try assumption; lia.
Qed.

(* ---------------------------------------------------------------- IPv6 with hop-by-hop, no jumbogram *)

Lemma ip6_roundtrip_hbh l h payload junk : ip6_okb l = true -> p_hbh l = Some h -> no_jumbo (e_opts h) ->
  bytes_ok payload -> ext_size h + n6_len payload <= 65535 ->
  exists bytes l2 h2,
    ip6_roundtrip l payload junk = (Ok bytes, (l2, Ok tt, false)) /\
    p_payload l2 = payload /\ p_hbh l2 = Some h2 /\ e_payload h2 = payload /\
    p_length l2 = ext_size h + n6_len payload /\
    ip6_fields l2 = ip6_fields (snd (ip6_serialize l payload true true junk)).
Proof.
  intros Hok Hh Hnj Hp Hfit. pose proof (ip6_okb_spec l Hok) as (Hv & Htc & Hfl & Hnh & Hhop & Hsb & Hsl & Hdb & Hdl & Hhb).
  rewrite Hh in Hhb. destruct Hhb as [Hokh Hn0]. pose proof (ext_okb_wf h Hokh) as Hwh.
  assert (Hw : ip6_wf l) by (unfold ip6_wf; rewrite Hh; exact Hwh).
  pose proof (n6_len_nonneg payload) as Hpn.
  (* the extension header: serialized, and decoded again *)
  destruct (ext_roundtrip_ok h payload [] Hokh Hp) as (bytes & h2 & HR & Hn2 & Hhl2 & Hpl2 & Hnp2 & _).
  unfold ext_roundtrip, ext_serialize in HR, Hhl2.
  pose proof (ext_serialize_gen_closed false h payload true [] Hwh) as HC.
  destruct (ext_serialize_gen false h payload true []) as [[r0 h0] j0].
  destruct (ext_wire false h payload true) as [r h'] eqn:EW. injection HC as -> ->. cbn [snd] in Hhl2.
  destruct r as [bytes0|e|s]; try discriminate HR. injection HR as -> HD.
  destruct (ext_wire_facts h payload bytes h' Hwh EW) as (HLb & Hnx & Hnp' & H8).
  destruct (ext_wire_bytes false h payload true bytes h' Hwh Hp EW) as (Hbb & _ & _ & _).
  pose proof (ext_decode_ok false ext_fresh bytes h2 false Hbb HD) as (_ & Hal & Hall & _ & _ & _ & _ & Hpay).
  (* serialization of the IPv6 layer *)
  unfold ip6_roundtrip. rewrite ip6_serialize_closed by exact Hw. unfold ip6_wire.
  replace (65535 <? n6_len payload) with false by lia. rewrite Hh, EW. cbn [andb negb].
  replace (65535 <? n6_len bytes) with false by lia.
  unfold set_len_next. cbn [p_version p_tclass p_flow p_length p_next p_hop p_src p_dst p_hbh p_contents p_payload snd].
  replace (negb (n6_len (p_src l) =? 16)) with false by lia. replace (negb (n6_len (p_dst l) =? 16)) with false by lia.
  assert (Hu16 : u16 (n6_len bytes) = n6_len bytes) by (unfold u16; lia). rewrite Hu16.
  set (l3 := mkIp6 (p_version l) (p_tclass l) (p_flow l) (n6_len bytes) 0 (p_hop l) (p_src l) (p_dst l) (Some h') (p_contents l) (p_payload l)).
  assert (H3 : ip6_hdr_ok l3) by (unfold ip6_hdr_ok; cbn; repeat split; lia).
  rewrite (ip6_decode_wire ip6_fresh l3 bytes H3). cbn [l3 p_version p_tclass p_flow p_length p_next p_hop p_src p_dst].
  unfold ip6_body. cbn [p_next p_payload p_length Z.eqb]. rewrite HD. cbv zeta.
  unfold get_jumbo. rewrite (find_jumbo_none (e_opts h) (e_opts h2) Hnj Hnp2). cbn [andb].
  replace (n6_len bytes =? 0) with false by lia.
  rewrite (n6_from_eq bytes (e_alen h2)) by lia. rewrite <- Hpay, Hpl2.
  unfold ip6_trim. cbn [set_payload p_length p_payload p_hbh].
  replace (n6_len bytes =? 0) with false by lia.
  assert (Hal2 : n6_len bytes - e_alen h2 = n6_len payload).
  { assert (HX : n6_len (e_payload h2) = n6_len bytes - e_alen h2) by (rewrite Hpay; unfold n6_len in *; rewrite skipn_length; lia).
    rewrite Hpl2 in HX. lia. }
  rewrite Hal2. replace (n6_len payload <? 0) with false by lia. replace (n6_len payload <? n6_len payload) with false by lia.
  rewrite n6_slice_eq by lia. change (Z.to_nat 0) with 0%nat. replace (Z.to_nat (n6_len payload)) with (length payload) by (unfold n6_len; lia).
  rewrite slice_0_all.
  eexists. eexists. eexists. split; [reflexivity|]. cbn [p_payload p_hbh p_length ext_set_payload e_payload].
  split; [reflexivity|]. split; [reflexivity|]. split; [reflexivity|]. split; [exact HLb|].
  subst l3. unfold ip6_fields, set_payload, ext_set_payload. cbn [snd p_version p_tclass p_flow p_length p_next p_hop p_src p_dst p_hbh e_next e_hlen e_opts].
  rewrite Hn2, Hhl2, Hnp2, Hnx, Hnp'. reflexivity.
Qed.
