(* Lgre — round trip (C06) *)
From GP Require Import Base ListX N6Lib LgreModel LgreProofs.
From Coq Require Import Lia ZifyBool ZifyNat.
Open Scope Z_scope.
Ltac Zify.zify_post_hook ::= Z.div_mod_to_equations.

(* ---------------------------------------------------------------- the two flag octets *)

Lemma small8 x : 0 <= x < 8 -> x = 0 \/ x = 1 \/ x = 2 \/ x = 3 \/ x = 4 \/ x = 5 \/ x = 6 \/ x = 7.
Proof. lia. Qed.
Lemma small16 x : 0 <= x < 16 -> x = 0 \/ x = 1 \/ x = 2 \/ x = 3 \/ x = 4 \/ x = 5 \/ x = 6 \/ x = 7 \/
  x = 8 \/ x = 9 \/ x = 10 \/ x = 11 \/ x = 12 \/ x = 13 \/ x = 14 \/ x = 15.
Proof. lia. Qed.

Lemma b0_bits c r k s ssr recur : 0 <= recur < 8 ->
  let b0 := Z.lor (Z.lor (Z.lor (Z.lor (Z.lor (b2z c 128) (b2z r 64)) (b2z k 32)) (b2z s 16)) (b2z ssr 8)) recur in
  bit b0 7 = c /\ bit b0 6 = r /\ bit b0 5 = k /\ bit b0 4 = s /\ bit b0 3 = ssr /\ b0 mod 8 = recur /\ 0 <= b0 < 256.
Proof.
  intros H. apply small8 in H.
  destruct c, r, k, s, ssr; repeat (destruct H as [H|H]; [subst; vm_compute; repeat split; congruence|]);
    subst; vm_compute; repeat split; congruence.
Qed.

Lemma b1_bits a flags ver : 0 <= flags < 16 -> 0 <= ver < 8 ->
  let b1 := Z.lor (Z.lor (b2z a 128) (u8 (flags * 8))) ver in
  bit b1 7 = a /\ (b1 / 8) mod 16 = flags /\ b1 mod 8 = ver /\ 0 <= b1 < 256.
Proof.
  intros Hf Hv. apply small16 in Hf. apply small8 in Hv.
  destruct a; repeat (destruct Hf as [Hf|Hf]; [subst flags; repeat (destruct Hv as [Hv|Hv]; [subst; vm_compute; repeat split; congruence|]); subst; vm_compute; repeat split; congruence|]);
    subst flags; repeat (destruct Hv as [Hv|Hv]; [subst; vm_compute; repeat split; congruence|]); subst; vm_compute; repeat split; congruence.
Qed.

(* ---------------------------------------------------------------- reading structured data *)

Lemma slice_mid (pre b rest : list Z) : slice (pre ++ b ++ rest) (length pre) (length pre + length b) = b.
Proof.
  unfold slice. rewrite app_assoc, firstn_app.
  replace (length pre + length b - length (pre ++ b))%nat with 0%nat by (rewrite app_length; lia).
  rewrite firstn_all2 by (rewrite app_length; lia). cbn [firstn]. rewrite app_nil_r.
  rewrite skipn_app, skipn_all, Nat.sub_diag. reflexivity.
Qed.

Lemma n6_slice_mid (pre b rest : list Z) :
  n6_slice (pre ++ b ++ rest) (n6_len pre) (n6_len pre + n6_len b) = Some b.
Proof.
  pose proof (n6_len_nonneg pre). pose proof (n6_len_nonneg b). pose proof (n6_len_nonneg rest).
  rewrite n6_slice_eq by (rewrite ?n6_len_app; lia). f_equal.
  replace (Z.to_nat (n6_len pre)) with (length pre) by (unfold n6_len; lia).
  replace (Z.to_nat (n6_len pre + n6_len b)) with (length pre + length b)%nat by (unfold n6_len; lia).
  apply slice_mid.
Qed.

Lemma field4_mid pre b rest g k : n6_len b = 4 -> field4 (pre ++ b ++ rest) (n6_len pre) g k = k b.
Proof.
  intros Hb. unfold field4, short. pose proof (n6_len_nonneg rest).
  rewrite !n6_len_app, Hb. replace (n6_len pre + (4 + n6_len rest) - n6_len pre <? 4) with false by lia.
  rewrite <- Hb, n6_slice_mid. reflexivity.
Qed.

(* an optional 4-octet field *)
Lemma opt_field4 (flag : bool) pre b rest g (upd : gre -> list Z -> gre) : n6_len b = 4 ->
  (if flag then field4 (pre ++ (if flag then b else []) ++ rest) (n6_len pre) g (fun x => Cont (upd g x) (n6_len pre + 4))
   else Cont g (n6_len pre))
  = Cont (if flag then upd g b else g) (n6_len (pre ++ (if flag then b else []))).
Proof.
  intros Hb. destruct flag.
  - rewrite field4_mid by exact Hb. rewrite n6_len_app, Hb. reflexivity.
  - rewrite app_nil_r. reflexivity.
Qed.

(* ---------------------------------------------------------------- the routing entries *)

Lemma sre_okb_spec s : sre_okb s = true ->
  0 <= s_af s < 65536 /\ 0 <= s_off s < 256 /\ bytes_ok (s_info s) /\ s_len s = n6_len (s_info s) /\ s_len s < 256 /\
  ~ (s_af s = 0 /\ s_len s = 0).
Proof.
  unfold sre_okb. intros H.
  apply andb_prop in H as [H H7]. apply andb_prop in H as [H H6]. apply andb_prop in H as [H H5].
  apply andb_prop in H as [H H4]. apply andb_prop in H as [H H3]. apply andb_prop in H as [H1 H2].
  apply bytes_okb_ok in H4. unfold byte_okb in *. repeat split; try assumption; lia.
Qed.

Lemma sre_seg_ok s : sre_okb s = true -> sre_seg s = be_bytes 2 (s_af s) ++ [s_off s; s_len s] ++ s_info s.
Proof.
  intros H. apply sre_okb_spec in H as (Ha & Ho & Hb & Hl & Hl2 & _). unfold sre_seg.
  pose proof (n6_len_nonneg (s_info s)).
  assert (Hu : u8 (s_len s) = s_len s) by (unfold u8; lia). rewrite Hu.
  replace (Z.to_nat (s_len s)) with (length (s_info s)) by (unfold n6_len in Hl; lia).
  rewrite firstn_all, Nat.sub_diag. cbn [repeat]. rewrite app_nil_r. unfold u8. rewrite Z.mod_small by lia. reflexivity.
Qed.

Lemma sre_loop_segs rs : forall fuel pre rest g, forallb sre_okb rs = true -> (length rs < fuel)%nat ->
  sre_loop fuel (pre ++ concat (map sre_seg rs) ++ [0; 0; 0; 0] ++ rest) g (n6_len pre)
  = Cont (set_routing g (g_routing g ++ rs)) (n6_len (pre ++ concat (map sre_seg rs) ++ [0; 0; 0; 0])).
Proof.
  induction rs as [|s t IH]; intros fuel pre rest g Hok Hf.
  - destruct fuel as [|f]; [cbn in Hf; lia|]. cbn [map concat app sre_loop]. unfold short.
    pose proof (n6_len_nonneg pre). pose proof (n6_len_nonneg rest).
    set (data := pre ++ 0 :: 0 :: 0 :: 0 :: rest).
    assert (HL : n6_len data = n6_len pre + 4 + n6_len rest) by (subst data; rewrite n6_len_app, !n6_len_cons; lia).
    replace (n6_len data - n6_len pre <? 4) with false by lia.
    assert (Hs : n6_slice data (n6_len pre) (n6_len pre + 2) = Some [0; 0]).
    { subst data. change (0 :: 0 :: 0 :: 0 :: rest) with ([0; 0] ++ [0; 0] ++ rest). apply (n6_slice_mid pre [0; 0]). }
    rewrite Hs. rewrite (n6_idx_eq data (n6_len pre + 2)), (n6_idx_eq data (n6_len pre + 3)) by lia.
    assert (H2 : nthZ data (Z.to_nat (n6_len pre + 2)) = 0).
    { subst data. unfold nthZ. rewrite app_nth2 by (unfold n6_len; lia).
      replace (Z.to_nat (n6_len pre + 2) - length pre)%nat with 2%nat by (unfold n6_len; lia). reflexivity. }
    assert (H3 : nthZ data (Z.to_nat (n6_len pre + 3)) = 0).
    { subst data. unfold nthZ. rewrite app_nth2 by (unfold n6_len; lia).
      replace (Z.to_nat (n6_len pre + 3) - length pre)%nat with 3%nat by (unfold n6_len; lia). reflexivity. }
    rewrite H3. replace (n6_len data - (n6_len pre + 4) <? 0) with false by lia.
    rewrite (n6_slice_eq data (n6_len pre + 4) (n6_len pre + 4 + 0)) by lia.
    change (be_val [0; 0] =? 0) with true. cbn [andb Z.eqb]. rewrite app_nil_r.
    f_equal; [destruct g; reflexivity|]. rewrite n6_len_app. change (n6_len [0; 0; 0; 0]) with 4. lia.
  - destruct fuel as [|f]; [cbn in Hf; lia|]. cbn [length] in Hf. cbn [forallb] in Hok. apply andb_prop in Hok as [Hs Ht].
    pose proof (sre_okb_spec s Hs) as (Ha & Ho & Hb & Hl & Hl2 & Hnt).
    cbn [map concat]. rewrite (sre_seg_ok s Hs). cbn [sre_loop]. unfold short.
    set (tail := concat (map sre_seg t) ++ [0; 0; 0; 0] ++ rest).
    remember (be_bytes 2 (s_af s)) as afb eqn:Eafb.
    assert (Lafb : n6_len afb = 2) by (subst; unfold n6_len; rewrite be_bytes_length; reflexivity).
    assert (Vafb : be_val afb = s_af s) by (subst; rewrite be_val_be_bytes; change (256 ^ Z.of_nat 2) with 65536; lia).
    set (data := pre ++ ((afb ++ [s_off s; s_len s] ++ s_info s) ++ concat (map sre_seg t)) ++ [0; 0; 0; 0] ++ rest).
    assert (Hd : data = pre ++ afb ++ ([s_off s; s_len s] ++ s_info s ++ tail)).
    { subst data tail. rewrite <- !app_assoc. reflexivity. }
    pose proof (n6_len_nonneg pre). pose proof (n6_len_nonneg tail). pose proof (n6_len_nonneg (s_info s)).
    assert (HL : n6_len data = n6_len pre + 4 + n6_len (s_info s) + n6_len tail).
    { rewrite Hd, !n6_len_app, Lafb. change (n6_len [s_off s; s_len s]) with 2. lia. }
    replace (n6_len data - n6_len pre <? 4) with false by lia.
    assert (Hs1 : n6_slice data (n6_len pre) (n6_len pre + 2) = Some afb).
    { rewrite Hd, <- Lafb. apply n6_slice_mid. }
    rewrite Hs1. rewrite (n6_idx_eq data (n6_len pre + 2)), (n6_idx_eq data (n6_len pre + 3)) by lia.
    assert (H2 : nthZ data (Z.to_nat (n6_len pre + 2)) = s_off s).
    { rewrite Hd, app_assoc. unfold nthZ. rewrite app_nth2 by (rewrite app_length; unfold n6_len in *; lia).
      replace (Z.to_nat (n6_len pre + 2) - length (pre ++ afb))%nat with 0%nat by (rewrite app_length; unfold n6_len in *; lia). reflexivity. }
    assert (H3 : nthZ data (Z.to_nat (n6_len pre + 3)) = s_len s).
    { rewrite Hd, app_assoc. unfold nthZ. rewrite app_nth2 by (rewrite app_length; unfold n6_len in *; lia).
      replace (Z.to_nat (n6_len pre + 3) - length (pre ++ afb))%nat with 1%nat by (rewrite app_length; unfold n6_len in *; lia). reflexivity. }
    rewrite H2, H3. replace (n6_len data - (n6_len pre + 4) <? s_len s) with false by lia.
    assert (Hs2 : n6_slice data (n6_len pre + 4) (n6_len pre + 4 + s_len s) = Some (s_info s)).
    { rewrite Hd. replace (pre ++ afb ++ [s_off s; s_len s] ++ s_info s ++ tail) with ((pre ++ afb ++ [s_off s; s_len s]) ++ s_info s ++ tail)
        by (rewrite <- !app_assoc; reflexivity).
      replace (n6_len pre + 4) with (n6_len (pre ++ afb ++ [s_off s; s_len s])) by (rewrite !n6_len_app, Lafb; change (n6_len [s_off s; s_len s]) with 2; lia).
      rewrite Hl. apply n6_slice_mid. }
    rewrite Hs2, Vafb. replace ((s_af s =? 0) && (s_len s =? 0)) with false by lia.
    specialize (IH f (pre ++ afb ++ [s_off s; s_len s] ++ s_info s) rest
                  (set_routing g (g_routing g ++ [mkSre (s_af s) (s_off s) (s_len s) (s_info s)])) Ht ltac:(lia)).
    replace (n6_len pre + 4 + s_len s) with (n6_len (pre ++ afb ++ [s_off s; s_len s] ++ s_info s))
      by (rewrite !n6_len_app, Lafb; change (n6_len [s_off s; s_len s]) with 2; lia).
    replace data with ((pre ++ afb ++ [s_off s; s_len s] ++ s_info s) ++ concat (map sre_seg t) ++ [0; 0; 0; 0] ++ rest)
      by (subst data; rewrite <- !app_assoc; reflexivity).
    rewrite IH. cbn [set_routing g_routing]. f_equal.
    + destruct s. cbn. rewrite <- app_assoc. reflexivity.
    + rewrite <- !app_assoc. reflexivity.
Qed.

(* ---------------------------------------------------------------- the header in pieces *)

Definition P0 (g : gre) : list Z :=
  [Z.lor (Z.lor (Z.lor (Z.lor (Z.lor (b2z (g_csump g) 128) (b2z (g_routp g) 64)) (b2z (g_keyp g) 32))
                        (b2z (g_seqp g) 16)) (b2z (g_ssr g) 8)) (g_recur g);
   Z.lor (Z.lor (b2z (g_ackp g) 128) (u8 (g_flags g * 8))) (g_version g)] ++ be_bytes 2 (g_proto g).
Definition COb (g : gre) (ck : list Z) : list Z := ck ++ be_bytes 2 (g_offset g).
Definition Rb (g : gre) : list Z := concat (map sre_seg (g_routing g)) ++ [0; 0; 0; 0].

Definition hdr_of (g : gre) (ck : list Z) : list Z :=
  P0 g ++ (if g_csump g || g_routp g then COb g ck else []) ++ (if g_keyp g then be_bytes 4 (g_key g) else [])
  ++ (if g_seqp g then be_bytes 4 (g_seq g) else []) ++ (if g_routp g then Rb g else [])
  ++ (if g_ackp g then be_bytes 4 (g_ack g) else []).

Lemma gre_segs_hdr g : concat (gre_segs g) = hdr_of g [0; 0].
Proof.
  unfold gre_segs, hdr_of, P0, COb, Rb. cbv zeta. rewrite !concat_app. cbn [concat]. rewrite app_nil_r.
  f_equal. f_equal; [destruct (g_csump g || g_routp g); cbn [concat]; rewrite ?app_nil_r; reflexivity|].
  f_equal; [destruct (g_keyp g); cbn [concat]; rewrite ?app_nil_r; reflexivity|].
  f_equal; [destruct (g_seqp g); cbn [concat]; rewrite ?app_nil_r; reflexivity|].
  f_equal; [destruct (g_routp g); [rewrite concat_app; cbn [concat]; rewrite app_nil_r; reflexivity|reflexivity]|].
  destruct (g_ackp g); cbn [concat]; rewrite ?app_nil_r; reflexivity.
Qed.

Lemma hdr_put_csum g ck : g_csump g = true -> length ck = 2%nat -> n6_put (hdr_of g [0; 0]) 4 ck = hdr_of g ck.
Proof.
  intros Hc Hk. unfold hdr_of, P0, COb. rewrite Hc. cbn [orb].
  remember (be_bytes 2 (g_proto g)) as pb. assert (Lp : length pb = 2%nat) by (subst; apply be_bytes_length).
  destruct pb as [|p0 [|p1 [|]]]; try discriminate Lp. destruct ck as [|c0 [|c1 [|]]]; try discriminate Hk.
  cbn [app]. unfold n6_put. cbn [firstn skipn length Nat.sub Nat.add app]. reflexivity.
Qed.

Lemma be_val_2g x : 0 <= x < 65536 -> be_val (be_bytes 2 x) = x.
Proof. intros H. rewrite be_val_be_bytes. change (256 ^ Z.of_nat 2) with 65536. lia. Qed.
Lemma be_val_4g x : 0 <= x < 4294967296 -> be_val (be_bytes 4 x) = x.
Proof. intros H. rewrite be_val_be_bytes. change (256 ^ Z.of_nat 4) with 4294967296. lia. Qed.
Lemma len_be n x : n6_len (be_bytes n x) = Z.of_nat n.
Proof. unfold n6_len. rewrite be_bytes_length. reflexivity. Qed.

(* decoding a header in pieces followed by a payload *)
Lemma gre_decode_hdr g ck payload : gre_okb g = true -> length ck = 2%nat ->
  gre_decode_into gre_fresh (hdr_of g ck ++ payload) =
  (mkGre (g_csump g) (g_routp g) (g_keyp g) (g_seqp g) (g_ssr g) (g_ackp g) (g_recur g) (g_flags g) (g_version g) (g_proto g)
         (if g_csump g || g_routp g then be_val ck else 0) (g_offset g) (g_key g) (g_seq g) (g_ack g) (g_routing g)
         (hdr_of g ck) payload, Ok tt, false).
Proof.
  intros Hok Hck. unfold gre_okb in Hok.
  repeat match type of Hok with (_ && _) = true => let H := fresh "Hk" in apply andb_prop in Hok as [Hok H] end.
  assert (Zo : g_csump g || g_routp g = false -> g_offset g = 0) by (intros E; rewrite E in *; cbn [orb] in *; lia).
  assert (Zk : g_keyp g = false -> g_key g = 0) by (intros E; rewrite E in *; cbn [orb] in *; lia).
  assert (Zs : g_seqp g = false -> g_seq g = 0) by (intros E; rewrite E in *; cbn [orb] in *; lia).
  assert (Za : g_ackp g = false -> g_ack g = 0) by (intros E; rewrite E in *; cbn [orb] in *; lia).
  assert (Zr : g_routp g = false -> g_routing g = []).
  { intros E. rewrite E in *. cbn [orb] in *. destruct (g_routing g); [reflexivity|discriminate]. }
  assert (Hr : 0 <= g_recur g < 8) by lia. assert (Hf : 0 <= g_flags g < 16) by lia. assert (Hv : 0 <= g_version g < 8) by lia.
  pose proof (b0_bits (g_csump g) (g_routp g) (g_keyp g) (g_seqp g) (g_ssr g) (g_recur g) Hr) as B0.
  pose proof (b1_bits (g_ackp g) (g_flags g) (g_version g) Hf Hv) as B1. cbv zeta in B0, B1.
  unfold hdr_of, P0.
  set (b0 := Z.lor (Z.lor (Z.lor (Z.lor (Z.lor _ _) _) _) _) (g_recur g)) in *.
  set (b1 := Z.lor (Z.lor _ _) (g_version g)) in *.
  destruct B0 as (B07 & B06 & B05 & B04 & B03 & B0r & B0b). destruct B1 as (B17 & B1f & B1v & B1b).
  clearbody b0 b1.
  remember (be_bytes 2 (g_proto g)) as pb. assert (Lp : length pb = 2%nat) by (subst; apply be_bytes_length).
  assert (Vp : be_val pb = g_proto g) by (subst; apply be_val_2g; lia).
  destruct pb as [|p0 [|p1 [|]]]; try discriminate Lp. clear Heqpb Lp.
  set (CO := if g_csump g || g_routp g then COb g ck else []).
  set (K := if g_keyp g then be_bytes 4 (g_key g) else []).
  set (S := if g_seqp g then be_bytes 4 (g_seq g) else []).
  set (R := if g_routp g then Rb g else []).
  set (A := if g_ackp g then be_bytes 4 (g_ack g) else []).
  cbn [app]. set (data := b0 :: b1 :: p0 :: p1 :: (CO ++ K ++ S ++ R ++ A) ++ payload).
  assert (HL4 : 4 <= n6_len data) by (subst data; rewrite !n6_len_cons; pose proof (n6_len_nonneg ((CO ++ K ++ S ++ R ++ A) ++ payload)); lia).
  unfold gre_decode_into. replace (n6_len data <? 4) with false by lia.
  rewrite (n6_idx_eq data 0), (n6_idx_eq data 1), (n6_slice_eq data 2 4) by lia.
  change (nthZ data (Z.to_nat 0)) with b0. change (nthZ data (Z.to_nat 1)) with b1.
  change (slice data (Z.to_nat 2) (Z.to_nat 4)) with [p0; p1]. cbv zeta.
  rewrite B07, B06, B05, B04, B03, B17, B0r, B1f, B1v, Vp.
  set (g0 := mkGre (g_csump g) (g_routp g) (g_keyp g) (g_seqp g) (g_ssr g) (g_ackp g) (g_recur g) (g_flags g) (g_version g)
                   (g_proto g) 0 0 0 0 0 [] [] []).
  cbn [g_csump g_routp g0].
  (* the data as prefix ++ optional field ++ rest, stage by stage *)
  set (pre0 := [b0; b1; p0; p1]).
  assert (Hd1 : data = pre0 ++ CO ++ (K ++ S ++ R ++ A ++ payload)) by (subst data pre0; cbn [app]; rewrite <- !app_assoc; reflexivity).
  assert (E1 : (if g_csump g || g_routp g
                then field4 data 4 g0 (fun b => Cont (set_co g0 (be_val (firstn 2 b)) (be_val (skipn 2 b))) 8)
                else Cont g0 4)
               = Cont (if g_csump g || g_routp g then set_co g0 (be_val ck) (g_offset g) else g0) (n6_len (pre0 ++ CO))).
  { rewrite Hd1. subst CO. destruct (g_csump g || g_routp g).
    - change 4 with (n6_len pre0). rewrite field4_mid by (unfold COb; rewrite n6_len_app, len_be; unfold n6_len; rewrite Hck; reflexivity).
      unfold COb. rewrite n6_len_app. destruct ck as [|c0 [|c1 [|]]]; try discriminate Hck. cbn [app firstn skipn].
      rewrite be_val_2g by lia. f_equal.
    - rewrite app_nil_r. reflexivity. }
  rewrite E1. cbn [dbind].
  set (R1 := mkGre (g_csump g) (g_routp g) (g_keyp g) (g_seqp g) (g_ssr g) (g_ackp g) (g_recur g) (g_flags g) (g_version g)
                   (g_proto g) (if g_csump g || g_routp g then be_val ck else 0) (g_offset g) 0 0 0 [] [] []).
  assert (G1 : (if g_csump g || g_routp g then set_co g0 (be_val ck) (g_offset g) else g0) = R1).
  { subst R1 g0. destruct (g_csump g || g_routp g) eqn:E; [reflexivity|]. rewrite (Zo eq_refl). reflexivity. }
  rewrite G1. change (g_keyp R1) with (g_keyp g).
  set (pre1 := pre0 ++ CO).
  assert (Hd2 : data = pre1 ++ K ++ (S ++ R ++ A ++ payload)) by (rewrite Hd1; subst pre1; rewrite <- !app_assoc; reflexivity).
  assert (E2 : (if g_keyp g then field4 data (n6_len pre1) R1 (fun b => Cont (set_key R1 (be_val b)) (n6_len pre1 + 4)) else Cont R1 (n6_len pre1))
               = Cont (if g_keyp g then set_key R1 (g_key g) else R1) (n6_len (pre1 ++ K))).
  { rewrite Hd2. subst K. destruct (g_keyp g).
    - rewrite field4_mid by apply len_be. rewrite be_val_4g by lia. rewrite n6_len_app, len_be. reflexivity.
    - rewrite app_nil_r. reflexivity. }
  rewrite E2. cbn [dbind].
  set (R2 := mkGre (g_csump g) (g_routp g) (g_keyp g) (g_seqp g) (g_ssr g) (g_ackp g) (g_recur g) (g_flags g) (g_version g)
                   (g_proto g) (if g_csump g || g_routp g then be_val ck else 0) (g_offset g) (g_key g) 0 0 [] [] []).
  assert (G2 : (if g_keyp g then set_key R1 (g_key g) else R1) = R2).
  { subst R2 R1. destruct (g_keyp g) eqn:E; [reflexivity|]. rewrite (Zk eq_refl). reflexivity. }
  rewrite G2. change (g_seqp R2) with (g_seqp g).
  set (pre2 := pre1 ++ K).
  assert (Hd3 : data = pre2 ++ S ++ (R ++ A ++ payload)) by (rewrite Hd2; subst pre2; rewrite <- !app_assoc; reflexivity).
  assert (E3 : (if g_seqp g then field4 data (n6_len pre2) R2 (fun b => Cont (set_seq R2 (be_val b)) (n6_len pre2 + 4)) else Cont R2 (n6_len pre2))
               = Cont (if g_seqp g then set_seq R2 (g_seq g) else R2) (n6_len (pre2 ++ S))).
  { rewrite Hd3. subst S. destruct (g_seqp g).
    - rewrite field4_mid by apply len_be. rewrite be_val_4g by lia. rewrite n6_len_app, len_be. reflexivity.
    - rewrite app_nil_r. reflexivity. }
  rewrite E3. cbn [dbind].
  set (R3 := mkGre (g_csump g) (g_routp g) (g_keyp g) (g_seqp g) (g_ssr g) (g_ackp g) (g_recur g) (g_flags g) (g_version g)
                   (g_proto g) (if g_csump g || g_routp g then be_val ck else 0) (g_offset g) (g_key g) (g_seq g) 0 [] [] []).
  assert (G3 : (if g_seqp g then set_seq R2 (g_seq g) else R2) = R3).
  { subst R3 R2. destruct (g_seqp g) eqn:E; [reflexivity|]. rewrite (Zs eq_refl). reflexivity. }
  rewrite G3. change (g_routp R3) with (g_routp g).
  set (pre3 := pre2 ++ S).
  assert (Hd4 : data = pre3 ++ R ++ (A ++ payload)) by (rewrite Hd3; subst pre3; rewrite <- !app_assoc; reflexivity).
  assert (E4 : (if g_routp g then sre_loop (Datatypes.S (length data)) data R3 (n6_len pre3) else Cont R3 (n6_len pre3))
               = Cont (if g_routp g then set_routing R3 (g_routing g) else R3) (n6_len (pre3 ++ R))).
  { subst R. destruct (g_routp g) eqn:ER.
    - rewrite Hd4 at 2. unfold Rb. rewrite <- !app_assoc.
      rewrite sre_loop_segs; [cbn [g_routing R3 app]; rewrite <- ?app_assoc; reflexivity|assumption|].
      rewrite Hd4. unfold Rb. rewrite !app_length.
      assert (length (g_routing g) <= length (concat (map sre_seg (g_routing g))))%nat.
      { clear. induction (g_routing g) as [|s t IH]; [cbn; lia|]. cbn [map concat length]. rewrite app_length.
        pose proof (sre_seg_len s) as HS. unfold n6_len in HS. assert (0 <= u8 (s_len s)) by (unfold u8; lia). lia. }
      lia.
    - rewrite app_nil_r. reflexivity. }
  rewrite E4. cbn [dbind].
  set (R4 := mkGre (g_csump g) (g_routp g) (g_keyp g) (g_seqp g) (g_ssr g) (g_ackp g) (g_recur g) (g_flags g) (g_version g)
                   (g_proto g) (if g_csump g || g_routp g then be_val ck else 0) (g_offset g) (g_key g) (g_seq g) 0 (g_routing g) [] []).
  assert (G4 : (if g_routp g then set_routing R3 (g_routing g) else R3) = R4).
  { subst R4 R3. destruct (g_routp g) eqn:E; [reflexivity|]. rewrite (Zr eq_refl). reflexivity. }
  rewrite G4. change (g_ackp R4) with (g_ackp g).
  set (pre4 := pre3 ++ R).
  assert (Hd5 : data = pre4 ++ A ++ payload) by (rewrite Hd4; subst pre4; rewrite <- !app_assoc; reflexivity).
  assert (E5 : (if g_ackp g then field4 data (n6_len pre4) R4 (fun b => Cont (set_ack R4 (be_val b)) (n6_len pre4 + 4)) else Cont R4 (n6_len pre4))
               = Cont (if g_ackp g then set_ack R4 (g_ack g) else R4) (n6_len (pre4 ++ A))).
  { rewrite Hd5. subst A. destruct (g_ackp g).
    - rewrite field4_mid by apply len_be. rewrite be_val_4g by lia. rewrite n6_len_app, len_be. reflexivity.
    - rewrite app_nil_r. reflexivity. }
  rewrite E5.
  set (R5 := mkGre (g_csump g) (g_routp g) (g_keyp g) (g_seqp g) (g_ssr g) (g_ackp g) (g_recur g) (g_flags g) (g_version g)
                   (g_proto g) (if g_csump g || g_routp g then be_val ck else 0) (g_offset g) (g_key g) (g_seq g) (g_ack g) (g_routing g) [] []).
  assert (G5 : (if g_ackp g then set_ack R4 (g_ack g) else R4) = R5).
  { subst R5 R4. destruct (g_ackp g) eqn:E; [reflexivity|]. rewrite (Za eq_refl). reflexivity. }
  rewrite G5.
  set (hdr := pre4 ++ A).
  assert (Hd6 : data = hdr ++ payload) by (rewrite Hd5; subst hdr; rewrite <- app_assoc; reflexivity).
  pose proof (n6_len_nonneg hdr). pose proof (n6_len_nonneg payload).
  rewrite (n6_slice_eq data 0 (n6_len hdr)), (n6_from_eq data (n6_len hdr)) by (try rewrite Hd6; rewrite ?n6_len_app; lia).
  rewrite Hd6. change (Z.to_nat 0) with 0%nat. replace (Z.to_nat (n6_len hdr)) with (length hdr) by (unfold n6_len; lia).
  rewrite slice_0, firstn_app, Nat.sub_diag, firstn_all. cbn [firstn]. rewrite app_nil_r.
  rewrite skipn_app, skipn_all, Nat.sub_diag. cbn [skipn app].
  assert (Hh : hdr = b0 :: b1 :: p0 :: p1 :: CO ++ K ++ S ++ R ++ A).
  { subst hdr pre4 pre3 pre2 pre1 pre0. cbn [app]. rewrite <- !app_assoc. reflexivity. }
  rewrite Hh. reflexivity.
Qed.

Lemma gre_roundtrip_ok g payload junk : gre_okb g = true ->
  exists bytes g2,
    gre_roundtrip g payload junk = (Ok bytes, (g2, Ok tt, false)) /\
    gre_fields g2 = gre_fields g /\ g_payload g2 = payload /\
    g_csum g2 = (if g_csump g then g_csum (snd (gre_serialize g payload true true junk)) else 0) /\
    forall junk', fst (gre_serialize g2 payload true true junk') = Ok bytes.
Proof.
  intros Hok. unfold gre_roundtrip. rewrite gre_serialize_closed. unfold gre_wire. rewrite gre_segs_hdr.
  destruct (g_csump g) eqn:EC.
  - set (ck := n6_fold (n6_csum (hdr_of g [0; 0] ++ payload) 0)).
    pose proof (n6_fold_range (n6_csum (hdr_of g [0; 0] ++ payload) 0)) as Hck. fold ck in Hck.
    cbn [set_csum set_co g_csum snd].
    rewrite hdr_put_csum by (try exact EC; apply be_bytes_length).
    rewrite (gre_decode_hdr g (be_bytes 2 ck) payload Hok (be_bytes_length 2 ck)).
    eexists. eexists. split; [reflexivity|].
    split; [reflexivity|]. split; [reflexivity|]. split; [cbn [g_csum]; rewrite EC; cbn [orb]; apply be_val_2g; lia|].
    intros junk'. rewrite gre_serialize_closed. unfold gre_wire. rewrite gre_segs_hdr. cbn [g_csump].
    assert (HH : forall c cont pl, hdr_of (mkGre (g_csump g) (g_routp g) (g_keyp g) (g_seqp g) (g_ssr g) (g_ackp g) (g_recur g) (g_flags g) (g_version g)
                         (g_proto g) c (g_offset g) (g_key g) (g_seq g) (g_ack g) (g_routing g) cont pl) [0; 0] = hdr_of g [0; 0]) by reflexivity.
    rewrite HH, EC. fold ck. cbn [fst set_csum set_co g_csum].
    rewrite (hdr_put_csum g (be_bytes 2 ck) EC (be_bytes_length 2 ck)). reflexivity.
  - rewrite (gre_decode_hdr g [0; 0] payload Hok eq_refl).
    eexists. eexists. split; [reflexivity|].
    split; [reflexivity|]. split; [reflexivity|]. split; [cbn [g_csum]; destruct (g_csump g || g_routp g); reflexivity|].
    intros junk'. rewrite gre_serialize_closed. unfold gre_wire. rewrite gre_segs_hdr. cbn [g_csump].
    assert (HH : forall c cont pl, hdr_of (mkGre (g_csump g) (g_routp g) (g_keyp g) (g_seqp g) (g_ssr g) (g_ackp g) (g_recur g) (g_flags g) (g_version g)
                         (g_proto g) c (g_offset g) (g_key g) (g_seq g) (g_ack g) (g_routing g) cont pl) [0; 0] = hdr_of g [0; 0]) by reflexivity.
    rewrite HH, EC. reflexivity.
Qed.
