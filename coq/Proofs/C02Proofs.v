From GP Require Import Base ListX C02Model C04Model C04Proofs.
Open Scope nat_scope.

Section Decode.
  Variable G Pkt : Type.
  Variable decode : G -> list Z -> Z -> Z -> Pkt.

  Lemma hist_globals g h : snd (run_hist G Pkt decode g h) = g.
  Proof.
    induction h as [|[[d f] o] r IH]; cbn; [reflexivity|].
    destruct (run_hist G Pkt decode g r) as [ps g2] eqn:E. cbn in *. exact IH.
  Qed.

  Lemma hist_results g h : fst (run_hist G Pkt decode g h) = map (fun x => let '(d, f, o) := x in decode g d f o) h.
  Proof.
    induction h as [|[[d f] o] r IH]; cbn; [reflexivity|].
    destruct (run_hist G Pkt decode g r) as [ps g2] eqn:E. cbn in *. rewrite IH. reflexivity.
  Qed.

  (* decoding x after any history h1 equals decoding x after any other history h2 *)
  Lemma history_independent g h1 h2 x :
    last (fst (run_hist G Pkt decode g (h1 ++ [x]))) (fst (new_packet G Pkt decode g x)) =
    last (fst (run_hist G Pkt decode g (h2 ++ [x]))) (fst (new_packet G Pkt decode g x)).
  Proof. rewrite !hist_results, !map_app. cbn [map]. rewrite !last_last. reflexivity. Qed.
End Decode.

Lemma fixed_step_id s o : rstep writes_fixed s o = (s, answer s o).
Proof. reflexivity. Qed.

Lemma fixed_sched s sched :
  run_sched writes_fixed s sched = map (fun x => (fst x, snd x, answer s (snd x))) sched.
Proof. induction sched as [|[t o] r IH]; cbn; [reflexivity|]. rewrite IH. reflexivity. Qed.

(* value preservation of the original write-set: it rewrites each payload cell with its own value *)
Lemma upd_same_mid (pre : list Z) x t : upd (pre ++ x :: t) (length pre) x = pre ++ x :: t.
Proof. induction pre as [|p ps IHp]; cbn; [reflexivity|]. rewrite IHp. reflexivity. Qed.

Lemma payload_writes_id : forall l pre b h,
  b = pre ++ l -> h = length pre ->
  fold_left apply_write (payload_writes h l) {| buf := b; hl := 0; src := []; dst := [] |} =
  {| buf := b; hl := 0; src := []; dst := [] |}.
Proof.
  induction l as [|x t IH]; intros pre b h Hb Hh; cbn [payload_writes fold_left]; [reflexivity|].
  assert (Hs : apply_write {| buf := b; hl := 0; src := []; dst := [] |} (LBuf h, x) =
               {| buf := b; hl := 0; src := []; dst := [] |}).
  { unfold apply_write; cbn [fst snd buf hl src dst]. subst. rewrite upd_same_mid. reflexivity. }
  rewrite Hs.
  apply (IH (pre ++ [x])); [subst; rewrite <- app_assoc; reflexivity|subst; rewrite app_length; cbn; lia].
Qed.

Lemma run_unchanged_callers s o c :
  In c (callers s) -> (forall buf i v, o <> OMut buf i v) -> Inv s -> arr_of (step s o) c = arr_of s c.
Proof.
  intros Hc Hnm I. destruct I as [Hcal Hpool Hnd Hpooled Hpk Hdis].
  destruct o as [d|buf n nocopy usepool choice|p|buf i v|k]; cbn [step].
  - unfold arr_of; cbn. rewrite nth_error_app1; [reflexivity|apply Hcal; exact Hc].
  - destruct (negb (existsb (Nat.eqb buf) (callers s)) || (length (arr_of s buf) <? n)); [reflexivity|].
    destruct nocopy; [reflexivity|]. destruct (usepool && (n <=? maximumMTU)).
    + destruct choice as [k|].
      * destruct (nth_error (pool s) k) as [a|] eqn:Ek; [|reflexivity].
        unfold arr_of, copy_into; cbn. rewrite nth_error_upd.
        destruct (Nat.eqb_spec c a) as [E|E]; [|reflexivity].
        subst c. exfalso. apply nth_error_In in Ek. destruct (Hpool a Ek) as [_ H]. contradiction.
      * unfold arr_of; cbn. rewrite nth_error_app1; [reflexivity|apply Hcal; exact Hc].
    + unfold arr_of; cbn. rewrite nth_error_app1; [reflexivity|apply Hcal; exact Hc].
  - destruct (nth_error (pkts s) p) as [q|]; [|reflexivity].
    destruct (p_pooled q && negb (p_disposed q)); reflexivity.
  - exfalso. eapply Hnm. reflexivity.
  - reflexivity.
Qed.
