(* From the call-by-call hypotheses of the full round-trip statement to ops_ok, and from exp_pkts
   to the flat_map form of the expected packets. *)
From GP Require Import Base NgModel NgIoProofs NgExec NgRoundtrip NgFile NgPrefix NgPrefixFile.
From Coq Require Import Lia ZifyBool ZifyNat.
Open Scope Z_scope.

Definition expected_pkt (links : list Z) (op : wop) : list pkt :=
  match op with
  | WPacket ifid ts caplen len data o =>
    [mkPkt (mkCi ifid (ts / E9, ts mod E9) caplen len) (nth (Z.to_nat ifid) links 0) data o]
  | _ => []
  end.
Definition links_from (ops : list wop) : list Z := flat_map (fun op => match op with WAddIf i => [wi_link i] | _ => [] end) ops.
Definition snaps_from (ops : list wop) : list Z := flat_map (fun op => match op with WAddIf i => [wi_snap i] | _ => [] end) ops.
Definition links_of (i0 : wiface) (ops : list wop) : list Z := wi_link i0 :: links_from ops.
Definition snaps_of (i0 : wiface) (ops : list wop) : list Z := wi_snap i0 :: snaps_from ops.

(* what each call must satisfy (besides being accepted by the writer) *)
Definition op_pre (snaps : list Z) (op : wop) : Prop :=
  match op with
  | WAddIf i => wif_ok i
  | WPacket ifid ts caplen len data o =>
    0 <= ts < 9223372036854775808 /\ caplen = zlen data /\ caplen <= len < 4294967296 /\ wf_popts o
    /\ opts_bytes (popts_to_options o) + zlen data + 64 < 4294967296
    /\ (nth (Z.to_nat ifid) snaps 0 = 0 \/ caplen <= nth (Z.to_nat ifid) snaps 0)
  | WStats _ _ => True
  | WDSB ty pl => 0 <= ty < 4294967296 /\ zlen pl < 4294967000
  end.

Lemma nth_map_app (f : wiface -> Z) ws r n w : nth_error ws n = Some w -> nth n (map f ws ++ r) 0 = f w.
Proof.
  intros H. apply nth_error_nth. rewrite nth_error_app1 by (rewrite map_length; apply nth_error_Some; congruence).
  rewrite nth_error_map, H. reflexivity.
Qed.

Lemma bridge : forall ops ws, zlen ws + zlen ops < 4294967296 ->
  Forall (op_pre (map wi_snap ws ++ snaps_from ops)) ops ->
  Forall (fun r => snd r = true) (wrun (zlen ws) ops) ->
  ops_ok ws ops /\ exp_pkts ws ops = flat_map (expected_pkt (map wi_link ws ++ links_from ops)) ops.
Proof.
  induction ops as [|op t IH]; intros ws Hb Hp Ha; [split; [exact I|reflexivity]|].
  replace (zlen (op :: t)) with (zlen t + 1) in Hb by (unfold zlen; cbn [length]; lia).
  pose proof (zlen_nonneg ws). pose proof (zlen_nonneg t).
  inversion Hp as [|? ? Hp1 Hpt]; subst.
  destruct op as [w|ifid ts caplen len data o|ifid st|ty pl]; cbn [wrun wstep snaps_from links_from flat_map app op_pre ops_ok exp_pkts expected_pkt] in *.
  - rewrite u32_small in Ha by lia. inversion Ha as [|? ? _ Hat]; subst.
    rewrite <- zlen_snoc with (x := w) in Hat.
    destruct (IH (ws ++ [w])) as (I1 & I2); [rewrite zlen_snoc; lia| |exact Hat|].
    + rewrite map_app, <- app_assoc. exact Hpt.
    + split; [split; [exact Hp1|exact I1]|]. rewrite I2, map_app, <- app_assoc. reflexivity.
  - destruct ((zlen ws <=? ifid) || (ifid <? 0)) eqn:E1; [inversion Ha as [|? ? X _]; discriminate X|].
    destruct (negb (caplen =? zlen data)) eqn:E2; [inversion Ha as [|? ? X _]; discriminate X|].
    destruct (len <? caplen) eqn:E3; [inversion Ha as [|? ? X _]; discriminate X|].
    inversion Ha as [|? ? _ Hat]; subst.
    destruct (IH ws) as (I1 & I2); [lia|exact Hpt|exact Hat|].
    assert (0 <= ifid < zlen ws) as Hid by lia.
    assert (exists w, nth_error ws (Z.to_nat ifid) = Some w) as (w & Ew).
    { destruct (nth_error ws (Z.to_nat ifid)) eqn:E; [eauto|]. apply nth_error_None in E. unfold zlen in Hid. lia. }
    destruct Hp1 as (P1 & P2 & P3 & P4 & P5 & P6).
    rewrite (nth_map_app wi_snap ws _ _ w Ew) in P6.
    split.
    + split; [|exact I1]. unfold wf_packet.
      split; [exact P1|]. split; [exact P2|]. split; [lia|]. split; [lia|]. split; [exact P4|]. split; [exact P5|]. split; [lia|].
      exists (iface_of w). split; [rewrite nth_error_map, Ew; reflexivity|]. split; [unfold iface_ns, iface_of; cbn; auto|].
      split; [exact P6|]. rewrite zlen_map. lia.
    + rewrite I2. cbn [app]. f_equal. f_equal. unfold link_at. rewrite Ew. symmetry. apply nth_map_app. exact Ew.
  - destruct ((zlen ws <=? ifid) || (ifid <? 0)) eqn:E1; [inversion Ha as [|? ? X _]; discriminate X|].
    inversion Ha as [|? ? _ Hat]; subst.
    destruct (IH ws) as (I1 & I2); [lia|exact Hpt|exact Hat|].
    split; [split; [lia|split; [lia|exact I1]]|exact I2].
  - destruct (dsb_type_ok ty) eqn:E1; [|inversion Ha as [|? ? X _]; discriminate X].
    inversion Ha as [|? ? _ Hat]; subst.
    destruct (IH ws) as (I1 & I2); [lia|exact Hpt|exact Hat|].
    destruct Hp1 as (P1 & P2). split; [split; [reflexivity|split; [exact P1|split; [exact P2|exact I1]]]|exact I2].
Qed.

(* ---------------------------------------------------------------- C14_ng_roundtrip, the full statement with the snap length hypothesis *)
Theorem roundtrip_full ro sec i0 ops :
  ro_mixed ro = true -> sec_ok sec -> wif_ok i0 -> zlen ops < 4294967290 ->
  Forall (op_pre (snaps_of i0 ops)) ops ->
  Forall (fun r => snd r = true) (write_blocks sec i0 ops) ->
  let r := write_cut_read ro sec i0 ops (length (write_file sec i0 ops)) in
  fst (fst (fst r)) = 0 /\ snd (fst r) = 1 /\ snd (fst (fst r)) = flat_map (expected_pkt (links_of i0 ops)) ops.
Proof.
  intros Hmix Hsec Hw Hb Hp Ha. unfold write_blocks in Ha. inversion Ha as [|? ? _ Hat]; subst.
  destruct (bridge ops [i0]) as (B1 & B2); [change (zlen [i0]) with 1; lia|exact Hp|exact Hat|].
  assert (ops_ok [] (WAddIf i0 :: ops)) as Hok by (cbn [ops_ok app]; split; assumption).
  destruct (roundtrip_file ro sec i0 ops Hmix Hsec Hok Hb) as (R1 & R2 & R3).
  cbv zeta. split; [exact R1|]. split; [exact R2|]. rewrite R3. cbn [exp_pkts app]. exact B2.
Qed.

(* ---------------------------------------------------------------- C14_ng_prefix from the same hypotheses *)
Theorem prefix_full ro sec i0 ops pre nxt post k :
  ro_mixed ro = true -> sec_ok sec -> wif_ok i0 -> zlen ops < 4294967290 ->
  Forall (op_pre (snaps_of i0 ops)) ops ->
  Forall (fun r => snd r = true) (write_blocks sec i0 ops) ->
  WAddIf i0 :: ops = pre ++ nxt :: post -> (k < length (enc_op nxt))%nat ->
  let file := write_file sec i0 ops in
  forall F, (fuel_for (zlen file) <= F)%nat ->
  let cut := (length (enc_shb sec) + length (enc_ops pre) + k)%nat in
  let r := fst (run_d (session ro F) (firstn cut file)) in
  fst (fst (fst r)) = 0 /\ snd (fst (fst r)) = exp_pkts [] pre /\ snd (fst r) = (if (k =? 0)%nat then 1 else 2).
Proof.
  intros Hmix Hsec Hw Hb Hp Ha Hsplit Hk. unfold write_blocks in Ha. inversion Ha as [|? ? _ Hat]; subst.
  destruct (bridge ops [i0]) as (B1 & B2); [change (zlen [i0]) with 1; lia|exact Hp|exact Hat|].
  assert (ops_ok [] (WAddIf i0 :: ops)) as Hok by (cbn [ops_ok app]; split; assumption).
  exact (prefix_file ro sec i0 ops pre nxt post k Hmix Hsec Hok Hb Hsplit Hk).
Qed.
