(* C11, reassembly: what an age-based flush (FlushWithOptions{T,TC} / FlushCloseOlderThan)
   guarantees, for the repaired model. *)
From GP Require Import Base C11Common C11RModel C11LogProofs C11RProofs.
From Coq Require Import Lia ZifyBool.
Open Scope Z_scope.

(* ------------------------------------------------------------------ events of a flush (unconditional) *)
(* the AssemblerContext time stamp handed to the stream with every batch *)
Definition Qa (a : Z) (e : event) : Prop :=
  match e with EData _ _ _ _ _ _ s _ => s = a | ENew _ => False | EDone _ _ => True end.
(* a batch released by a flush older than t: its first page was seen before t (the stream sees
   that time stamp unless the page is not the first page of its packet: then ac = nil, -1) *)
Definition ev_older_r (t : Z) (e : event) : Prop :=
  match e with EData _ _ _ _ _ _ s _ => s < t \/ s = -1 | ENew _ => False | EDone _ _ => True end.

Definition Qd (e : event) : Prop := match e with EDone _ _ => True | _ => False end.
Lemma Qd_Qa : forall a e, Qd e -> Qa a e.
Proof. intros a []; cbn; auto; contradiction. Qed.
Lemma Qd_older : forall t e, Qd e -> ev_older_r t e.
Proof. intros t []; cbn; auto; contradiction. Qed.

Definition appends (Q : event -> Prop) (x x' : rctx) : Prop :=
  exists evs, x_ev x' = x_ev x ++ evs /\ Forall Q evs.

Lemma appends_refl : forall Q x, appends Q x x.
Proof. intros. exists []. rewrite app_nil_r. split; [reflexivity|constructor]. Qed.
Lemma appends_trans : forall Q x x1 x2, appends Q x x1 -> appends Q x1 x2 -> appends Q x x2.
Proof.
  intros Q x x1 x2 [e1 [E1 F1]] [e2 [E2 F2]]. exists (e1 ++ e2). split; [rewrite E2, E1, app_assoc; reflexivity|].
  apply Forall_app. split; assumption.
Qed.
Lemma appends_weaken : forall (Q Q' : event -> Prop) x x', (forall e, Q e -> Q' e) -> appends Q x x' -> appends Q' x x'.
Proof. intros Q Q' x x' H [e [E F]]. exists e. split; [exact E|]. eapply Forall_impl; eauto. Qed.

Section Age.
Variable v : variant.
Variable cfg : rcfg.

Lemma send_appends : forall sid n h x r0 acts h' x' ns e, send v cfg sid n h x r0 acts = (h', x', ns, e) ->
  appends (Qa acts) x x' /\ h_seen h' = h_seen h.
Proof.
  intros sid n h x r0 acts h' x' ns e H. unfold send in H.
  destruct (add_pending (h_saved h) (cseq r0)) as [[[pre sl] saved1] reld].
  destruct (add_contiguous (h_queue h) (sadd (cseq r0) (clen r0))) as [[tk q1] nextSeq].
  match type of H with context [if ?b then _ else find_keep _ _ _ _ _] => destruct b end.
  - destruct (keep_conv _ 0) as [[saved2 alloc] pk]. inversion H; subst. cbn [h_seen x_ev].
    split; [|reflexivity]. eexists. split; [reflexivity|]. constructor; [reflexivity|constructor].
  - destruct (find_keep _ _ 0 _ 0) as [ndx kskip]. destruct (keep_conv _ kskip) as [[saved2 alloc] pk]. inversion H; subst. cbn [h_seen x_ev].
    split; [|reflexivity]. eexists. split; [reflexivity|]. constructor; [reflexivity|constructor].
Qed.

Definition seen_same (c c' : rconn) : Prop :=
  h_seen (rc_c2s c') = h_seen (rc_c2s c) /\ h_seen (rc_s2c c') = h_seen (rc_s2c c).

Lemma seen_same_refl : forall c, seen_same c c.
Proof. split; reflexivity. Qed.
Lemma seen_same_trans : forall c c1 c2, seen_same c c1 -> seen_same c1 c2 -> seen_same c c2.
Proof. unfold seen_same. intros c c1 c2 [A B] [C D]. split; congruence. Qed.
Lemma seen_same_put : forall c w h, h_seen h = h_seen (get_half c w) -> seen_same c (put_half c w h).
Proof. intros c [] h H; unfold seen_same; cbn in *; split; congruence. Qed.
Lemma seen_same_last : forall c c', seen_same c c' -> conn_last_seen c' = conn_last_seen c.
Proof. unfold seen_same, conn_last_seen. intros c c' [A B]. rewrite A, B. reflexivity. Qed.

Lemma close_half_appends : forall c w x c' rm x', close_half v cfg c w x = (c', rm, x') ->
  appends Qd x x' /\ seen_same c c'.
Proof.
  intros c w x c' rm x' H. unfold close_half in H.
  match type of H with context [put_half c w ?hh] => set (h' := hh) in * end.
  assert (S : seen_same c (put_half c w h')) by (apply seen_same_put; reflexivity).
  destruct (both_closed (put_half c w h')); inversion H; subst; (split; [|exact S]); cbn [x_ev].
  - eexists. split; [reflexivity|]. constructor; [exact I|constructor].
  - exists []. rewrite app_nil_r. split; [reflexivity|constructor].
Qed.

Lemma send_conn_appends : forall c w h x r0 acts c' rm x' ns, h_seen h = h_seen (get_half c w) ->
  send_conn v cfg c w h x r0 acts = (c', rm, x', ns) -> appends (Qa acts) x x' /\ seen_same c c'.
Proof.
  intros c w h x r0 acts c' rm x' ns Hs H. unfold send_conn in H.
  destruct (send v cfg (rc_sid c) (rc_ncalls c) h x r0 acts) as [[[h1 x1] nextSeq] isEnd] eqn:Es.
  destruct (send_appends _ _ _ _ _ _ _ _ _ _ Es) as [A1 S1].
  assert (SS : seen_same c (bump_calls (put_half c w h1))).
  { pose proof (seen_same_put c w h1 ltac:(congruence)) as P. destruct P as [P1 P2]. split; [exact P1|exact P2]. }
  destruct (x_panic x1); [inversion H; subst; split; assumption|].
  destruct isEnd; [|inversion H; subst; split; assumption].
  destruct (close_half v cfg (bump_calls (put_half c w h1)) w x1) as [[c2 rm2] x2] eqn:Ec.
  inversion H; subst. destruct (close_half_appends _ _ _ _ _ _ Ec) as [A2 S2].
  split; [eapply appends_trans; [exact A1|eapply appends_weaken; [apply Qd_Qa|exact A2]]|eapply seen_same_trans; eauto].
Qed.

Lemma skip_flush_appends : forall t c w x c' rm x',
  (forall p q, h_queue (get_half c w) = p :: q -> rp_seen p < t) ->
  skip_flush v cfg c w x = (c', rm, x') -> appends (ev_older_r t) x x' /\ seen_same c c'.
Proof.
  intros t c w x c' rm x' Hold H. unfold skip_flush in H.
  destruct (h_queue (get_half c w)) as [|p q'] eqn:Eq.
  - destruct (close_half_appends _ _ _ _ _ _ H) as [A S]. split; [|exact S].
    eapply appends_weaken; [apply Qd_older|exact A].
  - match type of H with context [send_conn v cfg c w ?hh x ?r ?a] => destruct (send_conn v cfg c w hh x r a) as [[[c1 rm1] x1] nextSeq] eqn:Es end.
    inversion H; subst; clear H.
    assert (AS : appends (Qa (if rp_first p then rp_seen p else -1)) x x' /\ seen_same c c1)
      by (eapply send_conn_appends; [|exact Es]; reflexivity).
    destruct AS as [A S].
    specialize (Hold p q' eq_refl).
    split.
    + eapply appends_weaken; [|exact A]. intros e He. destruct e; cbn in *; auto.
      subst seen. destruct (rp_first p); [left; exact Hold|right; reflexivity].
    + destruct (nextSeq =? INVALID); [exact S|].
      eapply seen_same_trans; [exact S|]. apply seen_same_put. reflexivity.
Qed.

Lemma fc_loop_appends : forall t w fuel c rm x c' rm' x', fc_loop fuel v cfg c w rm x t = (c', rm', x') ->
  appends (ev_older_r t) x x' /\ seen_same c c'.
Proof.
  intros t w. induction fuel as [|f IH]; intros c rm x c' rm' x' H; cbn [fc_loop] in H.
  - inversion H; subst. split; [apply appends_refl|apply seen_same_refl].
  - destruct (h_closed (get_half c w) || x_panic x); [inversion H; subst; split; [apply appends_refl|apply seen_same_refl]|].
    destruct (h_queue (get_half c w)) as [|p q] eqn:Eq; [inversion H; subst; split; [apply appends_refl|apply seen_same_refl]|].
    destruct (rp_seen p <? t) eqn:Et; [|inversion H; subst; split; [apply appends_refl|apply seen_same_refl]].
    destruct (skip_flush v cfg c w x) as [[c1 rm1] x1] eqn:Es.
    assert (Hold : forall p0 q0, h_queue (get_half c w) = p0 :: q0 -> rp_seen p0 < t).
    { intros p0 q0 E. rewrite Eq in E. inversion E; subst. lia. }
    destruct (skip_flush_appends t _ _ _ _ _ _ Hold Es) as [A1 S1].
    destruct (IH _ _ _ _ _ _ H) as [A2 S2].
    split; [eapply appends_trans; eauto|eapply seen_same_trans; eauto].
Qed.

Lemma flush_close_appends : forall w t tc c x c' rm' x' fl cl, flush_close v cfg c w x t tc = (c', rm', x', fl, cl) ->
  appends (ev_older_r t) x x' /\ seen_same c c'.
Proof.
  intros w t tc c x c' rm' x' fl cl H. unfold flush_close in H.
  destruct (h_closed (get_half c w)); [inversion H; subst; split; [apply appends_refl|apply seen_same_refl]|].
  destruct (fc_loop _ v cfg c w false x t) as [[c1 rm1] x1] eqn:El.
  destruct (fc_loop_appends _ _ _ _ _ _ _ _ _ El) as [A1 S1].
  destruct (x_panic x1); [inversion H; subst; split; assumption|].
  destruct (h_closed (get_half c1 w)); [inversion H; subst; split; assumption|].
  destruct (h_queue (get_half c1 w)); [|inversion H; subst; split; assumption].
  destruct (conn_last_seen c1 <? tc); [|inversion H; subst; split; assumption].
  destruct (close_half v cfg c1 w x1) as [[c2 rm2] x2] eqn:Ecl. inversion H; subst.
  destruct (close_half_appends _ _ _ _ _ _ Ecl) as [A2 S2].
  split; [eapply appends_trans; [exact A1|]|eapply seen_same_trans; eauto].
  eapply appends_weaken; [apply Qd_older|exact A2].
Qed.

Lemma flush_conn_appends : forall t tc c x c' rm x' a b, flush_conn v cfg t tc c x = (c', rm, x', a, b) ->
  appends (ev_older_r t) x x' /\ seen_same c c'.
Proof.
  intros t tc c x c' rm x' a b H. unfold flush_conn in H.
  destruct (flush_close v cfg c false x t tc) as [[[[c1 rm1] x1] f1] k1] eqn:E1.
  destruct (flush_close_appends _ _ _ _ _ _ _ _ _ _ E1) as [A1 S1].
  destruct (x_panic x1); [inversion H; subst; split; assumption|].
  destruct (flush_close v cfg c1 true x1 t tc) as [[[[c2 rm2] x2] f2] k2] eqn:E2.
  destruct (flush_close_appends _ _ _ _ _ _ _ _ _ _ E2) as [A2 S2].
  inversion H; subst. split; [eapply appends_trans; eauto|eapply seen_same_trans; eauto].
Qed.

Lemma rflush_conns_appends : forall f Q,
  (forall c x c' rm x' a b, f c x = (c', rm, x', a, b) -> appends Q x x') ->
  forall l x, appends Q x (ra_x (rflush_conns f l x)).
Proof.
  intros f Q Hf. induction l as [|c l IH]; intros x; cbn [rflush_conns]; [apply appends_refl|].
  destruct (x_panic x); [apply appends_refl|].
  destruct (f c x) as [[[[c1 rm] x1] a] b] eqn:Ef. cbn [ra_x].
  eapply appends_trans; [eapply Hf; exact Ef|apply IH].
Qed.

(* a half-connection the cut-offs do not concern is not touched *)
Lemma flush_close_untouched : forall w t tc c x, h_closed (get_half c w) = false ->
  qhead_older (get_half c w) t = false -> (h_queue (get_half c w) = [] -> tc <= conn_last_seen c) ->
  x_panic x = false ->
  flush_close v cfg c w x t tc = (c, false, x, false, false).
Proof.
  intros w t tc c x Hc Hq Hi Hp. unfold flush_close. rewrite Hc, Hq.
  assert (E : fc_loop (S (length (h_queue (get_half c w)))) v cfg c w false x t = (c, false, x)).
  { cbn [fc_loop]. rewrite Hc, Hp. cbn [orb]. unfold qhead_older in Hq. destruct (h_queue (get_half c w)); [reflexivity|]. rewrite Hq. reflexivity. }
  rewrite E, Hp, Hc. destruct (h_queue (get_half c w)) eqn:Eq; [|reflexivity].
  specialize (Hi eq_refl). destruct (conn_last_seen c <? tc) eqn:El; [lia|reflexivity].
Qed.

(* ------------------------------------------------------------------ what is left waiting (repaired model) *)
Hypothesis Hsaved : v_saved v = true.
Hypothesis Hhp : v_hpages v = true.

(* a half-connection an age flush leaves open does not wait in front of data older than t and,
   when nothing is queued, its connection has been heard from since tc *)
Definition half_aged (t tc : Z) (c : rconn) (w : bool) : Prop :=
  h_closed (get_half c w) = true \/
  (qhead_older (get_half c w) t = false /\ (h_queue (get_half c w) = [] -> tc <= conn_last_seen c)).
Definition aged_r (t tc : Z) (c : rconn) : Prop := half_aged t tc c true /\ half_aged t tc c false.

Lemma fc_loop_age : forall t w fuel c rm x c' rm' x', G cfg c rm -> x_panic x = false ->
  fc_loop fuel v cfg c w rm x t = (c', rm', x') -> x_panic x' = false ->
  (length (h_queue (get_half c w)) < fuel)%nat ->
  h_closed (get_half c' w) = true \/ qhead_older (get_half c' w) t = false.
Proof.
  intros t w. induction fuel as [|f IH]; intros c rm x c' rm' x' HG Hp H Hx Hl; [lia|]. cbn [fc_loop] in H.
  destruct (h_closed (get_half c w)) eqn:Ec; cbn [orb] in H; [inversion H; subst; left; exact Ec|].
  rewrite Hp in H. destruct (h_queue (get_half c w)) as [|p q] eqn:Eq.
  - inversion H; subst. right. unfold qhead_older. rewrite Eq. reflexivity.
  - destruct (rp_seen p <? t) eqn:Et; [|inversion H; subst; right; unfold qhead_older; rewrite Eq; exact Et].
    destruct (G_open_half cfg c rm w HG Ec) as [Hrm Hcok]. subst rm.
    destruct (skip_flush v cfg c w x) as [[c1 rm1] x1] eqn:Es. cbn [orb] in H.
    destruct (skip_flush_good v cfg Hsaved Hhp c w x _ _ _ Hcok Hp Ec Es) as [Gd [_ Gp]].
    destruct (x_panic x1) eqn:Ep1.
    + assert (E : fc_loop f v cfg c1 w rm1 x1 t = (c1, rm1, x1)).
      { destruct f; cbn [fc_loop]; [reflexivity|]. rewrite Ep1, orb_true_r. reflexivity. }
      rewrite E in H. inversion H; subst. congruence.
    + destruct (good_G cfg _ _ _ _ Gd Ep1) as [G1 _].
      destruct (Gp eq_refl) as [Hc1|Hlt].
      * assert (E : fc_loop f v cfg c1 w rm1 x1 t = (c1, rm1, x1)).
        { destruct f; cbn [fc_loop]; [reflexivity|]. rewrite Hc1. reflexivity. }
        rewrite E in H. inversion H; subst. left. exact Hc1.
      * eapply (IH c1 rm1 x1); eauto. rewrite Eq in Hlt. unfold zlen in Hlt. cbn [length] in *. lia.
Qed.

Lemma flush_close_age : forall w t tc c rm0 x c' rm' x' fl cl, G cfg c rm0 -> x_panic x = false ->
  flush_close v cfg c w x t tc = (c', rm', x', fl, cl) -> x_panic x' = false ->
  half_aged t tc c' w /\ get_half c' (negb w) = get_half c (negb w).
Proof.
  intros w t tc c rm0 x c' rm' x' fl cl HG Hp H Hx. unfold flush_close in H.
  destruct (h_closed (get_half c w)) eqn:Ec; [inversion H; subst; split; [left; exact Ec|reflexivity]|].
  destruct (G_open_half cfg c rm0 w HG Ec) as [Hrm Hcok]. subst rm0.
  destruct (fc_loop (S (length (h_queue (get_half c w)))) v cfg c w false x t) as [[c1 rm1] x1] eqn:El.
  destruct (fc_loop_good v cfg Hsaved Hhp t w _ c false x _ _ _ HG Hp El) as [Gd [_ Go]].
  destruct (x_panic x1) eqn:Ep1; [inversion H; subst; congruence|].
  pose proof (fc_loop_age t w _ c false x _ _ _ HG Hp El Ep1 (Nat.lt_succ_diag_r _)) as A.
  destruct (good_G cfg _ _ _ _ Gd Ep1) as [G1 _].
  destruct (h_closed (get_half c1 w)) eqn:Ec1; [inversion H; subst; split; [left; exact Ec1|exact Go]|].
  destruct A as [A|A]; [congruence|].
  destruct (h_queue (get_half c1 w)) eqn:Eq1.
  - destruct (conn_last_seen c1 <? tc) eqn:Els.
    + destruct (G_open_half cfg c1 rm1 w G1 Ec1) as [Hrm1 [Hok1 Hd1]]. subst rm1.
      destruct (close_half v cfg c1 w x1) as [[c2 rm2] x2] eqn:Ecl. inversion H; subst.
      destruct (close_half_good v cfg Hsaved Hhp c1 w x1 _ _ _ Hok1 Ep1 Ec1 Hd1 Ecl) as [_ [[Gc _] [_ Go2]]].
      split; [left; exact Gc|congruence].
    + inversion H; subst. split; [|exact Go]. right. split; [exact A|]. intros _. lia.
  - inversion H; subst. split; [|exact Go]. right. split; [exact A|]. rewrite Eq1. discriminate.
Qed.

Lemma half_aged_transfer : forall t tc c c' w, get_half c' w = get_half c w -> seen_same c c' ->
  half_aged t tc c w -> half_aged t tc c' w.
Proof.
  intros t tc c c' w E S H. unfold half_aged in *. rewrite E. rewrite (seen_same_last _ _ S). exact H.
Qed.

Lemma flush_conn_age : forall t tc c x c' rm x' a b, cok cfg c -> x_panic x = false ->
  flush_conn v cfg t tc c x = (c', rm, x', a, b) -> x_panic x' = false -> aged_r t tc c'.
Proof.
  intros t tc c x c' rm x' a b [Hok Hd] Hp H Hx. unfold flush_conn in H.
  assert (G0 : G cfg c false) by (split; [exact Hok|split; [discriminate|intros _; exact Hd]]).
  destruct (flush_close v cfg c false x t tc) as [[[[c1 rm1] x1] f1] k1] eqn:E1.
  destruct (flush_close_good v cfg Hsaved Hhp false t tc c false x _ _ _ _ _ G0 Hp E1) as [Gd1 _]. cbn [orb] in Gd1.
  destruct (x_panic x1) eqn:Ep1; [inversion H; subst; congruence|].
  destruct (flush_close_age false t tc c false x _ _ _ _ _ G0 Hp E1 Ep1) as [A1 _].
  destruct (good_G cfg _ _ _ _ Gd1 Ep1) as [G1 _].
  destruct (flush_close v cfg c1 true x1 t tc) as [[[[c2 rm2] x2] f2] k2] eqn:E2.
  inversion H; subst; clear H.
  destruct (flush_close_age true t tc c1 rm1 x1 _ _ _ _ _ G1 Ep1 E2 Hx) as [A2 O2]. cbn [negb] in O2.
  destruct (flush_close_appends _ _ _ _ _ _ _ _ _ _ E2) as [_ S2].
  split; [exact A2|]. eapply half_aged_transfer; [exact O2|exact S2|exact A1].
Qed.

(* C11_age for the repaired reassembly *)
Lemma r_age_step : forall st t tc, rinv cfg st -> rs_dead st = false ->
  Forall (ev_older_r t) (ro_ev (snd (rstep v st (RFlush t tc)))) /\
  (ro_panic (snd (rstep v st (RFlush t tc))) = false ->
   Forall (aged_r t tc) (rs_conns (fst (rstep v st (RFlush t tc))))).
Proof.
  intros st t tc Hi Hd. unfold rstep. rewrite Hd. destruct Hi as [Hc Hi']. rewrite Hc. split.
  - unfold rflush_with.
    pose proof (rflush_conns_appends (flush_conn v cfg t tc) (ev_older_r t)
                  (fun c x c' rm x' a b Hf => proj1 (flush_conn_appends t tc c x c' rm x' a b Hf))
                  (rs_conns st) (mkCtx (rs_used st) [] false)) as [evs [E F]].
    cbn [x_ev app] in E.
    destruct (x_panic (ra_x (rflush_conns (flush_conn v cfg t tc) (rs_conns st) (mkCtx (rs_used st) [] false))));
      cbn [snd ro_ev]; rewrite E; exact F.
  - assert (Hf : forall c x c' rm x' a b, cok cfg c -> x_panic x = false -> flush_conn v cfg t tc c x = (c', rm, x', a, b) ->
                 good cfg (x_used x - cp c) c' rm x' /\ (x_panic x' = false -> rm = false -> aged_r t tc c')).
    { intros c x c' rm x' a b Hcok Hp Hf. split.
      - exact (proj1 (flush_conn_good v cfg Hsaved Hhp t tc c x c' rm x' a b Hcok Hp Hf)).
      - intros Hx _. exact (flush_conn_age t tc c x c' rm x' a b Hcok Hp Hf Hx). }
    exact (proj2 (rflush_with_inv v cfg Hsaved Hhp (flush_conn v cfg t tc) (aged_r t tc) st None Hf (conj Hc Hi'))).
Qed.

End Age.
