(* C09: nothing is lost in the queue.  covl l x: byte offset x of the stream is held by a page of l.
   checkOverlap keeps every byte it held, except those of the new segment's own range when the
   segment is delivered at once (in-order mode); in queue mode the bytes of the new segment are held
   afterwards (in fresh pages, or in the page that already contained them - case 6).
   addContiguous leaves in the queue every held byte beyond the end of the run it takes, and takes
   everything up to the first byte that is not held.  A flush skips no held byte. *)
From GP Require Import Base C09Model C09Spec C09Seq C09Proofs C09Stream C09Flush C09Keep C09Send.
From Coq Require Import Lia ZifyBool ZifyNat.
Ltac Zify.zify_post_hook ::= Z.div_mod_to_equations.
Open Scope Z_scope.

Definition covl (S : list Z) (i : Z) (l : list page) (x : Z) : Prop :=
  exists p o, In p l /\ pg S i o p /\ o <= x < o + plen p.

Lemma covl_app : forall S i a b x, covl S i (a ++ b) x <-> covl S i a x \/ covl S i b x.
Proof.
  intros. unfold covl. split.
  - intros (p & o & Hin & H). apply in_app_or in Hin. destruct Hin; [left|right]; eauto.
  - intros [(p & o & Hin & H)|(p & o & Hin & H)]; exists p, o; (split; [apply in_or_app; auto|exact H]).
Qed.

Lemma covl_rev : forall S i l x, covl S i (rev l) x <-> covl S i l x.
Proof.
  intros. unfold covl. split; intros (p & o & Hin & H); exists p, o; (split; [|exact H]).
  - apply in_rev. exact Hin.
  - apply in_rev in Hin. exact Hin.
Qed.

Lemma covl_cons : forall S i p l x, covl S i (p :: l) x <-> covl S i [p] x \/ covl S i l x.
Proof. intros. apply (covl_app S i [p] l x). Qed.

Lemma covl_nil : forall S i x, ~ covl S i [] x.
Proof. intros S i x (p & o & Hin & _). exact Hin. Qed.

Lemma pg_off_unique : forall S i o o' p, zlen S < HIS -> pg S i o p -> pg S i o' p -> o = o'.
Proof.
  intros S i o o' p HS (H1 & H2 & H3 & H4 & _) (G1 & G2 & G3 & G4 & _).
  apply (sq_inj_window i o o'); [unfold HIS, HALFW in *; lia|congruence].
Qed.

Lemma covl_one : forall S i p o x, zlen S < HIS -> pg S i o p -> (covl S i [p] x <-> o <= x < o + plen p).
Proof.
  intros S i p o x HS Hp. split.
  - intros (p' & o' & [Hin|[]] & Hp' & Hx). subst p'. rewrite (pg_off_unique S i o o' p HS Hp Hp'). exact Hx.
  - intros Hx. exists p, o. split; [left; reflexivity|auto].
Qed.

(* right only grows *)
Lemma co_right_incl : forall v s e left right bytes rel tags p,
  In p right -> In p (co_right (co_loop v s e left right bytes rel tags)).
Proof.
  intros v s e. induction left as [|cur rest IH]; intros right bytes rel tags p Hin; cbn [co_loop].
  - exact Hin.
  - repeat match goal with
           | |- context [if ?b then _ else _] => destruct b
           end; cbn [co_right]; try exact Hin; try (apply IH; try (right; exact Hin); exact Hin).
Qed.

(* ---------------------------------------------------------------- the cursor loop *)
Lemma co_loop_cover : forall S i w hi s e,
  zlen S < HIS -> 0 <= w -> 0 <= s -> s <= e -> e <= hi -> hi <= HI 0 -> e <= zlen S ->
  forall left right bytes rel tags m,
  w <= m -> rok S i w m left -> qok S i m hi right ->
  (bytes = [] \/ (bytes = sub S s (e - s) /\ e <= m)) ->
  let r := co_loop fixedv (sq i s) (sq i e) left right bytes rel tags in
  (forall x, covl S i left x \/ covl S i right x -> ~ (s <= x < e) ->
             covl S i (co_left r) x \/ covl S i (co_right r) x) /\
  (bytes <> [] -> co_bytes r = [] -> forall x, s <= x < e -> covl S i (co_right r) x).
Proof.
  intros S i w hi s e HS Hw0 Hs0 Hse He Hhi HeS.
  induction left as [|cur rest IH]; intros right bytes rel tags m Hwm Hl Hr Hb r.
  - subst r. cbn [co_loop co_left co_right co_bytes]. split; [intros x Hx _; exact Hx|].
    intros Hne Hnil. contradiction.
  - cbn [rok] in Hl. destruct Hl as (cs & Hcs & Hce & Hcur & Hrest).
    pose proof (qok_bounds _ _ _ _ _ Hr) as Hmhi.
    assert (Hs' : 0 <= s) by lia.
    assert (Hcs' : 0 <= cs) by lia.
    assert (Hce' : cs + plen cur <= 0 + (HALFW - 1)) by (unfold HI in *; lia).
    assert (He' : e <= 0 + (HALFW - 1)) by (unfold HI in *; lia).
    assert (Hbz : zlen bytes = e - s \/ bytes = []).
    { destruct Hb as [Hb|[Hb _]]; [right; assumption|left]. subst bytes. apply zlen_sub; lia. }
    assert (Hbs : bytes = sub S s (e - s) \/ bytes = []) by (destruct Hb as [Hb|[Hb _]]; auto).
    assert (Hex := co_cases_exhaustive S i s e cs cur Hcur).
    pose proof Hcur as Hcur'. destruct Hcur' as (Hc0 & Hcl & HcS & Hcq & Hcb).
    assert (Hone : forall x, covl S i [cur] x <-> cs <= x < cs + plen cur) by (intros; apply covl_one; assumption).
    destruct Hex as [C5|[C1|[C3|[C2|[C4|[C6|C0]]]]]].
    + subst r. rewrite (co_case5 S i 0 s e cs cur) by (try assumption; lia).
      destruct (IH (cur :: right) bytes rel (5 :: tags) cs) as (I1 & I2); try assumption; try lia.
      * cbn [qok]. exists cs. split; [lia|]. split; [lia|]. split; [assumption|]. eapply qok_weaken; eauto; lia.
      * destruct Hb as [Hb|[Hb Hm]]; [left; assumption|right; split; [assumption|lia]].
      * split; [|exact I2]. intros x Hx Hn. apply I1; [|exact Hn].
        rewrite covl_cons in Hx. rewrite (covl_cons S i cur right). tauto.
    + subst r. rewrite (co_case1 S i 0 s e cs cur) by (try assumption; lia).
      cbn [co_left co_right co_bytes]. split; [intros x Hx _; exact Hx|].
      intros Hne Hnil. contradiction.
    + subst r. rewrite (co_case3 S i 0 s e cs cur) by (try assumption; lia).
      destruct (IH right bytes (rel + 1) (3 :: tags) m) as (I1 & I2); try assumption; try lia.
      * eapply rok_weaken; eauto; lia.
      * split; [|exact I2]. intros x Hx Hn. apply I1; [|exact Hn].
        rewrite covl_cons in Hx. destruct Hx as [[Hx|Hx]|Hx]; [|left; exact Hx|right; exact Hx].
        apply Hone in Hx. lia.
    + subst r. rewrite (co_case2 S i 0 s e cs cur) by (try assumption; lia).
      cbn [co_left co_right co_bytes]. split.
      * intros x Hx Hn. rewrite covl_cons in Hx. destruct Hx as [[Hx|Hx]|Hx]; [|left|right; exact Hx].
        -- apply Hone in Hx. left. rewrite covl_cons. left.
           assert (Hp2 : pg S i cs (set_bytes cur (ztake (s - cs) (pbytes cur)))) by (apply case2_page; try assumption; lia).
           apply (covl_one S i _ cs x HS Hp2).
           unfold plen, set_bytes. cbn [pbytes]. rewrite zlen_ztake by (unfold plen in *; lia). lia.
        -- rewrite covl_cons. right. exact Hx.
      * intros Hne Hnil. contradiction.
    + subst r. rewrite (co_case4 S i 0 s e cs cur) by (try assumption; lia).
      assert (H4 := case4_page S i e cs cur).
      destruct H4 as (Hp4 & Hl4); try assumption; try lia.
      destruct (IH (mkPage (zskip (e - cs) (pbytes cur)) (sq i e) (pseen cur) (pend cur) :: right) bytes rel (4 :: tags) e)
        as (I1 & I2); try assumption; try lia.
      * eapply rok_weaken; eauto; lia.
      * cbn [qok]. exists e. rewrite Hl4. split; [lia|]. split; [lia|]. split; [assumption|]. eapply qok_weaken; eauto; lia.
      * destruct Hb as [Hb|[Hb Hm]]; [left; assumption|right; split; [assumption|lia]].
      * split; [|exact I2]. intros x Hx Hn. apply I1; [|exact Hn].
        rewrite covl_cons in Hx. destruct Hx as [[Hx|Hx]|Hx]; [|left; exact Hx|right; rewrite covl_cons; right; exact Hx].
        apply Hone in Hx. right. rewrite covl_cons. left. apply (covl_one S i _ e x HS Hp4). rewrite Hl4. lia.
    + subst r. rewrite (co_case6 S i 0 s e cs cur) by (try assumption; lia).
      rewrite (case6_same S i s e cs cur) by (try assumption; lia).
      rewrite set_bytes_same.
      destruct (IH (cur :: right) [] rel (6 :: tags) cs) as (I1 & _); try assumption; try lia.
      * cbn [qok]. exists cs. split; [lia|]. split; [lia|]. split; [assumption|]. eapply qok_weaken; eauto; lia.
      * left; reflexivity.
      * split.
        -- intros x Hx Hn. apply I1; [|exact Hn].
           rewrite covl_cons in Hx. rewrite (covl_cons S i cur right). tauto.
        -- intros _ _ x Hx. exists cur, cs. split; [apply co_right_incl; left; reflexivity|].
           split; [assumption|lia].
    + subst r. rewrite (co_case0 S i 0 s e cs cur) by (try assumption; lia).
      destruct (IH (cur :: right) bytes rel tags cs) as (I1 & I2); try assumption; try lia.
      * cbn [qok]. exists cs. split; [lia|]. split; [lia|]. split; [assumption|]. eapply qok_weaken; eauto; lia.
      * destruct Hb as [Hb|[Hb Hm]]; [left; assumption|right; split; [assumption|lia]].
      * split; [|exact I2]. intros x Hx Hn. apply I1; [|exact Hn].
        rewrite covl_cons in Hx. rewrite (covl_cons S i cur right). tauto.
Qed.

(* a run of pages holds every byte of its range *)
Lemma sok_cov : forall S i l a e x, sok S i a e l -> a <= x < e -> covl S i l x.
Proof.
  induction l as [|p t IH]; intros a e x H Hx; cbn [sok] in H; [lia|].
  destruct H as ((H1 & H2 & H3 & H4) & H).
  destruct (Z_lt_dec x (a + plen p)) as [Hlt|Hge].
  - exists p, a. split; [left; reflexivity|]. split; [|lia]. unfold pg. repeat split; try assumption; lia.
  - rewrite covl_cons. right. eapply IH; eauto. lia.
Qed.

(* checkOverlap *)
Lemma check_overlap_cover : forall S i w q s n ts fl doq,
  zlen S < HIS -> qok S i w HIS q -> 0 <= w -> 0 <= s -> 0 <= n -> s + n <= zlen S ->
  let r := check_overlap fullv q (sub S s n) (sq i s) ts fl doq in
  forall x, (covl S i q x /\ ~ (s <= x < s + n)) \/ (doq = true /\ s <= x < s + n) -> covl S i (c2_queue r) x.
Proof.
  intros S i w q s n ts fl doq HS Hq Hw Hs Hn HnS r x Hx. subst r. rewrite check_overlap_full. unfold check_overlap.
  rewrite zlen_sub by lia. rewrite sadd_sq.
  pose proof (qok_bounds _ _ _ _ _ Hq) as Hb.
  assert (Hgen := co_loop_gen S i 0 w HIS s (s + n) ltac:(lia) ltac:(lia) ltac:(lia) ltac:(unfold HIS in *; lia)
                    HIS_HI Hs HnS (rev q) [] (sub S s n) 0 [] HIS).
  assert (Hcov := co_loop_cover S i w HIS s (s + n) HS Hw Hs ltac:(lia) ltac:(unfold HIS in *; lia) HIS_HI HnS
                    (rev q) [] (sub S s n) 0 [] HIS).
  replace (s + n - s) with n in Hgen, Hcov by lia.
  destruct Hgen as (Hpk & _).
  { lia. } { apply unzip_ok; assumption. } { cbn [qok]; lia. } { right; split; [reflexivity|unfold HIS in *; lia]. }
  destruct Hcov as (C1 & C2).
  { lia. } { apply unzip_ok; assumption. } { cbn [qok]; lia. } { right; split; [reflexivity|unfold HIS in *; lia]. }
  rewrite Hpk.
  set (r := co_loop fixedv (sq i s) (sq i (s + n)) (rev q) [] (sub S s n) 0 []) in *.
  assert (Hkeep : forall y, covl S i q y -> ~ (s <= y < s + n) -> covl S i (rev (co_left r)) y \/ covl S i (co_right r) y).
  { intros y Hy Hny. destruct (C1 y) as [H|H]; [left; apply covl_rev; exact Hy|exact Hny| |right; exact H].
    left. apply covl_rev. exact H. }
  destruct ((0 <? zlen (co_bytes r)) && doq) eqn:E; cbn [c2_queue].
  - (* the new bytes are paged and inserted *)
    assert (Hbytes : co_bytes r = sub S s n).
    { assert (Hg2 := co_loop_gen S i 0 w HIS s (s + n) ltac:(lia) ltac:(lia) ltac:(lia) ltac:(unfold HIS in *; lia)
                        HIS_HI Hs HnS (rev q) [] (sub S s n) 0 [] HIS).
      replace (s + n - s) with n in Hg2 by lia.
      destruct Hg2 as (_ & m1 & m2 & _ & _ & _ & _ & Hby).
      { lia. } { apply unzip_ok; assumption. } { cbn [qok]; lia. } { right; split; [reflexivity|unfold HIS in *; lia]. }
      fold r in Hby. destruct Hby as [Hby|(Hby & _)]; [|exact Hby].
      rewrite Hby in E. cbn in E. discriminate. }
    rewrite Hbytes. rewrite !covl_app.
    destruct Hx as [(Hx & Hnx)|(_ & Hx)].
    + destruct (Hkeep x Hx Hnx); tauto.
    + right. left. eapply sok_cov; [apply to_pages_sok; lia|lia].
  - rewrite covl_app.
    destruct Hx as [(Hx & Hnx)|(Hd & Hx)].
    + apply Hkeep; assumption.
    + (* queue mode but nothing inserted: the bytes were already held (case 6) *)
      subst doq. rewrite andb_true_r in E.
      pose proof (zlen_nonneg _ (co_bytes r)).
      right. apply C2; [|apply zlen_nil_iff; lia|exact Hx].
      intros Hnil. assert (Hz : zlen (sub S s n) = n) by (apply zlen_sub; lia). rewrite Hnil in Hz. cbn in Hz. lia.
Qed.

(* the first page of a queue that lies at or beyond lo starts at or beyond lo: a flush that starts
   from the first page skips no held byte *)
Lemma qok_cov_ge : forall S i q lo hi x, zlen S < HIS -> qok S i lo hi q -> covl S i q x -> lo <= x.
Proof.
  intros S i. induction q as [|p t IH]; intros lo hi x HS Hq Hx.
  - destruct (covl_nil S i x Hx).
  - cbn [qok] in Hq. destruct Hq as (o & H1 & H2 & Hpg & Ht). rewrite covl_cons in Hx. destruct Hx as [Hx|Hx].
    + apply (covl_one S i p o x HS Hpg) in Hx. lia.
    + pose proof (IH _ _ _ HS Ht Hx). pose proof Hpg as (_ & Hpl & _). lia.
Qed.

(* addContiguous: the held bytes beyond the end of the run stay in the queue; and the run reaches
   beyond every byte x such that everything from the start up to x is held *)
Lemma contig_loop_cover : forall S i q e lo hi,
  zlen S < HIS -> qok S i lo hi q -> e <= lo -> 0 <= e -> hi <= HI 0 -> zlen S < hi -> e <= zlen S ->
  forall e' tk q1, contig_loop fullv q (sq i e) = (tk, q1, sq i e') -> e <= e' -> e' <= zlen S ->
  (forall x, covl S i q x -> e' <= x -> covl S i q1 x) /\
  (forall x, e <= x -> (forall y, e <= y <= x -> covl S i q y) -> x < e').
Proof.
  intros S i. induction q as [|p t IH]; intros e lo hi HS Hq Hlo He0 Hhi HSh HeS e' tk q1 Hcl Hee HeS'.
  - cbn [contig_loop] in Hcl. inversion Hcl; subst. split; [intros x Hx _; exact Hx|].
    intros x Hx Hall. destruct (covl_nil S i e (Hall e ltac:(lia))).
  - cbn [qok] in Hq. destruct Hq as (o & Ho & Hoe & Hpg & Ht).
    pose proof Hpg as (Hp0 & Hpl & HpS & Hpq & Hpb).
    cbn [contig_loop] in Hcl. unfold diffv in Hcl. cbn [v_diff fullv] in Hcl. rewrite Hpq in Hcl.
    rewrite diff_sq in Hcl by (unfold HI, HALFW in *; lia).
    destruct (o - e =? 0) eqn:E.
    + assert (o = e) by lia. subst o.
      change (zlen (pbytes p)) with (plen p) in Hcl. rewrite sadd_sq in Hcl.
      destruct (contig_loop fullv t (sq i (e + plen p))) as [[tk' q1'] l'] eqn:Erec.
      inversion Hcl; subst tk q1 l'. clear Hcl.
      destruct (contig_loop_sok S i hi t (e + plen p) (e + plen p) Ht) as (e2 & tk2 & q2 & Heq2 & H1 & H2 & _ & _);
        try lia; try assumption.
      rewrite contig_loop_full in Heq2, Erec. rewrite <- contig_loop_full in Heq2. rewrite <- contig_loop_full in Erec.
      rewrite Erec in Heq2. inversion Heq2; subst tk2 q2.
      assert (e2 = e') by (apply (sq_inj_window i e2 e'); [unfold HIS, HALFW in *; lia|congruence]). subst e2.
      destruct (IH (e + plen p) (e + plen p) hi HS Ht ltac:(lia) ltac:(lia) Hhi HSh ltac:(lia) e' tk' q1' Erec H1 H2) as (I1 & I2).
      split.
      * intros x Hx Hge. rewrite covl_cons in Hx. destruct Hx as [Hx|Hx]; [|apply I1; assumption].
        apply (covl_one S i p e x HS Hpg) in Hx. lia.
      * intros x Hx Hall. destruct (Z_lt_dec x (e + plen p)) as [Hlt|Hge]; [lia|].
        apply I2; [lia|]. intros y Hy. specialize (Hall y ltac:(lia)). rewrite covl_cons in Hall.
        destruct Hall as [Hall|Hall]; [|exact Hall]. apply (covl_one S i p e y HS Hpg) in Hall. lia.
    + inversion Hcl; subst tk q1.
      assert (e = e') by (apply (sq_inj_window i e e'); [unfold HIS, HALFW in *; lia|congruence]). subst e'.
      split; [intros x Hx _; exact Hx|].
      intros x Hx Hall. specialize (Hall e ltac:(lia)).
      assert (Hge : o <= e).
      { eapply (qok_cov_ge S i (p :: t) o hi e HS); [|exact Hall]. cbn [qok]. exists o. split; [lia|]. auto. }
      lia.
Qed.

(* ---------------------------------------------------------------- sendToConnection and the queue *)
Lemma send_queue : forall v c h used r0 sid nc,
  h_queue (sr_half (send v c h used r0 sid nc)) =
  snd (fst (add_contiguous v (h_queue h) (sadd (cseq r0) (clen r0)))).
Proof.
  intros. unfold send.
  destruct (add_pending (h_saved h) (cseq r0)) as [[[pre sl] sv1] reld].
  destruct (add_contiguous v (h_queue h) (sadd (cseq r0) (clen r0))) as [[tk q1] nx].
  match goal with |- context [if ?b then (length ?l, 0) else ?f] => destruct (if b then (length l, 0) else f) as [ndx kskip] end.
  destruct (keep_conv v (skipn ndx (map CPage pre ++ r0 :: map CPage tk)) kskip) as [[sv2 alloc] pk].
  reflexivity.
Qed.

Lemma contig_loop_incl : forall v q l tk q1 l', contig_loop v q l = (tk, q1, l') -> forall p, In p q1 -> In p q.
Proof.
  intros v. induction q as [|p0 t IH]; intros l tk q1 l' H p Hin; cbn [contig_loop] in H.
  - inversion H; subst. exact Hin.
  - destruct (diffv v l (pseq p0) =? 0).
    + destruct (contig_loop v t (sadd l (zlen (pbytes p0)))) as [[tk' q1'] l2] eqn:E. inversion H; subst.
      right. eapply IH; eauto.
    + inversion H; subst. exact Hin.
Qed.

Lemma covl_incl : forall S i a b x, (forall p, In p a -> In p b) -> covl S i a x -> covl S i b x.
Proof. intros S i a b x H (p & o & Hin & Hp). exists p, o. split; [apply H; exact Hin|exact Hp]. Qed.

(* the queue after sendToConnection of a container at offset a of length n, when the queue lay at or
   beyond a + n: nothing held at or beyond the new delivery point e' is lost, nothing is invented, and
   e' lies beyond everything contiguously held *)
Lemma send_cover : forall S i c h used r0 sid nc a e',
  zlen S < HIS -> cseq r0 = sq i a -> 0 <= a -> a + clen r0 <= zlen S ->
  qok S i (a + clen r0) HIS (h_queue h) ->
  sr_next (send fullv c h used r0 sid nc) = sq i e' -> a + clen r0 <= e' -> e' <= zlen S ->
  let q1 := h_queue (sr_half (send fullv c h used r0 sid nc)) in
  (forall x, covl S i (h_queue h) x -> e' <= x -> covl S i q1 x) /\
  (forall x, covl S i q1 x -> covl S i (h_queue h) x) /\
  (forall x, a + clen r0 <= x -> (forall y, a + clen r0 <= y <= x -> covl S i (h_queue h) y) -> x < e').
Proof.
  intros S i c h used r0 sid nc a e' HS Hcq Ha HaS Hq Hnx He1 He2 q1. subst q1.
  rewrite send_queue. rewrite Hcq, sadd_sq, add_contiguous_sq_full.
  assert (Hnx' : snd (contig_loop fullv (h_queue h) (sq i (a + clen r0))) = sq i e').
  { rewrite <- Hnx. unfold send. rewrite Hcq, sadd_sq, add_contiguous_sq_full.
    destruct (add_pending (h_saved h) (sq i a)) as [[[pre sl] sv1] reld].
    destruct (contig_loop fullv (h_queue h) (sq i (a + clen r0))) as [[tk q1] nx].
    match goal with |- context [if ?b then (length ?l, 0) else ?f] => destruct (if b then (length l, 0) else f) as [ndx kskip] end.
    destruct (keep_conv fullv (skipn ndx (map CPage pre ++ r0 :: map CPage tk)) kskip) as [[sv2 alloc] pk].
    reflexivity. }
  destruct (contig_loop fullv (h_queue h) (sq i (a + clen r0))) as [[tk q1] nx] eqn:Ecl. cbn [snd fst] in *. subst nx.
  pose proof (clen_nonneg r0).
  destruct (contig_loop_cover S i (h_queue h) (a + clen r0) (a + clen r0) HIS HS Hq ltac:(lia) ltac:(lia) HIS_HI HS HaS
              e' tk q1 Ecl He1 He2) as (C1 & C2).
  split; [exact C1|]. split; [|exact C2].
  intros x Hx. eapply covl_incl; [|exact Hx]. eapply contig_loop_incl; eauto.
Qed.

(* ---------------------------------------------------------------- nothing is invented in the queue *)
Lemma co_loop_sound : forall S i w hi s e,
  zlen S < HIS -> 0 <= w -> 0 <= s -> s <= e -> e <= hi -> hi <= HI 0 -> e <= zlen S ->
  forall left right bytes rel tags m,
  w <= m -> rok S i w m left -> qok S i m hi right ->
  (bytes = [] \/ (bytes = sub S s (e - s) /\ e <= m)) ->
  let r := co_loop fixedv (sq i s) (sq i e) left right bytes rel tags in
  forall x, covl S i (co_left r) x \/ covl S i (co_right r) x -> covl S i left x \/ covl S i right x.
Proof.
  intros S i w hi s e HS Hw0 Hs0 Hse He Hhi HeS.
  induction left as [|cur rest IH]; intros right bytes rel tags m Hwm Hl Hr Hb r.
  - subst r. cbn [co_loop co_left co_right]. intros x Hx; exact Hx.
  - cbn [rok] in Hl. destruct Hl as (cs & Hcs & Hce & Hcur & Hrest).
    pose proof (qok_bounds _ _ _ _ _ Hr) as Hmhi.
    assert (Hcs' : 0 <= cs) by lia.
    assert (Hce' : cs + plen cur <= 0 + (HALFW - 1)) by (unfold HI in *; lia).
    assert (He' : e <= 0 + (HALFW - 1)) by (unfold HI in *; lia).
    assert (Hbz : zlen bytes = e - s \/ bytes = []).
    { destruct Hb as [Hb|[Hb _]]; [right; assumption|left]. subst bytes. apply zlen_sub; lia. }
    assert (Hbs : bytes = sub S s (e - s) \/ bytes = []) by (destruct Hb as [Hb|[Hb _]]; auto).
    assert (Hex := co_cases_exhaustive S i s e cs cur Hcur).
    pose proof Hcur as Hcur'. destruct Hcur' as (Hc0 & Hcl & HcS & Hcq & Hcb).
    assert (Hone : forall x, covl S i [cur] x <-> cs <= x < cs + plen cur) by (intros; apply covl_one; assumption).
    destruct Hex as [C5|[C1|[C3|[C2|[C4|[C6|C0]]]]]].
    + subst r. rewrite (co_case5 S i 0 s e cs cur) by (try assumption; lia).
      intros x Hx. apply (IH (cur :: right) bytes rel (5 :: tags) cs) in Hx; try assumption; try lia.
      * rewrite (covl_cons S i cur rest). rewrite (covl_cons S i cur right) in Hx. tauto.
      * cbn [qok]. exists cs. split; [lia|]. split; [lia|]. split; [assumption|]. eapply qok_weaken; eauto; lia.
      * destruct Hb as [Hb|[Hb Hm]]; [left; assumption|right; split; [assumption|lia]].
    + subst r. rewrite (co_case1 S i 0 s e cs cur) by (try assumption; lia).
      cbn [co_left co_right]. intros x Hx; exact Hx.
    + subst r. rewrite (co_case3 S i 0 s e cs cur) by (try assumption; lia).
      intros x Hx. apply (IH right bytes (rel + 1) (3 :: tags) m) in Hx; try assumption; try lia.
      * rewrite (covl_cons S i cur rest). tauto.
      * eapply rok_weaken; eauto; lia.
    + subst r. rewrite (co_case2 S i 0 s e cs cur) by (try assumption; lia).
      cbn [co_left co_right]. intros x Hx. rewrite covl_cons in Hx. rewrite (covl_cons S i cur rest).
      destruct Hx as [[Hx|Hx]|Hx]; [|tauto|tauto].
      assert (Hp2 : pg S i cs (set_bytes cur (ztake (s - cs) (pbytes cur)))) by (apply case2_page; try assumption; lia).
      apply (covl_one S i _ cs x HS Hp2) in Hx.
      unfold plen, set_bytes in Hx. cbn [pbytes] in Hx. rewrite zlen_ztake in Hx by (unfold plen in *; lia).
      left. left. apply Hone. lia.
    + subst r. rewrite (co_case4 S i 0 s e cs cur) by (try assumption; lia).
      assert (H4 := case4_page S i e cs cur).
      destruct H4 as (Hp4 & Hl4); try assumption; try lia.
      intros x Hx.
      apply (IH (mkPage (zskip (e - cs) (pbytes cur)) (sq i e) (pseen cur) (pend cur) :: right) bytes rel (4 :: tags) e) in Hx;
        try assumption; try lia.
      * rewrite (covl_cons S i cur rest). rewrite covl_cons in Hx.
        destruct Hx as [Hx|[Hx|Hx]]; [tauto| |tauto].
        apply (covl_one S i _ e x HS Hp4) in Hx. rewrite Hl4 in Hx. left. left. apply Hone. lia.
      * eapply rok_weaken; eauto; lia.
      * cbn [qok]. exists e. rewrite Hl4. split; [lia|]. split; [lia|]. split; [assumption|]. eapply qok_weaken; eauto; lia.
      * destruct Hb as [Hb|[Hb Hm]]; [left; assumption|right; split; [assumption|lia]].
    + subst r. rewrite (co_case6 S i 0 s e cs cur) by (try assumption; lia).
      rewrite (case6_same S i s e cs cur) by (try assumption; lia).
      rewrite set_bytes_same.
      intros x Hx. apply (IH (cur :: right) [] rel (6 :: tags) cs) in Hx; try assumption; try lia.
      * rewrite (covl_cons S i cur rest). rewrite (covl_cons S i cur right) in Hx. tauto.
      * cbn [qok]. exists cs. split; [lia|]. split; [lia|]. split; [assumption|]. eapply qok_weaken; eauto; lia.
      * left; reflexivity.
    + subst r. rewrite (co_case0 S i 0 s e cs cur) by (try assumption; lia).
      intros x Hx. apply (IH (cur :: right) bytes rel tags cs) in Hx; try assumption; try lia.
      * rewrite (covl_cons S i cur rest). rewrite (covl_cons S i cur right) in Hx. tauto.
      * cbn [qok]. exists cs. split; [lia|]. split; [lia|]. split; [assumption|]. eapply qok_weaken; eauto; lia.
      * destruct Hb as [Hb|[Hb Hm]]; [left; assumption|right; split; [assumption|lia]].
Qed.

Lemma sok_cov_inv : forall S i l a e x, zlen S < HIS -> sok S i a e l -> 0 <= a -> covl S i l x -> a <= x < e.
Proof.
  intros S i. induction l as [|p t IH]; intros a e x HS H Ha Hx; cbn [sok] in H.
  - destruct (covl_nil S i x Hx).
  - destruct H as ((H1 & H2 & H3 & H4) & H). pose proof (sok_range _ _ _ _ _ H). pose proof (plen_nonneg p).
    rewrite covl_cons in Hx. destruct Hx as [Hx|Hx].
    + destruct Hx as (p' & o' & [Hin|[]] & Hp' & Hx). subst p'.
      assert (o' = a).
      { destruct Hp' as (G1 & G2 & G3 & G4 & _). apply (sq_inj_window i o' a); [unfold HIS, HALFW in *; lia|congruence]. }
      subst o'. lia.
    + pose proof (IH _ _ _ HS H ltac:(lia) Hx). lia.
Qed.

(* checkOverlap, both directions, and the swallowed case *)
Lemma check_overlap_sound : forall S i w q s n ts fl doq,
  zlen S < HIS -> qok S i w HIS q -> 0 <= w -> 0 <= s -> 0 <= n -> s + n <= zlen S ->
  let r := check_overlap fullv q (sub S s n) (sq i s) ts fl doq in
  (forall x, covl S i (c2_queue r) x -> covl S i q x \/ (doq = true /\ s <= x < s + n)) /\
  (c2_bytes r = [] -> forall x, s <= x < s + n -> covl S i (c2_queue r) x).
Proof.
  intros S i w q s n ts fl doq HS Hq Hw Hs Hn HnS r. subst r. rewrite check_overlap_full. unfold check_overlap.
  rewrite zlen_sub by lia. rewrite sadd_sq.
  pose proof (qok_bounds _ _ _ _ _ Hq) as Hb.
  assert (Hgen := co_loop_gen S i 0 w HIS s (s + n) ltac:(lia) ltac:(lia) ltac:(lia) ltac:(unfold HIS in *; lia)
                    HIS_HI Hs HnS (rev q) [] (sub S s n) 0 [] HIS).
  assert (Hsnd := co_loop_sound S i w HIS s (s + n) HS Hw Hs ltac:(lia) ltac:(unfold HIS in *; lia) HIS_HI HnS
                    (rev q) [] (sub S s n) 0 [] HIS).
  assert (Hcov := co_loop_cover S i w HIS s (s + n) HS Hw Hs ltac:(lia) ltac:(unfold HIS in *; lia) HIS_HI HnS
                    (rev q) [] (sub S s n) 0 [] HIS).
  replace (s + n - s) with n in Hgen, Hsnd, Hcov by lia.
  destruct Hgen as (Hpk & m1 & m2 & _ & _ & _ & _ & Hby).
  { lia. } { apply unzip_ok; assumption. } { cbn [qok]; lia. } { right; split; [reflexivity|unfold HIS in *; lia]. }
  specialize (Hsnd ltac:(lia) ltac:(apply unzip_ok; assumption) ltac:(cbn [qok]; lia)
                   ltac:(right; split; [reflexivity|unfold HIS in *; lia])).
  destruct Hcov as (_ & C2).
  { lia. } { apply unzip_ok; assumption. } { cbn [qok]; lia. } { right; split; [reflexivity|unfold HIS in *; lia]. }
  rewrite Hpk.
  set (r := co_loop fixedv (sq i s) (sq i (s + n)) (rev q) [] (sub S s n) 0 []) in *.
  cbv zeta in Hsnd.
  assert (Hold : forall y, covl S i (rev (co_left r)) y \/ covl S i (co_right r) y -> covl S i q y).
  { intros y Hy. destruct (Hsnd y) as [H|H].
    - destruct Hy as [Hy|Hy]; [left; apply covl_rev; exact Hy|right; exact Hy].
    - apply covl_rev. exact H.
    - destruct (covl_nil S i y H). }
  destruct ((0 <? zlen (co_bytes r)) && doq) eqn:E; cbn [c2_queue c2_bytes].
  - assert (Hbytes : co_bytes r = sub S s n).
    { destruct Hby as [Hby|(Hby & _)]; [|exact Hby]. rewrite Hby in E. cbn in E. discriminate. }
    split.
    + intros x Hx. rewrite Hbytes in Hx. rewrite !covl_app in Hx.
      destruct Hx as [Hx|[Hx|Hx]]; [left; apply Hold; tauto| |left; apply Hold; tauto].
      right. split; [destruct doq; [reflexivity|rewrite andb_false_r in E; discriminate]|].
      apply (sok_cov_inv S i _ s (s + n) x HS) in Hx; [exact Hx| |lia].
      apply to_pages_sok; lia.
    + intros Hnil. rewrite Hnil in E. cbn in E. discriminate.
  - split.
    + intros x Hx. rewrite covl_app in Hx. left. apply Hold. exact Hx.
    + intros Hnil x Hx. rewrite covl_app. right.
      destruct (Z.eq_dec n 0); [lia|].
      apply C2; [|exact Hnil|exact Hx].
      intros Hn0. assert (Hz : zlen (sub S s n) = n) by (apply zlen_sub; lia). rewrite Hn0 in Hz. cbn in Hz. lia.
Qed.

Lemma contig_loop_incl_tk : forall v q l tk q1 l', contig_loop v q l = (tk, q1, l') -> forall p, In p tk -> In p q.
Proof.
  intros v. induction q as [|p0 t IH]; intros l tk q1 l' H p Hin; cbn [contig_loop] in H.
  - inversion H; subst. destruct Hin.
  - destruct (diffv v l (pseq p0) =? 0).
    + destruct (contig_loop v t (sadd l (zlen (pbytes p0)))) as [[tk' q1'] l2] eqn:E. inversion H; subst.
      destruct Hin as [Hin|Hin]; [left; exact Hin|right; eapply IH; eauto].
    + inversion H; subst. destruct Hin.
Qed.

(* when the run taken by addContiguous is not empty its last byte was held *)
Lemma send_last_held : forall S i c h used r0 sid nc a e',
  zlen S < HIS -> cseq r0 = sq i a -> 0 <= a -> a + clen r0 <= zlen S ->
  qok S i (a + clen r0) HIS (h_queue h) ->
  sr_next (send fullv c h used r0 sid nc) = sq i e' -> a + clen r0 < e' -> e' <= zlen S ->
  covl S i (h_queue h) (e' - 1).
Proof.
  intros S i c h used r0 sid nc a e' HS Hcq Ha HaS Hq Hnx He1 He2.
  assert (Hnx' : snd (contig_loop fullv (h_queue h) (sq i (a + clen r0))) = sq i e').
  { rewrite <- Hnx. unfold send. rewrite Hcq, sadd_sq, add_contiguous_sq_full.
    destruct (add_pending (h_saved h) (sq i a)) as [[[pre sl] sv1] reld].
    destruct (contig_loop fullv (h_queue h) (sq i (a + clen r0))) as [[tk q1] nx].
    match goal with |- context [if ?b then (length ?l, 0) else ?f] => destruct (if b then (length l, 0) else f) as [ndx kskip] end.
    destruct (keep_conv fullv (skipn ndx (map CPage pre ++ r0 :: map CPage tk)) kskip) as [[sv2 alloc] pk].
    reflexivity. }
  pose proof (clen_nonneg r0).
  destruct (contig_loop_sok S i HIS (h_queue h) (a + clen r0) (a + clen r0) Hq) as (e2 & tk & q1 & Heq & H1 & H2 & Hs & _);
    try lia; try apply HIS_HI.
  rewrite Heq in Hnx'. cbn [snd] in Hnx'.
  assert (e2 = e') by (apply (sq_inj_window i e2 e'); [unfold HIS, HALFW in *; lia|exact Hnx']). subst e2.
  eapply covl_incl; [eapply contig_loop_incl_tk; exact Heq|].
  eapply sok_cov; [exact Hs|lia].
Qed.

(* ---------------------------------------------------------------- received ranges *)
Definition inR (R : list (Z * Z)) (x : Z) : Prop := exists r, In r R /\ fst r <= x < fst r + snd r.
Definition Rpos (R : list (Z * Z)) : Prop := Forall (fun r => 0 < snd r) R.

Lemma inR_cons : forall r R x, inR (r :: R) x <-> (fst r <= x < fst r + snd r) \/ inR R x.
Proof.
  intros. unfold inR. split.
  - intros (r' & [Hin|Hin] & H); [subst; left; exact H|right; eauto].
  - intros [H|(r' & Hin & H)]; [exists r; split; [left; reflexivity|exact H]|exists r'; split; [right; exact Hin|exact H]].
Qed.

Lemma hits_false : forall R a b, a < b -> Rpos R -> (forall x, a <= x < b -> ~ inR R x) -> hits R a b = false.
Proof.
  induction R as [|r t IH]; intros a b Hab Hp Hn; [reflexivity|].
  inversion Hp as [|? ? Hr Ht]; subst. unfold hits in *. cbn [existsb].
  rewrite IH; [|exact Hab|exact Ht|intros x Hx Hin; apply (Hn x Hx); apply inR_cons; right; exact Hin].
  rewrite orb_false_r.
  destruct ((fst r <? b) && (a <? fst r + snd r)) eqn:E; [|reflexivity]. exfalso.
  apply (Hn (Z.max a (fst r))); [lia|]. apply inR_cons. left. lia.
Qed.

Lemma max_recv_ge_acc : forall (R : list (Z * Z)) m, m <= fold_left (fun m r => Z.max m (fst r + snd r)) R m.
Proof. induction R as [|r t IH]; intros m; cbn [fold_left]; [lia|]. specialize (IH (Z.max m (fst r + snd r))). lia. Qed.

Lemma max_recv_mono : forall (R : list (Z * Z)) m m', m <= m' ->
  fold_left (fun m r => Z.max m (fst r + snd r)) R m <= fold_left (fun m r => Z.max m (fst r + snd r)) R m'.
Proof. induction R as [|r t IH]; intros m m' H; cbn [fold_left]; [lia|]. apply IH. lia. Qed.

Lemma inR_max : forall R x, inR R x -> x < max_recv R.
Proof.
  unfold max_recv. induction R as [|r t IH]; intros x (r' & Hin & H); [destruct Hin|].
  cbn [fold_left]. destruct Hin as [Hin|Hin].
  - subst r'. pose proof (max_recv_ge_acc t (Z.max 0 (fst r + snd r))). lia.
  - assert (Hx : inR t x) by (exists r'; auto). specialize (IH x Hx).
    pose proof (max_recv_mono t 0 (Z.max 0 (fst r + snd r)) ltac:(lia)). lia.
Qed.

Lemma max_recv_cons : forall r R, max_recv R <= max_recv (r :: R) /\ fst r + snd r <= max_recv (r :: R).
Proof.
  intros. unfold max_recv. cbn [fold_left]. split.
  - apply max_recv_mono. lia.
  - pose proof (max_recv_ge_acc R (Z.max 0 (fst r + snd r))). lia.
Qed.

(* min_recv: the least start, when some range starts at a and none starts before *)
Lemma min_recv_acc : forall (R : list (Z * Z)) m a, (forall r, In r R -> a <= fst r) -> a <= m ->
  (m = a \/ exists r, In r R /\ fst r = a) -> fold_left (fun m r => Z.min m (fst r)) R m = a.
Proof.
  induction R as [|r t IH]; intros m a Hall Hm Hex; cbn [fold_left].
  - destruct Hex as [H|(r & [] & _)]. exact H.
  - apply IH.
    + intros r' Hin. apply Hall. right. exact Hin.
    + specialize (Hall r (or_introl eq_refl)). lia.
    + destruct Hex as [H|(r' & [Hin|Hin] & H)].
      * left. specialize (Hall r (or_introl eq_refl)). lia.
      * subst r'. left. lia.
      * right. exists r'. auto.
Qed.

Lemma min_recv_is : forall R a, (forall r, In r R -> a <= fst r) -> (exists r, In r R /\ fst r = a) -> min_recv R = a.
Proof.
  intros R a Hall (r & Hin & Hr). unfold min_recv. destruct R as [|(o, n) t]; [destruct Hin|].
  apply min_recv_acc.
  - intros r' Hin'. apply Hall. right. exact Hin'.
  - apply (Hall (o, n)). left. reflexivity.
  - destruct Hin as [Hin|Hin]; [left; subst r; exact Hr|right; exists r; auto].
Qed.

(* ---------------------------------------------------------------- what flushing leaves alone; termination *)
Lemma send_seen : forall v c h used r0 sid nc, h_seen (sr_half (send v c h used r0 sid nc)) = h_seen h.
Proof.
  intros. unfold send.
  destruct (add_pending (h_saved h) (cseq r0)) as [[[pre sl] sv1] reld].
  destruct (add_contiguous v (h_queue h) (sadd (cseq r0) (clen r0))) as [[tk q1] nx].
  match goal with |- context [if ?b then (length ?l, 0) else ?f] => destruct (if b then (length l, 0) else f) as [ndx kskip] end.
  destruct (keep_conv v (skipn ndx (map CPage pre ++ r0 :: map CPage tk)) kskip) as [[sv2 alloc] pk].
  reflexivity.
Qed.

Lemma contig_loop_len : forall v q l, (length (snd (fst (contig_loop v q l))) <= length q)%nat.
Proof.
  intros v. induction q as [|p t IH]; intros l; cbn [contig_loop]; [cbn; lia|].
  destruct (diffv v l (pseq p) =? 0); [|cbn; lia].
  specialize (IH (sadd l (zlen (pbytes p)))).
  destruct (contig_loop v t (sadd l (zlen (pbytes p)))) as [[tk q1] l2]. cbn [fst snd length] in *. lia.
Qed.

Lemma add_contiguous_len : forall v q l, (length (snd (fst (add_contiguous v q l))) <= length q)%nat.
Proof. intros. destruct q as [|p t]; [cbn; lia|]. unfold add_contiguous. apply contig_loop_len. Qed.

Lemma close_c2s_facts : forall v s,
  h_closed (s_half (fst (close_c2s v s))) = true /\ s_rev_closed (fst (close_c2s v s)) = s_rev_closed s /\
  s_rev_seen (fst (close_c2s v s)) = s_rev_seen s /\ h_seen (s_half (fst (close_c2s v s))) = h_seen (s_half s) /\
  h_queue (s_half (fst (close_c2s v s))) = [].
Proof. intros. unfold close_c2s. destruct (s_rev_closed s); cbn; auto. Qed.

(* sendToConnection + close, on a state s with the half h: the reverse half and the timestamps are
   left alone, the queue does not grow *)
Lemma send_st_facts : forall v s h used r0,
  let s1 := fst (fst (fst (send_st v s h used r0))) in
  s_rev_closed s1 = s_rev_closed s /\ s_rev_seen s1 = s_rev_seen s /\ h_seen (s_half s1) = h_seen h /\
  (length (h_queue (s_half s1)) <= length (h_queue h))%nat.
Proof.
  intros v s h used r0. unfold send_st.
  pose proof (send_seen v (s_cfg s) h used r0 (s_sid s) (s_ncalls s)) as Hseen.
  pose proof (send_queue v (s_cfg s) h used r0 (s_sid s) (s_ncalls s)) as Hq.
  pose proof (add_contiguous_len v (h_queue h) (sadd (cseq r0) (clen r0))) as Hlen. rewrite <- Hq in Hlen.
  set (r := send v (s_cfg s) h used r0 (s_sid s) (s_ncalls s)) in *.
  destruct (sr_panic r); [cbn; auto|].
  destruct (sr_end r).
  - set (s0 := mkSt (s_cfg s) (s_exists s) (sr_half r) (s_rev_closed s) (s_rev_seen s) (sr_used r) (s_sid s) (Datatypes.S (s_ncalls s))).
    pose proof (close_c2s_facts v s0) as (_ & F2 & F3 & F4 & F5).
    destruct (close_c2s v s0) as [s2 ev2]. cbn [fst] in *. subst s0. cbn [s_rev_closed s_rev_seen s_half] in *.
    rewrite F5. cbn [length]. split; [exact F2|]. split; [exact F3|]. split; [congruence|lia].
  - cbn. auto.
Qed.

Lemma skip_flush_facts : forall v s,
  let s1 := fst (fst (skip_flush v s)) in
  s_rev_closed s1 = s_rev_closed s /\ s_rev_seen s1 = s_rev_seen s /\ h_seen (s_half s1) = h_seen (s_half s) /\
  (h_queue (s_half s) = [] -> h_closed (s_half s1) = true) /\
  (h_queue (s_half s) <> [] -> (length (h_queue (s_half s1)) < length (h_queue (s_half s)))%nat).
Proof.
  intros v s. unfold skip_flush. destruct (h_queue (s_half s)) as [|p q'] eqn:Eq.
  - pose proof (close_c2s_facts v s) as (F1 & F2 & F3 & F4 & _).
    destruct (close_c2s v s) as [s2 ev2]. cbn [fst] in *. repeat split; auto. intros H; contradiction.
  - set (h1 := mkHalf (h_pages (s_half s)) (h_saved (s_half s)) q' (h_next (s_half s)) (h_seen (s_half s)) (h_closed (s_half s))).
    pose proof (send_st_facts v s h1 (s_used s) (CPage p)) as (F1 & F2 & F3 & F4).
    destruct (send_st v s h1 (s_used s) (CPage p)) as [[[s1 nx] ev] pk]. cbn [fst] in *.
    subst h1. cbn [h_seen h_queue] in *.
    destruct (nx =? INVALID); cbn [fst set_half set_next s_rev_closed s_rev_seen s_half h_seen h_queue];
      (split; [exact F1|]; split; [exact F2|]; split; [exact F3|]; split; [intros H; discriminate|]; intros _; cbn [length]; lia).
Qed.

Lemma fa_loop_closed : forall v fuel s, h_closed (s_half s) = true -> fa_loop fuel v s = (s, [], false).
Proof. intros v [|f] s H; cbn [fa_loop]; [reflexivity|]. rewrite H. reflexivity. Qed.

(* FlushAll's loop ends with the data half closed when its fuel exceeds the queue length *)
Lemma fa_loop_facts : forall v fuel s,
  let r := fa_loop fuel v s in
  s_rev_closed (fst (fst r)) = s_rev_closed s /\
  ((length (h_queue (s_half s)) < fuel)%nat -> snd r = false -> h_closed (s_half (fst (fst r))) = true).
Proof.
  intros v. induction fuel as [|f IH]; intros s; cbn [fa_loop].
  - cbn. split; [reflexivity|lia].
  - destruct (h_closed (s_half s)) eqn:Hcl; [cbn; auto|].
    pose proof (skip_flush_facts v s) as (F1 & _ & _ & F4 & F5).
    destruct (skip_flush v s) as [[s1 ev1] pk1]. cbn [fst] in *.
    destruct pk1; [cbn; split; [exact F1|intros _ Hc; discriminate]|].
    destruct (h_queue (s_half s)) as [|p q'] eqn:Eq.
    + specialize (F4 eq_refl). rewrite (fa_loop_closed v f s1 F4). cbn [fst snd]. split; [exact F1|]. intros _ _. exact F4.
    + specialize (IH s1). destruct (fa_loop f v s1) as [[s2 ev2] pk2]. cbn [fst snd] in *.
      destruct IH as (I1 & I2). split; [congruence|].
      intros Hlen Hpk. apply I2; [|exact Hpk]. specialize (F5 ltac:(discriminate)). cbn [length] in *. lia.
Qed.

Lemma fc_loop_facts : forall v fuel s t,
  let s1 := fst (fst (fc_loop fuel v s t)) in
  s_rev_closed s1 = s_rev_closed s /\ s_rev_seen s1 = s_rev_seen s /\ h_seen (s_half s1) = h_seen (s_half s).
Proof.
  intros v. induction fuel as [|f IH]; intros s t; cbn [fc_loop]; [cbn; auto|].
  destruct (h_queue (s_half s)) as [|p q']; [cbn; auto|].
  destruct (pseen p <? t); [|cbn; auto].
  pose proof (skip_flush_facts v s) as (F1 & F2 & F3 & _).
  destruct (skip_flush v s) as [[s1 ev1] pk1]. cbn [fst] in *.
  destruct pk1; [cbn; auto|].
  destruct (h_closed (s_half s1)); [cbn; auto|].
  specialize (IH s1 t). destruct (fc_loop f v s1 t) as [[s2 ev2] pk2]. cbn [fst] in *.
  destruct IH as (I1 & I2 & I3). repeat split; congruence.
Qed.
