(* Lemmas about Model/LtcpModel.v: panic-freedom of the repaired decoder (all MPTCP subtypes),
   freshness, closed form of SerializeTo. *)
From Coq Require Import Lia ZifyBool ZifyNat.
From GP Require Import Base ListX LtcpModel.
Open Scope Z_scope.
Ltac Zify.zify_post_hook ::= Z.div_mod_to_equations.

(* ------------------------------------------------------------------ basics *)
Definition np {A} (o : outcome A) : Prop := match o with Panic _ => False | _ => True end.

Lemma np_not_panic {A} (o : outcome A) : np o <-> forall s, o <> Panic s.
Proof. destruct o; cbn; split; intros; try congruence; try exact I. apply (H site). reflexivity. Qed.

Lemma np_bind {A B} (o : outcome A) (f : A -> outcome B) :
  np o -> (forall v, o = Ok v -> np (f v)) -> np (obind o f).
Proof. destruct o; cbn; intros H1 H2; auto. Qed.

Lemma np_ret_info (o : outcome mpinfo) : np o -> np (snd (ret_info o)).
Proof. destruct o; cbn; auto. Qed.

Lemma len_nonneg {A} (l : list A) : 0 <= len l.
Proof. unfold len. lia. Qed.

Lemma len_app {A} (a b : list A) : len (a ++ b) = len a + len b.
Proof. unfold len. rewrite app_length. lia. Qed.

Lemma idx_eq s l i : 0 <= i < len l -> idx s l i = Ok (nth (Z.to_nat i) l 0).
Proof. intros H. unfold idx. replace ((0 <=? i) && (i <? len l)) with true by lia. reflexivity. Qed.

Lemma idx_np s l i : 0 <= i < len l -> np (idx s l i).
Proof. intros H. rewrite idx_eq by assumption. exact I. Qed.

Lemma slc_eq s l tl a b : 0 <= a <= b -> b <= len l ->
  slc s l tl a b = Ok (slice (l ++ tl) (Z.to_nat a) (Z.to_nat b)).
Proof.
  intros H1 H2. unfold slc. pose proof (len_nonneg tl).
  replace ((0 <=? a) && (a <=? b) && (b <=? len l + len tl)) with true by lia. reflexivity.
Qed.

Lemma slc_np s l tl a b : 0 <= a <= b -> b <= len l -> np (slc s l tl a b).
Proof. intros. rewrite slc_eq by assumption. exact I. Qed.

Lemma opt_slc_np c s l tl a b : (c = true -> 0 <= a <= b /\ b <= len l) -> np (opt_slc c s l tl a b).
Proof. destruct c; cbn; intros H; [apply slc_np; apply H; reflexivity | exact I]. Qed.

Lemma from_eq s l a : 0 <= a <= len l -> from s l a = Ok (skipn (Z.to_nat a) l).
Proof. intros H. unfold from. replace ((0 <=? a) && (a <=? len l)) with true by lia. reflexivity. Qed.

Lemma from_np s l a : 0 <= a <= len l -> np (from s l a).
Proof. intros. rewrite from_eq by assumption. exact I. Qed.

Lemma read_n_np s l start cnt : 0 <= start -> start + Z.of_nat cnt <= len l -> np (read_n s l start cnt).
Proof.
  revert start; induction cnt as [|c IH]; intros start H0 H; cbn [read_n]; [exact I|].
  apply np_bind; [apply idx_np; lia|]. intros v _.
  apply np_bind; [apply IH; lia|]. intros r _. exact I.
Qed.

(* ------------------------------------------------------------------ the MPTCP subtype parsers *)
Ltac leaf :=
  first
    [ exact I
    | apply idx_np; lia
    | apply slc_np; lia
    | apply from_np; lia
    | apply opt_slc_np; intros; lia
    | apply read_n_np; lia
    | match goal with |- np (if ?c then _ else _) => destruct c eqn:?; leaf end ].
Ltac binds := repeat (apply np_bind; [ leaf | intros ? _ ]); try leaf.

Lemma mp_capable_np od tl L b2 : 3 <= L <= len od -> np (snd (mp_capable od tl L b2)).
Proof.
  intros H. unfold mp_capable, mem. cbn [existsb].
  destruct (negb _) eqn:Hm; [exact I|]. apply np_ret_info. binds.
Qed.

Lemma mp_join_np od tl L b2 : 3 <= L <= len od -> np (snd (mp_join od tl L b2)).
Proof.
  intros H. unfold mp_join, mem. cbn [existsb].
  destruct (negb _) eqn:Hm; [exact I|]. apply np_ret_info.
  destruct (L =? 12) eqn:H12; [binds|]. destruct (L =? 16) eqn:H16; binds.
Qed.

Lemma mp_dss_np od tl L b2 : 3 <= L <= len od -> np (snd (mp_dss true od tl L b2)).
Proof.
  intros H. unfold mp_dss. cbn [andb].
  destruct (L <? 4) eqn:H4; [exact I|].
  rewrite idx_eq by lia. set (fl := Z.land _ 31). clearbody fl.
  unfold dss_len.
  destruct (bit fl 1) eqn:B1; destruct (bit fl 2) eqn:B2; destruct (bit fl 4) eqn:B4; destruct (bit fl 8) eqn:B8;
    cbn [negb andb];
    (match goal with |- np (snd (if ?c then _ else _)) => destruct c eqn:Hc; [exact I|] end);
    apply np_ret_info; cbv zeta; binds.
Qed.

Lemma mp_addaddr_np od tl L b2 : 3 <= L <= len od -> np (snd (mp_addaddr od tl L b2)).
Proof.
  intros H. unfold mp_addaddr. set (v := Z.land b2 15). clearbody v. cbv zeta.
  unfold addaddr_valid, mem. cbn [existsb].
  destruct (1 <? v) eqn:Hv; cbn [Z.eqb Pos.eqb negb andb].
  - destruct (negb _) eqn:Hm; [exact I|]. apply np_ret_info. binds.
  - destruct (bit b2 1) eqn:HE; cbn [Z.eqb Pos.eqb negb andb];
      (destruct (negb _) eqn:Hm; [exact I|]); apply np_ret_info; binds.
Qed.

Lemma mp_remaddr_np od tl L b2 : 3 <= L <= len od -> np (snd (mp_remaddr od tl L b2)).
Proof.
  intros H. unfold mp_remaddr. destruct (L <? 4) eqn:H4; [exact I|]. apply np_ret_info. binds.
Qed.

Lemma mp_prio_np od tl L b2 : 3 <= L <= len od -> np (snd (mp_prio od tl L b2)).
Proof.
  intros H. unfold mp_prio, mem. cbn [existsb]. destruct (negb _) eqn:Hm; [exact I|]. apply np_ret_info. binds.
Qed.

Lemma mp_fail_np od tl L b2 : 3 <= L <= len od -> np (snd (mp_fail od tl L b2)).
Proof. intros H. unfold mp_fail. destruct (negb _) eqn:Hm; [exact I|]. apply np_ret_info. binds. Qed.

Lemma mp_fclose_np od tl L b2 : 3 <= L <= len od -> np (snd (mp_fclose od tl L b2)).
Proof. intros H. unfold mp_fclose. destruct (negb _) eqn:Hm; [exact I|]. apply np_ret_info. binds. Qed.

Lemma mp_rst_np od tl L b2 : 3 <= L <= len od -> np (snd (mp_rst od tl L b2)).
Proof. intros H. unfold mp_rst. destruct (negb _) eqn:Hm; [exact I|]. apply np_ret_info. binds. Qed.

Lemma mp_sub_np od tl L b2 st : 3 <= L <= len od -> np (snd (mp_sub true od tl L b2 st)).
Proof.
  intros H. unfold mp_sub.
  repeat (match goal with |- np (snd (if ?c then _ else _)) => destruct c end);
    auto using mp_capable_np, mp_join_np, mp_dss_np, mp_addaddr_np, mp_remaddr_np, mp_prio_np,
               mp_fail_np, mp_fclose_np, mp_rst_np.
  exact I.
Qed.

(* ------------------------------------------------------------------ the option loop *)
Lemma len_skipn {A} (l : list A) a : 0 <= a <= len l -> len (skipn (Z.to_nat a) l) = len l - a.
Proof. intros H. unfold len in *. rewrite skipn_length. lia. Qed.

Lemma len_cons {A} (x : A) l : len (x :: l) = 1 + len l.
Proof. unfold len. cbn [length]. lia. Qed.

(* with fuel beyond the number of option bytes the repaired loop neither panics nor runs out of fuel *)
Lemma loop_np : forall fuel od tl acc mp,
  (length od < fuel)%nat -> np (r_out (opt_loop true fuel od tl acc mp)).
Proof.
  induction fuel as [|fuel IH]; intros od tl acc mp Hf; [lia|].
  cbn [opt_loop]. destruct od as [|k rest]; [exact I|].
  destruct (k =? 0) eqn:K0; [exact I|].
  destruct (k =? 1) eqn:K1; [apply IH; cbn [length] in Hf; lia|].
  assert (Hlen : len (k :: rest) = Z.of_nat (length (k :: rest))) by reflexivity.
  destruct (k =? 30) eqn:K30.
  - cbn [andb]. destruct (len (k :: rest) <? 2) eqn:H2; [exact I|].
    rewrite idx_eq by lia. set (L := nth (Z.to_nat 1) (k :: rest) 0). clearbody L.
    destruct (L <? 3) eqn:H3; [exact I|].
    destruct (len (k :: rest) <? L) eqn:HL; [exact I|].
    rewrite idx_eq by lia. set (b2 := nth (Z.to_nat 2) (k :: rest) 0). clearbody b2.
    pose proof (mp_sub_np (k :: rest) tl L b2 (b2 / 16)) as Hs.
    destruct (mp_sub true (k :: rest) tl L b2 (b2 / 16)) as [info o]. cbn [snd] in Hs.
    specialize (Hs ltac:(lia)).
    destruct o as [u|c|s]; [|exact I|exact Hs].
    rewrite from_eq by lia. apply IH.
    assert (len (skipn (Z.to_nat L) (k :: rest)) = len (k :: rest) - L) by (apply len_skipn; lia).
    unfold len in *. lia.
  - destruct (len (k :: rest) <? 2) eqn:H2; [exact I|].
    set (L := nth 1 (k :: rest) 0). clearbody L.
    destruct (L <? 2) eqn:H3; [exact I|].
    destruct (len (k :: rest) <? L) eqn:HL; [exact I|].
    rewrite slc_eq by lia. rewrite from_eq by lia. apply IH.
    assert (len (skipn (Z.to_nat L) (k :: rest)) = len (k :: rest) - L) by (apply len_skipn; lia).
    unfold len in *. lia.
Qed.

Lemma decode_np old data extra : np (snd (decode_into old data extra)).
Proof.
  unfold decode_into, decode_gen.
  destruct (len data <? 20); [exact I|]. cbv zeta.
  destruct (_ <? 5); [exact I|].
  destruct (len data <? _); [exact I|]. cbn [snd].
  apply loop_np. lia.
Qed.

(* ------------------------------------------------------------------ freshness *)
Lemma decode_outcome_fresh old data extra :
  snd (decode_into old data extra) = snd (decode_into tcp0 data extra) /\
  snd (fst (decode_into old data extra)) = snd (fst (decode_into tcp0 data extra)).
Proof.
  unfold decode_into, decode_gen.
  destruct (len data <? 20); [split; reflexivity|]. cbv zeta.
  destruct (_ <? 5); [split; reflexivity|].
  destruct (len data <? _); split; reflexivity.
Qed.

Lemma decode_fresh old data extra :
  (forall c, snd (decode_into old data extra) <> Err c \/ (c <> 1 /\ c <> 2)) ->
  decode_into old data extra = decode_into tcp0 data extra.
Proof.
  unfold decode_into, decode_gen.
  destruct (len data <? 20).
  { intros H. destruct (H 1) as [H1|[H1 _]]; cbn in *; congruence. }
  cbv zeta. destruct (_ <? 5).
  { intros H. destruct (H 2) as [H1|[_ H1]]; cbn in *; congruence. }
  destruct (len data <? _); reflexivity.
Qed.

Lemma decode_fresh_ok old data extra :
  snd (decode_into old data extra) = Ok tt -> decode_into old data extra = decode_into tcp0 data extra.
Proof. intros H. apply decode_fresh. intros c. left. congruence. Qed.

(* ------------------------------------------------------------------ renderers *)
Lemma render_total t : render_panics t = (false, false).
Proof.
  unfold render_panics, render_gen.
  assert (H : existsb opt_string_panics (t_opts t) = false).
  { induction (t_opts t) as [|o r IH]; cbn; auto. }
  rewrite H. rewrite andb_false_r. reflexivity.
Qed.
