(* Lemmas about Model/LtcpModel.v: panic-freedom of the repaired decoder (all MPTCP subtypes),
   freshness, closed form of SerializeTo. *)
From Coq Require Import Lia ZifyBool ZifyNat.
From GP Require Import Base ListX LtcpModel.
Open Scope Z_scope.
Ltac Zify.zify_post_hook ::= Z.div_mod_to_equations.

(* ------------------------------------------------------------------ basics *)
Definition np {A} (o : outcome A) : Prop := match o with Panic _ => False | _ => True end.

Lemma np_not_panic {A} (o : outcome A) : np o <-> forall s, o <> Panic s.
Proof. destruct o; cbn; split; intros; try congruence; try exact I. apply (H site). reflexivity. Qed.

Lemma np_bind {A B} (o : outcome A) (f : A -> outcome B) :
  np o -> (forall v, o = Ok v -> np (f v)) -> np (obind o f).
Proof. destruct o; cbn; intros H1 H2; auto. Qed.

Lemma np_ret_info (o : outcome mpinfo) : np o -> np (snd (ret_info o)).
Proof. destruct o; cbn; auto. Qed.

Lemma len_nonneg {A} (l : list A) : 0 <= len l.
Proof. unfold len. lia. Qed.

Lemma len_app {A} (a b : list A) : len (a ++ b) = len a + len b.
Proof. unfold len. rewrite app_length. lia. Qed.

Lemma idx_eq s l i : 0 <= i < len l -> idx s l i = Ok (nth (Z.to_nat i) l 0).
Proof. intros H. unfold idx. replace ((0 <=? i) && (i <? len l)) with true by lia. reflexivity. Qed.

Lemma idx_np s l i : 0 <= i < len l -> np (idx s l i).
Proof. intros H. rewrite idx_eq by assumption. exact I. Qed.

Lemma slc_eq s l tl a b : 0 <= a <= b -> b <= len l ->
  slc s l tl a b = Ok (slice (l ++ tl) (Z.to_nat a) (Z.to_nat b)).
Proof.
  intros H1 H2. unfold slc. pose proof (len_nonneg tl).
  replace ((0 <=? a) && (a <=? b) && (b <=? len l + len tl)) with true by lia. reflexivity.
Qed.

Lemma slc_np s l tl a b : 0 <= a <= b -> b <= len l -> np (slc s l tl a b).
Proof. intros. rewrite slc_eq by assumption. exact I. Qed.

Lemma opt_slc_np c s l tl a b : (c = true -> 0 <= a <= b /\ b <= len l) -> np (opt_slc c s l tl a b).
Proof. destruct c; cbn; intros H; [apply slc_np; apply H; reflexivity | exact I]. Qed.

Lemma from_eq s l a : 0 <= a <= len l -> from s l a = Ok (skipn (Z.to_nat a) l).
Proof. intros H. unfold from. replace ((0 <=? a) && (a <=? len l)) with true by lia. reflexivity. Qed.

Lemma from_np s l a : 0 <= a <= len l -> np (from s l a).
Proof. intros. rewrite from_eq by assumption. exact I. Qed.

Lemma read_n_np s l start cnt : 0 <= start -> start + Z.of_nat cnt <= len l -> np (read_n s l start cnt).
Proof.
  revert start; induction cnt as [|c IH]; intros start H0 H; cbn [read_n]; [exact I|].
  apply np_bind; [apply idx_np; lia|]. intros v _.
  apply np_bind; [apply IH; lia|]. intros r _. exact I.
Qed.

(* ------------------------------------------------------------------ the MPTCP subtype parsers *)
Ltac leaf :=
  first
    [ exact I
    | apply idx_np; lia
    | apply slc_np; lia
    | apply from_np; lia
    | apply opt_slc_np; intros; lia
    | apply read_n_np; lia
    | match goal with |- np (if ?c then _ else _) => destruct c eqn:?; leaf end ].
Ltac binds := repeat (apply np_bind; [ leaf | intros ? _ ]); try leaf.

Lemma mp_capable_np od tl L b2 : 3 <= L <= len od -> np (snd (mp_capable od tl L b2)).
Proof.
  intros H. unfold mp_capable, mem. cbn [existsb].
  destruct (negb _) eqn:Hm; [exact I|]. apply np_ret_info. binds.
Qed.

Lemma mp_join_np od tl L b2 : 3 <= L <= len od -> np (snd (mp_join od tl L b2)).
Proof.
  intros H. unfold mp_join, mem. cbn [existsb].
  destruct (negb _) eqn:Hm; [exact I|]. apply np_ret_info.
  destruct (L =? 12) eqn:H12; [binds|]. destruct (L =? 16) eqn:H16; binds.
Qed.

Lemma mp_dss_np od tl L b2 : 3 <= L <= len od -> np (snd (mp_dss true od tl L b2)).
Proof.
  intros H. unfold mp_dss. cbn [andb].
  destruct (L <? 4) eqn:H4; [exact I|].
  rewrite idx_eq by lia. set (fl := Z.land _ 31). clearbody fl.
  unfold dss_len.
  destruct (bit fl 1) eqn:B1; destruct (bit fl 2) eqn:B2; destruct (bit fl 4) eqn:B4; destruct (bit fl 8) eqn:B8;
    cbn [negb andb];
    (match goal with |- np (snd (if ?c then _ else _)) => destruct c eqn:Hc; [exact I|] end);
    apply np_ret_info; cbv zeta; binds.
Qed.

Lemma mp_addaddr_np od tl L b2 : 3 <= L <= len od -> np (snd (mp_addaddr od tl L b2)).
Proof.
  intros H. unfold mp_addaddr. set (v := Z.land b2 15). clearbody v. cbv zeta.
  unfold addaddr_valid, mem. cbn [existsb].
  destruct (1 <? v) eqn:Hv; cbn [Z.eqb Pos.eqb negb andb].
  - destruct (negb _) eqn:Hm; [exact I|]. apply np_ret_info. binds.
  - destruct (bit b2 1) eqn:HE; cbn [Z.eqb Pos.eqb negb andb];
      (destruct (negb _) eqn:Hm; [exact I|]); apply np_ret_info; binds.
Qed.

Lemma mp_remaddr_np od tl L b2 : 3 <= L <= len od -> np (snd (mp_remaddr od tl L b2)).
Proof.
  intros H. unfold mp_remaddr. destruct (L <? 4) eqn:H4; [exact I|]. apply np_ret_info. binds.
Qed.

Lemma mp_prio_np od tl L b2 : 3 <= L <= len od -> np (snd (mp_prio od tl L b2)).
Proof.
  intros H. unfold mp_prio, mem. cbn [existsb]. destruct (negb _) eqn:Hm; [exact I|]. apply np_ret_info. binds.
Qed.

Lemma mp_fail_np od tl L b2 : 3 <= L <= len od -> np (snd (mp_fail od tl L b2)).
Proof. intros H. unfold mp_fail. destruct (negb _) eqn:Hm; [exact I|]. apply np_ret_info. binds. Qed.

Lemma mp_fclose_np od tl L b2 : 3 <= L <= len od -> np (snd (mp_fclose od tl L b2)).
Proof. intros H. unfold mp_fclose. destruct (negb _) eqn:Hm; [exact I|]. apply np_ret_info. binds. Qed.

Lemma mp_rst_np od tl L b2 : 3 <= L <= len od -> np (snd (mp_rst od tl L b2)).
Proof. intros H. unfold mp_rst. destruct (negb _) eqn:Hm; [exact I|]. apply np_ret_info. binds. Qed.

Lemma mp_sub_np od tl L b2 st : 3 <= L <= len od -> np (snd (mp_sub true od tl L b2 st)).
Proof.
  intros H. unfold mp_sub.
  repeat (match goal with |- np (snd (if ?c then _ else _)) => destruct c end);
    auto using mp_capable_np, mp_join_np, mp_dss_np, mp_addaddr_np, mp_remaddr_np, mp_prio_np,
               mp_fail_np, mp_fclose_np, mp_rst_np.
  exact I.
Qed.

(* ------------------------------------------------------------------ the option loop *)
Lemma len_skipn {A} (l : list A) a : 0 <= a <= len l -> len (skipn (Z.to_nat a) l) = len l - a.
Proof. intros H. unfold len in *. rewrite skipn_length. lia. Qed.

Lemma len_cons {A} (x : A) l : len (x :: l) = 1 + len l.
Proof. unfold len. cbn [length]. lia. Qed.

(* with fuel beyond the number of option bytes the repaired loop neither panics nor runs out of fuel *)
Lemma loop_np : forall fuel od tl acc mp,
  (length od < fuel)%nat -> np (r_out (opt_loop true fuel od tl acc mp)).
Proof.
  induction fuel as [|fuel IH]; intros od tl acc mp Hf; [lia|].
  cbn [opt_loop]. destruct od as [|k rest]; [exact I|].
  destruct (k =? 0) eqn:K0; [exact I|].
  destruct (k =? 1) eqn:K1; [apply IH; cbn [length] in Hf; lia|].
  assert (Hlen : len (k :: rest) = Z.of_nat (length (k :: rest))) by reflexivity.
  destruct (k =? 30) eqn:K30.
  - cbn [andb]. destruct (len (k :: rest) <? 2) eqn:H2; [exact I|].
    rewrite idx_eq by lia. set (L := nth (Z.to_nat 1) (k :: rest) 0). clearbody L.
    destruct (L <? 3) eqn:H3; [exact I|].
    destruct (len (k :: rest) <? L) eqn:HL; [exact I|].
    rewrite idx_eq by lia. set (b2 := nth (Z.to_nat 2) (k :: rest) 0). clearbody b2.
    pose proof (mp_sub_np (k :: rest) tl L b2 (b2 / 16)) as Hs.
    destruct (mp_sub true (k :: rest) tl L b2 (b2 / 16)) as [info o]. cbn [snd] in Hs.
    specialize (Hs ltac:(lia)).
    destruct o as [u|c|s]; [|exact I|exact Hs].
    rewrite from_eq by lia. apply IH.
    assert (len (skipn (Z.to_nat L) (k :: rest)) = len (k :: rest) - L) by (apply len_skipn; lia).
    unfold len in *. lia.
  - destruct (len (k :: rest) <? 2) eqn:H2; [exact I|].
    set (L := nth 1 (k :: rest) 0). clearbody L.
    destruct (L <? 2) eqn:H3; [exact I|].
    destruct (len (k :: rest) <? L) eqn:HL; [exact I|].
    rewrite slc_eq by lia. rewrite from_eq by lia. apply IH.
    assert (len (skipn (Z.to_nat L) (k :: rest)) = len (k :: rest) - L) by (apply len_skipn; lia).
    unfold len in *. lia.
Qed.

Lemma decode_np old data extra : np (snd (decode_into old data extra)).
Proof.
  unfold decode_into, decode_gen.
  destruct (len data <? 20); [exact I|]. cbv zeta.
  destruct (_ <? 5); [exact I|].
  destruct (len data <? _); [exact I|]. cbn [snd].
  apply loop_np. lia.
Qed.

(* ------------------------------------------------------------------ freshness *)
Lemma decode_outcome_fresh old data extra :
  snd (decode_into old data extra) = snd (decode_into tcp0 data extra) /\
  snd (fst (decode_into old data extra)) = snd (fst (decode_into tcp0 data extra)).
Proof.
  unfold decode_into, decode_gen.
  destruct (len data <? 20); [split; reflexivity|]. cbv zeta.
  destruct (_ <? 5); [split; reflexivity|].
  destruct (len data <? _); split; reflexivity.
Qed.

Lemma decode_fresh old data extra :
  (forall c, snd (decode_into old data extra) <> Err c \/ (c <> 1 /\ c <> 2)) ->
  decode_into old data extra = decode_into tcp0 data extra.
Proof.
  unfold decode_into, decode_gen.
  destruct (len data <? 20).
  { intros H. destruct (H 1) as [H1|[H1 _]]; cbn in *; congruence. }
  cbv zeta. destruct (_ <? 5).
  { intros H. destruct (H 2) as [H1|[_ H1]]; cbn in *; congruence. }
  destruct (len data <? _); reflexivity.
Qed.

Lemma decode_fresh_ok old data extra :
  snd (decode_into old data extra) = Ok tt -> decode_into old data extra = decode_into tcp0 data extra.
Proof. intros H. apply decode_fresh. intros c. left. congruence. Qed.

(* ------------------------------------------------------------------ renderers *)
Lemma render_total t : render_panics t = (false, false).
Proof.
  unfold render_panics, render_gen.
  assert (H : existsb opt_string_panics (t_opts t) = false).
  { induction (t_opts t) as [|o r IH]; cbn; auto. }
  rewrite H. rewrite andb_false_r. reflexivity.
Qed.

(* ------------------------------------------------------------------ SerializeTo: closed form *)
Lemma skipn_skipn' {A} (a b : nat) (l : list A) : skipn a (skipn b l) = skipn (b + a) l.
Proof.
  revert l; induction b as [|b IH]; intros l; cbn [skipn Nat.add]; [reflexivity|].
  destruct l as [|h t]; [destruct a; reflexivity|]. apply IH.
Qed.

Lemma be_bytes_length n x : length (be_bytes n x) = n.
Proof. revert x; induction n as [|n IH]; intros x; cbn [be_bytes]; [reflexivity|]. rewrite app_length, IH. cbn. lia. Qed.

Ltac slen := unfold len in *;
  rewrite ?app_length, ?skipn_length, ?be_bytes_length, ?repeat_length in *; cbn [length] in *; lia.

Lemma put_at s pre rest off vs : len pre = off -> len vs <= len rest ->
  put s (pre ++ rest) off vs = Ok (pre ++ vs ++ skipn (length vs) rest).
Proof.
  intros H1 H2. unfold put.
  replace ((0 <=? off) && (off + len vs <=? len (pre ++ rest))) with true by slen.
  replace (Z.to_nat off) with (length pre) by slen.
  rewrite firstn_app, firstn_all, Nat.sub_diag. cbn [firstn]. rewrite app_nil_r.
  rewrite skipn_app. rewrite skipn_all2 by lia.
  replace (length pre + length vs - length pre)%nat with (length vs) by lia. reflexivity.
Qed.

Definition opt_bytes (fx : bool) (o : tcpopt) : list Z :=
  if is01 (o_type o) then [o_type o]
  else o_type o :: (if fx then u8 (len (o_data o) + 2) else o_len o) :: o_data o.
Definition opts_bytes (fx : bool) (os : list tcpopt) : list Z := flat_map (opt_bytes fx) os.

Lemma opt_bytes_len fx o : len (opt_bytes fx o) = opt_wire_len o.
Proof. unfold opt_bytes, opt_wire_len. destruct (is01 _); slen. Qed.

Lemma opt_wire_len_pos o : 1 <= opt_wire_len o.
Proof. unfold opt_wire_len. destruct (is01 _); slen. Qed.

Lemma opts_len_nonneg os : 0 <= opts_len os.
Proof. induction os as [|o r IH]; cbn [opts_len fold_right]; [lia|]. pose proof (opt_wire_len_pos o). fold (opts_len r). lia. Qed.

Lemma opts_bytes_len fx os : len (opts_bytes fx os) = opts_len os.
Proof.
  induction os as [|o r IH]; cbn [opts_bytes flat_map opts_len fold_right]; [reflexivity|].
  rewrite len_app, opt_bytes_len. fold (opts_bytes fx r). fold (opts_len r). lia.
Qed.

Lemma write_opts_eq fx : forall os pre rest start,
  len pre = start -> opts_len os <= len rest ->
  write_opts fx os (pre ++ rest) start =
    Ok (pre ++ opts_bytes fx os ++ skipn (Z.to_nat (opts_len os)) rest, start + opts_len os).
Proof.
  induction os as [|o r IH]; intros pre rest start Hp Hr.
  - cbn. rewrite Z.add_0_r. reflexivity.
  - cbn [write_opts opts_len fold_right opts_bytes flat_map] in *. fold (opts_len r) in *. fold (opts_bytes fx r).
    pose proof (opts_len_nonneg r) as Hnn. pose proof (opt_wire_len_pos o) as Hpos.
    unfold opt_bytes, opt_wire_len in *.
    rewrite put_at by slen. cbn [obind].
    destruct (is01 (o_type o)) eqn:H01.
    + rewrite app_assoc. rewrite IH by slen. rewrite <- app_assoc.
      rewrite skipn_skipn'. cbn [length app].
      replace (1 + Z.to_nat (opts_len r))%nat with (Z.to_nat (1 + opts_len r)) by lia.
      f_equal. f_equal. lia.
    + rewrite app_assoc. rewrite put_at by slen. cbn [obind].
      rewrite app_assoc. rewrite put_at by slen. cbn [obind].
      rewrite app_assoc. rewrite IH by slen.
      rewrite !skipn_skipn'. cbn [length].
      rewrite <- !app_assoc. cbn [app].
      assert (E : (1 + (1 + (length (o_data o) + Z.to_nat (opts_len r))))%nat
                  = Z.to_nat (2 + len (o_data o) + opts_len r)) by slen.
      rewrite E. f_equal. f_equal. lia.
Qed.

Definition ser_hdr (t : tcp) (fx : bool) (pad : list Z) (off ck : Z) : list Z :=
  be_bytes 2 (t_sp t) ++ be_bytes 2 (t_dp t) ++ be_bytes 4 (t_seq t) ++ be_bytes 4 (t_ack t) ++
  be_bytes 2 ((off * 4096) mod 65536 + t_flags t) ++ be_bytes 2 (t_win t) ++ be_bytes 2 ck ++
  be_bytes 2 (t_urg t) ++ opts_bytes fx (t_opts t) ++ pad.

Definition ser_pad (t : tcp) (fx : bool) : list Z :=
  let ol := opts_len (t_opts t) in
  if fx && negb (ol mod 4 =? 0) then repeat 0 (Z.to_nat (4 - ol mod 4)) else t_pad t.
Definition ser_off (t : tcp) (fx : bool) : Z :=
  if fx then u8 ((len (ser_pad t fx) + opts_len (t_opts t) + 20) / 4) else t_off t.

(* what SerializeTo produces, with no reference to the prior content of the buffer *)
Definition ser_spec (t : tcp) (payload : list Z) (fx csum : bool) (ph : option Z) : outcome (list Z) * tcp :=
  let pad := ser_pad t fx in let off := ser_off t fx in
  if csum then
    match ph with
    | None => (Err 5, set_ser t pad off (t_sum t))
    | Some p =>
      let ck := fold_csum (l4_csum p (ser_hdr t fx pad off 0 ++ payload)) in
      (Ok (ser_hdr t fx pad off ck ++ payload), set_ser t pad off ck)
    end
  else (Ok (ser_hdr t fx pad off (t_sum t) ++ payload), set_ser t pad off (t_sum t)).

Lemma resize_length junk n : length (resize junk n) = n.
Proof. unfold resize. rewrite firstn_length, app_length, repeat_length. lia. Qed.

Lemma hdr_chain (t : tcp) fx pad fo buf0 :
  len buf0 = 20 + opts_len (t_opts t) + len pad ->
  (b <- put 210 buf0 0 (be_bytes 2 (t_sp t)) ;;
   b <- put 211 b 2 (be_bytes 2 (t_dp t)) ;;
   b <- put 212 b 4 (be_bytes 4 (t_seq t)) ;;
   b <- put 213 b 8 (be_bytes 4 (t_ack t)) ;;
   b <- put 214 b 12 (be_bytes 2 fo) ;;
   b <- put 215 b 14 (be_bytes 2 (t_win t)) ;;
   b <- put 216 b 18 (be_bytes 2 (t_urg t)) ;;
   bs <- write_opts fx (t_opts t) b 20 ;;
   put 217 (fst bs) (snd bs) pad) =
  Ok ((be_bytes 2 (t_sp t) ++ be_bytes 2 (t_dp t) ++ be_bytes 4 (t_seq t) ++ be_bytes 4 (t_ack t) ++
       be_bytes 2 fo ++ be_bytes 2 (t_win t)) ++ firstn 2 (skipn 16 buf0) ++
      (be_bytes 2 (t_urg t) ++ opts_bytes fx (t_opts t) ++ pad)).
Proof.
  intros Hlen. pose proof (opts_len_nonneg (t_opts t)) as Hol. pose proof (len_nonneg pad) as Hpad.
  change buf0 with ([] ++ buf0) at 1.
  rewrite put_at by slen. cbn [obind app]. rewrite be_bytes_length.
  rewrite put_at by slen. cbn [obind]. rewrite be_bytes_length, skipn_skipn'.
  rewrite app_assoc. rewrite put_at by slen. cbn [obind]. rewrite be_bytes_length, skipn_skipn'.
  rewrite app_assoc. rewrite put_at by slen. cbn [obind]. rewrite be_bytes_length, skipn_skipn'.
  rewrite app_assoc. rewrite put_at by slen. cbn [obind]. rewrite be_bytes_length, skipn_skipn'.
  rewrite app_assoc. rewrite put_at by slen. cbn [obind]. rewrite be_bytes_length, skipn_skipn'.
  cbn [Nat.add].
  rewrite <- (firstn_skipn 2 (skipn 16 buf0)) at 1. rewrite skipn_skipn'. cbn [Nat.add].
  rewrite app_assoc. rewrite (app_assoc _ (firstn 2 (skipn 16 buf0))).
  assert (Hf : length (firstn 2 (skipn 16 buf0)) = 2%nat).
  { rewrite firstn_length, skipn_length. unfold len in Hlen. lia. }
  set (s16 := firstn 2 (skipn 16 buf0)) in *.
  rewrite put_at by (unfold len in *; rewrite ?app_length, ?skipn_length, ?be_bytes_length, ?Hf in *; cbn [length]; lia).
  cbn [obind]. rewrite be_bytes_length, skipn_skipn'. cbn [Nat.add].
  rewrite app_assoc.
  rewrite write_opts_eq by (unfold len in *; rewrite ?app_length, ?skipn_length, ?be_bytes_length, ?Hf in *; cbn [length]; lia).
  cbn [obind fst snd]. rewrite skipn_skipn'.
  rewrite app_assoc.
  rewrite put_at by (rewrite ?len_app, ?opts_bytes_len; unfold len in *;
                     rewrite ?app_length, ?skipn_length, ?be_bytes_length, ?Hf in *; cbn [length]; lia).
  rewrite skipn_skipn'. rewrite skipn_all2 by (unfold len in *; lia).
  rewrite app_nil_r. rewrite <- !app_assoc. reflexivity.
Qed.

Lemma serialize_spec t payload fx csum ph junk :
  serialize t payload fx csum ph junk = ser_spec t payload fx csum ph.
Proof.
  unfold serialize, ser_spec. fold (ser_pad t fx). fold (ser_off t fx).
  set (pad := ser_pad t fx). set (off := ser_off t fx). cbv zeta.
  pose proof (opts_len_nonneg (t_opts t)) as Hol. pose proof (len_nonneg pad) as Hpad.
  set (buf0 := resize junk _).
  assert (Hlen : len buf0 = 20 + opts_len (t_opts t) + len pad).
  { unfold buf0, len. rewrite resize_length. unfold len in *. lia. }
  rewrite (hdr_chain t fx pad _ buf0 Hlen).
  assert (Hf : length (firstn 2 (skipn 16 buf0)) = 2%nat).
  { rewrite firstn_length, skipn_length. unfold len in Hlen. lia. }
  set (A := be_bytes 2 (t_sp t) ++ _ ++ _ ++ _ ++ _ ++ be_bytes 2 (t_win t)).
  assert (HA : length A = 16%nat) by (unfold A; rewrite !app_length, !be_bytes_length; reflexivity).
  set (B := be_bytes 2 (t_urg t) ++ _ ++ pad).
  assert (Hput : forall s v, length v = 2%nat ->
            put s (A ++ firstn 2 (skipn 16 buf0) ++ B) 16 v = Ok (A ++ v ++ B)).
  { intros s v Hv. rewrite put_at by (unfold len; rewrite ?app_length, ?Hf, ?HA, ?Hv; lia).
    rewrite skipn_app, Hv. rewrite skipn_all2 by lia. rewrite Hf. reflexivity. }
  assert (Hshape : forall ck, A ++ be_bytes 2 ck ++ B = ser_hdr t fx pad off ck).
  { intros ck. unfold A, B, ser_hdr. rewrite <- !app_assoc. reflexivity. }
  destruct csum.
  - rewrite Hput by reflexivity.
    destruct ph as [p|]; [|reflexivity].
    change [0; 0] with (be_bytes 2 0). rewrite Hshape.
    assert (Hput2 : forall s v, length v = 2%nat -> put s (A ++ be_bytes 2 0 ++ B) 16 v = Ok (A ++ v ++ B)).
    { intros s v Hv. rewrite put_at by (unfold len; rewrite ?app_length, ?be_bytes_length, ?HA, ?Hv; lia).
      rewrite skipn_app, Hv. rewrite skipn_all2 by (rewrite be_bytes_length; lia).
      rewrite be_bytes_length. reflexivity. }
    rewrite <- (Hshape 0). rewrite Hput2 by apply be_bytes_length. rewrite !Hshape. reflexivity.
  - rewrite Hput by apply be_bytes_length. rewrite Hshape. reflexivity.
Qed.

Lemma serialize_np t payload fx csum ph junk : np (fst (serialize t payload fx csum ph junk)).
Proof.
  rewrite serialize_spec. unfold ser_spec. cbv zeta.
  destruct csum; [destruct ph|]; exact I.
Qed.

Lemma serialize_junk_free t payload fx csum ph j1 j2 :
  serialize t payload fx csum ph j1 = serialize t payload fx csum ph j2.
Proof. rewrite !serialize_spec. reflexivity. Qed.

(* serializing the layer that SerializeTo left behind (FixLengths/ComputeChecksums mutate it)
   gives the same bytes and leaves it unchanged *)
Lemma serialize_again t payload fx csum ph j1 j2 :
  serialize (snd (serialize t payload fx csum ph j1)) payload fx csum ph j2 = serialize t payload fx csum ph j1.
Proof.
  rewrite !serialize_spec. unfold ser_spec. cbv zeta.
  assert (Hpad : forall ck, ser_pad (set_ser t (ser_pad t fx) (ser_off t fx) ck) fx = ser_pad t fx).
  { intros ck. unfold ser_pad. cbn [t_opts t_pad set_ser].
    destruct (fx && negb (opts_len (t_opts t) mod 4 =? 0)); reflexivity. }
  assert (Hoff : forall ck, ser_off (set_ser t (ser_pad t fx) (ser_off t fx) ck) fx = ser_off t fx).
  { intros ck. unfold ser_off at 1. rewrite Hpad. cbn [t_opts t_off set_ser]. unfold ser_off. destruct fx; reflexivity. }
  assert (Hhdr : forall ck ck', ser_hdr (set_ser t (ser_pad t fx) (ser_off t fx) ck) fx (ser_pad t fx) (ser_off t fx) ck'
                 = ser_hdr t fx (ser_pad t fx) (ser_off t fx) ck') by reflexivity.
  assert (Hset : forall ck ck', set_ser (set_ser t (ser_pad t fx) (ser_off t fx) ck) (ser_pad t fx) (ser_off t fx) ck'
                 = set_ser t (ser_pad t fx) (ser_off t fx) ck') by reflexivity.
  destruct csum; [destruct ph as [p|]|]; cbn [snd]; rewrite Hpad, Hoff, ?Hhdr, ?Hset; reflexivity.
Qed.
