(* Lemmas about the OSPF decoder model (Model/LospfModel.v): safety of every loop and LSA body, fuel. *)
From GP Require Import Base ListX Codec MiscLib MidLib LospfModel.
From Coq Require Import Lia ZifyBool ZifyNat.
Open Scope Z_scope.
Ltac Zify.zify_post_hook ::= Z.div_mod_to_equations.

Ltac rd := repeat first [rewrite cd_idx_ok by lia | rewrite cd_rd16_ok by lia | rewrite ml_rd32_ok by lia | rewrite cd_slc_ok by lia];
           cbn [obind].

Lemma os_hdr_ok v data i : 0 <= i -> i + 20 <= zlen data -> exists c, os_hdr v data i = Ok c.
Proof. intros. unfold os_hdr. destruct v; rd; eexists; reflexivity. Qed.

Lemma os_lsreq_ok data i : 0 <= i -> i + 12 <= zlen data -> exists c, os_lsreq data i = Ok c.
Proof. intros. unfold os_lsreq. rd. eexists; reflexivity. Qed.

Lemma os_steps_good data start step limit rdf : 0 <= start -> 0 < step -> limit <= zlen data ->
  (forall i, start <= i -> i + step <= limit -> exists c, rdf i = Ok c) ->
  md_good (os_steps data start step limit rdf).
Proof.
  intros H0 Hs Hl Hr. unfold os_steps.
  apply (md_loop_good _ (fun i => start <= i) (fun i => Z.max 0 (limit - i))); [intros; lia| |lia|unfold zlen in Hl; lia].
  intros i Hi. destruct (i + step <=? limit) eqn:C.
  - destruct (Hr i Hi ltac:(lia)) as [c Ec]. rewrite Ec. cbn [obind]. split; [apply md_good_ok|].
    intros a s' E. inversion E; subst. lia.
  - split; [apply md_good_ok|discriminate].
Qed.

Lemma os_body_steps_good data step rdf : 0 < step ->
  (forall j, 24 <= j -> j + step <= zlen data -> exists c, rdf j = Ok c) ->
  md_good (os_body_steps data step rdf).
Proof.
  intros Hs Hr. unfold os_body_steps.
  apply (md_loop_good _ (fun j => 24 <= j) (fun j => Z.max 0 (zlen data - j))); [intros; lia| |lia|unfold zlen; lia].
  intros j Hj. destruct (j <? zlen data) eqn:C; [|split; [apply md_good_ok|discriminate]].
  destruct (zlen data <? j + step) eqn:C2; [split; [apply md_good_err; lia|discriminate]|].
  destruct (Hr j Hj ltac:(lia)) as [c Ec]. rewrite Ec. cbn [obind]. split; [apply md_good_ok|].
  intros a s' E. inversion E; subst. lia.
Qed.

Lemma os_prefixes_good data num po0 intra : bytes_ok data -> 0 <= po0 -> md_good (os_prefixes data num po0 intra).
Proof.
  intros Hb H0. unfold os_prefixes. cbv zeta.
  apply (md_loop_good _ (fun st : Z * Z => 0 <= snd st) (fun st => Z.max 0 (zlen data - snd st))); [intros; lia| |cbn; lia|unfold zlen; cbn [snd]; lia].
  intros [j po] Hpo. cbn [snd] in Hpo.
  destruct (j <? num); [|split; [apply md_good_ok|discriminate]].
  destruct (zlen data <? po + 4) eqn:C1; [split; [apply md_good_err; lia|discriminate]|].
  destruct (md_idx_range data po Hb ltac:(lia)) as [pl [E1 R1]]. rewrite E1. cbn [obind].
  destruct (zlen data <? po + 4 + pl / 8) eqn:C2; [split; [apply md_good_err; lia|discriminate]|].
  rewrite cd_idx_ok by lia. cbn [obind].
  assert (Hm : exists me, (if intra then cd_rd16 data (po + 2) else Ok 0) = Ok me).
  { destruct intra; [rewrite cd_rd16_ok by lia|]; eexists; reflexivity. }
  destruct Hm as [me Em]. rewrite Em. cbn [obind]. rewrite cd_slc_ok by lia. cbn [obind].
  split; [apply md_good_ok|]. intros a s' E. inversion E; subst. cbn [snd]. destruct intra; lia.
Qed.

Lemma md_good_bind_ok {A B} (o : outcome A) (f : A -> outcome B) :
  md_good o -> (forall v, md_good (f v)) -> md_good (obind o f).
Proof. intros G H. apply md_good_bind; [exact G|intros; apply H]. Qed.

Lemma os_extract_good lstype lsalen data0 : bytes_ok data0 -> md_good (os_extract lstype lsalen data0).
Proof.
  intros Hb0. unfold os_extract.
  destruct (lsalen <? 20) eqn:C0; [apply md_good_err; lia|].
  destruct (zlen data0 <? lsalen) eqn:C1; [apply md_good_err; lia|].
  rewrite cd_slc_ok by lia. cbn [obind]. cbv zeta.
  set (data := slice data0 (Z.to_nat 0) (Z.to_nat lsalen)).
  assert (Hn : zlen data = lsalen) by (unfold data; rewrite md_zlen_slice by lia; lia).
  assert (Hb : bytes_ok data) by (apply bytes_ok_slice; exact Hb0).
  destruct (lstype =? 1).
  { apply md_good_bind_ok.
    - apply os_body_steps_good; [lia|]. intros j H1 H2. rd. eexists; reflexivity.
    - intros routers. destruct (zlen data <? 24) eqn:C; [apply md_good_err; lia|]. rd. apply md_good_ok. }
  destruct ((lstype =? 7) || (lstype =? 5)).
  { destruct (zlen data <? 36) eqn:C; [apply md_good_err; lia|]. rd. apply md_good_ok. }
  destruct (lstype =? 2).
  { apply md_good_bind_ok.
    - apply os_body_steps_good; [lia|]. intros j H1 H2. rd. eexists; reflexivity.
    - intros routers. destruct (zlen data <? 24) eqn:C; [apply md_good_err; lia|]. rd. apply md_good_ok. }
  destruct (lstype =? 8193).
  { apply md_good_bind_ok.
    - apply os_body_steps_good; [lia|]. intros j H1 H2. rd. eexists; reflexivity.
    - intros routers. destruct (zlen data <? 24) eqn:C; [apply md_good_err; lia|]. rd. apply md_good_ok. }
  destruct (lstype =? 8194).
  { apply md_good_bind_ok.
    - apply os_body_steps_good; [lia|]. intros j H1 H2. rd. eexists; reflexivity.
    - intros routers. destruct (zlen data <? 24) eqn:C; [apply md_good_err; lia|]. rd. apply md_good_ok. }
  destruct (lstype =? 8195).
  { destruct (zlen data <? 28) eqn:C; [apply md_good_err; lia|]. rd. apply md_good_ok. }
  destruct (lstype =? 8196).
  { destruct (zlen data <? 32) eqn:C; [apply md_good_err; lia|]. rd. apply md_good_ok. }
  destruct ((lstype =? 16389) || (lstype =? 8199)).
  { destruct (zlen data <? 28) eqn:C; [apply md_good_err; lia|].
    destruct (md_idx_range data 20 Hb ltac:(lia)) as [fl [E1 R1]]. rewrite E1. cbn [obind].
    destruct (md_idx_range data 24 Hb ltac:(lia)) as [b24 [E2 R2]]. rewrite E2. cbn [obind].
    destruct (zlen data <? 28 + b24 / 8) eqn:C2; [apply md_good_err; lia|].
    destruct ((fl / 2) mod 2 =? 1).
    - destruct (zlen data <? 28 + b24 / 8 + 16) eqn:C3; [cbn [obind]; apply md_good_err; lia|]. rd. apply md_good_ok.
    - rd. apply md_good_ok. }
  destruct (lstype =? 8).
  { destruct (zlen data <? 44) eqn:C; [apply md_good_err; lia|]. rewrite ml_rd32_ok by lia. cbn [obind].
    apply md_good_bind_ok; [apply os_prefixes_good; [exact Hb|lia]|]. intros prefixes. rd. apply md_good_ok. }
  destruct (lstype =? 8201).
  { destruct (zlen data <? 32) eqn:C; [apply md_good_err; lia|]. rewrite cd_rd16_ok by lia. cbn [obind].
    apply md_good_bind_ok; [apply os_prefixes_good; [exact Hb|lia]|]. intros prefixes. rd. apply md_good_ok. }
  apply md_good_err; lia.
Qed.

Lemma os_extract_len lstype lsalen data0 c : os_extract lstype lsalen data0 = Ok c -> 20 <= lsalen.
Proof. unfold os_extract. destruct (lsalen <? 20) eqn:C; [discriminate|lia]. Qed.

Lemma os_lsas_good v2 num data : bytes_ok data -> md_good (os_lsas v2 num data).
Proof.
  intros Hb. unfold os_lsas. cbv zeta.
  apply (md_loop_good _ (fun st : Z * Z => 0 <= snd st) (fun st => Z.max 0 (zlen data - snd st))); [intros; lia| |cbn; lia|unfold zlen; cbn [snd]; lia].
  intros [i off] Hoff. cbn [snd] in Hoff.
  destruct (i <? num); [|split; [apply md_good_ok|discriminate]].
  destruct (off + 20 >? zlen data) eqn:C1; [split; [apply md_good_err; lia|discriminate]|].
  assert (Ht : exists t, (if v2 then cd_idx data (off + 3) else cd_rd16 data (off + 2)) = Ok t).
  { destruct v2; [rewrite cd_idx_ok by lia|rewrite cd_rd16_ok by lia]; eexists; reflexivity. }
  destruct Ht as [t Et]. rewrite Et. cbn [obind].
  destruct (md_rd16_range data (off + 18) Hb ltac:(lia) ltac:(lia)) as [lsalen [E2 R2]]. rewrite E2. cbn [obind].
  rewrite cd_slc_ok by lia. cbn [obind].
  pose proof (os_extract_good t lsalen (slice data (Z.to_nat off) (Z.to_nat (zlen data))) (bytes_ok_slice _ _ _ Hb)) as [G1 G2].
  destruct (os_extract t lsalen _) as [c|e|s] eqn:Ex; [| |discriminate].
  - pose proof (os_extract_len _ _ _ _ Ex) as Hl.
    destruct (os_hdr_ok v2 data off Hoff ltac:(lia)) as [h Eh]. rewrite Eh. cbn [obind].
    split; [apply md_good_ok|]. intros a s' E. inversion E; subst. cbn [snd]. lia.
  - destruct (e =? 99) eqn:E9; [exfalso; apply G2; f_equal; lia|]. split; [apply md_good_err; lia|discriminate].
Qed.

Lemma os_finish_good l o tr : md_good o -> md_good (snd (fst (os_finish l o tr))).
Proof.
  intros [G1 G2]. destruct o as [c|e|s]; cbn; [apply md_good_ok|apply md_good_err; intros ->; apply G2; reflexivity|discriminate].
Qed.

Lemma rd32cn_ok data i : 0 <= i -> i + 4 <= zlen data -> exists c, obind (ml_rd32 data i) (fun r => Ok (CN r)) = Ok c.
Proof. intros. rd. eexists; reflexivity. Qed.

Lemma os2_decode_good rc old data : bytes_ok data -> md_good (snd (fst (os2_decode_gen rc old data))).
Proof.
  intros Hb. unfold os2_decode_gen. cbv zeta.
  destruct (zlen data <? 24) eqn:C0; [apply md_good_err; lia|].
  rewrite !cd_idx_ok by lia.
  destruct (md_rd16_range data 2 Hb ltac:(lia) ltac:(lia)) as [pl [E1 R1]]. rewrite E1.
  rewrite !ml_rd32_ok by lia. rewrite !cd_rd16_ok by lia. unfold os_rd64. rewrite !ml_rd32_ok by lia. cbn [obind].
  destruct (pl >? zlen data) eqn:C1; [apply md_good_err; lia|].
  set (ty := nth (Z.to_nat 1) data 0).
  destruct (((ty =? 1) && (zlen data <? 44)) || ((ty =? 2) && (zlen data <? 32)) || ((ty =? 4) && (zlen data <? 28))) eqn:C2; [apply md_good_err; lia|].
  destruct (ty =? 1) eqn:T1.
  { apply os_finish_good. apply md_good_bind_ok.
    - apply os_steps_good; try lia. intros i H1 H2. apply rd32cn_ok; lia.
    - intros nb. rd. apply md_good_ok. }
  destruct (ty =? 2) eqn:T2.
  { apply os_finish_good. apply md_good_bind_ok.
    - apply os_steps_good; try lia. intros i H1 H2. apply os_hdr_ok; lia.
    - intros lsas. rd. apply md_good_ok. }
  destruct (ty =? 3) eqn:T3.
  { apply os_finish_good. apply md_good_bind_ok.
    - apply os_steps_good; try lia. intros i H1 H2. apply os_lsreq_ok; lia.
    - intros rs. apply md_good_ok. }
  destruct (ty =? 4) eqn:T4.
  { apply os_finish_good. rd. apply md_good_bind_ok; [apply os_lsas_good; apply bytes_ok_slice; exact Hb|]. intros lsas. apply md_good_ok. }
  destruct (ty =? 5) eqn:T5.
  { apply os_finish_good. apply md_good_bind_ok.
    - apply os_steps_good; try lia. intros i H1 H2. apply os_hdr_ok; lia.
    - intros lsas. apply md_good_ok. }
  apply md_good_ok.
Qed.

Lemma os3_decode_good rc old data : bytes_ok data -> md_good (snd (fst (os3_decode_gen rc old data))).
Proof.
  intros Hb. unfold os3_decode_gen. cbv zeta.
  destruct (zlen data <? 16) eqn:C0; [apply md_good_err; lia|].
  rewrite !cd_idx_ok by lia.
  destruct (md_rd16_range data 2 Hb ltac:(lia) ltac:(lia)) as [pl [E1 R1]]. rewrite E1.
  rewrite !ml_rd32_ok by lia. rewrite !cd_rd16_ok by lia. cbn [obind].
  destruct (pl >? zlen data) eqn:C1; [apply md_good_err; lia|].
  set (ty := nth (Z.to_nat 1) data 0).
  destruct (((ty =? 1) && (zlen data <? 36)) || ((ty =? 2) && (zlen data <? 28)) || ((ty =? 4) && (zlen data <? 20))) eqn:C2; [apply md_good_err; lia|].
  destruct (ty =? 1) eqn:T1.
  { apply os_finish_good. apply md_good_bind_ok.
    - apply os_steps_good; try lia. intros i H1 H2. apply rd32cn_ok; lia.
    - intros nb. rd. apply md_good_ok. }
  destruct (ty =? 2) eqn:T2.
  { apply os_finish_good. apply md_good_bind_ok.
    - apply os_steps_good; try lia. intros i H1 H2. apply os_hdr_ok; lia.
    - intros lsas. rd. apply md_good_ok. }
  destruct (ty =? 3) eqn:T3.
  { apply os_finish_good. apply md_good_bind_ok.
    - apply os_steps_good; try lia. intros i H1 H2. apply os_lsreq_ok; lia.
    - intros rs. apply md_good_ok. }
  destruct (ty =? 4) eqn:T4.
  { apply os_finish_good. rd. apply md_good_bind_ok; [apply os_lsas_good; apply bytes_ok_slice; exact Hb|]. intros lsas. apply md_good_ok. }
  destruct (ty =? 5) eqn:T5.
  { apply os_finish_good. apply md_good_bind_ok.
    - apply os_steps_good; try lia. intros i H1 H2. apply os_hdr_ok; lia.
    - intros lsas. apply md_good_ok. }
  apply md_good_ok.
Qed.

(* -------- freshness: the repaired decoders read of the receiver only the fields they never write *)
Definition os2_keep (old : ospf) : ospf :=
  mkOs (os_contents old) (os_payload old) 0 0 0 0 0 0 0 0 (os_inst old) (os_rsv old) CNil.
Definition os3_keep (old : ospf) : ospf :=
  mkOs (os_contents old) (os_payload old) 0 0 0 0 0 0 (os_autype old) (os_auth old) 0 0 CNil.

Lemma os2_decode_fresh old data :
  let r1 := os2_decode_into old data in let r2 := os2_decode_into (os2_keep old) data in
  snd (fst r1) = snd (fst r2) /\ snd r1 = snd r2 /\ (snd (fst r1) = Ok tt -> fst (fst r1) = fst (fst r2)).
Proof.
  cbv zeta. unfold os2_decode_into, os2_decode_gen. cbv zeta.
  destruct (zlen data <? 24) eqn:C0; [repeat split; discriminate|].
  rewrite !cd_idx_ok by lia. rewrite !cd_rd16_ok by lia. rewrite !ml_rd32_ok by lia. unfold os_rd64. rewrite !ml_rd32_ok by lia. cbn [obind].
  repeat split; reflexivity.
Qed.

Lemma os3_decode_fresh old data :
  let r1 := os3_decode_into old data in let r2 := os3_decode_into (os3_keep old) data in
  snd (fst r1) = snd (fst r2) /\ snd r1 = snd r2 /\ (snd (fst r1) = Ok tt -> fst (fst r1) = fst (fst r2)).
Proof.
  cbv zeta. unfold os3_decode_into, os3_decode_gen. cbv zeta.
  destruct (zlen data <? 16) eqn:C0; [repeat split; discriminate|].
  rewrite !cd_idx_ok by lia. rewrite !cd_rd16_ok by lia. rewrite !ml_rd32_ok by lia. cbn [obind].
  repeat split; reflexivity.
Qed.
