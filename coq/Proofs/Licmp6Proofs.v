(* Licmp6 — lemmas about the ICMPv6/NDP model *)
From GP Require Import Base ListX N6Lib Licmp6Model.
From Coq Require Import Lia ZifyBool ZifyNat.
Open Scope Z_scope.
Ltac Zify.zify_post_hook ::= Z.div_mod_to_equations.

(* ---------------------------------------------------------------- small tools *)

Lemma nthZ_byte l i : bytes_ok l -> 0 <= i < n6_len l -> 0 <= nthZ l (Z.to_nat i) < 256.
Proof. intros H Hi. apply nthZ_ok; [exact H|]. unfold n6_len in Hi. lia. Qed.

Lemma skipn_len (l : list Z) n : 0 <= n <= n6_len l -> n6_len (skipn (Z.to_nat n) l) = n6_len l - n.
Proof. intros H. unfold n6_len in *. rewrite skipn_length. lia. Qed.

(* ---------------------------------------------------------------- the options loop *)

(* one iteration, with every checked access resolved: on byte strings no check can fail *)
Lemma opts_loop_step f acc data : bytes_ok data ->
  opts_loop (S f) acc data =
    if n6_len data =? 0 then (acc, Ok tt, false)
    else if n6_len data <? 2 then (acc, Err 1, true)
    else let l8 := nthZ data 1 in
      if l8 =? 0 then (acc, Err 2, true)
      else if n6_len data <? l8 * 8 then (acc, Err 3, true)
      else opts_loop f (acc ++ [mkOpt (nthZ data 0) (slice data 2 (Z.to_nat (l8 * 8)))])
                     (skipn (Z.to_nat (l8 * 8)) data).
Proof.
  intros Hb. cbn [opts_loop]. pose proof (n6_len_nonneg data) as Hn.
  destruct (n6_len data =? 0) eqn:E0.
  { replace (0 <? n6_len data) with false by lia. reflexivity. }
  replace (0 <? n6_len data) with true by lia. cbn [negb].
  destruct (n6_len data <? 2) eqn:E2; [reflexivity|].
  rewrite (n6_idx_eq data 1) by lia. change (Z.to_nat 1) with 1%nat.
  pose proof (nthZ_byte data 1 Hb ltac:(lia)) as Hl8. change (Z.to_nat 1) with 1%nat in Hl8.
  cbv zeta. set (l8 := nthZ data 1) in *.
  replace (l8 * 8 =? 0) with (l8 =? 0) by lia.
  destruct (l8 =? 0) eqn:E8; [reflexivity|].
  destruct (n6_len data <? l8 * 8) eqn:EL; [reflexivity|].
  rewrite (n6_idx_eq data 0) by lia. rewrite (n6_slice_eq data 2 (l8 * 8)) by lia.
  rewrite (n6_from_eq data (l8 * 8)) by lia. reflexivity.
Qed.

Lemma opts_loop_no_panic f acc data : bytes_ok data -> (length data < f)%nat ->
  is_panic (snd (fst (opts_loop f acc data))) = false.
Proof.
  revert acc data. induction f as [|f IH]; intros acc data Hb Hf; [lia|].
  rewrite opts_loop_step by exact Hb.
  destruct (n6_len data =? 0); [reflexivity|]. destruct (n6_len data <? 2) eqn:E2; [reflexivity|].
  cbv zeta. pose proof (nthZ_byte data 1 Hb ltac:(lia)) as Hl8. change (Z.to_nat 1) with 1%nat in Hl8.
  destruct (nthZ data 1 =? 0) eqn:E8; [reflexivity|].
  destruct (n6_len data <? nthZ data 1 * 8) eqn:EL; [reflexivity|].
  apply IH; [apply bytes_ok_skipn, Hb|]. rewrite skipn_length. unfold n6_len in *. lia.
Qed.

(* the truncated flag is raised exactly on the error returns, never on success *)
Lemma opts_loop_flag f acc data : bytes_ok data ->
  let '(_, r, t) := opts_loop f acc data in r = Ok tt -> t = false.
Proof.
  revert acc data. induction f as [|f IH]; intros acc data Hb; [cbn; discriminate|].
  rewrite opts_loop_step by exact Hb.
  destruct (n6_len data =? 0); [reflexivity|]. destruct (n6_len data <? 2); [discriminate|].
  cbv zeta. destruct (nthZ data 1 =? 0); [discriminate|].
  destruct (n6_len data <? nthZ data 1 * 8); [discriminate|].
  apply IH, bytes_ok_skipn, Hb.
Qed.

(* the options found do not depend on what was in the list before, which is only a prefix *)
Lemma opts_loop_acc f acc data : bytes_ok data ->
  opts_loop f acc data =
    let '(os, r, t) := opts_loop f [] data in (acc ++ os, r, t).
Proof.
  revert acc data. induction f as [|f IH]; intros acc data Hb.
  { cbn. rewrite app_nil_r. reflexivity. }
  rewrite !opts_loop_step by exact Hb.
  destruct (n6_len data =? 0); [rewrite app_nil_r; reflexivity|].
  destruct (n6_len data <? 2); [rewrite app_nil_r; reflexivity|].
  cbv zeta. destruct (nthZ data 1 =? 0); [rewrite app_nil_r; reflexivity|].
  destruct (n6_len data <? nthZ data 1 * 8); [rewrite app_nil_r; reflexivity|].
  rewrite IH by (apply bytes_ok_skipn, Hb). cbn [app].
  rewrite (IH [_]) by (apply bytes_ok_skipn, Hb).
  destruct (opts_loop f [] _) as [[os r] t]. rewrite <- app_assoc. reflexivity.
Qed.

(* ---------------------------------------------------------------- C19: decoding never panics *)

Lemma icmp6_decode_no_panic old data :
  is_panic (snd (fst (icmp6_decode_into old data))) = false.
Proof.
  unfold icmp6_decode_into. destruct (n6_len data <? 4) eqn:E; [reflexivity|].
  rewrite (n6_idx_eq data 0), (n6_idx_eq data 1), (n6_slice_eq data 2 4), (n6_slice_eq data 0 4),
    (n6_from_eq data 4) by lia. reflexivity.
Qed.

Lemma ndp_set_fields_some k old data : hdr_len k <= n6_len data ->
  exists l, ndp_set_fields k old data = Some l /\ n_opts l = n_opts old /\
    (k = KRS \/ k = KOPT -> l = old) /\
    (k <> KRS -> k <> KOPT -> n_contents l = data /\ n_payload l = []).
Proof.
  intros H. destruct k; cbn [hdr_len ndp_set_fields] in *.
  - eexists; repeat split; try reflexivity; intros; congruence.
  - rewrite (n6_idx_eq data 0), (n6_idx_eq data 1), (n6_slice_eq data 2 4), (n6_slice_eq data 4 8),
      (n6_slice_eq data 8 12) by lia.
    eexists; repeat split; try reflexivity; intros [?|?]; discriminate.
  - rewrite (n6_slice_eq data 4 20) by lia. eexists; repeat split; try reflexivity; intros [?|?]; discriminate.
  - rewrite (n6_idx_eq data 0), (n6_slice_eq data 4 20) by lia.
    eexists; repeat split; try reflexivity; intros [?|?]; discriminate.
  - rewrite (n6_slice_eq data 4 20), (n6_slice_eq data 20 36) by lia.
    eexists; repeat split; try reflexivity; intros [?|?]; discriminate.
  - eexists; repeat split; try reflexivity; intros; congruence.
Qed.

Lemma hdr_len_nonneg k : 0 <= hdr_len k.
Proof. destruct k; cbn; lia. Qed.

Lemma ndp_decode_no_panic orig k old data : bytes_ok data ->
  is_panic (snd (fst (ndp_decode_gen orig k old data))) = false.
Proof.
  intros Hb. unfold ndp_decode_gen. pose proof (hdr_len_nonneg k) as Hk.
  destruct (n6_len data <? hdr_len k) eqn:E; [reflexivity|].
  destruct (ndp_set_fields_some k old data ltac:(lia)) as (l & -> & _).
  rewrite (n6_from_eq data (hdr_len k)) by lia.
  set (rest := skipn _ data). set (start := match k with KOPT => _ | _ => _ end).
  assert (Hr : bytes_ok rest) by (apply bytes_ok_skipn, Hb).
  pose proof (opts_loop_no_panic (opts_fuel rest) start rest Hr ltac:(unfold opts_fuel; lia)) as P.
  destruct (opts_loop (opts_fuel rest) start rest) as [[os r] t]. exact P.
Qed.

(* ---------------------------------------------------------------- C05: no stale state *)

Lemma icmp6_decode_fresh old data :
  let '(l1, r1, t1) := icmp6_decode_into old data in
  let '(l2, r2, t2) := icmp6_decode_into icmp6_fresh data in
  r1 = r2 /\ t1 = t2 /\ (r1 = Ok tt -> l1 = l2).
Proof.
  unfold icmp6_decode_into. destruct (n6_len data <? 4) eqn:E.
  - repeat split. discriminate.
  - rewrite (n6_idx_eq data 0), (n6_idx_eq data 1), (n6_slice_eq data 2 4), (n6_slice_eq data 0 4),
      (n6_from_eq data 4) by lia. repeat split.
Qed.

(* RS (and ICMPv6Options used directly) never assign BaseLayer: it stays what it was *)
Definition ndp_base_inv (k : kind) (l : ndp) : Prop :=
  (k = KRS \/ k = KOPT) -> n_contents l = [] /\ n_payload l = [].

Definition ndp_reach (k : kind) (l : ndp) : Prop :=
  exists ds, l = fold_left (fun s d => fst (fst (ndp_decode_into k s d))) ds ndp_fresh.

Lemma ndp_decode_base_inv orig k old data : ndp_base_inv k old ->
  ndp_base_inv k (fst (fst (ndp_decode_gen orig k old data))).
Proof.
  intros Hi. unfold ndp_decode_gen. pose proof (hdr_len_nonneg k) as Hk.
  destruct (n6_len data <? hdr_len k) eqn:E; [exact Hi|].
  destruct (ndp_set_fields_some k old data ltac:(lia)) as (l & -> & _ & Hsame & _).
  rewrite (n6_from_eq data (hdr_len k)) by lia.
  destruct (opts_loop _ _ _) as [[os r] t]. cbn [fst].
  intros Hk2. rewrite (Hsame Hk2). exact (Hi Hk2).
Qed.

Lemma ndp_reach_base_inv k l : ndp_reach k l -> ndp_base_inv k l.
Proof.
  intros [ds ->]. assert (G : forall s, ndp_base_inv k s ->
    ndp_base_inv k (fold_left (fun s d => fst (fst (ndp_decode_into k s d))) ds s)).
  { induction ds as [|d ds IH]; intros s Hs; [exact Hs|]. cbn [fold_left]. apply IH.
    apply ndp_decode_base_inv, Hs. }
  apply G. intros _. split; reflexivity.
Qed.

Lemma ndp_decode_fresh k old data : ndp_base_inv k old ->
  let '(l1, r1, t1) := ndp_decode_into k old data in
  let '(l2, r2, t2) := ndp_decode_into k ndp_fresh data in
  r1 = r2 /\ t1 = t2 /\ (hdr_len k <= n6_len data -> ndp_view k l1 = ndp_view k l2).
Proof.
  intros Hi. unfold ndp_decode_into, ndp_decode_gen.
  destruct (n6_len data <? hdr_len k) eqn:E.
  { repeat split. lia. }
  destruct k; cbn [hdr_len ndp_set_fields] in *.
  - destruct (Hi (or_introl eq_refl)) as [Hc Hp].
    rewrite (n6_from_eq data 4) by lia. destruct (opts_loop _ _ _) as [[os r] t].
    repeat split. intros _. unfold ndp_view. cbn. rewrite Hc, Hp. reflexivity.
  - rewrite (n6_idx_eq data 0), (n6_idx_eq data 1), (n6_slice_eq data 2 4), (n6_slice_eq data 4 8),
      (n6_slice_eq data 8 12), (n6_from_eq data 12) by lia.
    destruct (opts_loop _ _ _) as [[os r] t]. repeat split.
  - rewrite (n6_slice_eq data 4 20), (n6_from_eq data 20) by lia.
    destruct (opts_loop _ _ _) as [[os r] t]. repeat split.
  - rewrite (n6_idx_eq data 0), (n6_slice_eq data 4 20), (n6_from_eq data 20) by lia.
    destruct (opts_loop _ _ _) as [[os r] t]. repeat split.
  - rewrite (n6_slice_eq data 4 20), (n6_slice_eq data 20 36), (n6_from_eq data 36) by lia.
    destruct (opts_loop _ _ _) as [[os r] t]. repeat split.
  - destruct (Hi (or_intror eq_refl)) as [Hc Hp].
    rewrite (n6_from_eq data 0) by (pose proof (n6_len_nonneg data); lia).
    destruct (opts_loop _ _ _) as [[os r] t].
    repeat split. intros _. unfold ndp_view. cbn. rewrite Hc, Hp. reflexivity.
Qed.

(* a successful decode implies the length check passed *)
Lemma ndp_decode_ok_len k old data :
  snd (fst (ndp_decode_into k old data)) = Ok tt -> hdr_len k <= n6_len data.
Proof.
  unfold ndp_decode_into, ndp_decode_gen. destruct (n6_len data <? hdr_len k) eqn:E; [discriminate|lia].
Qed.

(* ---------------------------------------------------------------- C07: serialization *)

Lemma opt_write_closed o region : length region = (length (o_data o) + 2)%nat ->
  opt_write o region = opt_enc o.
Proof.
  intros H. unfold opt_write, opt_enc. destruct region as [|a [|b r]]; cbn [length] in H; try lia.
  unfold n6_put. cbn [firstn skipn length app Nat.sub Nat.add]. rewrite firstn_nil. cbn [app].
  replace (length r - 0)%nat with (length (o_data o)) by lia.
  rewrite firstn_all. replace (length (o_data o)) with (length r) by lia. rewrite skipn_all.
  rewrite app_nil_r. reflexivity.
Qed.

Lemma opts_prepend_closed os buf junk :
  fst (opts_prepend os buf junk) = concat (map opt_enc (rev os)) ++ buf.
Proof.
  revert buf junk. induction os as [|o t IH]; intros buf junk; [reflexivity|].
  cbn [opts_prepend]. pose proof (n6_take_length (length (o_data o) + 2) junk) as HL.
  destruct (n6_take (length (o_data o) + 2) junk) as [region junk'] eqn:ET. cbn [fst] in HL.
  rewrite IH, opt_write_closed by exact HL.
  cbn [rev]. rewrite map_app, concat_app. cbn [map concat]. rewrite app_nil_r, <- app_assoc. reflexivity.
Qed.

Lemma opts_serialize_closed os buf junk :
  fst (opts_serialize os buf junk) = concat (map opt_enc os) ++ buf.
Proof. unfold opts_serialize. rewrite opts_prepend_closed, rev_involutive. reflexivity. Qed.

(* the fixed part of each message as a function of the layer alone *)
Definition ndp_hdr_bytes (k : kind) (l : ndp) : list Z :=
  match k with
  | KOPT => []
  | KRS => [0; 0; 0; 0]
  | KRA => [u8 (n_hop l); u8 (n_flags l)] ++ be_bytes 2 (n_life l) ++ be_bytes 4 (n_reach l) ++ be_bytes 4 (n_retrans l)
  | KNS => n6_put (repeat 0 20) 4 (n_target l)
  | KNA => n6_put (u8 (n_flags l) :: repeat 0 19) 4 (n_target l)
  | KRD => n6_put (n6_put (repeat 0 36) 4 (n_target l)) 20 (n_dest l)
  end.

Lemma ndp_header_closed k l region : length region = Z.to_nat (hdr_len k) ->
  ndp_header true k l region = ndp_hdr_bytes k l.
Proof.
  intros H. destruct k; cbn [hdr_len ndp_header ndp_hdr_bytes negb] in *.
  - apply n6_put_full. rewrite H. reflexivity.
  - apply n6_put_full. rewrite H, !app_length, !be_bytes_length. reflexivity.
  - rewrite n6_put_full by (rewrite H; reflexivity). reflexivity.
  - f_equal. do 20 (destruct region as [|? region]; [discriminate H|]). destruct region; [|discriminate H].
    reflexivity.
  - rewrite n6_put_full by (rewrite H; reflexivity). reflexivity.
  - destruct region; [reflexivity|discriminate H].
Qed.

Lemma ndp_serialize_closed k l payload fx cs junk :
  ndp_serialize k l payload fx cs junk =
    (Ok (ndp_hdr_bytes k l ++ concat (map opt_enc (n_opts l)) ++ payload), l).
Proof.
  unfold ndp_serialize, ndp_serialize_gen. cbn [negb].
  pose proof (opts_serialize_closed (n_opts l) payload junk) as HO.
  destruct (opts_serialize (n_opts l) payload junk) as [buf junk1]. cbn [fst] in HO. subst buf.
  rewrite ndp_header_closed by apply n6_take_length. reflexivity.
Qed.

Lemma icmp6_header_closed region tc ck : length region = 4%nat ->
  n6_put (n6_put (n6_put region 0 (be_bytes 2 tc)) 2 [0; 0]) 2 (be_bytes 2 ck) = be_bytes 2 tc ++ be_bytes 2 ck.
Proof.
  intros H. do 4 (destruct region as [|? region]; [discriminate H|]). destruct region; [|discriminate H].
  reflexivity.
Qed.

Lemma icmp6_header_closed0 region tc : length region = 4%nat ->
  n6_put (n6_put region 0 (be_bytes 2 tc)) 2 [0; 0] = be_bytes 2 tc ++ [0; 0].
Proof.
  intros H. do 4 (destruct region as [|? region]; [discriminate H|]). destruct region; [|discriminate H].
  reflexivity.
Qed.

Lemma icmp6_header_closed1 region tc ck : length region = 4%nat ->
  n6_put (n6_put region 0 (be_bytes 2 tc)) 2 (be_bytes 2 ck) = be_bytes 2 tc ++ be_bytes 2 ck.
Proof.
  intros H. do 4 (destruct region as [|? region]; [discriminate H|]). destruct region; [|discriminate H].
  reflexivity.
Qed.

(* SerializeTo of the header as a function of type/code, checksum field, payload, pseudo-header *)
Definition icmp6_wire (l : icmp6) (payload : list Z) (csum : bool) (ph : pseudo) : outcome (list Z) * icmp6 :=
  if csum then
    match compute_checksum ph (be_bytes 2 (i_tc l) ++ [0; 0] ++ payload) IPProtocolICMPv6 with
    | Ok c => (Ok (be_bytes 2 (i_tc l) ++ be_bytes 2 (n6_fold c) ++ payload),
               mkIcmp6 (i_tc l) (n6_fold c) (i_contents l) (i_payload l))
    | Err e => (Err e, l)
    | Panic s => (Panic s, l)
    end
  else (Ok (be_bytes 2 (i_tc l) ++ be_bytes 2 (i_csum l) ++ payload), l).

Lemma icmp6_serialize_closed l payload fx cs ph junk :
  icmp6_serialize l payload fx cs ph junk = icmp6_wire l payload cs ph.
Proof.
  unfold icmp6_serialize, icmp6_wire. pose proof (n6_take_length 4 junk) as HL.
  set (region := fst (n6_take 4 junk)) in *. destruct cs.
  - rewrite icmp6_header_closed0 by exact HL. rewrite <- !app_assoc.
    destruct (compute_checksum _ _ _); reflexivity.
  - rewrite icmp6_header_closed1 by exact HL. rewrite <- app_assoc. reflexivity.
Qed.

Lemma pseudo_sum_no_panic ph : is_panic (pseudo_sum ph) = false.
Proof. destruct ph; cbn; [reflexivity|]. destruct (negb _); [reflexivity|]. destruct (negb _); reflexivity. Qed.

Lemma icmp6_serialize_no_panic l payload fx cs ph junk :
  is_panic (fst (icmp6_serialize l payload fx cs ph junk)) = false.
Proof.
  rewrite icmp6_serialize_closed. unfold icmp6_wire. destruct cs; [|reflexivity].
  unfold compute_checksum. pose proof (pseudo_sum_no_panic ph) as P.
  destruct (pseudo_sum ph); cbn in *; try reflexivity. discriminate.
Qed.

(* ---------------------------------------------------------------- C01: renderers *)

Lemma tc_string_total tc : tc_string_panics tc = false.
Proof.
  unfold tc_string_panics. destruct (tc_known _); [|reflexivity]. cbn [negb].
  destruct (tc_codestr_nil _); [|reflexivity]. cbn [andb]. destruct (tc mod 256 =? 0); reflexivity.
Qed.

Lemma rdnss_ips_ok n j dlen : 6 + (j + Z.of_nat n) * 16 <= dlen -> rdnss_ips_panic n j dlen = false.
Proof.
  revert j. induction n as [|n IH]; intros j H; [reflexivity|]. cbn [rdnss_ips_panic].
  rewrite IH by lia. replace (6 + (j + 1) * 16 <=? dlen) with true by lia. reflexivity.
Qed.

Lemma opt_string_total o : opt_string_panics o = false.
Proof.
  unfold opt_string_panics, opt_string_panics_gen. pose proof (n6_len_nonneg (o_data o)) as Hn.
  set (dlen := n6_len (o_data o)) in *.
  destruct ((o_type o =? 1) || (o_type o =? 2)); [reflexivity|].
  destruct (o_type o =? 3). { destruct (dlen =? 30) eqn:E; [|reflexivity]. lia. }
  destruct (o_type o =? 4); [reflexivity|].
  destruct (o_type o =? 5). { destruct (dlen =? 6) eqn:E; [|reflexivity]. lia. }
  destruct (o_type o =? 25); [|reflexivity]. cbn [andb].
  destruct (dlen <? 6) eqn:E6; [reflexivity|].
  rewrite Z.quot_div_nonneg by lia.
  replace (6 <=? dlen) with true by lia. replace ((dlen - 6) / 16 <? 0) with false by lia. cbn [negb orb].
  apply rdnss_ips_ok. rewrite Z2Nat.id by lia. lia.
Qed.

Lemma ndp_render_total l : ndp_render_panics l = false.
Proof.
  unfold ndp_render_panics, ndp_render_panics_gen. replace (existsb _ (n_opts l)) with false; [apply andb_false_r|].
  symmetry. induction (n_opts l) as [|o t IH]; [reflexivity|]. cbn [existsb].
  rewrite IH. change (opt_string_panics_gen true o) with (opt_string_panics o). rewrite opt_string_total. reflexivity.
Qed.

(* the unchanged String(): total on every state decoding can leave behind, because a decoded
   option carries 8k-2 >= 6 data bytes *)
Definition opts_wf (os : list opt) : Prop := Forall (fun o => 6 <= n6_len (o_data o)) os.

Lemma opt_string_orig_wf o : 6 <= n6_len (o_data o) -> opt_string_panics_orig o = false.
Proof.
  intros H6. unfold opt_string_panics_orig, opt_string_panics_gen.
  set (dlen := n6_len (o_data o)) in *.
  destruct ((o_type o =? 1) || (o_type o =? 2)); [reflexivity|].
  destruct (o_type o =? 3). { destruct (dlen =? 30) eqn:E; [|reflexivity]. lia. }
  destruct (o_type o =? 4); [reflexivity|].
  destruct (o_type o =? 5). { destruct (dlen =? 6) eqn:E; [|reflexivity]. lia. }
  destruct (o_type o =? 25); [|reflexivity]. cbn [andb].
  rewrite Z.quot_div_nonneg by lia.
  replace (6 <=? dlen) with true by lia. replace ((dlen - 6) / 16 <? 0) with false by lia. cbn [negb orb].
  apply rdnss_ips_ok. rewrite Z2Nat.id by lia. lia.
Qed.

Lemma opts_loop_wf f acc data : bytes_ok data -> opts_wf acc -> opts_wf (fst (fst (opts_loop f acc data))).
Proof.
  revert acc data. induction f as [|f IH]; intros acc data Hb Hw; [exact Hw|].
  rewrite opts_loop_step by exact Hb.
  destruct (n6_len data =? 0); [exact Hw|]. destruct (n6_len data <? 2) eqn:E2; [exact Hw|].
  cbv zeta. pose proof (nthZ_byte data 1 Hb ltac:(lia)) as Hl8. change (Z.to_nat 1) with 1%nat in Hl8.
  destruct (nthZ data 1 =? 0) eqn:E8; [exact Hw|].
  destruct (n6_len data <? nthZ data 1 * 8) eqn:EL; [exact Hw|].
  apply IH; [apply bytes_ok_skipn, Hb|]. apply Forall_app; split; [exact Hw|].
  constructor; [|constructor]. cbn [o_data]. unfold n6_len in *. rewrite slice_length by lia. lia.
Qed.

Lemma ndp_decode_wf orig k old data : bytes_ok data -> opts_wf (n_opts old) ->
  opts_wf (n_opts (fst (fst (ndp_decode_gen orig k old data)))).
Proof.
  intros Hb Hw. unfold ndp_decode_gen. pose proof (hdr_len_nonneg k) as Hk.
  destruct (n6_len data <? hdr_len k) eqn:E; [exact Hw|].
  destruct (ndp_set_fields_some k old data ltac:(lia)) as (l & -> & _).
  rewrite (n6_from_eq data (hdr_len k)) by lia.
  set (rest := skipn _ data). set (start := match k with KOPT => _ | _ => _ end).
  assert (Hs : opts_wf start). { subst start. destruct k; try constructor. destruct orig; [exact Hw|constructor]. }
  pose proof (opts_loop_wf (opts_fuel rest) start rest ltac:(apply bytes_ok_skipn, Hb) Hs) as P.
  destruct (opts_loop _ start rest) as [[os r] t]. exact P.
Qed.

Lemma ndp_render_orig_wf l : opts_wf (n_opts l) -> ndp_render_panics_orig l = false.
Proof.
  intros Hw. unfold ndp_render_panics_orig, ndp_render_panics_gen.
  replace (existsb _ (n_opts l)) with false; [apply andb_false_r|].
  symmetry. induction Hw as [|o t Ho Ht IH]; [reflexivity|]. cbn [existsb].
  rewrite IH. change (opt_string_panics_gen false o) with (opt_string_panics_orig o).
  rewrite opt_string_orig_wf by exact Ho. reflexivity.
Qed.

(* ---------------------------------------------------------------- C06: round trip *)

Lemma opt_okb_spec o : opt_okb o = true ->
  bytes_ok (o_data o) /\ 0 <= o_type o < 256 /\ (n6_len (o_data o) + 2) mod 8 = 0 /\
  8 <= n6_len (o_data o) + 2 <= 2040.
Proof.
  unfold opt_okb. intros H. pose proof (n6_len_nonneg (o_data o)).
  apply andb_prop in H as [H H4]. apply andb_prop in H as [H H3]. apply andb_prop in H as [H1 H2].
  apply bytes_okb_ok in H1. unfold byte_okb in H2. repeat split; try assumption; lia.
Qed.

Lemma opt_enc_ok o : opt_okb o = true -> bytes_ok (opt_enc o).
Proof.
  intros H. apply opt_okb_spec in H as (Hb & Ht & Hm & Hl). unfold opt_enc.
  constructor; [unfold byte_ok, u8; lia|]. constructor; [unfold byte_ok, u8; lia|]. exact Hb.
Qed.

Lemma opts_enc_ok os : forallb opt_okb os = true -> bytes_ok (concat (map opt_enc os)).
Proof.
  induction os as [|o t IH]; intros H; [constructor|]. cbn [forallb] in H. apply andb_prop in H as [Ho Ht].
  cbn [map concat]. apply bytes_ok_app; [apply opt_enc_ok, Ho|apply IH, Ht].
Qed.

Lemma opts_loop_enc os : forall f acc, (length os < f)%nat -> forallb opt_okb os = true ->
  opts_loop f acc (concat (map opt_enc os)) = (acc ++ os, Ok tt, false).
Proof.
  induction os as [|o t IH]; intros f acc Hf Hok.
  - destruct f; [lia|]. cbn. rewrite app_nil_r. reflexivity.
  - destruct f as [|f]; [cbn in Hf; lia|]. cbn [length] in Hf.
    rewrite opts_loop_step by (apply opts_enc_ok, Hok).
    cbn [forallb] in Hok. apply andb_prop in Hok as [Ho Ht].
    pose proof (opt_okb_spec o Ho) as (Hb & Hty & Hm & Hl).
    cbn [map concat]. set (rest := concat (map opt_enc t)).
    destruct o as [ty d]. cbn [o_type o_data] in *. unfold opt_enc. cbn [o_type o_data app].
    pose proof (n6_len_nonneg rest) as Hr.
    assert (HL : n6_len (u8 ty :: u8 ((n6_len d + 2) / 8) :: d ++ rest) = n6_len d + 2 + n6_len rest).
    { unfold n6_len. cbn [length]. rewrite app_length. lia. }
    rewrite HL. change (nthZ (u8 ty :: u8 ((n6_len d + 2) / 8) :: d ++ rest) 1) with (u8 ((n6_len d + 2) / 8)).
    change (nthZ (u8 ty :: u8 ((n6_len d + 2) / 8) :: d ++ rest) 0) with (u8 ty).
    cbv zeta. assert (H8 : u8 ((n6_len d + 2) / 8) * 8 = n6_len d + 2) by (unfold u8; lia).
    rewrite H8. replace (u8 ((n6_len d + 2) / 8) =? 0) with false by (unfold u8; lia).
    replace (n6_len d + 2 + n6_len rest =? 0) with false by lia.
    replace (n6_len d + 2 + n6_len rest <? 2) with false by lia.
    replace (n6_len d + 2 + n6_len rest <? n6_len d + 2) with false by lia.
    replace (Z.to_nat (n6_len d + 2)) with (S (S (length d))) by (unfold n6_len; lia).
    unfold slice. cbn [firstn skipn]. rewrite firstn_app, Nat.sub_diag, firstn_all. cbn [firstn]. rewrite app_nil_r.
    rewrite skipn_app, skipn_all, Nat.sub_diag. cbn [skipn app].
    replace (u8 ty) with ty by (unfold u8; lia).
    rewrite IH by (try lia; exact Ht). rewrite <- app_assoc. reflexivity.
Qed.

Definition ndp_ok k l := ndp_okb k l = true.

(* explicit lists of a known length *)
Tactic Notation "explicit" ident(l) integer(n) hyp(H) :=
  do n (destruct l as [|? l]; [discriminate H|]); destruct l; [|discriminate H].

Lemma len16 (l : list Z) : n6_len l = 16 -> length l = 16%nat.
Proof. unfold n6_len. lia. Qed.

Lemma be_val_2 x : 0 <= x < 65536 -> be_val (be_bytes 2 x) = x.
Proof. intros H. rewrite be_val_be_bytes. change (256 ^ Z.of_nat 2) with 65536. lia. Qed.
Lemma be_val_4 x : 0 <= x < 4294967296 -> be_val (be_bytes 4 x) = x.
Proof. intros H. rewrite be_val_be_bytes. change (256 ^ Z.of_nat 4) with 4294967296. lia. Qed.

(* the decoder applied to the serializer's output, NDP messages (no payload) *)
Lemma ndp_roundtrip_ok k l junk : ndp_ok k l ->
  exists bytes l2,
    ndp_roundtrip k l [] junk = (Ok bytes, (l2, Ok tt, false)) /\
    bytes = ndp_hdr_bytes k l ++ concat (map opt_enc (n_opts l)) /\
    ndp_fview k l2 = ndp_fview k l /\ n_payload l2 = [] /\
    (k <> KRS -> k <> KOPT -> n_contents l2 = bytes).
Proof.
  intros Hok. unfold ndp_roundtrip. rewrite ndp_serialize_closed, app_nil_r.
  unfold ndp_ok, ndp_okb in Hok. apply andb_prop in Hok as [Hopts Hk].
  set (OB := concat (map opt_enc (n_opts l))).
  assert (HOB : forall acc, opts_loop (opts_fuel OB) acc OB = (acc ++ n_opts l, Ok tt, false)).
  { intros acc. apply opts_loop_enc; [|exact Hopts]. unfold opts_fuel, OB.
    clear Hk. induction (n_opts l) as [|o t IH]; [cbn; lia|].
    cbn [forallb] in Hopts. apply andb_prop in Hopts as [Ho Ht]. specialize (IH Ht).
    cbn [map concat length]. rewrite app_length. cbv zeta in IH.
    change (length (opt_enc o)) with (S (S (length (o_data o)))). lia. }
  pose proof (n6_len_nonneg OB) as HOBn.
  unfold ndp_decode_into, ndp_decode_gen.
  destruct k; cbn [hdr_len ndp_hdr_bytes ndp_set_fields].
  - (* RS *)
    cbn [app]. set (data := _ :: _ :: _ :: _ :: OB).
    assert (HL : n6_len data = 4 + n6_len OB) by (unfold data; rewrite !n6_len_cons; lia).
    replace (n6_len data <? 4) with false by lia.
    rewrite (n6_from_eq data 4) by lia.
    change (skipn (Z.to_nat 4) data) with OB. rewrite HOB.
    eexists; eexists; split; [reflexivity|]. repeat split; try reflexivity; intros; congruence.
  - (* RA *)
    repeat (apply andb_prop in Hk as [Hk ?]). unfold byte_okb in *.
    remember (be_bytes 2 (n_life l)) as b2 eqn:E2. remember (be_bytes 4 (n_reach l)) as b4 eqn:E4.
    remember (be_bytes 4 (n_retrans l)) as b5 eqn:E5.
    assert (L2 : length b2 = 2%nat) by (subst; apply be_bytes_length).
    assert (L4 : length b4 = 4%nat) by (subst; apply be_bytes_length).
    assert (L5 : length b5 = 4%nat) by (subst; apply be_bytes_length).
    assert (V2 : be_val b2 = n_life l) by (subst; apply be_val_2; lia).
    assert (V4 : be_val b4 = n_reach l) by (subst; apply be_val_4; lia).
    assert (V5 : be_val b5 = n_retrans l) by (subst; apply be_val_4; lia).
    clear E2 E4 E5. explicit b2 2 L2. explicit b4 4 L4. explicit b5 4 L5.
    cbn [app]. set (data := _ :: _ :: _ :: _ :: _ :: _ :: _ :: _ :: _ :: _ :: _ :: _ :: OB).
    assert (HL : n6_len data = 12 + n6_len OB) by (unfold data; rewrite !n6_len_cons; lia).
    replace (n6_len data <? 12) with false by lia.
    rewrite (n6_idx_eq data 0), (n6_idx_eq data 1), (n6_slice_eq data 2 4), (n6_slice_eq data 4 8),
      (n6_slice_eq data 8 12), (n6_from_eq data 12) by lia.
    change (skipn (Z.to_nat 12) data) with OB. rewrite HOB.
    eexists; eexists; split; [reflexivity|]. unfold data.
    change (slice _ (Z.to_nat 2) (Z.to_nat 4)) with [z; z0].
    change (slice _ (Z.to_nat 4) (Z.to_nat 8)) with [z1; z2; z3; z4].
    change (slice _ (Z.to_nat 8) (Z.to_nat 12)) with [z5; z6; z7; z8].
    repeat split; try reflexivity.
    cbn [ndp_fview set_opts n_hop n_flags n_life n_reach n_retrans n_opts app].
    rewrite V2, V4, V5. change (nthZ _ (Z.to_nat 0)) with (u8 (n_hop l)). change (nthZ _ (Z.to_nat 1)) with (u8 (n_flags l)).
    unfold u8. rewrite !Z.mod_small by lia. reflexivity.
  - (* NS *)
    apply andb_prop in Hk as [Hb Ht]. assert (L : length (n_target l) = 16%nat) by (apply len16; lia).
    remember (n_target l) as tg. explicit tg 16 L.
    cbn [app n6_put repeat firstn skipn length Nat.sub Nat.add].
    set (data := _ :: _ :: _ :: _ :: _ :: _ :: _ :: _ :: _ :: _ :: _ :: _ :: _ :: _ :: _ :: _ :: _ :: _ :: _ :: _ :: OB).
    assert (HL : n6_len data = 20 + n6_len OB) by (unfold data; rewrite !n6_len_cons; lia).
    replace (n6_len data <? 20) with false by lia.
    rewrite (n6_slice_eq data 4 20), (n6_from_eq data 20) by lia.
    change (skipn (Z.to_nat 20) data) with OB. rewrite HOB.
    eexists; eexists; split; [reflexivity|]. unfold data. repeat split; try reflexivity.
    cbn [ndp_fview set_opts n_target n_opts app]. rewrite <- Heqtg. reflexivity.
  - (* NA *)
    apply andb_prop in Hk as [Hk Ht]. apply andb_prop in Hk as [Hf Hb]. unfold byte_okb in Hf.
    assert (L : length (n_target l) = 16%nat) by (apply len16; lia).
    remember (n_target l) as tg. explicit tg 16 L.
    cbn [app n6_put repeat firstn skipn length Nat.sub Nat.add].
    set (data := _ :: _ :: _ :: _ :: _ :: _ :: _ :: _ :: _ :: _ :: _ :: _ :: _ :: _ :: _ :: _ :: _ :: _ :: _ :: _ :: OB).
    assert (HL : n6_len data = 20 + n6_len OB) by (unfold data; rewrite !n6_len_cons; lia).
    replace (n6_len data <? 20) with false by lia.
    rewrite (n6_idx_eq data 0), (n6_slice_eq data 4 20), (n6_from_eq data 20) by lia.
    change (skipn (Z.to_nat 20) data) with OB. rewrite HOB.
    eexists; eexists; split; [reflexivity|]. unfold data. repeat split; try reflexivity.
    cbn [ndp_fview set_opts n_target n_flags n_opts app]. rewrite <- Heqtg.
    change (nthZ _ (Z.to_nat 0)) with (u8 (n_flags l)). unfold u8. rewrite Z.mod_small by lia. reflexivity.
  - (* Redirect *)
    apply andb_prop in Hk as [Hk Hdl]. apply andb_prop in Hk as [Hk Hdb]. apply andb_prop in Hk as [Htb Htl].
    assert (L : length (n_target l) = 16%nat) by (apply len16; lia).
    assert (L' : length (n_dest l) = 16%nat) by (apply len16; lia).
    remember (n_target l) as tg. remember (n_dest l) as ds. explicit tg 16 L. explicit ds 16 L'.
    cbn [app n6_put repeat firstn skipn length Nat.sub Nat.add].
    set (data := _ :: _ :: _ :: _ :: _ :: _ :: _ :: _ :: _ :: _ :: _ :: _ :: _ :: _ :: _ :: _ :: _ :: _ :: _ :: _ ::
                 _ :: _ :: _ :: _ :: _ :: _ :: _ :: _ :: _ :: _ :: _ :: _ :: _ :: _ :: _ :: _ :: OB).
    assert (HL : n6_len data = 36 + n6_len OB) by (unfold data; rewrite !n6_len_cons; lia).
    replace (n6_len data <? 36) with false by lia.
    rewrite (n6_slice_eq data 4 20), (n6_slice_eq data 20 36), (n6_from_eq data 36) by lia.
    change (skipn (Z.to_nat 36) data) with OB. rewrite HOB.
    eexists; eexists; split; [reflexivity|]. unfold data. repeat split; try reflexivity.
    cbn [ndp_fview set_opts n_target n_dest n_opts app]. rewrite <- Heqtg, <- Heqds. reflexivity.
  - (* ICMPv6Options *)
    cbn [app]. replace (n6_len OB <? 0) with false by lia.
    rewrite n6_from_eq by lia. change (skipn (Z.to_nat 0) OB) with OB. rewrite HOB.
    eexists; eexists; split; [reflexivity|]. repeat split; try reflexivity; intros; congruence.
Qed.

(* serialization reads the public fields only *)
Lemma ndp_serialize_fview k a b payload fx cs junk : ndp_fview k a = ndp_fview k b ->
  fst (ndp_serialize k a payload fx cs junk) = fst (ndp_serialize k b payload fx cs junk).
Proof.
  intros H. rewrite !ndp_serialize_closed. cbn [fst].
  assert (HO : n_opts a = n_opts b) by (destruct k; cbn in H; congruence).
  rewrite HO. f_equal. f_equal.
  destruct k; cbn [ndp_hdr_bytes] in *; cbn in H; try reflexivity; congruence.
Qed.

Lemma compute_checksum_ok ph hp proto : ph_okb ph = true -> exists c, compute_checksum ph hp proto = Ok c.
Proof.
  destruct ph as [|s d]; cbn [ph_okb]; [discriminate|]. intros H. apply andb_prop in H as [Hs Hd].
  unfold compute_checksum, pseudo_sum. rewrite Hs, Hd. cbn [negb obind]. eexists. reflexivity.
Qed.

Lemma icmp6_roundtrip_ok l payload ph junk : icmp6_okb l = true -> ph_okb ph = true ->
  exists bytes ck,
    icmp6_roundtrip l payload ph junk =
      (Ok bytes, (mkIcmp6 (i_tc l) ck (firstn 4 bytes) payload, Ok tt, false)) /\
    snd (icmp6_serialize l payload true true ph junk) = mkIcmp6 (i_tc l) ck (i_contents l) (i_payload l) /\
    bytes = be_bytes 2 (i_tc l) ++ be_bytes 2 ck ++ payload /\ 0 <= ck < 65536.
Proof.
  intros Hl Hph. unfold icmp6_roundtrip. rewrite icmp6_serialize_closed. unfold icmp6_wire.
  destruct (compute_checksum_ok ph (be_bytes 2 (i_tc l) ++ [0; 0] ++ payload) IPProtocolICMPv6 Hph) as [c ->].
  pose proof (n6_fold_range c) as Hck. set (ck := n6_fold c) in *.
  unfold icmp6_okb in Hl.
  remember (be_bytes 2 (i_tc l)) as b1 eqn:E1. remember (be_bytes 2 ck) as b2 eqn:E2.
  assert (L1 : length b1 = 2%nat) by (subst; apply be_bytes_length).
  assert (L2 : length b2 = 2%nat) by (subst; apply be_bytes_length).
  assert (V1 : be_val b1 = i_tc l) by (subst; apply be_val_2; lia).
  assert (V2 : be_val b2 = ck) by (subst; apply be_val_2; lia).
  explicit b1 2 L1. explicit b2 2 L2. cbn [app].
  exists (z :: z0 :: z1 :: z2 :: payload), ck.
  split; [|repeat split; try reflexivity; try lia; rewrite <- E2; reflexivity].
  f_equal. unfold icmp6_decode_into. set (data := z :: z0 :: z1 :: z2 :: payload).
  assert (HL : n6_len data = 4 + n6_len payload) by (unfold data; rewrite !n6_len_cons; lia).
  pose proof (n6_len_nonneg payload). replace (n6_len data <? 4) with false by lia.
  rewrite (n6_idx_eq data 0), (n6_idx_eq data 1), (n6_slice_eq data 2 4), (n6_slice_eq data 0 4),
    (n6_from_eq data 4) by lia.
  unfold data. change (slice _ (Z.to_nat 2) (Z.to_nat 4)) with [z1; z2].
  change (slice _ (Z.to_nat 0) (Z.to_nat 4)) with [z; z0; z1; z2].
  change (nthZ _ (Z.to_nat 0)) with z. change (nthZ _ (Z.to_nat 1)) with z0.
  change (skipn (Z.to_nat 4) _) with payload. rewrite V1, V2. reflexivity.
Qed.

(* the bytes written depend on type/code, payload and pseudo-header only when checksums are computed *)
Lemma icmp6_serialize_tc a b payload fx ph j1 j2 : i_tc a = i_tc b ->
  fst (icmp6_serialize a payload fx true ph j1) = fst (icmp6_serialize b payload fx true ph j2).
Proof.
  intros H. rewrite !icmp6_serialize_closed. unfold icmp6_wire. rewrite H.
  destruct (compute_checksum _ _ _); reflexivity.
Qed.

(* a second SerializeTo of the layer as the first left it writes the same bytes *)
Lemma icmp6_serialize_twice l payload fx cs ph j1 j2 :
  fst (icmp6_serialize (snd (icmp6_serialize l payload fx cs ph j1)) payload fx cs ph j2)
  = fst (icmp6_serialize l payload fx cs ph j1).
Proof.
  rewrite !icmp6_serialize_closed. unfold icmp6_wire. destruct cs; [|reflexivity].
  destruct (compute_checksum ph (be_bytes 2 (i_tc l) ++ [0; 0] ++ payload) IPProtocolICMPv6) eqn:E;
    cbn [snd fst i_tc]; rewrite E; reflexivity.
Qed.

(* ---------------------------------------------------------------- ICMPv6Echo *)

Lemma echo_decode_no_panic orig old data : is_panic (snd (fst (echo_decode_gen orig old data))) = false.
Proof.
  unfold echo_decode_gen. destruct (n6_len data <? 4) eqn:E; [reflexivity|].
  rewrite (n6_slice_eq data 0 2), (n6_slice_eq data 2 4), (n6_slice_eq data 0 4), (n6_from_eq data 4) by lia. reflexivity.
Qed.

Lemma echo_decode_fresh old data :
  let '(l1, r1, t1) := echo_decode_into old data in
  let '(l2, r2, t2) := echo_decode_into echo_fresh data in
  r1 = r2 /\ t1 = t2 /\ (r1 = Ok tt -> l1 = l2).
Proof.
  unfold echo_decode_into, echo_decode_gen. destruct (n6_len data <? 4) eqn:E. { repeat split. discriminate. }
  rewrite (n6_slice_eq data 0 2), (n6_slice_eq data 2 4), (n6_slice_eq data 0 4), (n6_from_eq data 4) by lia. repeat split.
Qed.

Lemma echo_serialize_closed l payload fx cs junk :
  echo_serialize l payload fx cs junk = (Ok (be_bytes 2 (ec_id l) ++ be_bytes 2 (ec_seq l) ++ payload), l).
Proof.
  unfold echo_serialize. pose proof (n6_take_length 4 junk) as HL. set (region := fst (n6_take 4 junk)) in *.
  do 4 (destruct region as [|? region]; [discriminate HL|]). destruct region; [|discriminate HL]. reflexivity.
Qed.

Lemma echo_roundtrip l payload junk : echo_okb l = true ->
  exists bytes, echo_serialize l payload true true junk = (Ok bytes, l) /\
    echo_decode_into echo_fresh bytes = (mkEcho (ec_id l) (ec_seq l) (firstn 4 bytes) payload, Ok tt, false) /\
    forall junk', fst (echo_serialize (mkEcho (ec_id l) (ec_seq l) (firstn 4 bytes) payload) payload true true junk') = Ok bytes.
Proof.
  unfold echo_okb. intros H. apply andb_prop in H as [H H4]. apply andb_prop in H as [H H3]. apply andb_prop in H as [H1 H2].
  rewrite echo_serialize_closed. eexists. split; [reflexivity|].
  remember (be_bytes 2 (ec_id l)) as a. remember (be_bytes 2 (ec_seq l)) as b.
  assert (La : length a = 2%nat) by (subst; apply be_bytes_length). assert (Lb : length b = 2%nat) by (subst; apply be_bytes_length).
  assert (Va : be_val a = ec_id l) by (subst; apply be_val_2; lia). assert (Vb : be_val b = ec_seq l) by (subst; apply be_val_2; lia).
  split.
  - clear Heqa Heqb. explicit a 2 La. explicit b 2 Lb. cbn [app].
    set (data := z :: z0 :: z1 :: z2 :: payload). unfold echo_decode_into, echo_decode_gen.
    assert (HL : n6_len data = 4 + n6_len payload) by (subst data; rewrite !n6_len_cons; lia). pose proof (n6_len_nonneg payload).
    replace (n6_len data <? 4) with false by lia.
    rewrite (n6_slice_eq data 0 2), (n6_slice_eq data 2 4), (n6_slice_eq data 0 4), (n6_from_eq data 4) by lia.
    change (slice data (Z.to_nat 0) (Z.to_nat 2)) with [z; z0]. change (slice data (Z.to_nat 2) (Z.to_nat 4)) with [z1; z2].
    rewrite Va, Vb. reflexivity.
  - intros junk'. rewrite echo_serialize_closed. cbn [fst ec_id ec_seq]. subst. reflexivity.
Qed.
