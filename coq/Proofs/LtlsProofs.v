(* Lemmas about the TLS codec model (Model/LtlsModel.v): decoder safety, fuel, freshness. *)
From GP Require Import Base ListX Codec MiscLib MidLib LtlsModel.
From Coq Require Import Lia ZifyBool ZifyNat.
Open Scope Z_scope.
Ltac Zify.zify_post_hook ::= Z.div_mod_to_equations.

Definition good {A} (o : outcome A) : Prop := is_panic o = false /\ o <> Err 99.

Lemma good_ok {A} (v : A) : good (Ok v).
Proof. split; [reflexivity|discriminate]. Qed.
Lemma good_err {A} e : e <> 99 -> good (@Err A e).
Proof. intros H. split; [reflexivity|congruence]. Qed.

Lemma tls_sni_ok data sni : bytes_ok data -> exists r, tls_sni false data sni = Ok r.
Proof.
  intros Hb. unfold tls_sni. destruct (6 <? zlen data) eqn:C0; [|eexists; reflexivity].
  destruct (md_rd16_range data 4 Hb ltac:(lia) ltac:(lia)) as [snel [E1 R1]]. rewrite E1. cbn [obind].
  rewrite cd_idx_ok by lia. cbn [obind].
  destruct ((0 <? snel) && (nth (Z.to_nat 6) data 0 =? 0) && (8 <? zlen data)) eqn:C1; [|eexists; reflexivity].
  destruct (md_rd16_range data 7 Hb ltac:(lia) ltac:(lia)) as [hl [E2 R2]]. rewrite E2. cbn [obind wrap16].
  destruct (8 + hl <? zlen data) eqn:C2; [|eexists; reflexivity].
  rewrite cd_slc_ok by lia. eexists; reflexivity.
Qed.

Lemma tls_exts_ok : forall fuel data sni, bytes_ok data -> zlen data < 65536 -> zlen data < Z.of_nat fuel ->
  exists r, tls_exts false fuel data sni = Ok r.
Proof.
  induction fuel as [|f IH]; intros data sni Hb H16 Hf; [pose proof (zlen_nonneg data); lia|].
  cbn [tls_exts]. destruct (zlen data <? 4) eqn:C0; [eexists; reflexivity|].
  destruct (md_rd16_range data 0 Hb ltac:(lia) ltac:(lia)) as [et [E1 R1]]. rewrite E1. cbn [obind].
  destruct (md_rd16_range data 2 Hb ltac:(lia) ltac:(lia)) as [len [E2 R2]]. rewrite E2. cbn [obind].
  destruct (zlen data <? 4 + len) eqn:C1; [eexists; reflexivity|].
  assert (Hs : exists s', (if et =? 0 then tls_sni false data sni else Ok sni) = Ok s').
  { destruct (et =? 0); [apply tls_sni_ok; exact Hb|eexists; reflexivity]. }
  destruct Hs as [s' Es]. rewrite Es. cbn [obind].
  replace ((4 + len) mod 65536) with (4 + len) by lia.
  rewrite cd_slc_ok by lia. cbn [obind].
  apply IH; [apply bytes_ok_slice; exact Hb|rewrite md_zlen_slice by lia; lia|rewrite md_zlen_slice by lia; lia].
Qed.

Lemma tls_ch_good data : bytes_ok data -> good (tls_ch false data).
Proof.
  intros Hb. unfold tls_ch. cbv zeta.
  destruct (zlen data <? 39) eqn:C0; [apply good_err; lia|].
  rewrite cd_idx_ok by lia. cbn [obind]. rewrite cd_slc_ok by lia. cbn [obind].
  rewrite md_rd24_ok by lia. cbn [obind].
  rewrite cd_rd16_ok by lia. cbn [obind]. rewrite cd_slc_ok by lia. cbn [obind].
  destruct (md_idx_range data 38 Hb ltac:(lia)) as [sidl [E1 R1]]. rewrite E1. cbn [obind].
  destruct (zlen data <? 39 + sidl + 2) eqn:C1; [apply good_err; lia|].
  rewrite cd_slc_ok by lia. cbn [obind].
  destruct (md_rd16_range data (39 + sidl) Hb ltac:(lia) ltac:(lia)) as [csl [E2 R2]]. rewrite E2. cbn [obind].
  destruct (zlen data <? 39 + sidl + 2 + csl + 1) eqn:C2; [apply good_err; lia|].
  rewrite cd_slc_ok by lia. cbn [obind].
  destruct (md_idx_range data (39 + sidl + 2 + csl) Hb ltac:(lia)) as [cml [E3 R3]]. rewrite E3. cbn [obind].
  destruct (zlen data <? 39 + sidl + 2 + csl + 1 + cml + 2) eqn:C3; [apply good_err; lia|].
  rewrite cd_slc_ok by lia. cbn [obind].
  destruct (md_rd16_range data (39 + sidl + 2 + csl + 1 + cml) Hb ltac:(lia) ltac:(lia)) as [el [E4 R4]]. rewrite E4. cbn [obind].
  destruct (zlen data <? 39 + sidl + 2 + csl + 1 + cml + 2 + el) eqn:C4; [apply good_err; lia|].
  rewrite cd_slc_ok by lia. cbn [obind].
  set (exts := slice data _ _).
  assert (Hl : zlen exts = el) by (unfold exts; rewrite md_zlen_slice by lia; lia).
  destruct (tls_exts_ok (S (length exts)) exts [] (bytes_ok_slice _ _ _ Hb) ltac:(lia) ltac:(unfold zlen; lia)) as [sni Es].
  rewrite Es. cbn [obind]. apply good_ok.
Qed.

Lemma tls_hs_encrypted_ok h body : zlen body = th_len h -> exists b, tls_hs_encrypted h body = Ok b.
Proof.
  intros Hl. unfold tls_hs_encrypted. destruct (th_len h <? 16) eqn:C0; [eexists; reflexivity|].
  rewrite cd_idx_ok by lia. cbn [obind]. rewrite cd_slc_ok by lia. cbn [obind]. rewrite md_rd24_ok by lia. cbn [obind].
  destruct (negb _); eexists; reflexivity.
Qed.

Lemma tls_record_good h body ext : zlen body = th_len h -> bytes_ok ext -> good (fst (tls_record false h body ext)).
Proof.
  intros Hl Hb. unfold tls_record.
  destruct (th_ct h =? 20).
  { destruct (negb (zlen body =? 1)) eqn:C; [apply good_err; lia|]. rewrite cd_idx_ok by lia. apply good_ok. }
  destruct (th_ct h =? 21).
  { destruct (zlen body <? 2) eqn:C; [apply good_err; lia|].
    destruct (th_len h =? 2); [|apply good_ok]. rewrite !cd_idx_ok by lia. cbn [obind]. apply good_ok. }
  destruct (th_ct h =? 22).
  { destruct (tls_hs_encrypted_ok h body Hl) as [b Eb]. rewrite Eb. destruct b; [apply good_ok|].
    destruct (zlen body <? 1) eqn:C; [apply good_err; lia|]. rewrite cd_idx_ok by lia.
    destruct (nth (Z.to_nat 0) body 0 =? 1).
    - pose proof (tls_ch_good ext Hb) as [G1 G2]. destruct (tls_ch false ext) as [c|e|s]; cbn [fst].
      + apply good_ok. + apply good_err. intros ->. apply G2. reflexivity. + discriminate.
    - destruct (nth (Z.to_nat 0) body 0 =? 16); [apply good_ok|apply good_err; lia]. }
  destruct (negb (zlen body =? th_len h)); [apply good_err; lia|apply good_ok].
Qed.

Lemma tls_walk_good : forall fuel st data tr, bytes_ok data -> zlen data < Z.of_nat fuel ->
  good (snd (fst (tls_walk false fuel st data tr))).
Proof.
  induction fuel as [|f IH]; intros st data tr Hb Hf; [pose proof (zlen_nonneg data); lia|].
  cbn [tls_walk]. cbv zeta. destruct (zlen data <? 5) eqn:C0; [apply good_err; lia|].
  rewrite cd_idx_ok by lia. cbn [ml_bind].
  rewrite cd_rd16_ok by lia. cbn [ml_bind].
  destruct (md_rd16_range data 3 Hb ltac:(lia) ltac:(lia)) as [len [E1 R1]]. rewrite E1. cbn [ml_bind].
  destruct (negb _); [apply good_err; lia|].
  destruct (zlen data <? 5 + len) eqn:C1; [apply good_err; lia|].
  rewrite !cd_slc_ok by lia. cbn [ml_bind].
  set (body := slice data (Z.to_nat 5) (Z.to_nat (5 + len))).
  set (ext := slice data (Z.to_nat 5) (Z.to_nat (zlen data))).
  set (h := mkTh _ _ len).
  assert (Hl : zlen body = th_len h) by (unfold body, h; cbn [th_len]; rewrite md_zlen_slice by lia; lia).
  pose proof (tls_record_good h body ext Hl (bytes_ok_slice _ _ _ Hb)) as [G1 G2].
  destruct (tls_record false h body ext) as [r t2]. cbn [fst] in G1, G2.
  destruct r as [rec|e|s]; cbn [fst snd].
  - destruct (zlen data =? 5 + len) eqn:C2; [apply good_ok|].
    cbn [ml_bind].
    apply IH; [apply bytes_ok_slice; exact Hb|rewrite md_zlen_slice by lia; lia].
  - apply good_err. intros ->. apply G2. reflexivity.
  - discriminate.
Qed.

Lemma tls_decode_good old data : bytes_ok data -> good (snd (fst (tls_decode_into old data))).
Proof. intros Hb. unfold tls_decode_into, tls_decode_gen. apply tls_walk_good; [exact Hb|unfold zlen; lia]. Qed.

(* the receiver's old state is never read *)
Lemma tls_decode_fresh w old data : tls_decode_gen w old data = tls_decode_gen w tls_fresh data.
Proof. reflexivity. Qed.
