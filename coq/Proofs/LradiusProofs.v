(* Lemmas about the RADIUS codec model (Model/LradiusModel.v). *)
From GP Require Import Base ListX Codec MiscLib LradiusModel.
From Coq Require Import Lia ZifyBool ZifyNat.
Open Scope Z_scope.
Ltac Zify.zify_post_hook ::= Z.div_mod_to_equations.

Lemma zlen_slice_r (l : list Z) a b : 0 <= a <= b -> b <= zlen l -> zlen (slice l (Z.to_nat a) (Z.to_nat b)) = b - a.
Proof. intros H1 H2. unfold zlen in *. rewrite slice_length by lia. lia. Qed.

Lemma rad_loop_safe : forall fuel d pos acc, 0 <= pos <= zlen d -> zlen d - pos < Z.of_nat fuel ->
  is_panic (snd (rad_loop fuel d pos acc)) = false /\ snd (rad_loop fuel d pos acc) <> Err 99.
Proof.
  induction fuel as [|f IH]; intros d pos acc Hp Hf; [lia|]. cbn [rad_loop].
  destruct (zlen d =? pos) eqn:C0; [cbn [snd]; split; [reflexivity|discriminate]|].
  destruct (zlen d - pos <? 2) eqn:C1; [cbn [snd]; split; [reflexivity|discriminate]|].
  rewrite !cd_idx_ok by lia. cbn [obind].
  set (al := nth (Z.to_nat (pos + 1)) d 0).
  destruct (zlen d - pos <? al) eqn:C2; [cbn [snd]; split; [reflexivity|discriminate]|].
  destruct (al <? 2) eqn:C3; [cbn [snd]; split; [reflexivity|discriminate]|].
  destruct (2 <? al) eqn:C4.
  - rewrite cd_slc_ok by lia. apply IH; lia.
  - apply IH; lia.
Qed.

Lemma rad_decode_safe orig old data :
  is_panic (snd (fst (rad_decode_gen orig old data))) = false /\ snd (fst (rad_decode_gen orig old data)) <> Err 99.
Proof.
  unfold rad_decode_gen. cbv zeta. destruct (4096 <? zlen data) eqn:C0; [split; [reflexivity|discriminate]|].
  destruct (zlen data <? 20) eqn:C1; [split; [reflexivity|discriminate]|].
  rewrite !cd_idx_ok by lia. rewrite cd_rd16_ok by lia. cbn [ml_bind].
  set (len := nth (Z.to_nat 2) data 0 * 256 + nth (Z.to_nat (2 + 1)) data 0).
  destruct (4096 <? len) eqn:C2; [split; [reflexivity|discriminate]|].
  destruct (len <? 20) eqn:C3; [split; [reflexivity|discriminate]|].
  destruct (zlen data <? len) eqn:C4; [split; [reflexivity|discriminate]|].
  rewrite cd_slc_ok by lia. cbn [ml_bind].
  set (d := slice data (Z.to_nat 0) (Z.to_nat len)).
  assert (Hd : zlen d = len) by (unfold d; rewrite zlen_slice_r by lia; lia).
  rewrite cd_slc_ok by lia. cbn [ml_bind].
  destruct (zlen d =? 20); [split; [reflexivity|discriminate]|].
  pose proof (rad_loop_safe (S (length d)) d 20 (if orig then r_attrs old else []) ltac:(lia) ltac:(unfold zlen; lia)) as [P1 P2].
  destruct (rad_loop (S (length d)) d 20 _) as [attrs [u|e|s]]; cbn [snd fst] in *.
  - split; [reflexivity|discriminate].
  - split; [reflexivity|]. intros X. apply P2. congruence.
  - discriminate.
Qed.

Ltac rstep :=
  match goal with
  | |- context [ml_bind ?o _ _ _] => destruct o eqn:?; cbn [ml_bind]
  | |- context [if ?c then _ else _] => destruct c eqn:?
  | |- context [match rad_loop ?a ?b ?c ?d with _ => _ end] => destruct (rad_loop a b c d) as [? [?|?|?]]
  end.

Lemma rad_decode_fresh old data :
  let r1 := rad_decode_into old data in
  let r2 := rad_decode_into rad_fresh data in
  snd (fst r1) = snd (fst r2) /\ snd r1 = snd r2 /\
  (snd (fst r1) = Ok tt -> fst (fst r1) = fst (fst r2)).
Proof.
  cbv zeta. unfold rad_decode_into, rad_decode_gen. cbv zeta.
  repeat (rstep; try solve [cbn [fst snd]; split; [reflexivity | split; [reflexivity | try (intros X; discriminate X); try reflexivity]]]).
  all: try (cbn [fst snd]; split; [reflexivity | split; [reflexivity | intros _; reflexivity]]).
Qed.

(* before the repairs: attributes accumulate in a reused layer; FixLengths writes unreadable lengths *)
Lemma rad_orig_stale : exists a l1 l2,
  rad_decode_orig rad_fresh a = (l1, Ok tt, false) /\ rad_decode_orig l1 a = (l2, Ok tt, false) /\
  length (r_attrs l1) = 1%nat /\ length (r_attrs l2) = 2%nat.
Proof.
  exists ([1;7;0;25] ++ repeat 0 16 ++ [1;5;98;111;98]). eexists. eexists.
  split; [vm_compute; reflexivity|]. split; [vm_compute; reflexivity|]. split; reflexivity.
Qed.

Lemma rad_orig_fixlengths : exists a l bytes,
  rad_decode_orig rad_fresh a = (l, Ok tt, false) /\ fst (rad_serialize_orig l [] true true []) = Ok bytes /\
  snd (fst (rad_decode_orig rad_fresh bytes)) <> Ok tt /\
  fst (rad_serialize l [] true true []) = Ok a.
Proof.
  exists ([1;7;0;25] ++ repeat 0 16 ++ [1;5;98;111;98]). eexists. eexists.
  split; [vm_compute; reflexivity|]. split; [vm_compute; reflexivity|]. split; [vm_compute; discriminate|vm_compute; reflexivity].
Qed.

(* ---------------------------------------------------------------- serializer *)
Definition rad_attr_bytes (al : Z) (a : rattr) : list Z := [ra_type a mod 256; al mod 256] ++ ra_value a.

Fixpoint rad_attrs_bytes (orig fixl : bool) (l : list rattr) : option (list Z) :=
  match l with
  | [] => Some []
  | a :: t =>
    match rad_attr_len orig fixl a with
    | None => None
    | Some al => match rad_attrs_bytes orig fixl t with Some r => Some (rad_attr_bytes al a ++ r) | None => None end
    end
  end.

Definition rad_asum (l : list rattr) : Z := fold_left (fun acc a => acc + zlen (ra_value a) + 2) l 0.
Lemma rad_fold_shift l : forall x, fold_left (fun acc a => acc + zlen (ra_value a) + 2) l x = x + rad_asum l.
Proof. unfold rad_asum. induction l as [|a t IH]; intros x; cbn [fold_left]; [lia|]. rewrite IH, (IH (0 + _ + 2)). lia. Qed.
Lemma rad_asum_cons a t : rad_asum (a :: t) = zlen (ra_value a) + 2 + rad_asum t.
Proof. unfold rad_asum at 1. cbn [fold_left]. rewrite rad_fold_shift. lia. Qed.
Lemma rad_asum_nonneg l : 0 <= rad_asum l.
Proof. induction l as [|a t IH]; [unfold rad_asum; cbn; lia|]. rewrite rad_asum_cons. pose proof (zlen_nonneg (ra_value a)). lia. Qed.

Lemma rad_attrs_bytes_len orig fixl : forall l bs, rad_attrs_bytes orig fixl l = Some bs -> zlen bs = rad_asum l.
Proof.
  induction l as [|a t IH]; intros bs H; cbn [rad_attrs_bytes] in H.
  - inversion H. reflexivity.
  - destruct (rad_attr_len orig fixl a) as [al|]; [|discriminate]. destruct (rad_attrs_bytes orig fixl t) as [r|]; [|discriminate].
    assert (E : bs = rad_attr_bytes al a ++ r) by congruence. subst bs. unfold rad_attr_bytes. rewrite !zlen_app, (IH r eq_refl), rad_asum_cons. change (zlen [ra_type a mod 256; al mod 256]) with 2. lia.
Qed.

(* the attributes written before the FixLengths error do not matter: the result is Err 2 *)
Lemma rad_write_attrs_tile orig fixl : forall l b pre n pos, ml_tiled b pre n -> pos = zlen pre -> zlen pre + rad_asum l <= n ->
  match rad_attrs_bytes orig fixl l with
  | Some bs => exists b', rad_write_attrs orig fixl b pos l = Ok b' /\ ml_tiled b' (pre ++ bs) n
  | None => rad_write_attrs orig fixl b pos l = Err 2
  end.
Proof.
  induction l as [|a t IH]; intros b pre n pos T Hp Hle; cbn [rad_attrs_bytes rad_write_attrs].
  - exists b. split; [reflexivity|]. rewrite app_nil_r. exact T.
  - rewrite rad_asum_cons in Hle. pose proof (rad_asum_nonneg t) as Nt. pose proof (zlen_nonneg (ra_value a)) as Nv.
    destruct (rad_attr_len orig fixl a) as [al|]; [|reflexivity]. subst pos.
    do 3 ml_tile_step T.
    match type of T with ml_tiled ?bb _ _ => set (b3 := bb) in * end.
    specialize (IH b3 _ n (zlen pre + 2 + zlen (ra_value a)) T ltac:(rewrite !zlen_app, !zlen_one; lia) ltac:(rewrite !zlen_app, !zlen_one; lia)).
    destruct (rad_attrs_bytes orig fixl t) as [r|]; [|exact IH].
    destruct IH as [b' [E T']]. exists b'. split; [exact E|].
    unfold rad_attr_bytes. rewrite <- !app_assoc in T'. rewrite <- !app_assoc. exact T'.
Qed.

Definition rad_l1 (fixl : bool) (l : radius) : radius :=
  if fixl then mkRad (r_contents l) (r_payload l) (r_code l) (r_ident l) ((20 + rad_asum (r_attrs l)) mod 65536) (r_auth l) (r_attrs l) else l.

Definition rad_ser_spec (orig : bool) (l : radius) (payload : list Z) (fixl : bool) : outcome (list Z) * radius :=
  if existsb (fun a => 255 <? zlen (ra_value a)) (r_attrs l) then (Err 1, l) else
  match rad_attrs_bytes orig fixl (r_attrs l) with
  | Some bs => (Ok ((([r_code l mod 256; r_ident l mod 256] ++ cd_put16 (r_length (rad_l1 fixl l))) ++ rad_auth16 l) ++ bs ++ payload), rad_l1 fixl l)
  | None => (Err 2, rad_l1 fixl l)
  end.

Lemma rad_auth16_len l : zlen (rad_auth16 l) = 16.
Proof. unfold rad_auth16, zlen. rewrite firstn_length, app_length, repeat_length. lia. Qed.

Lemma rad_serialize_spec orig l payload fixl csum junk :
  rad_serialize_gen orig l payload fixl csum junk = rad_ser_spec orig l payload fixl.
Proof.
  unfold rad_serialize_gen, rad_ser_spec. destruct (existsb _ (r_attrs l)); [reflexivity|]. cbv zeta.
  rewrite rad_fold_shift. fold (rad_l1 fixl l).
  assert (Ea : r_attrs (rad_l1 fixl l) = r_attrs l) by (destruct fixl; reflexivity).
  assert (Eau : rad_auth16 (rad_l1 fixl l) = rad_auth16 l) by (destruct fixl; reflexivity).
  assert (Ec : r_code (rad_l1 fixl l) = r_code l /\ r_ident (rad_l1 fixl l) = r_ident l) by (destruct fixl; split; reflexivity).
  destruct Ec as [Ec Ei]. rewrite Ea, Eau, Ec, Ei.
  pose proof (rad_asum_nonneg (r_attrs l)) as Na.
  pose proof (ml_tile_init (20 + rad_asum (r_attrs l)) junk ltac:(lia)) as T.
  set (n := 20 + rad_asum (r_attrs l)) in *.
  set (v1 := [r_code l mod 256; r_ident l mod 256]). set (v2 := cd_put16 (r_length (rad_l1 fixl l))). set (v3 := rad_auth16 l).
  assert (L1 : zlen v1 = 2) by reflexivity. assert (L2 : zlen v2 = 2) by reflexivity. assert (L3 : zlen v3 = 16) by apply rad_auth16_len.
  destruct (ml_tile_wrc _ [] v1 n 0 T eq_refl ltac:(change (zlen []) with 0; lia)) as [b1 [E1 T1]].
  rewrite E1. cbn [obind].
  destruct (ml_tile_wrc b1 ([] ++ v1) v2 n 2 T1 ltac:(cbn [app]; lia) ltac:(cbn [app]; lia)) as [b2 [E2 T2]].
  rewrite E2. cbn [obind].
  destruct (ml_tile_wrc b2 (([] ++ v1) ++ v2) v3 n 4 T2 ltac:(cbn [app]; rewrite zlen_app; lia) ltac:(cbn [app]; rewrite zlen_app; lia)) as [b3 [E3 T3]].
  rewrite E3. cbn [obind].
  match type of T3 with ml_tiled _ ?p _ => set (pre := p) in * end.
  assert (Hpre : zlen pre = 20) by (unfold pre; cbn [app]; rewrite !zlen_app; lia).
  pose proof (rad_write_attrs_tile orig fixl (r_attrs l) b3 pre _ 20 T3 ltac:(lia) ltac:(lia)) as W.
  destruct (rad_attrs_bytes orig fixl (r_attrs l)) as [bs|] eqn:Eb.
  - destruct W as [b' [E T']]. rewrite E. apply ml_tile_done in T'; [|rewrite zlen_app, (rad_attrs_bytes_len _ _ _ _ Eb); lia].
    subst b'. unfold pre, v1, v2, v3. cbn [app]. rewrite <- !app_assoc. reflexivity.
  - rewrite W. reflexivity.
Qed.

Lemma rad_serialize_junk_free orig l payload fixl csum junk1 junk2 :
  rad_serialize_gen orig l payload fixl csum junk1 = rad_serialize_gen orig l payload fixl csum junk2.
Proof. rewrite !rad_serialize_spec. reflexivity. Qed.

Lemma rad_serialize_no_panic orig l payload fixl csum junk : is_panic (fst (rad_serialize_gen orig l payload fixl csum junk)) = false.
Proof.
  rewrite rad_serialize_spec. unfold rad_ser_spec. destruct (existsb _ _); [reflexivity|].
  destruct (rad_attrs_bytes orig fixl (r_attrs l)); reflexivity.
Qed.
