(* C10: invariant of the tcpassembly half-connection model and its consequences *)
From GP Require Import Base C10Model C10Arith.
From Coq Require Import Lia ZifyBool Sorted.
Open Scope Z_scope.

(* ---------------------------------------------------------------- slices of the sender's stream *)
Definition sub (S : list Z) (o n : Z) : list Z := firstn (Z.to_nat n) (skipn (Z.to_nat o) S).

Lemma lenZ_nonneg {A} (l : list A) : 0 <= lenZ l.
Proof. unfold lenZ; lia. Qed.

Lemma lenZ_app {A} (l1 l2 : list A) : lenZ (l1 ++ l2) = lenZ l1 + lenZ l2.
Proof. unfold lenZ. rewrite app_length. lia. Qed.

Lemma lenZ_nil_iff {A} (l : list A) : lenZ l = 0 <-> l = [].
Proof. unfold lenZ. destruct l; cbn; split; intros; try reflexivity; try lia; discriminate. Qed.

Lemma sub_length S o n : 0 <= o -> 0 <= n -> o + n <= lenZ S -> lenZ (sub S o n) = n.
Proof.
  unfold sub, lenZ. intros Ho Hn H. rewrite firstn_length, skipn_length. lia.
Qed.

Lemma sub_nil S o : sub S o 0 = [].
Proof. reflexivity. Qed.

Lemma skipn_skipn' {A} (x y : nat) (l : list A) : skipn x (skipn y l) = skipn (y + x) l.
Proof.
  revert l; induction y as [|y IH]; intros l; cbn; [reflexivity|].
  destruct l; [destruct x; reflexivity|apply IH].
Qed.

Lemma sub_skipn S o n k : 0 <= o -> 0 <= k <= n ->
  skipn (Z.to_nat k) (sub S o n) = sub S (o + k) (n - k).
Proof.
  intros Ho Hk. unfold sub. rewrite skipn_firstn_comm, skipn_skipn'.
  f_equal; [lia|f_equal; lia].
Qed.

Lemma sub_firstn S o n k : 0 <= k <= n -> firstn (Z.to_nat k) (sub S o n) = sub S o k.
Proof.
  intros Hk. unfold sub. rewrite firstn_firstn. f_equal. lia.
Qed.

Lemma sub_all S : sub S 0 (lenZ S) = S.
Proof. unfold sub, lenZ. cbn. rewrite Nat2Z.id. apply firstn_all. Qed.

(* ---------------------------------------------------------------- byteSpan *)
(* In offsets: the stream position is a, the data are S[o, o+n): byteSpan returns the part
   at or after a and the position max a (o+n). *)
Lemma byte_span_spec i S a o n :
  0 <= o -> 0 <= n -> o + n <= lenZ S -> 0 <= a -> - quarter < a - o < quarter ->
  byte_span (sq i a) (sq i o) (sub S o n) =
    if a <=? o then (sub S o n, sq i (o + n))
    else if o + n <? a then ([], sq i a)
    else (sub S a (o + n - a), sq i (o + n)).
Proof.
  intros Ho Hn Hon Ha Hw. unfold byte_span.
  pose proof (sq_range i a) as Hr. unfold invalidSequence.
  destruct (sq i a =? -1) eqn:E; [lia|].
  rewrite diff_sq by (unfold quarter in Hw; lia).
  rewrite sub_length by lia.
  destruct (a <=? o) eqn:E1.
  - replace (a - o <=? 0) with true by lia. rewrite sq_add. reflexivity.
  - replace (a - o <=? 0) with false by lia.
    destruct (o + n <? a) eqn:E2.
    + replace (n <? a - o) with true by lia. reflexivity.
    + replace (n <? a - o) with false by lia.
      rewrite sub_skipn by lia. rewrite sq_add. f_equal; [f_equal; lia|f_equal; lia].
Qed.

Lemma byte_span_invalid s bytes :
  byte_span invalidSequence s bytes = (bytes, seq_add s (lenZ bytes)).
Proof. reflexivity. Qed.

(* ---------------------------------------------------------------- traverse / insertion *)
Lemma traverse_split q seq : forall a b, traverse q seq = (a, b) -> q = a ++ b.
Proof.
  induction q as [|p t IH]; intros a b H; cbn in H.
  - inversion H; reflexivity.
  - destruct (traverse t seq) as [a1 b1] eqn:E. specialize (IH _ _ eq_refl).
    destruct a1 as [|x a1].
    + destruct (difference (p_seq p) seq <? 0); inversion H; subst; cbn in *; congruence.
    + inversion H; subst. reflexivity.
Qed.

(* everything after the insertion point is strictly after seq, the element before it is not *)
Lemma traverse_after q seq : forall a b, traverse q seq = (a, b) ->
  Forall (fun p => difference (p_seq p) seq < 0) b.
Proof.
  induction q as [|p t IH]; intros a b H; cbn in H.
  - inversion H; constructor.
  - destruct (traverse t seq) as [a1 b1] eqn:E. specialize (IH _ _ eq_refl).
    destruct a1 as [|x a1].
    + destruct (difference (p_seq p) seq <? 0) eqn:D; inversion H; subst.
      * constructor; [lia|exact IH].
      * exact IH.
    + inversion H; subst. exact IH.
Qed.

Lemma traverse_before q seq : forall a b, traverse q seq = (a, b) ->
  match rev a with [] => True | p :: _ => difference (p_seq p) seq >= 0 end.
Proof.
  induction q as [|p t IH]; intros a b H; cbn in H.
  - inversion H; exact I.
  - destruct (traverse t seq) as [a1 b1] eqn:E. specialize (IH _ _ eq_refl).
    destruct a1 as [|x a1].
    + destruct (difference (p_seq p) seq <? 0) eqn:D; inversion H; subst; cbn; [exact I|lia].
    + inversion H; subst. cbn [rev]. cbn [rev] in IH.
      destruct (rev a1 ++ [x]) eqn:R; [destruct (rev a1); discriminate|].
      cbn. exact IH.
Qed.

(* ---------------------------------------------------------------- the limit check *)
(* assembly.go:723-724, evaluated when a packet of n pages has just been buffered *)
Definition limit_cond (mp mt pg used n : Z) : bool := limit_now mp mt (pg + n) (used + n).

(* does a page limit fire in this step (provided the segment is buffered at all) *)
Definition limit_fires (st : state) (o : op) : bool :=
  match o with
  | Segment seq syn fin rst payload ts goff =>
    limit_cond (s_maxPer st) (s_maxTotal st) (conn_pages st) (s_used st)
               (lenZ (pages_from_tcp seq payload (rst || fin) ts goff))
  | _ => false
  end.

Lemma limit_cond_off mp mt pg used n : mp <= 0 -> mt <= 0 -> limit_cond mp mt pg used n = false.
Proof. intros. unfold limit_cond, limit_now. lia. Qed.

(* ---------------------------------------------------------------- the stream invariant *)
Section Stream.
Variable i : Z.
Variable S : list Z.
Hypothesis Hi : 0 <= i < uint32Size.

(* an interval of width < 2^30 starting at lo *)
Definition inw (lo x : Z) : Prop := lo <= x < lo + quarter.

(* page p holds S[p_off p, page_end p) and carries the sequence number of its offset *)
Definition page_ok (p : page) : Prop :=
  0 <= p_off p /\ page_end p <= lenZ S /\ p_seq p = sq i (p_off p) /\
  r_bytes (p_r p) = sub S (p_off p) (lenZ (r_bytes (p_r p))) /\
  r_skip (p_r p) = 0 /\ r_start (p_r p) = false.
Definition page_in (lo : Z) (p : page) : Prop := inw lo (p_off p) /\ inw lo (page_end p).

(* pages of one packet: consecutive offsets from o, inside [o, hi] *)
Fixpoint pairs_at (o hi : Z) (l : list (Z * list Z)) : Prop :=
  match l with
  | [] => True
  | (s, b) :: t => s = sq i o /\ b = sub S o (lenZ b) /\ 0 <= o /\ o + lenZ b <= hi /\ hi <= lenZ S /\
                   pairs_at (o + lenZ b) hi t
  end.

Lemma split_pages_at fuel : forall o n, 0 <= o -> 0 <= n -> o + n <= lenZ S ->
  pairs_at o (o + n) (split_pages fuel (sq i o) (sub S o n)).
Proof.
  induction fuel as [|f IH]; intros o n Ho Hn Hon; cbn [split_pages]; [exact I|].
  rewrite sub_length by lia.
  assert (Hk : 0 <= Z.min n pageBytes <= n) by (unfold pageBytes; lia).
  set (k := Z.min n pageBytes) in *.
  rewrite sub_firstn by lia. rewrite sub_skipn by lia.
  assert (P0 : forall t, pairs_at (o + k) (o + n) t -> pairs_at o (o + n) ((sq i o, sub S o k) :: t)).
  { intros t Ht. cbn [pairs_at]. rewrite sub_length by lia. repeat split; try lia; assumption. }
  destruct (sub S (o + k) (n - k)) eqn:E.
  - apply P0. exact I.
  - apply P0. rewrite <- E. rewrite sq_add.
    replace (o + n) with ((o + k) + (n - k)) by lia. apply IH; lia.
Qed.

Lemma split_pages_head f seq bytes :
  exists b t, split_pages (Datatypes.S f) seq bytes = (seq, b) :: t.
Proof.
  cbn [split_pages]. destruct (skipn _ bytes); eexists; eexists; reflexivity.
Qed.

(* the pages cover the payload: fuel S (length bytes) suffices *)
Lemma split_pages_concat fuel : forall seq bytes, (length bytes < fuel)%nat ->
  concat (map snd (split_pages fuel seq bytes)) = bytes.
Proof.
  induction fuel as [|f IH]; intros seq bytes Hf; [lia|]. cbn [split_pages].
  set (k := Z.to_nat (Z.min (lenZ bytes) pageBytes)).
  destruct (skipn k bytes) eqn:E.
  - cbn. rewrite app_nil_r. rewrite <- (firstn_skipn k bytes) at 2. rewrite E, app_nil_r. reflexivity.
  - cbn [map concat snd]. rewrite <- E. rewrite IH.
    + apply firstn_skipn.
    + assert (HL : length (skipn k bytes) = Datatypes.S (length l)) by (rewrite E; reflexivity).
      rewrite skipn_length in *.
      assert (k <> 0)%nat.
      { intros K. rewrite K in E. cbn in E. subst bytes. unfold k, lenZ, pageBytes in K. cbn [length] in K. lia. }
      lia.
Qed.

Lemma mark_last_end_ok e ts l : forall o hi, pairs_at o hi l ->
  Forall page_ok (mark_last_end e ts o l) /\
  Forall (fun p => o <= p_off p /\ page_end p <= hi) (mark_last_end e ts o l).
Proof.
  induction l as [|[s b] t IH]; intros o hi H; [split; constructor|].
  cbn [pairs_at] in H. destruct H as (Hs & Hb & Ho & Hh & HhS & Ht). cbn [mark_last_end].
  pose proof (lenZ_nonneg b) as Hnb.
  assert (P : forall e0, page_ok (mkP (mkR b 0 false e0 ts 0) s o) /\
                         (o <= p_off (mkP (mkR b 0 false e0 ts 0) s o) /\ page_end (mkP (mkR b 0 false e0 ts 0) s o) <= hi)).
  { intros e0. unfold page_ok, page_end. cbn [p_off p_seq p_r r_bytes r_skip r_start]. repeat split; try lia; assumption. }
  destruct t as [|sb t'].
  - split; (constructor; [apply P|constructor]).
  - destruct (IH _ _ Ht) as [I1 I2]. split; (constructor; [apply P|]); [exact I1|].
    eapply Forall_impl; [|exact I2]. cbn beta. intros p [Hp1 Hp2]. split; lia.
Qed.

Lemma mark_last_end_head e ts o s b t :
  exists p t', mark_last_end e ts o ((s, b) :: t) = p :: t' /\ p_seq p = s.
Proof.
  cbn [mark_last_end]. destruct t; eexists; eexists; split; reflexivity.
Qed.

Lemma pages_from_tcp_ok o n e ts : 0 <= o -> 0 <= n -> o + n <= lenZ S ->
  Forall page_ok (pages_from_tcp (sq i o) (sub S o n) e ts o) /\
  Forall (fun p => o <= p_off p /\ page_end p <= o + n) (pages_from_tcp (sq i o) (sub S o n) e ts o).
Proof.
  intros. unfold pages_from_tcp. apply mark_last_end_ok. apply split_pages_at; assumption.
Qed.

Lemma pages_from_tcp_head seq bytes e ts o :
  exists p t, pages_from_tcp seq bytes e ts o = p :: t /\ p_seq p = seq.
Proof.
  unfold pages_from_tcp. destruct (split_pages_head (length bytes) seq bytes) as (b & t & E).
  rewrite E. apply mark_last_end_head.
Qed.

(* ---- exact page chain of one packet (for the cover invariant): consecutive pages from o
   to hi, the FIN/RST flag only on the last *)
Fixpoint pchain (o hi : Z) (l : list (Z * list Z)) : Prop :=
  match l with
  | [] => o = hi
  | (s, b) :: t => pchain (o + lenZ b) hi t
  end.

Lemma split_pages_pchain fuel : forall o n, 0 <= o -> 0 <= n -> o + n <= lenZ S ->
  (Z.to_nat n < fuel)%nat -> pchain o (o + n) (split_pages fuel (sq i o) (sub S o n)).
Proof.
  induction fuel as [|f IH]; intros o n Ho Hn Hon Hf; [lia|]. cbn [split_pages].
  rewrite sub_length by lia.
  assert (Hk : 0 <= Z.min n pageBytes <= n) by (unfold pageBytes; lia).
  set (k := Z.min n pageBytes) in *.
  rewrite sub_firstn by lia. rewrite sub_skipn by lia.
  destruct (sub S (o + k) (n - k)) eqn:E.
  - cbn [pchain]. rewrite sub_length by lia.
    assert (lenZ (sub S (o + k) (n - k)) = n - k) by (apply sub_length; lia).
    rewrite E in H. change (lenZ (@nil Z)) with 0 in H. lia.
  - cbn [pchain]. rewrite sub_length by lia. rewrite <- E. rewrite sq_add.
    replace (o + n) with ((o + k) + (n - k)) by lia.
    assert (n - k < n).
    { assert (lenZ (sub S (o + k) (n - k)) = n - k) by (apply sub_length; lia).
      rewrite E in H. unfold lenZ in H. cbn [length] in H. unfold k, pageBytes in *. lia. }
    apply IH; lia.
Qed.

Fixpoint chain (o hi : Z) (l : list page) : Prop :=
  match l with
  | [] => o = hi
  | p :: t => p_off p = o /\ chain (page_end p) hi t
  end.

Variable FinEnd : Prop.   (* "FIN/RST is carried only by data ending at the end of S" (optional) *)
Definition page_fin (p : page) : Prop := FinEnd -> r_end (p_r p) = true -> page_end p = lenZ S.

Lemma mark_last_end_chain e ts l : forall o hi, pchain o hi l -> l <> [] ->
  (FinEnd -> e = true -> hi = lenZ S) ->
  chain o hi (mark_last_end e ts o l) /\ Forall page_fin (mark_last_end e ts o l).
Proof.
  induction l as [|[s b] t IH]; intros o hi H Hne Hfin; [congruence|].
  cbn [pchain] in H. cbn [mark_last_end]. destruct t as [|sb t'].
  - cbn [pchain] in H. cbn [chain]. unfold page_end, page_fin. cbn [p_off p_r r_bytes r_end].
    repeat split; try assumption; try constructor; try constructor.
    unfold page_end. cbn [p_off p_r r_bytes r_end]. intros F E. rewrite H. apply Hfin; assumption.
  - destruct (IH (o + lenZ b) hi H ltac:(discriminate) Hfin) as [I1 I2].
    split.
    + cbn [chain]. unfold page_end at 1. cbn [p_off p_r r_bytes]. split; [reflexivity|exact I1].
    + constructor; [|exact I2]. unfold page_fin. cbn [p_r r_end]. intros _ [=].
Qed.

Lemma pages_from_tcp_chain o n e ts : 0 <= o -> 0 <= n -> o + n <= lenZ S ->
  (FinEnd -> e = true -> o + n = lenZ S) ->
  chain o (o + n) (pages_from_tcp (sq i o) (sub S o n) e ts o) /\
  Forall page_fin (pages_from_tcp (sq i o) (sub S o n) e ts o).
Proof.
  intros Ho Hn Hon Hfin. unfold pages_from_tcp. apply mark_last_end_chain; [|
    destruct (split_pages_head (length (sub S o n)) (sq i o) (sub S o n)) as (b & t & E); rewrite E; discriminate|exact Hfin].
  apply split_pages_pchain; try assumption.
  assert (lenZ (sub S o n) = n) by (apply sub_length; lia). unfold lenZ in H. lia.
Qed.

Lemma page_end_ge p : p_off p <= page_end p.
Proof. unfold page_end. pose proof (lenZ_nonneg (r_bytes (p_r p))). lia. Qed.

Lemma chain_offs l : forall o hi, chain o hi l -> Forall (fun y => o <= p_off y) l.
Proof.
  induction l as [|p t IH]; intros o hi H; [constructor|]. cbn [chain] in H. destruct H as [H1 H2].
  constructor; [lia|]. eapply Forall_impl; [|apply (IH _ _ H2)]. cbn beta. intros y Hy.
  pose proof (page_end_ge p). lia.
Qed.

(* ---- received ranges (ghost of the proof): the (offset, length) of every segment handed to
   the current stream *)
Definition recv := list (Z * Z).

Definition held (q : list page) (x : Z) : Prop := exists p, In p q /\ p_off p <= x < page_end p.

Lemma chain_held l : forall o hi x, chain o hi l -> o <= x < hi -> held l x.
Proof.
  induction l as [|p t IH]; intros o hi x H Hx; cbn [chain] in H; [lia|]. destruct H as [H1 H2].
  destruct (Z_lt_dec x (page_end p)).
  - exists p. split; [left; reflexivity|lia].
  - destruct (IH _ _ x H2 ltac:(lia)) as (p' & Hin & Hp'). exists p'. split; [right; exact Hin|exact Hp'].
Qed.

(* every received byte at or beyond the delivery point is held in the queue *)
Definition cover (R : recv) (pos : option Z) (q : list page) : Prop :=
  forall o n x, In (o, n) R -> o <= x < o + n -> (forall a, pos = Some a -> a <= x) -> held q x.

(* no received byte in [a, b) *)
Definition gap_free (R : recv) (a b : Z) : Prop :=
  forall o n x, In (o, n) R -> o <= x < o + n -> ~ (a <= x < b).

(* the ordering the queue really has (pages of one packet form a block, so it is not sorted
   by offset): walking from the front with the running delivery point, a page that lies
   beyond it is at or before every later page *)
Fixpoint good (a : Z) (q : list page) : Prop :=
  match q with
  | [] => True
  | h :: t => (a < p_off h -> Forall (fun y => p_off h <= p_off y) t) /\ good (Z.max a (page_end h)) t
  end.
Definition sorted_inv (pos : option Z) (q : list page) : Prop :=
  match pos with Some a => good a q | None => forall a, good a q end.

Definition conn_rc (R : recv) (c : conn) (pos : option Z) : Prop :=
  cover R pos (c_queue c) /\ sorted_inv pos (c_queue c) /\ Forall page_fin (c_queue c).

Lemma good_mono q : forall a a', good a q -> a <= a' -> good a' q.
Proof.
  induction q as [|h t IH]; intros a a' H Hle; [exact I|]. cbn [good] in *. destruct H as [H1 H2].
  split; [intros Hlt; apply H1; lia|]. apply (IH (Z.max a (page_end h))); [exact H2|lia].
Qed.

Lemma good_cont B : forall o hi a qb, chain o hi B -> o <= a -> good a qb -> good a (B ++ qb).
Proof.
  induction B as [|b B' IH]; intros o hi a qb Hc Hoa Hg; [exact Hg|].
  cbn [chain] in Hc. destruct Hc as [Hb Hc]. cbn [app good]. split; [intros; lia|].
  apply (IH (page_end b) hi); [exact Hc|lia|]. apply (good_mono qb a); [exact Hg|lia].
Qed.

Lemma good_block B o hi a qb : chain o hi B -> Forall (fun y => o < p_off y) qb -> good a qb ->
  good a (B ++ qb).
Proof.
  intros Hc Hqb Hg. destruct B as [|b B']; [exact Hg|].
  cbn [chain] in Hc. destruct Hc as [Hb Hc]. cbn [app good]. split.
  - intros _. apply Forall_app; split.
    + eapply Forall_impl; [|apply (chain_offs _ _ _ Hc)]. cbn beta. intros y Hy. pose proof (page_end_ge b). lia.
    + eapply Forall_impl; [|exact Hqb]. cbn beta. intros; lia.
  - apply (good_cont B' (page_end b) hi); [exact Hc|lia|]. apply (good_mono qb a); [exact Hg|lia].
Qed.

Lemma good_insert B o hi qb : chain o hi B -> Forall (fun y => o < p_off y) qb ->
  forall qa a, (qa = [] \/ exists q0 e, qa = q0 ++ [e] /\ p_off e <= o) ->
  good a (qa ++ qb) -> good a (qa ++ B ++ qb).
Proof.
  intros Hc Hqb. induction qa as [|h qa' IH]; intros a Hlast Hg.
  - cbn [app] in *. eapply good_block; eassumption.
  - cbn [app good] in *. destruct Hg as [G1 G2].
    assert (Hlast' : qa' = [] \/ exists q0 e, qa' = q0 ++ [e] /\ p_off e <= o).
    { destruct Hlast as [H|(q0 & e & E & He)]; [discriminate|].
      destruct q0 as [|x q0']; cbn [app] in E.
      - inversion E; subst. left; reflexivity.
      - inversion E; subst. right. exists q0', e. split; [reflexivity|exact He]. }
    split; [|apply IH; assumption].
    intros Hlt. specialize (G1 Hlt).
    assert (Hho : p_off h <= o).
    { destruct Hlast as [H|(q0 & e & E & He)]; [discriminate|].
      destruct q0 as [|x q0']; cbn [app] in E.
      - inversion E; subst. exact He.
      - inversion E; subst. rewrite Forall_forall in G1.
        specialize (G1 e ltac:(apply in_or_app; left; apply in_or_app; right; left; reflexivity)). lia. }
    apply Forall_app in G1. destruct G1 as [Ga Gb].
    apply Forall_app; split; [exact Ga|]. apply Forall_app; split; [|exact Gb].
    eapply Forall_impl; [|apply (chain_offs _ _ _ Hc)]. cbn beta. intros; lia.
Qed.

Lemma rev_last_form {A} (P : A -> Prop) (l : list A) :
  match rev l with [] => True | p :: _ => P p end -> l = [] \/ exists q0 e, l = q0 ++ [e] /\ P e.
Proof.
  intros H. destruct (rev l) as [|p t] eqn:E.
  - left. apply (f_equal (@rev _)) in E. rewrite rev_involutive in E. exact E.
  - right. exists (rev t), p. split; [|exact H].
    apply (f_equal (@rev _)) in E. rewrite rev_involutive in E. exact E.
Qed.

Lemma cover_nil pos q : cover [] pos q.
Proof. intros o n x []. Qed.

Lemma cover_app R1 R2 pos q : cover R1 pos q -> cover R2 pos q -> cover (R1 ++ R2) pos q.
Proof. intros H1 H2 o n x Hin. apply in_app_or in Hin. destruct Hin; [apply H1|apply H2]; assumption. Qed.

Lemma cover_incl R pos q q' : cover R pos q -> (forall p, In p q -> In p q') -> cover R pos q'.
Proof.
  intros H Hinc o n x Hin Hx Hp. destruct (H o n x Hin Hx Hp) as (p & Hp1 & Hp2). exists p. split; [apply Hinc; exact Hp1|exact Hp2].
Qed.

Lemma cover_advance R pos q a' : cover R pos q -> (forall a, pos = Some a -> a <= a') -> cover R (Some a') q.
Proof.
  intros H Hle o n x Hin Hx Hp. apply (H o n x Hin Hx). intros a E. specialize (Hle a E). specialize (Hp a' eq_refl). lia.
Qed.

Lemma cover_below q o n a' : o + n <= a' -> cover [(o, n)] (Some a') q.
Proof. intros Hle o' n' x [[= <- <-]|[]] Hx Hp. specialize (Hp a' eq_refl). lia. Qed.

Lemma cover_chain pos q B o n : chain o (o + n) B -> (forall p, In p B -> In p q) -> cover [(o, n)] pos q.
Proof.
  intros Hc Hinc o' n' x [[= <- <-]|[]] Hx _. destruct (chain_held B o (o + n) x Hc Hx) as (p & Hp1 & Hp2).
  exists p. split; [apply Hinc; exact Hp1|exact Hp2].
Qed.

(* the position after popping page p *)
Definition pos_after (pos : option Z) (p : page) : Z :=
  match pos with None => page_end p | Some a => Z.max a (page_end p) end.

Lemma cover_pop R pos p t : cover R pos (p :: t) -> cover R (Some (pos_after pos p)) t.
Proof.
  intros H o n x Hin Hx Hp. specialize (Hp _ eq_refl).
  assert (Hp0 : forall a, pos = Some a -> a <= x).
  { intros a ->. cbn [pos_after] in Hp. lia. }
  destruct (H o n x Hin Hx Hp0) as (p' & [<-|Hin'] & Hp').
  - unfold pos_after in Hp. destruct pos; lia.
  - exists p'. split; assumption.
Qed.

Lemma sorted_pop pos p t : sorted_inv pos (p :: t) -> good (pos_after pos p) t.
Proof.
  destruct pos as [a|]; cbn [sorted_inv pos_after good].
  - intros [_ H]; exact H.
  - intros H. destruct (H (page_end p)) as [_ H2]. rewrite Z.max_id in H2. exact H2.
Qed.

Lemma head_gap R a p t : cover R (Some a) (p :: t) -> good a (p :: t) -> gap_free R a (p_off p).
Proof.
  intros Hc [Hg _] o n x Hin Hx [Hax Hxp].
  assert (Hp0 : forall a0, Some a = Some a0 -> a0 <= x) by (intros ? [= <-]; exact Hax).
  destruct (Hc o n x Hin Hx Hp0) as (p' & [<-|Hin'] & Hp'); [lia|].
  specialize (Hg ltac:(lia)). rewrite Forall_forall in Hg. specialize (Hg p' Hin'). lia.
Qed.

(* ---- what the stream receives, in absolute offsets.  A position is None before the
   first element of a stream, then Some a: everything before offset a has been delivered or
   announced as skipped. *)
Inductive chunk : option Z -> reassembly -> option Z -> Prop :=
| ch_start r :
    r_start r = true -> r_skip r = 0 -> lenZ (r_bytes r) <= lenZ S ->
    r_bytes r = sub S 0 (lenZ (r_bytes r)) ->
    chunk None r (Some (lenZ (r_bytes r)))
| ch_unknown r o :
    r_start r = false -> r_skip r = -1 -> 0 <= o -> o + lenZ (r_bytes r) <= lenZ S ->
    r_bytes r = sub S o (lenZ (r_bytes r)) ->
    chunk None r (Some (o + lenZ (r_bytes r)))
| ch_known r a :
    r_start r = false -> 0 <= r_skip r -> a + r_skip r + lenZ (r_bytes r) <= lenZ S ->
    r_bytes r = sub S (a + r_skip r) (lenZ (r_bytes r)) ->
    chunk (Some a) r (Some (a + r_skip r + lenZ (r_bytes r))).

Inductive chunks : option Z -> list reassembly -> option Z -> Prop :=
| chs_nil p : chunks p [] p
| chs_cons p r p1 rs p2 : chunk p r p1 -> chunks p1 rs p2 -> chunks p (r :: rs) p2.

Lemma chunks_app p l1 p1 l2 p2 : chunks p l1 p1 -> chunks p1 l2 p2 -> chunks p (l1 ++ l2) p2.
Proof.
  intros H1; revert l2 p2; induction H1; intros l2 q2 H2; cbn; [exact H2|].
  econstructor; [eassumption|]. apply IHchunks; exact H2.
Qed.

Lemma chunks_one p r p1 : chunk p r p1 -> chunks p [r] p1.
Proof. intros; econstructor; [eassumption|constructor]. Qed.

Lemma ch_known' r a a' :
  r_start r = false -> 0 <= r_skip r -> a' = a + r_skip r + lenZ (r_bytes r) -> a' <= lenZ S ->
  r_bytes r = sub S (a + r_skip r) (lenZ (r_bytes r)) -> chunk (Some a) r (Some a').
Proof. intros H1 H2 -> H3 H4. apply ch_known; assumption. Qed.

Lemma ch_unknown' r o a' :
  r_start r = false -> r_skip r = -1 -> 0 <= o -> a' = o + lenZ (r_bytes r) -> a' <= lenZ S ->
  r_bytes r = sub S o (lenZ (r_bytes r)) -> chunk None r (Some a').
Proof. intros H1 H2 H3 -> H4 H5. apply ch_unknown; assumption. Qed.

Lemma ch_start' r a' :
  r_start r = true -> r_skip r = 0 -> a' = lenZ (r_bytes r) -> a' <= lenZ S ->
  r_bytes r = sub S 0 (lenZ (r_bytes r)) -> chunk None r (Some a').
Proof. intros H1 H2 -> H3 H4. apply ch_start; assumption. Qed.

(* ---- the same, strengthened with what was RECEIVED so far on the stream (R) and, optionally,
   the position of FIN/RST: a Skip covers no received byte; an element with End (when FIN/RST
   is only carried by data ending at the end of S) leaves the position at the end of S *)
Definition extra (R : recv) (pos : option Z) (r : reassembly) (pos' : option Z) : Prop :=
  (forall a, pos = Some a -> gap_free R a (a + r_skip r)) /\
  (FinEnd -> r_end r = true -> pos' = Some (lenZ S)).
Definition chunkR (R : recv) (pos : option Z) (r : reassembly) (pos' : option Z) : Prop :=
  chunk pos r pos' /\ extra R pos r pos'.

Inductive chunksR (R : recv) : option Z -> list reassembly -> option Z -> Prop :=
| chsR_nil p : chunksR R p [] p
| chsR_cons p r p1 rs p2 : chunkR R p r p1 -> chunksR R p1 rs p2 -> chunksR R p (r :: rs) p2.

Lemma chunksR_app R p l1 p1 l2 p2 : chunksR R p l1 p1 -> chunksR R p1 l2 p2 -> chunksR R p (l1 ++ l2) p2.
Proof.
  intros H1; revert l2 p2; induction H1; intros l2 q2 H2; cbn; [exact H2|].
  econstructor; [eassumption|]. apply IHchunksR; exact H2.
Qed.

Lemma chunksR_one R p r p1 : chunkR R p r p1 -> chunksR R p [r] p1.
Proof. intros; econstructor; [eassumption|constructor]. Qed.

Lemma chunksR_chunks R p l p' : chunksR R p l p' -> chunks p l p'.
Proof. induction 1; [constructor|]. destruct H as [H _]. econstructor; eassumption. Qed.

Lemma chunksR_snoc_inv R l : forall p r p', chunksR R p (l ++ [r]) p' ->
  exists pm, chunksR R p l pm /\ chunkR R pm r p'.
Proof.
  induction l as [|x l IH]; intros p r p' H; cbn [app] in H.
  - inversion H as [|? ? p1 ? ? Hc Hr]; subst. inversion Hr; subst. exists p. split; [constructor|exact Hc].
  - inversion H as [|? ? p1 ? ? Hc Hr]; subst. destruct (IH _ _ _ Hr) as (pm & H1 & H2).
    exists pm. split; [econstructor; eassumption|exact H2].
Qed.

Lemma extra_skip0 R pos r pos' : r_skip r = 0 -> (FinEnd -> r_end r = true -> pos' = Some (lenZ S)) ->
  extra R pos r pos'.
Proof. intros Hs Hf. split; [|exact Hf]. intros a _ o n x _ _ Hr. lia. Qed.

Definition enc (pos : option Z) : Z :=
  match pos with None => invalidSequence | Some a => sq i a end.

Definition pos_ok (pos : option Z) : Prop :=
  match pos with None => True | Some a => 0 <= a <= lenZ S end.

Definition head_ok (pos : option Z) (q : list page) : Prop :=
  match pos, q with Some a, p :: _ => difference (sq i a) (p_seq p) > 0 | _, _ => True end.

(* connection invariant between API calls (conn_ok) and inside one (conn_pre); the ghost
   c_pos is the position *)
Definition conn_pre (c : conn) (pos : option Z) : Prop :=
  c_nextSeq c = enc pos /\ pos_ok pos /\ (forall a, pos = Some a -> c_pos c = a) /\
  Forall page_ok (c_queue c).
Definition conn_ok (c : conn) (pos : option Z) : Prop :=
  conn_pre c pos /\ head_ok pos (c_queue c).
(* the live offsets of the connection lie in the window starting at lo *)
Definition conn_win (lo : Z) (c : conn) (pos : option Z) : Prop :=
  (forall a, pos = Some a -> inw lo a) /\ Forall (page_in lo) (c_queue c).

Lemma enc_some_ne a : sq i a =? invalidSequence = false.
Proof. pose proof (sq_range i a). unfold invalidSequence. lia. Qed.

Lemma pop_gpos_after pos gp p : (forall a, pos = Some a -> gp = a) ->
  pop_gpos (enc pos) gp p = pos_after pos p.
Proof.
  intros H. unfold pop_gpos, pos_after. destruct pos as [a|]; cbn [enc].
  - rewrite enc_some_ne. rewrite (H a eq_refl). reflexivity.
  - reflexivity.
Qed.

(* ---- popping one page *)
Lemma pop_page_spec p pos lo : page_ok p -> pos_ok pos -> page_in lo p ->
  (forall a, pos = Some a -> inw lo a) ->
  chunk pos (fst (pop_page (enc pos) p)) (Some (pos_after pos p)) /\
  snd (pop_page (enc pos) p) = sq i (pos_after pos p) /\ 0 <= pos_after pos p <= lenZ S /\
  inw lo (pos_after pos p) /\
  (forall a, pos = Some a -> difference (sq i a) (p_seq p) <= 0 ->
             r_skip (fst (pop_page (enc pos) p)) = 0).
Proof.
  intros (Ho & Hon & Hseq & Hb & Hsk & Hst) Hpos [Hw1 Hw2] Hwa.
  destruct p as [[bs sk st en seen cut] seq o].
  unfold pos_after, page_end, inw in *. cbn [p_r p_seq p_off r_bytes r_skip r_start] in *.
  pose proof (lenZ_nonneg bs) as Hn. remember (lenZ bs) as n eqn:Heqn.
  subst bs sk st seq. clear Heqn.
  unfold pop_page. cbn [p_r p_seq r_bytes r_skip r_start r_end r_seen].
  destruct pos as [a|]; cbn [enc pos_ok] in *.
  - specialize (Hwa a eq_refl). rewrite enc_some_ne.
    rewrite byte_span_spec by lia.
    rewrite diff_sq by (unfold quarter in *; lia).
    destruct (a <=? o) eqn:E1.
    + cbn [fst snd]. replace (Z.max a (o + n)) with (o + n) by lia.
      assert (Hsk' : (if o - a >? 0 then o - a else 0) = o - a).
      { destruct (o - a >? 0) eqn:E; lia. }
      rewrite Hsk'. split; [|split; [reflexivity|split; [lia|split; [lia|]]]].
      * apply ch_known'; cbn [r_start r_skip r_bytes]; rewrite ?sub_length by lia; try lia; try reflexivity.
        f_equal; lia.
      * intros a0 [= <-] Hd. cbn [r_skip]. rewrite diff_sq in Hd by (unfold quarter in *; lia). lia.
    + replace (o - a >? 0) with false by lia.
      destruct (o + n <? a) eqn:E2.
      * cbn [fst snd]. replace (Z.max a (o + n)) with a by lia.
        split; [|split; [reflexivity|split; [lia|split; [lia|reflexivity]]]].
        apply ch_known'; cbn [r_start r_skip r_bytes]; change (lenZ (@nil Z)) with 0; try lia; reflexivity.
      * cbn [fst snd]. replace (Z.max a (o + n)) with (o + n) by lia.
        split; [|split; [reflexivity|split; [lia|split; [lia|reflexivity]]]].
        apply ch_known'; cbn [r_start r_skip r_bytes]; rewrite ?sub_length by lia; try lia; try reflexivity.
        f_equal; lia.
  - change (invalidSequence =? invalidSequence) with true. cbv iota.
    rewrite byte_span_invalid. cbn [fst snd].
    rewrite sq_add, sub_length by lia. split; [|split; [reflexivity|split; [lia|split; [lia|intros ? [=]]]]].
    apply ch_unknown' with (o := o); cbn [r_start r_skip r_bytes]; rewrite ?sub_length by lia; try lia; reflexivity.
Qed.

Lemma pop_page_end ns p : r_end (fst (pop_page ns p)) = r_end (p_r p).
Proof. unfold pop_page. destruct (byte_span _ _ _). reflexivity. Qed.

Lemma pop_page_skip a p lo : page_ok p -> page_in lo p -> inw lo a ->
  r_skip (fst (pop_page (sq i a) p)) = Z.max 0 (p_off p - a).
Proof.
  intros (Ho & Hon & Hseq & Hb & Hsk & Hst) [Hw1 Hw2] Hwa. unfold pop_page. rewrite enc_some_ne.
  rewrite Hseq, diff_sq by (unfold inw, quarter in *; lia).
  destruct (byte_span _ _ _). cbn [fst r_skip]. rewrite Hsk. destruct (p_off p - a >? 0) eqn:E; lia.
Qed.

Lemma pop_extra R p pos lo : page_ok p -> pos_ok pos -> page_in lo p ->
  (forall a, pos = Some a -> inw lo a) -> page_fin p ->
  (forall a, pos = Some a -> gap_free R a (p_off p)) ->
  extra R pos (fst (pop_page (enc pos) p)) (Some (pos_after pos p)).
Proof.
  intros Hp Hpos Hw Hwa Hf Hgap.
  destruct (pop_page_spec p pos lo Hp Hpos Hw Hwa) as (_ & _ & Hb & _). split.
  - intros a ->. cbn [enc]. rewrite (pop_page_skip a p lo Hp Hw (Hwa a eq_refl)).
    specialize (Hgap a eq_refl). intros o n x Hin Hx Hr. apply (Hgap o n x Hin Hx). lia.
  - intros F E. rewrite pop_page_end in E. specialize (Hf F E). f_equal.
    assert (page_end p <= pos_after pos p) by (unfold pos_after; destruct pos; lia). lia.
Qed.

Definition skip0 (r : reassembly) : Prop := r_skip r = 0.

(* ---- addContiguous *)
Lemma contiguous_spec R q lo : forall a, Forall page_ok q -> Forall (page_in lo) q ->
  0 <= a <= lenZ S -> inw lo a ->
  cover R (Some a) q -> good a q -> Forall page_fin q ->
  exists a', chunksR R (Some a) (fst (fst (contiguous q (sq i a)))) (Some a') /\
    snd (contiguous q (sq i a)) = sq i a' /\ a <= a' <= lenZ S /\ inw lo a' /\
    a' = fold_left (fun g p => Z.max g (page_end p))
                   (firstn (length (fst (fst (contiguous q (sq i a))))) q) a /\
    Forall page_ok (snd (fst (contiguous q (sq i a)))) /\
    Forall (page_in lo) (snd (fst (contiguous q (sq i a)))) /\
    head_ok (Some a') (snd (fst (contiguous q (sq i a)))) /\
    Forall skip0 (fst (fst (contiguous q (sq i a)))) /\
    (length (fst (fst (contiguous q (sq i a)))) + length (snd (fst (contiguous q (sq i a)))) = length q)%nat /\
    cover R (Some a') (snd (fst (contiguous q (sq i a)))) /\
    good a' (snd (fst (contiguous q (sq i a)))) /\
    Forall page_fin (snd (fst (contiguous q (sq i a)))).
Proof.
  induction q as [|p t IH]; intros a Hq Hw Ha Hwa Hcov Hgood Hfin.
  - exists a. cbn. repeat split; try constructor; try lia; try apply Hwa; try assumption.
  - inversion Hq as [|x y Hp Ht]; subst. inversion Hw as [|x y Hwp Hwt]; subst.
    inversion Hfin as [|x y Hfp Hft]; subst. cbn [contiguous].
    destruct (difference (sq i a) (p_seq p) <=? 0) eqn:D.
    + assert (Hwa' : forall a0, Some a = Some a0 -> inw lo a0) by (intros ? [= <-]; exact Hwa).
      destruct (pop_page_spec p (Some a) lo Hp Ha Hwp Hwa') as (Hc & Hn & Ha1 & Hw1 & Hsk).
      assert (Hex : extra R (Some a) (fst (pop_page (enc (Some a)) p)) (Some (pos_after (Some a) p))).
      { apply (pop_extra R p (Some a) lo Hp Ha Hwp Hwa' Hfp). intros a0 [= <-].
        destruct Hp as (_ & _ & Hseq & _). rewrite Hseq in D. destruct Hwp as [Hw1' _].
        rewrite diff_sq in D by (unfold inw, quarter in *; lia).
        intros o n x _ _ Hr. lia. }
      pose proof (cover_pop R (Some a) p t Hcov) as Hcov1.
      pose proof (sorted_pop (Some a) p t Hgood) as Hgood1.
      cbn [enc pos_after] in *. set (a1 := Z.max a (page_end p)) in *.
      destruct (pop_page (sq i a) p) as [r ns1]. cbn [fst snd] in *. subst ns1.
      specialize (Hsk a eq_refl ltac:(lia)).
      destruct (IH a1 Ht Hwt Ha1 Hw1 Hcov1 Hgood1 Hft)
        as (a2 & Hc2 & Hn2 & Ha2 & Hw2 & Hg2 & Hq2 & Hqw2 & Hh2 & Hs2 & Hl2 & Hcv2 & Hgd2 & Hfn2).
      destruct (contiguous t (sq i a1)) as [[rs q'] ns2]. cbn [fst snd] in *.
      exists a2. repeat split; try assumption; try lia; try apply Hw2.
      * econstructor; [split; eassumption|eassumption].
      * constructor; assumption.
      * cbn [length]. lia.
    + exists a. cbn [fst snd length firstn fold_left].
      split; [constructor|]. split; [reflexivity|]. split; [lia|]. split; [exact Hwa|]. split; [reflexivity|].
      split; [exact Hq|]. split; [exact Hw|]. split; [cbn [head_ok]; lia|]. split; [constructor|].
      split; [reflexivity|]. split; [exact Hcov|]. split; [exact Hgood|exact Hfin].
Qed.

Lemma add_contiguous_spec R w a lo : conn_pre (w_c w) (Some a) -> conn_win lo (w_c w) (Some a) ->
  conn_rc R (w_c w) (Some a) ->
  exists a' rs, w_ret (add_contiguous w) = w_ret w ++ rs /\ chunksR R (Some a) rs (Some a') /\
     conn_ok (w_c (add_contiguous w)) (Some a') /\ conn_win lo (w_c (add_contiguous w)) (Some a') /\
     conn_rc R (w_c (add_contiguous w)) (Some a') /\
     Forall skip0 rs /\ a <= a' /\
     (length (c_queue (w_c (add_contiguous w))) <= length (c_queue (w_c w)))%nat.
Proof.
  intros (Hns & Hpos & Hg & Hq) [Hwa Hwq] (Hcov & Hsrt & Hfin). destruct w as [[pg q ns ls gp] used ret].
  cbn [w_c c_nextSeq c_queue c_pos enc pos_ok sorted_inv] in *.
  subst ns. specialize (Hg a eq_refl). subst gp.
  destruct (contiguous_spec R q lo a Hq Hwq Hpos (Hwa a eq_refl) Hcov Hsrt Hfin)
    as (a' & Hc & Hn & Ha & Hw' & Hgh & Hq' & Hqw' & Hh & Hs & Hl & Hcv & Hgd & Hfn).
  unfold add_contiguous. cbn [w_c c_queue c_nextSeq c_pages c_lastSeen c_pos w_used w_ret].
  destruct (contiguous q (sq i a)) as [[rs q'] ns']. cbn [fst snd] in *. subst ns'.
  exists a', rs. cbn [w_ret w_c c_queue c_nextSeq c_pos].
  split; [reflexivity|]. split; [exact Hc|]. split; [|split; [|split; [|split; [exact Hs|split; [lia|lia]]]]].
  - split; [|exact Hh]. split; [reflexivity|]. split; [cbn; lia|]. split; [|exact Hq'].
    intros ? [= <-]. symmetry. exact Hgh.
  - split; [|exact Hqw']. intros ? [= <-]. exact Hw'.
  - split; [exact Hcv|split; [exact Hgd|exact Hfn]].
Qed.

(* when a stream is completed: either everything received lies before the final position, or
   the last element handed over carried End (FIN/RST: what was buffered beyond it is dropped) *)
Definition lost_nothing (R : recv) (pos' : option Z) : Prop :=
  forall o n x, In (o, n) R -> o <= x < o + n -> exists a', pos' = Some a' /\ x < a'.
Definition ended (l : list reassembly) : Prop := exists l0 r, l = l0 ++ [r] /\ r_end r = true.
Definition closed_ok (R : recv) (calls : list (list reassembly)) (pos' : option Z) : Prop :=
  lost_nothing R pos' \/ ended (concat calls).

Lemma cover_nil_lost R pos : cover R pos [] -> lost_nothing R pos.
Proof.
  intros H o n x Hin Hx. destruct pos as [a|].
  - exists a. split; [reflexivity|]. destruct (Z_lt_dec x a) as [|Hge]; [assumption|].
    destruct (H o n x Hin Hx) as (p & [] & _). intros ? [= <-]. lia.
  - destruct (H o n x Hin Hx) as (p & [] & _). intros ? [=].
Qed.

Definition res_ok (lo : Z) (pstart : option Z) (R : recv) (r : res) : Prop :=
  exists pos', chunksR R pstart (concat (rs_calls r)) pos' /\
    match rs_conn r with
    | Some c => conn_ok c pos' /\ conn_win lo c pos' /\ conn_rc R c pos' /\ rs_done r = false
    | None => rs_done r = true /\ closed_ok R (rs_calls r) pos'
    end.

Lemma concat_snoc {A} (ls : list (list A)) (l : list A) : concat (ls ++ [l]) = concat ls ++ l.
Proof. rewrite concat_app. cbn. rewrite app_nil_r. reflexivity. Qed.

(* ---- sendToConnection *)
Lemma send_spec R w a lo pstart pmid free calls :
  conn_pre (w_c w) (Some a) -> conn_win lo (w_c w) (Some a) -> conn_rc R (w_c w) (Some a) ->
  w_ret w <> [] ->
  chunksR R pstart (concat calls) pmid -> chunksR R pmid (w_ret w) (Some a) ->
  exists r, send_to_connection w free calls = Ok r /\ res_ok lo pstart R r /\
    (exists rs, rs_calls r = calls ++ [w_ret w ++ rs] /\ Forall skip0 rs) /\
    match rs_conn r with
    | Some c => (length (c_queue c) <= length (c_queue (w_c w)))%nat
    | None => True
    end.
Proof.
  intros Hpre Hwin Hrc Hne Hc1 Hc2. unfold send_to_connection.
  destruct (add_contiguous_spec R w a lo Hpre Hwin Hrc)
    as (a' & rs & Hret & Hcs & Hok & Hwin' & Hrc' & Hs0 & Hmono & Hlen).
  set (w1 := add_contiguous w) in *.
  destruct (rev (w_ret w1)) as [|lastr tl] eqn:ER.
  - exfalso. apply (f_equal (@rev _)) in ER. rewrite rev_involutive in ER. cbn in ER.
    rewrite Hret in ER. destruct (w_ret w); [congruence|discriminate].
  - assert (Hall : chunksR R pstart (concat (calls ++ [w_ret w1])) (Some a')).
    { rewrite concat_snoc. eapply chunksR_app; [exact Hc1|]. rewrite Hret.
      eapply chunksR_app; eassumption. }
    destruct (r_end lastr) eqn:EE.
    + eexists. split; [reflexivity|]. unfold close_connection. split; [|split].
      * exists (Some a'). cbn [rs_calls rs_conn rs_done]. split; [exact Hall|]. split; [reflexivity|].
        right. rewrite concat_snoc. exists (concat calls ++ rev tl), lastr. split; [|exact EE].
        apply (f_equal (@rev _)) in ER. rewrite rev_involutive in ER. cbn [rev] in ER.
        rewrite ER, app_assoc. reflexivity.
      * exists rs. cbn [rs_calls]. rewrite Hret. split; [reflexivity|exact Hs0].
      * exact I.
    + eexists. split; [reflexivity|]. split; [|split].
      * exists (Some a'). cbn [rs_calls rs_conn rs_done].
        split; [exact Hall|split; [exact Hok|split; [exact Hwin'|split; [exact Hrc'|reflexivity]]]].
      * exists rs. cbn [rs_calls]. rewrite Hret. split; [reflexivity|exact Hs0].
      * cbn [rs_conn]. exact Hlen.
Qed.

Lemma conn_ok_pre c pos : conn_ok c pos -> conn_pre c pos.
Proof. intros [H _]; exact H. Qed.

(* ---- addNextFromConn on a non-empty queue *)
Lemma add_next_spec R w pos lo p rest :
  conn_pre (w_c w) pos -> conn_win lo (w_c w) pos -> conn_rc R (w_c w) pos ->
  c_queue (w_c w) = p :: rest ->
  exists a' r w1, add_next w = Ok w1 /\ w_ret w1 = w_ret w ++ [r] /\ chunkR R pos r (Some a') /\
    conn_pre (w_c w1) (Some a') /\ conn_win lo (w_c w1) (Some a') /\ conn_rc R (w_c w1) (Some a') /\
    c_queue (w_c w1) = rest /\
    c_pages (w_c w1) = c_pages (w_c w) - 1 /\ w_used w1 = w_used w - 1.
Proof.
  intros (Hns & Hpos & Hg & Hq) [Hwa Hwq] (Hcov & Hsrt & Hfin) Hqe. destruct w as [[pg q ns ls gp] used ret].
  cbn [w_c w_ret w_used c_nextSeq c_queue c_pos c_pages] in *. subst q ns.
  inversion Hq as [|x y Hp Hr]; subst. inversion Hwq as [|x y Hwp Hwr]; subst.
  inversion Hfin as [|x y Hfp Hfr]; subst.
  destruct (pop_page_spec p pos lo Hp Hpos Hwp Hwa) as (Hc & Hn & Ha' & Hw' & _).
  assert (Hex : extra R pos (fst (pop_page (enc pos) p)) (Some (pos_after pos p))).
  { apply (pop_extra R p pos lo Hp Hpos Hwp Hwa Hfp). intros a ->. cbn [sorted_inv] in Hsrt.
    exact (head_gap R a p rest Hcov Hsrt). }
  pose proof (cover_pop R pos p rest Hcov) as Hcov1.
  pose proof (sorted_pop pos p rest Hsrt) as Hgood1.
  unfold add_next. cbn [w_c c_queue c_nextSeq c_pages c_lastSeen c_pos w_used w_ret].
  rewrite (pop_gpos_after pos gp p Hg).
  destruct (pop_page (enc pos) p) as [r nx]. cbn [fst snd] in *. subst nx.
  exists (pos_after pos p), r. eexists. split; [reflexivity|]. cbn [w_ret w_used w_c c_queue c_nextSeq c_pos c_pages app].
  split; [reflexivity|]. split; [split; [exact Hc|exact Hex]|].
  split; [|split; [|split; [|split; [reflexivity|split; reflexivity]]]].
  - split; [reflexivity|]. split; [cbn; lia|]. split; [|exact Hr]. intros ? [= <-]; reflexivity.
  - split; [|exact Hwr]. intros ? [= <-]; exact Hw'.
  - split; [exact Hcov1|split; [exact Hgood1|exact Hfr]].
Qed.

(* ---- skipFlush *)
Lemma skip_flush_spec R c pos lo pstart free used calls :
  conn_ok c pos -> conn_win lo c pos -> conn_rc R c pos -> chunksR R pstart (concat calls) pos ->
  exists r, skip_flush c free used calls = Ok r /\ res_ok lo pstart R r /\
    match rs_conn r with
    | Some c' => (length (c_queue c') < length (c_queue c))%nat
    | None => True
    end.
Proof.
  intros Hok Hwin Hrc Hcs. unfold skip_flush. destruct (c_queue c) as [|p rest] eqn:EQ.
  - eexists. split; [reflexivity|]. split; [|exact I].
    exists pos. cbn [close_connection rs_calls rs_conn rs_done]. split; [exact Hcs|]. split; [reflexivity|].
    left. apply cover_nil_lost. destruct Hrc as [Hcov _]. rewrite EQ in Hcov. exact Hcov.
  - destruct (add_next_spec R (mkW c used []) pos lo p rest (conn_ok_pre _ _ Hok) Hwin Hrc EQ)
      as (a1 & r & w1 & Hadd & Hret & Hch & Hpre & Hwin1 & Hrc1 & Hq1 & _). cbn [w_ret app] in Hret.
    rewrite Hadd. cbn [obind].
    destruct (add_contiguous_spec R w1 a1 lo Hpre Hwin1 Hrc1)
      as (a2 & rs & Hret2 & Hcs2 & Hok2 & Hwin2 & Hrc2 & _ & _ & Hlen2).
    set (w2 := add_contiguous w1) in *.
    destruct (send_spec R w2 a2 lo pstart pos free calls (conn_ok_pre _ _ Hok2) Hwin2 Hrc2) as (r' & Hs & Hres & _ & Hlen).
    + rewrite Hret2, Hret. discriminate.
    + exact Hcs.
    + rewrite Hret2, Hret. econstructor; [exact Hch|exact Hcs2].
    + exists r'. split; [exact Hs|]. split; [exact Hres|].
      destruct (rs_conn r'); [|exact I]. rewrite Hq1 in Hlen2. cbn [length]. lia.
Qed.

(* ---- insertIntoConn: never reaches panic("wtf"); keeps the invariant *)
Lemma page_seq_nonneg p : page_ok p -> 0 <= p_seq p.
Proof. intros (_ & _ & Hs & _). rewrite Hs. apply sq_range. Qed.

(* the limit loop: pops pages while the limit holds; within its fuel *)
Lemma limit_loop_spec R lo mp mt p0 fuel : forall w pos,
  conn_pre (w_c w) pos -> conn_win lo (w_c w) pos -> conn_rc R (w_c w) pos ->
  chunksR R p0 (w_ret w) pos ->
  (length (c_queue (w_c w)) <= fuel)%nat ->
  exists w1, limit_loop fuel mp mt w = Ok w1 /\
    (w1 = w \/
     exists a', w_ret w1 <> [] /\ chunksR R p0 (w_ret w1) (Some a') /\ conn_pre (w_c w1) (Some a') /\
                conn_win lo (w_c w1) (Some a') /\ conn_rc R (w_c w1) (Some a')).
Proof.
  induction fuel as [|f IH]; intros w pos Hpre Hwin Hrc Hcs Hlen.
  - destruct (c_queue (w_c w)) eqn:EQ; [|cbn [length] in Hlen; lia].
    exists w. cbn [limit_loop]. rewrite EQ. split; [reflexivity|left; reflexivity].
  - cbn [limit_loop]. destruct (c_queue (w_c w)) as [|p rest] eqn:EQ.
    + exists w. split; [reflexivity|left; reflexivity].
    + destruct (limit_now mp mt (c_pages (w_c w)) (w_used w)); [|exists w; split; [reflexivity|left; reflexivity]].
      destruct (add_next_spec R w pos lo p rest Hpre Hwin Hrc EQ)
        as (a1 & r & w1 & Hadd & Hret & Hch & Hpre1 & Hwin1 & Hrc1 & Hq1 & _).
      rewrite Hadd. cbn [obind].
      assert (Hcs1 : chunksR R p0 (w_ret w1) (Some a1)).
      { rewrite Hret. eapply chunksR_app; [exact Hcs|apply chunksR_one; exact Hch]. }
      destruct (IH w1 (Some a1) Hpre1 Hwin1 Hrc1 Hcs1) as (w2 & Hl & Hcase).
      { rewrite Hq1. cbn [length] in Hlen. lia. }
      exists w2. split; [exact Hl|]. right.
      destruct Hcase as [->|Hc]; [|exact Hc].
      exists a1. split; [rewrite Hret; destruct (w_ret w); discriminate|].
      split; [exact Hcs1|split; [assumption|split; assumption]].
Qed.

Lemma insert_spec R0 maxPer maxTotal c pos lo used o n e ts :
  conn_ok c pos -> conn_win lo c pos -> conn_rc R0 c pos -> 0 <= o -> 0 <= n -> o + n <= lenZ S ->
  inw lo o -> inw lo (o + n) ->
  (forall a, pos = Some a -> difference (sq i a) (sq i o) > 0) ->
  (FinEnd -> e = true -> o + n = lenZ S) ->
  let R := R0 ++ [(o, n)] in
  exists w1, insert_into_conn maxPer maxTotal (sq i o) (sub S o n) e ts o (mkW c used []) = Ok w1 /\
    ((w_ret w1 = [] /\ conn_ok (w_c w1) pos /\ conn_win lo (w_c w1) pos /\ conn_rc R (w_c w1) pos) \/
     (exists a', w_ret w1 <> [] /\ chunksR R pos (w_ret w1) (Some a') /\ conn_pre (w_c w1) (Some a') /\
                 conn_win lo (w_c w1) (Some a') /\ conn_rc R (w_c w1) (Some a'))) /\
    (limit_cond maxPer maxTotal (c_pages c) used (lenZ (pages_from_tcp (sq i o) (sub S o n) e ts o)) = false ->
     w_ret w1 = []).
Proof.
  intros [(Hns & Hpos & Hg & Hq) Hh] [Hwa Hwq] (Hcov & Hsrt & Hfin) Ho Hn Hon Hwo Hwon Hd Hfe R.
  unfold insert_into_conn.
  destruct c as [pg q ns ls gp]. cbn [w_c w_used w_ret c_queue c_nextSeq c_pages c_lastSeen c_pos] in *. subst ns.
  assert (Hwtf : match q with p :: _ => p_seq p =? enc pos | [] => false end = false).
  { destruct q as [|p t]; [reflexivity|]. inversion Hq as [|x y Hp Ht]; subst.
    pose proof (page_seq_nonneg p Hp) as Hp0.
    destruct pos as [a|]; cbn [enc head_ok] in *.
    - destruct (p_seq p =? sq i a) eqn:E; [|reflexivity].
      assert (p_seq p = sq i a) as Heq by lia. rewrite Heq, diff_self in Hh. lia.
    - unfold invalidSequence. lia. }
  rewrite Hwtf.
  destruct (pages_from_tcp_ok o n e ts Ho Hn Hon) as [Hps Hpsb].
  destruct (pages_from_tcp_chain o n e ts Ho Hn Hon Hfe) as [Hchain Hpsf].
  destruct (pages_from_tcp_head (sq i o) (sub S o n) e ts o) as (p0 & pt & Eps & Hp0).
  set (ps := pages_from_tcp (sq i o) (sub S o n) e ts o) in *.
  assert (Hpsw : Forall (page_in lo) ps).
  { eapply Forall_impl; [|exact Hpsb]. cbn beta. intros p [H1 H2].
    pose proof (page_end_ge p). unfold page_in, inw in *. lia. }
  destruct (traverse q (sq i o)) as [qa qb] eqn:ET.
  pose proof (traverse_split _ _ _ _ ET) as Hsplit.
  pose proof (traverse_after _ _ _ _ ET) as Hafter.
  pose proof (traverse_before _ _ _ _ ET) as Hbefore. subst q.
  assert (Hq1 : Forall page_ok (qa ++ ps ++ qb)).
  { apply Forall_app in Hq. destruct Hq as [Hqa Hqb].
    apply Forall_app; split; [exact Hqa|]. apply Forall_app; split; assumption. }
  assert (Hqw1 : Forall (page_in lo) (qa ++ ps ++ qb)).
  { apply Forall_app in Hwq. destruct Hwq as [Hqa Hqb].
    apply Forall_app; split; [exact Hqa|]. apply Forall_app; split; assumption. }
  assert (Hqf1 : Forall page_fin (qa ++ ps ++ qb)).
  { apply Forall_app in Hfin. destruct Hfin as [Hqa Hqb].
    apply Forall_app; split; [exact Hqa|]. apply Forall_app; split; assumption. }
  assert (Hh1 : head_ok pos (qa ++ ps ++ qb)).
  { destruct qa as [|x qa']; [|exact Hh]. cbn [app]. rewrite Eps. cbn [app].
    destruct pos as [a|]; cbn [head_ok]; [|exact I]. rewrite Hp0. apply Hd; reflexivity. }
  (* offsets around the insertion point *)
  assert (Hoff : forall p, In p (qa ++ qb) -> difference (p_seq p) (sq i o) = o - p_off p).
  { intros p Hin. rewrite Forall_forall in Hq, Hwq. destruct (Hq p Hin) as (_ & _ & Hseq & _).
    destruct (Hwq p Hin) as [Hw1 _]. rewrite Hseq. apply diff_sq. unfold inw, quarter in *. lia. }
  assert (Hqb : Forall (fun y => o < p_off y) qb).
  { rewrite Forall_forall in Hafter |- *. intros y Hy. specialize (Hafter y Hy).
    rewrite (Hoff y ltac:(apply in_or_app; right; exact Hy)) in Hafter. lia. }
  assert (Hqa : qa = [] \/ exists q0 e0, qa = q0 ++ [e0] /\ p_off e0 <= o).
  { destruct (rev_last_form (fun p => difference (p_seq p) (sq i o) >= 0) qa Hbefore) as [H|(q0 & e0 & E & He)];
      [left; exact H|right]. exists q0, e0. split; [exact E|].
    rewrite (Hoff e0) in He; [lia|]. apply in_or_app; left. rewrite E. apply in_or_app; right; left; reflexivity. }
  assert (Hcov1 : cover R pos (qa ++ ps ++ qb)).
  { apply cover_app.
    - eapply cover_incl; [exact Hcov|]. intros p Hin. apply in_app_or in Hin.
      apply in_or_app. destruct Hin; [left; assumption|right; apply in_or_app; right; assumption].
    - eapply cover_chain; [exact Hchain|]. intros p Hin. apply in_or_app; right; apply in_or_app; left; exact Hin. }
  assert (Hsrt1 : sorted_inv pos (qa ++ ps ++ qb)).
  { destruct pos as [a|]; cbn [sorted_inv] in *.
    - eapply good_insert; eassumption.
    - intros a. eapply good_insert; try eassumption. apply Hsrt. }
  set (c1 := mkC (pg + lenZ ps) (qa ++ ps ++ qb) (enc pos) ls gp).
  assert (Hc1 : conn_ok c1 pos) by (repeat split; assumption).
  assert (Hw1 : conn_win lo c1 pos) by (split; assumption).
  assert (Hrc1 : conn_rc R c1 pos) by (split; [exact Hcov1|split; [exact Hsrt1|exact Hqf1]]).
  set (w0 := mkW c1 (used + lenZ ps) []).
  destruct (limit_loop_spec R lo maxPer maxTotal pos (length (qa ++ ps ++ qb)) w0 pos
              (conn_ok_pre _ _ Hc1) Hw1 Hrc1) as (w1 & Hl & Hcase).
  { constructor. }
  { cbn [w0 w_c c1 c_queue]. lia. }
  exists w1. split; [exact Hl|]. split.
  - destruct Hcase as [->|Hc]; [left; split; [reflexivity|split; [exact Hc1|split; [exact Hw1|exact Hrc1]]]|right; exact Hc].
  - intros HL. unfold limit_cond in HL. cbn [c_pages] in HL.
    assert (w1 = w0) as ->; [|reflexivity].
    destruct (qa ++ ps ++ qb) as [|px qx] eqn:EQ.
    + cbn [length limit_loop] in Hl. subst w0 c1. cbn [w_c c_queue] in Hl. congruence.
    + cbn [length limit_loop] in Hl. subst w0 c1. cbn [w_c c_queue c_pages w_used] in Hl.
      rewrite HL in Hl. congruence.
Qed.

(* ---- consistent operations: every segment carries bytes of S at its (ghost) offset; the
   SYN is at i and carries S[0,n) *)
Definition op_ok (o : op) : Prop :=
  match o with
  | Segment seq syn fin rst payload ts goff =>
    if syn then seq = i /\ goff = 0 /\ lenZ payload <= lenZ S /\ payload = sub S 0 (lenZ payload)
    else 0 <= goff /\ goff + lenZ payload <= lenZ S /\ seq = sq i goff /\ payload = sub S goff (lenZ payload)
  | _ => True
  end.

(* optional extra discipline of the sender: FIN/RST only on data that ends at the end of S *)
Definition op_fin_ok (o : op) : Prop :=
  match o with
  | Segment seq syn fin rst payload ts goff => rst || fin = true -> goff + lenZ payload = lenZ S
  | _ => True
  end.

Definition state_ok (st : state) (pos : option Z) (R : recv) : Prop :=
  s_dead st = false /\
  match s_conn st with None => pos = None | Some c => conn_ok c pos /\ conn_rc R c pos end.

(* window hypothesis for one step: the live offsets lie in an interval of width < 2^30 *)
Definition W_step (st : state) (o : op) : Prop := exists lo, Forall (inw lo) (live_offsets st o).

(* result of one API call *)
Definition call_ok (pos : option Z) (R : recv) (st' : state) (ou : out) : Prop :=
  o_panic ou = false /\
  exists pos', chunksR R pos (concat (o_calls ou)) pos' /\
               (o_done ou = true -> closed_ok R (o_calls ou) pos') /\
               state_ok st' (if o_done ou then None else pos') R.

Lemma res_to_call lo pos R r mp mt isnew :
  res_ok lo pos R r ->
  call_ok pos R (mkS (rs_conn r) (rs_free r) (rs_used r) mp mt false)
              (mkOut isnew (rs_calls r) (rs_done r) false).
Proof.
  intros (pos' & Hc & Hm). split; [reflexivity|]. exists pos'. cbn [o_calls o_done]. split; [exact Hc|].
  destruct (rs_conn r) eqn:EC.
  - destruct Hm as (Hok & _ & Hrc & Hd). rewrite Hd. split; [discriminate|].
    split; [reflexivity|]. cbn [s_conn]. split; assumption.
  - destruct Hm as [Hd Hcl]. rewrite Hd. split; [intros _; exact Hcl|]. split; reflexivity.
Qed.

Definition out_skip0 (ou : out) : Prop := Forall skip0 (concat (o_calls ou)).

(* ---- the tail of AssembleWithTimestamp *)
Lemma finish_spec R st isnew pos lo w :
  ((w_ret w = [] /\ conn_ok (w_c w) pos /\ conn_win lo (w_c w) pos /\ conn_rc R (w_c w) pos) \/
   (exists a', w_ret w <> [] /\ chunksR R pos (w_ret w) (Some a') /\ conn_pre (w_c w) (Some a') /\
               conn_win lo (w_c w) (Some a') /\ conn_rc R (w_c w) (Some a'))) ->
  let r := finish_assemble st isnew (Ok w) in
  call_ok pos R (fst r) (snd r) /\ (Forall skip0 (w_ret w) -> out_skip0 (snd r)).
Proof.
  intros H. unfold finish_assemble. cbn [obind].
  destruct H as [(Hret & Hok & Hwin & Hrc)|(a' & Hne & Hcs & Hpre & Hwin & Hrc)].
  - rewrite Hret. cbn [isnil fst snd]. split.
    + apply (res_to_call lo pos R (mkRes (Some (w_c w)) (s_freeLastSeen st) (w_used w) [] false)).
      exists pos. cbn [rs_calls rs_conn rs_done concat].
      split; [constructor|split; [exact Hok|split; [exact Hwin|split; [exact Hrc|reflexivity]]]].
    + intros _. constructor.
  - destruct (w_ret w) as [|r0 rt] eqn:ER; [congruence|]. cbn [isnil].
    destruct (send_spec R w a' lo pos pos (s_freeLastSeen st) []) as (r & Hs & Hres & (rs & Hcalls & Hs0) & _).
    + exact Hpre.
    + exact Hwin.
    + exact Hrc.
    + rewrite ER; discriminate.
    + constructor.
    + rewrite ER; exact Hcs.
    + rewrite Hs. cbn [fst snd]. split; [eapply res_to_call; exact Hres|].
      intros Hsk. unfold out_skip0. cbn [o_calls]. rewrite Hcalls. cbn [app concat].
      rewrite app_nil_r, ER. apply Forall_app; split; assumption.
Qed.

(* the in-order / retransmission path, in offsets *)
Lemma fast_chunk a o n e ts cut : 0 <= o -> 0 <= n -> o + n <= lenZ S -> 0 <= a <= lenZ S -> o <= a ->
  a - o < quarter ->
  snd (byte_span (sq i a) (sq i o) (sub S o n)) = sq i (Z.max a (o + n)) /\
  chunk (Some a) (mkR (fst (byte_span (sq i a) (sq i o) (sub S o n))) 0 false e ts cut) (Some (Z.max a (o + n))).
Proof.
  intros Ho Hn Hon Ha Hoa Hw. rewrite byte_span_spec by (unfold quarter in *; lia).
  destruct (a <=? o) eqn:E1; [|destruct (o + n <? a) eqn:E2]; cbn [fst snd].
  - replace (Z.max a (o + n)) with (o + n) by lia. split; [reflexivity|].
    apply ch_known'; cbn [r_start r_skip r_bytes]; rewrite ?sub_length by lia; try lia; try reflexivity.
    f_equal; lia.
  - replace (Z.max a (o + n)) with a by lia. split; [reflexivity|].
    apply ch_known'; cbn [r_start r_skip r_bytes]; change (lenZ (@nil Z)) with 0; try lia; reflexivity.
  - replace (Z.max a (o + n)) with (o + n) by lia. split; [reflexivity|].
    apply ch_known'; cbn [r_start r_skip r_bytes]; rewrite ?sub_length by lia; try lia; try reflexivity.
    f_equal; lia.
Qed.

Lemma assemble_conn_spec R0 st c isnew pos lo seq syn fin rst payload ts goff :
  conn_ok c pos -> conn_win lo c pos -> conn_rc R0 c pos ->
  op_ok (Segment seq syn fin rst payload ts goff) ->
  (FinEnd -> op_fin_ok (Segment seq syn fin rst payload ts goff)) ->
  inw lo goff -> inw lo (goff + lenZ payload) ->
  let R := R0 ++ [(goff, lenZ payload)] in
  let r := assemble_conn st c isnew seq syn fin rst payload ts goff in
  call_ok pos R (fst r) (snd r) /\
  (limit_cond (s_maxPer st) (s_maxTotal st) (c_pages c) (s_used st)
              (lenZ (pages_from_tcp seq payload (rst || fin) ts goff)) = false -> out_skip0 (snd r)).
Proof.
  intros Hok Hwin Hrc Hop Hfo Hwo Hwon R. pose proof Hok as [(Hns & Hpos & Hg & Hq) Hh].
  pose proof Hwin as [Hwa Hwq]. pose proof Hrc as (Hcov & Hsrt & Hfin). unfold assemble_conn.
  pose proof (lenZ_nonneg payload) as Hn0.
  assert (Hseg : 0 <= goff /\ goff + lenZ payload <= lenZ S /\ payload = sub S goff (lenZ payload) /\
                 (syn = true -> goff = 0 /\ seq = i) /\ (syn = false -> seq = sq i goff)).
  { cbn [op_ok] in Hop. destruct syn.
    - destruct Hop as (-> & -> & Hl & Hp). repeat split; try lia; try assumption; intros; discriminate.
    - destruct Hop as (H1 & H2 & H3 & H4). repeat split; try assumption; intros; try assumption; discriminate. }
  destruct Hseg as (Ho & Hon & Hpay & Hsyn & Hnsyn).
  assert (Hfe : FinEnd -> rst || fin = true -> goff + lenZ payload = lenZ S).
  { intros F. exact (Hfo F). }
  subst R. remember (lenZ payload) as n eqn:En. subst payload. rename goff into o.
  set (R := R0 ++ [(o, n)]).
  destruct pos as [a|]; cbn [enc pos_ok sorted_inv] in *.
  - (* position known *)
    specialize (Hg a eq_refl). specialize (Hwa a eq_refl).
    rewrite Hns, enc_some_ne. cbn [negb]. rewrite andb_true_r.
    assert (Hseq1 : (if syn then seq_add seq 1 else seq) = sq i o).
    { destruct syn; [destruct (Hsyn eq_refl) as [H0 ->]; rewrite H0; apply syn_add1|apply Hnsyn; reflexivity]. }
    rewrite Hseq1. unfold inw in *.
    rewrite diff_sq by (unfold quarter in *; lia).
    destruct (o - a >? 0) eqn:ED.
    + (* ahead of the position: buffered *)
      assert (syn = false) as -> by (destruct syn; [destruct (Hsyn eq_refl); lia|reflexivity]).
      rewrite (Hnsyn eq_refl).
      destruct (insert_spec R0 (s_maxPer st) (s_maxTotal st) c (Some a) lo (s_used st) o n (rst || fin) ts
                  Hok Hwin Hrc Ho Hn0 Hon) as (w1 & Hins & Hcases & Hnolim).
      { unfold inw; lia. } { unfold inw; lia. }
      { intros a0 [= <-]. rewrite diff_sq by (unfold quarter in *; lia). lia. }
      { exact Hfe. }
      rewrite Hins.
      destruct (finish_spec R st isnew (Some a) lo w1) as [H1 H2].
      { destruct Hcases as [Hc|Hc]; [left; exact Hc|right; exact Hc]. }
      split; [exact H1|]. intros L. apply H2. rewrite (Hnolim L). constructor.
    + (* at or before the position: delivered now *)
      destruct (fast_chunk a o n (rst || fin) ts
                  (n - lenZ (fst (byte_span (sq i a) (sq i o) (sub S o n)))))
        as (Hnx & Hch); try lia.
      destruct (byte_span (sq i a) (sq i o) (sub S o n)) as [b nx] eqn:EB.
      cbn [fst snd] in *. subst nx.
      match goal with |- context [finish_assemble st isnew (Ok ?w0)] => set (w := w0) end.
      destruct (finish_spec R st isnew (Some a) lo w) as [H1 H2].
      { right. exists (Z.max a (o + n)). subst w. cbn [w_ret w_c]. split; [discriminate|].
        split; [apply chunksR_one; split; [exact Hch|]|].
        - apply extra_skip0; [reflexivity|]. cbn [r_end]. intros F E. f_equal. specialize (Hfe F E). lia.
        - split; [|split].
          + split; [reflexivity|split; [cbn; lia|split; [|exact Hq]]].
            intros ? [= <-]. cbn [c_pos]. rewrite Hg. reflexivity.
          + split; [|exact Hwq]. intros ? [= <-]. unfold inw. lia.
          + cbn [c_queue]. split; [|split; [|exact Hfin]].
            * apply cover_app.
              -- apply (cover_advance R0 (Some a)); [exact Hcov|]. intros ? [= <-]. lia.
              -- apply cover_below. lia.
            * cbn [sorted_inv]. apply (good_mono _ a); [exact Hsrt|lia]. }
      split; [exact H1|]. intros _. apply H2. subst w. cbn [w_ret]. constructor; [reflexivity|constructor].
  - (* position unknown: nextSeq invalid *)
    rewrite Hns. change (invalidSequence =? invalidSequence) with true. cbv beta zeta iota.
    destruct syn.
    + destruct (Hsyn eq_refl) as [Ho0 ->]. rewrite syn_add by exact Hi.
      match goal with |- context [finish_assemble st isnew (Ok ?w0)] => set (w := w0) end.
      destruct (finish_spec R st isnew None lo w) as [H1 H2].
      { right. exists n. subst w. cbn [w_ret w_c]. split; [discriminate|]. split; [|split; [|split]].
        - apply chunksR_one. split.
          + apply ch_start'; cbn [r_start r_skip r_bytes]; rewrite ?sub_length by lia; try reflexivity; try lia.
            rewrite Ho0; reflexivity.
          + apply extra_skip0; [reflexivity|]. cbn [r_end]. intros _ [=].
        - split; [reflexivity|split; [cbn; lia|split; [|exact Hq]]].
          intros ? [= <-]. cbn [c_pos]. rewrite ?sub_length by lia. lia.
        - split; [|exact Hwq]. intros ? [= <-]. rewrite Ho0 in Hwon. exact Hwon.
        - cbn [c_queue]. split; [|split; [|exact Hfin]].
          + apply cover_app.
            * apply (cover_advance R0 None); [exact Hcov|]. intros ? [=].
            * apply cover_below. lia.
          + cbn [sorted_inv]. apply Hsrt. }
      split; [exact H1|]. intros _. apply H2. subst w. cbn [w_ret]. constructor; [reflexivity|constructor].
    + rewrite (Hnsyn eq_refl).
      destruct (insert_spec R0 (s_maxPer st) (s_maxTotal st) c None lo (s_used st) o n (rst || fin) ts
                  Hok Hwin Hrc Ho Hn0 Hon Hwo Hwon) as (w1 & Hins & Hcases & Hnolim).
      { intros a0 [=]. }
      { exact Hfe. }
      rewrite Hins.
      destruct (finish_spec R st isnew None lo w1) as [H1 H2].
      { destruct Hcases as [Hc|Hc]; [left; exact Hc|right; exact Hc]. }
      split; [exact H1|]. intros L. apply H2. rewrite (Hnolim L). constructor.
Qed.

Lemma cover_add_empty R pos q o : cover R pos q -> cover (R ++ [(o, 0)]) pos q.
Proof. intros H. apply cover_app; [exact H|]. intros o' n' x [[= <- <-]|[]] Hx. lia. Qed.

Lemma call_ok_noop st pos R : state_ok st pos R -> call_ok pos R st no_out.
Proof.
  intros H. split; [reflexivity|]. exists pos. cbn [no_out o_calls o_done concat].
  split; [constructor|]. split; [discriminate|exact H].
Qed.

(* the window of a step, read off the live offsets *)
Lemma live_conn_win lo st o c pos :
  Forall (inw lo) (live_offsets st o) -> s_conn st = Some c -> conn_pre c pos -> conn_win lo c pos.
Proof.
  intros HF EC (Hns & Hpos & Hg & Hq). unfold live_offsets in HF. rewrite EC in HF.
  apply Forall_app in HF. destruct HF as [HF _]. apply Forall_app in HF. destruct HF as [HF1 HF2].
  split.
  - intros a ->. cbn [enc] in Hns. rewrite Hns, enc_some_ne in HF1. inversion HF1; subst.
    rewrite <- (Hg a eq_refl). assumption.
  - clear - HF2. induction (c_queue c) as [|p t IH]; [constructor|].
    cbn [flat_map app] in HF2. inversion HF2 as [|x y H1 H2]; subst. inversion H2 as [|x y H3 H4]; subst.
    constructor; [split; assumption|apply IH; exact H4].
Qed.

Lemma live_seg_win lo st seq syn fin rst payload ts goff :
  Forall (inw lo) (live_offsets st (Segment seq syn fin rst payload ts goff)) ->
  inw lo goff /\ inw lo (goff + lenZ payload).
Proof.
  intros HF. unfold live_offsets in HF. apply Forall_app in HF. destruct HF as [_ HF].
  inversion HF as [|x y H1 H2]; subst. inversion H2; subst. split; assumption.
Qed.

(* the ranges received by the stream that handles this step: those of the live stream (none
   when there is no connection: a new stream starts) and the arriving segment *)
Definition recv_in (st : state) (R : recv) (o : op) : recv :=
  match s_conn st with Some _ => R | None => [] end ++
  match o with Segment _ _ _ _ payload _ goff => [(goff, lenZ payload)] | _ => [] end.
Definition recv_out (st' : state) (Rin : recv) : recv :=
  match s_conn st' with Some _ => Rin | None => [] end.

Lemma assemble_spec st pos R seq syn fin rst payload ts goff :
  state_ok st pos R -> op_ok (Segment seq syn fin rst payload ts goff) ->
  (FinEnd -> op_fin_ok (Segment seq syn fin rst payload ts goff)) ->
  W_step st (Segment seq syn fin rst payload ts goff) ->
  let r := assemble st seq syn fin rst payload ts goff in
  call_ok pos (recv_in st R (Segment seq syn fin rst payload ts goff)) (fst r) (snd r) /\
  (limit_fires st (Segment seq syn fin rst payload ts goff) = false -> out_skip0 (snd r)).
Proof.
  intros Hst Hop Hfo [lo HW]. pose proof Hst as [Hdead Hconn]. unfold assemble, recv_in.
  destruct (live_seg_win _ _ _ _ _ _ _ _ _ HW) as [Hwo Hwon].
  destruct (negb syn && negb fin && negb rst && isnil payload) eqn:EU.
  { cbn [fst snd]. split; [|intros; constructor]. apply call_ok_noop.
    assert (payload = []) as -> by (destruct payload; [reflexivity|destruct syn, fin, rst; discriminate]).
    change (lenZ (@nil Z)) with 0. split; [exact Hdead|].
    destruct (s_conn st) as [c|]; [|exact Hconn]. destruct Hconn as [Hok (Hcov & Hrest)].
    split; [exact Hok|]. split; [apply cover_add_empty; exact Hcov|exact Hrest]. }
  destruct (s_conn st) as [c|] eqn:EC.
  - destruct Hconn as [Hok Hrc].
    pose proof (live_conn_win lo st _ c pos HW EC (conn_ok_pre _ _ Hok)) as Hwin.
    unfold assemble_locked, limit_fires, conn_pages. rewrite EC.
    destruct c as [pg q ns ls gp]; cbn [c_lastSeen c_pages c_queue c_nextSeq c_pos].
    destruct (ls <? ts);
      (match goal with |- context [assemble_conn st ?c1 _ _ _ _ _ _ _ _] =>
         apply (assemble_conn_spec R st c1 false pos lo seq syn fin rst payload ts goff) end; assumption).
  - subst pos. destruct (negb syn && isnil payload).
    { cbn [fst snd]. split; [|intros; constructor]. apply call_ok_noop. split; [exact Hdead|]. rewrite EC. reflexivity. }
    unfold assemble_locked, limit_fires, conn_pages. rewrite EC.
    cbn [c_lastSeen c_pages c_queue c_nextSeq c_pos].
    destruct (ts <? ts);
      (match goal with |- context [assemble_conn st ?c1 _ _ _ _ _ _ _ _] =>
         apply (assemble_conn_spec [] st c1 true None lo seq syn fin rst payload ts goff) end; try assumption;
       [split; [split; [reflexivity|split; [exact I|split; [intros ? [=]|constructor]]]|exact I]
       |split; [intros ? [=]|constructor]
       |split; [apply cover_nil|split; [intros a; exact I|constructor]]]).
Qed.

(* ---- FlushAll: the loop terminates within its fuel and ends with the connection closed *)
Lemma flush_all_loop_spec R lo fuel : forall r pstart, res_ok lo pstart R r ->
  match rs_conn r with Some c => (length (c_queue c) < fuel)%nat | None => True end ->
  exists r', flush_all_loop fuel r = Ok r' /\ res_ok lo pstart R r' /\ rs_conn r' = None.
Proof.
  induction fuel as [|f IH]; intros r pstart Hres Hlen.
  - destruct r as [[c|] fr us cl dn]; cbn [rs_conn] in *; [lia|]. exists (mkRes None fr us cl dn).
    split; [reflexivity|split; [exact Hres|reflexivity]].
  - destruct r as [[c|] fr us cl dn]; cbn [rs_conn rs_free rs_used rs_calls flush_all_loop] in *.
    + destruct Hres as (pos' & Hcs & Hok & Hwin & Hrc & Hd). cbn [rs_calls rs_conn rs_done] in *.
      destruct (skip_flush_spec R c pos' lo pstart fr us cl Hok Hwin Hrc Hcs) as (r1 & Hs & Hres1 & Hl1).
      rewrite Hs. cbn [obind]. apply IH; [exact Hres1|]. destruct (rs_conn r1); [lia|exact I].
    + exists (mkRes None fr us cl dn). split; [reflexivity|split; [exact Hres|reflexivity]].
Qed.

Lemma flush_all_spec st pos R : state_ok st pos R -> W_step st FlushAll ->
  call_ok pos R (fst (flush_all st)) (snd (flush_all st)) /\
  s_conn (fst (flush_all st)) = None /\ (s_conn st <> None -> o_done (snd (flush_all st)) = true).
Proof.
  intros Hst [lo HW]. pose proof Hst as [Hdead Hconn]. unfold flush_all.
  destruct (s_conn st) as [c|] eqn:EC.
  2:{ split; [apply call_ok_noop; exact Hst|]. split; [exact EC|congruence]. }
  destruct Hconn as [Hok Hrc].
  pose proof (live_conn_win lo st _ c pos HW EC (conn_ok_pre _ _ Hok)) as Hwin.
  destruct (flush_all_loop_spec R lo (Datatypes.S (length (c_queue c)))
              (mkRes (Some c) (s_freeLastSeen st) (s_used st) [] false) pos) as (r' & Hr & Hres & Hnone).
  - exists pos. cbn [rs_calls rs_conn rs_done concat].
    split; [constructor|split; [exact Hok|split; [exact Hwin|split; [exact Hrc|reflexivity]]]].
  - cbn [rs_conn]. lia.
  - rewrite Hr. cbn [fst snd s_conn o_done]. split; [eapply res_to_call; exact Hres|].
    split; [exact Hnone|]. intros _. destruct Hres as (pos' & _ & Hm). rewrite Hnone in Hm. apply Hm.
Qed.

(* ---- FlushOlderThan *)
Lemma flush_older_loop_spec R lo t fuel : forall r pstart, res_ok lo pstart R r ->
  match rs_conn r with Some c => (length (c_queue c) <= fuel)%nat | None => True end ->
  exists r', flush_older_loop fuel t r = Ok r' /\ res_ok lo pstart R r'.
Proof.
  induction fuel as [|f IH]; intros r pstart Hres Hlen.
  - destruct r as [[c|] fr us cl dn]; cbn [rs_conn rs_free rs_used rs_calls flush_older_loop] in *.
    + destruct (c_queue c) as [|p q] eqn:EQ; [|cbn [length] in Hlen; lia].
      eexists; split; [reflexivity|exact Hres].
    + eexists; split; [reflexivity|exact Hres].
  - destruct r as [[c|] fr us cl dn]; cbn [rs_conn rs_free rs_used rs_calls flush_older_loop] in *.
    + destruct (c_queue c) as [|p q] eqn:EQ; [eexists; split; [reflexivity|exact Hres]|].
      destruct (r_seen (p_r p) <? t); [|eexists; split; [reflexivity|exact Hres]].
      pose proof Hres as (pos' & Hcs & Hok & Hwin & Hrc & Hd). cbn [rs_calls rs_conn rs_done] in *.
      destruct (skip_flush_spec R c pos' lo pstart fr us cl Hok Hwin Hrc Hcs) as (r1 & Hs & Hres1 & Hl1).
      rewrite Hs. cbn [obind]. apply IH; [exact Hres1|].
      destruct (rs_conn r1); [rewrite EQ in Hl1; cbn [length] in *; lia|exact I].
    + eexists; split; [reflexivity|exact Hres].
Qed.

Lemma flush_older_spec st pos R t : state_ok st pos R -> W_step st (FlushOlderThan t) ->
  call_ok pos R (fst (flush_older st t)) (snd (flush_older st t)).
Proof.
  intros Hst [lo HW]. pose proof Hst as [Hdead Hconn]. unfold flush_older.
  destruct (s_conn st) as [c|] eqn:EC; [|apply call_ok_noop; exact Hst].
  destruct Hconn as [Hok Hrc].
  pose proof (live_conn_win lo st _ c pos HW EC (conn_ok_pre _ _ Hok)) as Hwin.
  destruct (flush_older_loop_spec R lo t (length (c_queue c))
              (mkRes (Some c) (s_freeLastSeen st) (s_used st) [] false) pos) as (r' & Hr & Hres).
  - exists pos. cbn [rs_calls rs_conn rs_done concat].
    split; [constructor|split; [exact Hok|split; [exact Hwin|split; [exact Hrc|reflexivity]]]].
  - cbn [rs_conn]. lia.
  - rewrite Hr. cbn [obind].
    destruct (rs_conn r') as [c1|] eqn:EC1.
    + destruct (isnil (c_queue c1) && (c_lastSeen c1 <? t)) eqn:EE.
      * cbn [fst snd]. apply (res_to_call lo pos R (close_connection c1 (rs_free r') (rs_used r') (rs_calls r'))).
        destruct Hres as (pos' & Hcs & Hm). rewrite EC1 in Hm. destruct Hm as (_ & _ & (Hcov & _) & _).
        exists pos'. cbn [close_connection rs_calls rs_conn rs_done].
        split; [exact Hcs|]. split; [reflexivity|]. left. apply cover_nil_lost.
        destruct (c_queue c1); [exact Hcov|discriminate].
      * cbn [fst snd]. eapply res_to_call; exact Hres.
    + cbn [fst snd]. eapply res_to_call; exact Hres.
Qed.

Definition is_segment (o : op) : bool := match o with Segment _ _ _ _ _ _ _ => true | _ => false end.

Lemma recv_in_flush st R o : is_segment o = false ->
  recv_in st R o = match s_conn st with Some _ => R | None => [] end.
Proof. intros H. unfold recv_in. destruct o; [discriminate| |]; apply app_nil_r. Qed.

Lemma state_ok_none st pos R R' : s_conn st = None -> state_ok st pos R -> state_ok st pos R'.
Proof. intros E [H1 H2]. split; [exact H1|]. rewrite E in *. exact H2. Qed.

Lemma step_spec st pos R o : state_ok st pos R -> op_ok o -> (FinEnd -> op_fin_ok o) -> W_step st o ->
  call_ok pos (recv_in st R o) (fst (step st o)) (snd (step st o)) /\
  (is_segment o = true -> limit_fires st o = false -> out_skip0 (snd (step st o))) /\
  (o = FlushAll -> s_conn (fst (step st o)) = None /\ (s_conn st <> None -> o_done (snd (step st o)) = true)).
Proof.
  intros Hst Hop Hfo HW. pose proof Hst as [Hdead Hconn]. unfold step. rewrite Hdead.
  assert (Hst' : is_segment o = false -> state_ok st pos (recv_in st R o)).
  { intros Hns. rewrite (recv_in_flush st R o Hns). destruct (s_conn st) eqn:EC; [exact Hst|].
    eapply state_ok_none; eassumption. }
  destruct o as [seq syn fin rst payload ts goff|t|].
  - destruct (assemble_spec st pos R seq syn fin rst payload ts goff Hst Hop Hfo HW) as [H1 H2].
    split; [exact H1|split; [intros _; exact H2|discriminate]].
  - split; [apply flush_older_spec; [apply Hst'; reflexivity|exact HW]|split; discriminate].
  - destruct (flush_all_spec st pos (recv_in st R FlushAll) (Hst' eq_refl) HW) as (H1 & H2 & H3).
    split; [exact H1|split; [discriminate|intros _; split; assumption]].
Qed.

Lemma finish_limits st isnew ow :
  s_maxPer (fst (finish_assemble st isnew ow)) = s_maxPer st /\
  s_maxTotal (fst (finish_assemble st isnew ow)) = s_maxTotal st.
Proof. unfold finish_assemble. destruct (obind ow _); split; reflexivity. Qed.

Lemma step_limits st o :
  s_maxPer (fst (step st o)) = s_maxPer st /\ s_maxTotal (fst (step st o)) = s_maxTotal st.
Proof.
  unfold step. destruct (s_dead st); [split; reflexivity|].
  destruct o as [seq syn fin rst payload ts goff|t|].
  - unfold assemble. destruct (negb syn && negb fin && negb rst && isnil payload); [split; reflexivity|].
    destruct (s_conn st); [apply finish_limits|].
    destruct (negb syn && isnil payload); [split; reflexivity|apply finish_limits].
  - unfold flush_older. destruct (s_conn st); [|split; reflexivity].
    destruct (obind _ _); split; reflexivity.
  - unfold flush_all. destruct (s_conn st); [|split; reflexivity].
    destruct (flush_all_loop _ _); split; reflexivity.
Qed.

(* ---- the whole history *)
Fixpoint trace_ok (pos : option Z) (l : list (state * op * out)) : Prop :=
  match l with
  | [] => True
  | (st, o, ou) :: t =>
    o_panic ou = false /\
    (is_segment o = true -> limit_fires st o = false -> out_skip0 ou) /\
    exists pos', chunks pos (concat (o_calls ou)) pos' /\
                 trace_ok (if o_done ou then None else pos') t
  end.

(* the same with the received ranges threaded through: every Skip is free of received
   bytes; when a stream completes nothing it received is lost (or, without the FIN discipline,
   the last element carried End); FlushAll leaves no stream *)
Fixpoint trace_okR (pos : option Z) (R : recv) (l : list (state * op * out)) : Prop :=
  match l with
  | [] => True
  | (st, o, ou) :: t =>
    let Rin := recv_in st R o in
    let st' := fst (step st o) in
    o_panic ou = false /\
    (is_segment o = true -> limit_fires st o = false -> out_skip0 ou) /\
    (o = FlushAll -> s_conn st' = None /\ (s_conn st <> None -> o_done ou = true)) /\
    exists pos', chunksR Rin pos (concat (o_calls ou)) pos' /\
      (o_done ou = true -> closed_ok Rin (o_calls ou) pos' /\ (FinEnd -> lost_nothing Rin pos')) /\
      trace_okR (if o_done ou then None else pos') (recv_out st' Rin) t
  end.

Lemma trace_okR_ok l : forall pos R, trace_okR pos R l -> trace_ok pos l.
Proof.
  induction l as [|[[st o] ou] t IH]; intros pos R H; [exact I|]. cbn [trace_okR trace_ok] in *.
  destruct H as (H1 & H2 & _ & pos' & Hc & _ & Ht).
  split; [exact H1|split; [exact H2|]]. exists pos'. split; [eapply chunksR_chunks; exact Hc|eapply IH; exact Ht].
Qed.

(* the run, each step with its pre-state, operation and output *)
Fixpoint outs (st : state) (ops : list op) : list (state * op * out) :=
  match ops with
  | [] => []
  | o :: t => (st, o, snd (step st o)) :: outs (fst (step st o)) t
  end.

(* the window hypothesis W along the run *)
Fixpoint W_run (st : state) (ops : list op) : Prop :=
  match ops with
  | [] => True
  | o :: t => W_step st o /\ W_run (fst (step st o)) t
  end.

Lemma outs_run st ops : map snd (outs st ops) = map fst (run_trace st ops).
Proof.
  revert st; induction ops as [|o t IH]; intros st; [reflexivity|].
  cbn [outs run_trace map]. destruct (step st o) as [st' ou]. cbn [fst snd map]. f_equal. apply IH.
Qed.

Definition bounded (R : recv) : Prop := Forall (fun on => fst on + snd on <= lenZ S) R.

Lemma ended_lost R p l p' : FinEnd -> bounded R -> chunksR R p l p' -> ended l -> lost_nothing R p'.
Proof.
  intros F Hb Hc (l0 & r & -> & He). destruct (chunksR_snoc_inv R l0 p r p' Hc) as (pm & _ & [_ [_ Hx]]).
  specialize (Hx F He). subst p'. intros o n x Hin Hxr. exists (lenZ S). split; [reflexivity|].
  unfold bounded in Hb. rewrite Forall_forall in Hb. specialize (Hb (o, n) Hin). cbn [fst snd] in Hb. lia.
Qed.

Lemma recv_in_bounded st R o : bounded R -> op_ok o -> bounded (recv_in st R o).
Proof.
  intros Hb Hop. unfold recv_in. apply Forall_app; split; [destruct (s_conn st); [exact Hb|constructor]|].
  destruct o as [seq syn fin rst payload ts goff|t|]; try constructor; [|constructor].
  cbn [fst snd op_ok] in *. destruct syn; [destruct Hop as (_ & -> & H & _); lia|destruct Hop as (_ & H & _); lia].
Qed.

Lemma stream_invR ops : forall st pos R, state_ok st pos R -> bounded R -> Forall op_ok ops ->
  (FinEnd -> Forall op_fin_ok ops) -> W_run st ops ->
  trace_okR pos R (outs st ops).
Proof.
  induction ops as [|o t IH]; intros st pos R Hst Hb Hops Hfin HW; [exact I|].
  inversion Hops as [|x y Ho Ht]; subst. cbn [outs trace_okR]. destruct HW as [HW1 HW2].
  assert (Hfo : FinEnd -> op_fin_ok o) by (intros F; specialize (Hfin F); inversion Hfin; assumption).
  assert (Hft : FinEnd -> Forall op_fin_ok t) by (intros F; specialize (Hfin F); inversion Hfin; assumption).
  destruct (step_spec st pos R o Hst Ho Hfo HW1) as [[Hp (pos' & Hcs & Hcl & Hst')] [Hsk Hfa]].
  pose proof (recv_in_bounded st R o Hb Ho) as Hb'.
  split; [exact Hp|]. split; [exact Hsk|]. split; [exact Hfa|].
  exists pos'. split; [exact Hcs|]. split.
  - intros Hd. specialize (Hcl Hd). split; [exact Hcl|]. intros F.
    destruct Hcl as [Hl|He]; [exact Hl|]. eapply ended_lost; eassumption.
  - apply IH; try assumption.
    + unfold recv_out. destruct Hst' as [Hd' Hc']. split; [exact Hd'|].
      destruct (s_conn (fst (step st o))); exact Hc'.
    + unfold recv_out. destruct (s_conn (fst (step st o))); [exact Hb'|constructor].
Qed.

Lemma init_ok mp mt R : state_ok (init mp mt) None R.
Proof. split; reflexivity. Qed.

(* streams shorter than 2^30 bytes satisfy the window hypothesis by themselves *)
Lemma small_W st pos R o : lenZ S < quarter -> state_ok st pos R -> op_ok o -> W_step st o.
Proof.
  intros HS [_ Hconn] Hop. exists 0. unfold live_offsets. apply Forall_app; split.
  - destruct (s_conn st) as [c|]; [|constructor].
    destruct Hconn as [[(Hns & Hpos & Hg & Hq) _] _]. apply Forall_app; split.
    + destruct pos as [a|]; cbn [enc pos_ok] in *.
      * rewrite Hns, enc_some_ne. constructor; [|constructor]. rewrite (Hg a eq_refl). unfold inw. lia.
      * rewrite Hns. constructor.
    + clear - Hq HS. induction (c_queue c) as [|p t IH]; [constructor|].
      inversion Hq as [|x y Hp Ht]; subst. cbn [flat_map app].
      destruct Hp as (H1 & H2 & _). pose proof (page_end_ge p).
      constructor; [unfold inw; lia|constructor; [unfold inw; lia|apply IH; exact Ht]].
  - destruct o as [seq syn fin rst payload ts goff|t|]; try constructor.
    + cbn [op_ok] in Hop. pose proof (lenZ_nonneg payload). destruct syn.
      * destruct Hop as (_ & -> & Hl & _). unfold inw. lia.
      * destruct Hop as (H1 & H2 & _). unfold inw. lia.
    + constructor; [|constructor]. cbn [op_ok] in Hop. pose proof (lenZ_nonneg payload). destruct syn.
      * destruct Hop as (_ & -> & Hl & _). unfold inw. lia.
      * destruct Hop as (H1 & H2 & _). unfold inw. lia.
Qed.

Lemma small_W_run ops : lenZ S < quarter -> forall st pos R, state_ok st pos R -> Forall op_ok ops ->
  (FinEnd -> Forall op_fin_ok ops) -> W_run st ops.
Proof.
  intros HS. induction ops as [|o t IH]; intros st pos R Hst Hops Hfin; [exact I|].
  inversion Hops as [|x y Ho Ht]; subst. cbn [W_run].
  assert (Hfo : FinEnd -> op_fin_ok o) by (intros F; specialize (Hfin F); inversion Hfin; assumption).
  assert (Hft : FinEnd -> Forall op_fin_ok t) by (intros F; specialize (Hfin F); inversion Hfin; assumption).
  pose proof (small_W st pos R o HS Hst Ho) as HW. split; [exact HW|].
  destruct (step_spec st pos R o Hst Ho Hfo HW) as [[_ (pos' & _ & _ & Hst')] _].
  eapply IH; eassumption.
Qed.

End Stream.

(* ---------------------------------------------------------------- the in-order path *)
(* A segment whose sequence number is exactly nextSeq, arriving on a connection with nothing
   buffered, is handed over at once, whole, with Skip = 0, and nextSeq advances by its
   length (mod 2^32); FIN/RST closes the connection.  No hypothesis on the stream. *)
Lemma inorder_path st c ns fin rst payload ts goff :
  s_dead st = false -> s_conn st = Some c -> c_queue c = [] -> c_nextSeq c = ns ->
  0 <= ns < uint32Size -> (payload <> [] \/ fin = true \/ rst = true) ->
  let r := step st (Segment ns false fin rst payload ts goff) in
  o_calls (snd r) = [[mkR payload 0 false (rst || fin) ts 0]] /\
  o_new (snd r) = false /\ o_panic (snd r) = false /\ o_done (snd r) = (rst || fin) /\
  (if rst || fin then s_conn (fst r) = None
   else exists c', s_conn (fst r) = Some c' /\ c_nextSeq c' = seq_add ns (lenZ payload) /\ c_queue c' = []).
Proof.
  intros Hd Hc Hq Hns Hr Hne. unfold step. rewrite Hd. unfold assemble.
  assert (Hu : negb false && negb fin && negb rst && isnil payload = false).
  { destruct payload; destruct fin; destruct rst; try reflexivity. destruct Hne as [H|[H|H]]; congruence. }
  rewrite Hu, Hc. unfold assemble_locked.
  assert (Hcc : forall c1 : conn, c_queue c1 = [] -> c_nextSeq c1 = ns ->
    let r := assemble_conn st c1 false ns false fin rst payload ts goff in
    o_calls (snd r) = [[mkR payload 0 false (rst || fin) ts 0]] /\
    o_new (snd r) = false /\ o_panic (snd r) = false /\ o_done (snd r) = (rst || fin) /\
    (if rst || fin then s_conn (fst r) = None
     else exists c', s_conn (fst r) = Some c' /\ c_nextSeq c' = seq_add ns (lenZ payload) /\ c_queue c' = [])).
  { intros c1 Hq1 Hn1. unfold assemble_conn. rewrite Hn1, Hq1. cbn [andb].
    replace (ns =? invalidSequence) with false by (unfold invalidSequence, uint32Size in *; lia).
    rewrite diff_self. cbn [Z.gtb Z.compare].
    unfold byte_span. replace (ns =? invalidSequence) with false by (unfold invalidSequence, uint32Size in *; lia).
    rewrite diff_self. cbn [Z.leb Z.compare]. rewrite Z.sub_diag.
    unfold finish_assemble, send_to_connection, add_contiguous. cbn.
    destruct (rst || fin); cbn; repeat split; try reflexivity.
    eexists; repeat split; reflexivity. }
  destruct (c_lastSeen c <? ts); apply Hcc; cbn [c_queue c_nextSeq]; assumption.
Qed.

(* ---------------------------------------------------------------- sorted queue under insertion *)
Section Sorted.
Variable i : Z.
Variable hi : Z.
Hypothesis Hhi : hi < quarter.

(* page p sits at stream offset o *)
Definition at_off (p : page) (o : Z) : Prop := p_seq p = sq i o /\ 0 <= o <= hi.

(* traverseConn finds the place that keeps the offsets ordered: everything before the
   insertion point is at or before o, everything after it strictly after o *)
Lemma traverse_sorted q : forall offs o a b,
  Forall2 at_off q offs -> StronglySorted Z.le offs -> 0 <= o <= hi ->
  traverse q (sq i o) = (a, b) ->
  exists oa ob, offs = oa ++ ob /\ Forall2 at_off a oa /\ Forall2 at_off b ob /\
                Forall (fun x => x <= o) oa /\ Forall (fun x => o < x) ob.
Proof.
  induction q as [|p t IH]; intros offs o a b HF HS Ho HT.
  - inversion HF; subst. cbn in HT. inversion HT; subst. exists [], []. repeat split; constructor.
  - inversion HF as [|p' op t' ot Hp Ht]; subst. cbn [traverse] in HT.
    destruct (traverse t (sq i o)) as [a1 b1] eqn:E.
    inversion HS as [|x l HS' Hall]; subst.
    destruct (IH ot o a1 b1 Ht HS' Ho E) as (oa1 & ob1 & Hsplit & Ha1 & Hb1 & Hle & Hgt).
    destruct a1 as [|x a1'].
    + inversion Ha1; subst. cbn [app] in *.
      destruct Hp as [Hseq Hop]. rewrite Hseq in HT.
      rewrite diff_sq in HT by (unfold quarter in *; lia).
      destruct (o - op <? 0) eqn:D; inversion HT; subst.
      * exists [], (op :: ob1). repeat split; try constructor; try assumption; try lia; split; assumption.
      * exists [op], ob1. repeat split; try constructor; try assumption; try constructor; try lia; split; assumption.
    + inversion HT; subst. exists (op :: oa1), ob1.
      inversion Ha1 as [|x1 o1 a1'' oa1' Hx Hrest]; subst.
      repeat split; try assumption.
      * constructor; assumption.
      * constructor; [|assumption]. inversion Hle; subst.
        rewrite Forall_forall in Hall. specialize (Hall o1 ltac:(apply in_or_app; left; left; reflexivity)). lia.
Qed.

(* hence inserting a one-page segment keeps the queue sorted by offset *)
Lemma insert_one_sorted oa ob o :
  StronglySorted Z.le (oa ++ ob) -> Forall (fun x => x <= o) oa -> Forall (fun x => o < x) ob ->
  StronglySorted Z.le (oa ++ o :: ob).
Proof.
  induction oa as [|x oa IH]; intros HS Hle Hgt; cbn [app] in *.
  - constructor; [exact HS|]. eapply Forall_impl; [|exact Hgt]. cbn; intros; lia.
  - inversion HS as [|y l HS' Hall]; subst. inversion Hle; subst.
    constructor; [apply IH; assumption|].
    apply Forall_app in Hall. destruct Hall as [Ha1 Ha2].
    apply Forall_app; split; [exact Ha1|]. constructor; [lia|exact Ha2].
Qed.
End Sorted.
