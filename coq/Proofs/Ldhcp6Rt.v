(* Ldhcp6Rt — the DHCPv6 round trip: closed form of the serializer over the zeroed message (zero-tiling lemmas of Ldhcp4Ser)
   and read-back of the option list by the decoder loop. *)
From GP Require Import Base ListX Codec MiscLib Ldhcp6Model Ldhcp4Ser.
From Coq Require Import Lia ZifyBool ZifyNat.
Open Scope Z_scope.
Ltac Zify.zify_post_hook ::= Z.div_mod_to_equations.

Definition d6_opt_wf (o : opt6) : Prop := 0 <= o6_code o < 65536 /\ o6_len o = zlen (o6_data o) /\ zlen (o6_data o) < 65536 /\ bytes_ok (o6_data o).
Definition d6_obytes (o : opt6) : list Z := cd_put16 (o6_code o) ++ cd_put16 (o6_len o) ++ o6_data o.
Definition d6_osbytes (os : list opt6) : list Z := concat (map d6_obytes os).

Lemma d6_obytes_len o : zlen (d6_obytes o) = 4 + zlen (o6_data o).
Proof. unfold d6_obytes. rewrite !zlen_app, !zlen_put16. lia. Qed.
Lemma d6_osbytes_len os : Forall d6_opt_wf os -> zlen (d6_osbytes os) = d6_optsum os /\ 4 * Z.of_nat (length os) <= d6_optsum os.
Proof.
  induction 1 as [|o r [_ [Hl _]] _ [IH1 IH2]]; [split; reflexivity|].
  unfold d6_osbytes in *. cbn [map concat d6_optsum fold_right length]. fold (d6_optsum r). rewrite zlen_app, d6_obytes_len, IH1.
  pose proof (zlen_nonneg (o6_data o)). split; lia.
Qed.

Lemma d6_fix_id os : Forall d6_opt_wf os -> map d6_fixopt os = os.
Proof.
  induction 1 as [|o r [_ [Hl [Hm _]]] _ IH]; [reflexivity|]. cbn [map]. rewrite IH. f_equal.
  unfold d6_fixopt. pose proof (zlen_nonneg (o6_data o)). rewrite Z.mod_small by lia. rewrite <- Hl. destruct o; reflexivity.
Qed.

(* the option writes extend the written prefix by the option octets *)
Lemma d6_ser_opts_zt fixl n : forall os b pre, zt b pre n -> Forall d6_opt_wf os -> zlen pre + d6_optsum os <= n ->
  exists b', d6_ser_opts fixl b (zlen pre) os = Ok b' /\ zt b' (pre ++ d6_osbytes os) n.
Proof.
  induction os as [|o r IH]; intros b pre T H Hle.
  - exists b. split; [reflexivity|]. unfold d6_osbytes. cbn [map concat]. rewrite app_nil_r. exact T.
  - inversion H as [|? ? [Hc [Hl [Hm Hb]]] Hr]; subst. pose proof (proj2 (d6_osbytes_len r Hr)) as Nr. pose proof (zlen_nonneg (o6_data o)) as Nd.
    cbn [d6_optsum fold_right] in Hle. fold (d6_optsum r) in Hle. cbn [d6_ser_opts].
    destruct (zt_wrc b pre n (zlen pre) (cd_put16 (o6_code o)) T eq_refl) as [E1 T1]; [rewrite zlen_put16; lia|]. rewrite E1. cbn [obind].
    assert (Lv : (if fixl then zlen (o6_data o) mod 65536 else o6_len o) = o6_len o) by (destruct fixl; [rewrite Z.mod_small by lia; lia|reflexivity]).
    rewrite Lv.
    assert (P1 : zlen pre + 2 = zlen (pre ++ cd_put16 (o6_code o))) by (rewrite zlen_app, zlen_put16; lia). rewrite P1.
    destruct (zt_wrc _ _ n _ (cd_put16 (o6_len o)) T1 eq_refl) as [E2 T2]; [rewrite zlen_app, !zlen_put16; lia|]. rewrite E2. cbn [obind].
    assert (P2 : zlen pre + 4 = zlen ((pre ++ cd_put16 (o6_code o)) ++ cd_put16 (o6_len o))) by (rewrite !zlen_app, !zlen_put16; lia). rewrite P2.
    destruct (zt_copy _ _ n _ (o6_data o) T2 eq_refl) as [b3 [E3 T3]]; [rewrite !zlen_app, !zlen_put16; lia|]. rewrite E3. cbn [obind].
    assert (Pre : ((pre ++ cd_put16 (o6_code o)) ++ cd_put16 (o6_len o)) ++ o6_data o = pre ++ d6_obytes o) by (unfold d6_obytes; rewrite <- !app_assoc; reflexivity).
    rewrite Pre in T3.
    assert (P3 : zlen pre + o6_len o + 4 = zlen (pre ++ d6_obytes o)) by (rewrite zlen_app, d6_obytes_len; lia). rewrite P3.
    destruct (IH b3 (pre ++ d6_obytes o) T3 Hr) as [b' [E T']]; [rewrite zlen_app, d6_obytes_len; lia|].
    exists b'. split; [exact E|]. unfold d6_osbytes in *. cbn [map concat]. rewrite app_assoc. exact T'.
Qed.

(* the decoder loop reads the option octets back *)
Lemma d6_loop_read : forall os pre fuel, Forall d6_opt_wf os -> (length os < fuel)%nat ->
  d6_loop false (pre ++ d6_osbytes os) (zlen pre) fuel = Ok (os, true).
Proof.
  induction os as [|o r IH]; intros pre fuel H Hf.
  - destruct fuel as [|f]; [lia|]. unfold d6_osbytes. cbn [map concat d6_loop]. rewrite app_nil_r.
    destruct (zlen pre <=? zlen pre) eqn:C; [reflexivity|lia].
  - inversion H as [|? ? [Hc [Hl [Hm Hb]]] Hr]; subst. destruct fuel as [|f]; [cbn [length] in Hf; lia|]. cbn [length] in Hf.
    pose proof (zlen_nonneg (o6_data o)) as Nd. pose proof (zlen_nonneg pre) as Np.
    unfold d6_osbytes. cbn [map concat]. fold (d6_osbytes r). set (tl := d6_osbytes r). pose proof (zlen_nonneg tl) as Nt.
    remember (pre ++ d6_obytes o ++ tl) as data eqn:Ed.
    assert (Hn : zlen data = zlen pre + (4 + zlen (o6_data o)) + zlen tl) by (rewrite Ed, !zlen_app, d6_obytes_len; lia).
    cbn [d6_loop].
    destruct (zlen data <=? zlen pre) eqn:C0.
    { lia. }
    rewrite cd_slc_ok by lia.
    cbn [obind].
    assert (S : slice data (Z.to_nat (zlen pre)) (Z.to_nat (zlen data)) = d6_obytes o ++ tl).
    { rewrite Ed. apply slice_to_end; [unfold zlen; lia|]. rewrite zlen_app. unfold zlen. lia. }
    rewrite S. remember (d6_obytes o ++ tl) as rest eqn:Er.
    assert (Hrl : zlen rest = 4 + zlen (o6_data o) + zlen tl) by (rewrite Er, zlen_app, d6_obytes_len; lia).
    destruct (zlen rest <? 4) eqn:C1; [lia|]. rewrite !cd_rd16_ok by lia. cbn [obind].
    assert (N0 : nth (Z.to_nat 0) rest 0 = (o6_code o / 256) mod 256) by (rewrite Er; reflexivity).
    assert (N1 : nth (Z.to_nat (0 + 1)) rest 0 = o6_code o mod 256) by (rewrite Er; reflexivity).
    assert (N2 : nth (Z.to_nat 2) rest 0 = (o6_len o / 256) mod 256) by (rewrite Er; reflexivity).
    assert (N3 : nth (Z.to_nat (2 + 1)) rest 0 = o6_len o mod 256) by (rewrite Er; reflexivity).
    rewrite N0, N1, N2, N3. rewrite (cd_put16_be (o6_code o)) by lia. rewrite (cd_put16_be (o6_len o)) by lia.
    destruct (zlen rest <? 4 + o6_len o) eqn:C2; [lia|]. rewrite cd_slc_ok by lia. cbn [obind].
    assert (S2 : slice rest (Z.to_nat 4) (Z.to_nat (4 + o6_len o)) = o6_data o).
    { rewrite Er. unfold d6_obytes. rewrite <- !app_assoc. change (cd_put16 (o6_code o) ++ cd_put16 (o6_len o) ++ o6_data o ++ tl) with ((cd_put16 (o6_code o) ++ cd_put16 (o6_len o)) ++ o6_data o ++ tl).
      apply slice_at; [reflexivity|]. change (length (cd_put16 (o6_code o) ++ cd_put16 (o6_len o))) with 4%nat. unfold zlen in *. lia. }
    rewrite S2.
    assert (E : data = (pre ++ d6_obytes o) ++ tl) by (rewrite Ed, Er; apply app_assoc).
    assert (Z' : zlen pre + o6_len o + 4 = zlen (pre ++ d6_obytes o)) by (rewrite zlen_app, d6_obytes_len; lia).
    rewrite E, Z'. unfold tl. rewrite (IH (pre ++ d6_obytes o) f Hr) by lia. cbn [obind fst snd]. destruct o; reflexivity.
Qed.

(* ---------------------------------------------------------------- closed form of the serializer and the round trip *)
Definition d6_wf (l : dhcp6) : Prop :=
  0 <= d6_mt l < 256 /\ Forall d6_opt_wf (d6_opts l) /\
  (if d6_relay (d6_mt l) then 0 <= d6_hop l < 256 /\ zlen (d6_link l) = 16 /\ zlen (d6_peer l) = 16 /\ bytes_ok (d6_link l) /\ bytes_ok (d6_peer l) /\ d6_xid l = []
   else zlen (d6_xid l) = 3 /\ bytes_ok (d6_xid l) /\ d6_hop l = 0 /\ d6_link l = [] /\ d6_peer l = []).

Lemma d6_zero_region n junk : map (fun _ : Z => 0) (cd_region n junk) = repeat 0 (Z.to_nat n).
Proof.
  assert (G : forall l : list Z, map (fun _ : Z => 0) l = repeat 0 (length l)) by (induction l as [|x l IH]; cbn; [reflexivity|rewrite IH; reflexivity]).
  rewrite G. f_equal. unfold cd_region. rewrite firstn_length, app_length, repeat_length. lia.
Qed.
Lemma firstn_whole (l : list Z) k : zlen l = Z.of_nat k -> firstn k l = l.
Proof. intros H. apply firstn_all2. unfold zlen in H. lia. Qed.

Ltac zl := repeat (rewrite zlen_app || rewrite zlen_cons); change (zlen (@nil Z)) with 0 in *; lia.
Definition d6_hdr (l : dhcp6) : list Z :=
  if d6_relay (d6_mt l) then [d6_mt l; d6_hop l] ++ d6_link l ++ d6_peer l else d6_mt l :: d6_xid l.

Lemma d6_serialize_closed l fixl csum junk : d6_wf l ->
  d6_serialize l [] fixl csum junk = (Ok (d6_hdr l ++ d6_osbytes (d6_opts l)), l) /\ zlen (d6_hdr l ++ d6_osbytes (d6_opts l)) = d6_len l.
Proof.
  intros [Hmt [Hos Hk]]. unfold d6_serialize, d6_serialize_gen. cbv zeta. rewrite d6_zero_region.
  assert (L : (if fixl && negb false then mkD6 (d6_contents l) (d6_payload l) (d6_mt l) (d6_hop l) (d6_link l) (d6_peer l) (d6_xid l) (map d6_fixopt (d6_opts l)) else l) = l).
  { destruct fixl; cbn [andb negb]; [|reflexivity]. rewrite (d6_fix_id _ Hos). destruct l; reflexivity. }
  rewrite L. destruct (d6_osbytes_len _ Hos) as [Ol Og].
  set (n := d6_len l). assert (Nn : 4 <= n) by (unfold n, d6_len; destruct (d6_relay (d6_mt l)); lia).
  pose proof (zt_init n ltac:(lia)) as T0.
  destruct (zt_wrc _ _ n 0 [d6_mt l mod 256] T0 eq_refl) as [E1 T1]; [zl|]. rewrite E1. cbn [obind].
  rewrite Z.mod_small in * by lia. unfold d6_hdr. unfold n, d6_len in *. destruct (d6_relay (d6_mt l)).
  - destruct Hk as [Hh [Hl [Hp [Bl [Bp Hx]]]]].
    destruct (zt_wrc _ _ _ 1 [d6_hop l mod 256] T1 eq_refl) as [E2 T2]; [zl|]. rewrite E2. cbn [obind].
    rewrite Z.mod_small in * by lia.
    assert (K1 : firstn 16 (d6_to16 (d6_link l)) = d6_link l) by (unfold d6_to16; rewrite Hl; cbn [Z.eqb Pos.eqb]; apply firstn_whole; exact Hl).
    assert (K2 : firstn 16 (d6_to16 (d6_peer l)) = d6_peer l) by (unfold d6_to16; rewrite Hp; cbn [Z.eqb Pos.eqb]; apply firstn_whole; exact Hp).
    rewrite K1, K2.
    destruct (zt_wrc _ _ _ 2 (d6_link l) T2 eq_refl) as [E3 T3]; [zl|]. rewrite E3. cbn [obind].
    destruct (zt_wrc _ _ _ 18 (d6_peer l) T3) as [E4 T4]; [zl|zl|]. rewrite E4. cbn [obind].
    match type of T4 with zt _ ?p _ => set (pre := p) in * end.
    assert (P : zlen pre = 34) by (unfold pre; zl).
    destruct (d6_ser_opts_zt fixl _ (d6_opts l) _ pre T4 Hos) as [b' [E T']]; [lia|]. rewrite <- P. rewrite E.
    apply zt_done in T'; [|rewrite zlen_app; lia]. subst b'. rewrite app_nil_r.
    unfold pre. rewrite <- !app_assoc. cbn [app]. split; [reflexivity|]. zl.
  - destruct Hk as [Hx [Bx [Hh [Hl Hp]]]].
    assert (K1 : firstn 3 (d6_xid l) = d6_xid l) by (apply firstn_whole; exact Hx). rewrite K1.
    destruct (zt_wrc _ _ _ 1 (d6_xid l) T1 eq_refl) as [E2 T2]; [zl|]. rewrite E2. cbn [obind].
    match type of T2 with zt _ ?p _ => set (pre := p) in * end.
    assert (P : zlen pre = 4) by (unfold pre; zl).
    destruct (d6_ser_opts_zt fixl _ (d6_opts l) _ pre T2 Hos) as [b' [E T']]; [lia|]. rewrite <- P. rewrite E.
    apply zt_done in T'; [|rewrite zlen_app; lia]. subst b'. rewrite app_nil_r. unfold pre. cbn [app]. split; [reflexivity|]. zl.
Qed.

Theorem d6_roundtrip : forall l fixl csum junk bytes l' old,
  d6_wf l -> d6_serialize l [] fixl csum junk = (Ok bytes, l') ->
  d6_opts l' = d6_opts l /\ zlen bytes = d6_len l /\
  d6_decode_into old bytes = (mkD6 bytes [] (d6_mt l) (d6_hop l) (d6_link l) (d6_peer l) (d6_xid l) (d6_opts l), Ok tt, false).
Proof.
  intros l fixl csum junk bytes l' old W. destruct (d6_serialize_closed l fixl csum junk W) as [E Ln]. rewrite E. intros X.
  assert (E1 : bytes = d6_hdr l ++ d6_osbytes (d6_opts l)) by congruence. assert (E2 : l' = l) by congruence. clear X E. subst l'.
  split; [reflexivity|]. rewrite <- E1 in Ln. split; [exact Ln|].
  destruct W as [Hmt [Hos Hk]]. destruct (d6_osbytes_len _ Hos) as [Ol Og].
  assert (Nn : 4 <= zlen bytes) by (rewrite Ln; unfold d6_len; destruct (d6_relay (d6_mt l)); lia).
  assert (Fu : (length (d6_opts l) < Z.to_nat (zlen bytes + 1))%nat) by (rewrite Ln; unfold d6_len; destruct (d6_relay (d6_mt l)); lia).
  unfold d6_decode_into, d6_decode_gen. cbv zeta. destruct (zlen bytes <? 4) eqn:C; [lia|].
  rewrite (cd_idx_ok bytes 0) by lia. cbn [ml_bind].
  assert (N0 : nth (Z.to_nat 0) bytes 0 = d6_mt l) by (rewrite E1; unfold d6_hdr; destruct (d6_relay (d6_mt l)); reflexivity).
  rewrite N0. unfold d6_hdr, d6_len in *. destruct (d6_relay (d6_mt l)).
  - destruct Hk as [Hh [Hl [Hp [Bl [Bp Hx]]]]]. destruct (zlen bytes <? 34) eqn:C2; [lia|].
    rewrite cd_idx_ok by lia. rewrite !cd_slc_ok by lia. cbn [ml_bind].
    assert (N1 : nth (Z.to_nat 1) bytes 0 = d6_hop l) by (rewrite E1; reflexivity). rewrite N1.
    assert (S1 : slice bytes (Z.to_nat 2) (Z.to_nat 18) = d6_link l).
    { rewrite E1. rewrite <- !app_assoc. apply slice_at; [reflexivity|]. unfold zlen in Hl. cbn [length]. lia. }
    assert (S2 : slice bytes (Z.to_nat 18) (Z.to_nat 34) = d6_peer l).
    { rewrite E1. rewrite <- !app_assoc. rewrite (app_assoc [d6_mt l; d6_hop l]). apply slice_at; unfold zlen in *; rewrite app_length; cbn [length]; lia. }
    rewrite S1, S2.
    set (pre := [d6_mt l; d6_hop l] ++ d6_link l ++ d6_peer l) in *.
    assert (P : zlen pre = 34) by (unfold pre; rewrite !zlen_app, !zlen_cons; change (zlen []) with 0; lia).
    rewrite E1 at 1. rewrite <- P. rewrite (d6_loop_read (d6_opts l) pre _ Hos Fu). cbn [ml_bind fst snd d6_hop d6_link d6_peer d6_xid].
    rewrite Hx. reflexivity.
  - destruct Hk as [Hx [Bx [Hh [Hl Hp]]]]. rewrite !cd_slc_ok by lia. cbn [ml_bind].
    assert (S1 : slice bytes (Z.to_nat 1) (Z.to_nat 4) = d6_xid l).
    { rewrite E1. change (d6_mt l :: d6_xid l) with ([d6_mt l] ++ d6_xid l). rewrite <- app_assoc. apply slice_at; [reflexivity|]. unfold zlen in Hx. cbn [length]. lia. }
    rewrite S1.
    set (pre := d6_mt l :: d6_xid l) in *.
    assert (P : zlen pre = 4) by (unfold pre; rewrite zlen_cons; lia).
    rewrite E1 at 1. rewrite <- P. rewrite (d6_loop_read (d6_opts l) pre _ Hos Fu). cbn [ml_bind fst snd d6_hop d6_link d6_peer d6_xid].
    rewrite Hh, Hl, Hp. reflexivity.
Qed.
Print Assumptions d6_roundtrip.
