(* Lemmas about the Ethernet codec model (Model/LethModel.v). *)
From GP Require Import Base ListX Codec LethModel.
From Coq Require Import Lia ZifyBool ZifyNat.
Open Scope Z_scope.
Ltac Zify.zify_post_hook ::= Z.div_mod_to_equations.

Lemma ezlen_nonneg (a : list Z) : 0 <= zlen a.
Proof. unfold zlen. lia. Qed.

Lemma bytes_nth (l : list Z) i : bytes_ok l -> 0 <= nth i l 0 < 256.
Proof.
  intros H. destruct (Nat.lt_ge_cases i (length l)) as [L|L].
  - unfold bytes_ok in H. rewrite Forall_forall in H. apply H. apply nth_In. exact L.
  - rewrite nth_overflow by lia. lia.
Qed.

Lemma ecd_slc_len l a b v : cd_slc l a b = Ok v -> zlen v = b - a.
Proof.
  unfold cd_slc. destruct (0 <=? a) eqn:A, (a <=? b) eqn:B, (b <=? zlen l) eqn:C; cbn; try discriminate.
  intros E; inversion E. unfold zlen in *. rewrite slice_length by lia. lia.
Qed.

(* ------------------------------------------------------------------ C19 *)
Lemma eth_decode_no_panic old data : bytes_ok data -> is_panic (snd (fst (eth_decode_into old data))) = false.
Proof.
  intros Hb. unfold eth_decode_into. cbv zeta.
  destruct (zlen data <? 14) eqn:Hn; [reflexivity|].
  rewrite (cd_slc_ok data 0 6), (cd_slc_ok data 6 12), (cd_slc_ok data 0 14), (cd_slc_ok data 14 (zlen data)) by lia.
  rewrite cd_rd16_ok by lia. cbn [ebind].
  set (ty := nth (Z.to_nat 12) data 0 * 256 + nth (Z.to_nat (12 + 1)) data 0).
  assert (Hty : 0 <= ty) by (unfold ty; pose proof (bytes_nth data (Z.to_nat 12) Hb); pose proof (bytes_nth data (Z.to_nat (12+1)) Hb); lia).
  set (p := slice data (Z.to_nat 14) (Z.to_nat (zlen data))).
  destruct (ty <? 1536); [|reflexivity].
  destruct (zlen p - ty <? 0) eqn:A; [reflexivity|].
  destruct (zlen p - ty >? 0) eqn:B; [|reflexivity].
  rewrite cd_slc_ok by lia. reflexivity.
Qed.

(* without the byte-range hypothesis the model does have a Panic outcome (a negative "byte"
   makes the length negative): the hypothesis is needed, and is what Go's []byte guarantees *)

(* ------------------------------------------------------------------ C05, C01 *)
Ltac estep :=
  match goal with
  | |- context [ebind ?o _ _ _] => destruct o eqn:?; cbn [ebind]
  | |- context [if ?c then _ else _] => destruct c eqn:?
  end.

Lemma eth_decode_fresh old data :
  let r1 := eth_decode_into old data in
  let r2 := eth_decode_into eth_fresh data in
  snd (fst r1) = snd (fst r2) /\ snd r1 = snd r2 /\
  (snd (fst r1) = Ok tt -> fst (fst r1) = fst (fst r2)).
Proof.
  cbv zeta. unfold eth_decode_into. cbv zeta.
  repeat (estep; try solve [cbn [fst snd]; split; [reflexivity | split; [reflexivity | try (intros X; discriminate X); try reflexivity]]]).
  all: cbn [fst snd]; split; [reflexivity | split; [reflexivity | intros _; reflexivity]].
Qed.

Lemma eth_decode_render old data :
  eth_render_panics old = false -> eth_render_panics (fst (fst (eth_decode_into old data))) = false.
Proof.
  intros H. unfold eth_decode_into. cbv zeta.
  repeat (estep; try solve [cbn; exact H]).
  all: cbn [fst snd]; unfold eth_render_panics; cbn [e_src e_dst];
    repeat match goal with E : cd_slc _ _ _ = Ok _ |- _ => apply ecd_slc_len in E end; lia.
Qed.

(* ------------------------------------------------------------------ serialization = junk-free spec *)
Definition eth_lenmode (l : eth) : bool := negb (e_length l =? 0) || (e_type l =? 0).

Definition eth_fix (l : eth) (payload : list Z) (fixl : bool) : eth :=
  if eth_lenmode l then (if fixl then eth_set_length l (zlen payload mod 65536) else l) else l.

Definition eth_padding (payload : list Z) : list Z := repeat 0 (Z.to_nat (46 - zlen payload)).

Definition eth_ser_spec (fixed : bool) (l : eth) (payload : list Z) (fixl : bool) : outcome (list Z) * eth :=
  if negb (zlen (e_dst l) =? 6) then (Err 1, l) else
  if negb (zlen (e_src l) =? 6) then (Err 2, l) else
  let l1 := eth_fix l payload fixl in
  if eth_lenmode l then
    if negb (e_type l =? 0) then (Err 3, l1)
    else if (if fixed then e_length l1 >=? 1536 else e_length l1 >? 1536) then (Err 4, l1)
    else (Ok (e_dst l ++ e_src l ++ cd_put16 (e_length l1) ++ payload ++ eth_padding payload), l1)
  else (Ok (e_dst l ++ e_src l ++ cd_put16 (e_type l) ++ payload ++ eth_padding payload), l1).

Lemma eth_wrc_ok b i vs : 0 <= i -> i + zlen vs <= zlen b -> eth_wrc b i vs = Ok (cd_wr b i vs).
Proof. intros. unfold eth_wrc. destruct (0 <=? i) eqn:A, (i + zlen vs <=? zlen b) eqn:B; try reflexivity; lia. Qed.

Lemma list14 (h : list Z) : zlen h = 14 ->
  exists a0 a1 a2 a3 a4 a5 a6 a7 a8 a9 b0 b1 b2 b3, h = [a0;a1;a2;a3;a4;a5;a6;a7;a8;a9;b0;b1;b2;b3].
Proof.
  unfold zlen. intros H. do 14 (destruct h as [|? h]; [cbn in H; lia|]). destruct h; [|cbn in H; lia].
  repeat eexists.
Qed.

Lemma list6 (h : list Z) : zlen h = 6 -> exists a0 a1 a2 a3 a4 a5, h = [a0;a1;a2;a3;a4;a5].
Proof.
  unfold zlen. intros H. do 6 (destruct h as [|? h]; [cbn in H; lia|]). destruct h; [|cbn in H; lia].
  repeat eexists.
Qed.

Lemma ezlen_put16 x : zlen (cd_put16 x) = 2. Proof. reflexivity. Qed.

Lemma upd_range_all_e {A} (vs a : list A) : length a = length vs -> upd_range a 0 vs = vs.
Proof. intros H. pose proof (upd_range_prefix vs a [] H) as P. rewrite !app_nil_r in P. exact P. Qed.

Lemma eth_pad_written total junk : 0 <= 60 - total ->
  cd_wr (cd_region (60 - total) junk) 0 (repeat 0 (Z.to_nat (60 - total))) = repeat 0 (Z.to_nat (60 - total)).
Proof.
  intros H. unfold cd_wr. change (Z.to_nat 0) with 0%nat. apply upd_range_all_e.
  rewrite repeat_length. pose proof (cd_region_length (60 - total) junk H) as L. unfold zlen in L. lia.
Qed.

Lemma eth_serialize_spec fixed l payload fixl csum junk :
  eth_serialize_gen fixed l payload fixl csum junk = eth_ser_spec fixed l payload fixl.
Proof.
  unfold eth_serialize_gen, eth_ser_spec. cbv zeta.
  destruct (zlen (e_dst l) =? 6) eqn:Ed; cbn [negb]; [|reflexivity].
  destruct (zlen (e_src l) =? 6) eqn:Es; cbn [negb]; [|reflexivity].
  fold (eth_lenmode l). fold (eth_fix l payload fixl). set (l1 := eth_fix l payload fixl).
  pose proof (cd_region_length 14 junk ltac:(lia)) as Hlen.
  destruct (list14 _ Hlen) as [a0 [a1 [a2 [a3 [a4 [a5 [a6 [a7 [a8 [a9 [b0 [b1 [b2 [b3 E]]]]]]]]]]]]]]. rewrite E in *. clear E.
  destruct (list6 (e_dst l) ltac:(lia)) as [d0 [d1 [d2 [d3 [d4 [d5 Ed']]]]]].
  destruct (list6 (e_src l) ltac:(lia)) as [s0 [s1 [s2 [s3 [s4 [s5 Es']]]]]].
  rewrite Ed', Es'.
  pose proof (ezlen_nonneg payload) as Hp.
  assert (Hpad : forall x, (if 14 + zlen payload <? 60
            then (Ok ([d0;d1;d2;d3;d4;d5;s0;s1;s2;s3;s4;s5] ++ cd_put16 x ++ payload ++
                      cd_wr (cd_region (60 - (14 + zlen payload)) (skipn 14 junk)) 0 (repeat 0 (Z.to_nat (60 - (14 + zlen payload))))), l1)
            else (Ok ([d0;d1;d2;d3;d4;d5;s0;s1;s2;s3;s4;s5] ++ cd_put16 x ++ payload), l1)) =
           (Ok ([d0;d1;d2;d3;d4;d5] ++ [s0;s1;s2;s3;s4;s5] ++ cd_put16 x ++ payload ++ eth_padding payload), l1)).
  { intros x. unfold eth_padding. destruct (14 + zlen payload <? 60) eqn:T.
    - rewrite eth_pad_written by lia. replace (60 - (14 + zlen payload)) with (46 - zlen payload) by lia. reflexivity.
    - replace (Z.to_nat (46 - zlen payload)) with 0%nat by lia. cbn [repeat]. rewrite app_nil_r. reflexivity. }
  do 2 (rewrite eth_wrc_ok by (rewrite ?cd_wr_length; unfold zlen; cbn [length]; lia); cbn [obind]).
  destruct (eth_lenmode l) eqn:M.
  - destruct (e_type l =? 0) eqn:T; cbn [negb]; [|reflexivity].
    destruct (if fixed then e_length l1 >=? 1536 else e_length l1 >? 1536); [reflexivity|].
    rewrite eth_wrc_ok by (rewrite ?cd_wr_length, ?ezlen_put16; unfold zlen; cbn [length]; lia).
    unfold cd_wr. change (Z.to_nat 0) with 0%nat; change (Z.to_nat 6) with 6%nat; change (Z.to_nat 12) with 12%nat.
    cbn [cd_put16 upd_range upd]. rewrite <- Hpad. cbn [cd_put16 app]. reflexivity.
  - rewrite eth_wrc_ok by (rewrite ?cd_wr_length, ?ezlen_put16; unfold zlen; cbn [length]; lia).
    unfold cd_wr. change (Z.to_nat 0) with 0%nat; change (Z.to_nat 6) with 6%nat; change (Z.to_nat 12) with 12%nat.
    cbn [cd_put16 upd_range upd]. rewrite <- Hpad. cbn [cd_put16 app]. reflexivity.
Qed.

Lemma eth_serialize_junk_free fixed l payload fixl csum junk1 junk2 :
  eth_serialize_gen fixed l payload fixl csum junk1 = eth_serialize_gen fixed l payload fixl csum junk2.
Proof. rewrite !eth_serialize_spec. reflexivity. Qed.

Lemma eth_serialize_no_panic fixed l payload fixl csum junk :
  is_panic (fst (eth_serialize_gen fixed l payload fixl csum junk)) = false.
Proof.
  rewrite eth_serialize_spec. unfold eth_ser_spec. cbv zeta.
  repeat match goal with |- context [if ?c then _ else _] => destruct c end; reflexivity.
Qed.

(* ------------------------------------------------------------------ C06 round trip *)
Lemma slice14 (a0 a1 a2 a3 a4 a5 a6 a7 a8 a9 b0 b1 b2 b3 : Z) p :
  slice (a0 :: a1 :: a2 :: a3 :: a4 :: a5 :: a6 :: a7 :: a8 :: a9 :: b0 :: b1 :: b2 :: b3 :: p) 14 (14 + length p) = p.
Proof.
  unfold slice.
  replace (14 + length p)%nat with (length (a0 :: a1 :: a2 :: a3 :: a4 :: a5 :: a6 :: a7 :: a8 :: a9 :: b0 :: b1 :: b2 :: b3 :: p))
    by (cbn [length]; lia).
  rewrite firstn_all. reflexivity.
Qed.

Lemma eth_decode_frame dst src x rest old :
  zlen dst = 6 -> zlen src = 6 -> 0 <= x < 65536 ->
  eth_decode_into old (dst ++ src ++ cd_put16 x ++ rest) =
  if x <? 1536 then
    (if zlen rest - x <? 0 then (mkEth (dst ++ src ++ cd_put16 x) rest src dst 0 x, Ok tt, true)
     else (mkEth (dst ++ src ++ cd_put16 x) (firstn (Z.to_nat x) rest) src dst 0 x, Ok tt, false))
  else (mkEth (dst ++ src ++ cd_put16 x) rest src dst x 0, Ok tt, false).
Proof.
  intros Hd Hs Hx.
  destruct (list6 dst Hd) as [d0 [d1 [d2 [d3 [d4 [d5 ->]]]]]].
  destruct (list6 src Hs) as [s0 [s1 [s2 [s3 [s4 [s5 ->]]]]]].
  unfold eth_decode_into. cbv zeta. cbn [cd_put16 app].
  match goal with |- context [zlen ?d <? 14] => set (data := d) end.
  assert (Hn : zlen data = 14 + zlen rest) by (unfold data, zlen; cbn [length]; lia).
  pose proof (ezlen_nonneg rest) as Hr.
  destruct (zlen data <? 14) eqn:A; [lia|].
  rewrite (cd_slc_ok data 0 6), (cd_slc_ok data 6 12), (cd_slc_ok data 0 14), (cd_slc_ok data 14 (zlen data)) by lia.
  rewrite cd_rd16_ok by lia. cbn [ebind].
  replace (Z.to_nat (zlen data)) with (14 + length rest)%nat by (unfold zlen in *; lia).
  change (Z.to_nat (12 + 1)) with 13%nat; change (Z.to_nat 0) with 0%nat; change (Z.to_nat 6) with 6%nat;
  change (Z.to_nat 12) with 12%nat; change (Z.to_nat 14) with 14%nat.
  subst data. rewrite slice14. cbn [nth slice firstn skipn].
  rewrite cd_put16_be by lia.
  destruct (x <? 1536) eqn:X; [|reflexivity].
  destruct (zlen rest - x <? 0) eqn:B; [reflexivity|].
  destruct (zlen rest - x >? 0) eqn:C.
  - rewrite cd_slc_ok by lia. cbn [ebind]. replace (zlen rest - (zlen rest - x)) with x by lia.
    unfold slice. change (Z.to_nat 0) with 0%nat. cbn [skipn]. reflexivity.
  - replace (Z.to_nat x) with (length rest) by (unfold zlen in *; lia). rewrite firstn_all. reflexivity.
Qed.

Lemma zlen_app_e (a b : list Z) : zlen (a ++ b) = zlen a + zlen b.
Proof. unfold zlen. rewrite app_length. lia. Qed.

Lemma eth_padding_empty payload : 46 <= zlen payload -> eth_padding payload = [].
Proof. intros H. unfold eth_padding. replace (Z.to_nat (46 - zlen payload)) with 0%nat by lia. reflexivity. Qed.

Lemma eth_padding_len_full payload : zlen payload < 46 ->
  repeat 0 (Z.to_nat (46 - zlen (payload ++ eth_padding payload))) = [].
Proof.
  intros H. rewrite zlen_app_e. unfold eth_padding at 1. unfold zlen at 2. rewrite repeat_length.
  replace (Z.to_nat (46 - (zlen payload + Z.of_nat (Z.to_nat (46 - zlen payload))))) with 0%nat by (unfold zlen in *; lia).
  reflexivity.
Qed.

Lemma eth_padding_idem payload : eth_padding (payload ++ eth_padding payload) = [].
Proof.
  destruct (Z.ltb_spec (zlen payload) 46).
  - unfold eth_padding at 1. apply eth_padding_len_full. lia.
  - rewrite (eth_padding_empty payload) by lia. rewrite app_nil_r. apply eth_padding_empty. lia.
Qed.

Definition eth_wf (l : eth) : Prop :=
  e_type l = 0 \/ (1536 <= e_type l < 65536 /\ e_length l = 0).

Lemma eth_padding_len payload : zlen payload < 46 -> zlen (payload ++ eth_padding payload) = 46.
Proof. intros H. unfold eth_padding, zlen in *. rewrite app_length, repeat_length. lia. Qed.

Lemma eth_roundtrip l payload csum junk bytes l' old :
  eth_wf l -> zlen payload < 65536 ->
  eth_serialize l payload true csum junk = (Ok bytes, l') ->
  bytes = e_dst l ++ e_src l ++ cd_put16 (if e_type l =? 0 then zlen payload else e_type l) ++ payload ++ eth_padding payload /\
  e_type l' = e_type l /\ e_length l' = (if e_type l =? 0 then zlen payload else 0) /\
  eth_decode_into old bytes =
    (mkEth (e_dst l ++ e_src l ++ cd_put16 (if e_type l =? 0 then zlen payload else e_type l))
           (if e_type l =? 0 then payload else payload ++ eth_padding payload)
           (e_src l) (e_dst l) (e_type l') (e_length l'), Ok tt, false).
Proof.
  intros Hwf Hp. unfold eth_serialize. rewrite eth_serialize_spec. unfold eth_ser_spec. cbv zeta.
  pose proof (ezlen_nonneg payload) as Hp0.
  destruct (zlen (e_dst l) =? 6) eqn:Ed; cbn [negb]; [|discriminate].
  destruct (zlen (e_src l) =? 6) eqn:Es; cbn [negb]; [|discriminate].
  unfold eth_fix, eth_lenmode.
  destruct Hwf as [T|[T L]].
  - rewrite T. cbn [Z.eqb orb negb]. rewrite Bool.orb_true_r. cbn [eth_set_length e_length e_type].
    rewrite (Z.mod_small (zlen payload) 65536) by lia.
    destruct (zlen payload >=? 1536) eqn:G; [discriminate|].
    intros X; inversion X; subst bytes l'. clear X. cbn [e_type e_length eth_set_length].
    split; [reflexivity|]. split; [exact T|]. split; [reflexivity|].
    repeat match goal with |- context [(?x / 256) mod 256 :: ?x mod 256 :: ?r] =>
      change ((x / 256) mod 256 :: x mod 256 :: r) with (cd_put16 x ++ r) end.
    rewrite eth_decode_frame by lia.
    destruct (zlen payload <? 1536) eqn:G2; [|lia].
    rewrite zlen_app_e.
    destruct (zlen payload + zlen (eth_padding payload) - zlen payload <? 0) eqn:B; [pose proof (ezlen_nonneg (eth_padding payload)); lia|].
    replace (Z.to_nat (zlen payload)) with (length payload + 0)%nat by (unfold zlen; lia).
    rewrite firstn_app_2. cbn [firstn]. rewrite app_nil_r. rewrite T. reflexivity.
  - assert (T0 : (e_type l =? 0) = false) by lia. rewrite T0, L. cbn [Z.eqb negb orb].
    intros X; inversion X; subst bytes l'. clear X.
    split; [reflexivity|]. split; [reflexivity|]. split; [exact L|].
    repeat match goal with |- context [(?x / 256) mod 256 :: ?x mod 256 :: ?r] =>
      change ((x / 256) mod 256 :: x mod 256 :: r) with (cd_put16 x ++ r) end.
    rewrite eth_decode_frame by lia.
    destruct (e_type l <? 1536) eqn:G; [lia|]. rewrite L. reflexivity.
Qed.

(* re-serializing the decoded layer over the payload it decoded to gives the same bytes *)
Lemma eth_fixpoint l payload csum junk junk' bytes l' d tr :
  eth_wf l -> zlen payload < 65536 ->
  eth_serialize l payload true csum junk = (Ok bytes, l') ->
  eth_decode_into eth_fresh bytes = (d, Ok tt, tr) ->
  fst (eth_serialize d (e_payload d) true csum junk') = Ok bytes.
Proof.
  intros Hwf Hp H D. destruct (eth_roundtrip l payload csum junk bytes l' eth_fresh Hwf Hp H) as [Eb [Et [El Ed]]].
  rewrite Ed in D. inversion D; subst d tr. clear D. cbn [e_payload].
  revert H. unfold eth_serialize. rewrite !eth_serialize_spec. unfold eth_ser_spec. cbv zeta.
  cbn [e_dst e_src e_type e_length].
  destruct (zlen (e_dst l) =? 6) eqn:Ed6; cbn [negb]; [|discriminate].
  destruct (zlen (e_src l) =? 6) eqn:Es6; cbn [negb]; [|discriminate].
  unfold eth_fix, eth_lenmode. cbn [e_type e_length eth_set_length].
  pose proof (ezlen_nonneg payload) as Hp0.
  destruct Hwf as [T|[T L]].
  - rewrite Et, T. cbn [Z.eqb orb negb]. rewrite !Bool.orb_true_r. cbn [eth_set_length e_length e_type fst].
    rewrite (Z.mod_small (zlen payload) 65536) by lia.
    destruct (zlen payload >=? 1536) eqn:G; [discriminate|]. intros X; inversion X; subst. cbn [fst]. rewrite ?T. reflexivity.
  - assert (T0 : (e_type l =? 0) = false) by lia. rewrite Et, El, T0, L. cbn [Z.eqb negb orb fst].
    intros X; inversion X; subst. rewrite eth_padding_idem, app_nil_r. reflexivity.
Qed.

Lemma eth_decoded_wf old data l tr : bytes_ok data -> eth_decode_into old data = (l, Ok tt, tr) -> eth_wf l.
Proof.
  intros Hb. unfold eth_decode_into. cbv zeta.
  destruct (zlen data <? 14) eqn:Hn; [discriminate|].
  rewrite (cd_slc_ok data 0 6), (cd_slc_ok data 6 12), (cd_slc_ok data 0 14), (cd_slc_ok data 14 (zlen data)) by lia.
  rewrite cd_rd16_ok by lia. cbn [ebind].
  set (ty := nth (Z.to_nat 12) data 0 * 256 + nth (Z.to_nat (12 + 1)) data 0).
  assert (Hty : 0 <= ty < 65536) by (unfold ty; pose proof (bytes_nth data (Z.to_nat 12) Hb); pose proof (bytes_nth data (Z.to_nat (12+1)) Hb); lia).
  destruct (ty <? 1536) eqn:T.
  - repeat match goal with |- context [if ?c then _ else _] => destruct c end;
      try (destruct (cd_slc _ _ _); cbn [ebind]); intros X; inversion X; left; reflexivity.
  - intros X; inversion X. right. cbn. lia.
Qed.
