(* C11, tcpassembly: invariants of the pool model (C11TModel) over every history. *)
From GP Require Import Base C11Common C11TModel C11LogProofs.
From Coq Require Import Lia ZifyBool.
Open Scope Z_scope.

Definition qlen (c : tconn) : Z := zlen (tc_queue c).
Definition qsum (l : list tconn) : Z := fold_right (fun c a => qlen c + a) 0 l.
Definition conn_ok (c : tconn) : Prop := tc_pages c = qlen c.

Lemma qsum_app : forall a b, qsum (a ++ b) = qsum a + qsum b.
Proof. induction a as [|x a IH]; intros b; [reflexivity|]. cbn [app]. change (qlen x + qsum (a ++ b) = qlen x + qsum a + qsum b). rewrite IH. lia. Qed.
Lemma qsum_cons : forall c l, qsum (c :: l) = qlen c + qsum l.
Proof. reflexivity. Qed.
Lemma qlen_nonneg : forall c, 0 <= qlen c.
Proof. intros. apply zlen_nonneg. Qed.
Lemma qsum_nonneg : forall l, 0 <= qsum l.
Proof. induction l as [|c l IH]; [cbn; lia|]. rewrite qsum_cons. pose proof (qlen_nonneg c). lia. Qed.

(* ------------------------------------------------------------------ shrinking steps *)
(* relation between a connection/used before and a work after steps that only pop pages *)
Definition wrel (c : tconn) (u : Z) (w : twork) : Prop :=
  w_used w - qlen (w_c w) = u - qlen c /\ conn_ok (w_c w) /\
  tc_sid (w_c w) = tc_sid c /\ tc_key (w_c w) = tc_key c /\ tc_seen (w_c w) = tc_seen c /\
  qlen (w_c w) <= qlen c.

Lemma wrel_refl : forall w, conn_ok (w_c w) -> wrel (w_c w) (w_used w) w.
Proof. intros w H. unfold wrel. intuition lia. Qed.

Lemma wrel_trans : forall c u w w', wrel c u w -> wrel (w_c w) (w_used w) w' -> wrel c u w'.
Proof. unfold wrel. intros c u w w' H1 H2. intuition (try congruence; try lia). Qed.

Lemma add_next_rel : forall w, conn_ok (w_c w) -> wrel (w_c w) (w_used w) (add_next w).
Proof.
  intros w H. unfold add_next. destruct (tc_queue (w_c w)) as [|p rest] eqn:E; [apply wrel_refl; exact H|].
  destruct (pop_page (tc_next (w_c w)) p) as [r nx]. unfold wrel, conn_ok, qlen in *. cbn.
  rewrite E in *. rewrite zlen_cons in *. repeat split; lia.
Qed.

Lemma contiguous_len : forall q ns rs q' ns', contiguous q ns = (rs, q', ns') -> zlen q = zlen rs + zlen q'.
Proof.
  induction q as [|p t IH]; intros ns rs q' ns' H; cbn [contiguous] in H.
  - inversion H; subst. reflexivity.
  - destruct (tdiff ns (tp_seq p) <=? 0).
    + destruct (pop_page ns p) as [r ns1]. destruct (contiguous t ns1) as [[rs1 q1] ns2] eqn:E.
      inversion H; subst. rewrite !zlen_cons. rewrite (IH _ _ _ _ E). lia.
    + inversion H; subst. rewrite zlen_nil. lia.
Qed.

Lemma add_contiguous_rel : forall w, conn_ok (w_c w) -> wrel (w_c w) (w_used w) (add_contiguous w).
Proof.
  intros w H. unfold add_contiguous.
  destruct (contiguous (tc_queue (w_c w)) (tc_next (w_c w))) as [[rs q'] ns] eqn:E.
  pose proof (contiguous_len _ _ _ _ _ E) as L. pose proof (zlen_nonneg rs).
  unfold wrel, conn_ok, qlen in *. cbn. repeat split; lia.
Qed.

Lemma limit_loop_rel : forall fuel mp mt w, conn_ok (w_c w) -> wrel (w_c w) (w_used w) (limit_loop fuel mp mt w).
Proof.
  induction fuel as [|f IH]; intros mp mt w H; cbn [limit_loop]; [apply wrel_refl; exact H|].
  destruct (tc_queue (w_c w)) eqn:E; [apply wrel_refl; exact H|].
  destruct (limit_hit mp mt (tc_pages (w_c w)) (w_used w)); [|apply wrel_refl; exact H].
  pose proof (add_next_rel w H) as R1.
  eapply wrel_trans; [exact R1|]. apply IH. apply R1.
Qed.

(* ------------------------------------------------------------------ results *)
Definition rrel (c : tconn) (u : Z) (r : tres) : Prop :=
  tc_sid (tr_c r) = tc_sid c /\ tc_key (tr_c r) = tc_key c /\ tc_seen (tr_c r) = tc_seen c /\
  if tr_closed r then tr_used r = u - qlen c
  else tr_used r - qlen (tr_c r) = u - qlen c /\ conn_ok (tr_c r) /\ qlen (tr_c r) <= qlen c.

Lemma close_rel : forall c u w calls, wrel c u w -> rrel c u (close_connection (w_c w) (w_used w) calls).
Proof. unfold wrel, rrel, close_connection. intros. cbn. fold (qlen (w_c w)). intuition lia. Qed.

Lemma send_rel : forall c u w calls, wrel c u w -> rrel c u (send_to_connection w calls).
Proof.
  intros c u w calls H. unfold send_to_connection.
  assert (R : wrel c u (add_contiguous w)).
  { eapply wrel_trans; [exact H|]. apply add_contiguous_rel. apply H. }
  destruct (last_end (w_ret (add_contiguous w))).
  - apply close_rel. exact R.
  - unfold wrel in R. unfold rrel. cbn. intuition.
Qed.

Lemma skip_flush_rel : forall c u calls, conn_ok c -> rrel c u (skip_flush c u calls).
Proof.
  intros c u calls H. unfold skip_flush. destruct (tc_queue c) eqn:E.
  - apply (close_rel c u (mkW c u [])). apply (wrel_refl (mkW c u [])). exact H.
  - apply send_rel.
    pose proof (add_next_rel (mkW c u []) H) as R1. cbn [w_c w_used] in R1.
    eapply wrel_trans; [exact R1|]. apply add_contiguous_rel. apply R1.
Qed.

Lemma rrel_trans : forall c u r r', rrel c u r -> tr_closed r = false ->
  rrel (tr_c r) (tr_used r) r' -> rrel c u r'.
Proof.
  unfold rrel. intros c u r r' H1 Hc H2. rewrite Hc in H1.
  destruct (tr_closed r'); intuition (try congruence; try lia).
Qed.

Lemma rrel_refl : forall c u calls, conn_ok c -> rrel c u (mkTR c false u calls).
Proof. intros. unfold rrel. cbn. intuition lia. Qed.

Lemma flush_loop_rel : forall fuel t c u r, rrel c u r -> rrel c u (flush_loop fuel t r).
Proof.
  induction fuel as [|f IH]; intros t c u r H; cbn [flush_loop]; [exact H|].
  destruct (tr_closed r) eqn:Ec; [exact H|].
  destruct (tc_queue (tr_c r)) as [|p q] eqn:Eq; [exact H|].
  destruct (tp_seen p <? t); [|exact H].
  apply IH. eapply rrel_trans; [exact H|exact Ec|]. apply skip_flush_rel.
  unfold rrel in H. rewrite Ec in H. apply H.
Qed.

Lemma flush_conn_rel : forall t ca c u, conn_ok c -> rrel c u (fst (flush_conn t ca c u)).
Proof.
  intros t ca c u H. unfold flush_conn.
  pose proof (flush_loop_rel (S (length (tc_queue c))) t c u _ (rrel_refl c u [] H)) as R.
  set (r := flush_loop (S (length (tc_queue c))) t (mkTR c false u [])) in *.
  destruct (ca && negb (tr_closed r) &&
     match tc_queue (tr_c r) with [] => true | _ :: _ => false end && (tc_seen (tr_c r) <? t)) eqn:Ecc;
    cbn [fst]; [|exact R].
  destruct (tr_closed r) eqn:Ec.
  - cbn [negb] in Ecc. rewrite andb_false_r in Ecc. cbn in Ecc. discriminate.
  - unfold rrel in R. rewrite Ec in R. unfold rrel, close_connection. cbn. fold (qlen (tr_c r)). intuition lia.
Qed.

Lemma flush_all_loop_rel : forall fuel c u r, rrel c u r -> rrel c u (flush_all_loop fuel r).
Proof.
  induction fuel as [|f IH]; intros c u r H; cbn [flush_all_loop]; [exact H|].
  destruct (tr_closed r) eqn:Ec; [exact H|].
  apply IH. eapply rrel_trans; [exact H|exact Ec|]. apply skip_flush_rel.
  unfold rrel in H. rewrite Ec in H. apply H.
Qed.

Lemma flush_all_conn_rel : forall c u, conn_ok c -> rrel c u (flush_all_conn c u).
Proof. intros. unfold flush_all_conn. apply flush_all_loop_rel. apply rrel_refl. assumption. Qed.

(* skipFlush makes progress: it closes the connection or the queue gets shorter *)
Lemma skip_flush_lt : forall c u calls, conn_ok c -> tc_queue c <> [] ->
  tr_closed (skip_flush c u calls) = false -> qlen (tr_c (skip_flush c u calls)) < qlen c.
Proof.
  intros c u calls H Hne. unfold skip_flush. destruct (tc_queue c) as [|p rest] eqn:E; [congruence|].
  intros Hc.
  pose proof (add_next_rel (mkW c u []) H) as R1. cbn [w_c w_used] in R1.
  assert (L1 : qlen (w_c (add_next (mkW c u []))) = qlen c - 1).
  { unfold add_next. cbn [w_c]. rewrite E. destruct (pop_page (tc_next c) p). cbn. unfold qlen. cbn. rewrite E, zlen_cons. lia. }
  set (w1 := add_next (mkW c u [])) in *.
  assert (R2 : wrel (w_c w1) (w_used w1) (add_contiguous w1)) by (apply add_contiguous_rel; apply R1).
  pose proof (send_rel (w_c (add_contiguous w1)) (w_used (add_contiguous w1)) (add_contiguous w1) calls
                (wrel_refl _ (proj1 (proj2 R2)))) as R3.
  unfold rrel in R3. rewrite Hc in R3. unfold wrel in R2. lia.
Qed.

Lemma skip_flush_empty : forall c u calls, tc_queue c = [] -> tr_closed (skip_flush c u calls) = true.
Proof. intros c u calls E. unfold skip_flush. rewrite E. reflexivity. Qed.

Lemma flush_all_loop_fix : forall fuel r, tr_closed r = true -> flush_all_loop fuel r = r.
Proof. destruct fuel; intros r H; cbn [flush_all_loop]; [reflexivity|]. rewrite H. reflexivity. Qed.

Lemma flush_all_loop_closed : forall fuel r, (tr_closed r = false -> conn_ok (tr_c r)) ->
  (length (tc_queue (tr_c r)) < fuel)%nat -> tr_closed (flush_all_loop fuel r) = true.
Proof.
  induction fuel as [|f IH]; intros r Hok Hl; [lia|]. cbn [flush_all_loop].
  destruct (tr_closed r) eqn:Ec; [exact Ec|]. specialize (Hok eq_refl).
  set (r1 := skip_flush (tr_c r) (tr_used r) (tr_calls r)).
  destruct (tr_closed r1) eqn:Ec1; [rewrite flush_all_loop_fix; assumption|].
  apply IH.
  - intros _. pose proof (skip_flush_rel (tr_c r) (tr_used r) (tr_calls r) Hok) as R. fold r1 in R.
    unfold rrel in R. rewrite Ec1 in R. apply R.
  - destruct (tc_queue (tr_c r)) eqn:E.
    + unfold r1 in Ec1. rewrite skip_flush_empty in Ec1 by exact E. discriminate.
    + assert (Hne : tc_queue (tr_c r) <> []) by (rewrite E; discriminate).
      pose proof (skip_flush_lt (tr_c r) (tr_used r) (tr_calls r) Hok Hne Ec1) as L. fold r1 in L.
      unfold qlen, zlen in L. rewrite E in L. cbn [length] in *. lia.
Qed.

Lemma flush_all_conn_closed : forall c u, conn_ok c -> tr_closed (flush_all_conn c u) = true.
Proof.
  intros c u H. unfold flush_all_conn. apply flush_all_loop_closed; cbn [tr_c tr_closed]; [intros _; exact H|lia].
Qed.

(* ------------------------------------------------------------------ insertion *)
Definition wrelx (c : tconn) (u : Z) (w : twork) : Prop :=
  w_used w - qlen (w_c w) = u - qlen c /\ conn_ok (w_c w) /\
  tc_sid (w_c w) = tc_sid c /\ tc_key (w_c w) = tc_key c.

Lemma wrel_x : forall c u w, wrel c u w -> wrelx c u w.
Proof. unfold wrel, wrelx. intuition. Qed.

Lemma wrelx_trans : forall c u w w', wrelx c u w -> wrelx (w_c w) (w_used w) w' -> wrelx c u w'.
Proof. unfold wrelx. intros. intuition (try congruence; try lia). Qed.

Lemma traverse_app : forall q seq a b, traverse q seq = (a, b) -> q = a ++ b.
Proof.
  induction q as [|p t IH]; intros seq a b H; cbn [traverse] in H.
  - inversion H; subst. reflexivity.
  - destruct (traverse t seq) as [a1 b1] eqn:E. rewrite (IH _ _ _ E).
    destruct a1 as [|x a1].
    + destruct (tdiff (tp_seq p) seq <? 0); inversion H; reflexivity.
    + inversion H; reflexivity.
Qed.

Lemma insert_rel : forall v mp mt seq len e ts w w', conn_ok (w_c w) ->
  insert_into_conn v mp mt seq len e ts w = Some w' -> wrelx (w_c w) (w_used w) w'.
Proof.
  intros v mp mt seq len e ts w w' H. unfold insert_into_conn.
  destruct (match tc_queue (w_c w) with [] => false | p :: _ => tp_seq p =? tc_next (w_c w) end); [discriminate|].
  destruct (traverse (tc_queue (w_c w)) seq) as [a b] eqn:E. apply traverse_app in E.
  set (ps := tpages_of seq len ts e).
  set (c1 := set_queue (w_c w) (tc_pages (w_c w) + zlen ps) (a ++ ps ++ b) (tc_next (w_c w))).
  set (w1 := mkW c1 (w_used w + zlen ps) (w_ret w)).
  assert (X1 : wrelx (w_c w) (w_used w) w1).
  { unfold wrelx, conn_ok, qlen in *. cbn. rewrite E in *. rewrite !zlen_app in *. repeat split; lia. }
  assert (Hok1 : conn_ok (w_c w1)) by apply X1.
  intros Hs.
  destruct (v_limit v).
  - inversion Hs; subst. eapply wrelx_trans; [exact X1|]. apply wrel_x. apply limit_loop_rel. exact Hok1.
  - destruct (limit_hit mp mt (tc_pages c1) (w_used w + zlen ps)); inversion Hs; subst.
    + eapply wrelx_trans; [exact X1|]. apply wrel_x. apply add_next_rel. exact Hok1.
    + exact X1.
Qed.

Definition arel (c : tconn) (u : Z) (r : tres) : Prop :=
  tc_sid (tr_c r) = tc_sid c /\ tc_key (tr_c r) = tc_key c /\
  if tr_closed r then tr_used r = u - qlen c
  else tr_used r - qlen (tr_c r) = u - qlen c /\ conn_ok (tr_c r).

Lemma arel_of : forall c u w r, wrelx c u w -> rrel (w_c w) (w_used w) r -> arel c u r.
Proof. unfold wrelx, rrel, arel. intros c u w r H1 H2. destruct (tr_closed r); intuition (try congruence; try lia). Qed.

Lemma assemble_locked_rel : forall v st c0 seq syn fin rst len ts r, conn_ok c0 ->
  assemble_locked v st c0 seq syn fin rst len ts = Some r -> arel c0 (ts_used st) r.
Proof.
  intros v st c0 seq syn fin rst len ts r H. unfold assemble_locked.
  set (c := if tc_seen c0 <? ts then mkTC (tc_key c0) (tc_sid c0) (tc_pages c0) (tc_queue c0) (tc_next c0) ts else c0).
  assert (Hc : conn_ok c /\ qlen c = qlen c0 /\ tc_sid c = tc_sid c0 /\ tc_key c = tc_key c0).
  { unfold c. destruct (tc_seen c0 <? ts); unfold conn_ok, qlen in *; cbn; auto. }
  destruct Hc as [Hok [Hq [Hs Hk]]].
  set (u := ts_used st).
  match goal with |- match ?X with _ => _ end = _ -> _ => set (ow := X) end.
  assert (Hw : forall w, ow = Some w -> wrelx c u w).
  { intros w. unfold ow.
    destruct (tc_next c =? INVALID).
    - destruct syn.
      + intros Hx. inversion Hx; subst. unfold wrelx, conn_ok, qlen in *. cbn. intuition lia.
      + intros Hx. apply (insert_rel _ _ _ _ _ _ _ (mkW c u []) w Hok Hx).
    - destruct (tdiff (tc_next c) _ >? 0).
      + intros Hx. apply (insert_rel _ _ _ _ _ _ _ (mkW c u []) w Hok Hx).
      + destruct (span_len (tc_next c) _ len) as [l nx]. intros Hx. inversion Hx; subst.
        unfold wrelx, conn_ok, qlen in *. cbn. intuition lia. }
  destruct ow as [w|]; [|discriminate]. specialize (Hw w eq_refl).
  assert (Hx0 : wrelx c0 u w).
  { unfold wrelx in *. intuition (try congruence; try lia). }
  destruct (w_ret w) eqn:Er; intros Hr; inversion Hr; subst; clear Hr.
  - unfold arel, wrelx in *. cbn. intuition.
  - eapply arel_of; [exact Hx0|]. apply send_rel. apply wrel_refl. apply Hx0.
Qed.

(* ------------------------------------------------------------------ the pool *)
Definition tinv (st : tstate) : Prop :=
  ts_used st = qsum (ts_conns st) /\ Forall conn_ok (ts_conns st).

Lemma split_key_spec : forall k l pre c post, split_key k l = Some (pre, c, post) ->
  l = pre ++ c :: post /\ tc_key c = k.
Proof.
  induction l as [|x l IH]; intros pre c post H; cbn [split_key] in H; [discriminate|].
  destruct (tc_key x =? k) eqn:E.
  - inversion H; subst. split; [reflexivity|]. apply Z.eqb_eq. exact E.
  - destruct (split_key k l) as [[[a y] b]|] eqn:E2; [|discriminate]. inversion H; subst.
    destruct (IH _ _ _ eq_refl) as [I1 I2]. split; [cbn [app]; congruence|exact I2].
Qed.

Lemma put_back_inv : forall st pre post free fresh alloc n c u r,
  arel c u r -> u = qsum (pre ++ c :: post) -> Forall conn_ok (pre ++ post) ->
  tinv (put_back st pre post free fresh alloc n r).
Proof.
  intros st pre post free fresh alloc n c u r A Hu HF. unfold put_back, arel in *.
  rewrite qsum_app, qsum_cons in Hu. apply Forall_app in HF. destruct HF as [F1 F2].
  destruct (tr_closed r); unfold tinv; cbn.
  - rewrite qsum_app. split; [lia|]. apply Forall_app. split; assumption.
  - rewrite qsum_app, qsum_cons. split; [lia|]. apply Forall_app. split; [assumption|]. constructor; [apply A|assumption].
Qed.

Lemma tassemble_inv : forall v st k seq syn fin rst len ts, tinv st ->
  tinv (fst (tassemble v st k seq syn fin rst len ts)).
Proof.
  intros v st k seq syn fin rst len ts [Hu HF]. unfold tassemble.
  destruct (negb syn && negb fin && negb rst && (len =? 0)); [split; assumption|].
  destruct (split_key k (ts_conns st)) as [[[pre c] post]|] eqn:Es.
  - apply split_key_spec in Es. destruct Es as [El _].
    assert (Hc : conn_ok c). { rewrite El in HF. apply Forall_app in HF. destruct HF as [_ HF]. inversion HF; assumption. }
    destruct (assemble_locked v st c seq syn fin rst len ts) as [r|] eqn:Ea; cbn [fst].
    + eapply put_back_inv; [eapply assemble_locked_rel; eauto|rewrite <- El; exact Hu|].
      rewrite El in HF. apply Forall_app in HF. destruct HF as [F1 F2]. inversion F2; subst. apply Forall_app. split; assumption.
    + unfold tinv, dead_of. cbn. split; assumption.
  - destruct (negb syn && (len =? 0)); [split; assumption|].
    destruct (take_free st) as [[[inh free1] fresh1] alloc1].
    set (c := mkTC k (ts_nstreams st + 1) 0 [] INVALID (if v_lastseen v then ts else inh)).
    assert (Hc : conn_ok c) by (unfold conn_ok, qlen; reflexivity).
    destruct (assemble_locked v st c seq syn fin rst len ts) as [r|] eqn:Ea; cbn [fst].
    + eapply put_back_inv; [eapply assemble_locked_rel; eauto| |rewrite app_nil_r; exact HF].
      rewrite qsum_app, qsum_cons. unfold qlen at 1. cbn. lia.
    + unfold tinv, dead_of. cbn. split; assumption.
Qed.

Lemma flush_conns_inv : forall f, (forall c u, conn_ok c -> rrel c u (fst (f c u))) ->
  forall l used, Forall conn_ok l ->
  fa_used (flush_conns f l used) = used - qsum l + qsum (fa_keep (flush_conns f l used)) /\
  Forall conn_ok (fa_keep (flush_conns f l used)) /\
  qsum (fa_keep (flush_conns f l used)) <= qsum l.
Proof.
  intros f Hf. induction l as [|c l IH]; intros used HF; cbn [flush_conns].
  - cbn. repeat split; [lia|constructor|lia].
  - inversion HF as [|? ? Hc HF']; subst.
    pose proof (Hf c used Hc) as R. destruct (f c used) as [r fl]. cbn [fst] in R.
    destruct (IH (tr_used r) HF') as [I1 [I2 I3]].
    set (a := flush_conns f l (tr_used r)) in *. clearbody a. clear IH. cbn [fa_used fa_keep].
    rewrite qsum_cons. unfold rrel in R. destruct R as [_ [_ [_ R]]].
    destruct (tr_closed r).
    + split; [lia|split; [exact I2|]]. pose proof (qlen_nonneg c). lia.
    + destruct R as [R1 [R2 R3]]. rewrite qsum_cons. split; [lia|split; [constructor; [exact R2|exact I2]|lia]].
Qed.

Lemma tstep_inv : forall v st o, tinv st -> tinv (fst (tstep v st o)).
Proof.
  intros v st o H. unfold tstep. destruct (ts_dead st); [exact H|].
  destruct o.
  - apply tassemble_inv. exact H.
  - destruct H as [Hu HF]. unfold tflush. cbn [fst].
    destruct (flush_conns_inv (flush_conn t closeAll) (fun c u Hc => flush_conn_rel t closeAll c u Hc) (ts_conns st) (ts_used st) HF) as [I1 [I2 _]].
    unfold tinv. cbn [ts_used ts_conns]. split; [lia|exact I2].
  - destruct H as [Hu HF]. unfold tflush_all. cbn [fst].
    destruct (flush_conns_inv (fun c u => (flush_all_conn c u, true)) (fun c u Hc => flush_all_conn_rel c u Hc) (ts_conns st) (ts_used st) HF) as [I1 [I2 _]].
    unfold tinv. cbn [ts_used ts_conns]. split; [lia|exact I2].
Qed.

Lemma tinit_inv : forall mp mt, tinv (tinit mp mt).
Proof. intros. unfold tinv, tinit. cbn. split; [reflexivity|constructor]. Qed.

Lemma trun_state_inv : forall v ops st, tinv st -> tinv (fst (trun_state v st ops)).
Proof.
  intros v. induction ops as [|o ops IH]; intros st H; cbn [trun_state]; [exact H|].
  pose proof (tstep_inv v st o H) as H1. destruct (tstep v st o) as [st' ou]. cbn [fst] in H1.
  specialize (IH st' H1). destruct (trun_state v st' ops) as [st2 ev]. exact IH.
Qed.

(* C11_pages *)
Lemma t_pages : forall v mp mt ops,
  let st := fst (trun_state v (tinit mp mt) ops) in
  ts_used st = qsum (ts_conns st) /\ Forall (fun c => tc_pages c = zlen (tc_queue c)) (ts_conns st).
Proof. intros. apply (trun_state_inv v ops _ (tinit_inv mp mt)). Qed.

(* C11_flushall *)
Lemma flush_conns_all_closed : forall f, (forall c u, conn_ok c -> tr_closed (fst (f c u)) = true) ->
  (forall c u, conn_ok c -> rrel c u (fst (f c u))) ->
  forall l used, Forall conn_ok l -> fa_keep (flush_conns f l used) = [].
Proof.
  intros f Hc Hr. induction l as [|c l IH]; intros used HF; cbn [flush_conns]; [reflexivity|].
  inversion HF as [|? ? Hok HF']; subst. specialize (Hc c used Hok).
  destruct (f c used) as [r fl]. cbn [fst] in Hc. rewrite Hc. cbn [fa_keep]. apply IH. exact HF'.
Qed.

Lemma t_flushall : forall v st, tinv st -> ts_dead st = false ->
  let st' := fst (tstep v st TFlushAll) in ts_conns st' = [] /\ ts_used st' = 0.
Proof.
  intros v st H Hd. pose proof (tstep_inv v st TFlushAll H) as H'. cbn zeta.
  assert (E : ts_conns (fst (tstep v st TFlushAll)) = []).
  { unfold tstep. rewrite Hd. unfold tflush_all. cbn [fst ts_conns].
    apply flush_conns_all_closed; [intros; apply flush_all_conn_closed; assumption|intros; apply flush_all_conn_rel; assumption|apply H]. }
  split; [exact E|]. destruct H' as [Hu _]. rewrite E in Hu. exact Hu.
Qed.

(* ------------------------------------------------------------------ C11_once *)
Definition sids (l : list tconn) : list Z := map tc_sid l.
Definition bounded (ls : lstate) (n : Z) : Prop := forall s, In s (l_open ls) \/ In s (l_done ls) -> s <= n.
Definition linv (st : tstate) (ls : lstate) : Prop :=
  l_open ls = sids (ts_conns st) /\ NoDup (sids (ts_conns st)) /\ bounded ls (ts_nstreams st).

Lemma sids_app : forall a b, sids (a ++ b) = sids a ++ sids b.
Proof. intros. unfold sids. apply map_app. Qed.

Lemma call_events_data : forall sid calls, Forall (is_data_of sid) (map (call_event sid) calls).
Proof.
  intros sid calls. induction calls as [|l calls IH]; cbn [map]; constructor; [|exact IH].
  unfold call_event. destruct l; cbn; reflexivity.
Qed.

Definition after_res (ls : lstate) (r : tres) : lstate :=
  if tr_closed r then mkL (zremove (tc_sid (tr_c r)) (l_open ls)) (tc_sid (tr_c r) :: l_done ls) else ls.

Lemma res_events_run : forall r ls, In (tc_sid (tr_c r)) (l_open ls) ->
  lrun ls (res_events r) = Some (after_res ls r).
Proof.
  intros r ls Hin. unfold res_events, after_res. rewrite lrun_app.
  rewrite (lrun_data (tc_sid (tr_c r))); [|exact Hin|apply call_events_data].
  destruct (tr_closed r); [|reflexivity]. cbn [lrun lstep].
  apply zmem_in in Hin. rewrite Hin. reflexivity.
Qed.

Lemma NoDup_snoc : forall (l : list Z) x, NoDup l -> ~ In x l -> NoDup (l ++ [x]).
Proof.
  intros l x H Hn. apply (NoDup_Add (Add_app x l [])). rewrite app_nil_r. split; assumption.
Qed.

Lemma put_back_log : forall st pre c post ls r free fresh alloc,
  ts_conns st = pre ++ c :: post -> linv st ls -> tc_sid (tr_c r) = tc_sid c ->
  linv (put_back st pre post free fresh alloc (ts_nstreams st) r) (after_res ls r).
Proof.
  intros st pre c post ls r free fresh alloc El [Ho [Hn Hb]] Hs.
  rewrite El in Ho, Hn. rewrite sids_app in Ho, Hn. cbn [sids map] in Ho, Hn. fold (sids post) in Ho, Hn.
  unfold put_back, after_res, linv. destruct (tr_closed r); cbn [ts_conns ts_nstreams l_open l_done].
  - rewrite Hs, Ho, sids_app. rewrite zremove_mid by exact Hn. split; [reflexivity|].
    split; [eapply NoDup_remove_1; exact Hn|].
    intros s [Hin|[Hin|Hin]].
    + apply Hb. left. rewrite Ho. apply in_app_or in Hin. apply in_or_app. destruct Hin; [left|right; right]; assumption.
    + subst s. apply Hb. left. rewrite Ho. apply in_or_app. right. left. reflexivity.
    + apply Hb. right. exact Hin.
  - rewrite sids_app. cbn [sids map]. fold (sids post). rewrite Hs. split; [exact Ho|]. split; [exact Hn|exact Hb].
Qed.

Lemma tassemble_log : forall v st ls k seq syn fin rst len ts, tinv st -> linv st ls ->
  exists ls', lrun ls (to_ev (snd (tassemble v st k seq syn fin rst len ts))) = Some ls' /\
              linv (fst (tassemble v st k seq syn fin rst len ts)) ls'.
Proof.
  intros v st ls k seq syn fin rst len ts [Hu HF] L. unfold tassemble.
  destruct (negb syn && negb fin && negb rst && (len =? 0)); [exists ls; split; [reflexivity|exact L]|].
  destruct (split_key k (ts_conns st)) as [[[pre c] post]|] eqn:Es.
  - apply split_key_spec in Es. destruct Es as [El _].
    assert (Hc : conn_ok c). { rewrite El in HF. apply Forall_app in HF. destruct HF as [_ HF]. inversion HF; assumption. }
    destruct (assemble_locked v st c seq syn fin rst len ts) as [r|] eqn:Ea; cbn [fst snd to_ev].
    + pose proof (assemble_locked_rel _ _ _ _ _ _ _ _ _ _ Hc Ea) as A. destruct A as [As _].
      exists (after_res ls r). split.
      * apply res_events_run. rewrite As. destruct L as [Ho _]. rewrite Ho, El, sids_app. apply in_or_app. right. left. reflexivity.
      * apply put_back_log with (c := c); assumption.
    + exists ls. split; [reflexivity|]. exact L.
  - destruct (negb syn && (len =? 0)); [exists ls; split; [reflexivity|exact L]|].
    destruct (take_free st) as [[[inh free1] fresh1] alloc1].
    set (sid := ts_nstreams st + 1).
    set (c := mkTC k sid 0 [] INVALID (if v_lastseen v then ts else inh)).
    assert (Hc : conn_ok c) by (unfold conn_ok, qlen; reflexivity).
    destruct (assemble_locked v st c seq syn fin rst len ts) as [r|] eqn:Ea; cbn [fst snd to_ev].
    + pose proof (assemble_locked_rel _ _ _ _ _ _ _ _ _ _ Hc Ea) as A. destruct A as [As _]. cbn [tc_sid c] in As.
      destruct L as [Ho [Hn Hb]].
      assert (Hfresh : ~ In sid (l_open ls) /\ ~ In sid (l_done ls)).
      { split; intros Hin; [specialize (Hb sid (or_introl Hin))|specialize (Hb sid (or_intror Hin))]; unfold sid in Hb; lia. }
      destruct Hfresh as [Hf1 Hf2].
      set (ls1 := mkL (l_open ls ++ [sid]) (l_done ls)).
      exists (after_res ls1 r). split.
      * cbn [lrun lstep]. apply zmem_false in Hf1. apply zmem_false in Hf2. rewrite Hf1, Hf2. cbn [orb].
        fold ls1. apply res_events_run. rewrite As. cbn [ls1 l_open]. apply in_or_app. right. left. reflexivity.
      * unfold put_back, after_res, linv. rewrite As.
        assert (Hn1 : NoDup (l_open ls ++ [sid])) by (apply NoDup_snoc; [rewrite Ho; exact Hn|exact Hf1]).
        destruct (tr_closed r); cbn [ts_conns ts_nstreams l_open l_done ls1].
        -- rewrite app_nil_r. rewrite zremove_mid by exact Hn1. rewrite app_nil_r.
           split; [exact Ho|]. split; [exact Hn|].
           intros s [Hin|[Hin|Hin]]; [specialize (Hb s (or_introl Hin))| |specialize (Hb s (or_intror Hin))]; unfold sid in *; lia.
        -- rewrite sids_app. cbn [sids map]. rewrite As. rewrite <- Ho. split; [reflexivity|]. split; [exact Hn1|].
           intros s [Hin|Hin].
           ++ apply in_app_or in Hin. destruct Hin as [Hin|[Hin|[]]]; [specialize (Hb s (or_introl Hin))|]; unfold sid in *; lia.
           ++ specialize (Hb s (or_intror Hin)). unfold sid. lia.
    + exists ls. split; [reflexivity|]. exact L.
Qed.

Lemma flush_conns_log : forall f, (forall c u, tc_sid (tr_c (fst (f c u))) = tc_sid c) ->
  forall l used pre done, NoDup (pre ++ sids l) ->
  exists done', lrun (mkL (pre ++ sids l) done) (fa_ev (flush_conns f l used)) =
                  Some (mkL (pre ++ sids (fa_keep (flush_conns f l used))) done') /\
                (forall s, In s done' -> In s done \/ In s (sids l)) /\
                NoDup (pre ++ sids (fa_keep (flush_conns f l used))) /\
                (forall s, In s (sids (fa_keep (flush_conns f l used))) -> In s (sids l)).
Proof.
  intros f Hf. induction l as [|c l IH]; intros used pre done Hn; cbn [flush_conns].
  - exists done. cbn [fa_ev fa_keep sids map lrun]. split; [reflexivity|]. split; [intros s H; left; exact H|]. split; [exact Hn|intros s H; exact H].
  - pose proof (Hf c used) as Hs. destruct (f c used) as [r fl]. cbn [fst] in Hs.
    cbn [fa_ev fa_keep]. rewrite lrun_app. cbn [sids map]. fold (sids l).
    rewrite res_events_run; [|cbn [l_open]; rewrite Hs; apply in_or_app; right; left; reflexivity].
    unfold after_res. cbn [l_open l_done]. rewrite Hs.
    destruct (tr_closed r).
    + rewrite zremove_mid by exact Hn.
      destruct (IH (tr_used r) pre (tc_sid c :: done) (NoDup_remove_1 _ _ _ Hn)) as [d' [I1 [I2 [I3 I4]]]].
      exists d'. split; [exact I1|]. split; [|split; [exact I3|intros s Hin; right; apply I4; exact Hin]].
      intros s Hin. destruct (I2 s Hin) as [[E|H]|H]; [right; left; exact E|left; exact H|right; right; exact H].
    + assert (Hn' : NoDup ((pre ++ [tc_sid c]) ++ sids l)) by (rewrite <- app_assoc; exact Hn).
      destruct (IH (tr_used r) (pre ++ [tc_sid c]) done Hn') as [d' [I1 [I2 [I3 I4]]]].
      repeat rewrite <- app_assoc in I1. repeat rewrite <- app_assoc in I3. cbn [app] in I1, I3. cbn [sids map]. rewrite Hs. fold (sids (fa_keep (flush_conns f l (tr_used r)))).
      exists d'. split; [exact I1|]. split; [|split; [exact I3|]].
      * intros s Hin. destruct (I2 s Hin) as [H|H]; [left; exact H|right; right; exact H].
      * intros s [E|Hin]; [left; exact E|right; apply I4; exact Hin].
Qed.

Lemma flush_log : forall f st ls a b, (forall c u, tc_sid (tr_c (fst (f c u))) = tc_sid c) -> linv st ls ->
  let acc := flush_conns f (ts_conns st) (ts_used st) in
  exists ls', lrun ls (fa_ev acc) = Some ls' /\
    linv (mkTS (fa_keep acc) a (ts_fresh st) (ts_alloc st) (fa_used acc) (ts_maxPer st) (ts_maxTotal st) (ts_nstreams st) b) ls'.
Proof.
  intros f st ls a b Hf [Ho [Hn Hb]]. cbn zeta.
  destruct (flush_conns_log f Hf (ts_conns st) (ts_used st) [] (l_done ls) Hn) as [d' [I1 [I2 [I3 I4]]]].
  cbn [app] in I1, I3. exists (mkL (sids (fa_keep (flush_conns f (ts_conns st) (ts_used st)))) d'). split.
  - destruct ls as [o d]. cbn [l_open l_done] in *. subst o. exact I1.
  - unfold linv. cbn [ts_conns ts_nstreams l_open l_done]. split; [reflexivity|]. split; [exact I3|].
    intros s [Hin|Hin].
    + apply Hb. left. rewrite Ho. apply I4. exact Hin.
    + destruct (I2 s Hin) as [H|H]; apply Hb; [right; exact H|left; rewrite Ho; exact H].
Qed.

Lemma flush_conn_sid : forall t ca c u, tc_sid (tr_c (fst (flush_conn t ca c u))) = tc_sid c.
Proof.
  intros t ca c u. unfold flush_conn.
  assert (S : forall fuel r, tc_sid (tr_c (flush_loop fuel t r)) = tc_sid (tr_c r)).
  { induction fuel as [|f IH]; intros r; cbn [flush_loop]; [reflexivity|].
    destruct (tr_closed r); [reflexivity|]. destruct (tc_queue (tr_c r)) eqn:E; [reflexivity|].
    destruct (tp_seen t0 <? t); [|reflexivity]. rewrite IH.
    unfold skip_flush. rewrite E. unfold send_to_connection, add_contiguous, add_next. cbn [w_c]. rewrite E.
    destruct (pop_page (tc_next (tr_c r)) t0). cbn [w_c w_ret set_queue tc_queue tc_next].
    match goal with |- context [contiguous ?q ?n] => destruct (contiguous q n) as [[? ?] ?] end. cbn [w_c w_ret].
    match goal with |- context [contiguous ?q ?n] => destruct (contiguous q n) as [[? ?] ?] end. cbn [w_c w_ret].
    match goal with |- context [if ?b then _ else _] => destruct b end; reflexivity. }
  match goal with |- context [if ?b then _ else _] => destruct b end; cbn [fst]; [unfold close_connection; cbn [tr_c]|]; rewrite S; reflexivity.
Qed.

Lemma flush_all_conn_sid : forall c u, tc_sid (tr_c (flush_all_conn c u)) = tc_sid c.
Proof.
  intros c u. assert (Hc : forall c0, tc_sid c0 = tc_sid c0) by reflexivity.
  unfold flush_all_conn.
  assert (S : forall fuel r, tc_sid (tr_c (flush_all_loop fuel r)) = tc_sid (tr_c r)).
  { induction fuel as [|f IH]; intros r; cbn [flush_all_loop]; [reflexivity|].
    destruct (tr_closed r); [reflexivity|]. rewrite IH.
    unfold skip_flush. destruct (tc_queue (tr_c r)) eqn:E; [reflexivity|].
    unfold send_to_connection, add_contiguous, add_next. cbn [w_c]. rewrite E.
    destruct (pop_page (tc_next (tr_c r)) t). cbn [w_c w_ret set_queue tc_queue tc_next].
    match goal with |- context [contiguous ?q ?n] => destruct (contiguous q n) as [[? ?] ?] end. cbn [w_c w_ret].
    match goal with |- context [contiguous ?q ?n] => destruct (contiguous q n) as [[? ?] ?] end. cbn [w_c w_ret].
    match goal with |- context [if ?b then _ else _] => destruct b end; reflexivity. }
  rewrite S. reflexivity.
Qed.

Lemma tstep_log : forall v st ls o, tinv st -> linv st ls ->
  exists ls', lrun ls (to_ev (snd (tstep v st o))) = Some ls' /\ linv (fst (tstep v st o)) ls'.
Proof.
  intros v st ls o Hi L. unfold tstep. destruct (ts_dead st); [exists ls; split; [reflexivity|exact L]|].
  destruct o.
  - apply tassemble_log; assumption.
  - unfold tflush. cbn [fst snd to_ev]. apply flush_log; [apply flush_conn_sid|exact L].
  - unfold tflush_all. cbn [fst snd to_ev]. apply flush_log; [intros; apply flush_all_conn_sid|exact L].
Qed.

Lemma trun_state_log : forall v ops st ls, tinv st -> linv st ls ->
  exists ls', lrun ls (snd (trun_state v st ops)) = Some ls' /\ linv (fst (trun_state v st ops)) ls'.
Proof.
  intros v. induction ops as [|o ops IH]; intros st ls Hi L; cbn [trun_state].
  - exists ls. split; [reflexivity|exact L].
  - destruct (tstep_log v st ls o Hi L) as [ls1 [R1 L1]]. pose proof (tstep_inv v st o Hi) as Hi1.
    destruct (tstep v st o) as [st' ou]. cbn [fst snd] in *.
    destruct (IH st' ls1 Hi1 L1) as [ls2 [R2 L2]].
    destruct (trun_state v st' ops) as [st2 ev]. cbn [fst snd] in *.
    exists ls2. split; [|exact L2]. rewrite lrun_app, R1. exact R2.
Qed.

Lemma linv_init : forall mp mt, linv (tinit mp mt) l0.
Proof. intros. unfold linv, tinit, l0, bounded. cbn. split; [reflexivity|]. split; [constructor|]. intros s [[]|[]]. Qed.

(* C11_once: the whole callback log of any history is accepted by the lifecycle automaton,
   and the streams still open at the end are exactly those of the live connections *)
Lemma t_once : forall v mp mt ops,
  exists ls, lrun l0 (snd (trun_state v (tinit mp mt) ops)) = Some ls /\
             l_open ls = map tc_sid (ts_conns (fst (trun_state v (tinit mp mt) ops))).
Proof.
  intros. destruct (trun_state_log v ops _ _ (tinit_inv mp mt) (linv_init mp mt)) as [ls [R [Ho _]]].
  exists ls. split; [exact R|exact Ho].
Qed.

(* ------------------------------------------------------------------ generic: a property of the kept connections *)
Lemma flush_conns_forall : forall f (Q P : tconn -> Prop),
  (forall c u, conn_ok c -> Q c -> tr_closed (fst (f c u)) = false -> P (tr_c (fst (f c u)))) ->
  (forall c u, conn_ok c -> rrel c u (fst (f c u))) ->
  forall l used, Forall conn_ok l -> Forall Q l -> Forall P (fa_keep (flush_conns f l used)).
Proof.
  intros f Q P HP Hr. induction l as [|c l IH]; intros used HF HQ; cbn [flush_conns]; [constructor|].
  inversion HF as [|? ? Hok HF']; subst. inversion HQ as [|? ? Hq HQ']; subst.
  specialize (HP c used Hok Hq). destruct (f c used) as [r fl]. cbn [fst] in HP. cbn [fa_keep].
  destruct (tr_closed r); [apply IH; assumption|]. constructor; [apply HP; reflexivity|apply IH; assumption].
Qed.

(* ------------------------------------------------------------------ C11_limit (repaired code) *)
Definition wlim (mp mt : Z) (w : twork) : Prop :=
  (mp > 0 -> qlen (w_c w) < mp) /\ (mt > 0 -> w_used w < mt).

Lemma limit_loop_exit : forall fuel mp mt w, (length (tc_queue (w_c w)) <= fuel)%nat -> conn_ok (w_c w) ->
  tc_queue (w_c (limit_loop fuel mp mt w)) = [] \/
  limit_hit mp mt (tc_pages (w_c (limit_loop fuel mp mt w))) (w_used (limit_loop fuel mp mt w)) = false.
Proof.
  induction fuel as [|f IH]; intros mp mt w Hl Hok; cbn [limit_loop].
  - left. destruct (tc_queue (w_c w)); [reflexivity|cbn [length] in Hl; lia].
  - destruct (tc_queue (w_c w)) as [|p rest] eqn:E; [left; exact E|].
    destruct (limit_hit mp mt (tc_pages (w_c w)) (w_used w)) eqn:Eh; [|right; exact Eh].
    apply IH.
    + unfold add_next. rewrite E. destruct (pop_page (tc_next (w_c w)) p). cbn. cbn [length] in Hl. lia.
    + apply (add_next_rel w Hok).
Qed.

Lemma insert_lim : forall v mp mt seq len e ts w w', v_limit v = true -> conn_ok (w_c w) ->
  (mt > 0 -> w_used w - qlen (w_c w) < mt) ->
  insert_into_conn v mp mt seq len e ts w = Some w' -> wlim mp mt w'.
Proof.
  intros v mp mt seq len e ts w w' Hv H Hb. unfold insert_into_conn.
  destruct (match tc_queue (w_c w) with [] => false | p :: _ => tp_seq p =? tc_next (w_c w) end); [discriminate|].
  destruct (traverse (tc_queue (w_c w)) seq) as [a b] eqn:E. apply traverse_app in E.
  set (ps := tpages_of seq len ts e).
  set (c1 := set_queue (w_c w) (tc_pages (w_c w) + zlen ps) (a ++ ps ++ b) (tc_next (w_c w))).
  set (w1 := mkW c1 (w_used w + zlen ps) (w_ret w)).
  assert (X1 : w_used w1 - qlen (w_c w1) = w_used w - qlen (w_c w) /\ conn_ok (w_c w1)).
  { unfold conn_ok, qlen in *. cbn. rewrite E in *. rewrite !zlen_app in *. split; lia. }
  destruct X1 as [X1 Hok1]. rewrite Hv. intros Hs. inversion Hs; subst; clear Hs.
  pose proof (limit_loop_rel (length (tc_queue c1)) mp mt w1 Hok1) as R.
  pose proof (limit_loop_exit (length (tc_queue c1)) mp mt w1 (Nat.le_refl _) Hok1) as X.
  set (w2 := limit_loop (length (tc_queue c1)) mp mt w1) in *.
  unfold wrel in R. destruct R as [R1 [R2 _]]. unfold wlim. unfold conn_ok in R2.
  change (limit_loop (length (a ++ ps ++ b)) mp mt w1) with w2.
  clearbody w2. clearbody w1. clear E.
  destruct X as [X|X].
  - assert (Q : qlen (w_c w2) = 0) by (unfold qlen; rewrite X; reflexivity). split; lia.
  - unfold limit_hit in X. apply orb_false_iff in X. destruct X as [Xa Xb]. split; lia.
Qed.

Definition rlim (mp mt : Z) (r : tres) : Prop :=
  (tr_closed r = false -> mp > 0 -> qlen (tr_c r) < mp) /\ (mt > 0 -> tr_used r < mt).

Lemma rlim_of : forall mp mt w r, conn_ok (w_c w) -> wlim mp mt w -> rrel (w_c w) (w_used w) r -> rlim mp mt r.
Proof.
  unfold wlim, rrel, rlim. intros mp mt w r Hok [W1 W2] [_ [_ [_ R]]]. pose proof (qlen_nonneg (w_c w)).
  destruct (tr_closed r); split; intros; try discriminate; lia.
Qed.

Lemma assemble_locked_lim : forall v st c0 seq syn fin rst len ts r, v_limit v = true -> conn_ok c0 ->
  (ts_maxPer st > 0 -> qlen c0 < ts_maxPer st) -> (ts_maxTotal st > 0 -> ts_used st < ts_maxTotal st) ->
  assemble_locked v st c0 seq syn fin rst len ts = Some r -> rlim (ts_maxPer st) (ts_maxTotal st) r.
Proof.
  intros v st c0 seq syn fin rst len ts r Hv H Hp Ht. unfold assemble_locked.
  set (c := if tc_seen c0 <? ts then mkTC (tc_key c0) (tc_sid c0) (tc_pages c0) (tc_queue c0) (tc_next c0) ts else c0).
  assert (Hc : conn_ok c /\ qlen c = qlen c0).
  { unfold c. destruct (tc_seen c0 <? ts); unfold conn_ok, qlen in *; cbn; auto. }
  destruct Hc as [Hok Hq]. pose proof (qlen_nonneg c).
  set (u := ts_used st) in *. set (mp := ts_maxPer st) in *. set (mt := ts_maxTotal st) in *.
  match goal with |- match ?X with _ => _ end = _ -> _ => set (ow := X) end.
  assert (Hw : forall w, ow = Some w -> wlim mp mt w /\ conn_ok (w_c w)).
  { intros w. unfold ow.
    destruct (tc_next c =? INVALID).
    - destruct syn.
      + intros Hx. inversion Hx; subst. unfold wlim, conn_ok, qlen in *. cbn. intuition lia.
      + intros Hx. split; [apply (insert_lim v mp mt seq len (rst || fin) ts (mkW c u []) w Hv Hok); [cbn [w_used w_c]; lia|exact Hx]|].
        apply (insert_rel _ _ _ _ _ _ _ (mkW c u []) w Hok Hx).
    - destruct (tdiff (tc_next c) _ >? 0).
      + intros Hx. split; [apply (insert_lim v mp mt seq len (rst || fin) ts (mkW c u []) w Hv Hok); [cbn [w_used w_c]; lia|exact Hx]|].
        apply (insert_rel _ _ _ _ _ _ _ (mkW c u []) w Hok Hx).
      + destruct (span_len (tc_next c) _ len) as [l nx]. intros Hx. inversion Hx; subst.
        unfold wlim, conn_ok, qlen in *. cbn. intuition lia. }
  destruct ow as [w|]; [|discriminate]. destruct (Hw w eq_refl) as [W Wok].
  destruct (w_ret w) eqn:Er; intros Hr; inversion Hr; subst; clear Hr.
  - unfold rlim, wlim in *. cbn. intuition.
  - eapply rlim_of; [exact Wok|exact W|]. apply send_rel. apply wrel_refl. exact Wok.
Qed.

Definition limv (st : tstate) : Prop :=
  (ts_maxPer st > 0 -> Forall (fun c => qlen c < ts_maxPer st) (ts_conns st)) /\
  (ts_maxTotal st > 0 -> ts_used st < ts_maxTotal st).

Lemma tassemble_lim : forall v st k seq syn fin rst len ts, v_limit v = true -> tinv st -> limv st ->
  limv (fst (tassemble v st k seq syn fin rst len ts)).
Proof.
  intros v st k seq syn fin rst len ts Hv [Hu HF] [Lp Lt]. unfold tassemble.
  destruct (negb syn && negb fin && negb rst && (len =? 0)); [split; assumption|].
  destruct (split_key k (ts_conns st)) as [[[pre c] post]|] eqn:Es.
  - apply split_key_spec in Es. destruct Es as [El _].
    assert (Hc : conn_ok c). { rewrite El in HF. apply Forall_app in HF. destruct HF as [_ HF]. inversion HF; assumption. }
    destruct (assemble_locked v st c seq syn fin rst len ts) as [r|] eqn:Ea; cbn [fst].
    + assert (Hpc : ts_maxPer st > 0 -> qlen c < ts_maxPer st).
      { intros Hm. specialize (Lp Hm). rewrite El in Lp. apply Forall_app in Lp. destruct Lp as [_ Lp]. inversion Lp; assumption. }
      destruct (assemble_locked_lim _ _ _ _ _ _ _ _ _ _ Hv Hc Hpc Lt Ea) as [R1 R2].
      unfold put_back, limv. destruct (tr_closed r); cbn [ts_conns ts_used ts_maxPer ts_maxTotal]; (split; [|exact R2]);
        intros Hm; specialize (Lp Hm); rewrite El in Lp; apply Forall_app in Lp; destruct Lp as [P1 P2]; inversion P2; subst;
        apply Forall_app; (split; [assumption|]); [assumption|constructor; [apply R1; [reflexivity|exact Hm]|assumption]].
    + unfold limv, dead_of. cbn. split; assumption.
  - destruct (negb syn && (len =? 0)); [split; assumption|].
    destruct (take_free st) as [[[inh free1] fresh1] alloc1].
    set (c := mkTC k (ts_nstreams st + 1) 0 [] INVALID (if v_lastseen v then ts else inh)).
    assert (Hc : conn_ok c) by (unfold conn_ok, qlen; reflexivity).
    destruct (assemble_locked v st c seq syn fin rst len ts) as [r|] eqn:Ea; cbn [fst].
    + assert (Hpc : ts_maxPer st > 0 -> qlen c < ts_maxPer st) by (unfold qlen; cbn; lia).
      destruct (assemble_locked_lim _ _ _ _ _ _ _ _ _ _ Hv Hc Hpc Lt Ea) as [R1 R2].
      unfold put_back, limv. destruct (tr_closed r); cbn [ts_conns ts_used ts_maxPer ts_maxTotal]; (split; [|exact R2]);
        intros Hm; specialize (Lp Hm); [rewrite app_nil_r; exact Lp|].
      apply Forall_app. split; [exact Lp|]. constructor; [apply R1; [reflexivity|exact Hm]|constructor].
    + unfold limv, dead_of. cbn. split; assumption.
Qed.

Lemma flush_lim : forall f st a b, (forall c u, conn_ok c -> rrel c u (fst (f c u))) -> tinv st -> limv st ->
  let acc := flush_conns f (ts_conns st) (ts_used st) in
  limv (mkTS (fa_keep acc) a (ts_fresh st) (ts_alloc st) (fa_used acc) (ts_maxPer st) (ts_maxTotal st) (ts_nstreams st) b).
Proof.
  intros f st a b Hr [Hu HF] [Lp Lt]. cbn zeta. unfold limv. cbn [ts_conns ts_used ts_maxPer ts_maxTotal]. split.
  - intros Hm. apply (flush_conns_forall f (fun c => qlen c < ts_maxPer st) (fun c => qlen c < ts_maxPer st)); [|exact Hr|exact HF|exact (Lp Hm)].
    intros c u Hok Hq Hc. pose proof (Hr c u Hok) as R. unfold rrel in R. rewrite Hc in R. lia.
  - intros Hm. destruct (flush_conns_inv f Hr (ts_conns st) (ts_used st) HF) as [I1 [_ I3]]. specialize (Lt Hm). lia.
Qed.

Lemma tstep_lim : forall v st o, v_limit v = true -> tinv st -> limv st -> limv (fst (tstep v st o)).
Proof.
  intros v st o Hv Hi L. unfold tstep. destruct (ts_dead st); [exact L|].
  destruct o.
  - apply tassemble_lim; assumption.
  - unfold tflush. cbn [fst]. apply flush_lim; [intros; apply flush_conn_rel; assumption|exact Hi|exact L].
  - unfold tflush_all. cbn [fst]. apply flush_lim; [intros; apply flush_all_conn_rel; assumption|exact Hi|exact L].
Qed.

Lemma tstep_cfg : forall v st o, ts_maxPer (fst (tstep v st o)) = ts_maxPer st /\ ts_maxTotal (fst (tstep v st o)) = ts_maxTotal st.
Proof.
  intros v st o. unfold tstep. destruct (ts_dead st); [split; reflexivity|].
  destruct o; [|split; reflexivity|split; reflexivity].
  unfold tassemble. destruct (negb syn && negb fin && negb rst && (len =? 0)); [split; reflexivity|].
  destruct (split_key key (ts_conns st)) as [[[pre c] post]|].
  - destruct (assemble_locked v st c seq syn fin rst len ts); cbn [fst]; [|split; reflexivity].
    unfold put_back. destruct (tr_closed t); split; reflexivity.
  - destruct (negb syn && (len =? 0)); [split; reflexivity|].
    destruct (take_free st) as [[[inh free1] fresh1] alloc1].
    destruct (assemble_locked v st _ seq syn fin rst len ts); cbn [fst]; [|split; reflexivity].
    unfold put_back. destruct (tr_closed t); split; reflexivity.
Qed.

Lemma trun_state_lim : forall v ops st, v_limit v = true -> tinv st -> limv st ->
  limv (fst (trun_state v st ops)) /\
  ts_maxPer (fst (trun_state v st ops)) = ts_maxPer st /\ ts_maxTotal (fst (trun_state v st ops)) = ts_maxTotal st.
Proof.
  intros v. induction ops as [|o ops IH]; intros st Hv Hi L; cbn [trun_state]; [split; [exact L|split; reflexivity]|].
  pose proof (tstep_inv v st o Hi) as Hi1. pose proof (tstep_lim v st o Hv Hi L) as L1.
  destruct (tstep_cfg v st o) as [C1 C2].
  destruct (tstep v st o) as [st' ou]. cbn [fst] in *.
  destruct (IH st' Hv Hi1 L1) as [I1 [I2 I3]]. destruct (trun_state v st' ops) as [st2 ev]. cbn [fst] in *.
  split; [exact I1|]. split; congruence.
Qed.

(* C11_limit for the repaired tcpassembly: after every call, with a per-connection limit L > 0
   every connection buffers fewer than L pages, with a total limit T > 0 fewer than T pages are
   in use.  (During the call at most the pages of the packet in hand are added on top.) *)
Lemma t_limit : forall v mp mt ops, v_limit v = true ->
  let st := fst (trun_state v (tinit mp mt) ops) in
  (mp > 0 -> Forall (fun c => zlen (tc_queue c) < mp) (ts_conns st)) /\ (mt > 0 -> ts_used st < mt).
Proof.
  intros v mp mt ops Hv. cbn zeta.
  assert (L0 : limv (tinit mp mt)). { unfold limv, tinit. cbn. split; [intros; constructor|lia]. }
  destruct (trun_state_lim v ops _ Hv (tinit_inv mp mt) L0) as [[L1 L2] [C1 C2]].
  cbn [tinit ts_maxPer ts_maxTotal] in C1, C2. rewrite C1 in L1. rewrite C2 in L2. split; assumption.
Qed.

(* ------------------------------------------------------------------ C11_age *)
Lemma flush_loop_fix : forall fuel t r, tr_closed r = true -> flush_loop fuel t r = r.
Proof. destruct fuel; intros t r H; cbn [flush_loop]; [reflexivity|]. rewrite H. reflexivity. Qed.

Lemma flush_loop_age : forall fuel t r, (tr_closed r = false -> conn_ok (tr_c r)) ->
  (length (tc_queue (tr_c r)) < fuel)%nat ->
  tr_closed (flush_loop fuel t r) = true \/ head_older (tr_c (flush_loop fuel t r)) t = false.
Proof.
  induction fuel as [|f IH]; intros t r Hok Hl; [lia|]. cbn [flush_loop].
  destruct (tr_closed r) eqn:Ec; [left; exact Ec|]. specialize (Hok eq_refl).
  destruct (tc_queue (tr_c r)) as [|p q] eqn:E.
  - right. unfold head_older. rewrite E. reflexivity.
  - destruct (tp_seen p <? t) eqn:Et.
    + set (r1 := skip_flush (tr_c r) (tr_used r) (tr_calls r)).
      destruct (tr_closed r1) eqn:Ec1; [left; rewrite flush_loop_fix; assumption|].
      apply IH.
      * intros _. pose proof (skip_flush_rel (tr_c r) (tr_used r) (tr_calls r) Hok) as R. fold r1 in R.
        unfold rrel in R. rewrite Ec1 in R. apply R.
      * assert (Hne : tc_queue (tr_c r) <> []) by (rewrite E; discriminate).
        pose proof (skip_flush_lt (tr_c r) (tr_used r) (tr_calls r) Hok Hne Ec1) as L. fold r1 in L.
        unfold qlen, zlen in L. rewrite E in L. cbn [length] in *. lia.
    + right. unfold head_older. rewrite E. exact Et.
Qed.

(* what FlushWithOptions guarantees for a connection it leaves in the pool *)
Definition aged (t : Z) (ca : bool) (c : tconn) : Prop :=
  head_older c t = false /\ (ca = true -> tc_queue c = [] -> t <= tc_seen c).

Lemma flush_conn_age : forall t ca c u, conn_ok c -> tr_closed (fst (flush_conn t ca c u)) = false ->
  aged t ca (tr_c (fst (flush_conn t ca c u))).
Proof.
  intros t ca c u Hok. unfold flush_conn.
  pose proof (flush_loop_age (S (length (tc_queue c))) t (mkTR c false u []) (fun _ => Hok) (Nat.lt_succ_diag_r _)) as A.
  set (r := flush_loop (S (length (tc_queue c))) t (mkTR c false u [])) in *.
  destruct (ca && negb (tr_closed r) &&
     match tc_queue (tr_c r) with [] => true | _ :: _ => false end && (tc_seen (tr_c r) <? t)) eqn:Ecc; cbn [fst].
  - unfold close_connection. cbn [tr_closed]. discriminate.
  - intros Hc. destruct A as [A|A]; [congruence|]. split; [exact A|].
    intros Hca Hq. rewrite Hca, Hc, Hq in Ecc. cbn [andb negb] in Ecc. clearbody r. apply Z.ltb_ge in Ecc. exact Ecc.
Qed.

(* a connection the cut-off does not concern is left alone *)
Lemma flush_conn_untouched : forall t ca c u, head_older c t = false ->
  (ca = true -> tc_queue c = [] -> t <= tc_seen c) ->
  flush_conn t ca c u = (mkTR c false u [], false).
Proof.
  intros t ca c u Hh Hi. unfold flush_conn.
  assert (E : flush_loop (S (length (tc_queue c))) t (mkTR c false u []) = mkTR c false u []).
  { cbn [flush_loop tr_closed tr_c]. unfold head_older in Hh. destruct (tc_queue c); [reflexivity|]. rewrite Hh. reflexivity. }
  rewrite E. cbn [tr_closed tr_c negb]. rewrite Hh.
  destruct ca; [|reflexivity]. cbn [andb]. destruct (tc_queue c) eqn:Eq; [|reflexivity].
  specialize (Hi eq_refl eq_refl). destruct (tc_seen c <? t) eqn:El; [lia|reflexivity].
Qed.

(* every batch an age flush hands to a stream starts with data older than the cut-off *)
Definition call_older (t : Z) (l : list chunk) : Prop :=
  match l with r :: _ => ch_seen r < t | [] => False end.

Lemma skip_flush_calls : forall c u calls p rest, tc_queue c = p :: rest ->
  exists l r0 tl, tr_calls (skip_flush c u calls) = calls ++ [l] /\ l = r0 :: tl /\ ch_seen r0 = tp_seen p.
Proof.
  intros c u calls p rest E. unfold skip_flush. rewrite E.
  unfold send_to_connection, add_contiguous, add_next. cbn [w_c]. rewrite E.
  destruct (pop_page (tc_next c) p) as [r0 nx] eqn:Ep. cbn [w_c w_ret w_used set_queue tc_queue tc_next tc_pages app].
  match goal with |- context [contiguous ?q ?n] => destruct (contiguous q n) as [[rs1 q1] n1] end. cbn [w_c w_ret w_used set_queue tc_queue tc_next tc_pages].
  match goal with |- context [contiguous ?q ?n] => destruct (contiguous q n) as [[rs2 q2] n2] end. cbn [w_c w_ret w_used].
  exists ((r0 :: rs2) ++ rs1), r0, (rs2 ++ rs1).
  assert (Hs : ch_seen r0 = tp_seen p).
  { unfold pop_page in Ep. destruct (span_len (tc_next c) (tp_seq p) (tp_len p)). inversion Ep; subst. reflexivity. }
  match goal with |- context [if ?b then _ else _] => destruct b end; cbn [tr_calls close_connection]; (split; [reflexivity|split; [reflexivity|exact Hs]]).
Qed.

Lemma flush_loop_calls : forall fuel t r, Forall (call_older t) (tr_calls r) ->
  Forall (call_older t) (tr_calls (flush_loop fuel t r)).
Proof.
  induction fuel as [|f IH]; intros t r H; cbn [flush_loop]; [exact H|].
  destruct (tr_closed r); [exact H|]. destruct (tc_queue (tr_c r)) as [|p q] eqn:E; [exact H|].
  destruct (tp_seen p <? t) eqn:Et; [|exact H]. apply IH.
  destruct (skip_flush_calls (tr_c r) (tr_used r) (tr_calls r) p q E) as [l [r0 [tl [C1 [C2 C3]]]]].
  rewrite C1. apply Forall_app. split; [exact H|]. constructor; [|constructor]. subst l. cbn [call_older]. lia.
Qed.

Definition ev_older (t : Z) (e : event) : Prop :=
  match e with EData _ _ _ _ _ _ seen _ => seen < t | _ => True end.

Lemma flush_conn_events : forall t ca c u, Forall (ev_older t) (res_events (fst (flush_conn t ca c u))).
Proof.
  intros t ca c u.
  assert (H : Forall (call_older t) (tr_calls (fst (flush_conn t ca c u)))).
  { unfold flush_conn.
    pose proof (flush_loop_calls (S (length (tc_queue c))) t (mkTR c false u []) (Forall_nil _)) as F.
    match goal with |- context [if ?b then _ else _] => destruct b end; cbn [fst close_connection tr_calls]; exact F. }
  unfold res_events. apply Forall_app. split.
  - induction (tr_calls (fst (flush_conn t ca c u))) as [|l ls IH]; cbn [map]; [constructor|].
    inversion H as [|? ? Hl Hls]; subst. constructor; [|apply IH; exact Hls].
    unfold call_event. destruct l as [|r0 tl]; [contradiction|]. cbn [ev_older]. exact Hl.
  - destruct (tr_closed (fst (flush_conn t ca c u))); constructor; [exact I|constructor].
Qed.

Lemma flush_conns_events : forall f (P : event -> Prop), (forall c u, Forall P (res_events (fst (f c u)))) ->
  forall l used, Forall P (fa_ev (flush_conns f l used)).
Proof.
  intros f P H. induction l as [|c l IH]; intros used; cbn [flush_conns]; [constructor|].
  specialize (H c used). destruct (f c used) as [r fl]. cbn [fst] in H. cbn [fa_ev]. apply Forall_app. split; [exact H|apply IH].
Qed.

(* C11_age *)
Lemma t_age : forall v st t ca, tinv st -> ts_dead st = false ->
  let st' := fst (tstep v st (TFlush t ca)) in
  let ou := snd (tstep v st (TFlush t ca)) in
  Forall (aged t ca) (ts_conns st') /\ Forall (ev_older t) (to_ev ou).
Proof.
  intros v st t ca [Hu HF] Hd. cbn zeta. unfold tstep. rewrite Hd. unfold tflush. cbn [fst snd ts_conns to_ev]. split.
  - apply (flush_conns_forall (flush_conn t ca) (fun _ => True) (aged t ca)); [| |exact HF|].
    + intros c u Hok _ Hc. apply flush_conn_age; assumption.
    + intros; apply flush_conn_rel; assumption.
    + clear. induction (ts_conns st); constructor; auto.
  - apply flush_conns_events. apply flush_conn_events.
Qed.
