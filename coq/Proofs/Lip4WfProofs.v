(* Every layer obtained by a successful decode is well-formed (ip4_wf), hence round-trips. *)
From GP Require Import Base ListX Codec CodecBits Lip4Model Lip4Proofs Lip4RtProofs.
From Coq Require Import Lia ZifyBool ZifyNat.
Open Scope Z_scope.
Ltac Zify.zify_post_hook ::= Z.div_mod_to_equations.

Lemma bytes_ok_firstn n (l : list Z) : bytes_ok l -> bytes_ok (firstn n l).
Proof.
  unfold bytes_ok. rewrite !Forall_forall. intros H x Hx. apply H.
  rewrite <- (firstn_skipn n l). apply in_or_app. left. exact Hx.
Qed.

Lemma bytes_ok_skipn n (l : list Z) : bytes_ok l -> bytes_ok (skipn n l).
Proof.
  unfold bytes_ok. rewrite !Forall_forall. intros H x Hx. apply H.
  rewrite <- (firstn_skipn n l). apply in_or_app. right. exact Hx.
Qed.

Lemma bytes_ok_slice a b (l : list Z) : bytes_ok l -> bytes_ok (slice l a b).
Proof. intros H. unfold slice. apply bytes_ok_skipn, bytes_ok_firstn, H. Qed.

Lemma bytes_nth4 (l : list Z) i : bytes_ok l -> 0 <= nth i l 0 < 256.
Proof.
  intros H. destruct (Nat.lt_ge_cases i (length l)) as [L|L].
  - unfold bytes_ok in H. rewrite Forall_forall in H. apply H. apply nth_In. exact L.
  - rewrite nth_overflow by lia. lia.
Qed.

Lemma parse_wf : forall fuel hd, bytes_ok hd -> (length hd < fuel)%nat ->
  op_out (ip4_parse_opts fuel hd) = Ok tt ->
  exists body, Forall opt_rt_ok body /\
    ((op_opts (ip4_parse_opts fuel hd) = body /\ op_pad (ip4_parse_opts fuel hd) = None /\ opt_sum body = zlen hd) \/
     (exists p, op_opts (ip4_parse_opts fuel hd) = body ++ [eol] /\ op_pad (ip4_parse_opts fuel hd) = Some p /\
                opt_sum body + 1 + zlen p = zlen hd)).
Proof.
  induction fuel as [|f IH]; intros hd Hb Hf; [lia|]. cbn [ip4_parse_opts].
  destruct hd as [|t rest].
  { intros _. exists []. split; [constructor|]. left. repeat split. }
  assert (Ht : 0 <= t < 256) by (inversion Hb; assumption).
  assert (Hr : bytes_ok rest) by (inversion Hb; assumption).
  destruct (t =? 0) eqn:T0.
  { intros _. exists []. split; [constructor|]. right. exists rest. cbn [op_opts op_pad app opt_sum].
    repeat split. rewrite zlen_cons. lia. }
  destruct (t =? 1) eqn:T1.
  { cbn [op_cons op_out op_opts op_pad]. intros Ho.
    destruct (IH rest Hr ltac:(cbn [length] in Hf; lia) Ho) as [body [Fb Hc]].
    exists (mkOpt 1 1 [] :: body). split; [constructor; [left; repeat split|exact Fb]|].
    rewrite zlen_cons. cbn [opt_sum opt_size1 ot Z.eqb Pos.eqb orb].
    destruct Hc as [[E1 [E2 E3]]|[p [E1 [E2 E3]]]].
    - left. rewrite E1, E2. repeat split. lia.
    - right. exists p. rewrite E1, E2. repeat split. lia. }
  destruct rest as [|len r]; [discriminate|].
  assert (Hl : 0 <= len < 256) by (inversion Hr; assumption).
  destruct (zlen (t :: len :: r) <? len) eqn:A; [discriminate|].
  destruct (len <=? 2) eqn:B; [discriminate|].
  rewrite (cd_slc_ok (t :: len :: r) 2 len) by lia.
  rewrite (cd_slc_ok (t :: len :: r) len (zlen (t :: len :: r))) by lia.
  cbn [op_cons op_out op_opts op_pad]. intros Ho.
  set (hd := t :: len :: r) in *.
  set (rest' := slice hd (Z.to_nat len) (Z.to_nat (zlen hd))) in *.
  assert (Lr : zlen rest' = zlen hd - len).
  { unfold rest', zlen. rewrite Nat2Z.id. rewrite slice_full_length by (unfold zlen in *; lia). unfold zlen in *. lia. }
  assert (Ld : zlen (slice hd (Z.to_nat 2) (Z.to_nat len)) = len - 2).
  { unfold zlen. rewrite slice_length by (unfold zlen in *; lia). lia. }
  destruct (IH rest' (bytes_ok_slice _ _ _ Hb) ltac:(unfold zlen in *; lia) Ho) as [body [Fb Hc]].
  exists (mkOpt t len (slice hd (Z.to_nat 2) (Z.to_nat len)) :: body).
  split; [constructor; [right; cbn [ot ol od]; lia|exact Fb]|].
  cbn [opt_sum].
  assert (Esz : opt_size1 (mkOpt t len (slice hd (Z.to_nat 2) (Z.to_nat len))) = len)
    by (unfold opt_size1; cbn [ot ol]; rewrite T0, T1; reflexivity).
  rewrite !Esz.
  destruct Hc as [[E1 [E2 E3]]|[p [E1 [E2 E3]]]].
  - left. rewrite E1, E2. repeat split. lia.
  - right. exists p. rewrite E1, E2. repeat split. lia.
Qed.

Lemma ip4_decoded_wf old data l tr : bytes_ok data ->
  ip4_decode_into old data = (l, Ok tt, tr) -> ip4_wf l.
Proof.
  intros Hb. unfold ip4_decode_into, ip4_decode_gen. cbv zeta.
  destruct (zlen data <? 20) eqn:Hn; [discriminate|].
  rewrite (cd_rd16_ok data 2) by lia. rewrite dbind_ok.
  rewrite (cd_idx_ok data 0) by lia. rewrite dbind_ok.
  set (len0 := nth (Z.to_nat 2) data 0 * 256 + nth (Z.to_nat (2 + 1)) data 0).
  set (ihl := nth (Z.to_nat 0) data 0 mod 16).
  set (len1 := if len0 =? 0 then zlen data mod 65536 else len0).
  destruct (len1 <? 20) eqn:H1; [discriminate|].
  destruct (ihl <? 5) eqn:H2; [discriminate|].
  assert (Hihl : 5 <= ihl < 16) by (unfold ihl in *; lia).
  replace ((ihl * 4) mod 256) with (ihl * 4) by lia.
  destruct (ihl * 4 >? len1) eqn:H3; [discriminate|].
  set (d1 := if zlen data - len1 >? 0 then cd_slc data 0 len1 else Ok data).
  assert (Hd1 : exists data1, d1 = Ok data1 /\ 20 <= zlen data1 /\ bytes_ok data1 /\
            (zlen data - len1 <? 0 = false -> ihl * 4 <= zlen data1)).
  { unfold d1. destruct (zlen data - len1 >? 0) eqn:C.
    - rewrite cd_slc_ok by lia. eexists; split; [reflexivity|]. split; [|split; [apply bytes_ok_slice; exact Hb|]].
      + unfold zlen at 1. unfold slice. rewrite skipn_length, firstn_length. unfold zlen in *. lia.
      + unfold zlen at 2. unfold slice. rewrite skipn_length, firstn_length. unfold zlen in *. lia.
    - exists data. split; [reflexivity|]. split; [lia|]. split; [exact Hb|lia]. }
  destruct Hd1 as [data1 [E1 [L1 [B1 L2]]]]. rewrite E1, dbind_ok.
  destruct ((zlen data - len1 <? 0) && (ihl * 4 >? zlen data1)) eqn:H4; [discriminate|].
  assert (Hhl : ihl * 4 <= zlen data1) by (destruct (zlen data - len1 <? 0) eqn:C; [lia | apply L2; reflexivity]).
  rewrite (cd_slc_ok data1 0 (ihl * 4)) by lia. rewrite dbind_ok.
  rewrite (cd_slc_ok data1 (ihl * 4) (zlen data1)) by lia. rewrite dbind_ok.
  rewrite (cd_slc_ok data1 20 (ihl * 4)) by lia. rewrite dbind_ok.
  set (hod := slice data1 (Z.to_nat 20) (Z.to_nat (ihl * 4))).
  assert (Lh : zlen hod = ihl * 4 - 20) by (unfold hod, zlen; rewrite slice_length by (unfold zlen in *; lia); lia).
  set (r := ip4_parse_opts (S (length hod)) hod).
  destruct (op_out r) as [[]| |] eqn:Er; try discriminate.
  destruct (parse_wf (S (length hod)) hod (bytes_ok_slice _ _ _ B1) ltac:(lia) Er) as [body [Fb Hc]]. fold r in Hc.
  rewrite !cd_rd16_ok by lia. rewrite !dbind_ok.
  rewrite !cd_idx_ok by lia. rewrite !dbind_ok.
  rewrite !cd_slc_ok by lia. rewrite !dbind_ok.
  intros X. inversion X; subst l. clear X.
  pose proof (fun i => bytes_nth4 data1 i B1) as Bn.
  unfold ip4_wf. cbn [i4_version i4_tos i4_id i4_flags i4_frag i4_ttl i4_proto i4_src i4_dst i4_opts].
  pose proof (Bn 0%nat); pose proof (Bn (Pos.to_nat 1)); pose proof (Bn (Pos.to_nat 4)); pose proof (Bn (Pos.to_nat 5));
  pose proof (Bn (Pos.to_nat 6)); pose proof (Bn (Pos.to_nat 7)); pose proof (Bn (Pos.to_nat 8)); pose proof (Bn (Pos.to_nat 9)).
  repeat (split; [lia|]).
  split; [unfold zlen; rewrite slice_length by (unfold zlen in *; lia); lia|].
  split; [unfold zlen; rewrite slice_length by (unfold zlen in *; lia); lia|].
  destruct Hc as [[E1' [E2' E3']]|[p [E1' [E2' E3']]]].
  - split; [exists body; split; [exact Fb|left; split; [exact E1'|lia]]|]. rewrite E1'. lia.
  - split; [exists body; split; [exact Fb|right; exact E1']|]. rewrite E1', opt_sum_app. cbn [opt_sum opt_size1 eol ot Z.eqb orb].
    pose proof (zlen_nonneg p). lia.
Qed.
