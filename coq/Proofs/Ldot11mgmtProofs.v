(* Ldot11mgmt — proofs: decoder safety of the information element and the bodies, fresh = reused, the element walk's fuel. *)
From GP Require Import Base ListX Codec MiscLib Ldot11mgmtModel.
From Coq Require Import Lia ZifyBool ZifyNat.
Open Scope Z_scope.

(* on success the element's payload is data[2+len:] with len >= 0; never a panic *)
Lemma ie_decode_shape old data : bytes_ok data ->
  is_panic (snd (fst (ie_decode_into old data))) = false /\ snd (fst (ie_decode_into old data)) <> Err 99 /\
  (snd (fst (ie_decode_into old data)) = Ok tt ->
     exists k, 2 <= k <= zlen data /\ ie_payload (fst (fst (ie_decode_into old data))) = slice data (Z.to_nat k) (Z.to_nat (zlen data))).
Proof.
  intros Hb. unfold ie_decode_into. destruct (zlen data <? 2) eqn:E; [split; [reflexivity|split; discriminate]|].
  rewrite (cd_idx_ok data 0), (cd_idx_ok data 1) by lia. cbn [ml_bind].
  pose proof (bytes_ok_nth data (Z.to_nat 1) Hb) as B. set (len := nth (Z.to_nat 1) data 0) in *. set (id := nth (Z.to_nat 0) data 0).
  destruct (zlen data <? 2 + len) eqn:E2; [split; [reflexivity|split; discriminate]|].
  destruct (id =? 221).
  - destruct (zlen data <? 6) eqn:E3; [split; [reflexivity|split; discriminate]|]. rewrite cd_slc_ok by lia. cbn [ml_bind].
    destruct (6 >? 2 + len) eqn:E4; [split; [reflexivity|split; discriminate]|]. rewrite !cd_slc_ok by lia. cbn [ml_bind fst snd ie_payload].
    split; [reflexivity|]. split; [discriminate|]. intros _. exists (2 + len). split; [lia|reflexivity].
  - destruct (id =? 255).
    + destruct (zlen data <? 3) eqn:E3; [split; [reflexivity|split; discriminate]|]. rewrite cd_idx_ok by lia. cbn [ml_bind].
      destruct (3 >? 2 + len) eqn:E4; [split; [reflexivity|split; discriminate]|]. rewrite !cd_slc_ok by lia. cbn [ml_bind fst snd ie_payload].
      split; [reflexivity|]. split; [discriminate|]. intros _. exists (2 + len). split; [lia|reflexivity].
    + rewrite !cd_slc_ok by lia. cbn [ml_bind fst snd ie_payload].
      split; [reflexivity|]. split; [discriminate|]. intros _. exists (2 + len). split; [lia|reflexivity].
Qed.

Theorem ie_decode_no_panic old data : bytes_ok data -> is_panic (snd (fst (ie_decode_into old data))) = false.
Proof. intros Hb. exact (proj1 (ie_decode_shape old data Hb)). Qed.

Ltac ie_case :=
  match goal with
  | |- context [match ?x with _ => _ end] =>
    match x with context [ie_fresh] => fail 1 | _ => destruct x eqn:? end
  end.
Theorem ie_decode_fresh old data :
  let r1 := ie_decode_into old data in
  let r2 := ie_decode_into ie_fresh data in
  snd (fst r1) = snd (fst r2) /\ snd r1 = snd r2 /\ (snd (fst r1) = Ok tt -> fst (fst r1) = fst (fst r2)).
Proof.
  cbv zeta. unfold ie_decode_into, ml_bind.
  repeat (ie_case; cbn [fst snd]); repeat split; try reflexivity; intros; try discriminate.
Qed.

(* ---------------------------------------------------------------- bodies *)
Definition widths_ok (ws : list Z) : Prop := Forall (fun w => 0 <= w) ws.
Lemma mg_total_nonneg ws : widths_ok ws -> 0 <= mg_total ws.
Proof. induction 1 as [|w t Hw _ IH]; [cbn; lia|]. change (mg_total (w :: t)) with (w + mg_total t). lia. Qed.

Lemma mg_split_ok : forall ws data off, widths_ok ws -> 0 <= off -> off + mg_total ws <= zlen data ->
  exists fs, mg_split ws data off = Ok fs.
Proof.
  induction ws as [|w t IH]; intros data off Hw H0 Hl; [eexists; reflexivity|].
  inversion Hw as [|? ? Hw1 Hw2]; subst. pose proof (mg_total_nonneg t Hw2).
  change (mg_total (w :: t)) with (w + mg_total t) in Hl.
  cbn [mg_split]. rewrite cd_slc_ok by lia. cbn [obind].
  destruct (IH data (off + w) Hw2 ltac:(lia) ltac:(lia)) as [fs ->]. cbn [obind]. eexists; reflexivity.
Qed.

Theorem mg_decode_no_panic ws setsp old data : widths_ok ws -> is_panic (snd (fst (mg_decode_into ws setsp old data))) = false.
Proof.
  intros Hw. unfold mg_decode_into. pose proof (mg_total_nonneg ws Hw).
  destruct (zlen data <? mg_total ws) eqn:E; [reflexivity|].
  destruct (mg_split_ok ws data 0 Hw ltac:(lia) ltac:(lia)) as [fs ->]. cbn [ml_bind].
  rewrite cd_slc_ok by lia. reflexivity.
Qed.

Theorem mg_decode_fresh ws old data :
  let r1 := mg_decode_into ws true old data in
  let r2 := mg_decode_into ws true (mg_fresh ws) data in
  snd (fst r1) = snd (fst r2) /\ snd r1 = snd r2 /\ (snd (fst r1) = Ok tt -> fst (fst r1) = fst (fst r2)).
Proof.
  cbv zeta. unfold mg_decode_into, ml_bind.
  destruct (zlen data <? mg_total ws); [repeat split; try reflexivity; discriminate|].
  destruct (mg_split ws data 0); [|repeat split; try reflexivity; discriminate|repeat split; try reflexivity; discriminate].
  destruct (cd_slc data (mg_total ws) (zlen data)); repeat split; try reflexivity; discriminate.
Qed.

(* ---------------------------------------------------------------- the walk *)
Lemma slice_tail_len (data : list Z) k : 2 <= k <= zlen data ->
  (length (slice data (Z.to_nat k) (Z.to_nat (zlen data))) + 2 <= length data)%nat.
Proof.
  intros H. unfold slice, zlen in *. rewrite skipn_length, firstn_length. lia.
Qed.

Theorem ie_walk_safe : forall fuel data acc, bytes_ok data -> (length data <= fuel)%nat ->
  let r := ie_walk fuel data acc in
  is_panic (snd (fst r)) = false /\ snd (fst r) <> Err 99.
Proof.
  induction fuel as [|f IH]; intros data acc Hb Hl; cbv zeta.
  - destruct data; [cbn; split; [reflexivity|discriminate]|cbn in Hl; lia].
  - cbn [ie_walk]. destruct data as [|b0 t] eqn:ED; [cbn; split; [reflexivity|discriminate]|]. rewrite <- ED in *.
    destruct (ie_decode_shape ie_fresh data Hb) as (NP & NF & SH).
    destruct (ie_decode_into ie_fresh data) as [[e o] tr]. cbn [fst snd] in *.
    destruct o as [u|c|s]; cbn [fst snd].
    + destruct u. destruct (SH eq_refl) as (k & Hk & EP). rewrite EP.
      apply IH; [apply bytes_ok_slice; exact Hb|]. pose proof (slice_tail_len data k Hk). lia.
    + split; [reflexivity|exact NF].
    + discriminate NP.
Qed.
