(* Extraction of the executable models for the correspondence runner.
   ExtrOcamlBasic only: bool, option, unit, list, prod, sumbool, sumor map to OCaml's;
   nat, positive, N, Z stay the extracted inductives.  No Extract Constant. *)
Require Extraction.
Require Import ExtrOcamlBasic.
From GP Require C18Model.
Separate Extraction
  BinNums.N BinNums.Z Datatypes.nat
  C18Model.run_trace.
