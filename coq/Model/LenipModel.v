(* Lenip / Lcip — executable models of layers/enip.go (ENIP.DecodeFromBytes :151-164, getPayload :166-211,
   getDataFormatIDLen :213-246, NextLayerType :252-264, ENIPCommandSpecificData.NextLayer :275-288) and
   layers/cip.go (CIP.DecodeFromBytes :255-385 as repaired, NextLayerType :395-397).  Definitions only.
   Neither layer has a SerializeTo (C06, C07 do not apply); CIP never assigns BaseLayer. *)
From GP Require Import Base Codec MiscLib MidLib.
Open Scope Z_scope.

(* ------------------------------------------------------------------ ENIP *)
Record enip := mkEn {
  en_contents : list Z; en_payload : list Z; en_cmd : Z; en_len : Z; en_sess : Z; en_status : Z;
  en_sctx : list Z; en_opts : Z; en_cs_cmd : Z; en_cs_data : list Z }.
Definition en_fresh : enip := mkEn [] [] 0 0 0 0 [] 0 0 [].

(* getDataFormatIDLen :213-246 on data[csdEnd+2:] *)
Definition en_idlen (id : Z) (d : list Z) : outcome Z :=
  if (id =? 0) || (id =? 178) || (id =? 256) || (id =? 32768) then Ok 4
  else if id =? 12 then Ok 8
  else if id =? 161 then
    if zlen d <? 2 then Err 10 else
    obind (md_rd16le d 0) (fun len => if 2 + len >? zlen d then Err 11 else Ok (4 + len))
  else if id =? 177 then Ok 6
  else if (id =? 32769) || (id =? 32770) then Ok 2
  else Err 12.

(* the item loop :186-196; (csdEnd or error, truncated) ; Err 99 = out of fuel *)
Fixpoint en_items (fuel : nat) (data : list Z) (cnt i csd : Z) : outcome Z * bool :=
  match fuel with
  | O => (Err 99, false)
  | S f =>
    if i <? cnt then
      if csd + 4 >? zlen data then (Err 2, true) else                             (* :187-190 *)
      match md_rd16le data csd with                                               (* :191 *)
      | Ok id =>
        match cd_slc data (csd + 2) (zlen data) with
        | Ok d =>
          match en_idlen id d with                                                (* :192-195 *)
          | Ok len => en_items f data cnt (i + 1) (csd + len)
          | Err e => (Err e, false) | Panic s => (Panic s, false)
          end
        | Err e => (Err e, false) | Panic s => (Panic s, false)
        end
      | Err e => (Err e, false) | Panic s => (Panic s, false)
      end
    else (Ok csd, false)
  end.

Definition en_decode_into (old : enip) (data : list Z) : enip * outcome unit * bool :=
  let n := zlen data in
  if n <? 24 then (old, Err 1, true) else                                         (* :152-155 *)
  match md_rd16le data 0, md_rd16le data 2, md_rd32le data 4, md_rd32le data 8, cd_slc data 12 20, md_rd32le data 20 with
  | Ok cmd, Ok len, Ok sess, Ok st, Ok sctx, Ok opts =>                            (* :156-161 *)
    let l := mkEn (en_contents old) (en_payload old) cmd len sess st sctx opts cmd (en_cs_data old) in   (* :167 *)
    let fin := fun c p d => mkEn c p cmd len sess st sctx opts cmd d in
    if cmd =? 101 then                                                            (* RegisterSession :169-177 *)
      if n <? 28 then (l, Err 3, true) else
      match cd_slc data 24 28, cd_slc data 0 28, cd_slc data 28 n with
      | Ok d, Ok c, Ok p => (fin c p d, Ok tt, false)
      | _, _, _ => (l, Panic 1, false)
      end
    else if (cmd =? 112) || (cmd =? 111) then                                     (* SendUnitData / SendRRData :178-204 *)
      if n <? 36 then (l, Err 4, true) else
      match md_rd16le data 30 with
      | Ok cnt =>
        match en_items (S (length data)) data cnt 0 32 with
        | (Ok csd, _) =>
          if n <? csd then (l, Err 5, true) else                                  (* :197-200 *)
          match cd_slc data 24 csd, cd_slc data 0 csd, cd_slc data csd n with
          | Ok d, Ok c, Ok p => (fin c p d, Ok tt, false)
          | _, _, _ => (l, Panic 2, false)
          end
        | (Err e, tr) => (l, Err e, tr)
        | (Panic s, tr) => (l, Panic s, tr)
        end
      | Err e => (l, Err e, false) | Panic s => (l, Panic s, false)
      end
    else                                                                          (* :205-209 *)
      match cd_slc data 24 n with
      | Ok d => (fin data [] d, Ok tt, false)
      | Err e => (l, Err e, false) | Panic s => (l, Panic s, false)
      end
  | _, _, _, _, _, _ => (old, Panic 3, false)
  end.

(* NextLayerType :252-264, NextLayer :275-288: 1 = LayerTypeCIP, 0 = LayerTypePayload *)
Definition en_next (l : enip) : Z :=
  if (en_cmd l =? 111) || (en_cmd l =? 112) then
    if zlen (en_cs_data l) <? 4 then 0 else
    match md_rd32le (en_cs_data l) 0 with Ok 0 => 1 | _ => 0 end
  else 0.
Definition en_render_panics (l : enip) : bool := false.

(* ------------------------------------------------------------------ CIP *)
Record cip := mkCi {
  ci_contents : list Z; ci_payload : list Z; ci_resp : bool; ci_service : Z; ci_class : Z; ci_inst : Z;
  ci_status : Z; ci_addst : list Z; ci_data : list Z }.
Definition ci_fresh : cip := mkCi [] [] false 0 0 0 0 [] [].

Fixpoint ci_adds (k : nat) (data : list Z) (off : Z) : outcome (list Z) :=         (* :369-372 *)
  match k with
  | O => Ok []
  | S k' => obind (md_rd16le data off) (fun v => obind (ci_adds k' data (off + 2)) (fun l => Ok (v :: l)))
  end.

Definition ci_setc (l : cip) c := mkCi (ci_contents l) (ci_payload l) (ci_resp l) (ci_service l) c (ci_inst l) (ci_status l) (ci_addst l) (ci_data l).
Definition ci_seti (l : cip) i := mkCi (ci_contents l) (ci_payload l) (ci_resp l) (ci_service l) (ci_class l) i (ci_status l) (ci_addst l) (ci_data l).
Definition ci_setd (l : cip) d := mkCi (ci_contents l) (ci_payload l) (ci_resp l) (ci_service l) (ci_class l) (ci_inst l) (ci_status l) (ci_addst l) d.

(* :347-349 / :374-376 `if offset < len(data) { cip.Data = data[offset:] }` *)
Definition ci_fin (data : list Z) (l : cip) (off : Z) : cip * outcome unit * bool :=
  if off <? zlen data then ml_bind (cd_slc data off (zlen data)) l false (fun d => (ci_setd l d, Ok tt, false))
  else (l, Ok tt, false).

(* :321-349 the instance segment and the data *)
Definition ci_after_class (data : list Z) (l2 : cip) (off : Z) : cip * outcome unit * bool :=
  let n := zlen data in
  if off >=? n then (l2, Err 7, true) else                                        (* :322-325 *)
  ml_bind (cd_idx data off) l2 false (fun iinfo =>
  let off := off + 1 in
  if iinfo =? 36 then                                                             (* :330-337 *)
    if off >=? n then (l2, Err 8, true) else
    ml_bind (cd_idx data off) l2 false (fun v => ci_fin data (ci_seti l2 v) (off + 1))
  else if iinfo =? 37 then                                                        (* :338-345 *)
    if off + 2 >? n then (l2, Err 9, true) else
    ml_bind (md_rd16le data off) l2 false (fun v => ci_fin data (ci_seti l2 v) (off + 2))
  else ci_fin data l2 off).

(* rc = the repaired code (optional fields reset before parsing); false = the original *)
Definition ci_decode_gen (rc : bool) (old : cip) (data : list Z) : cip * outcome unit * bool :=
  let n := zlen data in
  if n <? 2 then (old, Err 1, true) else                                          (* :257-260 *)
  match cd_idx data 0 with
  | Ok tmp =>
    let resp := 128 <=? tmp in
    let o := if rc then mkCi (ci_contents old) (ci_payload old) false 0 0 0 0 [] [] else old in
    let l1 := mkCi (ci_contents o) (ci_payload o) resp (tmp mod 128) (ci_class o) (ci_inst o) (ci_status o) (ci_addst o) (ci_data o) in   (* :266-271 *)
    if negb resp then
      ml_bind (cd_idx data 1) l1 false (fun ps =>                                 (* :276-281 *)
      if ps >? 127 then (l1, Err 2, true) else                                    (* :284-287 *)
      if n <? 2 + 2 * ps then (l1, Err 3, true) else                              (* :288-292 *)
      if 2 >=? n then (l1, Err 4, true) else                                      (* :295-298 *)
      ml_bind (cd_idx data 2) l1 false (fun cinfo =>                              (* :299-300 *)
      if cinfo =? 32 then                                                         (* :303-310 *)
        if 3 >=? n then (l1, Err 5, true) else
        ml_bind (cd_idx data 3) l1 false (fun v => ci_after_class data (ci_setc l1 v) 4)
      else if cinfo =? 33 then                                                    (* :311-318 *)
        if 5 >? n then (l1, Err 6, true) else
        ml_bind (md_rd16le data 3) l1 false (fun v => ci_after_class data (ci_setc l1 v) 5)
      else ci_after_class data l1 3))
    else
      if n <? 4 then (l1, Err 10, true) else                                      (* :351-354 *)
      ml_bind (cd_idx data 2) l1 false (fun st =>                                 (* :358 *)
      let l2 := mkCi (ci_contents l1) (ci_payload l1) (ci_resp l1) (ci_service l1) (ci_class l1) (ci_inst l1) st (ci_addst l1) (ci_data l1) in
      ml_bind (cd_idx data 3) l2 false (fun asz =>                                (* :361 *)
      if n <? 4 + 2 * asz then (l2, Err 11, true) else                            (* :364-367 *)
      ml_bind (ci_adds (Z.to_nat asz) data 4) l2 false (fun adds =>               (* :369-372 *)
      let l3 := mkCi (ci_contents l2) (ci_payload l2) (ci_resp l2) (ci_service l2) (ci_class l2) (ci_inst l2) st (ci_addst l2 ++ adds) (ci_data l2) in
      ci_fin data l3 (4 + 2 * asz))))                                             (* :374-376 *)
  | Err e => (old, Err e, false) | Panic s => (old, Panic s, false)
  end.
Definition ci_decode_into := ci_decode_gen true.
Definition ci_decode_into_orig := ci_decode_gen false.

Definition ci_next (l : cip) : Z := 0.
(* CIPService.String / CIPStatus.String are switches with a default *)
Definition ci_render_panics (l : cip) : bool := false.
