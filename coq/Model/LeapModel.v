(* Leap — executable model of layers/eap.go (EAP packet codec) as repaired by the two fix: commits of agent-lmisc3
   (TypeData ends at Length; the serializer writes the type octet whenever there is one and FixLengths sets the packet length).
   Definitions only.  Repaired file: DecodeFromBytes :50-78, SerializeTo :81-105, NextLayerType :112-114 (LayerTypeZero).
   `orig` selects the behaviour before the repairs. *)
From GP Require Import Base Codec MiscLib.
Open Scope Z_scope.
Record eap := mkEap { e_contents : list Z; e_payload : list Z; e_code : Z; e_id : Z; e_length : Z; e_type : Z; e_tdata : list Z }.
Definition eap_fresh : eap := mkEap [] [] 0 0 0 0 [].
Definition eap_decode_gen (orig : bool) (old : eap) (data : list Z) : eap * outcome unit * bool :=
  let n := zlen data in
  if n <? 4 then (old, Err 1, true) else                                         (* :51-54 *)
  ml_bind (cd_idx data 0) old false (fun c => ml_bind (cd_idx data 1) old false (fun id => ml_bind (cd_rd16 data 2) old false (fun len =>
  let l1 := mkEap (e_contents old) (e_payload old) c id len (e_type old) (e_tdata old) in   (* :55-57 *)
  if n <? len then (l1, Err 2, true) else                                        (* :58-61 *)
  if 4 <? len then                                                               (* :63 *)
    ml_bind (cd_idx data 4) l1 false (fun ty =>                                  (* :64 *)
    ml_bind (cd_slc data 5 (if orig then n else len)) l1 false (fun td =>        (* :66 data[5:e.Length] (orig: data[5:]) *)
    ml_bind (cd_slc data 0 len) (mkEap (e_contents old) (e_payload old) c id len ty td) false (fun ct =>   (* :74 *)
    ml_bind (cd_slc data len n) (mkEap (e_contents old) (e_payload old) c id len ty td) false (fun p =>    (* :75 *)
    (mkEap ct p c id len ty td, Ok tt, false)))))
  else if len =? 4 then                                                          (* :67-69 *)
    ml_bind (cd_slc data 0 len) (mkEap (e_contents old) (e_payload old) c id len 0 []) false (fun ct =>
    ml_bind (cd_slc data len n) (mkEap (e_contents old) (e_payload old) c id len 0 []) false (fun p =>
    (mkEap ct p c id len 0 [], Ok tt, false)))
  else (l1, Err 3, false)))).                                                    (* :70-72 *)
Definition eap_decode_into := eap_decode_gen false.
Definition eap_decode_orig := eap_decode_gen true.
Definition eap_next (l : eap) : Z := 0.

Definition eap_serialize_gen (orig : bool) (l : eap) (payload : list Z) (fixl csum : bool) (junk : list Z) : outcome (list Z) * eap :=
  let has := if orig then zlen (e_tdata l) >? 0
             else negb (e_type l =? 0) || (zlen (e_tdata l) >? 0) || (negb fixl && (4 <? e_length l)) in   (* :84 *)
  let size := if has then 5 + zlen (e_tdata l) else 4 in                         (* :85-88 *)
  let len := if fixl then (if orig then (zlen (e_tdata l) + 1) mod 65536 else size mod 65536) else e_length l in   (* :89-91 *)
  let l1 := mkEap (e_contents l) (e_payload l) (e_code l) (e_id l) len (e_type l) (e_tdata l) in
  let r :=
    obind (ml_wrc (cd_region size junk) 0 [e_code l mod 256; e_id l mod 256]) (fun b =>   (* :92-97 *)
    obind (ml_wrc b 2 (cd_put16 len)) (fun b =>                                  (* :98 *)
    if 4 <? size then obind (ml_wrc b 4 [e_type l mod 256]) (fun b => ml_copy b 5 (e_tdata l))   (* :99-102 *)
    else Ok b)) in
  match r with
  | Ok b => (Ok (b ++ payload), l1) | Err c => (Err c, l1) | Panic s => (Panic s, l1)
  end.
Definition eap_serialize := eap_serialize_gen false.
Definition eap_serialize_orig := eap_serialize_gen true.
Definition eap_render_panics (l : eap) : bool := false.
