(* Lerspan2 — executable model of layers/erspan2.go (ERSPAN type II header codec).  Definitions only.
   /repo/layers/erspan2.go: DecodeFromBytes :36-53, SerializeTo :58-76, NextLayerType :84-86 (LayerTypeEthernet).
   Go's & and >> have the same precedence, left to right: x & 0xF0 >> 4 is (x & 0xF0) >> 4.
   The serializer ORs masked, shifted fields that do not overlap: the sum. *)
From GP Require Import Base Codec MiscLib.
Open Scope Z_scope.
Record erspan := mkEr { er_contents : list Z; er_payload : list Z; er_trunc : bool; er_version : Z; er_cos : Z; er_encap : Z;
                        er_vlan : Z; er_session : Z; er_reserved : Z; er_index : Z }.
Definition er_fresh : erspan := mkEr [] [] false 0 0 0 0 0 0 0.
Definition er_decode_into (old : erspan) (data : list Z) : erspan * outcome unit * bool :=
  let n := zlen data in
  if n <? 8 then (old, Err 1, true) else                                  (* :38-41 *)
  ml_bind (cd_idx data 0) old false (fun b0 =>
  ml_bind (cd_rd16 data 0) old false (fun w0 =>
  ml_bind (cd_idx data 2) old false (fun b2 =>
  ml_bind (cd_rd16 data 2) old false (fun w1 =>
  ml_bind (cd_rd16 data 4) old false (fun w2 =>
  ml_bind (ml_rd32 data 4) old false (fun d =>
  ml_bind (cd_slc data 0 8) old false (fun c =>
  ml_bind (cd_slc data 8 n) old false (fun p =>
  (mkEr c p ((b2 / 4) mod 2 =? 1) (b0 / 16) (b2 / 32) ((b2 / 8) mod 4) (w0 mod 4096) (w1 mod 1024) (w2 / 16) (d mod 1048576),   (* :42-49 *)
   Ok tt, false))))))))).
Definition er_next (l : erspan) : Z := 0.
Definition er_hdr (l : erspan) : list Z :=
  cd_put16 ((er_version l mod 16) * 4096 + er_vlan l mod 4096) ++                                              (* :63-64 *)
  cd_put16 ((er_cos l mod 8) * 8192 + (er_encap l mod 4) * 2048 + (if er_trunc l then 1024 else 0) + er_session l mod 1024) ++   (* :65-69 *)
  ml_put32 ((er_reserved l mod 4096) * 1048576 + er_index l mod 1048576).                                      (* :70-71 *)
Definition er_serialize (l : erspan) (payload : list Z) (fixl csum : bool) (junk : list Z) : outcome (list Z) * erspan :=
  match ml_wrc (cd_region 8 junk) 0 (er_hdr l) with                       (* :59 *)
  | Ok b => (Ok (b ++ payload), l) | Err c => (Err c, l) | Panic s => (Panic s, l)
  end.
Definition er_render_panics (l : erspan) : bool := false.
