(* C08: Internet checksum helpers, pseudo-header sums, the six checksum emitters and the six
   verifiers of gopacket, transcribed from the Go source (line ranges at each definition),
   plus the RFC 1071 reference they are compared with.  Executable definitions only.

   uint32 arithmetic is Z with the wrap written out (u32 = mod 2^32); bytes are Z in [0,256).
   Emitters are functions of the serialized bytes at the moment the checksum is computed
   (layer header followed by payload, i.e. b.Bytes()); verifiers are functions of the bytes
   handed to the layer's DecodeFromBytes (they contain the part of the decoder that determines
   which bytes are covered and which errors end decoding) and of the pseudo-header addresses. *)
From GP Require Import Base.
Open Scope Z_scope.

(* ------------------------------------------------------------------ reference (RFC 1071) *)

(* sum of the big-endian 16-bit words, an odd tail byte padded with a zero byte; unbounded *)
Fixpoint wordsum (bs : list Z) : Z :=
  match bs with
  | a :: b :: t => a * 256 + b + wordsum t
  | [a] => a * 256
  | [] => 0
  end.

(* one's-complement fold of a non-negative integer into [0,65535]; 0 only for 0 *)
Definition oc (n : Z) : Z := if n =? 0 then 0 else (n - 1) mod 65535 + 1.

Definition rfc1071 (bs : list Z) : Z := 65535 - oc (wordsum bs).

(* the pseudo-headers of RFC 793/768 (IPv4) and RFC 8200 section 8.1 (IPv6) as bytes *)
Definition pseudo_bytes4 (src dst : list Z) (proto len : Z) : list Z :=
  src ++ dst ++ [0; proto] ++ be_bytes 2 len.
Definition pseudo_bytes6 (src dst : list Z) (proto len : Z) : list Z :=
  src ++ dst ++ be_bytes 4 len ++ [0; 0; 0; proto].

(* ------------------------------------------------------------------ checksum.go *)

(* checksum.go:36-50 ComputeChecksum: pairs while i < len-1, then the odd tail byte *)
Fixpoint ComputeChecksum (data : list Z) (csum : Z) : Z :=
  match data with
  | a :: b :: t => ComputeChecksum t (u32 (u32 (csum + u32 (a * 256)) + b))
  | [a] => u32 (csum + u32 (a * 256))
  | [] => csum
  end.

(* checksum.go:53-58 FoldChecksum: for csum > 0xffff { csum = (csum >> 16) + (csum & 0xffff) } *)
Fixpoint fold_loop (fuel : nat) (csum : Z) : Z :=
  match fuel with
  | O => csum
  | S f => if 65535 <? csum then fold_loop f (u32 (csum / 65536 + csum mod 65536)) else csum
  end.
Definition fold_fuel : nat := 4%nat.   (* two iterations suffice for a uint32: Props C08_fold_fuel *)
(* return ^uint16(csum) *)
Definition FoldChecksum (csum : Z) : Z := 65535 - (fold_loop fold_fuel csum) mod 65536.

(* ------------------------------------------------------------------ layers/tcpip.go *)

Inductive pseudo : Type :=
| PNone                          (* c.pseudoheader == nil *)
| P4 (src dst : list Z)          (* *IPv4 with SrcIP, DstIP *)
| P6 (src dst : list Z).         (* *IPv6 *)

(* ip4.go:295-303 checkIPv4Address / net.IP.To4: 4 bytes, or 16 bytes with the v4-mapped prefix *)
Definition to4 (a : list Z) : option (list Z) :=
  if (length a =? 4)%nat then Some a
  else if (length a =? 16)%nat then
    if forallb (Z.eqb 0) (firstn 10 a) && (nthZ a 10 =? 255) && (nthZ a 11 =? 255)
    then Some (skipn 12 a) else None
  else None.

(* tcpip.go:26-36 *)
Definition ph4_sum (src dst : list Z) : Z :=
  let csum := 0 in
  let csum := u32 (csum + u32 (u32 (nthZ src 0 + nthZ src 2) * 256)) in
  let csum := u32 (csum + u32 (nthZ src 1 + nthZ src 3)) in
  let csum := u32 (csum + u32 (u32 (nthZ dst 0 + nthZ dst 2) * 256)) in
  let csum := u32 (csum + u32 (nthZ dst 1 + nthZ dst 3)) in
  csum.

(* tcpip.go:38-50: for i := 0; i < 16; i += 2 *)
Fixpoint ph6_loop (n : nat) (i : nat) (src dst : list Z) (csum : Z) : Z :=
  match n with
  | O => csum
  | S n' =>
    let csum := u32 (csum + u32 (nthZ src i * 256)) in
    let csum := u32 (csum + nthZ src (S i)) in
    let csum := u32 (csum + u32 (nthZ dst i * 256)) in
    let csum := u32 (csum + nthZ dst (S i)) in
    ph6_loop n' (S (S i)) src dst csum
  end.
Definition ph6_sum (src dst : list Z) : Z := ph6_loop 8 0 src dst 0.

Definition pseudoheaderChecksum (p : pseudo) : outcome Z :=
  match p with
  | PNone => Err 1
  | P4 src dst =>
    match to4 src, to4 dst with
    | Some s, Some d => Ok (ph4_sum s d)
    | _, _ => Err 2
    end
  | P6 src dst =>
    if (length src =? 16)%nat && (length dst =? 16)%nat then Ok (ph6_sum src dst) else Err 2
  end.

(* tcpip.go:52-69 computeChecksum *)
Definition computeChecksum (p : pseudo) (headerAndPayload : list Z) (proto : Z) : outcome Z :=
  match p with
  | PNone => Err 1
  | _ =>
    let len32 := u32 (Z.of_nat (length headerAndPayload)) in
    obind (pseudoheaderChecksum p) (fun csum =>
      let csum := u32 (csum + proto) in
      let csum := u32 (csum + len32 mod 65536) in
      let csum := u32 (csum + len32 / 65536) in
      Ok (ComputeChecksum headerAndPayload csum))
  end.

Definition IPProtocolTCP := 6.
Definition IPProtocolUDP := 17.
Definition IPProtocolICMPv6 := 58.

(* ------------------------------------------------------------------ byte access *)

Definition get16 (bs : list Z) (off : nat) : Z := nthZ bs off * 256 + nthZ bs (S off).
(* binary.BigEndian.PutUint16(bytes[off:], v) *)
Definition put16 (bs : list Z) (off : nat) (v : Z) : list Z :=
  upd (upd bs off (v / 256 mod 256)) (S off) (v mod 256).

(* ------------------------------------------------------------------ emitters
   Each takes the serialized bytes as they are when the checksum is computed and returns the
   checksum value and the bytes with the field written.  The `Panic 0` branches (buffer shorter
   than the header the function itself has just prepended) are unreachable in the Go code. *)

(* ip4.go:159-167; bytes = the header (20 + options) *)
Definition ip4_emit (hdr : list Z) : outcome (Z * list Z) :=
  if (length hdr <? 20)%nat then Panic 0 else
  let bytes := put16 hdr 10 0 in
  let csum := ComputeChecksum bytes 0 in
  let ck := FoldChecksum csum in
  Ok (ck, put16 bytes 10 ck).

(* tcp.go:237-247 *)
Definition tcp_emit (p : pseudo) (bs : list Z) : outcome (Z * list Z) :=
  if (length bs <? 20)%nat then Panic 0 else
  let bytes := put16 bs 16 0 in
  obind (computeChecksum p bytes IPProtocolTCP) (fun csum =>
    let ck := FoldChecksum csum in
    Ok (ck, put16 bytes 16 ck)).

(* udp.go:84-103 *)
Definition udp_emit (p : pseudo) (bs : list Z) : outcome (Z * list Z) :=
  if (length bs <? 8)%nat then Panic 0 else
  let bytes := put16 bs 6 0 in
  obind (computeChecksum p bytes IPProtocolUDP) (fun csum =>
    let csumFolded := FoldChecksum csum in
    let csumFolded := if csumFolded =? 0 then 65535 else csumFolded in
    Ok (csumFolded, put16 bytes 6 csumFolded)).

(* icmp4.go:243-249 *)
Definition icmp4_emit (bs : list Z) : outcome (Z * list Z) :=
  if (length bs <? 8)%nat then Panic 0 else
  let bytes := put16 bs 2 0 in
  let csum := ComputeChecksum bytes 0 in
  let ck := FoldChecksum csum in
  Ok (ck, put16 bytes 2 ck).

(* icmp6.go:207-217 *)
Definition icmp6_emit (p : pseudo) (bs : list Z) : outcome (Z * list Z) :=
  if (length bs <? 4)%nat then Panic 0 else
  let bytes := put16 bs 2 0 in
  obind (computeChecksum p bytes IPProtocolICMPv6) (fun csum =>
    let ck := FoldChecksum csum in
    Ok (ck, put16 bytes 2 ck)).

(* gre.go:184-191 (field zeroed) and 221-228; the flags are those the serializer wrote into
   byte 0 (0x80 checksum present, 0x40 routing present) *)
Definition gre_emit (bs : list Z) : outcome (option Z * list Z) :=
  if (length bs <? 4)%nat then Panic 0 else
  let csumPresent := 128 <=? nthZ bs 0 in
  let routingPresent := 64 <=? nthZ bs 0 mod 128 in
  if csumPresent || routingPresent then
    if (length bs <? 8)%nat then Panic 0 else
    let bytes := put16 bs 4 0 in
    if csumPresent then
      let csum := ComputeChecksum bytes 0 in
      let ck := FoldChecksum csum in
      Ok (Some ck, put16 bytes 4 ck)
    else Ok (None, bytes)
  else Ok (None, bs).

(* ------------------------------------------------------------------ verifiers *)

Record vres : Type := { v_valid : bool; v_correct : Z; v_actual : Z }.

(* --- IPv4 header: ip4.go:177-258 (the part that fixes Contents, Checksum and the errors) *)

(* option walk ip4.go:217-250: only its error outcomes matter here *)
Fixpoint ip4_options_ok (fuel : nat) (h : list Z) : bool :=
  match fuel with
  | O => true
  | S f =>
    match h with
    | [] => true
    | 0 :: _ => true                               (* end of options: break *)
    | 1 :: t => ip4_options_ok f t
    | _ :: rest =>
      match rest with
      | [] => false                                (* len < 2 *)
      | l :: _ =>
        if (length h <? Z.to_nat l)%nat then false
        else if l <=? 2 then false
        else ip4_options_ok f (skipn (Z.to_nat l) h)
      end
    end
  end.

Definition ip4_decode (data : list Z) : outcome (list Z * Z) :=
  let n := Z.of_nat (length data) in
  if n <? 20 then Err 1 else
  let len0 := get16 data 2 in
  let ihl := nthZ data 0 mod 16 in
  let len := if len0 =? 0 then u16 n else len0 in
  if len <? 20 then Err 2
  else if ihl <? 5 then Err 3
  else if len <? u8 (ihl * 4) then Err 4
  else
    let cmp := n - len in
    let data' := if 0 <? cmp then firstn (Z.to_nat len) data else data in
    if (cmp <? 0) && (n <? ihl * 4) then Err 5
    else
      let hl := Z.to_nat (u8 (ihl * 4)) in
      let contents := firstn hl data' in
      if ip4_options_ok (length data') (skipn 20 contents)
      then Ok (contents, get16 data' 10)
      else Err 6.

(* ip4.go:323-332 *)
Definition ip4_VerifyChecksum (contents : list Z) (checksum : Z) : vres :=
  let existing := checksum in
  let verification := ComputeChecksum contents 0 in
  let correct := FoldChecksum (u32 (verification - existing)) in
  {| v_valid := correct =? existing; v_correct := correct; v_actual := existing |}.

Definition ip4_verify (data : list Z) : outcome vres :=
  obind (ip4_decode data) (fun '(contents, ck) => Ok (ip4_VerifyChecksum contents ck)).

(* --- TCP: tcp.go:291-335, option walk 336-548 (error outcomes of the non-MPTCP kinds;
   kind 30 (MPTCP) is outside the model: Err 99, which the runner prints as `unmodelled`) *)
Fixpoint tcp_options_res (fuel : nat) (d : list Z) : Z :=   (* 0 = ok, else error class *)
  match fuel with
  | O => 0
  | S f =>
    match d with
    | [] => 0
    | 0 :: _ => 0
    | 1 :: t => tcp_options_res f t
    | 30 :: _ => 99
    | _ :: rest =>
      match rest with
      | [] => 4
      | l :: _ =>
        if l <? 2 then 5
        else if (length d <? Z.to_nat l)%nat then 6
        else tcp_options_res f (skipn (Z.to_nat l) d)
      end
    end
  end.

Definition tcp_decode (data : list Z) : outcome (list Z * Z) :=
  if (length data <? 20)%nat then Err 1 else
  let dataOffset := nthZ data 12 / 16 in
  if dataOffset <? 5 then Err 2 else
  let dataStart := Z.to_nat (dataOffset * 4) in
  if (length data <? dataStart)%nat then Err 3 else
  let r := tcp_options_res (length data) (skipn 20 (firstn dataStart data)) in
  if r =? 0 then Ok (data, get16 data 16)      (* Contents ++ Payload = data *)
  else Err r.

(* tcp.go:626-640 *)
Definition tcp_VerifyChecksum (p : pseudo) (bytes : list Z) (checksum : Z) : outcome vres :=
  let existing := checksum in
  obind (computeChecksum p bytes IPProtocolTCP) (fun verification =>
    let correct := FoldChecksum (u32 (verification - existing)) in
    Ok {| v_valid := correct =? existing; v_correct := correct; v_actual := existing |}).

Definition tcp_verify (p : pseudo) (data : list Z) : outcome vres :=
  obind (tcp_decode data) (fun '(bytes, ck) => tcp_VerifyChecksum p bytes ck).

(* --- UDP: udp.go:30-56 *)
Definition udp_decode (data : list Z) : outcome (list Z * Z) :=
  let n := Z.of_nat (length data) in
  if n <? 8 then Err 1 else
  let len := get16 data 4 in
  let ck := get16 data 6 in
  if 8 <=? len then
    let hlen := if n <? len then n else len in
    Ok (firstn (Z.to_nat hlen) data, ck)          (* Contents data[:8] ++ Payload data[8:hlen] *)
  else if len =? 0 then Ok (data, ck)
  else Err 2.

(* udp.go:144-158, with the repair `fix: UDP VerifyChecksum ...` (computed 0 is expected as
   0xffff, as the emitter writes it) *)
Definition udp_VerifyChecksum (p : pseudo) (bytes : list Z) (checksum : Z) : outcome vres :=
  let existing := checksum in
  obind (computeChecksum p bytes IPProtocolUDP) (fun verification =>
    let correct := FoldChecksum (u32 (verification - existing)) in
    let correct := if correct =? 0 then 65535 else correct in
    Ok {| v_valid := (existing =? 0) || (correct =? existing); v_correct := correct; v_actual := existing |}).

(* the code before the repair (kept for the refutation C08_udp_unrepaired_refuted) *)
Definition udp_VerifyChecksum_orig (p : pseudo) (bytes : list Z) (checksum : Z) : outcome vres :=
  let existing := checksum in
  obind (computeChecksum p bytes IPProtocolUDP) (fun verification =>
    let correct := FoldChecksum (u32 (verification - existing)) in
    Ok {| v_valid := (existing =? 0) || (correct =? existing); v_correct := correct; v_actual := existing |}).

Definition udp_verify (p : pseudo) (data : list Z) : outcome vres :=
  obind (udp_decode data) (fun '(bytes, ck) => udp_VerifyChecksum p bytes ck).
Definition udp_verify_orig (p : pseudo) (data : list Z) : outcome vres :=
  obind (udp_decode data) (fun '(bytes, ck) => udp_VerifyChecksum_orig p bytes ck).

(* --- ICMPv4: icmp4.go:218-229, 265-276 *)
Definition icmp4_decode (data : list Z) : outcome (list Z * Z) :=
  if (length data <? 8)%nat then Err 1 else Ok (data, get16 data 2).

Definition plain_VerifyChecksum (bytes : list Z) (checksum : Z) : vres :=
  let existing := checksum in
  let verification := ComputeChecksum bytes 0 in
  let correct := FoldChecksum (u32 (verification - existing)) in
  {| v_valid := correct =? existing; v_correct := correct; v_actual := existing |}.

Definition icmp4_verify (data : list Z) : outcome vres :=
  obind (icmp4_decode data) (fun '(bytes, ck) => Ok (plain_VerifyChecksum bytes ck)).

(* --- ICMPv6: icmp6.go:190-199, 263-277 *)
Definition icmp6_decode (data : list Z) : outcome (list Z * Z) :=
  if (length data <? 4)%nat then Err 1 else Ok (data, get16 data 2).

Definition icmp6_VerifyChecksum (p : pseudo) (bytes : list Z) (checksum : Z) : outcome vres :=
  let existing := checksum in
  obind (computeChecksum p bytes IPProtocolICMPv6) (fun verification =>
    let correct := FoldChecksum (u32 (verification - existing)) in
    Ok {| v_valid := correct =? existing; v_correct := correct; v_actual := existing |}).

Definition icmp6_verify (p : pseudo) (data : list Z) : outcome vres :=
  obind (icmp6_decode data) (fun '(bytes, ck) => icmp6_VerifyChecksum p bytes ck).

(* --- GRE: gre.go:40-131 (offsets and truncation errors), 239-250 *)
(* routing entries gre.go:96-120: returns the offset after the NULL SRE, or None (truncated) *)
Fixpoint gre_sre_walk (fuel : nat) (n : Z) (data : list Z) (offset : Z) : option Z :=
  match fuel with
  | O => None
  | S f =>
    if n - offset <? 4 then None else
    let o := Z.to_nat offset in
    let af := get16 data o in
    let sreLen := nthZ data (o + 3)%nat in
    if n - (offset + 4) <? sreLen then None else
    let offset' := offset + 4 + sreLen in
    if (af =? 0) && (sreLen =? 0) then Some offset' else gre_sre_walk f n data offset'
  end.

(* result: covered bytes, g.Checksum, g.ChecksumPresent *)
Definition gre_decode (data : list Z) : outcome (list Z * Z * bool) :=
  let n := Z.of_nat (length data) in
  if n <? 4 then Err 1 else
  let b0 := nthZ data 0 in
  let b1 := nthZ data 1 in
  let csumPresent := 128 <=? b0 in
  let routingPresent := 64 <=? b0 mod 128 in
  let keyPresent := 32 <=? b0 mod 64 in
  let seqPresent := 16 <=? b0 mod 32 in
  let ackPresent := 128 <=? b1 in
  let offset := 4 in
  let cr := csumPresent || routingPresent in
  if cr && (n - offset <? 4) then Err 2 else
  let checksum := if cr then get16 data 4 else 0 in
  let offset := if cr then offset + 4 else offset in
  if keyPresent && (n - offset <? 4) then Err 2 else
  let offset := if keyPresent then offset + 4 else offset in
  if seqPresent && (n - offset <? 4) then Err 2 else
  let offset := if seqPresent then offset + 4 else offset in
  let after_routing :=
    if routingPresent then gre_sre_walk (S (length data)) n data offset else Some offset in
  match after_routing with
  | None => Err 2
  | Some offset =>
    if ackPresent && (n - offset <? 4) then Err 2 else
    Ok (data, checksum, csumPresent)            (* Contents ++ Payload = data *)
  end.

Definition gre_VerifyChecksum (bytes : list Z) (checksum : Z) (csumPresent : bool) : vres :=
  let existing := checksum in
  let verification := ComputeChecksum bytes 0 in
  let correct := FoldChecksum (u32 (verification - existing)) in
  {| v_valid := negb csumPresent || (correct =? existing); v_correct := correct; v_actual := existing |}.

Definition gre_verify (data : list Z) : outcome vres :=
  obind (gre_decode data) (fun '(bytes, ck, present) => Ok (gre_VerifyChecksum bytes ck present)).

(* ------------------------------------------------------------------ corruption *)

(* flip bit i of the byte string: byte i/8, bit i mod 8 (bit 0 = least significant) *)
Definition flip_bit (bs : list Z) (i : nat) : list Z :=
  let j := (i / 8)%nat in
  upd bs j (Z.lxor (nthZ bs j) (2 ^ Z.of_nat (i mod 8))).

(* ------------------------------------------------------------------ dispatch for the runner *)

Inductive layer : Type := LIp4 | LTcp | LUdp | LIcmp4 | LIcmp6 | LGre.

(* checksum written (None: the layer writes none) *)
Definition emit (l : layer) (p : pseudo) (bs : list Z) : outcome (option Z * list Z) :=
  match l with
  | LIp4 => obind (ip4_emit bs) (fun '(c, b) => Ok (Some c, b))
  | LTcp => obind (tcp_emit p bs) (fun '(c, b) => Ok (Some c, b))
  | LUdp => obind (udp_emit p bs) (fun '(c, b) => Ok (Some c, b))
  | LIcmp4 => obind (icmp4_emit bs) (fun '(c, b) => Ok (Some c, b))
  | LIcmp6 => obind (icmp6_emit p bs) (fun '(c, b) => Ok (Some c, b))
  | LGre => gre_emit bs
  end.

Definition verify (l : layer) (p : pseudo) (data : list Z) : outcome vres :=
  match l with
  | LIp4 => ip4_verify data
  | LTcp => tcp_verify p data
  | LUdp => udp_verify p data
  | LIcmp4 => icmp4_verify data
  | LIcmp6 => icmp6_verify p data
  | LGre => gre_verify data
  end.

Definition verify_flipped (l : layer) (p : pseudo) (data : list Z) (i : nat) : outcome vres :=
  verify l p (flip_bit data i).

(* all single-bit corruptions of a packet, in bit order *)
Definition verify_all_flips (l : layer) (p : pseudo) (data : list Z) : list (outcome vres) :=
  map (verify_flipped l p data) (seq 0 (8 * length data)).

(* repeat-built inputs for the large witnesses *)
Definition rep_bytes (b : Z) (n : Z) (tail : list Z) : list Z := repeat b (Z.to_nat n) ++ tail.
