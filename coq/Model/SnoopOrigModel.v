(* The snoop record reader as it was BEFORE the fix: commit of branch agent-pcap
   (/repo pcapgo/snoop.go:115-153 at the base snapshot), kept to state the defect in Coq.
   Not part of the correspondence run (the harness runs the repaired code); its witnesses are
   replayed on the unchanged tree by corpus/C15pcap/snoop-pad.cases. *)
From GP Require Import Base PcapModel.
Open Scope Z_scope.

Definition snoop_read_orig (st : sstate) (s : stream)
  : outcome rpkt * sstate * stream * list Z :=
  let '(rh, s1) := read_full 24 s in
  match rh with
  | Err c => (Err c, st, s1, [])
  | Panic x => (Panic x, st, s1, [])
  | Ok h =>
    let ts := mk_ts (u32f true h 16) (u32f true h 20) 1000 in
    let len := u32f true h 0 in
    let caplen := u32f true h 4 in
    let pad := u32f true h 8 - (24 + len) in                    (* :130  pad from the ORIGINAL length *)
    if len <? caplen then (Err E_FMT, st, s1, [])               (* :132 *)
    else if MAX_CAPLEN <? caplen then (Err E_FMT, st, s1, [])   (* :137 *)
    else
      let n := caplen + pad in
      if n <? 0 then (Panic 1, st, s1, [n])                     (* :149 makeslice: len out of range *)
      else
        let '(rdata, s2) := read_full n s1 in                   (* :150 *)
        if n <? caplen then (Panic 2, st, s2, [n])              (* :151 data[:caplen], caplen > cap(data) *)
        else match rdata with
             | Ok d => (Ok {| k_sec := fst ts; k_nsec := snd ts; k_caplen := caplen; k_len := len;
                              k_data := firstn (Z.to_nat caplen) d |}, st, s2, [n])
             | Err c => (Err c, st, s2, [n])
             | Panic x => (Panic x, st, s2, [n])
             end
  end.
