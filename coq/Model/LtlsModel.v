(* Ltls — executable model of layers/tls.go, tls_alert.go, tls_appdata.go, tls_cipherspec.go and
   tls_handshake.go (TLS record walk, the four record decoders, ClientHello / SNI parsing, serializer).
   Definitions only.  Line numbers: tls.go DecodeFromBytes :114-124, decodeTLSRecords :126-193,
   NextLayerType :201-203 (LayerTypeZero), Payload :206-208 (nil), SerializeTo :212-274, encodeHeader
   :276-282; tls_alert.go decodeFromBytes :71-91; tls_appdata.go :22-34; tls_cipherspec.go :34-52;
   tls_handshake.go ClientHello.decodeFromBytes :104-189, isEncryptedHandshakeMessage :198-223,
   TLSHandshakeRecord.decodeFromBytes :226-251.
   Capacity: ClientHello.decodeFromBytes re-slices its argument to its capacity (:110), i.e. it reads
   from the start of the record body to the end of the array backing the input.  The model takes the
   input slice to have cap = len (the harness allocates it so): `ext` below is data[5:]. *)
From GP Require Import Base Codec MiscLib MidLib.
Open Scope Z_scope.

Record thdr := mkTh { th_ct : Z; th_ver : Z; th_len : Z }.
Record tch := mkCh {
  ch_type : Z; ch_len : Z; ch_pver : Z; ch_random : list Z; ch_sidlen : Z; ch_sid : list Z;
  ch_cslen : Z; ch_cs : list Z; ch_cmlen : Z; ch_cm : list Z; ch_extlen : Z; ch_ext : list Z; ch_sni : list Z }.
Definition ch_zero : tch := mkCh 0 0 0 [] 0 [] 0 [] 0 [] 0 [] [].

Inductive trec : Type :=
| RCcs (h : thdr) (msg : Z)
| RHs (h : thdr) (ch : tch)
| RApp (h : thdr) (payload : list Z)
| RAlert (h : thdr) (level desc : Z) (enc : list Z).

Record tls := mkTls { tl_contents : list Z; tl_payload : list Z;
  tl_ccs : list trec; tl_hs : list trec; tl_app : list trec; tl_alert : list trec }.
Definition tls_fresh : tls := mkTls [] [] [] [] [] [].

(* tls_handshake.go:172-184 — the server_name extension.  `w` = the original uint16 arithmetic
   (`int(8+hostnameLength)`, `data[9 : 9+hostnameLength]`); after the repair both are computed in int. *)
Definition wrap16 (w : bool) (x : Z) : Z := if w then x mod 65536 else x.

Definition tls_sni (w : bool) (data sni : list Z) : outcome (list Z) :=
  if 6 <? zlen data then                                                          (* :174 *)
    obind (cd_rd16 data 4) (fun snel => obind (cd_idx data 6) (fun et =>          (* :175-176 *)
    if (0 <? snel) && (et =? 0) && (8 <? zlen data) then                          (* :177 *)
      obind (cd_rd16 data 7) (fun hl =>                                           (* :178 *)
      if wrap16 w (8 + hl) <? zlen data then cd_slc data 9 (wrap16 w (9 + hl))    (* :179-180 *)
      else Ok sni)
    else Ok sni))
  else Ok sni.

(* :163-186 the extension loop; Err 99 = out of fuel (excluded: tls_ext_fuel) *)
Fixpoint tls_exts (w : bool) (fuel : nat) (data sni : list Z) : outcome (list Z) :=
  match fuel with
  | O => Err 99
  | S f =>
    if zlen data <? 4 then Ok sni else                                            (* :163-166 *)
    obind (cd_rd16 data 0) (fun et => obind (cd_rd16 data 2) (fun len =>          (* :167-168 *)
    if zlen data <? 4 + len then Ok sni else                                      (* :169-171 *)
    obind (if et =? 0 then tls_sni w data sni else Ok sni) (fun sni' =>           (* :172-184 *)
    obind (cd_slc data ((4 + len) mod 65536) (zlen data)) (fun rest =>            (* :185 4+length in uint16 *)
    tls_exts w f rest sni'))))
  end.

(* ClientHello.decodeFromBytes :104-189 on data = record body extended to the capacity.
   Every error exit sets the truncated flag. *)
Definition tls_ch (w : bool) (data : list Z) : outcome tch :=
  let n := zlen data in
  if n <? 39 then Err 1 else                                                      (* :113-116 *)
  obind (cd_idx data 0) (fun ht =>                                                (* :117 *)
  obind (cd_slc data 1 4) (fun _ => obind (md_rd24 data 1) (fun len =>            (* :118-122 *)
  obind (cd_rd16 data 4) (fun pv =>                                               (* :123 *)
  obind (cd_slc data 6 38) (fun random =>                                         (* :124 *)
  obind (cd_idx data 38) (fun sidl =>                                             (* :125 *)
  let pos := 39 + sidl in                                                         (* :129 *)
  if n <? pos + 2 then Err 2 else                                                 (* :130-133 *)
  obind (cd_slc data 39 pos) (fun sid =>                                          (* :134 *)
  obind (cd_rd16 data pos) (fun csl =>                                            (* :135 *)
  let pos := pos + 2 in
  if n <? pos + csl + 1 then Err 3 else                                           (* :138-141 *)
  obind (cd_slc data pos (pos + csl)) (fun cs =>                                  (* :142 *)
  let pos := pos + csl in
  obind (cd_idx data pos) (fun cml =>                                             (* :144 *)
  let pos := pos + 1 in
  if n <? pos + cml + 2 then Err 4 else                                           (* :147-150 *)
  obind (cd_slc data pos (pos + cml)) (fun cm =>                                  (* :151 *)
  let pos := pos + cml in
  obind (cd_rd16 data pos) (fun el =>                                             (* :153 *)
  let pos := pos + 2 in
  if n <? pos + el then Err 5 else                                                (* :157-160 *)
  obind (cd_slc data pos (pos + el)) (fun exts =>                                 (* :161-162 *)
  obind (tls_exts w (S (length exts)) exts []) (fun sni =>                        (* :163-186 *)
  Ok (mkCh ht len pv random sidl sid csl cs cml cm el exts sni))))))))))))))).

Definition hs_type_known (t : Z) : bool :=                                        (* handShakeTypeMap :64-76 *)
  (t =? 0) || (t =? 1) || (t =? 2) || (t =? 3) || (t =? 11) || (t =? 12) || (t =? 13) || (t =? 14) ||
  (t =? 15) || (t =? 16) || (t =? 20).

(* isEncryptedHandshakeMessage :198-223 *)
Definition tls_hs_encrypted (h : thdr) (body : list Z) : outcome bool :=
  if th_len h <? 16 then Ok false else                                            (* :199-210 *)
  obind (cd_idx body 0) (fun mt =>                                                (* :211 *)
  obind (cd_slc body 1 4) (fun _ => obind (md_rd24 body 1) (fun l3 =>             (* :212-215 *)
  if negb ((th_len h - l3) mod 4294967296 =? 4) then Ok true else                 (* :216-218 uint32 *)
  Ok (negb (hs_type_known mt))))).                                                (* :219-222 *)

(* one record body: result + "SetTruncated was called" *)
Definition tls_record (w : bool) (h : thdr) (body ext : list Z) : outcome trec * bool :=
  let ct := th_ct h in
  if ct =? 20 then                                                                (* tls_cipherspec.go:34-52 *)
    if negb (zlen body =? 1) then (Err 10, true) else
    match cd_idx body 0 with
    | Ok m => (Ok (RCcs h (if m =? 1 then 1 else 255)), false)
    | Err e => (Err e, false) | Panic s => (Panic s, false)
    end
  else if ct =? 21 then                                                           (* tls_alert.go:71-91 *)
    if zlen body <? 2 then (Err 11, true) else
    if th_len h =? 2 then
      match obind (cd_idx body 0) (fun lv => obind (cd_idx body 1) (fun d => Ok (RAlert h lv d []))) with
      | Ok r => (Ok r, false) | Err e => (Err e, false) | Panic s => (Panic s, false)
      end
    else (Ok (RAlert h 255 255 body), false)
  else if ct =? 22 then                                                           (* tls_handshake.go:226-251 *)
    match tls_hs_encrypted h body with
    | Panic s => (Panic s, false) | Err e => (Err e, false)
    | Ok true => (Ok (RHs h ch_zero), false)                                      (* :232-234 *)
    | Ok false =>
      if zlen body <? 1 then (Err 12, true) else                                  (* :235-238 *)
      match cd_idx body 0 with
      | Panic s => (Panic s, false) | Err e => (Err e, false)
      | Ok ht =>
        if ht =? 1 then                                                           (* :241-242 *)
          match tls_ch w ext with
          | Ok ch => (Ok (RHs h ch), false)
          | Err e => (Err e, true)
          | Panic s => (Panic s, false)
          end
        else if ht =? 16 then (Ok (RHs h ch_zero), false)                         (* :243-244 *)
        else (Err 13, false)                                                      (* :245-246 *)
      end
    end
  else                                                                            (* tls_appdata.go:22-34 *)
    if negb (zlen body =? th_len h) then (Err 14, false) else (Ok (RApp h body), false).

Definition tls_add (st : tls) (c : list Z) (r : trec) : tls :=
  match r with
  | RCcs _ _ => mkTls c [] (tl_ccs st ++ [r]) (tl_hs st) (tl_app st) (tl_alert st)
  | RHs _ _ => mkTls c [] (tl_ccs st) (tl_hs st ++ [r]) (tl_app st) (tl_alert st)
  | RApp _ _ => mkTls c [] (tl_ccs st) (tl_hs st) (tl_app st ++ [r]) (tl_alert st)
  | RAlert _ _ _ _ => mkTls c [] (tl_ccs st) (tl_hs st) (tl_app st) (tl_alert st ++ [r])
  end.
Definition tls_setc (st : tls) (c : list Z) : tls :=
  mkTls c [] (tl_ccs st) (tl_hs st) (tl_app st) (tl_alert st).

(* decodeTLSRecords :126-193 (tail recursion over the records); tr = truncated flag so far *)
Fixpoint tls_walk (w : bool) (fuel : nat) (st : tls) (data : list Z) (tr : bool) : tls * outcome unit * bool :=
  match fuel with
  | O => (st, Err 99, tr)
  | S f =>
    let n := zlen data in
    if n <? 5 then (st, Err 1, true) else                                         (* :127-130 *)
    let st1 := tls_setc st data in                                                (* :135 *)
    ml_bind (cd_idx data 0) st1 tr (fun ct =>                                     (* :138 *)
    ml_bind (cd_rd16 data 1) st1 tr (fun ver =>                                   (* :139 *)
    ml_bind (cd_rd16 data 3) st1 tr (fun len =>                                   (* :140 *)
    if negb ((ct =? 20) || (ct =? 21) || (ct =? 22) || (ct =? 23)) then (st1, Err 2, tr) else   (* :142-144 *)
    let tl := 5 + len in                                                          (* :146-147 *)
    if n <? tl then (st1, Err 3, true) else                                       (* :148-151 *)
    ml_bind (cd_slc data 5 tl) st1 tr (fun body =>
    ml_bind (cd_slc data 5 n) st1 tr (fun ext =>
    let '(r, t2) := tls_record w (mkTh ct ver len) body ext in                    (* :153-186 *)
    let tr' := tr || t2 in
    match r with
    | Panic s => (st1, Panic s, tr')
    | Err e => (st1, Err e, tr')
    | Ok rec =>
      let st2 := tls_add st1 data rec in
      if n =? tl then (st2, Ok tt, tr') else                                      (* :188-190 *)
      ml_bind (cd_slc data tl n) st2 tr' (fun rest => tls_walk w f st2 rest tr')  (* :191 *)
    end)))))
  end.

(* DecodeFromBytes :114-124 *)
Definition tls_decode_gen (w : bool) (old : tls) (data : list Z) : tls * outcome unit * bool :=
  tls_walk w (S (length data)) (mkTls data [] [] [] [] []) data false.
Definition tls_decode_into := tls_decode_gen false.
Definition tls_decode_into_orig := tls_decode_gen true.

(* NextLayerType: LayerTypeZero *)
Definition tls_next (l : tls) : Z := 0.

(* -------- SerializeTo :212-274 *)
Definition tls_hdr_bytes (h : thdr) : list Z :=                                   (* encodeHeader :276-282 *)
  [th_ct h mod 256] ++ cd_put16 (th_ver h mod 65536) ++ cd_put16 (th_len h mod 65536).

Definition rec_hdr (r : trec) : thdr :=
  match r with RCcs h _ => h | RHs h _ => h | RApp h _ => h | RAlert h _ _ _ => h end.
Definition rec_set_len (r : trec) (n : Z) : trec :=
  let f := fun h => mkTh (th_ct h) (th_ver h) n in
  match r with RCcs h m => RCcs (f h) m | RHs h c => RHs (f h) c | RApp h p => RApp (f h) p
             | RAlert h l d e => RAlert (f h) l d e end.

(* body length each loop adds to totalLength :213-242 *)
Definition rec_blen (r : trec) : Z :=
  match r with
  | RCcs _ _ => 1 | RHs _ _ => 0 | RApp _ p => zlen p
  | RAlert _ _ _ e => if zlen e =? 0 then 2 else zlen e
  end.
(* FixLengths.  `fx` = the repaired code (the loops assign through the slice element); the original
   assigns to the loop variable, a copy: no effect (fx = false). *)
Definition rec_fix (fx fixl : bool) (r : trec) : trec :=
  if fx && fixl then
    match r with RHs _ _ => r | _ => rec_set_len r (rec_blen r mod 65536) end
  else r.

Definition rec_chunks (r : trec) : list md_chunk :=
  (false, tls_hdr_bytes (rec_hdr r)) ::
  match r with
  | RCcs _ m => [(false, [m mod 256])]                                            (* :248-252 *)
  | RHs _ _ => []                                                                 (* :253-256 TODO in the source *)
  | RApp _ p => [(true, p)]                                                       (* :257-261 *)
  | RAlert _ l d e => if zlen e =? 0 then [(false, [l mod 256]); (false, [d mod 256])] else [(true, e)]   (* :262-272 *)
  end.

Definition tls_serialize_gen (fx : bool) (l : tls) (payload : list Z) (fixl csum : bool) (junk : list Z)
    : outcome (list Z) * tls :=
  let l1 := mkTls (tl_contents l) (tl_payload l) (map (rec_fix fx fixl) (tl_ccs l)) (map (rec_fix fx fixl) (tl_hs l))
                  (map (rec_fix fx fixl) (tl_app l)) (map (rec_fix fx fixl) (tl_alert l)) in
  let recs := tl_ccs l1 ++ tl_hs l1 ++ tl_app l1 ++ tl_alert l1 in
  match md_emit (flat_map rec_chunks recs) junk with
  | Ok b => (Ok (b ++ payload), l1)
  | Err c => (Err c, l1)
  | Panic s => (Panic s, l1)
  end.
Definition tls_serialize := tls_serialize_gen true.
Definition tls_serialize_orig := tls_serialize_gen false.

(* LayerString/LayerDump/LayerGoString are reflective and total on non-nil values; TLSType, TLSVersion,
   TLSAlertLevel/Descr and TLSchangeCipherSpec String methods are switches with a default *)
Definition tls_render_panics (l : tls) : bool := false.
