(* Lcdp — executable model of the CiscoDiscovery layer of layers/cdp.go (header + the list of raw TLVs) with the length check
   of the earlier repair.  Definitions only.  /repo/layers/cdp.go: decodeCiscoDiscovery :221-243, decodeCiscoDiscoveryTLVs :250-272.
   Decoder function only (a new layer per call: C05 n/a), no SerializeTo (C06/C07 n/a).  The CiscoDiscoveryInfo layer that
   interprets the TLVs (decodeCiscoDiscoveryInfo :274-512) is NOT modelled.  On every error no layer is added. *)
From GP Require Import Base Codec MiscLib.
Open Scope Z_scope.
Record cdpv := mkCv { cv_type : Z; cv_len : Z; cv_value : list Z }.
Record cdp := mkCdp { cdp_contents : list Z; cdp_payload : list Z; cdp_ver : Z; cdp_ttl : Z; cdp_cks : Z; cdp_vals : list cdpv }.
Definition cdp_fresh : cdp := mkCdp [] [] 0 0 0 [].
(* the TLV loop from offset off; every round consumes at least 4 octets: fuel len(data)+1 is never exhausted *)
Fixpoint cdp_loop (data : list Z) (off : Z) (fuel : nat) : outcome (list cdpv) * bool :=
  match fuel with
  | O => (Ok [], false)
  | S f =>
    let n := zlen data in
    if n <=? off then (Ok [], false) else
    if n - off <? 4 then (Err 3, true) else
    match cd_rd16 data off, cd_rd16 data (off + 2) with
    | Ok ty, Ok ln =>
      if ln <? 4 then (Err 4, false) else
      if n - off <? ln then (Err 5, true) else
      match cd_slc data (off + 4) (off + ln) with
      | Ok v => match cdp_loop data (off + ln) f with
                | (Ok vs, tr) => (Ok (mkCv ty ln v :: vs), tr)
                | e => e
                end
      | Err c => (Err c, false) | Panic s => (Panic s, false)
      end
    | _, _ => (Panic 1, false)
    end
  end.
Definition cdp_decode (data : list Z) : cdp * outcome unit * bool :=
  let n := zlen data in
  if n <? 4 then (cdp_fresh, Err 1, true) else
  ml_bind (cd_idx data 0) cdp_fresh false (fun v =>
  ml_bind (cd_idx data 1) cdp_fresh false (fun ttl =>
  ml_bind (cd_rd16 data 2) cdp_fresh false (fun ck =>
  if negb ((v =? 1) || (v =? 2)) then (cdp_fresh, Err 2, false) else
  match cdp_loop data 4 (Z.to_nat (n + 1)) with
  | (Ok vs, tr) =>
    ml_bind (cd_slc data 0 4) cdp_fresh tr (fun c =>
    ml_bind (cd_slc data 4 n) cdp_fresh tr (fun p => (mkCdp c p v ttl ck vs, Ok tt, tr)))
  | (Err c, tr) => (cdp_fresh, Err c, tr)
  | (Panic s, tr) => (cdp_fresh, Panic s, tr)
  end))).
Definition cdp_render_panics (l : cdp) : bool := false.
