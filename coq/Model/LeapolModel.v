(* Leapol — executable model of the EAPOL header codec in layers/eapol.go (EAPOL only, not
   EAPOLKey).  Definitions only.  Line numbers of /repo/layers/eapol.go: DecodeFromBytes :28-38,
   SerializeTo :42-48 (Length is written as it is: FixLengths is not consulted), NextLayerType :56-58. *)
From GP Require Import Base Codec MiscLib.
Open Scope Z_scope.

Record eapol := mkEa { ea_contents : list Z; ea_payload : list Z; ea_version : Z; ea_type : Z; ea_length : Z }.
Definition ea_fresh : eapol := mkEa [] [] 0 0 0.

Definition ea_decode_into (old : eapol) (data : list Z) : eapol * outcome unit * bool :=
  let n := zlen data in
  if n <? 4 then (old, Err 1, true) else                                           (* :29-32 *)
  ml_bind (cd_idx data 0) old false (fun v =>                                      (* :33 *)
  ml_bind (cd_idx data 1) old false (fun t =>                                      (* :34 *)
  ml_bind (cd_rd16 data 2) old false (fun len =>                                   (* :35 *)
  ml_bind (cd_slc data 0 4) old false (fun contents =>                             (* :36 *)
  ml_bind (cd_slc data 4 n) old false (fun payload =>
  (mkEa contents payload v t len, Ok tt, false)))))).

(* NextLayerType: Type.LayerType(); abstract id = the type value *)
Definition ea_next (l : eapol) : Z := ea_type l.

Definition ea_serialize (l : eapol) (payload : list Z) (fixl csum : bool) (junk : list Z)
    : outcome (list Z) * eapol :=
  let bytes0 := cd_region 4 junk in                                                (* :43 *)
  let r :=
    obind (ml_wrc bytes0 0 [ea_version l mod 256]) (fun b =>                       (* :44 *)
    obind (ml_wrc b 1 [ea_type l mod 256]) (fun b =>                               (* :45 *)
    ml_wrc b 2 (cd_put16 (ea_length l)))) in                                       (* :46 *)
  match r with
  | Ok b => (Ok (b ++ payload), l)
  | Err c => (Err c, l)
  | Panic s => (Panic s, l)
  end.

Definition ea_render_panics (l : eapol) : bool := false.
