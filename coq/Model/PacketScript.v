(* PacketScript — a small language of scripted decoders, interpreted into the decoder
   families of PacketCore.  The Go harness registers synthetic decoders that interpret
   the same scripts through the public gopacket.RegisterLayerType, so the REAL packet.go
   builder and the model run the same family.  Executable definitions only.

   A script for a decoder id is a non-empty list of variants; the variant is chosen by
   data[0] mod (number of variants) (variant 0 on empty data), so the decoder is a
   genuine function of its input.  A variant describes the layers it creates from the
   data (contents = first clen bytes; payload = rest | empty | the whole data | constant
   bytes), the PacketBuilder calls it makes (by layer index, so one layer object can be
   added and also set as link layer, ...), and how it ends; a second terminator applies
   under DecodeStreamsAsDatagrams (the one option layers/ reads: tcp.go:607). *)
From GP Require Import Base PacketCore.
Open Scope Z_scope.

Inductive pmode := PRest | PEmpty | PWhole | PConst (b : list Z).

Record lspec := mkLspec { ls_type : Z; ls_clen : nat; ls_pmode : pmode }.

Definition layer_of (s : lspec) (data : list Z) : layer :=
  mkLayer (ls_type s) (firstn (ls_clen s) data)
          (match ls_pmode s with
           | PRest => skipn (ls_clen s) data
           | PEmpty => []
           | PWhole => data
           | PConst b => b
           end) false.

Inductive sact :=
| SAdd (k : nat) | SLink (k : nat) | SNet (k : nat) | STrans (k : nat) | SApp (k : nat)
| SErrL (k : nat) | STrunc.

Record variant := mkVariant {
  v_layers : list lspec;
  v_acts : list sact;
  v_term : terminator;
  v_term_dsad : option terminator
}.

Definition script := list variant.
Definition script_table := list (Z * script).

Definition act_of (ls : list layer) (a : sact) : list action :=
  let on k (f : layer -> action) := match nth_error ls k with Some l => [f l] | None => [] end in
  match a with
  | SAdd k => on k Add
  | SLink k => on k SetLink
  | SNet k => on k SetNetwork
  | STrans k => on k SetTransport
  | SApp k => on k SetApplication
  | SErrL k => on k SetError
  | STrunc => [SetTruncated]
  end.

Definition pick_variant (sc : script) (data : list Z) : option variant :=
  match sc with
  | [] => None
  | _ =>
    let n := Z.of_nat (length sc) in
    let i := match data with [] => 0 | b :: _ => b mod n end in
    nth_error sc (Z.to_nat i)
  end.

Definition script_decoder (sc : script) : decoder :=
  fun data o =>
    match pick_variant sc data with
    | None => ([], Fail)
    | Some v =>
      let ls := map (fun s => layer_of s data) (v_layers v) in
      (flat_map (act_of ls) (v_acts v),
       match v_term_dsad v with
       | Some t => if o_dsad o then t else v_term v
       | None => v_term v
       end)
    end.

Fixpoint lookup (t : Z) (tbl : script_table) : option script :=
  match tbl with
  | [] => None
  | (k, sc) :: rest => if k =? t then Some sc else lookup t rest
  end.

Definition family_of (tbl : script_table) : family :=
  fun t => match lookup t tbl with Some sc => Some (script_decoder sc) | None => None end.

(* ------------------------------------------------------------------ decidable hypothesis checks *)
(* Sufficient conditions, evaluated per case by the runner, under which a scripted family
   meets the hypotheses of the framework theorems (proved in Proofs/PacketScriptProofs.v):
   table_F6b => F6, table_no_seterrb => no_seterr, table_progressb => progress. *)
Definition term_is_next (t : terminator) : bool := match t with Next _ => true | _ => false end.
Definition variant_continues (v : variant) : bool :=
  term_is_next (v_term v) || match v_term_dsad v with Some t => term_is_next t | None => false end.
Definition sact_adds (n : nat) (a : sact) : bool := match a with SAdd k => (k <? n)%nat | _ => false end.
Definition sact_seterr (a : sact) : bool := match a with SErrL _ => true | _ => false end.

Definition variant_F6b (v : variant) : bool :=
  negb (variant_continues v) || existsb (sact_adds (length (v_layers v))) (v_acts v).
Definition table_F6b (tbl : script_table) : bool :=
  forallb (fun e => forallb variant_F6b (snd e)) tbl.
Definition table_no_seterrb (tbl : script_table) : bool :=
  forallb (fun e => forallb (fun v => negb (existsb sact_seterr (v_acts v))) (snd e)) tbl.

Fixpoint last_sadd (n : nat) (acts : list sact) (cur : option nat) : option nat :=
  match acts with
  | [] => cur
  | SAdd k :: r => last_sadd n r (if (k <? n)%nat then Some k else cur)
  | _ :: r => last_sadd n r cur
  end.

Definition lspec_shrinks (s : lspec) : bool :=
  match ls_pmode s with
  | PRest => (1 <=? ls_clen s)%nat
  | PEmpty => true
  | PConst [] => true
  | _ => false
  end.

Definition variant_progressb (v : variant) : bool :=
  negb (variant_continues v) ||
  match last_sadd (length (v_layers v)) (v_acts v) None with
  | Some k => match nth_error (v_layers v) k with Some s => lspec_shrinks s | None => false end
  | None => false
  end.
Definition table_progressb (tbl : script_table) : bool :=
  forallb (fun e => forallb variant_progressb (snd e)) tbl.

(* A whole correspondence case: NewPacket, the accessor program, then a closing Layers()
   after which the packet state is observed. *)
Record case_result := mkCaseResult {
  cr_new : nresult anypacket;              (* what NewPacket returned *)
  cr_steps : list (option aresult);        (* one per accessor call; None = out of fuel *)
  cr_final : option (option aresult * packet)  (* closing Layers() and the state after it *)
}.

Definition run_case (fuel : nat) (tbl : script_table) (data : list Z) (first : Z) (o : dopts)
  (prog : list accessor) : case_result :=
  let fam := family_of tbl in
  match new_packet fuel fam data first o with
  | NewOk pk =>
    let '(pk1, steps) := run_program fuel fam pk prog in
    match access fuel fam pk1 ALayers with
    | Some (pk2, r) => mkCaseResult (NewOk pk) steps (Some (Some r, any_packet pk2))
    | None => mkCaseResult (NewOk pk) steps (Some (None, any_packet pk1))
    end
  | r => mkCaseResult r [] None
  end.
