(* Lfddi — executable model of layers/fddi.go (FDDI header decoder) with the length check of the earlier
   repair.  Definitions only.  /repo/layers/fddi.go: LinkFlow :28-30, decodeFDDI :32-47.  FDDI has no
   DecodeFromBytes (the decoder function builds a new layer per call: C05 n/a) and no SerializeTo. *)
From GP Require Import Base Codec MiscLib.
Open Scope Z_scope.
Record fddi := mkFd { fd_contents : list Z; fd_payload : list Z; fd_fc : Z; fd_prio : Z; fd_src : list Z; fd_dst : list Z }.
Definition fd_fresh : fddi := mkFd [] [] 0 0 [] [].
Definition fd_decode (data : list Z) : fddi * outcome unit * bool :=
  let n := zlen data in
  if n <? 13 then (fd_fresh, Err 1, true) else                            (* :33-36 *)
  ml_bind (cd_idx data 0) fd_fresh false (fun b0 =>
  ml_bind (cd_slc data 1 7) fd_fresh false (fun s =>                      (* :40 *)
  ml_bind (cd_slc data 7 13) fd_fresh false (fun d =>                     (* :41 *)
  ml_bind (cd_slc data 0 13) fd_fresh false (fun c =>                     (* :42 *)
  ml_bind (cd_slc data 13 n) fd_fresh false (fun p =>
  (mkFd c p ((b0 / 8) * 8) (b0 mod 8) s d, Ok tt, false)))))).            (* :38-39 & 0xF8, & 0x07 *)
(* NextDecoder(f.FrameControl) :46: abstract id = the frame control value *)
Definition fd_next (l : fddi) : Z := fd_fc l.
(* LinkFlow: NewFlow(EndpointMAC, src, dst) copies at most 16 octets per endpoint; total *)
Definition fd_render_panics (l : fddi) : bool := false.
