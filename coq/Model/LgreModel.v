(* Lgre — executable model of gopacket's GRE layer (layers/gre.go): flags, optional
   checksum/offset/key/sequence/acknowledgment fields, source-route entries, checksum, SerializeTo.
   Transcribed from the REPAIRED tree (two fix: commits on gre.go); gre_serialize_orig keeps the
   unchanged routing+ack behaviour.  No proofs in this file. *)
From GP Require Import Base N6Lib.
Open Scope Z_scope.

Definition dresg (T : Type) : Type := (T * outcome unit * bool)%type.

(* GRERouting (gre.go:29-34): one source-route entry; the linked list is a Coq list, nil = [] *)
Record sre := mkSre { s_af : Z; s_off : Z; s_len : Z; s_info : list Z }.

(* GRE (gre.go:17-25) *)
Record gre := mkGre {
  g_csump : bool; g_routp : bool; g_keyp : bool; g_seqp : bool; g_ssr : bool; g_ackp : bool;
  g_recur : Z; g_flags : Z; g_version : Z;
  g_proto : Z;
  g_csum : Z; g_offset : Z;
  g_key : Z; g_seq : Z; g_ack : Z;
  g_routing : list sre;
  g_contents : list Z; g_payload : list Z }.

Definition gre_fresh : gre :=
  mkGre false false false false false false 0 0 0 0 0 0 0 0 0 [] [] [].

Definition bit (b k : Z) : bool := (b / 2 ^ k) mod 2 =? 1.

(* a decoding step either continues with the layer so far and the offset, or returns *)
Inductive dstep := Cont (g : gre) (offset : Z) | Stop (r : dresg gre).

Definition dbind (s : dstep) (f : gre -> Z -> dstep) : dstep :=
  match s with Cont g o => f g o | Stop r => Stop r end.

(* requireBytes (gre.go:49-54): len(data)-offset < size -> SetTruncated + error *)
Definition short (data : list Z) (offset size : Z) : bool := n6_len data - offset <? size.

Definition set_co (g : gre) (c o : Z) : gre :=
  mkGre (g_csump g) (g_routp g) (g_keyp g) (g_seqp g) (g_ssr g) (g_ackp g) (g_recur g) (g_flags g) (g_version g)
        (g_proto g) c o (g_key g) (g_seq g) (g_ack g) (g_routing g) (g_contents g) (g_payload g).
Definition set_key (g : gre) (k : Z) : gre :=
  mkGre (g_csump g) (g_routp g) (g_keyp g) (g_seqp g) (g_ssr g) (g_ackp g) (g_recur g) (g_flags g) (g_version g)
        (g_proto g) (g_csum g) (g_offset g) k (g_seq g) (g_ack g) (g_routing g) (g_contents g) (g_payload g).
Definition set_seq (g : gre) (k : Z) : gre :=
  mkGre (g_csump g) (g_routp g) (g_keyp g) (g_seqp g) (g_ssr g) (g_ackp g) (g_recur g) (g_flags g) (g_version g)
        (g_proto g) (g_csum g) (g_offset g) (g_key g) k (g_ack g) (g_routing g) (g_contents g) (g_payload g).
Definition set_ack (g : gre) (k : Z) : gre :=
  mkGre (g_csump g) (g_routp g) (g_keyp g) (g_seqp g) (g_ssr g) (g_ackp g) (g_recur g) (g_flags g) (g_version g)
        (g_proto g) (g_csum g) (g_offset g) (g_key g) (g_seq g) k (g_routing g) (g_contents g) (g_payload g).
Definition set_routing (g : gre) (r : list sre) : gre :=
  mkGre (g_csump g) (g_routp g) (g_keyp g) (g_seqp g) (g_ssr g) (g_ackp g) (g_recur g) (g_flags g) (g_version g)
        (g_proto g) (g_csum g) (g_offset g) (g_key g) (g_seq g) (g_ack g) r (g_contents g) (g_payload g).
Definition set_base (g : gre) (c p : list Z) : gre :=
  mkGre (g_csump g) (g_routp g) (g_keyp g) (g_seqp g) (g_ssr g) (g_ackp g) (g_recur g) (g_flags g) (g_version g)
        (g_proto g) (g_csum g) (g_offset g) (g_key g) (g_seq g) (g_ack g) (g_routing g) c p.

(* a 32-bit (or 2x16-bit) field at offset *)
Definition field4 (data : list Z) (offset : Z) (g : gre) (k : list Z -> dstep) : dstep :=
  if short data offset 4 then Stop (g, Err 2, true)
  else match n6_slice data offset (offset + 4) with
       | Some b => k b
       | None => Stop (g, Panic 1, false)
       end.

(* the routing loop gre.go:96-118: every round consumes at least 4 octets *)
Fixpoint sre_loop (fuel : nat) (data : list Z) (g : gre) (offset : Z) : dstep :=
  match fuel with
  | O => Stop (g, Panic N6_FUEL, false)
  | S f =>
      if short data offset 4 then Stop (g, Err 2, true)
      else
        match n6_slice data offset (offset + 2), n6_idx data (offset + 2), n6_idx data (offset + 3) with
        | Some af, Some so, Some sl =>
            if short data (offset + 4) sl then Stop (g, Err 2, true)
            else
              match n6_slice data (offset + 4) (offset + 4 + sl) with
              | None => Stop (g, Panic 2, false)
              | Some info =>
                  let offset' := offset + 4 + sl in
                  if (be_val af =? 0) && (sl =? 0) then Cont g offset'
                  else sre_loop f data (set_routing g (g_routing g ++ [mkSre (be_val af) so sl info])) offset'
              end
        | _, _, _ => Stop (g, Panic 3, false)
        end
  end.

(* gre.go:40-128 DecodeFromBytes *)
Definition gre_decode_into (old : gre) (data : list Z) : dresg gre :=
  if n6_len data <? 4 then (old, Err 1, true)
  else
    match n6_idx data 0, n6_idx data 1, n6_slice data 2 4 with
    | Some b0, Some b1, Some pr =>
        (* 56-72: everything is reset before the optional fields are read *)
        let g0 := mkGre (bit b0 7) (bit b0 6) (bit b0 5) (bit b0 4) (bit b0 3) (bit b1 7)
                        (b0 mod 8) ((b1 / 8) mod 16) (b1 mod 8) (be_val pr) 0 0 0 0 0 [] [] [] in
        let s1 := if g_csump g0 || g_routp g0
                  then field4 data 4 g0 (fun b => Cont (set_co g0 (be_val (firstn 2 b)) (be_val (skipn 2 b))) 8)
                  else Cont g0 4 in
        let s2 := dbind s1 (fun g o => if g_keyp g then field4 data o g (fun b => Cont (set_key g (be_val b)) (o + 4)) else Cont g o) in
        let s3 := dbind s2 (fun g o => if g_seqp g then field4 data o g (fun b => Cont (set_seq g (be_val b)) (o + 4)) else Cont g o) in
        let s4 := dbind s3 (fun g o => if g_routp g then sre_loop (S (length data)) data g o else Cont g o) in
        let s5 := dbind s4 (fun g o => if g_ackp g then field4 data o g (fun b => Cont (set_ack g (be_val b)) (o + 4)) else Cont g o) in
        match s5 with
        | Stop r => r
        | Cont g o =>
            match n6_slice data 0 o, n6_from data o with
            | Some c, Some p => (set_base g c p, Ok tt, false)
            | _, _ => (g, Panic 4, false)
            end
        end
    | _, _, _ => (old, Panic 5, false)
    end.

(* EthernetType.LayerType(): enums_generated.go over the table of enums.go:310-329; 0 = LayerTypeZero *)
Definition ethertype_table : list (Z * Z) :=
  [(0, 22); (418, 61); (1810, 147); (2048, 20); (2054, 10); (8192, 11); (25944, 17); (33024, 15);
   (34525, 21); (34827, 25); (34887, 24); (34888, 24); (34915, 26); (34916, 26); (34958, 56);
   (34984, 15); (35006, 145); (35020, 58); (36864, 12); (65535, 20)].

Fixpoint assocG (t : list (Z * Z)) (k : Z) : Z :=
  match t with [] => 0 | (a, b) :: r => if a =? k then b else assocG r k end.

Definition ethertype_layertype (p : Z) : Z := assocG ethertype_table p.

(* gre.go:235-237 *)
Definition gre_next (g : gre) : Z := ethertype_layertype (g_proto g).

Definition b2z (b : bool) (v : Z) : Z := if b then v else 0.

(* one routing entry as written (repaired: all SRELength octets are written) *)
Definition sre_seg (s : sre) : list Z :=
  let d := firstn (Z.to_nat (u8 (s_len s))) (s_info s) in
  be_bytes 2 (s_af s) ++ [u8 (s_off s); u8 (s_len s)] ++ d ++ repeat 0 (Z.to_nat (u8 (s_len s)) - length d).

(* the header as the segments written one after the other (gre.go:159-217); the checksum octets
   are zero at this point *)
Definition gre_segs (g : gre) : list (list Z) :=
  let b0 := Z.lor (Z.lor (Z.lor (Z.lor (Z.lor (b2z (g_csump g) 128) (b2z (g_routp g) 64)) (b2z (g_keyp g) 32))
                                 (b2z (g_seqp g) 16)) (b2z (g_ssr g) 8)) (g_recur g) in
  let b1 := Z.lor (Z.lor (b2z (g_ackp g) 128) (u8 (g_flags g * 8))) (g_version g) in
  [[b0; b1] ++ be_bytes 2 (g_proto g)]
  ++ (if g_csump g || g_routp g then [[0; 0] ++ be_bytes 2 (g_offset g)] else [])
  ++ (if g_keyp g then [be_bytes 4 (g_key g)] else [])
  ++ (if g_seqp g then [be_bytes 4 (g_seq g)] else [])
  ++ (if g_routp g then map sre_seg (g_routing g) ++ [[0; 0; 0; 0]] else [])
  ++ (if g_ackp g then [be_bytes 4 (g_ack g)] else []).

(* size computed at gre.go:133-153 *)
Definition gre_size (g : gre) : Z :=
  4 + (if g_csump g || g_routp g then 4 else 0) + (if g_keyp g then 4 else 0) + (if g_seqp g then 4 else 0)
  + (if g_routp g then fold_right (fun s a => 4 + u8 (s_len s) + a) 0 (g_routing g) + 4 else 0)
  + (if g_ackp g then 4 else 0).

Definition set_csum (g : gre) (c : Z) : gre := set_co g c (g_offset g).

(* gre.go:132-227 SerializeTo (repaired) *)
Definition gre_serialize (g : gre) (payload : list Z) (fix_ csum : bool) (junk : list Z)
  : outcome (list Z) * gre :=
  let region := fst (n6_take (Z.to_nat (gre_size g)) junk) in
  match write_segs region 0 (gre_segs g) with
  | None => (Panic 6, g)
  | Some hdr =>
      if g_csump g then
        let g' := if csum then set_csum g (n6_fold (n6_csum (hdr ++ payload) 0)) else g in
        (* binary.BigEndian.PutUint16(buf[4:6], g.Checksum) *)
        if Nat.leb 6 (length hdr) then (Ok (n6_put hdr 4 (be_bytes 2 (g_csum g')) ++ payload), g')
        else (Panic 7, g')
      else (Ok (hdr ++ payload), g)
  end.

(* the unchanged code: the NULL SRE is written at offset but offset is not advanced, so the ack
   overwrites it and the last four octets of the region keep their prior content *)
Definition gre_segs_orig (g : gre) : list (list Z) :=
  let b0 := Z.lor (Z.lor (Z.lor (Z.lor (Z.lor (b2z (g_csump g) 128) (b2z (g_routp g) 64)) (b2z (g_keyp g) 32))
                                 (b2z (g_seqp g) 16)) (b2z (g_ssr g) 8)) (g_recur g) in
  let b1 := Z.lor (Z.lor (b2z (g_ackp g) 128) (u8 (g_flags g * 8))) (g_version g) in
  [[b0; b1] ++ be_bytes 2 (g_proto g)]
  ++ (if g_csump g || g_routp g then [[0; 0] ++ be_bytes 2 (g_offset g)] else [])
  ++ (if g_keyp g then [be_bytes 4 (g_key g)] else [])
  ++ (if g_seqp g then [be_bytes 4 (g_seq g)] else [])
  ++ (if g_routp g then map sre_seg (g_routing g) ++ (if g_ackp g then [] else [[0; 0; 0; 0]]) else [])
  ++ (if g_ackp g then [be_bytes 4 (g_ack g)] else []).

Definition gre_serialize_orig (g : gre) (payload : list Z) (fix_ csum : bool) (junk : list Z)
  : outcome (list Z) * gre :=
  let region := fst (n6_take (Z.to_nat (gre_size g)) junk) in
  match write_segs region 0 (gre_segs_orig g) with
  | None => (Panic 6, g)
  | Some hdr =>
      if g_csump g then
        let g' := if csum then set_csum g (n6_fold (n6_csum (hdr ++ payload) 0)) else g in
        if Nat.leb 6 (length hdr) then (Ok (n6_put hdr 4 (be_bytes 2 (g_csum g')) ++ payload), g')
        else (Panic 7, g')
      else (Ok (hdr ++ payload), g)
  end.

(* renderers: LayerString/LayerDump are reflective and total (the embedded *GRERouting prints "nil"
   or its fields); LayerGoString (packet.go, repaired) is total, the unchanged one dereferenced the nil
   pointer that ends every routing list / is the whole field without routing: it panicked on every GRE layer *)
Definition gre_render_panics (g : gre) : bool := false.
Definition gre_gostring_panics_orig (g : gre) : bool := true.

(* ---------------------------------------------------------------- used by the theorems *)

Definition gre_roundtrip (g : gre) (payload : list Z) (junk : list Z) : outcome (list Z) * dresg gre :=
  match gre_serialize g payload true true junk with
  | (Ok bytes, _) => (Ok bytes, gre_decode_into gre_fresh bytes)
  | (Err e, g') => (Err e, (g', Err e, false))
  | (Panic s, g') => (Panic s, (g', Panic s, false))
  end.

(* in-range values: what the wire format carries *)
Definition sre_okb (s : sre) : bool :=
  (0 <=? s_af s) && (s_af s <? 65536) && byte_okb (s_off s) && bytes_okb (s_info s)
  && (s_len s =? n6_len (s_info s)) && (s_len s <? 256) && negb ((s_af s =? 0) && (s_len s =? 0)).

Definition gre_okb (g : gre) : bool :=
  (0 <=? g_recur g) && (g_recur g <? 8) && (0 <=? g_flags g) && (g_flags g <? 16)
  && (0 <=? g_version g) && (g_version g <? 8) && (0 <=? g_proto g) && (g_proto g <? 65536)
  && (0 <=? g_offset g) && (g_offset g <? 65536) && (0 <=? g_key g) && (g_key g <? 4294967296)
  && (0 <=? g_seq g) && (g_seq g <? 4294967296) && (0 <=? g_ack g) && (g_ack g <? 4294967296)
  && forallb sre_okb (g_routing g)
  && (g_routp g || match g_routing g with [] => true | _ => false end)
  && (g_csump g || g_routp g || (g_offset g =? 0))
  && (g_keyp g || (g_key g =? 0)) && (g_seqp g || (g_seq g =? 0)) && (g_ackp g || (g_ack g =? 0)).

(* the fields C06 compares: everything but contents/payload; the checksum is compared with the
   one the serializer stored (0 when no checksum is present) *)
Definition gre_fields (g : gre) :=
  (g_csump g, g_routp g, g_keyp g, g_seqp g, g_ssr g, g_ackp g, g_recur g, g_flags g, g_version g,
   g_proto g, g_offset g, g_key g, g_seq g, g_ack g, g_routing g).
