(* pcapng writer and reader (gopacket/pcapgo) as functions over byte lists.
   Executable model only — no proofs here.

   Transcribed from (repaired tree, branch agent-pcapng of /repo):
     pcapgo/ngwrite.go      :81-184 options, :187-234 SHB, :237-298 IDB, :301-353 ISB, :361-411 EPB
     pcapgo/ngwrite_dsb.go  :67-110 DSB
     pcapgo/pcapng.go       :165-179 flags, :240-250 resolution, :352-410 toNgOptions
     pcapgo/ngread.go       :64-107 NewNgReader, :113-137 readBytes/discard, :165-193 readBlock,
                            :196-234 readOption, :238-312 readSectionHeader, :315-327 skipSection,
                            :338-373 firstInterface, :376-437 readInterfaceDescriptor, :440-443 convertTime,
                            :446-489 readInterfaceStatistics, :494-580 readPacketHeader,
                            :582-625 readPacketOptions, :636-717 ReadPacketDataWithOptions / ZeroCopy...
     pcapgo/ngread_nrb.go   :64-130, pcapgo/ngread_dsb.go :19-39

   The reader is written once against an abstract stream interface (the free monad [io]: readBytes,
   bufio.Discard, bufio.ReadBytes(0), bufio.Peek(2), make([]byte,n) as an event) and interpreted over
   a flat byte list with an EOF-or-error tail ([run_f]) and over a chunked stream
   [list (Chunk bytes | Fail)] ([run_c]).  bufio.Reader / the readBytes loop are modelled by their
   specification: they deliver the concatenation of the chunks until EOF or the first error.
   Integers: uint32/uint64 arithmetic carries its wrap (u32/u64); Go int is unbounded Z.
   Masks with & and | over disjoint bit fields are written with div/mod and +.
   Error classes: 1 io.EOF, 2 io.ErrUnexpectedEOF, 3 any other error, 7 gzip stream (not modelled),
   9 out of fuel (excluded by the fuel theorem).  Panic sites are small numbers. *)
From GP Require Import Base.
Open Scope Z_scope.

Definition zlen {A} (l : list A) : Z := Z.of_nat (length l).
Definition pad4 (n : Z) : Z := (4 - n mod 4) mod 4.
Definition zeros (n : Z) : list Z := repeat 0 (Z.to_nat n).

(* ------------------------------------------------------------------ stream interface *)
Inductive rstat := RsOk | RsEOF | RsFail.

Inductive io (A : Type) : Type :=
| Ret (a : A)
| Rd (n : Z) (k : list Z -> rstat -> io A)      (* NgReader.readBytes into a buffer of n bytes *)
| Disc (n : Z) (k : rstat -> io A)              (* bufio.Reader.Discard n *)
| Until0 (k : list Z -> rstat -> io A)          (* bufio.Reader.ReadBytes(0) *)
| Peek2 (k : list Z -> rstat -> io A)           (* bufio.Reader.Peek(2) *)
| Alloc (n snap blen : Z) (k : io A).           (* make([]byte, n); ghosts: declared snap length, remaining block length *)
Arguments Ret {A} a.
Arguments Rd {A} n k.
Arguments Disc {A} n k.
Arguments Until0 {A} k.
Arguments Peek2 {A} k.
Arguments Alloc {A} n snap blen k.

Fixpoint iobind {A B} (m : io A) (f : A -> io B) : io B :=
  match m with
  | Ret a => f a
  | Rd n k => Rd n (fun bs st => iobind (k bs st) f)
  | Disc n k => Disc n (fun st => iobind (k st) f)
  | Until0 k => Until0 (fun bs st => iobind (k bs st) f)
  | Peek2 k => Peek2 (fun bs st => iobind (k bs st) f)
  | Alloc n sn bl k => Alloc n sn bl (iobind k f)
  end.

(* ---- flat streams: the bytes before the end, how the stream ends, allocation log *)
Record fstream := mkF { fdata : list Z; flen : Z; ffail : bool; fallocs : list (Z * Z * Z * Z) }.
Definition fstream_of (d : list Z) (fail : bool) : fstream := mkF d (zlen d) fail [].
Definition fend (s : fstream) : rstat := if ffail s then RsFail else RsEOF.
Definition fdrain (s : fstream) : fstream := mkF [] 0 (ffail s) (fallocs s).

Definition f_read (n : Z) (s : fstream) : list Z * fstream * rstat :=
  if n <=? 0 then ([], s, RsOk)
  else if n <=? flen s then
    (firstn (Z.to_nat n) (fdata s), mkF (skipn (Z.to_nat n) (fdata s)) (flen s - n) (ffail s) (fallocs s), RsOk)
  else (fdata s, fdrain s, fend s).

Definition f_disc (n : Z) (s : fstream) : fstream * rstat :=
  if n <=? 0 then (s, RsOk)
  else if n <=? flen s then
    (mkF (skipn (Z.to_nat n) (fdata s)) (flen s - n) (ffail s) (fallocs s), RsOk)
  else (fdrain s, fend s).

(* split after the first 0 byte *)
Fixpoint split0 (l : list Z) : option (list Z * list Z) :=
  match l with
  | [] => None
  | b :: t => if b =? 0 then Some ([b], t)
              else match split0 t with Some (a, r) => Some (b :: a, r) | None => None end
  end.

Definition f_until0 (s : fstream) : list Z * fstream * rstat :=
  match split0 (fdata s) with
  | Some (a, r) => (a, mkF r (flen s - zlen a) (ffail s) (fallocs s), RsOk)
  | None => (fdata s, fdrain s, fend s)
  end.

Definition f_peek2 (s : fstream) : list Z * rstat :=
  if 2 <=? flen s then (firstn 2 (fdata s), RsOk) else (fdata s, fend s).

Fixpoint run_f {A} (p : io A) (s : fstream) : A * fstream :=
  match p with
  | Ret a => (a, s)
  | Rd n k => let '(bs, s', st) := f_read n s in run_f (k bs st) s'
  | Disc n k => let '(s', st) := f_disc n s in run_f (k st) s'
  | Until0 k => let '(bs, s', st) := f_until0 s in run_f (k bs st) s'
  | Peek2 k => let '(bs, st) := f_peek2 s in run_f (k bs st) s
  | Alloc n sn bl k => run_f k (mkF (fdata s) (flen s) (ffail s) ((n, sn, bl, flen s) :: fallocs s))
  end.

(* ---- chunked streams: what successive Read calls of the underlying io.Reader return *)
Inductive event := Chunk (l : list Z) | Fail.

Fixpoint c_read (n : Z) (s : list event) : list Z * list event * rstat :=
  if n <=? 0 then ([], s, RsOk) else
  match s with
  | [] => ([], [], RsEOF)
  | Fail :: t => ([], Fail :: t, RsFail)     (* the error is sticky: every later Read fails again *)
  | Chunk l :: t =>
    if n <=? zlen l then (firstn (Z.to_nat n) l, Chunk (skipn (Z.to_nat n) l) :: t, RsOk)
    else let '(a, s', st) := c_read (n - zlen l) t in (l ++ a, s', st)
  end.

Definition c_disc (n : Z) (s : list event) : list event * rstat :=
  let '(_, s', st) := c_read n s in (s', st).

Fixpoint c_until0 (s : list event) : list Z * list event * rstat :=
  match s with
  | [] => ([], [], RsEOF)
  | Fail :: t => ([], Fail :: t, RsFail)
  | Chunk l :: t =>
    match split0 l with
    | Some (a, r) => (a, Chunk r :: t, RsOk)
    | None => let '(a, s', st) := c_until0 t in (l ++ a, s', st)
    end
  end.

Fixpoint c_peek (n : Z) (s : list event) : list Z * rstat :=
  if n <=? 0 then ([], RsOk) else
  match s with
  | [] => ([], RsEOF)
  | Fail :: _ => ([], RsFail)
  | Chunk l :: t =>
    if n <=? zlen l then (firstn (Z.to_nat n) l, RsOk)
    else let '(a, st) := c_peek (n - zlen l) t in (l ++ a, st)
  end.

Fixpoint run_c {A} (p : io A) (s : list event) : A * list event :=
  match p with
  | Ret a => (a, s)
  | Rd n k => let '(bs, s', st) := c_read n s in run_c (k bs st) s'
  | Disc n k => let '(s', st) := c_disc n s in run_c (k st) s'
  | Until0 k => let '(bs, s', st) := c_until0 s in run_c (k bs st) s'
  | Peek2 k => let '(bs, st) := c_peek 2 s in run_c (k bs st) s
  | Alloc n sn bl k => run_c k s
  end.

(* the flat view of a chunked stream: bytes before the first Fail, and whether there is one *)
Fixpoint flat_data (s : list event) : list Z :=
  match s with [] => [] | Fail :: _ => [] | Chunk l :: t => l ++ flat_data t end.
Fixpoint flat_fail (s : list event) : bool :=
  match s with [] => false | Fail :: _ => true | Chunk _ :: t => flat_fail t end.

(* ------------------------------------------------------------------ data types *)
Definition zero_time : Z * Z := (-62135596800, 0).       (* time.Time{} as (Unix(), Nanosecond()) *)
Definition NoValue64 : Z := 18446744073709551615.
Definition E9 : Z := 1000000000.

Record stats := mkStats { st_last : Z * Z; st_start : Z * Z; st_end : Z * Z;
                          st_comment : list Z; st_recv : Z; st_drop : Z }.
Definition empty_stats := mkStats zero_time zero_time zero_time [] NoValue64 NoValue64.

Record iface := mkIface {
  if_name : list Z; if_comment : list Z; if_descr : list Z; if_filter : list Z; if_os : list Z;
  if_link : Z; if_tsresol : Z; if_tsoff : Z; if_snap : Z; if_stats : stats;
  if_mask : Z; if_up : Z; if_down : Z }.
Definition empty_iface := mkIface [] [] [] [] [] 0 0 0 0 (mkStats zero_time zero_time zero_time [] 0 0) 0 0 0.

Record secinfo := mkSec { sc_hw : list Z; sc_os : list Z; sc_app : list Z; sc_comment : list Z }.
Definition empty_sec := mkSec [] [] [] [].

(* NgEpbFlags: Direction, Reception, FCSLen, LinkLayerErr *)
Definition flags4 := (Z * Z * Z * Z)%type.
Definition flags_to_u32 (f : flags4) : Z :=
  let '(d, r, fc, ll) := f in
  d mod 4 + (r / 4 mod 8) * 4 + (fc / 32 mod 32) * 32 + (ll / 65536 mod 65536) * 65536.
Definition flags_from_u32 (v : Z) : flags4 :=
  (v mod 4, (v / 4 mod 8) * 4, (v / 32 mod 32) * 32, (v / 65536 mod 65536) * 65536).

Record popts := mkPopts {
  po_comments : list (list Z); po_flags : option flags4; po_hashes : list (Z * list Z);
  po_drop : option Z; po_pid : option Z; po_queue : option Z; po_verdicts : list (Z * list Z) }.
Definition empty_popts := mkPopts [] None [] None None None [].

Record cinfo := mkCi { ci_if : Z; ci_ts : Z * Z; ci_cap : Z; ci_len : Z }.
Record namerec := mkName { nr_alen : Z; nr_names : list (list Z) }.
Record pkt := mkPkt { p_ci : cinfo; p_anc : Z; p_data : list Z; p_opts : popts }.

(* ------------------------------------------------------------------ writer *)
Definition BT_SHB : Z := 168627466.   (* 0x0A0D0D0A *)
Definition BOM : Z := 439041101.      (* 0x1A2B3C4D *)

Definition opt_enc (o : Z * list Z) : list Z :=
  let '(code, v) := o in
  le_bytes 2 code ++ le_bytes 2 (zlen v mod 65536) ++ v ++ zeros (pad4 (zlen v)).
Definition opt_size (o : Z * list Z) : Z := zlen (snd o) + pad4 (zlen (snd o)) + 4.
(* prepareNgOptions: total octets *)
Definition opts_size (l : list (Z * list Z)) : Z :=
  let r := fold_left (fun acc o => u32 (acc + opt_size o)) l 0 in
  if 0 <? r then u32 (r + 4) else r.
(* writeOptions *)
Definition opts_enc (l : list (Z * list Z)) : list Z :=
  match l with [] => [] | _ => concat (map opt_enc l) ++ [0; 0; 0; 0] end.

Definition opt_if_nonempty (code : Z) (v : list Z) : list (Z * list Z) :=
  match v with [] => [] | _ => [(code, v)] end.

Definition enc_shb (sec : secinfo) : list Z :=
  let options := opt_if_nonempty 4 (sc_app sec) ++ opt_if_nonempty 1 (sc_comment sec)
                 ++ opt_if_nonempty 2 (sc_hw sec) ++ opt_if_nonempty 3 (sc_os sec) in
  let length := u32 (opts_size options + 24 + 4) in
  le_bytes 4 BT_SHB ++ le_bytes 4 length ++ le_bytes 4 BOM ++ le_bytes 2 1 ++ le_bytes 2 0
  ++ le_bytes 8 18446744073709551615 ++ opts_enc options ++ le_bytes 4 length.

Record wiface := mkWif { wi_name : list Z; wi_comment : list Z; wi_descr : list Z; wi_filter : list Z;
                         wi_os : list Z; wi_link : Z; wi_tsresol : Z; wi_tsoff : Z; wi_snap : Z }.

Definition enc_idb (i : wiface) : list Z :=
  let options := opt_if_nonempty 2 (wi_name i) ++ opt_if_nonempty 1 (wi_comment i)
                 ++ opt_if_nonempty 3 (wi_descr i)
                 ++ (match wi_filter i with [] => [] | f => [(11, 0 :: f)] end)
                 ++ opt_if_nonempty 12 (wi_os i)
                 ++ (if wi_tsoff i =? 0 then [] else [(14, le_bytes 8 (wi_tsoff i))])
                 ++ [(9, [9])] in
  let length := u32 (opts_size options + 16 + 4) in
  le_bytes 4 1 ++ le_bytes 4 length ++ le_bytes 2 (u16 (wi_link i)) ++ le_bytes 2 0
  ++ le_bytes 4 (wi_snap i) ++ opts_enc options ++ le_bytes 4 length.

(* a time.Time value written as an option: uint32(ts>>32), uint32(ts), each little-endian *)
Definition enc_ts (ts : Z) : list Z := le_bytes 4 (u32 (ts / 4294967296)) ++ le_bytes 4 (u32 ts).

(* statistics handed to the writer: times as UnixNano, None = zero time.Time *)
Record wstats := mkWstats { ws_last : option Z; ws_start : option Z; ws_end : option Z;
                            ws_drop : Z; ws_recv : Z }.

Definition enc_isb (ifid : Z) (st : wstats) : list Z :=
  let options := (match ws_start st with Some t => [(2, enc_ts t)] | None => [] end)
                 ++ (match ws_end st with Some t => [(3, enc_ts t)] | None => [] end)
                 ++ (if ws_drop st =? NoValue64 then [] else [(5, le_bytes 8 (ws_drop st))])
                 ++ (if ws_recv st =? NoValue64 then [] else [(4, le_bytes 8 (ws_recv st))]) in
  let length := u32 (opts_size options + 24) in
  let ts := match ws_last st with Some t => t | None => 0 end in
  le_bytes 4 5 ++ le_bytes 4 length ++ le_bytes 4 (u32 ifid) ++ enc_ts ts
  ++ opts_enc options ++ le_bytes 4 length.

(* NgPacketOptions.toNgOptions *)
Definition popts_to_options (o : popts) : list (Z * list Z) :=
  map (fun c => (1, c)) (po_comments o)
  ++ (match po_flags o with Some f => [(2, le_bytes 4 (flags_to_u32 f))] | None => [] end)
  ++ map (fun h => (3, fst h :: snd h)) (po_hashes o)
  ++ (match po_drop o with Some v => [(4, le_bytes 8 v)] | None => [] end)
  ++ (match po_pid o with Some v => [(5, le_bytes 8 v)] | None => [] end)
  ++ (match po_queue o with Some v => [(6, le_bytes 4 v)] | None => [] end)
  ++ map (fun h => (7, fst h :: snd h)) (po_verdicts o).

Definition enc_epb (ifid ts caplen len : Z) (data : list Z) (o : popts) : list Z :=
  let options := popts_to_options o in
  let length0 := u32 (opts_size options + 28 + u32 (zlen data) + 4) in
  let padding := (4 - length0 mod 4) mod 4 in
  let length := u32 (length0 + padding) in
  le_bytes 4 6 ++ le_bytes 4 length ++ le_bytes 4 (u32 ifid) ++ enc_ts ts
  ++ le_bytes 4 (u32 caplen) ++ le_bytes 4 (u32 len) ++ data ++ zeros padding
  ++ opts_enc options ++ le_bytes 4 length.

Definition dsb_type_ok (t : Z) : bool :=
  (t =? 1414288203) || (t =? 1397966923) || (t =? 1464290124) || (t =? 1515083595) || (t =? 1514229843).

Definition enc_dsb (typ : Z) (payload : list Z) : list Z :=
  let padding := pad4 (zlen payload) in
  let length := u32 (8 + 4 + 8 + zlen payload + padding) in
  le_bytes 4 10 ++ le_bytes 4 length ++ le_bytes 4 typ ++ le_bytes 4 (u32 (zlen payload))
  ++ payload ++ zeros padding ++ le_bytes 4 length.

Inductive wop :=
| WAddIf (i : wiface)
| WPacket (ifid ts caplen len : Z) (data : list Z) (o : popts)
| WStats (ifid : Z) (st : wstats)
| WDSB (typ : Z) (payload : list Z).

(* one writer call: bytes appended, success, new interface count *)
Definition wstep (nif : Z) (op : wop) : list Z * bool * Z :=
  match op with
  | WAddIf i => (enc_idb i, true, u32 (nif + 1))
  | WPacket ifid ts caplen len data o =>
    if (nif <=? ifid) || (ifid <? 0) then ([], false, nif)
    else if negb (caplen =? zlen data) then ([], false, nif)
    else if len <? caplen then ([], false, nif)
    else (enc_epb ifid ts caplen len data o, true, nif)
  | WStats ifid st =>
    if (nif <=? ifid) || (ifid <? 0) then ([], false, nif) else (enc_isb ifid st, true, nif)
  | WDSB typ payload =>
    if dsb_type_ok typ then (enc_dsb typ payload, true, nif) else ([], false, nif)
  end.

Fixpoint wrun (nif : Z) (ops : list wop) : list (list Z * bool) :=
  match ops with
  | [] => []
  | op :: t => let '(b, ok, nif') := wstep nif op in (b, ok) :: wrun nif' t
  end.

(* NewNgWriterInterface followed by the calls: the blocks written and per-call success *)
Definition write_blocks (sec : secinfo) (i0 : wiface) (ops : list wop) : list (list Z * bool) :=
  (enc_shb sec ++ enc_idb i0, true) :: wrun 1 ops.
Definition write_file (sec : secinfo) (i0 : wiface) (ops : list wop) : list Z :=
  concat (map fst (write_blocks sec i0 ops)).

(* ------------------------------------------------------------------ reader state *)
Record rst := mkRst {
  r_big : bool; r_blen : Z; r_btyp : Z;
  r_ocode : Z; r_oval : list Z; r_ocap : Z;
  r_ifaces : list iface; r_link : Z; r_first : bool; r_active : bool; r_sect : secinfo;
  r_ci : cinfo; r_ancil : Z; r_pcap : Z; r_names : list namerec; r_nsec : Z }.

Record ropts := mkRo { ro_mixed : bool; ro_errmis : bool; ro_skipver : bool; ro_zc : bool }.

Definition init_rst : rst :=
  mkRst false 0 0 0 [] 1024 [] 0 false false empty_sec (mkCi 0 zero_time 0 0) (-1) 0 [] 0.

Definition set_block (s : rst) (big : bool) (typ len : Z) : rst :=
  mkRst big len typ (r_ocode s) (r_oval s) (r_ocap s) (r_ifaces s) (r_link s) (r_first s) (r_active s)
        (r_sect s) (r_ci s) (r_ancil s) (r_pcap s) (r_names s) (r_nsec s).
Definition set_blen (s : rst) (len : Z) : rst := set_block s (r_big s) (r_btyp s) len.
Definition set_opt (s : rst) (code : Z) (v : list Z) (cap : Z) : rst :=
  mkRst (r_big s) (r_blen s) (r_btyp s) code v cap (r_ifaces s) (r_link s) (r_first s) (r_active s)
        (r_sect s) (r_ci s) (r_ancil s) (r_pcap s) (r_names s) (r_nsec s).
Definition set_ifaces (s : rst) (l : list iface) : rst :=
  mkRst (r_big s) (r_blen s) (r_btyp s) (r_ocode s) (r_oval s) (r_ocap s) l (r_link s) (r_first s)
        (r_active s) (r_sect s) (r_ci s) (r_ancil s) (r_pcap s) (r_names s) (r_nsec s).
Definition set_link (s : rst) (l : Z) : rst :=
  mkRst (r_big s) (r_blen s) (r_btyp s) (r_ocode s) (r_oval s) (r_ocap s) (r_ifaces s) l true
        (r_active s) (r_sect s) (r_ci s) (r_ancil s) (r_pcap s) (r_names s) (r_nsec s).
Definition set_section (s : rst) (active : bool) (sec : secinfo) : rst :=
  mkRst (r_big s) (r_blen s) (r_btyp s) (r_ocode s) (r_oval s) (r_ocap s) (r_ifaces s) (r_link s)
        (r_first s) active sec (r_ci s) (r_ancil s) (r_pcap s) (r_names s) (r_nsec s).
Definition set_ci (s : rst) (c : cinfo) : rst :=
  mkRst (r_big s) (r_blen s) (r_btyp s) (r_ocode s) (r_oval s) (r_ocap s) (r_ifaces s) (r_link s)
        (r_first s) (r_active s) (r_sect s) c (r_ancil s) (r_pcap s) (r_names s) (r_nsec s).
Definition set_ancil (s : rst) (a : Z) : rst :=
  mkRst (r_big s) (r_blen s) (r_btyp s) (r_ocode s) (r_oval s) (r_ocap s) (r_ifaces s) (r_link s)
        (r_first s) (r_active s) (r_sect s) (r_ci s) a (r_pcap s) (r_names s) (r_nsec s).
Definition set_pcap (s : rst) (c : Z) : rst :=
  mkRst (r_big s) (r_blen s) (r_btyp s) (r_ocode s) (r_oval s) (r_ocap s) (r_ifaces s) (r_link s)
        (r_first s) (r_active s) (r_sect s) (r_ci s) (r_ancil s) c (r_names s) (r_nsec s).
Definition set_names (s : rst) (n : list namerec) (nsec : Z) : rst :=
  mkRst (r_big s) (r_blen s) (r_btyp s) (r_ocode s) (r_oval s) (r_ocap s) (r_ifaces s) (r_link s)
        (r_first s) (r_active s) (r_sect s) (r_ci s) (r_ancil s) (r_pcap s) n nsec.

(* ------------------------------------------------------------------ reader monad *)
Definition SM (A : Type) : Type := rst -> io (rst * outcome A).
Definition sret {A} (a : A) : SM A := fun s => Ret (s, Ok a).
Definition sfail {A} (c : Z) : SM A := fun s => Ret (s, Err c).
Definition spanic {A} (p : Z) : SM A := fun s => Ret (s, Panic p).
Definition sbind {A B} (m : SM A) (f : A -> SM B) : SM B :=
  fun s => iobind (m s) (fun r =>
    match snd r with
    | Ok a => f a (fst r)
    | Err c => Ret (fst r, Err c)
    | Panic p => Ret (fst r, Panic p)
    end).
Notation "x <- m ;; f" := (sbind m (fun x => f)) (at level 61, m at next level, right associativity).
Notation "m ;;; f" := (sbind m (fun _ => f)) (at level 61, right associativity).

Definition sget : SM rst := fun s => Ret (s, Ok s).
Definition smod (f : rst -> rst) : SM unit := fun s => Ret (f s, Ok tt).

Definition err_of (st : rstat) : Z := match st with RsFail => 3 | _ => 2 end.

(* readBytes: io.EOF becomes io.ErrUnexpectedEOF, other errors pass *)
Definition s_rd (n : Z) : SM (list Z) :=
  fun s => Rd n (fun bs st => match st with RsOk => Ret (s, Ok bs) | _ => Ret (s, Err (err_of st)) end).
(* discard: on success currentBlock.length -= uint32(length) *)
Definition s_disc (n : Z) : SM unit :=
  fun s => Disc n (fun st => match st with
                             | RsOk => Ret (set_blen s (u32 (r_blen s - n)), Ok tt)
                             | _ => Ret (s, Err (err_of st)) end).
Definition s_alloc (n snap : Z) : SM unit := fun s => Alloc n snap (r_blen s) (Ret (s, Ok tt)).
(* fmt.Errorf("...: %w", err) (repaired tree): errors.Is still sees io.ErrUnexpectedEOF, so the
   class of a wrapped error is the class of the error *)
Definition s_wrap {A} (m : SM A) : SM A := m.
Definition sub_blen (n : Z) : SM unit := smod (fun s => set_blen s (u32 (r_blen s - n))).

Definition getu (big : bool) (l : list Z) : Z := if big then be_val l else le_val l.
Definition sl (l : list Z) (a b : nat) : list Z := firstn (b - a)%nat (skipn a l).

(* ---- readBlock, ngread.go:165-193 *)
Definition readBlock : SM unit :=
  fun s => Rd 8 (fun bs st =>
    match st with
    | RsOk =>
      let typ := getu (r_big s) (sl bs 0 4) in
      if typ =? BT_SHB then
        Rd 4 (fun m st2 =>
          match st2 with
          | RsOk =>
            if be_val m =? BOM then Ret (set_block s true typ (u32 (be_val (sl bs 4 8) - 8 - 4)), Ok tt)
            else if le_val m =? BOM then Ret (set_block s false typ (u32 (le_val (sl bs 4 8) - 8 - 4)), Ok tt)
            else Ret (set_block s (r_big s) typ (r_blen s), Err 3)
          | _ => Ret (set_block s (r_big s) typ (r_blen s), Err (err_of st2))
          end)
      else Ret (set_block s (r_big s) typ (u32 (getu (r_big s) (sl bs 4 8) - 8)), Ok tt)
    | RsEOF => Ret (s, Err (match bs with [] => 1 | _ => 2 end))
    | RsFail => Ret (s, Err 3)
    end).

(* ---- readOption, ngread.go:196-234 (repaired: a zero-length option has an empty value) *)
Definition readOption : SM unit :=
  s <- sget ;;
  if r_blen s =? 4 then smod (fun s => set_opt s 0 (r_oval s) (r_ocap s))
  else
    b <- s_rd 4 ;;
    sub_blen 4 ;;;
    s <- sget ;;
    let code := getu (r_big s) (sl b 0 2) in
    let length := getu (r_big s) (sl b 2 4) in
    smod (fun s => set_opt s code (r_oval s) (r_ocap s)) ;;;
    if code =? 0 then (if length =? 0 then sret tt else sfail 3)
    else if length =? 0 then smod (fun s => set_opt s code [] (r_ocap s))
    else
      (if length <? r_ocap s then sret tt
       else s_alloc length 0 ;;; smod (fun s => set_opt s code (r_oval s) length)) ;;;
      v <- s_rd length ;;
      smod (fun s => set_opt s code v (r_ocap s)) ;;;
      (if 0 <? length mod 4 then s_disc (4 - length mod 4) else sret tt) ;;;
      sub_blen length.

(* ---- section header options, ngread.go:278-295 *)
Fixpoint shb_opts (fuel : nat) (sec : secinfo) : SM secinfo :=
  match fuel with
  | O => sfail 9
  | S f =>
    readOption ;;;
    s <- sget ;;
    let c := r_ocode s in let v := r_oval s in
    if c =? 0 then sret sec
    else if c =? 1 then shb_opts f (mkSec (sc_hw sec) (sc_os sec) (sc_app sec) v)
    else if c =? 2 then shb_opts f (mkSec v (sc_os sec) (sc_app sec) (sc_comment sec))
    else if c =? 3 then shb_opts f (mkSec (sc_hw sec) v (sc_app sec) (sc_comment sec))
    else if c =? 4 then shb_opts f (mkSec (sc_hw sec) (sc_os sec) v (sc_comment sec))
    else shb_opts f sec
  end.

(* ---- readInterfaceDescriptor, ngread.go:376-437 (repaired: option length guards, resolution bound) *)
Definition set_if_str (i : iface) (which : Z) (v : list Z) : iface :=
  mkIface (if which =? 2 then v else if_name i) (if which =? 1 then v else if_comment i)
          (if which =? 3 then v else if_descr i) (if which =? 11 then v else if_filter i)
          (if which =? 12 then v else if_os i)
          (if_link i) (if_tsresol i) (if_tsoff i) (if_snap i) (if_stats i) (if_mask i) (if_up i) (if_down i).
Definition set_if_num (i : iface) (tsresol tsoff : Z) : iface :=
  mkIface (if_name i) (if_comment i) (if_descr i) (if_filter i) (if_os i) (if_link i) tsresol tsoff
          (if_snap i) (if_stats i) (if_mask i) (if_up i) (if_down i).
Definition set_if_scale (i : iface) (tsresol mask up down : Z) : iface :=
  mkIface (if_name i) (if_comment i) (if_descr i) (if_filter i) (if_os i) (if_link i) tsresol (if_tsoff i)
          (if_snap i) (if_stats i) mask up down.
Definition set_if_stats (i : iface) (st : stats) : iface :=
  mkIface (if_name i) (if_comment i) (if_descr i) (if_filter i) (if_os i) (if_link i) (if_tsresol i)
          (if_tsoff i) (if_snap i) st (if_mask i) (if_up i) (if_down i).

Fixpoint idb_opts (fuel : nat) (i : iface) : SM iface :=
  match fuel with
  | O => sfail 9
  | S f =>
    readOption ;;;
    s <- sget ;;
    let c := r_ocode s in let v := r_oval s in
    if c =? 0 then sret i
    else if (c =? 2) || (c =? 1) || (c =? 3) || (c =? 12) then idb_opts f (set_if_str i c v)
    else if c =? 11 then
      match v with [] => sfail 3 | _ :: t => idb_opts f (set_if_str i 11 t) end
    else if c =? 14 then
      if zlen v <? 8 then sfail 3 else idb_opts f (set_if_num i (if_tsresol i) (getu (r_big s) (sl v 0 8)))
    else if c =? 9 then
      match v with [] => sfail 3 | b :: _ => idb_opts f (set_if_num i b (if_tsoff i)) end
    else idb_opts f i
  end.

Definition readIDB (F : nat) : SM unit :=
  b <- s_rd 8 ;;
  sub_blen 8 ;;;
  s <- sget ;;
  let i0 := mkIface [] [] [] [] [] (getu (r_big s) (sl b 0 2)) 0 0 (getu (r_big s) (sl b 4 8))
                    (mkStats zero_time zero_time zero_time [] 0 0) 0 0 0 in
  i <- idb_opts F i0 ;;
  s <- sget ;;
  s_disc (r_blen s) ;;;
  let res := if if_tsresol i =? 0 then 6 else if_tsresol i in
  let e := res mod 128 in
  if (if 128 <=? res then 63 <? e else 19 <? e) then sfail 3
  else
    let mask := if 128 <=? res then 2 ^ e else 10 ^ e in
    let up := if mask <? E9 then (if mask =? 0 then 0 else E9 / mask) else 1 in
    let down := if mask <? E9 then 1 else mask / E9 in
    if mask =? 0 then spanic 2
    else smod (fun s => set_ifaces s (r_ifaces s ++ [set_if_scale i res mask up down])).

(* ---- convertTime + time.Unix(sec, nsec) normalisation, ngread.go:440-443 *)
Definition convert_time (i : iface) (ts : Z) : outcome (Z * Z) :=
  if if_mask i =? 0 then Panic 3
  else if if_down i =? 0 then Panic 4
  else
    let sec := sint 64 (u64 (ts / if_mask i + if_tsoff i)) in
    let nsec := sint 64 (u64 (u64 ((ts mod if_mask i) * if_up i) / if_down i)) in
    Ok (sint 64 (sec + nsec / E9), nsec mod E9).

Definition slift {A} (o : outcome A) : SM A :=
  match o with Ok a => sret a | Err c => sfail c | Panic p => spanic p end.

Definition ts_of (big : bool) (l : list Z) : Z := getu big (sl l 0 4) * 4294967296 + getu big (sl l 4 8).

(* ---- readInterfaceStatistics, ngread.go:446-489 (repaired: option length guards) *)
Definition put_stats (id : Z) (st : stats) : SM unit :=
  smod (fun s => match nth_error (r_ifaces s) (Z.to_nat id) with
                 | Some i => set_ifaces s (upd (r_ifaces s) (Z.to_nat id) (set_if_stats i st))
                 | None => s end).

Fixpoint isb_opts (fuel : nat) (id : Z) (i : iface) (st : stats) : SM unit :=
  match fuel with
  | O => sfail 9
  | S f =>
    readOption ;;;
    s <- sget ;;
    let c := r_ocode s in let v := r_oval s in
    if c =? 0 then sret tt
    else if c =? 1 then
      let st' := mkStats (st_last st) (st_start st) (st_end st) v (st_recv st) (st_drop st) in
      put_stats id st' ;;; isb_opts f id i st'
    else if (c =? 2) || (c =? 3) || (c =? 4) || (c =? 5) then
      if zlen v <? 8 then sfail 3
      else if c =? 2 then
        t <- slift (convert_time i (ts_of (r_big s) v)) ;;
        let st' := mkStats (st_last st) t (st_end st) (st_comment st) (st_recv st) (st_drop st) in
        put_stats id st' ;;; isb_opts f id i st'
      else if c =? 3 then
        t <- slift (convert_time i (ts_of (r_big s) v)) ;;
        let st' := mkStats (st_last st) (st_start st) t (st_comment st) (st_recv st) (st_drop st) in
        put_stats id st' ;;; isb_opts f id i st'
      else if c =? 4 then
        let st' := mkStats (st_last st) (st_start st) (st_end st) (st_comment st) (getu (r_big s) (sl v 0 8)) (st_drop st) in
        put_stats id st' ;;; isb_opts f id i st'
      else
        let st' := mkStats (st_last st) (st_start st) (st_end st) (st_comment st) (st_recv st) (getu (r_big s) (sl v 0 8)) in
        put_stats id st' ;;; isb_opts f id i st'
    else isb_opts f id i st
  end.

Definition readISB (F : nat) : SM unit :=
  b <- s_rd 12 ;;
  sub_blen 12 ;;;
  s <- sget ;;
  let id := getu (r_big s) (sl b 0 4) in
  let ts := getu (r_big s) (sl b 4 8) * 4294967296 + getu (r_big s) (sl b 8 12) in
  if zlen (r_ifaces s) <=? id then sfail 3
  else match nth_error (r_ifaces s) (Z.to_nat id) with
       | None => spanic 5
       | Some i =>
         t <- slift (convert_time i ts) ;;
         let st := mkStats t zero_time zero_time [] NoValue64 NoValue64 in
         put_stats id st ;;;
         isb_opts F id i st ;;;
         s <- sget ;;
         s_disc (r_blen s)
       end.

(* ---- readDecryptionSecretsBlock, ngread_dsb.go:19-39 (repaired: length bounded by the block) *)
Definition readDSB : SM unit :=
  b <- s_wrap (s_rd 8) ;;
  sub_blen 8 ;;;
  s <- sget ;;
  let len := getu (r_big s) (sl b 4 8) in
  if r_blen s <? len then sfail 3
  else
    s_alloc len 0 ;;;
    _ <- s_wrap (s_rd len) ;;
    sub_blen len ;;;
    smod (fun s => set_names s (r_names s) (r_nsec s + 1)).

(* ---- readNameResolutionBlock, ngread_nrb.go:64-130 *)
Fixpoint nrb_names (fuel : nat) (length : Z) (acc : list (list Z)) : SM (list (list Z)) :=
  if length <=? 0 then sret acc else
  match fuel with
  | O => sfail 9
  | S f =>
    r <- (fun s => Until0 (fun bs st => match st with RsOk => Ret (s, Ok bs) | _ => Ret (s, Err (err_of st)) end)) ;;
    nrb_names f (length - zlen r) (acc ++ [removelast r])
  end.

Fixpoint nrb_loop (F : nat) (fuel : nat) : SM unit :=
  match fuel with
  | O => sfail 9
  | S f =>
    s <- sget ;;
    if r_blen s <=? 0 then sret tt else
    b <- s_wrap (s_rd 4) ;;
    sub_blen 4 ;;;
    s <- sget ;;
    let typ := getu (r_big s) (sl b 0 2) in
    let rlen := getu (r_big s) (sl b 2 4) in
    let length := Z.min rlen (r_blen s) in
    let padding := pad4 length in
    if typ =? 0 then sret tt
    else if (1 <=? typ) && (typ <=? 4) then
      let rdn := if typ =? 1 then 4 else if typ =? 2 then 16 else if typ =? 3 then 6 else 8 in
      let alen := if typ =? 1 then 4 else if typ =? 2 then 16 else 24 in
      _ <- s_wrap (s_rd rdn) ;;
      sub_blen length ;;;
      names <- nrb_names F (length - alen) [] ;;
      smod (fun s => set_names s (r_names s ++ [mkName alen names]) (r_nsec s)) ;;;
      s_disc padding ;;;
      nrb_loop F f
    else
      s_wrap (s_disc (length + padding)) ;;;
      nrb_loop F f
  end.

Definition readNRB (F : nat) : SM unit :=
  nrb_loop F F ;;;
  s <- sget ;;
  s_disc (r_blen s).

(* ---- skipSection, ngread.go:315-327 *)
Fixpoint skipSection (fuel : nat) : SM unit :=
  match fuel with
  | O => sfail 9
  | S f =>
    readBlock ;;;
    s <- sget ;;
    if r_btyp s =? BT_SHB then sret tt
    else s_disc (r_blen s) ;;; skipSection f
  end.

(* ---- firstInterface, ngread.go:338-373 *)
Fixpoint firstInterface (ro : ropts) (F : nat) (fuel : nat) : SM unit :=
  match fuel with
  | O => sfail 9
  | S f =>
    readBlock ;;;
    s <- sget ;;
    let t := r_btyp s in
    if t =? 1 then
      readIDB F ;;;
      s <- sget ;;
      match r_ifaces s with
      | [] => spanic 1
      | i0 :: _ =>
        if negb (r_first s) then smod (fun s => set_link s (if_link i0))
        else if negb (r_link s =? if_link i0) then
          (if ro_errmis ro then sfail 3 else firstInterface ro F f)
        else sret tt
      end
    else if (t =? 2) || (t =? 6) || (t =? 3) || (t =? 5) then sfail 3
    else
      (if t =? 10 then readDSB else if t =? 4 then readNRB F else sret tt) ;;;
      s <- sget ;;
      s_disc (r_blen s) ;;;
      firstInterface ro F f
  end.

(* ---- readSectionHeader, ngread.go:238-312 (callbacks nil) *)
Fixpoint rsh_version (ro : ropts) (F : nat) (fuel : nat) : SM unit :=
  match fuel with
  | O => sfail 9
  | S f =>
    b <- s_rd 12 ;;
    sub_blen 12 ;;;
    s <- sget ;;
    let vmaj := getu (r_big s) (sl b 0 2) in
    let vmin := getu (r_big s) (sl b 2 4) in
    if (vmaj =? 1) && (vmin =? 0) then sret tt
    else if negb (ro_skipver ro) then sfail 3
    else
      s_disc (r_blen s) ;;;
      skipSection F ;;;
      rsh_version ro F f
  end.

Definition readSectionHeader (ro : ropts) (F : nat) : SM unit :=
  smod (fun s => set_section (set_names (set_ifaces s []) [] 0) false (r_sect s)) ;;;
  rsh_version ro F F ;;;
  sec <- shb_opts F empty_sec ;;
  s <- sget ;;
  s_disc (r_blen s) ;;;
  smod (fun s => set_section s true sec) ;;;
  if ro_mixed ro then sret tt else firstInterface ro F F.

(* ---- NewNgReader, ngread.go:64-107 *)
Definition newReader (ro : ropts) (F : nat) : SM unit :=
  g <- (fun s => Peek2 (fun bs st =>
          match st with
          | RsOk => Ret (s, Ok bs)
          | RsEOF => Ret (s, Err (match bs with [] => 1 | _ => 2 end))
          | RsFail => Ret (s, Err 3)
          end)) ;;
  if (nthZ g 0 =? 31) && (nthZ g 1 =? 139) then sfail 7
  else
    readBlock ;;;
    s <- sget ;;
    if negb (r_btyp s =? BT_SHB) then sfail 3
    else readSectionHeader ro F.

(* ---- capture length checks added by the repair (readPacketHeader) *)
Definition check_caplen (snap : Z) : SM unit :=
  s <- sget ;;
  let c := r_ci s in
  if r_blen s <? ci_cap c then sfail 3
  else if ci_len c <? ci_cap c then sfail 3
  else if negb (snap =? 0) && (snap <? ci_cap c) then sfail 3
  else sret tt.

(* ---- readPacketHeader, ngread.go:494-580 *)
Fixpoint readPacketHeader (ro : ropts) (F : nat) (fuel : nat) : SM unit :=
  match fuel with
  | O => sfail 9
  | S f =>
    readBlock ;;;
    s <- sget ;;
    let t := r_btyp s in
    let found : SM unit :=
      s <- sget ;;
      match nth_error (r_ifaces s) (Z.to_nat (ci_if (r_ci s))) with
      | None => spanic 6
      | Some i =>
        if negb (ro_mixed ro) then
          if negb (if_link i =? r_link s) then
            s_disc (r_blen s) ;;;
            (if ro_errmis ro then sfail 3 else readPacketHeader ro F f)
          else sret tt
        else smod (fun s => set_ancil s (if_link i))
      end in
    if (t =? 6) || (t =? 2) then
      b <- s_rd 20 ;;
      sub_blen 20 ;;;
      s <- sget ;;
      let id := if t =? 6 then getu (r_big s) (sl b 0 4) else getu (r_big s) (sl b 0 2) in
      smod (fun s => set_ci s (mkCi id (ci_ts (r_ci s)) (ci_cap (r_ci s)) (ci_len (r_ci s)))) ;;;
      if zlen (r_ifaces s) <=? id then sfail 3 else
      match nth_error (r_ifaces s) (Z.to_nat id) with
      | None => spanic 7
      | Some i =>
        tm <- slift (convert_time i (ts_of (r_big s) (sl b 4 12))) ;;
        smod (fun s => set_ci s (mkCi id tm (getu (r_big s) (sl b 12 16)) (getu (r_big s) (sl b 16 20)))) ;;;
        check_caplen (if_snap i) ;;;
        found
      end
    else if t =? 3 then
      b <- s_rd 4 ;;
      sub_blen 4 ;;;
      s <- sget ;;
      let len := getu (r_big s) (sl b 0 4) in
      smod (fun s => set_ci s (mkCi 0 zero_time len len)) ;;;
      match r_ifaces s with
      | [] => sfail 3
      | i0 :: _ =>
        (if negb (if_snap i0 =? 0) && (if_snap i0 <? len)
         then smod (fun s => set_ci s (mkCi 0 zero_time (if_snap i0) len)) else sret tt) ;;;
        check_caplen 0 ;;;
        found
      end
    else if t =? 1 then readIDB F ;;; readPacketHeader ro F f
    else if t =? 5 then readISB F ;;; readPacketHeader ro F f
    else if t =? BT_SHB then readSectionHeader ro F ;;; readPacketHeader ro F f
    else if t =? 4 then readNRB F ;;; readPacketHeader ro F f
    else s_disc (r_blen s) ;;; readPacketHeader ro F f
  end.

(* ---- readPacketOptions, ngread.go:582-625 (repaired: option length guards) *)
Fixpoint pkt_opts (fuel : nat) (o : popts) : SM popts :=
  match fuel with
  | O => sfail 9
  | S f =>
    readOption ;;;
    s <- sget ;;
    let c := r_ocode s in let v := r_oval s in
    if c =? 0 then sret o
    else if c =? 1 then
      pkt_opts f (mkPopts (po_comments o ++ [v]) (po_flags o) (po_hashes o) (po_drop o) (po_pid o) (po_queue o) (po_verdicts o))
    else if c =? 2 then
      if zlen v <? 4 then sfail 3
      else pkt_opts f (mkPopts (po_comments o) (Some (flags_from_u32 (le_val (sl v 0 4)))) (po_hashes o) (po_drop o) (po_pid o) (po_queue o) (po_verdicts o))
    else if c =? 3 then
      match v with
      | [] => sfail 3
      | a :: h => pkt_opts f (mkPopts (po_comments o) (po_flags o) (po_hashes o ++ [(a, h)]) (po_drop o) (po_pid o) (po_queue o) (po_verdicts o))
      end
    else if c =? 4 then
      if zlen v <? 8 then sfail 3
      else pkt_opts f (mkPopts (po_comments o) (po_flags o) (po_hashes o) (Some (le_val (sl v 0 8))) (po_pid o) (po_queue o) (po_verdicts o))
    else if c =? 5 then
      if zlen v <? 8 then sfail 3
      else pkt_opts f (mkPopts (po_comments o) (po_flags o) (po_hashes o) (po_drop o) (Some (le_val (sl v 0 8))) (po_queue o) (po_verdicts o))
    else if c =? 6 then
      if zlen v <? 4 then sfail 3
      else pkt_opts f (mkPopts (po_comments o) (po_flags o) (po_hashes o) (po_drop o) (po_pid o) (Some (le_val (sl v 0 4))) (po_verdicts o))
    else if c =? 7 then
      match v with
      | [] => sfail 3
      | a :: h => pkt_opts f (mkPopts (po_comments o) (po_flags o) (po_hashes o) (po_drop o) (po_pid o) (po_queue o) (po_verdicts o ++ [(a, h)]))
      end
    else pkt_opts f o
  end.

(* ---- ReadPacketDataWithOptions / ZeroCopyReadPacketDataWithOptions, ngread.go:636-717 *)
Definition readPacket (ro : ropts) (F : nat) : SM pkt :=
  readPacketHeader ro F F ;;;
  s <- sget ;;
  let ci := r_ci s in
  let cap := ci_cap ci in
  let snap := match nth_error (r_ifaces s) (Z.to_nat (ci_if ci)) with Some i => if_snap i | None => 0 end in
  (if ro_zc ro then
     (if r_pcap s <? cap then
        s_alloc (Z.max snap cap) snap ;;; smod (fun s => set_pcap s (Z.max snap cap))
      else sret tt)
   else s_alloc cap snap) ;;;
  data <- s_rd cap ;;
  sub_blen cap ;;;
  (if 0 <? pad4 cap then s_disc (pad4 cap) else sret tt) ;;;
  opts <- (if r_btyp s =? 6 then pkt_opts F empty_popts else sret empty_popts) ;;
  s2 <- sget ;;
  s_disc (r_blen s2) ;;;
  sret (mkPkt ci (if ro_mixed ro then r_ancil s else -1) data opts).

(* ---- a whole session: NewNgReader, then Read...PacketData until the first non-ok result.
   Result: outcome of NewNgReader; packets; class of the terminal result; state left behind. *)
Definition cls_of {A} (o : outcome A) : Z :=
  match o with Ok _ => 0 | Err c => c | Panic p => 1000 + p end.

Fixpoint read_all (ro : ropts) (F : nat) (fuel : nat) (acc : list pkt) (s : rst) : io (list pkt * Z * rst) :=
  match fuel with
  | O => Ret (rev acc, 9, s)
  | S f =>
    iobind (readPacket ro F s) (fun r =>
      match snd r with
      | Ok p => read_all ro F f (p :: acc) (fst r)
      | o => Ret (rev acc, cls_of o, fst r)
      end)
  end.

Definition session (ro : ropts) (F : nat) : io (Z * list pkt * Z * rst) :=
  iobind (newReader ro F init_rst) (fun r =>
    match snd r with
    | Ok _ => iobind (read_all ro F F [] (fst r)) (fun x => Ret (0, fst (fst x), snd (fst x), snd x))
    | o => Ret (cls_of o, [], cls_of o, fst r)
    end).

(* fuel sufficient for a stream of n bytes *)
Definition fuel_for (n : Z) : nat := (Z.to_nat n + 2)%nat.

Definition session_flat (ro : ropts) (d : list Z) (fail : bool) : (Z * list pkt * Z * rst) * fstream :=
  run_f (session ro (fuel_for (zlen d))) (fstream_of d fail).

Definition session_chunked (ro : ropts) (ev : list event) : (Z * list pkt * Z * rst) * list event :=
  run_c (session ro (fuel_for (zlen (flat_data ev)))) ev.

(* C14: write, cut at k, read *)
Definition write_cut_read (ro : ropts) (sec : secinfo) (i0 : wiface) (ops : list wop) (k : nat)
  : (Z * list pkt * Z * rst) :=
  fst (session_flat ro (firstn k (write_file sec i0 ops)) false).
