(* Ldiameter — executable model of layers/diameter.go and layers/diameter_avp_decoders.go (Diameter
   header, AVP walk with grouped AVPs and padding, serializer).  Definitions only.
   Line numbers: diameter.go DecodeFromBytes :118-175, SerializeTo :179-243, NextLayerType :102-104
   (LayerTypePayload), Payload() :106-108 (nil); diameter_avp_decoders.go decodeDiameterAVP :10-82,
   SerializeDiameterAVP :104-148, SerializedAVPLength :150-160.
   The AVP type table (GetDiameterAVPType, diameter_avp_codes.go) is abstract: `isg code vendor` says
   whether the table maps the key to DiameterAVPTypeGrouped. *)
From GP Require Import Base Codec MiscLib.
Open Scope Z_scope.

(* GroupedAVPs: None = nil (not a grouped type), Some l = the (possibly empty) slice *)
Inductive davp : Type :=
  mkAvp (code : Z) (fv fm fp : bool) (len vendor : Z) (data : list Z) (sub : option (list davp)).

Definition av_code (a : davp) := let '(mkAvp c _ _ _ _ _ _ _) := a in c.
Definition av_fv (a : davp) := let '(mkAvp _ v _ _ _ _ _ _) := a in v.
Definition av_fm (a : davp) := let '(mkAvp _ _ m _ _ _ _ _) := a in m.
Definition av_fp (a : davp) := let '(mkAvp _ _ _ p _ _ _ _) := a in p.
Definition av_len (a : davp) := let '(mkAvp _ _ _ _ l _ _ _) := a in l.
Definition av_vendor (a : davp) := let '(mkAvp _ _ _ _ _ v _ _) := a in v.
Definition av_data (a : davp) := let '(mkAvp _ _ _ _ _ _ d _) := a in d.
Definition av_sub (a : davp) := let '(mkAvp _ _ _ _ _ _ _ s) := a in s.

Record diameter := mkDm {
  dm_contents : list Z; dm_payload : list Z;
  dm_version : Z; dm_mlen : Z; dm_req : bool; dm_prox : bool; dm_err : bool; dm_retr : bool;
  dm_cmd : Z; dm_app : Z; dm_hbh : Z; dm_e2e : Z; dm_avps : list davp }.
Definition dm_fresh : diameter := mkDm [] [] 0 0 false false false false 0 0 0 0 [].

Definition pad4 (n : Z) : Z := if n mod 4 =? 0 then n else n + (4 - n mod 4).      (* :42-45 / :111-114 *)

Section Table.
Variable isg : Z -> Z -> bool.

(* dm_walk: the loop `for len(data) >= 8 { decodeDiameterAVP; append; data = data[consumed:] }`
   (diameter.go:162-170, diameter_avp_decoders.go:66-74, :88-96): the AVPs appended and how it ended:
   Ok tt = fewer than 8 octets left, Err = an AVP was rejected (the loop breaks), Panic = an index or
   slice out of range.  dm_one: decodeDiameterAVP.  One fuel for loop rounds and nesting depth
   (Err 99 = out of fuel, excluded by dm_fuel_enough). *)
Fixpoint dm_walk (fuel : nat) (data : list Z) : list davp * outcome unit :=
  match fuel with
  | O => ([], Err 99)
  | S f =>
    if zlen data <? 8 then ([], Ok tt) else
    match dm_one f data with
    | Ok (a, c) =>
      match cd_slc data c (zlen data) with                       (* data[bytesConsumed:] *)
      | Ok rest => let '(l, o) := dm_walk f rest in (a :: l, o)
      | Err e => ([a], Err e)
      | Panic s => ([a], Panic s)
      end
    | Err e => ([], Err e)
    | Panic s => ([], Panic s)
    end
  end
with dm_one (fuel : nat) (data : list Z) : outcome (davp * Z) :=
  match fuel with
  | O => Err 99
  | S f =>
    let n := zlen data in
    if n <? 8 then Err 1 else                                                     (* :11-13 *)
    obind (ml_rd32 data 0) (fun code =>                                           (* :17 *)
    obind (cd_idx data 4) (fun fl =>                                              (* :19-21 *)
    obind (cd_idx data 5) (fun l0 => obind (cd_idx data 6) (fun l1 => obind (cd_idx data 7) (fun l2 =>
    let len := (l0 * 256 + l1) * 256 + l2 in                                      (* :23 *)
    if len <? 8 then Err 2 else                                                   (* :25-27 *)
    let fv := (fl / 128) mod 2 =? 1 in
    if fv && (n <? 12) then Err 3 else                                            (* :33-35 *)
    obind (if fv then ml_rd32 data 8 else Ok 0) (fun vendor =>                    (* :36 *)
    let hs := if fv then 12 else 8 in
    let plen := pad4 len in                                                       (* :41-45 *)
    if n <? plen then Err 4 else                                                  (* :47-49 *)
    if len <? hs then Err 5 else                                                  (* :51-53 *)
    obind (cd_slc data hs (hs + (len - hs))) (fun dat =>                          (* :55-57 make + copy *)
    match (if isg code vendor then let '(sl, so) := dm_walk f dat in (Some sl, so) else (None, Ok tt)) with   (* :59-70: errors only end the sub-loop *)
    | (_, Panic s) => Panic s
    | (sub, Err e) =>
      if e =? 99 then Err 99
      else Ok (mkAvp code fv ((fl / 64) mod 2 =? 1) ((fl / 32) mod 2 =? 1) len vendor dat sub, plen)
    | (sub, Ok _) => Ok (mkAvp code fv ((fl / 64) mod 2 =? 1) ((fl / 32) mod 2 =? 1) len vendor dat sub, plen)
    end)))))))
  end.

Definition dm_decode_into (old : diameter) (data : list Z) : diameter * outcome unit * bool :=
  let n := zlen data in
  if n <? 20 then (old, Err 1, false) else                                        (* :119-121 no SetTruncated *)
  ml_bind (cd_idx data 0) old false (fun ver =>                                   (* :123 *)
  let upd := fun v ml => mkDm (dm_contents old) (dm_payload old) v ml (dm_req old) (dm_prox old) (dm_err old) (dm_retr old)
                              (dm_cmd old) (dm_app old) (dm_hbh old) (dm_e2e old) (dm_avps old) in
  let l1 := upd ver (dm_mlen old) in
  if negb (ver =? 1) then (l1, Err 2, false) else                                 (* :124-126 *)
  ml_bind (cd_idx data 1) l1 false (fun m0 => ml_bind (cd_idx data 2) l1 false (fun m1 => ml_bind (cd_idx data 3) l1 false (fun m2 =>
  let ml := (m0 * 256 + m1) * 256 + m2 in                                         (* :128 *)
  let l2 := upd ver ml in
  if ml <? 20 then (l2, Err 3, false) else                                        (* :130-132 *)
  if n <? ml then (l2, Err 4, false) else                                         (* :133-135 no SetTruncated *)
  ml_bind (cd_idx data 4) l2 false (fun fl =>                                     (* :137-140 *)
  ml_bind (cd_idx data 5) l2 false (fun c0 => ml_bind (cd_idx data 6) l2 false (fun c1 => ml_bind (cd_idx data 7) l2 false (fun c2 =>
  ml_bind (ml_rd32 data 8) l2 false (fun app =>                                   (* :144 *)
  ml_bind (ml_rd32 data 12) l2 false (fun hbh =>                                  (* :146 *)
  ml_bind (ml_rd32 data 16) l2 false (fun e2e =>                                  (* :148 *)
  let mk := fun c avps => mkDm c (dm_payload old) ver ml ((fl / 128) mod 2 =? 1) ((fl / 64) mod 2 =? 1) ((fl / 32) mod 2 =? 1)
                               ((fl / 16) mod 2 =? 1) ((c0 * 256 + c1) * 256 + c2) app hbh e2e avps in
  ml_bind (cd_slc data 20 ml) (mk (dm_contents old) (dm_avps old)) false (fun avpdata =>   (* :150 *)
  let '(avps, o) := dm_walk (S (length avpdata)) avpdata in                       (* :151-170 *)
  match o with
  | Panic s => (mk (dm_contents old) avps, Panic s, false)
  | Err 99 => (mk (dm_contents old) avps, Err 99, false)
  | _ =>
    ml_bind (cd_slc data 0 ml) (mk (dm_contents old) avps) false (fun contents => (* :172 BaseLayer{Contents: ...} *)
    (mkDm contents [] ver ml ((fl / 128) mod 2 =? 1) ((fl / 64) mod 2 =? 1) ((fl / 32) mod 2 =? 1)
          ((fl / 16) mod 2 =? 1) ((c0 * 256 + c1) * 256 + c2) app hbh e2e avps,
     Ok tt, match o with Ok _ => false | _ => true end))                          (* :165 SetTruncated; nil is returned *)
  end)))))))))))).
End Table.

(* NextLayerType: LayerTypePayload *)
Definition dm_next (l : diameter) : Z := 0.

(* SerializeDiameterAVP :104-148 — header, data, zero padding (make) *)
Definition dm_avp_bytes (a : davp) : list Z :=
  let hs := if av_fv a then 12 else 8 in
  let len := hs + zlen (av_data a) in                                             (* :110 *)
  ml_put32 (av_code a mod 4294967296) ++                                          (* :118 *)
  [(if av_fv a then 128 else 0) + (if av_fm a then 64 else 0) + (if av_fp a then 32 else 0)] ++   (* :120-129 *)
  [(len / 65536) mod 256; (len / 256) mod 256; len mod 256] ++                    (* :131-133 *)
  (if av_fv a then ml_put32 (av_vendor a mod 4294967296) else []) ++              (* :135-140 *)
  av_data a ++ repeat 0 (Z.to_nat (pad4 len - len)).

Fixpoint dm_copy_avps (b : list Z) (off : Z) (l : list davp) : outcome (list Z) :=
  match l with
  | [] => Ok b
  | a :: t => obind (ml_copy b off (dm_avp_bytes a)) (fun b => dm_copy_avps b (off + zlen (dm_avp_bytes a)) t)   (* :235-239 *)
  end.

Definition dm_serialize (l : diameter) (payload : list Z) (fixl csum : bool) (junk : list Z)
    : outcome (list Z) * diameter :=
  let ml := fold_left (fun a x => a + zlen (dm_avp_bytes x)) (dm_avps l) 20 in    (* :180-184 *)
  let l1 := if fixl then mkDm (dm_contents l) (dm_payload l) (dm_version l) (ml mod 4294967296) (dm_req l) (dm_prox l) (dm_err l)
                               (dm_retr l) (dm_cmd l) (dm_app l) (dm_hbh l) (dm_e2e l) (dm_avps l) else l in   (* :186-188 *)
  let bytes0 := cd_region ml junk in                                              (* :191 *)
  let fl := (if dm_req l1 then 128 else 0) + (if dm_prox l1 then 64 else 0) + (if dm_err l1 then 32 else 0) + (if dm_retr l1 then 16 else 0) in
  let r :=
    obind (ml_wrc bytes0 0 [dm_version l1 mod 256]) (fun b =>                     (* :197 *)
    obind (ml_wrc b 1 [(dm_mlen l1 / 65536) mod 256; (dm_mlen l1 / 256) mod 256; dm_mlen l1 mod 256]) (fun b =>   (* :200-202 *)
    obind (ml_wrc b 4 [fl]) (fun b =>                                             (* :205-217 *)
    obind (ml_wrc b 5 [(dm_cmd l1 / 65536) mod 256; (dm_cmd l1 / 256) mod 256; dm_cmd l1 mod 256]) (fun b =>     (* :220-222 *)
    obind (ml_wrc b 8 (ml_put32 (dm_app l1 mod 4294967296))) (fun b =>            (* :225 *)
    obind (ml_wrc b 12 (ml_put32 (dm_hbh l1 mod 4294967296))) (fun b =>           (* :228 *)
    obind (ml_wrc b 16 (ml_put32 (dm_e2e l1 mod 4294967296))) (fun b =>           (* :231 *)
    dm_copy_avps b 20 (dm_avps l1)))))))) in                                      (* :234-240 *)
  match r with
  | Ok b => (Ok (b ++ payload), l1)
  | Err c => (Err c, l1)
  | Panic s => (Panic s, l1)
  end.

(* DiameterAVP.String and the typed getters are total (map lookups with ok, length checks) *)
Definition dm_render_panics (l : diameter) : bool := false.
