(* Licmp6 — executable model of gopacket's ICMPv6 header and NDP messages.
   Transcribed from layers/icmp6.go and layers/icmp6msg.go of the REPAIRED tree (the four
   `fix:` commits on icmp6msg.go); the behaviour of the unchanged code is kept in the *_orig
   definitions.  No proofs in this file. *)
From GP Require Import Base N6Lib.
Open Scope Z_scope.

(* result of a DecodeFromBytes call: the layer object afterwards (also on error paths: the Go code
   mutates the receiver before returning an error), the outcome, and whether df.SetTruncated()
   was called *)
Definition dres (T : Type) : Type := (T * outcome unit * bool)%type.

(* ================================================================ ICMPv6 header (icmp6.go) *)

(* icmp6.go:175-183; TypeBytes is deprecated and always nil; the pseudo-header is an explicit
   argument of serialize *)
Record icmp6 := mkIcmp6 {
  i_tc : Z;                (* TypeCode uint16 = type<<8 | code *)
  i_csum : Z;              (* Checksum uint16 *)
  i_contents : list Z;
  i_payload : list Z }.

Definition icmp6_fresh : icmp6 := mkIcmp6 0 0 [] [].

(* icmp6.go:189-198 DecodeFromBytes *)
Definition icmp6_decode_into (old : icmp6) (data : list Z) : dres icmp6 :=
  if n6_len data <? 4 then (old, Err 1, true)
  else
    match n6_idx data 0, n6_idx data 1, n6_slice data 2 4, n6_slice data 0 4, n6_from data 4 with
    | Some t, Some c, Some cs, Some cont, Some pl =>
        (* CreateICMPv6TypeCode(data[0], data[1]) = BigEndian.Uint16([]byte{typ, code}) *)
        (mkIcmp6 (be_val [t; c]) (be_val cs) cont pl, Ok tt, false)
    | _, _, _, _, _ => (old, Panic 1, false)
    end.

(* layer type ids: layers/layertypes.go (RegisterLayerType numbers), decode.go:113 (Payload = 2) *)
Definition LT_Payload := 2.
Definition LT_ICMPv6Echo := 132.
Definition LT_RS := 124.
Definition LT_RA := 125.
Definition LT_NS := 126.
Definition LT_NA := 127.
Definition LT_Redirect := 128.
Definition LT_MLDv1Report := 135.
Definition LT_MLDv1Done := 136.
Definition LT_MLDv1Query := 137.
Definition LT_MLDv2Report := 138.
Definition LT_MLDv2Query := 139.

(* icmp6.go:230-261 NextLayerType; TypeCode.Type() = uint8(a >> 8) *)
Definition icmp6_next (l : icmp6) : Z :=
  let t := (i_tc l / 256) mod 256 in
  if t =? 128 then LT_ICMPv6Echo
  else if t =? 129 then LT_ICMPv6Echo
  else if t =? 133 then LT_RS
  else if t =? 134 then LT_RA
  else if t =? 135 then LT_NS
  else if t =? 136 then LT_NA
  else if t =? 137 then LT_Redirect
  else if t =? 130 then (if 20 <? n6_len (i_payload l) then LT_MLDv2Query else LT_MLDv1Query)
  else if t =? 132 then LT_MLDv1Done
  else if t =? 131 then LT_MLDv1Report
  else if t =? 143 then LT_MLDv2Report
  else LT_Payload.

(* the network layer attached with SetNetworkLayerForChecksum (tcpip.go:72-82): none, or an IPv6
   layer of which only SrcIP/DstIP matter.  (An IPv4 network layer is accepted by the Go code as
   well; it is not modelled.) *)
Inductive pseudo := PHnone | PH6 (src dst : list Z).

(* tcpip.go:37-48 IPv6.pseudoheaderChecksum, ip6.go:742-761 AddressTo16 *)
Fixpoint ph6_sum (src dst : list Z) (fuel : nat) (c : Z) : Z :=
  match fuel, src, dst with
  | S f, s0 :: s1 :: st, d0 :: d1 :: dt =>
      ph6_sum st dt f (u32 (u32 (u32 (u32 (c + s0 * 256) + s1) + d0 * 256) + d1))
  | _, _, _ => c
  end.

Definition pseudo_sum (ph : pseudo) : outcome Z :=
  match ph with
  | PHnone => Err 2                       (* "cannot be computed without network layer" *)
  | PH6 src dst =>
      if negb (n6_len src =? 16) then Err 3
      else if negb (n6_len dst =? 16) then Err 3
      else Ok (ph6_sum src dst 8 0)
  end.

(* tcpip.go:54-70 computeChecksum *)
Definition compute_checksum (ph : pseudo) (hp : list Z) (proto : Z) : outcome Z :=
  obind (pseudo_sum ph) (fun c =>
    let length := u32 (n6_len hp) in
    let c := u32 (c + proto) in
    let c := u32 (c + length mod 65536) in
    let c := u32 (c + length / 65536) in
    Ok (n6_csum hp c)).

Definition IPProtocolICMPv6 := 58.

(* icmp6.go:203-222 SerializeTo.  Returns the buffer contents afterwards (header ++ payload) and
   the layer after the call (ComputeChecksums stores the checksum in the layer). *)
Definition icmp6_serialize (l : icmp6) (payload : list Z) (fix_ csum : bool) (ph : pseudo)
    (junk : list Z) : outcome (list Z) * icmp6 :=
  let region := fst (n6_take 4 junk) in
  (* i.TypeCode.SerializeTo(bytes): PutUint16(bytes, uint16(a)) *)
  let bytes := n6_put region 0 (be_bytes 2 (i_tc l)) in
  if csum then
    let bytes := n6_put bytes 2 [0; 0] in
    match compute_checksum ph (bytes ++ payload) IPProtocolICMPv6 with
    | Ok c =>
        let ck := n6_fold c in
        (Ok (n6_put bytes 2 (be_bytes 2 ck) ++ payload), mkIcmp6 (i_tc l) ck (i_contents l) (i_payload l))
    | Err e => (Err e, l)
    | Panic s => (Panic s, l)
    end
  else (Ok (n6_put bytes 2 (be_bytes 2 (i_csum l)) ++ payload), l).

(* icmp6.go:134-156 ICMPv6TypeCode.String: the only partial operation is the dereference
   strInfo.codeStr[c] of a pointer that is nil for the types without code names; the two
   `codeStr == nil` tests before it return first.  GoString (158-161) has no partial operation. *)
Definition tc_known (t : Z) : bool :=
  (t =? 1) || (t =? 2) || (t =? 3) || (t =? 4) || (t =? 128) || (t =? 129) ||
  (t =? 133) || (t =? 134) || (t =? 135) || (t =? 136) || (t =? 137).
Definition tc_codestr_nil (t : Z) : bool := negb ((t =? 1) || (t =? 3) || (t =? 4)).
Definition tc_string_panics (tc : Z) : bool :=
  let t := (tc / 256) mod 256 in let c := tc mod 256 in
  if negb (tc_known t) then false
  else if tc_codestr_nil t && (c =? 0) then false
  else if tc_codestr_nil t && negb (c =? 0) then false
  else tc_codestr_nil t.     (* nil dereference iff still nil here *)

Definition icmp6_render_panics (l : icmp6) : bool := tc_string_panics (i_tc l).

(* ================================================================ NDP options (icmp6msg.go) *)

Record opt := mkOpt { o_type : Z; o_data : list Z }.   (* icmp6msg.go:112-115 *)

(* icmp6msg.go:514-546 ICMPv6Options.DecodeFromBytes, the loop; acc = options appended so far.
   Every iteration consumes length >= 8 bytes, so fuel = len(data)+1 is never exhausted. *)
Fixpoint opts_loop (fuel : nat) (acc : list opt) (data : list Z) : dres (list opt) :=
  match fuel with
  | O => (acc, Panic N6_FUEL, false)
  | S f =>
      if negb (0 <? n6_len data) then (acc, Ok tt, false)
      else if n6_len data <? 2 then (acc, Err 1, true)
      else
        match n6_idx data 1 with
        | None => (acc, Panic 2, false)
        | Some l8 =>
            let length := l8 * 8 in
            if length =? 0 then (acc, Err 2, true)
            else if n6_len data <? length then (acc, Err 3, true)
            else
              match n6_idx data 0, n6_slice data 2 length, n6_from data length with
              | Some t, Some d, Some rest => opts_loop f (acc ++ [mkOpt t d]) rest
              | _, _, _ => (acc, Panic 3, false)
              end
        end
  end.

Definition opts_fuel (data : list Z) : nat := S (length data).

(* repaired: the reset of the receiver first;  unchanged code: appends to the previous list *)
Definition opts_decode_into (old : list opt) (data : list Z) : dres (list opt) :=
  opts_loop (opts_fuel data) [] data.
Definition opts_decode_into_orig (old : list opt) (data : list Z) : dres (list opt) :=
  opts_loop (opts_fuel data) old data.

(* one option written into its PrependBytes(len(Data)+2) region: icmp6msg.go:553-561 *)
Definition opt_write (o : opt) (region : list Z) : list Z :=
  let length := n6_len (o_data o) + 2 in
  n6_put (n6_put (n6_put region 0 [u8 (o_type o)]) 1 [u8 (length / 8)]) 2 (o_data o).

(* the options are prepended one at a time in the order given: buf is the buffer contents so far *)
Fixpoint opts_prepend (os : list opt) (buf junk : list Z) : list Z * list Z :=
  match os with
  | [] => (buf, junk)
  | o :: t =>
      let '(region, junk') := n6_take (length (o_data o) + 2) junk in
      opts_prepend t (opt_write o region ++ buf) junk'
  end.

(* icmp6msg.go:551-565 ICMPv6Options.SerializeTo: repaired code walks the list backwards,
   the unchanged code forwards (so the wire order was reversed) *)
Definition opts_serialize (os : list opt) (buf junk : list Z) : list Z * list Z :=
  opts_prepend (rev os) buf junk.
Definition opts_serialize_orig (os : list opt) (buf junk : list Z) : list Z * list Z :=
  opts_prepend os buf junk.

(* icmp6msg.go:462-511 ICMPv6Option.String — the conditions under which an index or slice
   expression is out of range.  hex.EncodeToString, net.HardwareAddr.String, net.IP.String and
   fmt are total.  rdnss_guard = the repaired code's `if len(i.Data) < 6 { break }`. *)
Fixpoint rdnss_ips_panic (num : nat) (j : Z) (dlen : Z) : bool :=
  match num with
  | O => false
  | S n => (* i.Data[6+j*16 : 6+(j+1)*16] *)
      negb (6 + (j + 1) * 16 <=? dlen) || rdnss_ips_panic n (j + 1) dlen
  end.

Definition opt_string_panics_gen (rdnss_guard : bool) (o : opt) : bool :=
  let t := o_type o in let dlen := n6_len (o_data o) in
  if (t =? 1) || (t =? 2) then false
  else if t =? 3 then
    (* only when len == 30: Data[0], Data[1], Data[2:6], Data[6:10], Data[14:] *)
    if dlen =? 30 then negb (14 <=? dlen) else false
  else if t =? 4 then false
  else if t =? 5 then
    (* only when len == 6: Data[2:] *)
    if dlen =? 6 then negb (2 <=? dlen) else false
  else if t =? 25 then
    if rdnss_guard && (dlen <? 6) then false
    else
      (* Data[2:6]; num := (len-6)/16 (Go division truncates toward zero); make([]string, num) *)
      negb (6 <=? dlen) || (Z.quot (dlen - 6) 16 <? 0)
      || rdnss_ips_panic (Z.to_nat (Z.quot (dlen - 6) 16)) 0 dlen
  else false.

Definition opt_string_panics := opt_string_panics_gen true.
Definition opt_string_panics_orig := opt_string_panics_gen false.

(* ================================================================ NDP messages (icmp6msg.go) *)

(* KOPT is the ICMPv6Options type used directly (it has DecodeFromBytes/SerializeTo of its own) *)
Inductive kind := KRS | KRA | KNS | KNA | KRD | KOPT.

(* one record for the five message types; a kind reads and writes only its own fields:
   RS {Options} (its BaseLayer is never assigned!), RA {HopLimit Flags RouterLifetime
   ReachableTime RetransTimer Options}, NS {TargetAddress Options}, NA {Flags TargetAddress
   Options}, Redirect {TargetAddress DestinationAddress Options} *)
Record ndp := mkNdp {
  n_hop : Z; n_flags : Z; n_life : Z; n_reach : Z; n_retrans : Z;
  n_target : list Z; n_dest : list Z;
  n_opts : list opt;
  n_contents : list Z; n_payload : list Z }.

Definition ndp_fresh : ndp := mkNdp 0 0 0 0 0 [] [] [] [] [].

Definition hdr_len (k : kind) : Z :=
  match k with KRS => 4 | KRA => 12 | KNS => 20 | KNA => 20 | KRD => 36 | KOPT => 0 end.

Definition set_opts (l : ndp) (os : list opt) : ndp :=
  mkNdp (n_hop l) (n_flags l) (n_life l) (n_reach l) (n_retrans l) (n_target l) (n_dest l) os
        (n_contents l) (n_payload l).

(* the assignments before the options are decoded; None = an index/slice would panic.
   RS 191-202, RA 237-255, NS 306-319, NA 355-369, Redirect 422-436 *)
Definition ndp_set_fields (k : kind) (old : ndp) (data : list Z) : option ndp :=
  match k with
  | KRS | KOPT => Some old
  | KRA =>
      match n6_idx data 0, n6_idx data 1, n6_slice data 2 4, n6_slice data 4 8, n6_slice data 8 12 with
      | Some h, Some f, Some lt, Some rt, Some rx =>
          Some (mkNdp h f (be_val lt) (be_val rt) (be_val rx) (n_target old) (n_dest old) (n_opts old) data [])
      | _, _, _, _, _ => None
      end
  | KNS =>
      match n6_slice data 4 20 with
      | Some t => Some (mkNdp (n_hop old) (n_flags old) (n_life old) (n_reach old) (n_retrans old) t (n_dest old) (n_opts old) data [])
      | None => None
      end
  | KNA =>
      match n6_idx data 0, n6_slice data 4 20 with
      | Some f, Some t => Some (mkNdp (n_hop old) f (n_life old) (n_reach old) (n_retrans old) t (n_dest old) (n_opts old) data [])
      | _, _ => None
      end
  | KRD =>
      match n6_slice data 4 20, n6_slice data 20 36 with
      | Some t, Some d => Some (mkNdp (n_hop old) (n_flags old) (n_life old) (n_reach old) (n_retrans old) t d (n_opts old) data [])
      | _, _ => None
      end
  end.

Definition ndp_decode_gen (orig : bool) (k : kind) (old : ndp) (data : list Z) : dres ndp :=
  if n6_len data <? hdr_len k then (old, Err 1, true)
  else
    match ndp_set_fields k old data, n6_from data (hdr_len k) with
    | Some l, Some rest =>
        (* the messages truncate the old options themselves (`i.Options = i.Options[:0]`);
           ICMPv6Options used directly resets only in the repaired code *)
        let start := match k with KOPT => if orig then n_opts old else [] | _ => [] end in
        let '(os, r, tr) := opts_loop (opts_fuel rest) start rest in
        (set_opts l os, r, tr)
    | _, _ => (old, Panic 4, false)
    end.

Definition ndp_decode_into := ndp_decode_gen false.
Definition ndp_decode_into_orig := ndp_decode_gen true.

(* NextLayerType of every NDP message is LayerTypePayload *)
Definition ndp_next (k : kind) (l : ndp) : Z := LT_Payload.

(* the fixed part written into the PrependBytes(hdr_len) region.
   zero = true: repaired code (copy(buf, lotsOfZeros[:n]) clears the whole region first);
   zero = false: unchanged code (only the reserved bytes are cleared).
   RS 212-218, RA 265-275, NS 329-336, NA 379-387, Redirect 446-454 *)
Definition ndp_header (zero : bool) (k : kind) (l : ndp) (region : list Z) : list Z :=
  match k with
  | KOPT => region
  | KRS => n6_put region 0 [0; 0; 0; 0]
  | KRA => n6_put region 0 ([u8 (n_hop l); u8 (n_flags l)] ++ be_bytes 2 (n_life l)
                            ++ be_bytes 4 (n_reach l) ++ be_bytes 4 (n_retrans l))
  | KNS => n6_put (n6_put region 0 (repeat 0 (if zero then 20 else 4))) 4 (n_target l)
  | KNA => n6_put (n6_put (n6_put region 0 [u8 (n_flags l)]) 1 (repeat 0 (if zero then 19 else 3))) 4 (n_target l)
  | KRD => n6_put (n6_put (n6_put region 0 (repeat 0 (if zero then 36 else 4))) 4 (n_target l)) 20 (n_dest l)
  end.

(* SerializeTo of the messages: options first, then the fixed part.  FixLengths and
   ComputeChecksums are not consulted; the layer is not modified; no error is possible
   (PrependBytes of the growing buffer never fails). *)
Definition ndp_serialize_gen (orig : bool) (k : kind) (l : ndp) (payload : list Z) (fix_ csum : bool)
    (junk : list Z) : outcome (list Z) * ndp :=
  let '(buf, junk1) := (if orig then opts_serialize_orig else opts_serialize) (n_opts l) payload junk in
  let region := fst (n6_take (Z.to_nat (hdr_len k)) junk1) in
  (Ok (ndp_header (negb orig) k l region ++ buf), l).

Definition ndp_serialize := ndp_serialize_gen false.
Definition ndp_serialize_orig := ndp_serialize_gen true.

(* gopacket.LayerString (packet.go:301-372) is reflective; it calls ICMPv6Option.String on the
   elements of Options only when the slice has at most 4 elements (longer slices print "..n..").
   LayerDump = LayerString + hex.Dump; LayerGoString uses %#v on Options: total. *)
Definition ndp_render_panics_gen (guard : bool) (l : ndp) : bool :=
  (Nat.leb (length (n_opts l)) 4) && existsb (opt_string_panics_gen guard) (n_opts l).
Definition ndp_render_panics := ndp_render_panics_gen true.
Definition ndp_render_panics_orig := ndp_render_panics_gen false.

(* ================================================================ what the runner calls *)

Definition icmp6_roundtrip (l : icmp6) (payload : list Z) (ph : pseudo) (junk : list Z)
  : outcome (list Z) * dres icmp6 :=
  match icmp6_serialize l payload true true ph junk with
  | (Ok bytes, _) => (Ok bytes, icmp6_decode_into icmp6_fresh bytes)
  | (Err e, l') => (Err e, (l', Err e, false))
  | (Panic s, l') => (Panic s, (l', Panic s, false))
  end.

Definition ndp_roundtrip (k : kind) (l : ndp) (payload : list Z) (junk : list Z)
  : outcome (list Z) * dres ndp :=
  match ndp_serialize k l payload true true junk with
  | (Ok bytes, _) => (Ok bytes, ndp_decode_into k ndp_fresh bytes)
  | (Err e, l') => (Err e, (l', Err e, false))
  | (Panic s, l') => (Panic s, (l', Panic s, false))
  end.

(* ================================================================ views used by the theorems *)

(* the public fields of a message kind (the generic record's other fields are not part of that
   Go type); contents and payload are compared separately *)
Definition ndp_fview (k : kind) (l : ndp) : ndp :=
  match k with
  | KRS | KOPT => mkNdp 0 0 0 0 0 [] [] (n_opts l) [] []
  | KRA => mkNdp (n_hop l) (n_flags l) (n_life l) (n_reach l) (n_retrans l) [] [] (n_opts l) [] []
  | KNS => mkNdp 0 0 0 0 0 (n_target l) [] (n_opts l) [] []
  | KNA => mkNdp 0 (n_flags l) 0 0 0 (n_target l) [] (n_opts l) [] []
  | KRD => mkNdp 0 0 0 0 0 (n_target l) (n_dest l) (n_opts l) [] []
  end.

(* every observable of a layer object of kind k *)
Definition ndp_view (k : kind) (l : ndp) : ndp * list Z * list Z :=
  (ndp_fview k l, n_contents l, n_payload l).

(* in-range values (C06): what the wire format can carry *)
Definition opt_okb (o : opt) : bool :=
  bytes_okb (o_data o) && byte_okb (o_type o) &&
  ((n6_len (o_data o) + 2) mod 8 =? 0) && (n6_len (o_data o) + 2 <=? 2040).

Definition ndp_okb (k : kind) (l : ndp) : bool :=
  forallb opt_okb (n_opts l) &&
  match k with
  | KRS | KOPT => true
  | KRA => byte_okb (n_hop l) && byte_okb (n_flags l) && (0 <=? n_life l) && (n_life l <? 65536)
           && (0 <=? n_reach l) && (n_reach l <? 4294967296) && (0 <=? n_retrans l) && (n_retrans l <? 4294967296)
  | KNS => bytes_okb (n_target l) && (n6_len (n_target l) =? 16)
  | KNA => byte_okb (n_flags l) && bytes_okb (n_target l) && (n6_len (n_target l) =? 16)
  | KRD => bytes_okb (n_target l) && (n6_len (n_target l) =? 16) && bytes_okb (n_dest l) && (n6_len (n_dest l) =? 16)
  end.

Definition icmp6_okb (l : icmp6) : bool := (0 <=? i_tc l) && (i_tc l <? 65536).

Definition ph_okb (ph : pseudo) : bool :=
  match ph with
  | PHnone => false
  | PH6 s d => (n6_len s =? 16) && (n6_len d =? 16)
  end.

(* the wire form of one option *)
Definition opt_enc (o : opt) : list Z :=
  [u8 (o_type o); u8 ((n6_len (o_data o) + 2) / 8)] ++ o_data o.

(* ================================================================ ICMPv6Echo (icmp6msg.go:62-67,140-178) *)

Record echo := mkEcho { ec_id : Z; ec_seq : Z; ec_contents : list Z; ec_payload : list Z }.
Definition echo_fresh : echo := mkEcho 0 0 [] [].

(* DecodeFromBytes (repaired: BaseLayer is assigned; the unchanged code left Contents and Payload as
   they were, so the echo data was never available as payload) *)
Definition echo_decode_gen (orig : bool) (old : echo) (data : list Z) : dres echo :=
  if n6_len data <? 4 then (old, Err 1, true)
  else
    match n6_slice data 0 2, n6_slice data 2 4, n6_slice data 0 4, n6_from data 4 with
    | Some a, Some b, Some c, Some p =>
        (if orig then mkEcho (be_val a) (be_val b) (ec_contents old) (ec_payload old)
         else mkEcho (be_val a) (be_val b) c p, Ok tt, false)
    | _, _, _, _ => (old, Panic 1, false)
    end.
Definition echo_decode_into := echo_decode_gen false.
Definition echo_decode_into_orig := echo_decode_gen true.

Definition echo_next (l : echo) : Z := LT_Payload.

(* SerializeTo: PutUint16(buf, Identifier); PutUint16(buf[2:], SeqNumber) *)
Definition echo_serialize (l : echo) (payload : list Z) (fix_ csum : bool) (junk : list Z) : outcome (list Z) * echo :=
  let region := fst (n6_take 4 junk) in
  (Ok (n6_put (n6_put region 0 (be_bytes 2 (ec_id l))) 2 (be_bytes 2 (ec_seq l)) ++ payload), l).

Definition echo_okb (l : echo) : bool :=
  (0 <=? ec_id l) && (ec_id l <? 65536) && (0 <=? ec_seq l) && (ec_seq l <? 65536).
