(* A total flattening of the pcapng reader's session result into a list of numbers, used only
   by the extraction cross-check (runner/ngshared.ml `ng_to_coq`): the extracted OCaml runner
   prints `ng_digest` of what it computed and Coq re-evaluates the same expression with
   vm_compute.  Every field of every record is included, each list length-prefixed, so two
   results with equal digests are equal. *)
From GP Require Import Base NgModel.
Open Scope Z_scope.

Definition dl (l : list Z) : list Z := zlen l :: l.
Definition dll (l : list (list Z)) : list Z := zlen l :: flat_map dl l.
Definition dopt (o : option Z) : list Z := match o with None => [0] | Some v => [1; v] end.
Definition dtime (t : Z * Z) : list Z := [fst t; snd t].
Definition dzb (p : Z * list Z) : list Z := fst p :: dl (snd p).
Definition dbool (b : bool) : Z := if b then 1 else 0.

Definition d_popts (o : popts) : list Z :=
  dll (po_comments o)
  ++ (match po_flags o with None => [0] | Some (d, r, fc, ll) => [1; d; r; fc; ll] end)
  ++ (zlen (po_hashes o) :: flat_map dzb (po_hashes o))
  ++ dopt (po_drop o) ++ dopt (po_pid o) ++ dopt (po_queue o)
  ++ (zlen (po_verdicts o) :: flat_map dzb (po_verdicts o)).

Definition d_ci (c : cinfo) : list Z := [ci_if c] ++ dtime (ci_ts c) ++ [ci_cap c; ci_len c].
Definition d_pkt (p : pkt) : list Z := d_ci (p_ci p) ++ [p_anc p] ++ dl (p_data p) ++ d_popts (p_opts p).

Definition d_stats (s : stats) : list Z :=
  dtime (st_last s) ++ dtime (st_start s) ++ dtime (st_end s) ++ dl (st_comment s) ++ [st_recv s; st_drop s].
Definition d_iface (i : iface) : list Z :=
  dl (if_name i) ++ dl (if_comment i) ++ dl (if_descr i) ++ dl (if_filter i) ++ dl (if_os i)
  ++ [if_link i; if_tsresol i; if_tsoff i; if_snap i] ++ d_stats (if_stats i) ++ [if_mask i; if_up i; if_down i].
Definition d_sec (s : secinfo) : list Z := dl (sc_hw s) ++ dl (sc_os s) ++ dl (sc_app s) ++ dl (sc_comment s).
Definition d_name (n : namerec) : list Z := nr_alen n :: dll (nr_names n).

Definition d_rst (s : rst) : list Z :=
  [dbool (r_big s); r_blen s; r_btyp s; r_ocode s] ++ dl (r_oval s) ++ [r_ocap s]
  ++ (zlen (r_ifaces s) :: flat_map d_iface (r_ifaces s))
  ++ [r_link s; dbool (r_first s); dbool (r_active s)] ++ d_sec (r_sect s) ++ d_ci (r_ci s)
  ++ [r_ancil s; r_pcap s] ++ (zlen (r_names s) :: flat_map d_name (r_names s)) ++ [r_nsec s].

Definition ng_digest (r : Z * list pkt * Z * rst) : list Z :=
  let '(n, ps, e, st) := r in
  [n; e] ++ (zlen ps :: flat_map d_pkt ps) ++ d_rst st.

Definition ng_digest_flat (ro : ropts) (d : list Z) : list Z := ng_digest (fst (session_flat ro d false)).
Definition ng_digest_chunked (ro : ropts) (ev : list event) : list Z := ng_digest (fst (session_chunked ro ev)).
