(* Leth — executable model of layers/ethernet.go (Ethernet II / 802.3 header codec).
   Definitions only.  Line numbers of /repo/layers/ethernet.go:
     DecodeFromBytes :43-65, SerializeTo :70-105, NextLayerType :111-113, LinkFlow :39-41.
   EthernetTypeLLC = 0 (enums.go:36).  `fixed = true` is the code after the fix: commit of branch
   agent-lnet4 (SerializeTo refuses Length >= 0x0600, the value DecodeFromBytes reads as an
   EtherType); `fixed = false` the unchanged code (`> 0x0600`). *)
From GP Require Import Base Codec.
Open Scope Z_scope.

Record eth := mkEth {
  e_contents : list Z; e_payload : list Z;
  e_src : list Z; e_dst : list Z; e_type : Z; e_length : Z }.

Definition eth_fresh : eth := mkEth [] [] [] [] 0 0.

Definition ebind {A} (o : outcome A) (st : eth) (tr : bool)
    (f : A -> eth * outcome unit * bool) : eth * outcome unit * bool :=
  match o with Ok v => f v | Err c => (st, Err c, tr) | Panic s => (st, Panic s, tr) end.

Definition eth_decode_into (old : eth) (data : list Z) : eth * outcome unit * bool :=
  let n := zlen data in
  if n <? 14 then (old, Err 1, false) else                              (* :44-46, no SetTruncated *)
  ebind (cd_slc data 0 6) old false (fun dst =>                         (* :47 *)
  ebind (cd_slc data 6 12) old false (fun src =>                        (* :48 *)
  ebind (cd_rd16 data 12) old false (fun ty =>                          (* :49 *)
  ebind (cd_slc data 0 14) old false (fun contents =>                   (* :50 *)
  ebind (cd_slc data 14 n) old false (fun payload =>
  if ty <? 1536 then                                                    (* :52 EthernetType < 0x0600 *)
    let len := ty in                                                    (* :53-54 *)
    let cmp := zlen payload - len in
    if cmp <? 0 then (mkEth contents payload src dst 0 len, Ok tt, true)         (* :55-56 *)
    else if cmp >? 0 then                                                           (* :57-59 *)
      ebind (cd_slc payload 0 (zlen payload - cmp)) (mkEth contents payload src dst 0 len) false (fun p =>
      (mkEth contents p src dst 0 len, Ok tt, false))
    else (mkEth contents payload src dst 0 len, Ok tt, false)
  else (mkEth contents payload src dst ty 0, Ok tt, false)))))).

(* NextLayerType :111-113: EthernetType.LayerType(); abstract id = the EthernetType value *)
Definition eth_next (l : eth) : Z := e_type l.

Definition eth_wrc (b : list Z) (i : Z) (vs : list Z) : outcome (list Z) :=
  if (0 <=? i) && (i + zlen vs <=? zlen b) then Ok (cd_wr b i vs) else Panic 3.

Definition eth_set_length (l : eth) (len : Z) : eth :=
  mkEth (e_contents l) (e_payload l) (e_src l) (e_dst l) (e_type l) len.

(* junk: prior content of the 14 prepended bytes followed by that of the appended padding *)
Definition eth_serialize_gen (fixed : bool) (l : eth) (payload : list Z) (fixl csum : bool) (junk : list Z)
    : outcome (list Z) * eth :=
  if negb (zlen (e_dst l) =? 6) then (Err 1, l) else                    (* :71-73 *)
  if negb (zlen (e_src l) =? 6) then (Err 2, l) else                    (* :74-76 *)
  let bytes0 := cd_region 14 junk in                                    (* :78 *)
  let l1 := if negb (e_length l =? 0) || (e_type l =? 0)
            then (if fixl then eth_set_length l (zlen payload mod 65536) else l) else l in   (* :85-87 *)
  let hdr :=
    obind (eth_wrc bytes0 0 (e_dst l)) (fun b =>                        (* :82 *)
    obind (eth_wrc b 6 (e_src l)) (fun b =>                             (* :83 *)
    if negb (e_length l =? 0) || (e_type l =? 0) then                   (* :84 *)
      if negb (e_type l =? 0) then Err 3                                (* :88-89 *)
      else if (if fixed then e_length l1 >=? 1536 else e_length l1 >? 1536) then Err 4   (* :90-91 *)
      else eth_wrc b 12 (cd_put16 (e_length l1))                        (* :93 *)
    else eth_wrc b 12 (cd_put16 (e_type l)))) in                        (* :95 *)
  match hdr with
  | Err c => (Err c, l1)
  | Panic s => (Panic s, l1)
  | Ok b =>
    let total := 14 + zlen payload in                                   (* :97 *)
    if total <? 60 then                                                 (* :98-103 *)
      let pad := cd_region (60 - total) (skipn 14 junk) in
      (* copy(padding, lotsOfZeros[:]): min(len(padding), 1024) = len(padding) <= 46 bytes *)
      (Ok (b ++ payload ++ cd_wr pad 0 (repeat 0 (Z.to_nat (60 - total)))), l1)
    else (Ok (b ++ payload), l1)
  end.

Definition eth_serialize := eth_serialize_gen true.
Definition eth_serialize_orig := eth_serialize_gen false.

(* reflective renderers total; LinkFlow -> NewFlow panics only for a MAC longer than 16 bytes *)
Definition eth_render_panics (l : eth) : bool := (zlen (e_src l) >? 16) || (zlen (e_dst l) >? 16).

Definition eth_dec2 (a b : list Z) : eth * outcome unit * bool :=
  let '(l, _, _) := eth_decode_into eth_fresh a in eth_decode_into l b.
