(* Lapsp — executable model of layers/apsp.go (Andromeda PSP header codec, 40 octets).  Definitions only.
   /repo/layers/apsp.go: DecodeFromBytes :54-72, SerializeTo :77-85, LayerContents :88-101 (re-encodes the fields; it does
   NOT return BaseLayer.Contents), NextLayerType :109-112 (LayerTypeIPv4 always), decodeAPSP :119-129.
   APSP has value receivers: SerializeTo cannot change the layer; there are no length or checksum fields. *)
From GP Require Import Base Codec MiscLib.
Open Scope Z_scope.

Record apsp := mkAp {
  ap_contents : list Z; ap_payload : list Z;           (* BaseLayer.Contents, BaseLayer.Payload *)
  ap_nh : Z; ap_hel : Z; ap_co : Z; ap_sdv : Z; ap_spi : Z; ap_iv : Z; ap_tok : Z; ap_vk : Z; ap_src : Z; ap_dst : Z }.
Definition ap_fresh : apsp := mkAp [] [] 0 0 0 0 0 0 0 0 0 0.

(* binary.BigEndian.Uint64(data[i:i+8]) / PutUint64 *)
Definition ap_rd64 (l : list Z) (i : Z) : outcome Z :=
  obind (ml_rd32 l i) (fun a => obind (ml_rd32 l (i + 4)) (fun b => Ok (a * 4294967296 + b))).
Definition ap_put64 (x : Z) : list Z := ml_put32 (x / 4294967296) ++ ml_put32 x.

Definition ap_decode_into (old : apsp) (data : list Z) : apsp * outcome unit * bool :=
  let n := zlen data in
  if n <? 40 then (old, Err 1, true) else                                 (* :55-58 *)
  ml_bind (cd_idx data 0) old false (fun nh =>                            (* :59 *)
  ml_bind (cd_idx data 1) old false (fun hel =>
  ml_bind (cd_idx data 2) old false (fun co =>
  ml_bind (cd_idx data 3) old false (fun sdv =>
  ml_bind (ml_rd32 data 4) old false (fun spi =>                          (* :63 *)
  ml_bind (ap_rd64 data 8) old false (fun iv =>
  ml_bind (ml_rd32 data 16) old false (fun tok =>
  ml_bind (ml_rd32 data 20) old false (fun vk =>
  ml_bind (ap_rd64 data 24) old false (fun src =>
  ml_bind (ap_rd64 data 32) old false (fun dst =>                         (* :68 *)
  ml_bind (cd_slc data 0 40) old false (fun c =>                          (* :69 *)
  ml_bind (cd_slc data 40 n) old false (fun p =>                          (* :70 *)
  (mkAp c p nh hel co sdv spi iv tok vk src dst, Ok tt, false))))))))))))).

Definition ap_next (l : apsp) : Z := 4.                                   (* :109-112 *)

(* LayerContents :88-101: a new 40-octet array, every octet assigned *)
Definition ap_hdr (l : apsp) : list Z :=
  [ap_nh l mod 256; ap_hel l mod 256; ap_co l mod 256; ap_sdv l mod 256] ++ ml_put32 (ap_spi l) ++ ap_put64 (ap_iv l) ++
  ml_put32 (ap_tok l) ++ ml_put32 (ap_vk l) ++ ap_put64 (ap_src l) ++ ap_put64 (ap_dst l).

(* SerializeTo :77-85: PrependBytes(len(b)) then copy *)
Definition ap_serialize (l : apsp) (payload : list Z) (fixl csum : bool) (junk : list Z) : outcome (list Z) * apsp :=
  match ml_copy (cd_region (zlen (ap_hdr l)) junk) 0 (ap_hdr l) with
  | Ok b => (Ok (b ++ payload), l) | Err c => (Err c, l) | Panic s => (Panic s, l)
  end.

Definition ap_render_panics (l : apsp) : bool := false.

(* decodeAPSP :119-129, the registered decoder: empty input is an error; a new VALUE is decoded with
   gopacket.NilDecodeFeedback (the truncated flag never reaches the packet), added, and LayerTypeIPv4 handed to NextDecoder *)
Definition ap_decode_fn (data : list Z) : apsp * bool * option Z * outcome unit * bool :=
  if zlen data =? 0 then (ap_fresh, false, None, Err 3, false) else      (* :120-122 *)
  let '(l, o, _) := ap_decode_into ap_fresh data in                       (* :123-126 *)
  match o with
  | Ok _ => (l, true, Some (ap_next l), Ok tt, false)                     (* :127-128 *)
  | _ => (l, false, None, o, false)
  end.
