(* Lradius — executable model of layers/radius.go (RADIUS codec) as repaired by the two fix: commits of
   agent-lmisc2 (Attributes cleared on decode; FixLengths attribute length counts its two header
   octets).  Definitions only.  Line numbers of the repaired file: Len :369-380, DecodeFromBytes
   :387-476, SerializeTo :482-521, NextLayerType :528-534, Payload() :537-539, attributeValueLength
   :556-563.  `orig` selects the behaviour before both repairs. *)
From GP Require Import Base Codec MiscLib.
Open Scope Z_scope.

Record rattr := mkRa { ra_type : Z; ra_len : Z; ra_value : list Z }.

Record radius := mkRad {
  r_contents : list Z; r_payload : list Z;
  r_code : Z; r_ident : Z; r_length : Z; r_auth : list Z; r_attrs : list rattr }.
Definition rad_fresh : radius := mkRad [] [] 0 0 0 (repeat 0 16) [].

(* the attribute loop :436-468; Err 99 = out of fuel (excluded by rad_fuel) *)
Fixpoint rad_loop (fuel : nat) (d : list Z) (pos : Z) (acc : list rattr) : list rattr * outcome unit :=
  match fuel with
  | O => (acc, Err 99)
  | S f =>
    if zlen d =? pos then (acc, Ok tt) else                                            (* :437-439 *)
    if zlen d - pos <? 2 then (acc, Err 6) else                                        (* :440-443 *)
    match obind (cd_idx d pos) (fun t => obind (cd_idx d (pos + 1)) (fun al => Ok (t, al))) with   (* :445-446 *)
    | Ok (t, al) =>
      if zlen d - pos <? al then (acc, Err 7) else                                     (* :448-451 *)
      if al <? 2 then (acc, Err 8) else                                                (* :453-456 *)
      if 2 <? al then
        match cd_slc d (pos + 2) (pos + al) with                                       (* :459-461 make + copy, append *)
        | Ok v => rad_loop f d (pos + al) (acc ++ [mkRa t al v])
        | Err e => (acc, Err e)
        | Panic s => (acc, Panic s)
        end
      else rad_loop f d (pos + al) acc                                                 (* :464 *)
    | Err e => (acc, Err e)
    | Panic s => (acc, Panic s)
    end
  end.

(* :470-474  Payload = the EAP-Message (79) values concatenated *)
Definition rad_eap (attrs : list rattr) : list Z :=
  concat (map (fun a => if ra_type a =? 79 then ra_value a else []) attrs).

Definition rad_decode_gen (orig : bool) (old : radius) (data : list Z) : radius * outcome unit * bool :=
  let n := zlen data in
  if 4096 <? n then (old, Err 1, true) else                                            (* :388-391 *)
  if n <? 20 then (old, Err 2, true) else                                              (* :392-395 *)
  ml_bind (cd_idx data 0) old false (fun code =>
  ml_bind (cd_idx data 1) old false (fun ident =>
  ml_bind (cd_rd16 data 2) old false (fun len =>
  let a0 := if orig then r_attrs old else [] in                                        (* :400 *)
  let l1 := mkRad data [] code ident len (r_auth old) a0 in                            (* :398-404 *)
  if 4096 <? len then (l1, Err 3, true) else                                           (* :406-409 *)
  if len <? 20 then (l1, Err 4, true) else                                             (* :410-413 *)
  if n <? len then (l1, Err 5, true) else                                              (* :414-417 *)
  let tr0 := len <? n in                                                               (* :418-421 *)
  ml_bind (cd_slc data 0 len) l1 tr0 (fun d =>
  ml_bind (cd_slc d 4 20) l1 tr0 (fun au =>                                            (* :423 *)
  let l2 := mkRad data [] code ident len au a0 in
  if zlen d =? 20 then (l2, Ok tt, tr0) else                                           (* :425-427 *)
  match rad_loop (S (length d)) d 20 a0 with
  | (attrs, Ok _) => (mkRad data (rad_eap attrs) code ident len au attrs, Ok tt, tr0)
  | (attrs, Err e) => (mkRad data [] code ident len au attrs, Err e, true)
  | (attrs, Panic s) => (mkRad data [] code ident len au attrs, Panic s, tr0)
  end))))).

Definition rad_decode_into := rad_decode_gen false.
Definition rad_decode_orig := rad_decode_gen true.

(* NextLayerType: 1 = LayerTypeEAP when the payload is not empty, else 0 = LayerTypeZero *)
Definition rad_next (l : radius) : Z := if zlen (r_payload l) >? 0 then 1 else 0.

(* Authenticator is a [16]byte array *)
Definition rad_auth16 (l : radius) : list Z := firstn 16 (r_auth l ++ repeat 0 16).

(* one attribute as written :504-519; None = the FixLengths error of the repaired code *)
Definition rad_attr_len (orig fixl : bool) (a : rattr) : option Z :=
  if fixl then
    if orig then Some (zlen (ra_value a) mod 256)
    else if 253 <? zlen (ra_value a) then None else Some (zlen (ra_value a) + 2)
  else Some (ra_len a).

Fixpoint rad_write_attrs (orig fixl : bool) (b : list Z) (pos : Z) (l : list rattr) : outcome (list Z) :=
  match l with
  | [] => Ok b
  | a :: t =>
    match rad_attr_len orig fixl a with
    | None => Err 2
    | Some al =>
      obind (ml_wrc b pos [ra_type a mod 256]) (fun b =>                               (* :516 *)
      obind (ml_wrc b (pos + 1) [al mod 256]) (fun b =>                                (* :517 *)
      obind (ml_copy b (pos + 2) (ra_value a)) (fun b =>                               (* :518 *)
      rad_write_attrs orig fixl b (pos + 2 + zlen (ra_value a)) t)))                   (* :519 *)
    end
  end.

Definition rad_serialize_gen (orig : bool) (l : radius) (payload : list Z) (fixl csum : bool) (junk : list Z)
    : outcome (list Z) * radius :=
  if existsb (fun a => 255 <? zlen (ra_value a)) (r_attrs l) then (Err 1, l) else      (* :483-486 Len() *)
  let plen := fold_left (fun acc a => acc + zlen (ra_value a) + 2) (r_attrs l) 20 in
  let l1 := if fixl then mkRad (r_contents l) (r_payload l) (r_code l) (r_ident l) (plen mod 65536) (r_auth l) (r_attrs l) else l in   (* :487-489 *)
  let r :=
    obind (ml_wrc (cd_region plen junk) 0 [r_code l1 mod 256; r_ident l1 mod 256]) (fun b =>   (* :496-497 *)
    obind (ml_wrc b 2 (cd_put16 (r_length l1))) (fun b =>                              (* :498 *)
    obind (ml_wrc b 4 (rad_auth16 l1)) (fun b =>                                       (* :499 *)
    rad_write_attrs orig fixl b 20 (r_attrs l1)))) in                                  (* :502-520 *)
  match r with
  | Ok b => (Ok (b ++ payload), l1)
  | Err c => (Err c, l1)
  | Panic s => (Panic s, l1)
  end.
Definition rad_serialize := rad_serialize_gen false.
Definition rad_serialize_orig := rad_serialize_gen true.

(* RADIUSCode.String / RADIUSAttributeType.String are switches with a default *)
Definition rad_render_panics (l : radius) : bool := false.
