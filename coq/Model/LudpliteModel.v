(* Ludplite — executable model of layers/udplite.go (UDP-Lite header decoder) with the length check of the
   earlier repair.  Definitions only.  /repo/layers/udplite.go: decodeUDPLite :29-46, TransportFlow :48-50.
   No DecodeFromBytes (C05 n/a), no SerializeTo (C06/C07 n/a). *)
From GP Require Import Base Codec MiscLib.
Open Scope Z_scope.
Record udplite := mkUl { ul_contents : list Z; ul_payload : list Z; ul_sport : Z; ul_dport : Z; ul_cov : Z; ul_csum : Z }.
Definition ul_fresh : udplite := mkUl [] [] 0 0 0 0.
Definition ul_decode (data : list Z) : udplite * outcome unit * bool :=
  let n := zlen data in
  if n <? 8 then (ul_fresh, Err 1, true) else                             (* :30-33 *)
  ml_bind (cd_rd16 data 0) ul_fresh false (fun sp =>
  ml_bind (cd_rd16 data 2) ul_fresh false (fun dp =>
  ml_bind (cd_rd16 data 4) ul_fresh false (fun cv =>
  ml_bind (cd_rd16 data 6) ul_fresh false (fun cs =>
  ml_bind (cd_slc data 0 8) ul_fresh false (fun c =>
  ml_bind (cd_slc data 8 n) ul_fresh false (fun p =>
  (mkUl c p sp dp cv cs, Ok tt, false))))))).
Definition ul_next (l : udplite) : Z := 0.   (* LayerTypePayload *)
Definition ul_render_panics (l : udplite) : bool := false.
