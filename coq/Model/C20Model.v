(* C20 — tcpreader.ReaderStream (tcpassembly/tcpreader/reader.go:107-212) as a small-step
   interleaving semantics of two processes over two unbuffered channels.

     assembler : Reassembled(b1); ...; Reassembled(bk); ReassemblyComplete()
     consumer  : a program of Read(n) / Close() / "Read(n) until io.EOF" calls

   Program counters sit exactly at the channel operations (send / receive / close);
   everything between two channel operations of one goroutine touches only fields that
   this goroutine alone uses and is fused into the step that follows the operation.
   Executable definitions only; the proofs are in Proofs/C20Proofs.v. *)
From GP Require Import Base.
Open Scope nat_scope.

(* tcpassembly.Reassembly, the two fields the reader looks at (assembly.go:70-90) *)
Record reasm := mkR { rbytes : list Z; rskip : Z }.
Definition batch := list reasm.

(* Which code is modelled, and how the stream was made.
     close_acks       = true : Close of the repaired tree (acknowledges an outstanding batch)
                      = false: Close as it was (reader.go:203-212 before the fix:)  [close_orig]
     strip_keeps_loss = true : stripEmpty of the repaired tree (an empty slice whose loss is
                               still to be reported is kept)
                      = false: stripEmpty as it was (reader.go:154-159 before the fix)
     loss_errors      : ReaderStreamOptions.LossErrors (reader.go:119-124)
     initiated        : made by NewReaderStream (reader.go:127-135); false = the zero value,
                        whose channels are nil
     ack_nb           = false: the acknowledgement in Close is the blocking send [r.done <- true]
                               of the code
                      = true : a hypothetical non-blocking one, [select { case r.done <- true: default: }]
                               ("Close must never block"); it succeeds only if the assembler is
                               already parked in [<-r.done]  [refuted: C20_nonblocking_ack_refuted] *)
Record config := mkCfg {
  close_acks : bool; strip_keeps_loss : bool; loss_errors : bool; initiated : bool; ack_nb : bool }.

Definition fixed (le : bool) : config := mkCfg true true le true false.
Definition orig (le : bool) : config := mkCfg false false le true false.
Definition close_orig (le : bool) : config := mkCfg false true le true false.
Definition strip_orig (le : bool) : config := mkCfg true false le true false.
Definition nonblocking_ack (le : bool) : config := mkCfg true true le true true.

(* consumer programs *)
Inductive cop :=
| CRead (n : nat)       (* r.Read(p) with len(p) = n *)
| CDrain (m : nat)      (* for { _, err := r.Read(p); if err == io.EOF { break } } with len(p) = m+1 *)
| CClose.               (* r.Close() *)

Inductive rerr := ENil | EEOF | ELost.
Inductive obs :=
| ORead (n : nat) (data : list Z) (e : rerr)   (* a Read(n) returned (len data, e), data copied *)
| OClose.                                      (* a Close returned (nil) *)

Inductive tag :=
| TgPartial | TgEmpty | TgSkip | TgCloseMid | TgCloseHeld | TgCloseFirst | TgCloseEOF
| TgLoss | TgZeroRead | TgReadClosed.

(* consumer program counter.  d = Some m: the Read in progress belongs to a CDrain m loop *)
Inductive cpc :=
| CIdle                                      (* between calls *)
| CReadSend (n : nat) (d : option nat)       (* Read, at  r.done <- true         (reader.go:179) *)
| CReadRecv (n : nat) (d : option nat)       (* Read, at  <-r.reassembled        (reader.go:181) *)
| CCloseAck                                  (* Close (repaired), at r.done <- true for the batch held *)
| CCloseRecv                                 (* Close, at <-r.reassembled        (reader.go:207) *)
| CCloseSend                                 (* Close, at r.done <- true         (reader.go:210) *)
| CPanic.

(* assembler program counter *)
Inductive apc :=
| ASend (b : batch) (rest : list batch)      (* Reassembled, at r.reassembled <- b  (reader.go:142) *)
| ASent (rest : list batch)                  (* Reassembled, the send has completed; about to execute
                                                <-r.done but not yet parked in it *)
| AWait (rest : list batch)                  (* Reassembled, parked in <-r.done      (reader.go:143) *)
| AClose1                                    (* ReassemblyComplete, at close(r.reassembled) (148) *)
| AClose2                                    (*                     at close(r.done)        (149) *)
| ADone
| APanic.

(* consumer-side state: the ReaderStream fields only the consumer touches + its control *)
Record cstate := mkC {
  cur : batch;          (* r.current *)
  closed : bool;        (* r.closed *)
  lrep : bool;          (* r.lossReported *)
  first : bool;         (* r.first *)
  pc : cpc;
  ops : list cop;       (* calls still to make *)
  out : list obs;       (* what the calls returned, latest first *)
  tags : list tag }.    (* branch tags (ghost, for the evidence count) *)

Record st := mkS {
  cs : cstate;
  ap : apc;
  rc : bool;            (* r.reassembled is closed *)
  dc : bool }.          (* r.done is closed *)

Definition isnil {A} (l : list A) : bool := match l with [] => true | _ => false end.
Definition addtag (b : bool) (t : tag) (l : list tag) : list tag := if b then t :: l else l.

Definition set_pc (c : cstate) (p : cpc) : cstate :=
  mkC (cur c) (closed c) (lrep c) (first c) p (ops c) (out c) (tags c).
Definition set_ops (c : cstate) (o : list cop) : cstate :=
  mkC (cur c) (closed c) (lrep c) (first c) (pc c) o (out c) (tags c).

(* stripEmpty, reader.go:154-159 (+ the guard of the repaired tree) *)
Fixpoint strip (g : config) (lr : bool) (c : batch) : batch * bool :=
  match c with
  | [] => ([], lr)
  | e :: t =>
    match rbytes e with
    | [] => if strip_keeps_loss g && loss_errors g && negb lr && negb (rskip e =? 0)%Z
            then (c, lr)
            else strip g false t
    | _ :: _ => (c, lr)
    end
  end.

Definition c_strip (g : config) (c : cstate) : cstate :=
  let r := strip g (lrep c) (cur c) in
  mkC (fst r) (closed c) (snd r) (first c) (pc c) (ops c) (out c)
      (addtag (length (fst r) <? length (cur c)) TgEmpty (tags c)).

Definition requeue (d : option nat) (o : list cop) : list cop :=
  match d with Some m => CDrain m :: o | None => o end.

(* reader.go:187-197 — after the loop *)
Definition c_finish (g : config) (c : cstate) (n : nat) (d : option nat) : cstate :=
  match cur c with
  | e :: t =>
    if loss_errors g && negb (lrep c) && negb (rskip e =? 0)%Z then
      mkC (cur c) (closed c) true (first c) CIdle (requeue d (ops c))
          (ORead n [] ELost :: out c) (TgLoss :: tags c)
    else
      mkC (mkR (skipn n (rbytes e)) (rskip e) :: t) (closed c) (lrep c) (first c) CIdle
          (requeue d (ops c))
          (ORead n (firstn n (rbytes e)) ENil :: out c)
          (addtag (n <? length (rbytes e)) TgPartial (tags c))
  | [] =>
    mkC [] (closed c) (lrep c) (first c) CIdle (ops c) (ORead n [] EEOF :: out c) (tags c)
  end.

(* reader.go:175-186 — the loop head, up to the next channel operation *)
Definition c_loop (g : config) (c : cstate) (n : nat) (d : option nat) : cstate :=
  if negb (closed c) && isnil (cur c) then
    if first c then
      mkC (cur c) (closed c) (lrep c) false (CReadRecv n d) (ops c) (out c) (tags c)
    else set_pc c (CReadSend n d)
  else c_finish g c n d.

(* reader.go:169-174 *)
Definition read_begin (g : config) (c : cstate) (n : nat) (d : option nat) : cstate :=
  if initiated g then
    let c1 := mkC (cur c) (closed c) (lrep c) (first c) (pc c) (ops c) (out c)
                  (addtag (closed c) TgReadClosed (addtag (n =? 0) TgZeroRead (tags c))) in
    c_loop g (c_strip g c1) n d
  else set_pc c CPanic.

Definition has_skip (b : batch) : bool := existsb (fun e => negb (rskip e =? 0)%Z) b.
Definition has_bytes (b : batch) : bool := existsb (fun e => negb (isnil (rbytes e))) b.

(* reader.go:181-182: a batch was received *)
Definition read_recv_ok (g : config) (c : cstate) (b : batch) (n : nat) (d : option nat) : cstate :=
  let c1 := mkC b (closed c) (lrep c) (first c) (pc c) (ops c) (out c)
                (addtag (has_skip b) TgSkip (addtag (isnil b) TgEmpty (tags c))) in
  c_loop g (c_strip g c1) n d.

(* reader.go:181,183-185: the channel is closed *)
Definition read_recv_closed (g : config) (c : cstate) (n : nat) (d : option nat) : cstate :=
  c_loop g (mkC [] true (lrep c) (first c) (pc c) (ops c) (out c) (tags c)) n d.

(* reader.go:203-206 (and the acknowledgement of the repaired tree) *)
Definition close_begin (g : config) (c : cstate) : cstate :=
  let tg := if first c then TgCloseFirst
            else if closed c then TgCloseEOF
            else if has_bytes (cur c) then TgCloseMid else TgCloseHeld in
  if close_acks g && negb (first c) && negb (closed c) then
    mkC [] (closed c) (lrep c) (first c) CCloseAck (ops c) (out c) (tg :: tags c)
  else
    mkC [] true (lrep c) (first c) CCloseRecv (ops c) (out c) (tg :: tags c).

Definition close_acked (c : cstate) : cstate :=
  mkC (cur c) true (lrep c) (first c) CCloseRecv (ops c) (out c) (tags c).

Definition close_recv_ok (c : cstate) (b : batch) : cstate :=
  mkC (cur c) (closed c) (lrep c) (first c) CCloseSend (ops c) (out c)
      (addtag (has_skip b) TgSkip (tags c)).

Definition close_return (c : cstate) : cstate :=
  mkC (cur c) (closed c) (lrep c) (first c) CIdle (ops c) (OClose :: out c) (tags c).

(* the next Reassembled call / ReassemblyComplete (reader.go:138-141, 147) *)
Definition a_next (g : config) (rest : list batch) : apc :=
  match rest with
  | [] => AClose1
  | b :: r => if initiated g then ASend b r else APanic
  end.

Definition is_parked (a : apc) : bool := match a with AWait _ => true | _ => false end.

(* steps of the consumer alone: the start of a call, a receive from a closed channel
   (returns at once), a send on a closed channel (panics); [parked]: the assembler is parked in
   <-r.done (only a non-blocking send looks at that) *)
Definition tau_c (g : config) (rcl dcl parked : bool) (c : cstate) : option cstate :=
  match pc c with
  | CIdle =>
    match ops c with
    | [] => None
    | CRead n :: r => Some (read_begin g (set_ops c r) n None)
    | CDrain m :: r => Some (read_begin g (set_ops c r) (S m) (Some m))
    | CClose :: r => Some (close_begin g (set_ops c r))
    end
  | CReadRecv n d => if rcl then Some (read_recv_closed g c n d) else None
  | CCloseRecv => if rcl then Some (close_return c) else None
  | CReadSend _ _ | CCloseSend => if dcl then Some (set_pc c CPanic) else None
  | CCloseAck =>
    if dcl then Some (set_pc c CPanic)
    else if ack_nb g && negb parked then Some (close_acked c)   (* select ... default: nobody is receiving *)
    else None
  | CPanic => None
  end.

(* rendezvous: a sender and a receiver on the same open channel move together *)
Definition sync (g : config) (rcl dcl : bool) (c : cstate) (a : apc) : option (cstate * apc) :=
  match pc c, a with
  | CReadSend n d, AWait rest => if dcl then None else Some (set_pc c (CReadRecv n d), a_next g rest)
  | CCloseAck, AWait rest => if dcl then None else Some (close_acked c, a_next g rest)
  | CCloseSend, AWait rest => if dcl then None else Some (set_pc c CCloseRecv, a_next g rest)
  | CReadRecv n d, ASend b rest => if rcl then None else Some (read_recv_ok g c b n d, ASent rest)
  | CCloseRecv, ASend b rest => if rcl then None else Some (close_recv_ok c b, ASent rest)
  | _, _ => None
  end.

(* steps of the assembler alone: parking in <-r.done after its send has completed; the two
   close() of ReassemblyComplete (close of a nil or closed channel panics) *)
Definition tau_a (g : config) (a : apc) (rcl dcl : bool) : option (apc * bool * bool) :=
  match a with
  | ASent rest => Some (AWait rest, rcl, dcl)
  | AClose1 => if negb (initiated g) || rcl then Some (APanic, rcl, dcl) else Some (AClose2, true, dcl)
  | AClose2 => if negb (initiated g) || dcl then Some (APanic, rcl, dcl) else Some (ADone, rcl, true)
  | _ => None
  end.

Definition do_sync (g : config) (s : st) : option st :=
  match sync g (rc s) (dc s) (cs s) (ap s) with
  | Some (c', a') => Some (mkS c' a' (rc s) (dc s))
  | None => None
  end.
Definition do_tau_c (g : config) (s : st) : option st :=
  match tau_c g (rc s) (dc s) (is_parked (ap s)) (cs s) with
  | Some c' => Some (mkS c' (ap s) (rc s) (dc s))
  | None => None
  end.
Definition do_tau_a (g : config) (s : st) : option st :=
  match tau_a g (ap s) (rc s) (dc s) with
  | Some (a', r', d') => Some (mkS (cs s) a' r' d')
  | None => None
  end.

(* the transition relation: any enabled step, chosen by the scheduler *)
Definition step (g : config) (s s' : st) : Prop :=
  do_sync g s = Some s' \/ do_tau_c g s = Some s' \/ do_tau_a g s = Some s'.

Definition orelse {A} (a b : option A) : option A := match a with Some x => Some x | None => b end.

(* one step under a scheduler decision (true: prefer the assembler) *)
Definition next_sched (g : config) (pa : bool) (s : st) : option st :=
  orelse (do_sync g s)
         (if pa then orelse (do_tau_a g s) (do_tau_c g s) else orelse (do_tau_c g s) (do_tau_a g s)).
Definition next (g : config) (s : st) : option st := next_sched g false s.

Definition init (g : config) (hist : list batch) (prog : list cop) : st :=
  mkS (mkC [] false false (initiated g) CIdle prog [] []) (a_next g hist) false false.

(* ---- termination measure (proved to decrease at every step; also the fuel of [run]) *)
Definition e_w (e : reasm) : nat := 4 * length (rbytes e) + 5.
Definition b_w (b : batch) : nat := fold_right (fun e acc => e_w e + acc) 0 b.
Definition bs_w (l : list batch) : nat := fold_right (fun b acc => b_w b + acc) 0 l.

Definition a_w (a : apc) : nat :=
  match a with
  | ASend b rest => 5 * length rest + 7 + b_w b + bs_w rest
  | ASent rest => 5 * length rest + 4 + bs_w rest
  | AWait rest => 5 * length rest + 3 + bs_w rest
  | AClose1 => 2 | AClose2 => 1 | ADone => 0 | APanic => 0
  end.
Definition pc_w (p : cpc) : nat :=
  match p with
  | CIdle => 0 | CReadSend _ d => 2 + (if d then 1 else 0) | CReadRecv _ d => 1 + (if d then 1 else 0)
  | CCloseAck => 6 | CCloseRecv => 4 | CCloseSend => 5 | CPanic => 0
  end.
Definition op_w (o : cop) : nat := match o with CDrain _ => 1 | _ => 7 end.
Definition ops_w (l : list cop) : nat := fold_right (fun o acc => op_w o + acc) 0 l.
Definition idle_w (g : config) (c : cstate) : nat :=
  match pc c with
  | CIdle => if negb (closed c) && isnil (fst (strip g (lrep c) (cur c))) then 3 else 0
  | _ => 0
  end.
Definition c_w (g : config) (c : cstate) : nat :=
  pc_w (pc c) + ops_w (ops c) + idle_w g c + b_w (cur c) + (if lrep c then 0 else 4).
Definition mu (g : config) (s : st) : nat := c_w g (cs s) + a_w (ap s).

Fixpoint run_sched (g : config) (sched : nat -> bool) (fuel : nat) (k : nat) (s : st) : st * bool :=
  match next_sched g (sched k) s with
  | None => (s, true)                       (* no step enabled: finished or stuck *)
  | Some s' => match fuel with
               | O => (s, false)            (* out of fuel: excluded by mu_decreases *)
               | S f => run_sched g sched f (S k) s'
               end
  end.
Definition run (g : config) (fuel : nat) (s : st) : st * bool := run_sched g (fun _ => false) fuel 0 s.

(* ---- what the correspondence compares *)
Inductive status := SDone | SStuck | SPanic.
Definition a_status (a : apc) : status :=
  match a with ADone => SDone | APanic => SPanic | _ => SStuck end.
Definition c_status (c : cstate) : status :=
  match pc c with
  | CIdle => match ops c with [] => SDone | _ => SStuck end
  | CPanic => SPanic
  | _ => SStuck
  end.
(* number of Reassembled calls that have returned *)
Definition a_returned (g : config) (total : nat) (a : apc) : nat :=
  match a with
  | ASend _ rest | ASent rest | AWait rest => total - S (length rest)
  | APanic => if initiated g then total else 0
  | _ => total
  end.

Definition terminal (s : st) : Prop := ap s = ADone /\ pc (cs s) = CIdle /\ ops (cs s) = [].
Definition terminalb (s : st) : bool :=
  match ap s, pc (cs s), ops (cs s) with ADone, CIdle, [] => true | _, _, _ => false end.

Record result := mkRes {
  r_obs : list obs; r_asm : status; r_cons : status; r_ret : nat; r_tags : list tag; r_fuel_ok : bool }.

Definition run_case (g : config) (hist : list batch) (prog : list cop) : result :=
  let s0 := init g hist prog in
  let r := run g (mu g s0) s0 in
  let s := fst r in
  mkRes (rev (out (cs s))) (a_status (ap s)) (c_status (cs s))
        (a_returned g (length hist) (ap s)) (rev (tags (cs s))) (snd r).

(* same, under an arbitrary schedule (used to cross-check schedule independence by execution) *)
Definition run_case_sched (g : config) (sched : nat -> bool) (hist : list batch) (prog : list cop) : result :=
  let s0 := init g hist prog in
  let r := run_sched g sched (mu g s0) 0 s0 in
  let s := fst r in
  mkRes (rev (out (cs s))) (a_status (ap s)) (c_status (cs s))
        (a_returned g (length hist) (ap s)) (rev (tags (cs s))) (snd r).
