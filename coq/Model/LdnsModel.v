(* Ldns — executable model of gopacket's DNS layer (layers/dns.go of the REPAIRED tree: the two
   `fix:` commits on dns.go — A/AAAA address check in DNSResourceRecord.encode and the RCODE mask in
   DNS.SerializeTo; the unchanged code is kept in the *_orig definitions).  No proofs in this file.

   Modelled (dns.go line ranges in the comments): DNS.DecodeFromBytes 333-421, decodeName 814-920
   with collectDNSWireLabels 497-511 and dnsLabelNeedsPreservation 485-492, DNSQuestion.decode
   933-952, DNSResourceRecord.decode 1056-1087, decodeRData 1350-1529 with decodeCharacterStrings
   1267-1278, decodeOPTs 1280-1307, decodeSVCB 1309-1348, DNSRRSIG.decode 1726-1748, DNSKEY.decode
   1815-1824; DNS.SerializeTo 728-810, computeSize/recSize/dnsNameSize 636-724,
   encodeDNSPresentationName 522-613, dnsNameLabelsSize 615-627, encodeDNSNameLabels 1089-1106,
   DNSQuestion.encode 954-963, DNSResourceRecord.encode 1118-1235 and the encode/size methods of
   SVCB, RRSIG, DNSKEY.

   Conventions.  Byte slices are `list Z` (nil and empty are not distinguished: no modelled code
   tests a byte slice against nil); `dnsNameLabels` is `option (list (list Z))` because the code DOES
   test it against nil (None = nil).  Every index/slice of `data` is a checked operation (Panic).

   The shared name buffer (DNS.buffer, dns.go:313,334).  DecodeFromBytes truncates it to [:0] and
   decodeName appends to it; every decoded name is the slice buffer[start+1:] taken when
   decodeName returns.  The model threads the buffer CONTENT through the decode and stores names
   as values.  That is exact because (a) within one decode the buffer is only appended to, so a
   slice taken earlier keeps its bytes whether or not a later append reallocates, and (b) across
   decodes every name slice reachable from the receiver is dropped (`d.Questions[:0]` ... 358-361
   and the zero record appended at 386/393/400) before the first append of the next decode — except
   when len(data) < 12, where nothing is appended at all.  The old content of the buffer beyond
   len 0 is capacity that append overwrites and nothing reads: decode_into does not take it. *)
From GP Require Import Base N6Lib.
Open Scope Z_scope.

Definition dres (T : Type) : Type := (T * outcome unit * bool)%type.

Notation "'do' x <- e ; f" := (obind e (fun x => f)) (at level 200, x pattern, e at level 100, f at level 200).

(* error classes (the text is never compared) *)
Definition E_SHORT := 1.
Definition E_NAME := 2.
Definition E_REC := 3.
Definition E_RDATA := 4.
Definition E_COUNT := 5.
Definition E_ENC := 6.
Definition E_UNSUPPORTED := 7.

Definition opt_out {A} (o : option A) (site : Z) : outcome A :=
  match o with Some v => Ok v | None => Panic site end.

(* checked reads of data *)
Definition rd8 (d : list Z) (i : Z) : outcome Z := opt_out (n6_idx d i) 1.
Definition rdsl (d : list Z) (a b : Z) : outcome (list Z) := opt_out (n6_slice d a b) 2.
(* binary.BigEndian.Uint16(data[i:i+2]) / Uint16(data[i:]) (panics when fewer than 2 bytes) *)
Definition rd16 (d : list Z) (i : Z) : outcome Z := do s <- rdsl d i (i + 2); Ok (be_val s).
Definition rd32 (d : list Z) (i : Z) : outcome Z := do s <- rdsl d i (i + 4); Ok (be_val s).

(* ================================================================ types *)

(* dnsNameLabels (448): None = nil *)
Definition labels := option (list (list Z)).
(* dnsNameMeta 454-457 *)
Record nmeta := mkNmeta { nm_labels : labels; nm_orig : list Z }.
Definition nmeta0 := mkNmeta None [].
(* dnsRecordNameMeta 467-471 *)
Record rmeta := mkRmeta { rm_name : nmeta; rm_rdata : nmeta; rm_rdata2 : nmeta }.
Definition rmeta0 := mkRmeta nmeta0 nmeta0 nmeta0.

(* DNSQuestion 923-931; nameMeta is a pointer (None = nil) *)
Record question := mkQ { q_name : list Z; q_type : Z; q_class : Z; q_meta : option nmeta }.

Record soa := mkSoa { so_mname : list Z; so_rname : list Z;
  so_serial : Z; so_refresh : Z; so_retry : Z; so_expire : Z; so_minimum : Z }.      (* 1533-1536 *)
Record srv := mkSrv { sv_prio : Z; sv_weight : Z; sv_port : Z; sv_name : list Z }.   (* 1540-1543 *)
Record mx := mkMx { mx_pref : Z; mx_name : list Z }.                                 (* 1547-1550 *)
Record naptr := mkNaptr { na_order : Z; na_pref : Z; na_flags : list Z; na_service : list Z;
  na_regexp : list Z; na_repl : list Z }.                                            (* 1554-1561 *)
Record dopt := mkDopt { op_code : Z; op_data : list Z }.                             (* 1914-1917 *)
Record rrsig := mkRrsig { sg_covered : Z; sg_alg : Z; sg_labels : Z; sg_ottl : Z; sg_exp : Z;
  sg_inc : Z; sg_tag : Z; sg_signer : list Z; sg_sig : list Z }.                     (* 1682-1689 *)
Record dnskey := mkDnskey { dk_flags : Z; dk_proto : Z; dk_alg : Z; dk_key : list Z }. (* 1789-1794 *)
Record svcparam := mkSvcparam { sp_key : Z; sp_value : list Z }.                     (* 1657-1660 *)
Record svcb := mkSvcb { sb_prio : Z; sb_target : list Z; sb_params : list svcparam }. (* 1566-1570 *)
Record uri := mkUri { u_prio : Z; u_weight : Z; u_target : list Z }.                 (* 1852-1855 *)

(* DNSResourceRecord 988-1019; names is a pointer (None = nil) *)
Record rr := mkRR {
  r_name : list Z; r_type : Z; r_class : Z; r_ttl : Z;
  r_dlen : Z; r_data : list Z;
  r_ip : list Z; r_ns : list Z; r_cname : list Z; r_ptr : list Z;
  r_txts : list (list Z);
  r_soa : soa; r_srv : srv; r_mx : mx; r_naptr : naptr; r_opt : list dopt;
  r_rrsig : rrsig; r_dnskey : dnskey; r_svcb : svcb; r_uri : uri;
  r_txt : list Z;
  r_names : option rmeta }.

Definition soa0 := mkSoa [] [] 0 0 0 0 0.
Definition srv0 := mkSrv 0 0 0 [].
Definition mx0 := mkMx 0 [].
Definition naptr0 := mkNaptr 0 0 [] [] [] [].
Definition rrsig0 := mkRrsig 0 0 0 0 0 0 0 [] [].
Definition dnskey0 := mkDnskey 0 0 0 [].
Definition svcb0 := mkSvcb 0 [] [].
Definition uri0 := mkUri 0 0 [].
Definition rr0 : rr := mkRR [] 0 0 0 0 [] [] [] [] [] [] soa0 srv0 mx0 naptr0 [] rrsig0 dnskey0 svcb0 uri0 [] None.

(* field updates (one constructor application each; used by decodeRData) *)
Definition rr_set_ip (r : rr) v := mkRR (r_name r) (r_type r) (r_class r) (r_ttl r) (r_dlen r) (r_data r)
  v (r_ns r) (r_cname r) (r_ptr r) (r_txts r) (r_soa r) (r_srv r) (r_mx r) (r_naptr r) (r_opt r)
  (r_rrsig r) (r_dnskey r) (r_svcb r) (r_uri r) (r_txt r) (r_names r).
Definition rr_set_ns (r : rr) v := mkRR (r_name r) (r_type r) (r_class r) (r_ttl r) (r_dlen r) (r_data r)
  (r_ip r) v (r_cname r) (r_ptr r) (r_txts r) (r_soa r) (r_srv r) (r_mx r) (r_naptr r) (r_opt r)
  (r_rrsig r) (r_dnskey r) (r_svcb r) (r_uri r) (r_txt r) (r_names r).
Definition rr_set_cname (r : rr) v := mkRR (r_name r) (r_type r) (r_class r) (r_ttl r) (r_dlen r) (r_data r)
  (r_ip r) (r_ns r) v (r_ptr r) (r_txts r) (r_soa r) (r_srv r) (r_mx r) (r_naptr r) (r_opt r)
  (r_rrsig r) (r_dnskey r) (r_svcb r) (r_uri r) (r_txt r) (r_names r).
Definition rr_set_ptr (r : rr) v := mkRR (r_name r) (r_type r) (r_class r) (r_ttl r) (r_dlen r) (r_data r)
  (r_ip r) (r_ns r) (r_cname r) v (r_txts r) (r_soa r) (r_srv r) (r_mx r) (r_naptr r) (r_opt r)
  (r_rrsig r) (r_dnskey r) (r_svcb r) (r_uri r) (r_txt r) (r_names r).
Definition rr_set_txts (r : rr) v := mkRR (r_name r) (r_type r) (r_class r) (r_ttl r) (r_dlen r) (r_data r)
  (r_ip r) (r_ns r) (r_cname r) (r_ptr r) v (r_soa r) (r_srv r) (r_mx r) (r_naptr r) (r_opt r)
  (r_rrsig r) (r_dnskey r) (r_svcb r) (r_uri r) (r_txt r) (r_names r).
Definition rr_set_soa (r : rr) v := mkRR (r_name r) (r_type r) (r_class r) (r_ttl r) (r_dlen r) (r_data r)
  (r_ip r) (r_ns r) (r_cname r) (r_ptr r) (r_txts r) v (r_srv r) (r_mx r) (r_naptr r) (r_opt r)
  (r_rrsig r) (r_dnskey r) (r_svcb r) (r_uri r) (r_txt r) (r_names r).
Definition rr_set_srv (r : rr) v := mkRR (r_name r) (r_type r) (r_class r) (r_ttl r) (r_dlen r) (r_data r)
  (r_ip r) (r_ns r) (r_cname r) (r_ptr r) (r_txts r) (r_soa r) v (r_mx r) (r_naptr r) (r_opt r)
  (r_rrsig r) (r_dnskey r) (r_svcb r) (r_uri r) (r_txt r) (r_names r).
Definition rr_set_mx (r : rr) v := mkRR (r_name r) (r_type r) (r_class r) (r_ttl r) (r_dlen r) (r_data r)
  (r_ip r) (r_ns r) (r_cname r) (r_ptr r) (r_txts r) (r_soa r) (r_srv r) v (r_naptr r) (r_opt r)
  (r_rrsig r) (r_dnskey r) (r_svcb r) (r_uri r) (r_txt r) (r_names r).
Definition rr_set_naptr (r : rr) v := mkRR (r_name r) (r_type r) (r_class r) (r_ttl r) (r_dlen r) (r_data r)
  (r_ip r) (r_ns r) (r_cname r) (r_ptr r) (r_txts r) (r_soa r) (r_srv r) (r_mx r) v (r_opt r)
  (r_rrsig r) (r_dnskey r) (r_svcb r) (r_uri r) (r_txt r) (r_names r).
Definition rr_set_opt (r : rr) v := mkRR (r_name r) (r_type r) (r_class r) (r_ttl r) (r_dlen r) (r_data r)
  (r_ip r) (r_ns r) (r_cname r) (r_ptr r) (r_txts r) (r_soa r) (r_srv r) (r_mx r) (r_naptr r) v
  (r_rrsig r) (r_dnskey r) (r_svcb r) (r_uri r) (r_txt r) (r_names r).
Definition rr_set_rrsig (r : rr) v := mkRR (r_name r) (r_type r) (r_class r) (r_ttl r) (r_dlen r) (r_data r)
  (r_ip r) (r_ns r) (r_cname r) (r_ptr r) (r_txts r) (r_soa r) (r_srv r) (r_mx r) (r_naptr r) (r_opt r)
  v (r_dnskey r) (r_svcb r) (r_uri r) (r_txt r) (r_names r).
Definition rr_set_dnskey (r : rr) v := mkRR (r_name r) (r_type r) (r_class r) (r_ttl r) (r_dlen r) (r_data r)
  (r_ip r) (r_ns r) (r_cname r) (r_ptr r) (r_txts r) (r_soa r) (r_srv r) (r_mx r) (r_naptr r) (r_opt r)
  (r_rrsig r) v (r_svcb r) (r_uri r) (r_txt r) (r_names r).
Definition rr_set_svcb (r : rr) v := mkRR (r_name r) (r_type r) (r_class r) (r_ttl r) (r_dlen r) (r_data r)
  (r_ip r) (r_ns r) (r_cname r) (r_ptr r) (r_txts r) (r_soa r) (r_srv r) (r_mx r) (r_naptr r) (r_opt r)
  (r_rrsig r) (r_dnskey r) v (r_uri r) (r_txt r) (r_names r).
Definition rr_set_uri (r : rr) v := mkRR (r_name r) (r_type r) (r_class r) (r_ttl r) (r_dlen r) (r_data r)
  (r_ip r) (r_ns r) (r_cname r) (r_ptr r) (r_txts r) (r_soa r) (r_srv r) (r_mx r) (r_naptr r) (r_opt r)
  (r_rrsig r) (r_dnskey r) (r_svcb r) v (r_txt r) (r_names r).
Definition rr_set_txt (r : rr) v := mkRR (r_name r) (r_type r) (r_class r) (r_ttl r) (r_dlen r) (r_data r)
  (r_ip r) (r_ns r) (r_cname r) (r_ptr r) (r_txts r) (r_soa r) (r_srv r) (r_mx r) (r_naptr r) (r_opt r)
  (r_rrsig r) (r_dnskey r) (r_svcb r) (r_uri r) v (r_names r).
Definition rr_set_names (r : rr) v := mkRR (r_name r) (r_type r) (r_class r) (r_ttl r) (r_dlen r) (r_data r)
  (r_ip r) (r_ns r) (r_cname r) (r_ptr r) (r_txts r) (r_soa r) (r_srv r) (r_mx r) (r_naptr r) (r_opt r)
  (r_rrsig r) (r_dnskey r) (r_svcb r) (r_uri r) (r_txt r) v.
Definition rr_set_dlen (r : rr) v := mkRR (r_name r) (r_type r) (r_class r) (r_ttl r) v (r_data r)
  (r_ip r) (r_ns r) (r_cname r) (r_ptr r) (r_txts r) (r_soa r) (r_srv r) (r_mx r) (r_naptr r) (r_opt r)
  (r_rrsig r) (r_dnskey r) (r_svcb r) (r_uri r) (r_txt r) (r_names r).

(* ensureNameMeta 1023-1028 then the assignment of one of its three fields; labels == nil: no-op *)
Definition rr_ensure (r : rr) : rmeta := match r_names r with Some m => m | None => rmeta0 end.
Definition new_meta (name : list Z) (ls : list (list Z)) : nmeta := mkNmeta (Some ls) name.   (* 475-477 *)
Definition rr_meta_name (r : rr) (name : list Z) (l : labels) : rr :=
  match l with None => r | Some ls =>
    let m := rr_ensure r in rr_set_names r (Some (mkRmeta (new_meta name ls) (rm_rdata m) (rm_rdata2 m))) end.
Definition rr_meta_rdata (r : rr) (name : list Z) (l : labels) : rr :=
  match l with None => r | Some ls =>
    let m := rr_ensure r in rr_set_names r (Some (mkRmeta (rm_name m) (new_meta name ls) (rm_rdata2 m))) end.
Definition rr_meta_rdata2 (r : rr) (name : list Z) (l : labels) : rr :=
  match l with None => r | Some ls =>
    let m := rr_ensure r in rr_set_names r (Some (mkRmeta (rm_name m) (rm_rdata m) (new_meta name ls))) end.

(* ownerMeta / rdataMeta / rdata2Meta 1034-1053: nil when rr.names is nil *)
Definition owner_meta (r : rr) : option nmeta := option_map rm_name (r_names r).
Definition rdata_meta (r : rr) : option nmeta := option_map rm_rdata (r_names r).
Definition rdata2_meta (r : rr) : option nmeta := option_map rm_rdata2 (r_names r).

(* DNS 284-314 (BaseLayer = contents, payload; the buffer: see the header comment) *)
Record dns := mkDns {
  d_id : Z; d_qr : bool; d_opcode : Z; d_aa : bool; d_tc : bool; d_rd : bool; d_ra : bool; d_z : Z;
  d_rcode : Z; d_qdcount : Z; d_ancount : Z; d_nscount : Z; d_arcount : Z;
  d_questions : list question; d_answers : list rr; d_authorities : list rr; d_additionals : list rr;
  d_contents : list Z; d_payload : list Z }.

Definition dns_fresh : dns := mkDns 0 false 0 false false false false 0 0 0 0 0 0 [] [] [] [] [] [].

(* ================================================================ decodeName *)

(* dnsLabelNeedsPreservation 485-492: '.' = 46, '\' = 92 *)
Definition needs_pres (label : list Z) : bool := existsb (fun b => (b =? 46) || (b =? 92)) label.

(* Go's append(a, b...) on a possibly nil slice: nil stays nil when nothing is appended *)
Definition go_append (a : labels) (b : list (list Z)) : labels :=
  match a with
  | None => match b with [] => None | _ => Some b end
  | Some l => Some (l ++ b)
  end.

(* collectDNSWireLabels 497-511.  Every iteration advances offset by at least 1 and needs
   offset < len(data): fuel len(data)+1 is never exhausted (None = out of fuel). *)
Fixpoint collect_loop (data : list Z) (fuel : nat) (off end_ : Z) (acc : labels) : option labels :=
  match fuel with
  | O => None
  | S f =>
      if off <? end_ then
        match n6_idx data off with
        | None => Some acc                                  (* offset >= len(data) *)
        | Some b =>
            if negb (Z.land b 192 =? 0) then Some acc
            else
              let next := off + b + 1 in
              if (next >? end_) || (next >? n6_len data) then Some acc
              else match n6_slice data (off + 1) next with
                   | Some l => collect_loop data f next end_ (go_append acc [l])
                   | None => None                           (* not reachable: bounds just checked *)
                   end
        end
      else Some acc
  end.
Definition collect (data : list Z) (off end_ : Z) : option labels :=
  collect_loop data (S (length data)) off end_ None.

(* bytes.Split(s, []byte{'.'}) *)
Fixpoint split46 (s : list Z) (cur : list Z) : list (list Z) :=
  match s with
  | [] => [cur]
  | c :: t => if c =? 46 then cur :: split46 t [] else split46 t (cur ++ [c])
  end.

(* result of decodeName: name, labels, index after the name, the buffer afterwards *)
Inductive nres :=
| NOk (name : list Z) (l : labels) (next : Z) (buf : list Z)
| NErr (c : Z)
| NPanic (s : Z).

(* the return statements 916-919 *)
Definition dn_finish (start index : Z) (buf : list Z) (l : labels) : nres :=
  if n6_len buf <=? start then NOk (skipn (Z.to_nat start) buf) l (index + 1) buf
  else NOk (skipn (Z.to_nat (start + 1)) buf) l (index + 1) buf.

Section DecodeName.
  Variable data : list Z.
  Variable rec : Z -> list Z -> nres.      (* decodeName(data, offsetp, buffer, level+1) *)

  (* the loop 829-915 (the test of 825 is its first iteration: same value).  index increases by
     at least 2 per label and stays below len(data): fuel len(data)+1 is never exhausted. *)
  Fixpoint dn_loop (fuel : nat) (offset start index : Z) (buf : list Z) (l : labels) : nres :=
    match fuel with
    | O => NPanic N6_FUEL
    | S f =>
        match n6_idx data index with
        | None => NPanic 3
        | Some b =>
            if b =? 0 then dn_finish start index buf l
            else
              let top := Z.land b 192 in
              if top =? 192 then
                (* 856-902 compression pointer *)
                if index + 2 >? n6_len data then NErr E_NAME
                else
                  match n6_slice data index (index + 2) with
                  | None => NPanic 4
                  | Some s =>
                      let offsetp := Z.land (be_val s) 16383 in
                      if offsetp >? n6_len data then NErr E_NAME
                      else
                        match rec offsetp buf with
                        | NOk pname pl _ buf' =>
                            match pl with
                            | Some pls =>
                                match (match l with None => collect data offset index | Some _ => Some l end) with
                                | None => NPanic N6_FUEL
                                | Some l0 => dn_finish start (index + 1) buf' (go_append l0 pls)
                                end
                            | None =>
                                match l with
                                | Some ls =>
                                    if 0 <? n6_len pname
                                    then dn_finish start (index + 1) buf' (Some (ls ++ split46 pname []))
                                    else dn_finish start (index + 1) buf' l
                                | None => dn_finish start (index + 1) buf' None
                                end
                            end
                        | e => e
                        end
                  end
              else if top =? 64 then NErr E_NAME
              else if top =? 128 then NErr E_NAME
              else
                (* 831-854 a label *)
                let index2 := index + b + 1 in
                if index2 - offset >? 255 then NErr E_NAME
                else if (index2 <? index + 1) || (index2 >? n6_len data) then NErr E_NAME
                else
                  match n6_slice data (index + 1) index2 with
                  | None => NPanic 5
                  | Some label =>
                      let buf' := buf ++ 46 :: label in
                      match (match l with
                             | Some ls => Some (Some (ls ++ [label]))
                             | None => if needs_pres label then collect data offset index2 else Some None
                             end) with
                      | None => NPanic N6_FUEL
                      | Some l' =>
                          if index2 >=? n6_len data then NErr E_NAME            (* 912-914 *)
                          else dn_loop f offset start index2 buf' l'
                      end
                  end
        end
    end.
End DecodeName.

(* decodeName 814-920.  lf = maxRecursionLevel + 1 - level: the first call has level 1, the call
   with level 256 returns errMaxRecursion, so lf = 255 at the top and 0 = too deep. *)
Fixpoint decode_name_lv (lf : nat) (data : list Z) (offset : Z) (buf : list Z) : nres :=
  match lf with
  | O => NErr E_NAME
  | S lf' =>
      if offset >=? n6_len data then NErr E_NAME
      else if offset <? 0 then NErr E_NAME
      else dn_loop data (decode_name_lv lf' data) (S (length data)) offset (n6_len buf) offset buf None
  end.

Definition decode_name (data : list Z) (offset : Z) (buf : list Z) : nres :=
  decode_name_lv 255 data offset buf.

(* ================================================================ questions and records *)

Definition q_meta_of (name : list Z) (l : labels) : option nmeta :=
  match l with None => None | Some ls => Some (new_meta name ls) end.

(* DNSQuestion.decode 933-952 *)
Definition q_decode (data : list Z) (offset : Z) (buf : list Z) : outcome (question * Z * list Z) :=
  match decode_name data offset buf with
  | NErr e => Err e
  | NPanic s => Panic s
  | NOk name l endq buf' =>
      if n6_len data <? endq + 4 then Err E_REC
      else
        do t <- rd16 data endq;
        do c <- rd16 data (endq + 2);
        Ok (mkQ name t c (q_meta_of name l), endq + 4, buf')
  end.

(* decodeCharacterStrings 1267-1278; fuel: index grows by at least 1 and stays <= end *)
Fixpoint cs_loop (data : list Z) (fuel : nat) (index : Z) (acc : list (list Z)) : outcome (list (list Z)) :=
  match fuel with
  | O => Panic N6_FUEL
  | S f =>
      if index =? n6_len data then Ok acc
      else
        do b <- rd8 data index;
        let index2 := index + 1 + b in
        if index2 >? n6_len data then Err E_RDATA
        else do s <- rdsl data (index + 1) index2; cs_loop data f index2 (acc ++ [s])
  end.
Definition char_strings (data : list Z) : outcome (list (list Z)) := cs_loop data (S (length data)) 0 [].

(* a name inside RDATA: decodeName and the three-way result *)
Definition rd_name (data : list Z) (offset : Z) (buf : list Z) : outcome (list Z * labels * Z * list Z) :=
  match decode_name data offset buf with
  | NErr e => Err e
  | NPanic s => Panic s
  | NOk name l next buf' => Ok (name, l, next, buf')
  end.

Definition T_A := 1.      Definition T_NS := 2.     Definition T_CNAME := 5.  Definition T_SOA := 6.
Definition T_PTR := 12.   Definition T_HINFO := 13. Definition T_MX := 15.    Definition T_TXT := 16.
Definition T_AAAA := 28.  Definition T_SRV := 33.   Definition T_NAPTR := 35. Definition T_OPT := 41.
Definition T_RRSIG := 46. Definition T_DNSKEY := 48. Definition T_SVCB := 64. Definition T_HTTPS := 65.
Definition T_URI := 256.

(* decodeOPTs 1280-1307, the loop 1292-1305: i grows by at least 4 *)
Fixpoint opts_loop (data : list Z) (fuel : nat) (i : Z) (acc : list dopt) : outcome (list dopt) :=
  match fuel with
  | O => Panic N6_FUEL
  | S f =>
      if i <? n6_len data then
        if n6_len data <? i + 4 then Err E_RDATA
        else
          do code <- rd16 data i;
          do l <- rd16 data (i + 2);
          if i + 4 + l >? n6_len data then Err E_RDATA
          else do v <- rdsl data (i + 4) (i + 4 + l); opts_loop data f (i + l + 4) (acc ++ [mkDopt code v])
      else Ok acc
  end.
Definition decode_opts (data : list Z) (offset : Z) : outcome (list dopt) :=
  if offset =? n6_len data then Ok []
  else if offset + 4 >? n6_len data then Err E_RDATA
  else opts_loop data (S (length data)) offset [].

(* decodeSVCB 1309-1348, the SvcParams loop 1327-1341: ofs grows by at least 4 *)
Fixpoint svc_loop (data : list Z) (fuel : nat) (ofs : Z) (acc : list svcparam) : outcome (list svcparam) :=
  match fuel with
  | O => Panic N6_FUEL
  | S f =>
      if ofs <? n6_len data then
        if ofs + 4 >? n6_len data then Err E_RDATA
        else
          do key <- rd16 data ofs;
          do l <- rd16 data (ofs + 2);
          if ofs + 4 + l >? n6_len data then Err E_RDATA
          else do v <- rdsl data (ofs + 4) (ofs + 4 + l); svc_loop data f (ofs + 4 + l) (acc ++ [mkSvcparam key v])
      else Ok acc
  end.

(* one <character-string> of a NAPTR record 1457-1489: (string, offset after it) *)
Definition naptr_str (data : list Z) (offset : Z) : outcome (list Z * Z) :=
  if n6_len data <? offset + 1 then Err E_RDATA
  else
    do l <- rd8 data offset;
    if n6_len data <? offset + 1 + l then Err E_RDATA
    else do s <- rdsl data (offset + 1) (offset + 1 + l); Ok (s, offset + 1 + l).

(* decodeRData 1350-1529; data is data[:end] of the message, offset the start of the RDATA *)
Definition decode_rdata (r : rr) (data : list Z) (offset : Z) (buf : list Z) : outcome (rr * list Z) :=
  let t := r_type r in
  if (t =? T_A) || (t =? T_AAAA) then Ok (rr_set_ip r (r_data r), buf)
  else if (t =? T_TXT) || (t =? T_HINFO) then
    do txts <- char_strings (r_data r);
    Ok (rr_set_txts (rr_set_txt r (r_data r)) txts, buf)
  else if t =? T_NS then
    do (name, l, _, buf') <- rd_name data offset buf;
    Ok (rr_meta_rdata (rr_set_ns r name) name l, buf')
  else if t =? T_CNAME then
    do (name, l, _, buf') <- rd_name data offset buf;
    Ok (rr_meta_rdata (rr_set_cname r name) name l, buf')
  else if t =? T_PTR then
    do (name, l, _, buf') <- rd_name data offset buf;
    Ok (rr_meta_rdata (rr_set_ptr r name) name l, buf')
  else if t =? T_SOA then
    do (n1, l1, endq, buf1) <- rd_name data offset buf;
    do (n2, l2, endq2, buf2) <- rd_name data endq buf1;
    if n6_len data <? endq2 + 20 then Err E_RDATA
    else
      do a <- rd32 data endq2;
      do b <- rd32 data (endq2 + 4);
      do c <- rd32 data (endq2 + 8);
      do d <- rd32 data (endq2 + 12);
      do e <- rd32 data (endq2 + 16);
      let r1 := rr_meta_rdata r n1 l1 in
      let r2 := rr_meta_rdata2 r1 n2 l2 in
      Ok (rr_set_soa r2 (mkSoa n1 n2 a b c d e), buf2)
  else if t =? T_MX then
    if n6_len data <? offset + 2 then Err E_RDATA
    else
      do p <- rd16 data offset;
      do (name, l, _, buf') <- rd_name data (offset + 2) buf;
      Ok (rr_meta_rdata (rr_set_mx r (mkMx p name)) name l, buf')
  else if t =? T_SRV then
    if n6_len data <? offset + 6 then Err E_RDATA
    else
      do p <- rd16 data offset;
      do w <- rd16 data (offset + 2);
      do po <- rd16 data (offset + 4);
      do (name, l, _, buf') <- rd_name data (offset + 6) buf;
      Ok (rr_meta_rdata (rr_set_srv r (mkSrv p w po name)) name l, buf')
  else if t =? T_URI then                                                   (* 1428-1434 *)
    if n6_len (r_data r) <? 4 then Err E_RDATA
    else
      do p <- rd16 data offset;
      do w <- rd16 data (offset + 2);
      do tg <- rdsl (r_data r) 4 (n6_len (r_data r));
      Ok (rr_set_uri r (mkUri p w tg), buf)
  else if t =? T_NAPTR then                                                 (* 1450-1498 *)
    if n6_len data <? offset + 4 then Err E_RDATA
    else
      do o <- rd16 data offset;
      do p <- rd16 data (offset + 2);
      do (fl, o1) <- naptr_str data (offset + 4);
      do (sv, o2) <- naptr_str data o1;
      do (re, o3) <- naptr_str data o2;
      do (name, l, _, buf') <- rd_name data o3 buf;
      Ok (rr_meta_rdata (rr_set_naptr r (mkNaptr o p fl sv re name)) name l, buf')
  else if t =? T_OPT then                                                   (* 1499-1504 *)
    do os <- decode_opts data offset; Ok (rr_set_opt r os, buf)
  else if t =? T_RRSIG then                                                 (* 1505-1512, DNSRRSIG.decode 1726-1748 *)
    if n6_len data <? offset + 18 then Err E_RDATA
    else
      do cov <- rd16 data offset;
      do alg <- rd8 data (offset + 2);
      do lab <- rd8 data (offset + 3);
      do ottl <- rd32 data (offset + 4);
      do ex <- rd32 data (offset + 8);
      do inc <- rd32 data (offset + 12);
      do tag <- rd16 data (offset + 16);
      (* the name buffer of this call is rrsig.SignerName itself, nil in the zero record *)
      match decode_name data (offset + 18) [] with
      | NErr e => Err e
      | NPanic s => Panic s
      | NOk _ l next sbuf =>
          let signer := if 1 <? n6_len sbuf then skipn 1 sbuf else sbuf in      (* 1740-1742 *)
          do sig <- rdsl data next (n6_len data);
          Ok (rr_meta_rdata (rr_set_rrsig r (mkRrsig cov alg lab ottl ex inc tag signer sig)) signer l, buf)
      end
  else if t =? T_DNSKEY then                                                (* 1513-1517, DNSKEY.decode 1815-1824 *)
    if n6_len data <? offset + 4 then Err E_RDATA
    else
      do fl <- rd16 data offset;
      do pr <- rd8 data (offset + 2);
      do al <- rd8 data (offset + 3);
      do key <- rdsl data (offset + 4) (n6_len data);
      Ok (rr_set_dnskey r (mkDnskey fl pr al key), buf)
  else if (t =? T_SVCB) || (t =? T_HTTPS) then                             (* 1518-1526, decodeSVCB 1309-1348 *)
    if offset =? n6_len data then Err E_RDATA
    else if offset + 3 >? n6_len data then Err E_RDATA
    else
      do prio <- rd16 data offset;
      do (target, l, ofs, buf') <- rd_name data (offset + 2) buf;
      do params <- svc_loop data (S (length data)) ofs [];
      Ok (rr_meta_rdata (rr_set_svcb r (mkSvcb prio target params)) target l, buf')
  else Ok (r, buf).

(* DNSResourceRecord.decode 1056-1087.  The Go code decodes into the zero record appended to the
   list and strips it on error, so a failed record leaves nothing behind. *)
Definition rr_decode (data : list Z) (offset : Z) (buf : list Z) : outcome (rr * Z * list Z) :=
  match decode_name data offset buf with
  | NErr e => Err e
  | NPanic s => Panic s
  | NOk name l endq buf1 =>
      if n6_len data <? endq + 10 then Err E_REC
      else
        do t <- rd16 data endq;
        do c <- rd16 data (endq + 2);
        do ttl <- rd32 data (endq + 4);
        do dl <- rd16 data (endq + 8);
        let end_ := endq + 10 + dl in
        if end_ >? n6_len data then Err E_REC
        else
          do rdata <- rdsl data (endq + 10) end_;
          let r := rr_meta_name (mkRR name t c ttl dl rdata [] [] [] [] [] soa0 srv0 mx0 naptr0 [] rrsig0
                                   dnskey0 svcb0 uri0 [] None) name l in
          if 0 <? dl then
            do dpre <- rdsl data 0 end_;                 (* data[:end] *)
            do (r', buf2) <- decode_rdata r dpre (endq + 10) buf1;
            Ok (r', end_, buf2)
          else Ok (r, end_, buf1)
  end.

(* the question loop 365-371: n iterations unless an error stops it; acc = d.Questions *)
Fixpoint q_loop (data : list Z) (n : nat) (offset : Z) (buf : list Z) (acc : list question)
  : list question * outcome (Z * list Z) :=
  match n with
  | O => (acc, Ok (offset, buf))
  | S n' =>
      match q_decode data offset buf with
      | Ok (q, off', buf') => q_loop data n' off' buf' (acc ++ [q])
      | Err e => (acc, Err e)
      | Panic s => (acc, Panic s)
      end
  end.

(* the three record loops 385-409.  ext = true for Additionals: the extended RCODE of an OPT record
   (406-408) is OR-ed into the response code as the records go by. *)
Fixpoint rr_loop (data : list Z) (ext : bool) (n : nat) (offset : Z) (buf : list Z) (acc : list rr) (rcode : Z)
  : list rr * Z * outcome (Z * list Z) :=
  match n with
  | O => (acc, rcode, Ok (offset, buf))
  | S n' =>
      match rr_decode data offset buf with
      | Ok (r, off', buf') =>
          let rcode' := if ext && (r_type r =? T_OPT)
                        then Z.lor (u8 rcode) (u8 (Z.land (Z.shiftr (r_ttl r) 20) 240)) else rcode in
          rr_loop data ext n' off' buf' (acc ++ [r]) rcode'
      | Err e => (acc, rcode, Err e)
      | Panic s => (acc, rcode, Panic s)
      end
  end.

Definition bit (b mask : Z) : bool := negb (Z.land b mask =? 0).

(* DNS.DecodeFromBytes 333-421 *)
Definition decode_into (old : dns) (data : list Z) : dres dns :=
  if n6_len data <? 12 then (old, Err E_SHORT, true)
  else
    match n6_idx data 2, n6_idx data 3, n6_slice data 0 2, n6_slice data 4 6, n6_slice data 6 8,
          n6_slice data 8 10, n6_slice data 10 12 with
    | Some b2, Some b3, Some sid, Some sqd, Some san, Some sns, Some sar =>
        let qd := be_val sqd in let an := be_val san in let ns := be_val sns in let ar := be_val sar in
        let rc0 := Z.land b3 15 in
        let mk qs ans aus ads rc :=
          mkDns (be_val sid) (bit b2 128) (Z.land (Z.shiftr b2 3) 15) (bit b2 4) (bit b2 2) (bit b2 1)
                (bit b3 128) (Z.land (Z.shiftr b3 4) 7) rc qd an ns ar qs ans aus ads data [] in
        match q_loop data (Z.to_nat qd) 12 [] [] with
        | (qs, Err e) => (mk qs [] [] [] rc0, Err e, false)
        | (qs, Panic s) => (mk qs [] [] [] rc0, Panic s, false)
        | (qs, Ok (off1, buf1)) =>
            match rr_loop data false (Z.to_nat an) off1 buf1 [] rc0 with
            | (ans, _, Err e) => (mk qs ans [] [] rc0, Err e, false)
            | (ans, _, Panic s) => (mk qs ans [] [] rc0, Panic s, false)
            | (ans, _, Ok (off2, buf2)) =>
                match rr_loop data false (Z.to_nat ns) off2 buf2 [] rc0 with
                | (aus, _, Err e) => (mk qs ans aus [] rc0, Err e, false)
                | (aus, _, Panic s) => (mk qs ans aus [] rc0, Panic s, false)
                | (aus, _, Ok (off3, buf3)) =>
                    match rr_loop data true (Z.to_nat ar) off3 buf3 [] rc0 with
                    | (ads, rc, Err e) => (mk qs ans aus ads rc, Err e, false)
                    | (ads, rc, Panic s) => (mk qs ans aus ads rc, Panic s, false)
                    | (ads, rc, Ok _) =>
                        (* 411-419: uint16(len(list)) != count *)
                        let d := mk qs ans aus ads rc in
                        if negb (u16 (Z.of_nat (length qs)) =? qd) then (d, Err E_COUNT, false)
                        else if negb (u16 (Z.of_nat (length ans)) =? an) then (d, Err E_COUNT, false)
                        else if negb (u16 (Z.of_nat (length aus)) =? ns) then (d, Err E_COUNT, false)
                        else if negb (u16 (Z.of_nat (length ads)) =? ar) then (d, Err E_COUNT, false)
                        else (d, Ok tt, false)
                    end
                end
            end
        end
    | _, _, _, _, _, _, _ => (old, Panic 6, false)
    end.

(* NextLayerType 429-431: always LayerTypePayload (decode.go:113, id 2) *)
Definition LT_Payload := 2.
Definition next_layer_type (d : dns) : Z := LT_Payload.

(* ================================================================ serialization *)

(* checked writes into the region returned by PrependBytes *)
Definition wr8 (d : list Z) (off v : Z) : outcome (list Z) :=            (* data[off] = v *)
  if (0 <=? off) && (off <? n6_len d) then Ok (n6_put d (Z.to_nat off) [v]) else Panic 10.
Definition wr16 (d : list Z) (off v : Z) : outcome (list Z) :=           (* PutUint16(data[off:], v) *)
  if (0 <=? off) && (off + 2 <=? n6_len d) then Ok (n6_put d (Z.to_nat off) (be_bytes 2 v)) else Panic 11.
Definition wr32 (d : list Z) (off v : Z) : outcome (list Z) :=           (* PutUint32(data[off:], v) *)
  if (0 <=? off) && (off + 4 <=? n6_len d) then Ok (n6_put d (Z.to_nat off) (be_bytes 4 v)) else Panic 12.
Definition wr_copy (d : list Z) (off : Z) (src : list Z) : outcome (list Z) :=   (* copy(data[off:], src) *)
  if (0 <=? off) && (off <=? n6_len d) then Ok (n6_put d (Z.to_nat off) src) else Panic 13.
(* `if data != nil { data[off] = v }`: the measuring pass of encodeDNSPresentationName has data = nil *)
Definition owr8 (d : option (list Z)) (off v : Z) : outcome (option (list Z)) :=
  match d with
  | None => Ok None
  | Some l => do l' <- wr8 l off v; Ok (Some l')
  end.

Fixpoint bytes_eqb (a b : list Z) : bool :=                              (* bytes.Equal *)
  match a, b with
  | [], [] => true
  | x :: a', y :: b' => (x =? y) && bytes_eqb a' b'
  | _, _ => false
  end.

(* usePreservedDNSLabels 632-634: Some labels = use them *)
Definition use_preserved (name : list Z) (m : option nmeta) : option (list (list Z)) :=
  match m with
  | Some m' =>
      match nm_labels m' with
      | Some ls => if bytes_eqb name (nm_orig m') then Some ls else None
      | None => None
      end
  | None => None
  end.

(* dnsNameLabelsSize 615-627 *)
Fixpoint labels_size_loop (ls : list (list Z)) (size : Z) : outcome Z :=
  match ls with
  | [] => Ok size
  | l :: t =>
      if n6_len l >? 63 then Err E_ENC
      else let size' := size + 1 + n6_len l in
           if size' >? 255 then Err E_ENC else labels_size_loop t size'
  end.
Definition labels_size (ls : list (list Z)) : outcome Z := labels_size_loop ls 1.

Definition is_digit (c : Z) : bool := (48 <=? c) && (c <=? 57).

(* encodeDNSPresentationName, the loop 534-594 over name[i]; `skip` = how many of the next bytes the
   Go loop jumps over by i++ / i += 3 after an escape (structural recursion on the rest of the name:
   no fuel).  State: labelOffset, offset, labelLen, lastWasSeparator, data. *)
Fixpoint ep_loop (nm : list Z) (skip : nat) (loff off llen : Z) (sep : bool) (data : option (list Z))
  : outcome (Z * Z * Z * bool * option (list Z)) :=
  match nm with
  | [] => Ok (loff, off, llen, sep, data)
  | c :: rest =>
      match skip with
      | S k => ep_loop rest k loff off llen sep data
      | O =>
          if c =? 46 then
            if llen >? 63 then Err E_ENC
            else do data' <- owr8 data loff (u8 llen); ep_loop rest 0 off (off + 1) 0 true data'
          else if c =? 92 then
            match rest with
            | [] => Err E_ENC                                        (* i+1 >= len(name) *)
            | next :: r2 =>
                if (next =? 46) || (next =? 92) then
                  do data' <- owr8 data off next; ep_loop rest 1 loff (off + 1) (llen + 1) false data'
                else if is_digit next then
                  match r2 with
                  | d2 :: d3 :: _ =>
                      if negb (is_digit d2) || negb (is_digit d3) then Err E_ENC
                      else
                        let v := (next - 48) * 100 + (d2 - 48) * 10 + (d3 - 48) in
                        if v >? 255 then Err E_ENC
                        else do data' <- owr8 data off v; ep_loop rest 3 loff (off + 1) (llen + 1) false data'
                  | _ => Err E_ENC                                   (* i+3 >= len(name) *)
                  end
                else
                  do d1 <- owr8 data off c;
                  do d2 <- owr8 d1 (off + 1) next;
                  ep_loop rest 1 loff (off + 2) (llen + 2) false d2
            end
          else do data' <- owr8 data off c; ep_loop rest 0 loff (off + 1) (llen + 1) false data'
      end
  end.

(* encodeDNSPresentationName 522-613: (size, data afterwards) *)
Definition enc_pres (name : list Z) (data : option (list Z)) (offset : Z) : outcome (Z * option (list Z)) :=
  if (n6_len name =? 0) || ((n6_len name =? 1) && (nth 0 name 0 =? 46)) then
    do d <- owr8 data offset 0; Ok (1, d)
  else
    do (loff, off, llen, sep, d1) <- ep_loop name 0 offset (offset + 1) 0 false data;
    if llen >? 63 then Err E_ENC
    else
      do (off2, d2) <- (if sep then Ok (loff, d1) else do d <- owr8 d1 loff (u8 llen); Ok (off, d));
      do d3 <- owr8 d2 off2 0;
      let size := off2 + 1 - offset in
      if size >? 255 then Err E_ENC else Ok (size, d3).

(* encodeDNSNameLabels 1089-1106 *)
Fixpoint el_loop (ls : list (list Z)) (data : list Z) (offset : Z) : outcome (list Z * Z) :=
  match ls with
  | [] => Ok (data, offset)
  | l :: t =>
      do d1 <- wr8 data offset (u8 (n6_len l));
      do d2 <- wr_copy d1 (offset + 1) l;
      el_loop t d2 (offset + 1 + n6_len l)
  end.
Definition enc_labels (ls : list (list Z)) (data : list Z) (offset : Z) : outcome (Z * list Z) :=
  do size <- labels_size ls;
  do (d1, off) <- el_loop ls data offset;
  do d2 <- wr8 d1 off 0;
  if negb (off + 1 - offset =? size) then Err E_ENC else Ok (size, d2).

(* encodeDNSName 1111-1116 *)
Definition enc_name (name : list Z) (m : option nmeta) (data : list Z) (offset : Z) : outcome (Z * list Z) :=
  match use_preserved name m with
  | Some ls => enc_labels ls data offset
  | None =>
      do (sz, d) <- enc_pres name (Some data) offset;
      match d with Some d' => Ok (sz, d') | None => Panic 14 end    (* owr8 keeps Some: not reachable *)
  end.

(* dnsNameSize 636-641 *)
Definition name_size (name : list Z) (m : option nmeta) : outcome Z :=
  match use_preserved name m with
  | Some ls => labels_size ls
  | None => do (sz, _) <- enc_pres name None 0; Ok sz
  end.

Definition sum_len (l : list (list Z)) : Z := fold_right (fun x a => n6_len x + a) 0 l.

(* recSize 643-706 *)
Definition rec_size (r : rr) : outcome Z :=
  let t := r_type r in
  if t =? T_A then Ok 4
  else if t =? T_AAAA then Ok 16
  else if t =? T_NS then name_size (r_ns r) (rdata_meta r)
  else if t =? T_CNAME then name_size (r_cname r) (rdata_meta r)
  else if t =? T_PTR then name_size (r_ptr r) (rdata_meta r)
  else if t =? T_SOA then
    do m <- name_size (so_mname (r_soa r)) (rdata_meta r);
    do n <- name_size (so_rname (r_soa r)) (rdata2_meta r);
    Ok (m + n + 20)
  else if t =? T_MX then do n <- name_size (mx_name (r_mx r)) (rdata_meta r); Ok (2 + n)
  else if t =? T_TXT then Ok (Z.of_nat (length (r_txts r)) + sum_len (r_txts r))
  else if t =? T_SRV then do n <- name_size (sv_name (r_srv r)) (rdata_meta r); Ok (6 + n)
  else if t =? T_NAPTR then
    do n <- name_size (na_repl (r_naptr r)) (rdata_meta r);
    Ok (4 + 1 + n6_len (na_flags (r_naptr r)) + 1 + n6_len (na_service (r_naptr r)) + 1
        + n6_len (na_regexp (r_naptr r)) + n)
  else if t =? T_URI then Ok (4 + n6_len (u_target (r_uri r)))
  else if t =? T_OPT then Ok (Z.of_nat (length (r_opt r)) * 4 + sum_len (map op_data (r_opt r)))
  else if t =? T_RRSIG then
    do n <- name_size (sg_signer (r_rrsig r)) (rdata_meta r); Ok (18 + n + n6_len (sg_sig (r_rrsig r)))
  else if t =? T_DNSKEY then Ok (4 + n6_len (dk_key (r_dnskey r)))
  else if (t =? T_SVCB) || (t =? T_HTTPS) then
    do n <- name_size (sb_target (r_svcb r)) (rdata_meta r);
    Ok (n + 2 + fold_right (fun p a => 4 + n6_len (sp_value p) + a) 0 (sb_params (r_svcb r)))
  else Ok 0.

(* computeSize 708-724 *)
Fixpoint compute_size (recs : list rr) : outcome Z :=
  match recs with
  | [] => Ok 0
  | r :: t =>
      do v <- name_size (r_name r) (owner_meta r);
      do rsz <- rec_size r;
      do rest <- compute_size t;
      Ok (v + 10 + rsz + rest)
  end.

Fixpoint q_size (qs : list question) : outcome Z :=        (* 729-736 *)
  match qs with
  | [] => Ok 0
  | q :: t => do s <- name_size (q_name q) (q_meta q); do rest <- q_size t; Ok (s + 4 + rest)
  end.

(* net.IP.To4 / To16 *)
Definition to4 (ip : list Z) : option (list Z) :=
  if n6_len ip =? 4 then Some ip
  else if (n6_len ip =? 16) && forallb (Z.eqb 0) (firstn 10 ip) && (nth 10 ip 0 =? 255) && (nth 11 ip 0 =? 255)
       then Some (skipn 12 ip) else None.
Definition to16 (ip : list Z) : option (list Z) :=
  if n6_len ip =? 4 then Some ([0;0;0;0;0;0;0;0;0;0;255;255] ++ ip)
  else if n6_len ip =? 16 then Some ip else None.

(* DNSQuestion.encode 954-963 *)
Definition q_encode (q : question) (data : list Z) (offset : Z) : outcome (Z * list Z) :=
  do (nsz, d1) <- enc_name (q_name q) (q_meta q) data offset;
  let noff := offset + nsz in
  do d2 <- wr16 d1 noff (q_type q);
  do d3 <- wr16 d2 (noff + 2) (q_class q);
  Ok (nsz + 4, d3).

(* the TXT loop 1168-1173 *)
Fixpoint txt_loop (txts : list (list Z)) (data : list Z) (noff2 : Z) : outcome (list Z) :=
  match txts with
  | [] => Ok data
  | t :: rest =>
      do d1 <- wr8 data noff2 (u8 (n6_len t));
      do d2 <- wr_copy d1 (noff2 + 1) t;
      txt_loop rest d2 (noff2 + 1 + n6_len t)
  end.

(* the OPT loop 1203-1208 *)
Fixpoint opt_enc_loop (os : list dopt) (data : list Z) (noff2 : Z) : outcome (list Z) :=
  match os with
  | [] => Ok data
  | o :: rest =>
      do d1 <- wr16 data noff2 (op_code o);
      do d2 <- wr16 d1 (noff2 + 2) (u16 (n6_len (op_data o)));
      do d3 <- wr_copy d2 (noff2 + 4) (op_data o);
      opt_enc_loop rest d3 (noff2 + 4 + n6_len (op_data o))
  end.

(* DNSSvcParam.encode 1666-1675 over svcb.Params 1603-1605 *)
Fixpoint svc_enc_loop (ps : list svcparam) (data : list Z) (offset : Z) : outcome (list Z) :=
  match ps with
  | [] => Ok data
  | p :: rest =>
      do d1 <- wr16 data offset (sp_key p);
      do d2 <- wr16 d1 (offset + 2) (u16 (n6_len (sp_value p)));
      do d3 <- wr_copy d2 (offset + 4) (sp_value p);
      svc_enc_loop rest d3 (offset + 4 + n6_len (sp_value p))
  end.

(* the switch on rr.Type of DNSResourceRecord.encode 1130-1221: the RDATA written at noff+10.
   orig = true: the unchanged code's A/AAAA cases (copy of To4()/IP whatever their length). *)
Definition rdata_encode (orig : bool) (r : rr) (d4 : list Z) (noff : Z) : outcome (list Z) :=
  let t := r_type r in
  if t =? T_A then
    match to4 (r_ip r) with
    | Some ip => wr_copy d4 (noff + 10) ip
    | None => if orig then wr_copy d4 (noff + 10) [] else Err E_ENC
    end
  else if t =? T_AAAA then
    if orig then wr_copy d4 (noff + 10) (r_ip r)
    else match to16 (r_ip r) with Some ip => wr_copy d4 (noff + 10) ip | None => Err E_ENC end
  else if t =? T_NS then do (_, d) <- enc_name (r_ns r) (rdata_meta r) d4 (noff + 10); Ok d
  else if t =? T_CNAME then do (_, d) <- enc_name (r_cname r) (rdata_meta r) d4 (noff + 10); Ok d
  else if t =? T_PTR then do (_, d) <- enc_name (r_ptr r) (rdata_meta r) d4 (noff + 10); Ok d
  else if t =? T_SOA then
    do (n1, da) <- enc_name (so_mname (r_soa r)) (rdata_meta r) d4 (noff + 10);
    do (n2, db) <- enc_name (so_rname (r_soa r)) (rdata2_meta r) da (noff + 10 + n1);
    let noff2 := noff + 10 + n1 + n2 in
    do dc <- wr32 db noff2 (so_serial (r_soa r));
    do dd <- wr32 dc (noff2 + 4) (so_refresh (r_soa r));
    do de <- wr32 dd (noff2 + 8) (so_retry (r_soa r));
    do df <- wr32 de (noff2 + 12) (so_expire (r_soa r));
    wr32 df (noff2 + 16) (so_minimum (r_soa r))
  else if t =? T_MX then
    do da <- wr16 d4 (noff + 10) (mx_pref (r_mx r));
    do (_, d) <- enc_name (mx_name (r_mx r)) (rdata_meta r) da (noff + 12); Ok d
  else if t =? T_TXT then txt_loop (r_txts r) d4 (noff + 10)
  else if t =? T_SRV then
    do da <- wr16 d4 (noff + 10) (sv_prio (r_srv r));
    do db <- wr16 da (noff + 12) (sv_weight (r_srv r));
    do dc <- wr16 db (noff + 14) (sv_port (r_srv r));
    do (_, d) <- enc_name (sv_name (r_srv r)) (rdata_meta r) dc (noff + 16); Ok d
  else if t =? T_NAPTR then                                                 (* 1181-1196 *)
    let n := r_naptr r in
    do da <- wr16 d4 (noff + 10) (na_order n);
    do db <- wr16 da (noff + 12) (na_pref n);
    do dc <- txt_loop [na_flags n; na_service n; na_regexp n] db (noff + 14);
    do (_, d) <- enc_name (na_repl n) (rdata_meta r) dc
                   (noff + 14 + 1 + n6_len (na_flags n) + 1 + n6_len (na_service n) + 1 + n6_len (na_regexp n));
    Ok d
  else if t =? T_URI then                                                   (* 1197-1200 *)
    do da <- wr16 d4 (noff + 10) (u_prio (r_uri r));
    do db <- wr16 da (noff + 12) (u_weight (r_uri r));
    wr_copy db (noff + 14) (u_target (r_uri r))
  else if t =? T_OPT then opt_enc_loop (r_opt r) d4 (noff + 10)              (* 1201-1208 *)
  else if t =? T_RRSIG then                                                 (* 1209-1212, DNSRRSIG.encode 1750-1765 *)
    let g := r_rrsig r in let off := noff + 10 in
    do da <- wr16 d4 off (sg_covered g);
    do db <- wr8 da (off + 2) (u8 (sg_alg g));
    do dc <- wr8 db (off + 3) (u8 (sg_labels g));
    do dd <- wr32 dc (off + 4) (sg_ottl g);
    do de <- wr32 dd (off + 8) (sg_exp g);
    do df <- wr32 de (off + 12) (sg_inc g);
    do dg <- wr16 df (off + 16) (sg_tag g);
    do (n, dh) <- enc_name (sg_signer g) (rdata_meta r) dg (off + 18);
    wr_copy dh (off + 18 + n) (sg_sig g)
  else if t =? T_DNSKEY then                                                (* 1213-1214, DNSKEY.encode 1826-1831 *)
    let k := r_dnskey r in let off := noff + 10 in
    do da <- wr16 d4 off (dk_flags k);
    do db <- wr8 da (off + 2) (u8 (dk_proto k));
    do dc <- wr8 db (off + 3) (u8 (dk_alg k));
    wr_copy dc (off + 4) (dk_key k)
  else if (t =? T_SVCB) || (t =? T_HTTPS) then                             (* 1215-1218, DNSSVCB.encode 1594-1607 *)
    let v := r_svcb r in let off := noff + 10 in
    do da <- wr16 d4 off (sb_prio v);
    do (n, db) <- enc_name (sb_target v) (rdata_meta r) da (off + 2);
    svc_enc_loop (sb_params v) db (off + 2 + n)
  else Err E_UNSUPPORTED.

(* DNSResourceRecord.encode 1118-1235: (bytes written, data, the record after FixLengths) *)
Definition rr_encode_gen (orig : bool) (r : rr) (data : list Z) (offset : Z) (fix_ : bool)
  : outcome (Z * list Z * rr) :=
  do (nsz, d1) <- enc_name (r_name r) (owner_meta r) data offset;
  let noff := offset + nsz in
  do d2 <- wr16 d1 noff (r_type r);
  do d3 <- wr16 d2 (noff + 2) (r_class r);
  do d4 <- wr32 d3 (noff + 4) (r_ttl r);
  do d5 <- rdata_encode orig r d4 noff;
  do dsz <- rec_size r;
  do d6 <- wr16 d5 (noff + 8) (u16 dsz);
  Ok (nsz + 10 + dsz, d6, if fix_ then rr_set_dlen r (u16 dsz) else r).

(* the loops 773-807: the records encoded so far carry their fixed DataLength, also when a later
   one fails *)
Fixpoint q_enc_loop (qs : list question) (data : list Z) (off : Z) : outcome (Z * list Z) :=
  match qs with
  | [] => Ok (off, data)
  | q :: t => do (n, d') <- q_encode q data off; q_enc_loop t d' (off + n)
  end.

Fixpoint rr_enc_loop (orig : bool) (rs : list rr) (data : list Z) (off : Z) (fix_ : bool)
  : list rr * outcome (Z * list Z) :=
  match rs with
  | [] => ([], Ok (off, data))
  | r :: t =>
      match rr_encode_gen orig r data off fix_ with
      | Ok (n, d', r') => let '(t', res) := rr_enc_loop orig t d' (off + n) fix_ in (r' :: t', res)
      | Err e => (r :: t, Err e)
      | Panic s => (r :: t, Panic s)
      end
  end.

Definition b2i (b : bool) : Z := if b then 1 else 0.
Definition zlen {A} (l : list A) : Z := Z.of_nat (length l).

Definition set_counts (d : dns) (qd an ns ar : Z) : dns :=
  mkDns (d_id d) (d_qr d) (d_opcode d) (d_aa d) (d_tc d) (d_rd d) (d_ra d) (d_z d) (d_rcode d) qd an ns ar
        (d_questions d) (d_answers d) (d_authorities d) (d_additionals d) (d_contents d) (d_payload d).
Definition set_records (d : dns) (ans aus ads : list rr) : dns :=
  mkDns (d_id d) (d_qr d) (d_opcode d) (d_aa d) (d_tc d) (d_rd d) (d_ra d) (d_z d) (d_rcode d)
        (d_qdcount d) (d_ancount d) (d_nscount d) (d_arcount d)
        (d_questions d) ans aus ads (d_contents d) (d_payload d).

(* DNS.SerializeTo 728-810.  payload = what the buffer already holds; junk = the prior content of
   the region PrependBytes returns; csum (ComputeChecksums) is not consulted.  Returns the buffer
   contents and the layer afterwards (FixLengths stores the counts and every DataLength).
   PrependBytes never fails (num >= 0). *)
Definition serialize_gen (orig : bool) (d : dns) (payload : list Z) (fix_ csum : bool) (junk : list Z)
  : outcome (list Z) * dns :=
  match (do a <- q_size (d_questions d);
         do b <- compute_size (d_answers d);
         do c <- compute_size (d_authorities d);
         do e <- compute_size (d_additionals d);
         Ok (a + b + c + e)) with
  | Err e => (Err e, d)
  | Panic s => (Panic s, d)
  | Ok dsz =>
      let region := fst (n6_take (Z.to_nat (12 + dsz)) junk) in
      let b2 := u8 (Z.lor (Z.lor (Z.lor (Z.lor (Z.shiftl (b2i (d_qr d)) 7) (Z.shiftl (d_opcode d) 3))
                    (Z.shiftl (b2i (d_aa d)) 2)) (Z.shiftl (b2i (d_tc d)) 1)) (b2i (d_rd d))) in
      let b3 := u8 (Z.lor (Z.lor (Z.shiftl (b2i (d_ra d)) 7) (Z.shiftl (d_z d) 4))
                          (if orig then d_rcode d else Z.land (d_rcode d) 15)) in
      let d1 := if fix_ then set_counts d (u16 (zlen (d_questions d))) (u16 (zlen (d_answers d)))
                                          (u16 (zlen (d_authorities d))) (u16 (zlen (d_additionals d)))
                else d in
      match (do h1 <- wr16 region 0 (d_id d);
             do h2 <- wr8 h1 2 b2;
             do h3 <- wr8 h2 3 b3;
             do h4 <- wr16 h3 4 (d_qdcount d1);
             do h5 <- wr16 h4 6 (d_ancount d1);
             do h6 <- wr16 h5 8 (d_nscount d1);
             do h7 <- wr16 h6 10 (d_arcount d1);
             q_enc_loop (d_questions d) h7 12) with
      | Err e => (Err e, d1)
      | Panic s => (Panic s, d1)
      | Ok (off1, by1) =>
          let '(ans, r1) := rr_enc_loop orig (d_answers d) by1 off1 fix_ in
          match r1 with
          | Err e => (Err e, set_records d1 ans (d_authorities d) (d_additionals d))
          | Panic s => (Panic s, set_records d1 ans (d_authorities d) (d_additionals d))
          | Ok (off2, by2) =>
              let '(aus, r2) := rr_enc_loop orig (d_authorities d) by2 off2 fix_ in
              match r2 with
              | Err e => (Err e, set_records d1 ans aus (d_additionals d))
              | Panic s => (Panic s, set_records d1 ans aus (d_additionals d))
              | Ok (off3, by3) =>
                  let '(ads, r3) := rr_enc_loop orig (d_additionals d) by3 off3 fix_ in
                  match r3 with
                  | Err e => (Err e, set_records d1 ans aus ads)
                  | Panic s => (Panic s, set_records d1 ans aus ads)
                  | Ok (_, by4) => (Ok (by4 ++ payload), set_records d1 ans aus ads)
                  end
              end
          end
      end
  end.

Definition serialize := serialize_gen false.
Definition serialize_orig := serialize_gen true.

(* Renderers.  gopacket.LayerString/LayerDump/LayerGoString are reflective and total on non-nil
   values (packet.go:301-372 after the LayerGoString repair).  The hand-written String methods —
   DNSResourceRecord.String 1237-1265, DNSOPT.String 1919-1921, DNSSVCB/DNSSvcParam/DNSRRSIG/DNSKEY
   .String, and the enum String methods 33-239 — contain no index, slice, division or pointer
   dereference: fmt.Sprintf, strings.Join, net.IP.String and string conversions only (make([]string,
   len(rr.OPT)) is indexed by range over the same slice).  So no state makes a renderer panic. *)
Definition render_panics (d : dns) : bool := false.

(* the round trip: serialize with FixLengths+ComputeChecksums over payload, decode the DNS part
   (a DNS layer has no payload of its own: Contents is the whole input) *)
Definition roundtrip (d : dns) (payload : list Z) (junk : list Z) : outcome (list Z) * dres dns :=
  match serialize d payload true true junk with
  | (Ok bytes, _) => (Ok bytes, decode_into dns_fresh (firstn (length bytes - length payload) bytes))
  | (Err e, d') => (Err e, (d', Err e, false))
  | (Panic s, d') => (Panic s, (d', Panic s, false))
  end.
