(* Lmpls — executable model of layers/mpls.go (MPLS label stack entry).  Definitions only.
   Line numbers of the repaired /repo/layers/mpls.go (agent-lmisc): ProtocolGuessingDecoder.Decode
   :38-51, decodeMPLS :61-79, SerializeTo :84-97.  MPLS has no DecodeFromBytes: the decoder
   function builds a new layer for every call (no receiver state, so C05 does not apply).
   decoded>>12 is decoded / 4096; uint8(decoded>>9) & 7 is ((decoded / 512) mod 256) mod 8. *)
From GP Require Import Base Codec MiscLib.
Open Scope Z_scope.

Record mpls := mkMpls {
  m_contents : list Z; m_payload : list Z;
  m_label : Z; m_tc : Z; m_bottom : bool; m_ttl : Z }.

Definition mpls_fresh : mpls := mkMpls [] [] 0 0 false 0.

(* decodeMPLS; the layer returned on an error is the zero value (nothing was added) *)
Definition mpls_decode (data : list Z) : mpls * outcome unit * bool :=
  let n := zlen data in
  if n <? 4 then (mpls_fresh, Err 1, true) else                                  (* :62-65 *)
  ml_bind (ml_rd32 data 0) mpls_fresh false (fun d =>                            (* :66 *)
  ml_bind (cd_slc data 0 4) mpls_fresh false (fun contents =>                    (* :72 *)
  ml_bind (cd_slc data 4 n) mpls_fresh false (fun payload =>
  (mkMpls contents payload (d / 4096) (((d / 512) mod 256) mod 8) ((d / 256) mod 2 =? 1) (d mod 256),
   Ok tt, false)))).                                                             (* :67-71 *)

(* next decoder handed to NextDecoder :75-78: 1 = MPLSPayloadDecoder, 2 = decodeMPLS again *)
Definition mpls_next (l : mpls) : Z := if m_bottom l then 1 else 2.

(* ProtocolGuessingDecoder.Decode: Ok 4 / Ok 6 = handed to decodeIPv4 / decodeIPv6, Err 1 = cannot
   guess; `orig` = before the repair (data[0] of empty data) *)
Definition mpls_guess_gen (orig : bool) (data : list Z) : outcome Z :=
  if negb orig && (zlen data =? 0) then Err 1 else                               (* :39-41 *)
  obind (cd_idx data 0) (fun b0 =>                                               (* :42 *)
  if (69 <=? b0) && (b0 <=? 79) then Ok 4                                        (* :44-45 *)
  else if (96 <=? b0) && (b0 <=? 111) then Ok 6                                  (* :47-48 *)
  else Err 1).                                                                   (* :50 *)
Definition mpls_guess := mpls_guess_gen false.
Definition mpls_guess_orig := mpls_guess_gen true.

Definition mpls_encoded (l : mpls) : Z :=
  let e := (m_label l * 4096) mod 4294967296 in                                  (* :89 *)
  let e := Z.lor e ((m_tc l * 512) mod 4294967296) in                            (* :90 *)
  let e := Z.lor e (m_ttl l) in                                                  (* :91 *)
  if m_bottom l then Z.lor e 256 else e.                                         (* :92-94 *)

Definition mpls_serialize (l : mpls) (payload : list Z) (fixl csum : bool) (junk : list Z)
    : outcome (list Z) * mpls :=
  let bytes0 := cd_region 4 junk in                                              (* :85 *)
  match ml_wrc bytes0 0 (ml_put32 (mpls_encoded l)) with                         (* :95 *)
  | Ok b => (Ok (b ++ payload), l)
  | Err c => (Err c, l)
  | Panic s => (Panic s, l)
  end.

(* MPLS has no String method and no flow accessor *)
Definition mpls_render_panics (l : mpls) : bool := false.
