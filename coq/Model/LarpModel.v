(* Larp — executable model of layers/arp.go (ARP codec).  Definitions only.
   Line numbers of /repo/layers/arp.go: DecodeFromBytes :43-68, SerializeTo :73-106,
   NextLayerType :114-116 (constant LayerTypePayload).  uint8(len(x)) is `mod 256`. *)
From GP Require Import Base Codec MiscLib.
Open Scope Z_scope.

Record arp := mkArp {
  a_contents : list Z; a_payload : list Z;
  a_addrtype : Z; a_proto : Z; a_hwsize : Z; a_protsize : Z; a_op : Z;
  a_shw : list Z; a_sprot : list Z; a_dhw : list Z; a_dprot : list Z }.

Definition arp_fresh : arp := mkArp [] [] 0 0 0 0 0 [] [] [] [].

Definition arp_decode_into (old : arp) (data : list Z) : arp * outcome unit * bool :=
  let n := zlen data in
  if n <? 8 then (old, Err 1, true) else                                         (* :44-47 *)
  ml_bind (cd_rd16 data 0) old false (fun at_ =>                                 (* :48 *)
  ml_bind (cd_rd16 data 2) old false (fun pr =>                                  (* :49 *)
  ml_bind (cd_idx data 4) old false (fun hw =>                                   (* :50 *)
  ml_bind (cd_idx data 5) old false (fun ps =>                                   (* :51 *)
  ml_bind (cd_rd16 data 6) old false (fun op =>                                  (* :52 *)
  let l1 := mkArp (a_contents old) (a_payload old) at_ pr hw ps op
                  (a_shw old) (a_sprot old) (a_dhw old) (a_dprot old) in
  let alen := 8 + 2 * hw + 2 * ps in                                             (* :55 *)
  if n <? alen then (l1, Err 2, true) else                                       (* :56-59 *)
  ml_bind (cd_slc data 8 (8 + hw)) l1 false (fun shw =>                          (* :60 *)
  ml_bind (cd_slc data (8 + hw) (8 + hw + ps)) l1 false (fun sprot =>            (* :61 *)
  ml_bind (cd_slc data (8 + hw + ps) (8 + 2 * hw + ps)) l1 false (fun dhw =>     (* :62 *)
  ml_bind (cd_slc data (8 + 2 * hw + ps) alen) l1 false (fun dprot =>            (* :63 *)
  ml_bind (cd_slc data 0 alen) l1 false (fun contents =>                         (* :65 *)
  ml_bind (cd_slc data alen n) l1 false (fun payload =>                          (* :66 *)
  (mkArp contents payload at_ pr hw ps op shw sprot dhw dprot, Ok tt, false)))))))))))).

(* NextLayerType :114-116 : gopacket.LayerTypePayload, whatever the state *)
Definition arp_next (l : arp) : Z := 0.

Definition arp_serialize (l : arp) (payload : list Z) (fixl csum : bool) (junk : list Z)
    : outcome (list Z) * arp :=
  let size := 8 + zlen (a_shw l) + zlen (a_sprot l) + zlen (a_dhw l) + zlen (a_dprot l) in   (* :74 *)
  let bytes0 := cd_region size junk in                                                        (* :75 *)
  let chk :=                                                                                  (* :79-88 *)
    if fixl then
      if negb (zlen (a_shw l) =? zlen (a_dhw l)) then inl 1
      else if negb (zlen (a_sprot l) =? zlen (a_dprot l)) then
        (* HwAddressSize has been assigned before the second check fails *)
        inr (Some (mkArp (a_contents l) (a_payload l) (a_addrtype l) (a_proto l) (zlen (a_shw l) mod 256)
                         (a_protsize l) (a_op l) (a_shw l) (a_sprot l) (a_dhw l) (a_dprot l)))
      else inr None
    else inr None in
  match chk with
  | inl c => (Err c, l)
  | inr (Some l') => (Err 2, l')
  | inr None =>
    let l1 := if fixl then mkArp (a_contents l) (a_payload l) (a_addrtype l) (a_proto l)
                                 (zlen (a_shw l) mod 256) (zlen (a_sprot l) mod 256) (a_op l)
                                 (a_shw l) (a_sprot l) (a_dhw l) (a_dprot l) else l in
    let r :=
      obind (ml_wrc bytes0 0 (cd_put16 (a_addrtype l1))) (fun b =>                 (* :90 *)
      obind (ml_wrc b 2 (cd_put16 (a_proto l1))) (fun b =>                         (* :91 *)
      obind (ml_wrc b 4 [a_hwsize l1 mod 256]) (fun b =>                           (* :92 *)
      obind (ml_wrc b 5 [a_protsize l1 mod 256]) (fun b =>                         (* :93 *)
      obind (ml_wrc b 6 (cd_put16 (a_op l1))) (fun b =>                            (* :94 *)
      obind (ml_copy b 8 (a_shw l1)) (fun b =>                                     (* :95-104 *)
      obind (ml_copy b (8 + zlen (a_shw l1)) (a_sprot l1)) (fun b =>
      obind (ml_copy b (8 + zlen (a_shw l1) + zlen (a_sprot l1)) (a_dhw l1)) (fun b =>
      ml_copy b (8 + zlen (a_shw l1) + zlen (a_sprot l1) + zlen (a_dhw l1)) (a_dprot l1))))))))) in
    match r with
    | Ok b => (Ok (b ++ payload), l1)
    | Err c => (Err c, l1)
    | Panic s => (Panic s, l1)
    end
  end.

(* ARP has no String method and no flow accessor: only the reflective renderers, total *)
Definition arp_render_panics (l : arp) : bool := false.
